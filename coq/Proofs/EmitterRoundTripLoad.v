(* C09 — the loader half of the end-to-end round trip for SIMPLE trees (Proofs/EmitterRoundTripDefs.v): the events the
   layout tree of the block-text node of a simple tree denotes (Spec/TokenGrammar.v), wrapped into one document with an
   explicit start, are loaded by the loader model as exactly one document, the tree's own value [to_yaml doc].
     (a) without anchors and tags the numbering pass is the identity: the events are the flattening of an event tree
         (Spec/BuildDocs.v) with anchor id 0 and no tag everywhere;
     (b) the loader refines the specification on every list of event trees (C07_refinement);
     (c) the specified value of that event tree is to_yaml of the tree: plain untagged scalars go through the resolver
         (C08/C09 scalar theorems), a mapping with pairwise different keys is its entry list in document order (C07). *)
From Coq Require Import List NArith ZArith Bool Arith Lia.
Import ListNotations.
Require Import Parser Resolver CoreSchema Loader LinkedMap BuildDocs SpecMapProofs LoaderProofs.
Require Import Emitter EmitterProofs EmitterScalar TokenGrammar FlowText BlockText EmitterRoundTripDefs.

(* ---------------- induction over block-text nodes ---------------- *)
Section BnodeInd.
  Variable P : bnode -> Prop.
  Hypothesis HW : forall w, P (BW w).
  Hypothesis HS : forall pl items, Forall P items -> P (BS pl items).
  Hypothesis HM : forall pl pairs, Forall (fun p : str * bnode => P (snd p)) pairs -> P (BM pl pairs).
  Hypothesis HI : forall items, Forall P items -> P (BI items).
  Fixpoint bnode_ind_rt (n : bnode) : P n :=
    match n with
    | BW w => HW w
    | BS pl items => HS pl items ((fix go (l : list bnode) : Forall P l :=
                         match l with [] => Forall_nil _ | x :: r => Forall_cons x (bnode_ind_rt x) (go r) end) items)
    | BM pl pairs => HM pl pairs ((fix go (l : list (str * bnode)) : Forall (fun p => P (snd p)) l :=
                         match l with [] => Forall_nil _ | p :: r => Forall_cons p (bnode_ind_rt (snd p)) (go r) end) pairs)
    | BI items => HI items ((fix go (l : list bnode) : Forall P l :=
                         match l with [] => Forall_nil _ | x :: r => Forall_cons x (bnode_ind_rt x) (go r) end) items)
    end.
End BnodeInd.

(* ---------------- (a) the event tree of a block-text node ---------------- *)
Definition wtree (w : str) : etree := BuildDocs.TScalar w Plain 0%N None.

Fixpoint et (n : bnode) : etree :=
  match n with
  | BW w => wtree w
  | BS _ items => TSeq 0%N None (map et items)
  | BM _ pairs => TMap 0%N None (map (fun p => (wtree (fst p), et (snd p))) pairs)
  | BI items => TSeq 0%N None (map et items)
  end.

Lemma events_items_cons f t r : events_items f (t :: r) = f t ++ events_items f r.
Proof. reflexivity. Qed.
Lemma events_pairs_cons f k v r : events_pairs f ((k, v) :: r) = f k ++ f v ++ events_pairs f r.
Proof. reflexivity. Qed.

Definition NumOK (n : bnode) : Prop :=
  forall e k, number [] e (pre_events (blt n) ++ k) = BuildDocs.events_of (et n) ++ number [] e k.

Lemma number_items items : Forall NumOK items -> forall e k,
  number [] e (flat_map pre_events (map blt items) ++ k)
  = events_items BuildDocs.events_of (map et items) ++ number [] e k.
Proof.
  intros HF. induction HF as [|x r Hx Hr IH]; intros e k; [reflexivity|].
  cbn [map flat_map]. rewrite events_items_cons, <- !app_assoc. rewrite (Hx e). rewrite IH. reflexivity.
Qed.

Lemma number_pairs (pairs : list (str * bnode)) : Forall (fun p => NumOK (snd p)) pairs -> forall e k,
  number [] e (flat_map (ent_pre pre_events) (map (fun p => (true, lword (fst p), (true, blt (snd p)))) pairs) ++ k)
  = events_pairs BuildDocs.events_of (map (fun p => (wtree (fst p), et (snd p))) pairs) ++ number [] e k.
Proof.
  intros HF. induction HF as [|p r Hp Hr IH]; intros e k; [reflexivity|].
  cbn [map flat_map ent_pre]. rewrite events_pairs_cons, <- !app_assoc.
  cbn [lword pre_events no_props pr_anchor pr_tag app number number1 env_step TokenGrammar.reg fst snd tag_ev wtree BuildDocs.events_of].
  rewrite (Hp e). rewrite IH. reflexivity.
Qed.

Lemma number_blt : forall n, NumOK n.
Proof.
  apply bnode_ind_rt.
  - intros w e k. reflexivity.
  - intros pl items IH e k. cbn [blt pre_events no_props pr_anchor pr_tag et BuildDocs.events_of].
    rewrite <- !app_comm_cons, <- !app_assoc.
    cbn [number number1 env_step TokenGrammar.reg fst snd tag_ev].
    rewrite (number_items items IH). reflexivity.
  - intros pl pairs IH e k. cbn [blt pre_events no_props pr_anchor pr_tag et BuildDocs.events_of].
    rewrite <- !app_comm_cons, <- !app_assoc.
    cbn [number number1 env_step TokenGrammar.reg fst snd tag_ev].
    rewrite (number_pairs pairs IH). reflexivity.
  - intros items IH e k. cbn [blt pre_events no_props pr_anchor pr_tag et BuildDocs.events_of].
    rewrite <- !app_comm_cons, <- !app_assoc.
    cbn [number number1 env_step TokenGrammar.reg fst snd tag_ev].
    rewrite (number_items items IH). reflexivity.
Qed.

(* the events of the layout tree of a block-text node are the flattening of its event tree *)
Theorem blt_events n : TokenGrammar.events_of (blt n) = BuildDocs.events_of (et n).
Proof.
  unfold TokenGrammar.events_of. pose proof (number_blt n env0 []) as H.
  cbn [number] in H. rewrite !app_nil_r in H. exact H.
Qed.

(* one document with an explicit start *)
Lemma wrap_is_stream t : wrap_events true (BuildDocs.events_of t) = stream_of [(true, t)].
Proof.
  unfold wrap_events, stream_of. cbn [events_docs]. rewrite app_nil_r. unfold events_doc. cbn [fst snd].
  rewrite <- !app_comm_cons, <- app_assoc. reflexivity.
Qed.

(* ---------------- (b) the loader on one anchor-free document ---------------- *)
Lemma load_one_doc t :
  exists ld, load_events (wrap_events true (BuildDocs.events_of t)) l0 = LOk ld
             /\ rev (l_docs ld) = [fst (build [] t)].
Proof.
  rewrite wrap_is_stream, loader_refines_spec. eexists. split; [reflexivity|].
  cbn [l_docs]. rewrite rev_involutive. cbn [build_docs snd]. destruct (build [] t) as [y m1]. reflexivity.
Qed.

(* ---------------- (c) the value of the event tree ---------------- *)
Lemma word_value w : value_of w Plain None = YVal (parse_from_cow w).
Proof. reflexivity. Qed.

Lemma in_i64_same z : in_i64_b z = in_i64 z.
Proof. reflexivity. Qed.

Lemma leaf_value k : simple_leaf k = true -> value_of (leaf_text k) Plain None = to_yaml k.
Proof.
  intros H. rewrite word_value. destruct k as [|b|z|t|s|l|l]; cbn [leaf_text to_yaml simple_leaf] in *.
  - reflexivity.
  - destruct b; vm_compute; reflexivity.
  - apply andb_prop in H as [H _]. rewrite in_i64_same in H. rewrite (int_text_round_trip z H). reflexivity.
  - reflexivity.
  - apply andb_prop in H as [_ H]. apply negb_true_iff in H. rewrite (plain_resolves_to_string s H). reflexivity.
  - discriminate.
  - discriminate.
Qed.

Lemma build_word k m : simple_leaf k = true -> build m (wtree (leaf_text k)) = (to_yaml k, m).
Proof. intros H. unfold wtree. cbn [build]. rewrite (leaf_value k H). reflexivity. Qed.

Lemma build_items_cons f m t r :
  build_items f m (t :: r) = let '(y, m1) := f m t in let '(ys, m2) := build_items f m1 r in (y :: ys, m2).
Proof. reflexivity. Qed.

Lemma lm_mem_keys k (l : list (yaml * yaml)) : lm_mem yaml_eqb k l = existsb (yaml_eqb k) (map fst l).
Proof. induction l as [|p r IH]; [reflexivity|]. cbn [lm_mem existsb map]. unfold lm_mem in IH. rewrite IH. reflexivity. Qed.

Lemma nodupb_keys (l : list (yaml * yaml)) : lm_nodupb yaml_eqb l = keys_distinct (map fst l).
Proof. induction l as [|p r IH]; [reflexivity|]. cbn [lm_nodupb keys_distinct map]. rewrite lm_mem_keys, IH. reflexivity. Qed.

Definition BuildOK (n : node) : Prop :=
  forall c i m, simple_node n = true -> build m (et (node_of c i n)) = (to_yaml n, m).

Lemma build_simple_items c (l : list node) : Forall BuildOK l -> forallb simple_node l = true -> forall m,
  build_items build m (map et (map (node_of c true) l)) = (map to_yaml l, m).
Proof.
  intros HF. induction HF as [|x r Hx Hr IH]; intros Hs m; [reflexivity|].
  cbn [forallb] in Hs. apply andb_prop in Hs as [Hsx Hsr].
  cbn [map]. rewrite build_items_cons. rewrite (Hx c true m Hsx). rewrite (IH Hsr m). reflexivity.
Qed.

Lemma build_simple_entries c (l : list (node * node)) :
  Forall (fun kv => BuildOK (fst kv) /\ BuildOK (snd kv)) l ->
  forallb (fun kv => simple_key (fst kv) && simple_node (snd kv)) l = true -> forall m,
  build_entries m (map (fun p => (wtree (fst p), et (snd p)))
                       (map (fun kv => (leaf_text (fst kv), node_of c false (snd kv))) l))
  = (map (fun kv => (to_yaml (fst kv), to_yaml (snd kv))) l, m).
Proof.
  intros HF. induction HF as [|kv r Hkv Hr IH]; intros Hs m; [reflexivity|].
  cbn [forallb] in Hs. apply andb_prop in Hs as [Hskv Hsr]. apply andb_prop in Hskv as [Hk Hv].
  unfold simple_key in Hk. apply andb_prop in Hk as [Hk _]. destruct Hkv as [_ Hbv].
  cbn [map build_entries fst snd]. rewrite (build_word (fst kv) m Hk). rewrite (Hbv c false m Hv).
  rewrite (IH Hsr m). reflexivity.
Qed.

Lemma build_simple : forall n, BuildOK n.
Proof.
  intros n. induction n as [|b|z|t|s|l IH|l IH] using node_ind'; intros c i m Hs.
  - exact (build_word NNull m Hs).
  - exact (build_word (NBool b) m Hs).
  - exact (build_word (NInt z) m Hs).
  - exact (build_word (NFloat t) m Hs).
  - exact (build_word (NStr s) m Hs).
  - cbn [simple_node] in Hs. apply andb_prop in Hs as [_ Hs].
    cbn [node_of et build to_yaml]. rewrite (build_simple_items c l IH Hs m). reflexivity.
  - cbn [simple_node] in Hs. apply andb_prop in Hs as [Hs Hd]. apply andb_prop in Hs as [_ Hs].
    cbn [node_of et build to_yaml]. rewrite build_pairs_entries. rewrite (build_simple_entries c l IH Hs m).
    cbn [fst snd]. fold (lm_collect yaml_eqb (map (fun kv => (to_yaml (fst kv), to_yaml (snd kv))) l)).
    rewrite distinct_keys_kept_in_order; [reflexivity|].
    rewrite nodupb_keys, map_map. cbn [fst]. exact Hd.
Qed.

Theorem build_simple_value c i n m : simple_node n = true -> fst (build m (et (node_of c i n))) = to_yaml n.
Proof. intros H. rewrite (build_simple n c i m H). reflexivity. Qed.

(* ---------------- the statement ---------------- *)
Theorem load_simple_events : forall c doc, simple_tree doc = true ->
  exists ld, load_events (wrap_events true (TokenGrammar.events_of (blt (node_of c true doc)))) l0 = LOk ld
             /\ rev (l_docs ld) = [to_yaml doc].
Proof.
  intros c doc H. unfold simple_tree in H. apply andb_prop in H as [H _]. apply andb_prop in H as [_ Hs].
  rewrite blt_events. destruct (load_one_doc (et (node_of c true doc))) as (ld & Hl & Hd).
  exists ld. split; [exact Hl|]. rewrite Hd, (build_simple_value c true doc [] Hs). reflexivity.
Qed.

Lemma simple_tree_value_refl : forall doc, yaml_eqb (to_yaml doc) (to_yaml doc) = true.
Proof. intros doc. apply yaml_eqb_refl. Qed.

Print Assumptions load_simple_events.
Print Assumptions simple_tree_value_refl.
