(* C03, scanner half: the scanner model (Model/SFetch.v over the string input) run on the text of a single-line flow
   collection of one-word plain scalars (Spec/FlowText.v) delivers exactly the tokens of the layout tree the text denotes;
   composed with the parser theorem: text -> events.
   Method: symbolic execution of the monadic model by [cbn] on states in the normal form [mkst] (everything the flow
   sub-language never touches is fixed: indent -1, no block indents, stream started), one lemma per kind of token
   ([ { ] } , : word), then induction on the text grammar.  The simple-key stack, the token queue with the back-inserted
   Key / FlowMappingStart tokens and the per-level implicit-mapping states are tracked exactly. *)
From Coq Require Import List NArith ZArith Bool Arith Lia.
Import ListNotations.
Require Import Parser SBase SPrim SDir SScalar SFetch Pipe Drivers TokenGrammar FlowText.
Open Scope N_scope.
Open Scope mon_scope.

#[local] Arguments N.add : simpl never.
#[local] Arguments N.sub : simpl never.
#[local] Arguments N.mul : simpl never.
#[local] Arguments Z.of_N : simpl never.
#[local] Arguments Z.ltb : simpl never.
#[local] Arguments Z.leb : simpl never.
#[local] Arguments Z.eqb : simpl never.
#[local] Arguments bind {I A B} m f s /.
#[local] Arguments ret {I A} a s /.
#[local] Arguments get {I} s /.
#[local] Arguments put {I} s _ /.
#[local] Arguments modify {I} f s /.
#[local] Arguments gets {I A} f s /.
#[local] Arguments fail {I A} site m _ /.
#[local] Arguments upd {I} s i m t /.
#[local] Arguments set_in {I} i s /.
#[local] Arguments set_mark {I} m s /.
#[local] Arguments set_tokens {I} t s /.
#[local] Arguments set_flags {I} s ss se adj ska ta lws /.
#[local] Arguments set_ska {I} b s /.
#[local] Arguments set_lws {I} b s /.
#[local] Arguments set_adj {I} n s /.
#[local] Arguments set_ta {I} b s /.
#[local] Arguments set_ss {I} b s /.
#[local] Arguments set_se {I} b s /.
#[local] Arguments set_struct {I} s sks ind inds fl tp ifms /.
#[local] Arguments set_sks {I} l s /.
#[local] Arguments set_indent {I} z l s /.
#[local] Arguments set_fl {I} n s /.
#[local] Arguments set_tp {I} n s /.
#[local] Arguments set_ifms {I} l s /.
(* the loops and the sub-scanners are only entered through their lemmas *)
#[local] Arguments skip_to_next_token : simpl never.
#[local] Arguments stale_simple_keys : simpl never.
#[local] Arguments plain_chunk : simpl never.
#[local] Arguments scan_plain_scalar : simpl never.
#[local] Arguments fetch_stream_start : simpl never.
#[local] Arguments fetch_stream_end : simpl never.
#[local] Arguments fetch_directive : simpl never.
#[local] Arguments fetch_document_indicator : simpl never.
#[local] Arguments fetch_flow_collection_start : simpl never.
#[local] Arguments fetch_flow_collection_end : simpl never.
#[local] Arguments fetch_flow_entry : simpl never.
#[local] Arguments fetch_block_entry : simpl never.
#[local] Arguments fetch_key : simpl never.
#[local] Arguments fetch_value : simpl never.
#[local] Arguments fetch_flow_value : simpl never.
#[local] Arguments fetch_anchor : simpl never.
#[local] Arguments fetch_tag : simpl never.
#[local] Arguments fetch_block_scalar : simpl never.
#[local] Arguments fetch_flow_scalar : simpl never.
#[local] Arguments fetch_plain_scalar : simpl never.
#[local] Arguments fetch_next_token : simpl never.
#[local] Arguments fetch_more_tokens : simpl never.
#[local] Arguments next_token : simpl never.
#[local] Arguments scan_all : simpl never.

(* ---------- states in normal form ---------- *)
Definition mkst (chars : list chr) (look : nat) (mk : marker) (toks : list token) (adj : N) (ska : bool)
   (sks : list simple_key) (fl : N) (tp : N) (ta : bool) (lws : bool) (ifms : list ims) : sc strin :=
  {| sc_in := {| si_chars := chars; si_look := look |}; sc_mark := mk; sc_tokens := toks;
     sc_stream_start := true; sc_stream_end := false; sc_adjacent := adj; sc_ska := ska; sc_sks := sks;
     sc_indent := (-1)%Z; sc_indents := []; sc_flow_level := fl; sc_tokens_parsed := tp;
     sc_token_available := ta; sc_lws := lws; sc_ifms := ifms |}.
(* a position on the first line *)
Definition mk1 (n : N) : marker := {| m_index := n; m_line := 1; m_col := n |}.

Definition skey (p : bool) (tn : N) (m : marker) : simple_key :=
  {| sk_possible := p; sk_required := false; sk_token_number := tn; sk_mark := m |}.
Definition dummy_key : simple_key := skey false 0 mk0.

(* ---------- characters of words ---------- *)
Lemma wch_facts c : wch c = true ->
  is_blank_or_breakz c = false /\ is_flow c = false /\
  (c =? 58) = false /\ (c =? 35) = false /\ (c =? 45) = false /\ (c =? 63) = false /\ (c =? 42) = false /\
  (c =? 38) = false /\ (c =? 33) = false /\ (c =? 124) = false /\ (c =? 62) = false /\ (c =? 39) = false /\
  (c =? 34) = false /\ (c =? 37) = false /\ (c =? 64) = false /\ (c =? 96) = false.
Proof.
  unfold wch, special. cbn [existsb]. intros H.
  apply andb_prop in H as [H H3]. apply andb_prop in H as [H1 H2].
  apply negb_true_iff in H1, H2, H3. repeat (apply orb_false_elim in H3 as [? H3]). tauto.
Qed.

Lemma blankz_facts c : is_blank_or_breakz c = false ->
  (c =? 32) = false /\ (c =? 9) = false /\ (c =? 10) = false /\ (c =? 13) = false /\ (c =? 0) = false.
Proof.
  unfold is_blank_or_breakz, is_blank, is_breakz, is_break, is_z. intros H.
  repeat (apply orb_false_elim in H as [H ?]). repeat match goal with H : _ || _ = false |- _ => apply orb_false_elim in H as [? ?] end. tauto.
Qed.
Lemma flow_facts c : is_flow c = false ->
  (c =? 44) = false /\ (c =? 91) = false /\ (c =? 93) = false /\ (c =? 123) = false /\ (c =? 125) = false.
Proof.
  unfold is_flow. intros H. repeat (apply orb_false_elim in H as [H ?]). tauto.
Qed.

(* ---------- fetch_next_token: the part before the dispatch on the first character ---------- *)
Definition fnt_rest (F : nat) : M unit :=
  s <- get ;;
  c0 <- peek str_ops ;;
  dstart <- (if m_col (sc_mark s) =? 0 then if c0 =? 37 then ret false else next_is_document_start str_ops else ret false) ;;
  dend <- (if (m_col (sc_mark s) =? 0) && negb (c0 =? 37) && negb dstart then next_is_document_end str_ops else ret false) ;;
  if (m_col (sc_mark s) =? 0) && (c0 =? 37) then fetch_directive str_ops F
  else if dstart then fetch_document_indicator str_ops TDocumentStart
  else if dend then
    fetch_document_indicator str_ops TDocumentEnd ;;;
    skip_ws_to_eol str_ops F SkipYes ;;;
    b <- next_is str_ops is_breakz ;;
    if b then ret tt else m <- mark ;; fail 101 m
  else
  if (Z.of_N (m_col (sc_mark s)) <? sc_indent s)%Z then fail 102 (sc_mark s) else
  c <- peek str_ops ;; nc <- peekn str_ops 1 ;;
  let fl := 0 <? sc_flow_level s in
  let bz := is_blank_or_breakz nc in
  if c =? 91 then fetch_flow_collection_start str_ops F true
  else if c =? 123 then fetch_flow_collection_start str_ops F false
  else if c =? 93 then fetch_flow_collection_end str_ops F true
  else if c =? 125 then fetch_flow_collection_end str_ops F false
  else if c =? 44 then fetch_flow_entry str_ops F
  else if (c =? 45) && bz then fetch_block_entry str_ops F
  else if (c =? 63) && bz then fetch_key str_ops F
  else if (c =? 58) && bz then fetch_value str_ops F
  else if (c =? 58) && fl && (is_flow nc || (m_index (sc_mark s) =? sc_adjacent s)) then fetch_flow_value str_ops F
  else if c =? 42 then fetch_anchor str_ops F true
  else if c =? 38 then fetch_anchor str_ops F false
  else if c =? 33 then fetch_tag str_ops F
  else if (c =? 124) && negb fl then fetch_block_scalar str_ops F true
  else if (c =? 62) && negb fl then fetch_block_scalar str_ops F false
  else if c =? 39 then fetch_flow_scalar str_ops F true
  else if c =? 34 then fetch_flow_scalar str_ops F false
  else if (c =? 45) && negb bz then fetch_plain_scalar str_ops F
  else if ((c =? 58) || (c =? 63)) && negb bz && negb fl then fetch_plain_scalar str_ops F
  else if (c =? 37) || (c =? 64) || (c =? 96) then fail 103 (sc_mark s)
  else fetch_plain_scalar str_ops F.

#[local] Arguments fnt_rest : simpl never.

Lemma fnt_unfold F :
  fetch_next_token str_ops F =
  (look str_ops 1 ;;;
   s <- get ;;
   if negb (sc_stream_start s) then fetch_stream_start else
   skip_to_next_token str_ops F ;;;
   stale_simple_keys ;;;
   m <- mark ;;
   unroll_indent (Z.of_N (m_col m)) ;;;
   look str_ops 4 ;;;
   z <- next_is str_ops is_z ;;
   if z then fetch_stream_end else fnt_rest F).
Proof. reflexivity. Qed.

Ltac rwf := repeat match goal with H : @eq bool _ _ |- _ => rewrite H end.
Ltac ev := repeat (cbn; rwf).

(* rewrite with a lemma stated on [mkst] in a goal where the states are unfolded records *)
Ltac rw_st E := let H := fresh "E" in pose proof E as H; unfold mkst in H; rewrite H; clear H.
Ltac rw_sk E := let H := fresh "E" in pose proof E as H; unfold mkst in H; rewrite H; clear H.

Lemma max_1_1 l : Nat.max (Nat.max l 1) 1 = Nat.max l 1.
Proof. lia. Qed.

Lemma mk1_adv n k : adv k (mk1 n) = mk1 (n + k).
Proof. reflexivity. Qed.

(* blanks before a token (the one after ':') *)
Lemma skip_spaces k : forall F cs l n q adj ska sks fl tp ta lws ifms c,
  (k < F)%nat -> is_blank_or_breakz c = false -> (c =? 35) = false ->
  skip_to_next_token str_ops F (mkst (repeat 32 k ++ c :: cs) l (mk1 n) q adj ska sks fl tp ta lws ifms)
  = Ok (tt, mkst (c :: cs) (Nat.max l 1) (mk1 (n + N.of_nat k)) q adj ska sks fl tp ta lws ifms).
Proof.
  induction k as [|k IH]; intros F cs l n q adj ska sks fl tp ta lws ifms c HF Hb H35;
    (destruct F as [|F]; [lia|]); apply blankz_facts in Hb as (H32 & H9 & H10 & H13 & H0).
  - unfold skip_to_next_token, mkst. ev. rewrite N.add_0_r. reflexivity.
  - unfold skip_to_next_token. fold (skip_to_next_token str_ops F). unfold mkst. ev.
    change (skip_to_next_token str_ops F (mkst (repeat 32 k ++ c :: cs) (Nat.max l 1) (mk1 (n + 1)) q adj ska sks fl tp ta lws ifms)
            = Ok (tt, mkst (c :: cs) (Nat.max l 1) (mk1 (n + N.of_nat (S k))) q adj ska sks fl tp ta lws ifms)).
    rewrite IH; [| lia | unfold is_blank_or_breakz, is_blank, is_breakz, is_break, is_z; rwf; reflexivity | exact H35].
    rewrite max_1_1. do 3 f_equal. unfold mk1. f_equal; lia.
Qed.

Lemma existsb_false {A} (f : A -> bool) l : (forall x, f x = false) -> existsb f l = false.
Proof. intros H. induction l as [|x l IH]; cbn; [reflexivity|]. rewrite H, IH. reflexivity. Qed.
Lemma map_same {A} (f : A -> A) l : (forall x, f x = x) -> map f l = l.
Proof. intros H. induction l as [|x l IH]; cbn; [reflexivity|]. rewrite H, IH. reflexivity. Qed.

Lemma fl_pos_facts fl : 0 < fl -> (fl =? 0) = false /\ (0 <? fl) = true.
Proof. intros H. split; [apply N.eqb_neq; lia | apply N.ltb_lt; exact H]. Qed.

(* in flow context no simple key goes stale *)
Lemma stale_flow cs l mk q adj ska sks fl tp ta lws ifms : 0 < fl ->
  stale_simple_keys (mkst cs l mk q adj ska sks fl tp ta lws ifms) = Ok (tt, mkst cs l mk q adj ska sks fl tp ta lws ifms).
Proof.
  intros Hfl. destruct (fl_pos_facts fl Hfl) as [H0 H1]. unfold stale_simple_keys, mkst. cbn.
  rewrite existsb_false by (intros x; rewrite H0, andb_false_r; reflexivity).
  rewrite map_same by (intros x; rewrite H0, andb_false_r; reflexivity). reflexivity.
Qed.

Lemma col_not_lt_indent n : (Z.of_N n <? -1)%Z = false.
Proof. apply Z.ltb_ge. lia. Qed.

Lemma fnt_prefix F k c cs l n q adj ska sks fl tp ta lws ifms :
  (k < F)%nat -> is_blank_or_breakz c = false -> (c =? 35) = false -> 0 < fl ->
  fetch_next_token str_ops F (mkst (repeat 32 k ++ c :: cs) l (mk1 n) q adj ska sks fl tp ta lws ifms)
  = fnt_rest F (mkst (c :: cs) (Nat.max l 4) (mk1 (n + N.of_nat k)) q adj ska sks fl tp ta lws ifms).
Proof.
  intros HF Hb H35 Hfl. destruct (fl_pos_facts fl Hfl) as [Hf0 Hf1].
  pose proof (blankz_facts c Hb) as (H32 & H9 & H10 & H13 & H0).
  rewrite fnt_unfold. unfold mkst. cbn.
  rw_st (skip_spaces k F cs (Nat.max l 1) n q adj ska sks fl tp ta lws ifms c HF Hb H35).
  rw_st (stale_flow (c :: cs) (Nat.max (Nat.max l 1) 1) (mk1 (n + N.of_nat k)) q adj ska sks fl tp ta lws ifms Hfl). cbn. rewrite Hf1. cbn.
  unfold is_z. rewrite H0.
  replace (Nat.max (Nat.max (Nat.max l 1) 1) 4) with (Nat.max l 4) by lia. reflexivity.
Qed.

(* ---------- the dispatch on the first character, away from column 0 ---------- *)
Section Dispatch.
Variables (F : nat) (cs : list N) (l : nat) (n : N) (q : list token) (adj : N) (ska : bool) (sks : list simple_key)
          (fl tp : N) (ta lws : bool) (ifms : list ims).
Hypothesis Hn : (n =? 0) = false.
Let st (chars : list N) := mkst chars l (mk1 n) q adj ska sks fl tp ta lws ifms.

Ltac disp := unfold fnt_rest, st, mkst; cbn; rewrite Hn; cbn; rewrite col_not_lt_indent; cbn; reflexivity.

Lemma rest_91 : fnt_rest F (st (91 :: cs)) = fetch_flow_collection_start str_ops F true (st (91 :: cs)).
Proof. disp. Qed.
Lemma rest_123 : fnt_rest F (st (123 :: cs)) = fetch_flow_collection_start str_ops F false (st (123 :: cs)).
Proof. disp. Qed.
Lemma rest_93 : fnt_rest F (st (93 :: cs)) = fetch_flow_collection_end str_ops F true (st (93 :: cs)).
Proof. disp. Qed.
Lemma rest_125 : fnt_rest F (st (125 :: cs)) = fetch_flow_collection_end str_ops F false (st (125 :: cs)).
Proof. disp. Qed.
Lemma rest_44 : fnt_rest F (st (44 :: cs)) = fetch_flow_entry str_ops F (st (44 :: cs)).
Proof. disp. Qed.
Lemma rest_58 : fnt_rest F (st (58 :: 32 :: cs)) = fetch_value str_ops F (st (58 :: 32 :: cs)).
Proof. disp. Qed.
Lemma rest_word c : wch c = true -> fnt_rest F (st (c :: cs)) = fetch_plain_scalar str_ops F (st (c :: cs)).
Proof.
  intros Hc. destruct (wch_facts c Hc) as (Hb & Hfw & H58 & H35 & H45 & H63 & H42 & H38 & H33 & H124 & H62 & H39 & H34 & H37 & H64 & H96).
  destruct (flow_facts c Hfw) as (H44 & H91 & H93 & H123 & H125).
  unfold fnt_rest, st, mkst. cbn. rewrite Hn. cbn. rewrite col_not_lt_indent. cbn. rwf. cbn. reflexivity.
Qed.
End Dispatch.

(* ---------- one lemma per kind of token ---------- *)
Lemma indent_ne_col n : (-1 =? Z.of_N n)%Z = false.
Proof. apply Z.eqb_neq. lia. Qed.

Definition not_ws (c : N) : Prop := (c =? 32) = false /\ (c =? 9) = false /\ (c =? 35) = false.

#[local] Arguments skip_ws_to_eol : simpl never.

(* skip_ws_to_eol in front of a token / over one blank *)
Lemma ws_none F (s : sc strin) c' cs : si_chars (sc_in s) = c' :: cs -> not_ws c' -> (1 <= F)%nat ->
  skip_ws_to_eol str_ops F SkipYes s
  = Ok ((false, false), set_in {| si_chars := c' :: cs; si_look := Nat.max (si_look (sc_in s)) 1 |} s).
Proof.
  intros Hc (H32 & H9 & H35) HF. destruct F as [|F]; [lia|].
  destruct s as [[chars look] mk toks ss se adj ska sks ind inds fl tp ta lws ifms]. cbn in Hc. subst chars.
  unfold skip_ws_to_eol, in_skip_ws_to_eol. ev. unfold adv. destruct mk as [mi ml mc]. cbn. rewrite !N.add_0_r. reflexivity.
Qed.

Lemma ws_one F (s : sc strin) c' cs : si_chars (sc_in s) = 32 :: c' :: cs -> not_ws c' -> (2 <= F)%nat ->
  skip_ws_to_eol str_ops F SkipYes s
  = Ok ((false, true), set_mark (adv 1 (sc_mark s)) (set_in {| si_chars := c' :: cs; si_look := Nat.max (si_look (sc_in s)) 1 |} s)).
Proof.
  intros Hc (H32 & H9 & H35) HF. destruct F as [|[|F]]; [lia|lia|].
  destruct s as [[chars look] mk toks ss se adj ska sks ind inds fl tp ta lws ifms]. cbn in Hc. subst chars.
  unfold skip_ws_to_eol, in_skip_ws_to_eol. ev. rewrite max_1_1. unfold adv. destruct mk as [mi ml mc]. cbn. rewrite !N.add_0_l. reflexivity.
Qed.

(* '[' / '{' *)
Lemma open_step F seq b c' cs l n q adj ska hd tls fl tp ta lws ifms :
  (1 <= F)%nat -> (fl =? 255) = false -> not_ws c' ->
  fetch_flow_collection_start str_ops F seq (mkst (b :: c' :: cs) l (mk1 n) q adj ska (hd :: tls) fl tp ta lws ifms)
  = Ok (tt, mkst (c' :: cs) (Nat.max l 1) (mk1 (n + 1))
              (q ++ [(spn (mk1 n) (mk1 (n + 1)), if seq then TFlowSequenceStart else TFlowMappingStart)]) adj true
              (dummy_key :: (if ska then skey true (tp + N.of_nat (length q)) (mk1 n) else hd) :: tls) (fl + 1) tp ta false
              ((if seq then ImPossible else ImMapping) :: ifms)).
Proof.
  intros HF H255 Hws.
  unfold fetch_flow_collection_start, mkst. destruct ska.
  - cbn. rewrite indent_ne_col, andb_false_r. cbn. rewrite andb_false_r. cbn. unfold FLOW_LEVEL_MAX. rewrite H255. ev.
    erewrite ws_none; [| reflexivity | exact Hws | exact HF]. cbn. reflexivity.
  - cbn. rewrite andb_false_r. cbn. unfold FLOW_LEVEL_MAX. rewrite H255. ev.
    erewrite ws_none; [| reflexivity | exact Hws | exact HF]. cbn. reflexivity.
Qed.

(* the FlowMappingEnd token that ends an implicit single pair *)
Definition fme (top : ims) (m : marker) : list token :=
  match top with ImInside => [(span_empty m, TFlowMappingEnd)] | _ => [] end.
Definition after_pair (top : ims) : ims :=
  match top with ImInside | ImInsideExplicitKey => ImPossible | t => t end.

(* the state on top of the implicit-mapping stack while the entries of a '[' (seq) / '{' are read *)
Definition top_ok (seq : bool) (top : ims) : Prop :=
  if seq then top = ImPossible \/ top = ImInside else top = ImMapping.

(* ']' / '}': the closer matches the level it closes (check_flow_closer, /repo 88700d3) *)
Lemma close_step F seq b c' cs l n q adj ska p tn m hd2 tls fl tp ta lws top ifr :
  (1 <= F)%nat -> 0 < fl -> not_ws c' -> top_ok seq top ->
  fetch_flow_collection_end str_ops F seq (mkst (b :: c' :: cs) l (mk1 n) q adj ska (skey p tn m :: hd2 :: tls) fl tp ta lws (top :: ifr))
  = Ok (tt, mkst (c' :: cs) (Nat.max l 1) (mk1 (n + 1))
              ((q ++ (if seq then fme top (mk1 n) else [])) ++ [(spn (mk1 n) (mk1 (n + 1)), if seq then TFlowSequenceEnd else TFlowMappingEnd)])
              (if 0 <? fl - 1 then n + 1 else adj) false (hd2 :: tls) (fl - 1) tp ta false ifr).
Proof.
  intros HF Hfl Hws Htop. destruct (fl_pos_facts fl Hfl) as [Hf0 Hf1].
  unfold fetch_flow_collection_end, check_flow_closer, mkst, skey.
  destruct seq; cbn in Htop.
  - destruct Htop as [-> | ->]; cbn; rewrite andb_false_r; cbn; rewrite Hf1; cbn;
      (erewrite ws_none; [| reflexivity | exact Hws | exact HF]); cbn;
      destruct (0 <? fl - 1); cbn; rewrite ?app_nil_r; reflexivity.
  - subst top. cbn. rewrite andb_false_r. cbn. rewrite Hf1. cbn.
    (erewrite ws_none; [| reflexivity | exact Hws | exact HF]); cbn.
    destruct (0 <? fl - 1); cbn; rewrite ?app_nil_r; reflexivity.
Qed.

(* ', ' *)
Lemma comma_step F c' cs l n q adj ska p tn m tls fl tp ta lws top ifr :
  (2 <= F)%nat -> not_ws c' ->
  fetch_flow_entry str_ops F (mkst (44 :: 32 :: c' :: cs) l (mk1 n) q adj ska (skey p tn m :: tls) fl tp ta lws (top :: ifr))
  = Ok (tt, mkst (c' :: cs) (Nat.max l 1) (mk1 (n + 1 + 1))
              ((q ++ fme top (mk1 n)) ++ [(spn (mk1 n) (mk1 (n + 1 + 1)), TFlowEntry)])
              adj true (skey false tn m :: tls) fl tp ta false (after_pair top :: ifr)).
Proof.
  intros HF Hws.
  unfold fetch_flow_entry, mkst, skey. cbn. rewrite andb_false_r. cbn.
  destruct top; cbn; (erewrite ws_one; [| reflexivity | exact Hws | exact HF]); cbn; rewrite ?app_nil_r; reflexivity.
Qed.

(* ': ' behind a one-word key: Key (and FlowMappingStart) go in front of the key's scalar *)
Lemma insert_at_app {A} (x : A) q0 r : insert_at (length q0) x (q0 ++ r) = Some (q0 ++ x :: r).
Proof. induction q0 as [|y q0 IH]; cbn [length insert_at app]; [destruct r; reflexivity|]. rewrite IH. reflexivity. Qed.

Lemma insert_token_app (s : sc strin) tp t q0 r : sc_tokens s = q0 ++ r ->
  insert_token (tp + N.of_nat (length q0) - tp) t s = Ok (tt, set_tokens (q0 ++ t :: r) s).
Proof.
  intros H. unfold insert_token. replace (N.to_nat (tp + N.of_nat (length q0) - tp)) with (length q0) by lia.
  rewrite H, insert_at_app. reflexivity.
Qed.
#[local] Arguments insert_token : simpl never.

(* fetch_value (/repo 597a354): only a ':' met in state Possible STARTS the implicit single-pair mapping; Possible and Inside
   both count as "inside an implicit mapping" for the checks on the key (one line, /repo 57aa316: at most 1024 characters) *)
Definition starts_ifm (top : ims) : bool := match top with ImPossible => true | _ => false end.
Definition is_ifm (top : ims) : bool := match top with ImPossible | ImInside => true | _ => false end.

Lemma value_step F cs l n q0 kt adj ska nk tls fl tp ta lws top ifr :
  0 < fl -> (is_ifm top = true -> n <= nk + SIMPLE_KEY_MAX) ->
  fetch_value str_ops F (mkst (58 :: 32 :: cs) l (mk1 n) (q0 ++ [kt]) adj ska
                           (skey true (tp + N.of_nat (length q0)) (mk1 nk) :: tls) fl tp ta lws (top :: ifr))
  = Ok (tt, mkst (32 :: cs) l (mk1 (n + 1))
              ((q0 ++ (if starts_ifm top then [(span_empty (mk1 nk), TFlowMappingStart)] else []) ++ [(span_empty (mk1 nk), TKey); kt])
                ++ [(span_empty (mk1 n), TValue)])
              adj false (skey false (tp + N.of_nat (length q0)) (mk1 nk) :: tls) fl tp ta false
              ((if starts_ifm top then ImInside else top) :: ifr)).
Proof.
  intros Hfl Hlim. destruct (fl_pos_facts fl Hfl) as [Hf0 Hf1].
  assert (Hlt : (tp + N.of_nat (length q0) <? tp) = false) by (apply N.ltb_ge; lia).
  assert (Hk : is_ifm top = true -> (nk + SIMPLE_KEY_MAX <? n) = false) by (intros H; apply N.ltb_ge, Hlim, H).
  unfold fetch_value, mkst, skey.
  destruct top; cbn in Hk; cbn; rewrite Hf0; cbn; rewrite Hlt; cbn;
    (erewrite insert_token_app; [| reflexivity]); cbn; rewrite ?Hk by reflexivity; cbn;
    try (erewrite insert_token_app; [| reflexivity]); cbn; rewrite ?Hf1, ?Hf0; cbn; rewrite ?Hf1, ?Hf0; cbn; reflexivity.
Qed.

(* ---------- words ---------- *)
(* what ends a word in flow context: a flow indicator of the sub-language or ': ' *)
Definition stopc (x : N) (rest : list N) : Prop :=
  x = 44 \/ x = 93 \/ x = 125 \/ (x = 58 /\ exists r, rest = 32 :: r).

Lemma plain_chunk_S fuel j acc :
  plain_chunk str_ops (S fuel) j acc =
  (if Nat.leb (bufmaxlen str_ops - 1) j then look str_ops (bufmaxlen str_ops) ;;; plain_chunk str_ops fuel 0 acc
   else
     b <- next_is str_ops is_blank_or_breakz ;; s <- get ;;
     cb <- (if b then ret false else next_can_be_plain_scalar str_ops (0 <? sc_flow_level s)) ;;
     if b || negb cb then ret acc
     else c <- peek str_ops ;; skip_non_blank str_ops ;;; plain_chunk str_ops fuel (S j) (c :: acc)).
Proof. reflexivity. Qed.

Lemma chunk_word w : forall fuel j acc l n q adj ska sks fl tp ta ifms x rest,
  forallb wch w = true -> stopc x rest -> 0 < fl -> (2 * length w + 2 <= fuel)%nat ->
  exists l', plain_chunk str_ops fuel j acc (mkst (w ++ x :: rest) l (mk1 n) q adj ska sks fl tp ta false ifms)
  = Ok (rev w ++ acc, mkst (x :: rest) l' (mk1 (n + N.of_nat (length w))) q adj ska sks fl tp ta false ifms).
Proof.
  induction w as [|c w IH]; intros fuel j acc l n q adj ska sks fl tp ta ifms x rest Hw Hx Hfl Hf;
    destruct (fl_pos_facts fl Hfl) as [Hf0 Hf1].
  - (* the stop character *)
    assert (Hstop : forall fuel' j' l', (Nat.leb 127 j' = false) ->
              plain_chunk str_ops (S fuel') j' acc (mkst (x :: rest) l' (mk1 n) q adj ska sks fl tp ta false ifms)
              = Ok (acc, mkst (x :: rest) l' (mk1 n) q adj ska sks fl tp ta false ifms)).
    { intros fuel' j' l' Hj. rewrite plain_chunk_S. cbn [bufmaxlen str_ops Nat.sub]. rewrite Hj. unfold mkst.
      destruct Hx as [-> | [-> | [-> | [-> [r ->]]]]]; cbn; rewrite ?Hf1; cbn; reflexivity. }
    cbn [app length rev N.of_nat]. rewrite N.add_0_r.
    destruct fuel as [|[|fuel]]; [cbn in Hf; lia|cbn in Hf; lia|].
    destruct (Nat.leb 127 j) eqn:Hj.
    + rewrite plain_chunk_S. cbn [bufmaxlen str_ops Nat.sub]. rewrite Hj. unfold mkst at 1. cbn.
      eexists. rw_st (Hstop fuel 0%nat (Nat.max l 128) eq_refl). reflexivity.
    + eexists. apply Hstop. exact Hj.
  - cbn [forallb] in Hw. apply andb_prop in Hw as [Hc Hw].
    destruct (wch_facts c Hc) as (Hb & Hfw & H58 & _).
    assert (Hstep : forall fuel' j' l', (Nat.leb 127 j' = false) ->
              plain_chunk str_ops (S fuel') j' acc (mkst (c :: w ++ x :: rest) l' (mk1 n) q adj ska sks fl tp ta false ifms)
              = plain_chunk str_ops fuel' (S j') (c :: acc) (mkst (w ++ x :: rest) l' (mk1 (n + 1)) q adj ska sks fl tp ta false ifms)).
    { intros fuel' j' l' Hj. rewrite plain_chunk_S. cbn [bufmaxlen str_ops Nat.sub]. rewrite Hj. unfold mkst.
      cbn. rewrite Hb. cbn. rewrite H58, Hfw, Hf1. cbn. reflexivity. }
    cbn [length] in Hf. cbn [app].
    assert (Hgoal : forall l1 fuel1, (2 * length w + 2 <= fuel1)%nat ->
              exists l', plain_chunk str_ops fuel1 (S O) (c :: acc) (mkst (w ++ x :: rest) l1 (mk1 (n + 1)) q adj ska sks fl tp ta false ifms) =
              Ok (rev (c :: w) ++ acc, mkst (x :: rest) l' (mk1 (n + N.of_nat (length (c :: w)))) q adj ska sks fl tp ta false ifms)).
    { intros l1 fuel1 Hf1'. destruct (IH fuel1 (S O) (c :: acc) l1 (n + 1) q adj ska sks fl tp ta ifms x rest Hw Hx Hfl Hf1') as (l' & E).
      exists l'. rewrite E. cbn [rev length]. rewrite <- app_assoc. cbn [app].
      replace (n + 1 + N.of_nat (length w)) with (n + N.of_nat (S (length w))) by lia. reflexivity. }
    destruct fuel as [|[|fuel]]; [lia|lia|].
    destruct (Nat.leb 127 j) eqn:Hj.
    + rewrite plain_chunk_S. cbn [bufmaxlen str_ops Nat.sub]. rewrite Hj. unfold mkst at 1. cbn.
      rw_st (Hstep fuel 0%nat (Nat.max l 128) eq_refl). apply Hgoal. lia.
    + rewrite (Hstep (S fuel) j l Hj).
      destruct (IH (S fuel) (S j) (c :: acc) l (n + 1) q adj ska sks fl tp ta ifms x rest Hw Hx Hfl ltac:(lia)) as (l' & E).
      exists l'. rewrite E. cbn [rev length]. rewrite <- app_assoc. cbn [app].
      replace (n + 1 + N.of_nat (length w)) with (n + N.of_nat (S (length w))) by lia. reflexivity.
Qed.

Lemma col_not_neg n : (Z.of_N n <? 0)%Z = false.
Proof. apply Z.ltb_ge. lia. Qed.

Lemma scan_word F c w x rest l n q adj ska sks fl tp ta lws ifms :
  forallb wch (c :: w) = true -> stopc x rest -> 0 < fl -> (n =? 0) = false -> (2 * length w + 3 <= F)%nat ->
  exists l',
  scan_plain_scalar str_ops F (mkst (c :: w ++ x :: rest) l (mk1 n) q adj ska sks fl tp ta lws ifms)
  = Ok ((spn (mk1 n) (mk1 (n + N.of_nat (length (c :: w)))), TScalar Plain (c :: w)),
        mkst (x :: rest) l' (mk1 (n + N.of_nat (length (c :: w)))) q adj ska sks fl tp ta false ifms).
Proof.
  intros Hw Hx Hfl Hn HF. destruct (fl_pos_facts fl Hfl) as [Hf0 Hf1].
  cbn [forallb] in Hw. apply andb_prop in Hw as [Hc Hw].
  destruct (wch_facts c Hc) as (Hb & Hfw & H58 & H35 & H45 & _).
  destruct F as [|F]; [lia|].
  destruct (chunk_word w (S F) 0%nat [c] (Nat.max (Nat.max l 4) 128) (n + 1) q adj ska sks fl tp ta ifms x rest Hw Hx Hfl ltac:(lia)) as (l' & Ech).
  exists l'.
  assert (Hne : exists a t, rev w ++ [c] = a :: t).
  { destruct (rev w ++ [c]) as [|a t] eqn:E; [destruct (rev w); discriminate|eauto]. }
  destruct Hne as (a & t & Ea).
  unfold scan_plain_scalar, mkst. cbn. rewrite Hf1, col_not_neg. cbn.
  rewrite Hn, andb_false_r. cbn. rewrite H35. cbn. rewrite Hf1, H45. cbn. rewrite Hb. cbn. rewrite H58, Hfw. cbn.
  assert (Enls : (if lws then (@nil chr, false, 0, @nil chr) else ([], false, 0, [])) = ([], false, 0, [])) by (destruct lws; reflexivity).
  destruct lws; cbn; change (adv 1 (mk1 n)) with (mk1 (n + 1)); unfold chr in *; rw_st Ech; cbn;
    (destruct Hx as [-> | [-> | [-> | [-> [r ->]]]]]; cbn; rewrite Ea; cbn; change (rev t ++ [a]) with (rev (a :: t)); rewrite <- Ea, rev_app_distr, rev_involutive; cbn [rev app];
     replace (n + 1 + N.of_nat (length w)) with (n + N.pos (Pos.of_succ_nat (length w))) by lia; reflexivity).
Qed.

Lemma word_step F c w x rest l n q adj ska p tn m tls fl tp ta lws ifms :
  forallb wch (c :: w) = true -> stopc x rest -> 0 < fl -> (n =? 0) = false -> (2 * length w + 3 <= F)%nat ->
  exists l',
  fetch_plain_scalar str_ops F (mkst (c :: w ++ x :: rest) l (mk1 n) q adj ska (skey p tn m :: tls) fl tp ta lws ifms)
  = Ok (tt, mkst (x :: rest) l' (mk1 (n + N.of_nat (length (c :: w))))
              (q ++ [(spn (mk1 n) (mk1 (n + N.of_nat (length (c :: w)))), TScalar Plain (c :: w))]) adj false
              ((if ska then skey true (tp + N.of_nat (length q)) (mk1 n) else skey p tn m) :: tls) fl tp ta false ifms).
Proof.
  intros Hw Hx Hfl Hn HF. destruct (fl_pos_facts fl Hfl) as [Hf0 Hf1].
  destruct (scan_word F c w x rest l n q adj false
              ((if ska then skey true (tp + N.of_nat (length q)) (mk1 n) else skey p tn m) :: tls) fl tp ta lws ifms Hw Hx Hfl Hn HF)
    as (l' & E).
  exists l'. unfold skey in E. unfold fetch_plain_scalar, mkst, skey. destruct ska; cbn.
  - rewrite Hf0. cbn. rw_st E. cbn. reflexivity.
  - rw_st E. cbn. reflexivity.
Qed.

(* ---------- fetch_next_token on each kind of token, in flow context, away from column 0 ---------- *)
Lemma pos_ne0 n k : 0 < n -> (n + N.of_nat k =? 0) = false.
Proof. intros H. apply N.eqb_neq. lia. Qed.

Lemma fnt_open F k (seq : bool) c' cs l n q adj ska hd tls fl tp ta lws ifms :
  (k < F)%nat -> 0 < fl -> fl < 255 -> 0 < n -> not_ws c' ->
  fetch_next_token str_ops F (mkst (repeat 32 k ++ (if seq then 91 else 123) :: c' :: cs) l (mk1 n) q adj ska (hd :: tls) fl tp ta lws ifms)
  = Ok (tt, mkst (c' :: cs) (Nat.max (Nat.max l 4) 1) (mk1 (n + N.of_nat k + 1))
              (q ++ [(spn (mk1 (n + N.of_nat k)) (mk1 (n + N.of_nat k + 1)), if seq then TFlowSequenceStart else TFlowMappingStart)]) adj true
              (dummy_key :: (if ska then skey true (tp + N.of_nat (length q)) (mk1 (n + N.of_nat k)) else hd) :: tls) (fl + 1) tp ta false
              ((if seq then ImPossible else ImMapping) :: ifms)).
Proof.
  intros HF Hfl H255 Hn Hws. assert (H255' : (fl =? 255) = false) by (apply N.eqb_neq; lia).
  destruct seq.
  - rewrite fnt_prefix by (try reflexivity; assumption). rewrite rest_91 by (apply pos_ne0, Hn).
    apply (open_step F true 91 c' cs); [lia | exact H255' | exact Hws].
  - rewrite fnt_prefix by (try reflexivity; assumption). rewrite rest_123 by (apply pos_ne0, Hn).
    apply (open_step F false 123 c' cs); [lia | exact H255' | exact Hws].
Qed.

Lemma fnt_close F (seq : bool) c' cs l n q adj ska p tn m hd2 tls fl tp ta lws top ifr :
  (1 <= F)%nat -> 0 < n -> not_ws c' -> top_ok seq top ->
  exists adj',
  fetch_next_token str_ops F (mkst ((if seq then 93 else 125) :: c' :: cs) l (mk1 n) q adj ska (skey p tn m :: hd2 :: tls) (fl + 1) tp ta lws (top :: ifr))
  = Ok (tt, mkst (c' :: cs) (Nat.max (Nat.max l 4) 1) (mk1 (n + 1))
              ((q ++ (if seq then fme top (mk1 n) else [])) ++ [(spn (mk1 n) (mk1 (n + 1)), if seq then TFlowSequenceEnd else TFlowMappingEnd)])
              adj' false (hd2 :: tls) fl tp ta false ifr).
Proof.
  intros HF Hn Hws Htop. assert (Hfl : 0 < fl + 1) by lia.
  exists (if 0 <? fl + 1 - 1 then n + 1 else adj).
  pose proof (fnt_prefix F 0 (if seq then 93 else 125) (c' :: cs) l n q adj ska (skey p tn m :: hd2 :: tls) (fl + 1) tp ta lws (top :: ifr)) as P.
  cbn [repeat app N.of_nat] in P. rewrite N.add_0_r in P.
  destruct seq.
  - rewrite P by (try reflexivity; try assumption; lia). rewrite rest_93 by (apply N.eqb_neq; lia).
    rewrite (close_step F true 93 c' cs) by (try assumption; lia). rewrite N.add_sub. reflexivity.
  - rewrite P by (try reflexivity; try assumption; lia). rewrite rest_125 by (apply N.eqb_neq; lia).
    rewrite (close_step F false 125 c' cs) by (try assumption; lia). rewrite N.add_sub. reflexivity.
Qed.

Lemma fnt_comma F c' cs l n q adj ska p tn m tls fl tp ta lws top ifr :
  (2 <= F)%nat -> 0 < fl -> 0 < n -> not_ws c' ->
  fetch_next_token str_ops F (mkst (44 :: 32 :: c' :: cs) l (mk1 n) q adj ska (skey p tn m :: tls) fl tp ta lws (top :: ifr))
  = Ok (tt, mkst (c' :: cs) (Nat.max (Nat.max l 4) 1) (mk1 (n + 1 + 1))
              ((q ++ fme top (mk1 n)) ++ [(spn (mk1 n) (mk1 (n + 1 + 1)), TFlowEntry)])
              adj true (skey false tn m :: tls) fl tp ta false (after_pair top :: ifr)).
Proof.
  intros HF Hfl Hn Hws.
  pose proof (fnt_prefix F 0 44 (32 :: c' :: cs) l n q adj ska (skey p tn m :: tls) fl tp ta lws (top :: ifr)) as P.
  cbn [repeat app N.of_nat] in P. rewrite N.add_0_r in P.
  rewrite P by (try reflexivity; try assumption; lia). rewrite rest_44 by (apply N.eqb_neq; lia).
  apply comma_step; assumption.
Qed.

Lemma fnt_value F cs l n q0 kt adj ska nk tls fl tp ta lws top ifr :
  (1 <= F)%nat -> 0 < fl -> 0 < n -> (is_ifm top = true -> n <= nk + SIMPLE_KEY_MAX) ->
  fetch_next_token str_ops F (mkst (58 :: 32 :: cs) l (mk1 n) (q0 ++ [kt]) adj ska
                               (skey true (tp + N.of_nat (length q0)) (mk1 nk) :: tls) fl tp ta lws (top :: ifr))
  = Ok (tt, mkst (32 :: cs) (Nat.max l 4) (mk1 (n + 1))
              ((q0 ++ (if starts_ifm top then [(span_empty (mk1 nk), TFlowMappingStart)] else []) ++ [(span_empty (mk1 nk), TKey); kt])
                ++ [(span_empty (mk1 n), TValue)])
              adj false (skey false (tp + N.of_nat (length q0)) (mk1 nk) :: tls) fl tp ta false
              ((if starts_ifm top then ImInside else top) :: ifr)).
Proof.
  intros HF Hfl Hn Hlim.
  pose proof (fnt_prefix F 0 58 (32 :: cs) l n (q0 ++ [kt]) adj ska (skey true (tp + N.of_nat (length q0)) (mk1 nk) :: tls) fl tp ta lws (top :: ifr)) as P.
  cbn [repeat app N.of_nat] in P. rewrite N.add_0_r in P.
  rewrite P by (try reflexivity; try assumption; lia). rewrite rest_58 by (apply N.eqb_neq; lia).
  apply value_step; assumption.
Qed.

Lemma fnt_word F k c w x rest l n q adj ska p tn m tls fl tp ta lws ifms :
  forallb wch (c :: w) = true -> stopc x rest -> 0 < fl -> 0 < n -> (k < F)%nat -> (2 * length w + 3 <= F)%nat ->
  exists l',
  fetch_next_token str_ops F (mkst (repeat 32 k ++ c :: w ++ x :: rest) l (mk1 n) q adj ska (skey p tn m :: tls) fl tp ta lws ifms)
  = Ok (tt, mkst (x :: rest) l' (mk1 (n + N.of_nat k + N.of_nat (length (c :: w))))
              (q ++ [(spn (mk1 (n + N.of_nat k)) (mk1 (n + N.of_nat k + N.of_nat (length (c :: w)))), TScalar Plain (c :: w))]) adj false
              ((if ska then skey true (tp + N.of_nat (length q)) (mk1 (n + N.of_nat k)) else skey p tn m) :: tls) fl tp ta false ifms).
Proof.
  intros Hw Hx Hfl Hn Hk HF.
  pose proof Hw as Hw'. cbn [forallb] in Hw'. apply andb_prop in Hw' as [Hc _].
  destruct (wch_facts c Hc) as (Hb & Hfw & H58 & H35 & _).
  destruct (word_step F c w x rest (Nat.max l 4) (n + N.of_nat k) q adj ska p tn m tls fl tp ta lws ifms Hw Hx Hfl (pos_ne0 n k Hn) HF) as (l' & E).
  exists l'. rewrite fnt_prefix by assumption. rewrite rest_word by (try assumption; apply pos_ne0, Hn). exact E.
Qed.

(* ---------- fetch_more_tokens: runs of fetches while a simple key is pending at the head of the queue ---------- *)
Definition need_comp : @M strin bool :=
  s <- get ;;
  match sc_tokens s return @M strin bool with
  | [] => ret true
  | _ => stale_simple_keys ;;;
         s <- get ;;
         ret (existsb (fun k => sk_possible k && (sk_token_number k =? sc_tokens_parsed s)) (sc_sks s))
  end.
#[local] Arguments need_comp : simpl never.

Lemma fmt_S F fuel :
  fetch_more_tokens str_ops F (S fuel) =
  (need <- need_comp ;; if need then fetch_next_token str_ops F ;;; fetch_more_tokens str_ops F fuel else modify (set_ta true)).
Proof. reflexivity. Qed.

Definition needy (tp : N) (sks : list simple_key) : Prop :=
  existsb (fun k => sk_possible k && (sk_token_number k =? tp)) sks = true.
Lemma needy_cons tp k sks : needy tp sks -> needy tp (k :: sks).
Proof. unfold needy. cbn [existsb]. intros ->. apply orb_true_r. Qed.

Lemma busy_flow cs l mk q adj ska sks fl tp ta lws ifms : q <> [] -> 0 < fl -> needy tp sks ->
  need_comp (mkst cs l mk q adj ska sks fl tp ta lws ifms) = Ok (true, mkst cs l mk q adj ska sks fl tp ta lws ifms).
Proof.
  intros Hq Hfl Hn. unfold need_comp. destruct q as [|t q]; [congruence|].
  unfold mkst. cbn. rw_st (stale_flow cs l mk (t :: q) adj ska sks fl tp ta lws ifms Hfl). cbn. unfold needy in Hn. rewrite Hn. reflexivity.
Qed.

Inductive fsteps (F : nat) : nat -> sc strin -> sc strin -> Prop :=
| fs_nil s : fsteps F 0 s s
| fs_cons k s s1 s2 :
    need_comp s = Ok (true, s) -> fetch_next_token str_ops F s = Ok (tt, s1) -> fsteps F k s1 s2 -> fsteps F (S k) s s2.

Lemma fsteps_app F a s s1 : fsteps F a s s1 -> forall b s2, fsteps F b s1 s2 -> fsteps F (a + b) s s2.
Proof. induction 1; intros; cbn; [assumption|]. econstructor; eauto. Qed.

Lemma fsteps_one F s s1 : need_comp s = Ok (true, s) -> fetch_next_token str_ops F s = Ok (tt, s1) -> fsteps F 1 s s1.
Proof. intros. econstructor; eauto. constructor. Qed.

Lemma fsteps_fmt F k s s' : fsteps F k s s' ->
  forall fuel, fetch_more_tokens str_ops F (k + fuel) s = fetch_more_tokens str_ops F fuel s'.
Proof.
  induction 1 as [|k s s1 s2 Hn Hf _ IH]; intros fuel; [reflexivity|].
  cbn [plus]. rewrite fmt_S. cbn. rewrite Hn. cbn. rewrite Hf. apply IH.
Qed.

(* ---------- the text grammar against the token grammar: entries of '[ ]' and '{ }' uniformly ---------- *)
Definition entry : Type := (option str * fnode)%type.
Definition rentry (e : entry) : str := match fst e with Some k => k ++ colon_sp | None => [] end ++ render (snd e).
Definition ewf (e : entry) : bool := match fst e with Some k => word_ok k | None => true end && fwf (snd e).
Definition of_pair (p : str * fnode) : entry := (Some (fst p), snd p).
(* the key of a single pair of a flow sequence is short (YAML 1.2.2 7.4.2; /repo 57aa316) *)
Definition klim (seq : bool) (e : entry) : Prop :=
  seq = true -> forall k, fst e = Some k -> N.of_nat (length k) <= SIMPLE_KEY_MAX.

Definition top0 (seq : bool) : ims := if seq then ImPossible else ImMapping.
Definition etop (seq : bool) (e : entry) : ims :=
  if seq then match fst e with Some _ => ImInside | None => ImPossible end else ImMapping.
Definition fmek (top : ims) : list tok := match top with ImInside => [TFlowMappingEnd] | _ => [] end.
(* the tokens of an entry as the scanner queues them while it reads the entry: the FlowMappingEnd of a single pair comes with
   the next ',' or ']' *)
Definition etk' (seq : bool) (e : entry) : list tok :=
  match fst e with
  | Some k => (if seq then [TFlowMappingStart] else []) ++ [TKey; TScalar Plain k; TValue]
  | None => []
  end ++ tokens_of (lt (snd e)).
Definition etk (seq : bool) (e : entry) : list tok := etk' seq e ++ fmek (etop seq e).
Definition opener (seq : bool) : N := if seq then 91 else 123.
Definition closer (seq : bool) : N := if seq then 93 else 125.
Definition open_tok (seq : bool) : tok := if seq then TFlowSequenceStart else TFlowMappingStart.
Definition close_tok (seq : bool) : tok := if seq then TFlowSequenceEnd else TFlowMappingEnd.
Fixpoint tail_toks (seq : bool) (top : ims) (es : list entry) : list tok :=
  fmek top ++ match es with
              | [] => [close_tok seq]
              | e :: r => TFlowEntry :: etk' seq e ++ tail_toks seq (etop seq e) r
              end.

Lemma tail_toks_spec seq r : forall e,
  etk' seq e ++ tail_toks seq (etop seq e) r = fsep (map (etk seq) (e :: r)) ++ [close_tok seq].
Proof.
  induction r as [|e2 r IH]; intros e; cbn [tail_toks map fsep flat_map].
  - unfold etk. rewrite app_nil_r, <- app_assoc. reflexivity.
  - rewrite IH. cbn [map fsep flat_map]. change (etk seq e) with (etk' seq e ++ fmek (etop seq e)).
    rewrite <- !app_assoc. reflexivity.
Qed.

Lemma render_FS es : render (FS es) = opener true :: joinc (map rentry es) ++ [closer true].
Proof. reflexivity. Qed.
Lemma render_FM ps : render (FM ps) = opener false :: joinc (map rentry (map of_pair ps)) ++ [closer false].
Proof. cbn [render opener closer]. rewrite map_map. reflexivity. Qed.

Lemma props_none : props_toks no_props = [].
Proof. reflexivity. Qed.

Lemma tokens_FS es : tokens_of (lt (FS es)) = open_tok true :: fsep (map (etk true) es) ++ [close_tok true].
Proof.
  cbn [lt tokens_of]. rewrite props_none. cbn [app flag open_tok close_tok]. f_equal. f_equal. f_equal.
  rewrite map_map. apply map_ext. intros [[k|] v]; unfold etk, etk', etop; cbn [fst snd fsent_toks tokens_of lword].
  - cbn. rewrite ?app_nil_r. rewrite <- ?app_assoc. reflexivity.
  - cbn [fmek app]. rewrite app_nil_r. reflexivity.
Qed.

Lemma tokens_FM ps : tokens_of (lt (FM ps)) = open_tok false :: fsep (map (etk false) (map of_pair ps)) ++ [close_tok false].
Proof.
  cbn [lt tokens_of]. rewrite props_none. cbn [app flag open_tok close_tok]. f_equal. f_equal. f_equal.
  rewrite !map_map. apply map_ext. intros [k v]; unfold etk, etk', etop, of_pair; cbn [fst snd ent_toks tokens_of lword flag fmek].
  cbn. rewrite app_nil_r. reflexivity.
Qed.

(* ---------- "from this state the scanner fetches exactly these tokens and stands before y" ---------- *)
Definition scanned (F : nat) (chars : list N) (y : N) (rest : list N) (l : nat) (n : N) (q : list token) (adj : N) (ska : bool)
   (sks : list simple_key) (fl tp : N) (ta lws : bool) (ifms : list ims)
   (sks' : list simple_key) (fl' : N) (ifms' : list ims) (exp : list tok) : Prop :=
  exists steps l' n' adj' toks,
    fsteps F steps (mkst chars l (mk1 n) q adj ska sks fl tp ta lws ifms)
                   (mkst (y :: rest) l' (mk1 n') (q ++ toks) adj' false sks' fl' tp ta false ifms')
    /\ n <= n' /\ map snd toks = exp /\ (steps + length (y :: rest) <= length chars)%nat /\ (length toks <= 3 * steps)%nat.

Lemma scanned_one F chars y rest l n q adj ska sks fl tp ta lws ifms l' n' adj' t1 sks' fl' ifms' :
  need_comp (mkst chars l (mk1 n) q adj ska sks fl tp ta lws ifms) = Ok (true, mkst chars l (mk1 n) q adj ska sks fl tp ta lws ifms) ->
  fetch_next_token str_ops F (mkst chars l (mk1 n) q adj ska sks fl tp ta lws ifms)
  = Ok (tt, mkst (y :: rest) l' (mk1 n') (q ++ t1) adj' false sks' fl' tp ta false ifms') ->
  n <= n' -> (1 + length (y :: rest) <= length chars)%nat -> (length t1 <= 3)%nat ->
  scanned F chars y rest l n q adj ska sks fl tp ta lws ifms sks' fl' ifms' (map snd t1).
Proof.
  intros Hb Hf Hn Hl Ht. exists 1%nat, l', n', adj', t1. split; [eapply fsteps_one; eauto|]. repeat split; auto; lia.
Qed.

Lemma scanned_cons F chars y rest l n q adj ska sks fl tp ta lws ifms chars1 l1 n1 adj1 t1 ska1 sks1 fl1 lws1 ifms1 sks' fl' ifms' exp :
  need_comp (mkst chars l (mk1 n) q adj ska sks fl tp ta lws ifms) = Ok (true, mkst chars l (mk1 n) q adj ska sks fl tp ta lws ifms) ->
  fetch_next_token str_ops F (mkst chars l (mk1 n) q adj ska sks fl tp ta lws ifms)
  = Ok (tt, mkst chars1 l1 (mk1 n1) (q ++ t1) adj1 ska1 sks1 fl1 tp ta lws1 ifms1) ->
  n <= n1 -> (1 + length chars1 <= length chars)%nat -> (length t1 <= 3)%nat ->
  scanned F chars1 y rest l1 n1 (q ++ t1) adj1 ska1 sks1 fl1 tp ta lws1 ifms1 sks' fl' ifms' exp ->
  scanned F chars y rest l n q adj ska sks fl tp ta lws ifms sks' fl' ifms' (map snd t1 ++ exp).
Proof.
  intros Hb Hf Hn Hl Ht (steps & l' & n' & adj' & toks & R & Hn' & Hm & Hs & Hc).
  exists (S steps), l', n', adj', (t1 ++ toks). rewrite app_assoc. split; [econstructor; eauto|].
  split; [lia|]. split; [rewrite map_app; f_equal; exact Hm|]. rewrite app_length. unfold chr in *; cbn [length] in *; lia.
Qed.

Lemma scanned_trans F chars y1 rest1 y2 rest2 l n q adj ska sks fl tp ta lws ifms sks1 fl1 ifms1 exp1 sks2 fl2 ifms2 exp2 :
  scanned F chars y1 rest1 l n q adj ska sks fl tp ta lws ifms sks1 fl1 ifms1 exp1 ->
  (forall l1 n1 adj1 toks1, n <= n1 -> map snd toks1 = exp1 ->
     scanned F (y1 :: rest1) y2 rest2 l1 n1 (q ++ toks1) adj1 false sks1 fl1 tp ta false ifms1 sks2 fl2 ifms2 exp2) ->
  scanned F chars y2 rest2 l n q adj ska sks fl tp ta lws ifms sks2 fl2 ifms2 (exp1 ++ exp2).
Proof.
  intros (s1 & l1 & n1 & adj1 & t1 & R1 & Hn1 & Hm1 & Hs1 & Hc1) H2.
  destruct (H2 l1 n1 adj1 t1 Hn1 Hm1) as (s2 & l2 & n2 & adj2 & t2 & R2 & Hn2 & Hm2 & Hs2 & Hc2).
  exists (s1 + s2)%nat, l2, n2, adj2, (t1 ++ t2). rewrite app_assoc. split; [eapply fsteps_app; eauto|].
  split; [lia|]. split; [rewrite map_app; f_equal; assumption|]. rewrite app_length. unfold chr in *; cbn [length] in *; lia.
Qed.

Lemma scanned_exp F chars y rest l n q adj ska sks fl tp ta lws ifms sks' fl' ifms' e1 e2 :
  e1 = e2 -> scanned F chars y rest l n q adj ska sks fl tp ta lws ifms sks' fl' ifms' e1 ->
  scanned F chars y rest l n q adj ska sks fl tp ta lws ifms sks' fl' ifms' e2.
Proof. intros ->. auto. Qed.

Lemma scanned_pre F a chars y rest l n q adj ska sks fl tp ta lws ifms chars1 l1 n1 adj1 t1 ska1 sks1 fl1 lws1 ifms1 sks' fl' ifms' exp :
  fsteps F a (mkst chars l (mk1 n) q adj ska sks fl tp ta lws ifms) (mkst chars1 l1 (mk1 n1) (q ++ t1) adj1 ska1 sks1 fl1 tp ta lws1 ifms1) ->
  n <= n1 -> (a + length chars1 <= length chars)%nat -> (length t1 <= 3 * a)%nat ->
  scanned F chars1 y rest l1 n1 (q ++ t1) adj1 ska1 sks1 fl1 tp ta lws1 ifms1 sks' fl' ifms' exp ->
  scanned F chars y rest l n q adj ska sks fl tp ta lws ifms sks' fl' ifms' (map snd t1 ++ exp).
Proof.
  intros R0 Hn Hl Ht (steps & l' & n' & adj' & toks & R & Hn' & Hm & Hs & Hc).
  exists (a + steps)%nat, l', n', adj', (t1 ++ toks). rewrite app_assoc. split; [eapply fsteps_app; eauto|].
  split; [lia|]. split; [rewrite map_app; f_equal; exact Hm|]. rewrite app_length. unfold chr in *; cbn [length] in *; lia.
Qed.

(* ---------- first characters ---------- *)
Lemma wch_not_ws c : wch c = true -> not_ws c.
Proof.
  intros H. destruct (wch_facts c H) as (Hb & _ & _ & H35 & _). destruct (blankz_facts c Hb) as (H32 & H9 & _).
  repeat split; assumption.
Qed.

Lemma word_first w : word_ok w = true -> exists c w', w = c :: w' /\ forallb wch (c :: w') = true.
Proof. destruct w as [|c w']; [discriminate|]. intros H. exists c, w'. split; [reflexivity|exact H]. Qed.

Lemma render_first f z : fwf f = true -> exists c cs, render f ++ z = c :: cs /\ not_ws c.
Proof.
  destruct f as [w|es|ps]; cbn [fwf render]; intros H.
  - destruct (word_first w H) as (c & w' & -> & Hw). exists c, (w' ++ z). split; [reflexivity|].
    cbn [forallb] in Hw. apply andb_prop in Hw as [Hc _]. apply wch_not_ws, Hc.
  - eexists; eexists. split; [reflexivity|]. repeat split; reflexivity.
  - eexists; eexists. split; [reflexivity|]. repeat split; reflexivity.
Qed.

Lemma entry_first e z : ewf e = true -> exists c cs, rentry e ++ z = c :: cs /\ not_ws c.
Proof.
  destruct e as [[kw|] v]; unfold ewf, rentry; cbn [fst snd]; intros H; apply andb_prop in H as [Hk Hv].
  - destruct (word_first kw Hk) as (c & w' & -> & Hw). eexists; eexists. split; [reflexivity|].
    cbn [forallb] in Hw. apply andb_prop in Hw as [Hc _]. apply wch_not_ws, Hc.
  - cbn [app]. apply render_first, Hv.
Qed.

Lemma closer_not_ws seq : not_ws (closer seq).
Proof. destruct seq; repeat split; reflexivity. Qed.

Definition rtail (es : list entry) : str := flat_map (fun e => comma_sp ++ rentry e) es.
Lemma rtail_first seq es z : exists y' rest', rtail es ++ closer seq :: z = y' :: rest' /\ (y' = 44 \/ y' = closer seq).
Proof. destruct es as [|e r]; cbn; eauto. Qed.

Lemma body_first seq es z : Forall (fun e => ewf e = true) es ->
  exists c cs, joinc (map rentry es) ++ closer seq :: z = c :: cs /\ not_ws c.
Proof.
  intros HF. destruct es as [|e r]; cbn [map joinc app].
  - eexists; eexists. split; [reflexivity|]. apply closer_not_ws.
  - inversion HF; subst. rewrite <- app_assoc. apply entry_first. assumption.
Qed.

(* ---------- the induction ---------- *)
Definition follow3 (y : N) : Prop := y = 44 \/ y = 93 \/ y = 125.
Lemma follow3_stopc y rest : follow3 y -> stopc y rest.
Proof. unfold follow3, stopc. tauto. Qed.
Lemma follow3_not_ws y : follow3 y -> not_ws y.
Proof. intros [-> | [-> | ->]]; repeat split; reflexivity. Qed.

Definition NodeScan (f : fnode) : Prop :=
  forall F k y rest l n q adj ska p tn m tls fl tp ta lws ifms,
  follow3 y -> 0 < fl -> fl + N.of_nat (depth f) <= 255 -> 0 < n -> q <> [] -> needy tp tls ->
  (2 * length (repeat 32%N k ++ render f ++ y :: rest) + 4 <= F)%nat ->
  exists nk,
  scanned F (repeat 32 k ++ render f ++ y :: rest) y rest l n q adj ska (skey p tn m :: tls) fl tp ta lws ifms
    ((if ska then skey true (tp + N.of_nat (length q)) (mk1 nk) else skey p tn m) :: tls) fl ifms (tokens_of (lt f)).

Lemma app_ne {A} (q t : list A) : q <> [] -> q ++ t <> [].
Proof. destruct q; [congruence|discriminate]. Qed.

Lemma node_word w : fwf (FW w) = true -> NodeScan (FW w).
Proof.
  intros Hw F k y rest l n q adj ska p tn m tls fl tp ta lws ifms Hy Hfl _ Hn Hq Hnd HF.
  cbn [fwf] in Hw. destruct (word_first w Hw) as (c & w' & -> & Hcw).
  cbn [render app] in *. rewrite !app_length, repeat_length in HF. cbn [length] in HF. rewrite app_length in HF.
  destruct (fnt_word F k c w' y rest l n q adj ska p tn m tls fl tp ta lws ifms Hcw (follow3_stopc y rest Hy) Hfl Hn ltac:(lia) ltac:(lia))
    as (l' & E).
  exists (n + N.of_nat k).
  eapply scanned_exp; [|eapply scanned_one; [ | exact E | | | ]].
  - reflexivity.
  - apply busy_flow; [exact Hq | exact Hfl | apply needy_cons, Hnd].
  - lia.
  - unfold chr in *. rewrite !app_length, repeat_length. cbn [length]. rewrite app_length. cbn [length]. lia.
  - cbn [length]. lia.
Qed.

Lemma etop_pair seq : (if starts_ifm (top0 seq) then ImInside else top0 seq) = (if seq then ImInside else ImMapping).
Proof. destruct seq; reflexivity. Qed.
Lemma etop_node seq : top0 seq = (if seq then ImPossible else ImMapping).
Proof. reflexivity. Qed.

Lemma entry_scan seq e : ewf e = true -> klim seq e -> NodeScan (snd e) ->
  forall F y rest l n q adj p tn m rs fl tp ta lws ifr,
  (y = 44 \/ y = closer seq) -> 0 < fl -> fl + N.of_nat (depth (snd e)) <= 255 -> 0 < n -> q <> [] -> needy tp rs ->
  (2 * length (rentry e ++ y :: rest) + 4 <= F)%nat ->
  exists p' tn' m',
  scanned F (rentry e ++ y :: rest) y rest l n q adj true (skey p tn m :: rs) fl tp ta lws (top0 seq :: ifr)
     (skey p' tn' m' :: rs) fl (etop seq e :: ifr) (etk' seq e).
Proof.
  intros Hwf Hkl HN F y rest l n q adj p tn m rs fl tp ta lws ifr Hy Hfl Hd Hn Hq Hnd HF.
  assert (Hy3 : follow3 y) by (destruct Hy as [->| ->]; [left; reflexivity | destruct seq; [right; left|right;right]; reflexivity]).
  destruct e as [[kw|] v]; unfold ewf, rentry, etop, etk' in *; cbn [fst snd] in *; apply andb_prop in Hwf as [Hk Hv].
  - (* a pair  kw: v *)
    destruct (word_first kw Hk) as (c & w' & -> & Hcw).
    assert (Echars : (((c :: w') ++ colon_sp) ++ render v) ++ y :: rest = repeat 32 0 ++ c :: w' ++ 58 :: 32 :: (repeat 32 0 ++ render v ++ y :: rest)).
    { cbn [repeat app]. rewrite <- !app_assoc. reflexivity. }
    rewrite Echars in *. clear Echars.
    assert (HL : (length (repeat 32%N 0 ++ c :: w' ++ 58%N :: 32%N :: repeat 32%N 0 ++ render v ++ y :: rest)
                  = 3 + length w' + length (render v ++ y :: rest))%nat).
    { cbn [repeat app length]. rewrite app_length. cbn [length]. lia. }
    rewrite HL in HF.
    destruct (fnt_word F 0 c w' 58 (32 :: repeat 32 0 ++ render v ++ y :: rest) l n q adj true p tn m rs fl tp ta lws (top0 seq :: ifr)
                Hcw ltac:(right; right; right; split; [reflexivity|eexists; reflexivity]) Hfl Hn ltac:(lia) ltac:(lia)) as (l1 & E1).
    set (n1 := n + N.of_nat 0 + N.of_nat (length (c :: w'))) in *.
    set (kt := (spn (mk1 (n + N.of_nat 0)) (mk1 n1), TScalar Plain (c :: w'))) in *.
    assert (Hn1 : 0 < n1) by (unfold n1; lia).
    assert (Hlim : is_ifm (top0 seq) = true -> n1 <= n + N.of_nat 0 + SIMPLE_KEY_MAX).
    { intros Hi. destruct seq; [|discriminate]. specialize (Hkl eq_refl _ eq_refl). unfold n1. lia. }
    pose proof (fnt_value F (repeat 32 0 ++ render v ++ y :: rest) l1 n1 q kt adj false (n + N.of_nat 0) rs fl tp ta false (top0 seq) ifr
                  ltac:(lia) Hfl Hn1 Hlim) as E2.
    rewrite etop_pair in E2.
    set (X := if starts_ifm (top0 seq) then [(span_empty (mk1 (n + N.of_nat 0)), TFlowMappingStart)] else []) in *.
    rewrite <- (app_assoc q) in E2.
    set (t1 := (X ++ [(span_empty (mk1 (n + N.of_nat 0)), TKey); kt]) ++ [(span_empty (mk1 n1), TValue)]) in *.
    destruct (HN F 1%nat y rest (Nat.max l1 4) (n1 + 1) (q ++ t1) adj false
                false (tp + N.of_nat (length q)) (mk1 (n + N.of_nat 0)) rs fl tp ta false ((if seq then ImInside else ImMapping) :: ifr)
                Hy3 Hfl Hd ltac:(lia) (app_ne _ _ Hq) Hnd
                ltac:(cbn [repeat app length]; lia)) as (nk & SC).
    cbn [repeat app] in SC, E2, E1 |- *.
    exists false, (tp + N.of_nat (length q)), (mk1 (n + N.of_nat 0)).
    eapply scanned_exp; [|eapply scanned_pre; [ | | | | exact SC]].
    + unfold t1, X, kt. destruct seq; cbn; rewrite <- ?app_assoc; reflexivity.
    + econstructor; [apply busy_flow; [exact Hq | exact Hfl | apply needy_cons, Hnd] | exact E1 |].
      eapply fsteps_one; [apply busy_flow; [apply app_ne, Hq | exact Hfl | apply needy_cons, Hnd] | exact E2].
    + unfold n1. lia.
    + unfold chr in *. cbn [length]. rewrite !app_length. cbn [length]. rewrite ?app_length. cbn [length]. lia.
    + unfold t1, X. destruct seq; cbn [top0 starts_ifm app length]; lia.
  - (* a node *)
    cbn [app] in *.
    destruct (HN F 0%nat y rest l n q adj true p tn m rs fl tp ta lws (top0 seq :: ifr) Hy3 Hfl Hd Hn Hq Hnd HF) as (nk & SC).
    cbn [repeat app] in SC. exists true, (tp + N.of_nat (length q)), (mk1 nk).
    rewrite <- etop_node. exact SC.
Qed.

Lemma top_ok_0 seq : top_ok seq (top0 seq).
Proof. destruct seq; cbn; auto. Qed.
Lemma top_ok_e seq e : top_ok seq (etop seq e).
Proof. destruct seq, e as [[k|] v]; cbn; auto. Qed.
Lemma after_pair_ok seq top : top_ok seq top -> after_pair top = top0 seq.
Proof. destruct seq; cbn; [intros [-> | ->]|intros ->]; reflexivity. Qed.
Lemma fme_close seq top m : top_ok seq top -> map snd (if seq then fme top m else []) = fmek top.
Proof. destruct seq; cbn; [intros [-> | ->]|intros ->]; reflexivity. Qed.
Lemma fme_comma seq top m : top_ok seq top -> map snd (fme top m) = fmek top.
Proof. destruct seq; cbn; [intros [-> | ->]|intros ->]; reflexivity. Qed.

Definition EntOK (seq : bool) (fl : N) (e : entry) : Prop :=
  ewf e = true /\ klim seq e /\ NodeScan (snd e) /\ fl + N.of_nat (depth (snd e)) <= 255.

(* the entries behind the first one, and the closing bracket *)
Lemma tail_scan seq es : forall fl, Forall (EntOK seq (fl + 1)) es ->
  forall F y rest l n q adj ska p tn m hd2 tls tp ta lws top ifr,
  not_ws y -> top_ok seq top -> 0 < n -> q <> [] -> needy tp (hd2 :: tls) ->
  (2 * length (rtail es ++ closer seq :: y :: rest) + 4 <= F)%nat ->
  scanned F (rtail es ++ closer seq :: y :: rest) y rest l n q adj ska (skey p tn m :: hd2 :: tls) (fl + 1) tp ta lws (top :: ifr)
     (hd2 :: tls) fl ifr (tail_toks seq top es).
Proof.
  induction es as [|e r IH]; intros fl HF F y rest l n q adj ska p tn m hd2 tls tp ta lws top ifr Hy Htop Hn Hq Hnd Hfuel.
  - cbn [rtail flat_map app tail_toks] in *.
    destruct (fnt_close F seq y rest l n q adj ska p tn m hd2 tls fl tp ta lws top ifr ltac:(cbn [length] in Hfuel; lia) Hn Hy Htop) as (adj' & E).
    rewrite <- (app_assoc q) in E.
    eapply scanned_exp; [|eapply scanned_one; [ | exact E | | | ]].
    + rewrite map_app, (fme_close seq top _ Htop). destruct seq; reflexivity.
    + apply busy_flow; [exact Hq | lia | apply needy_cons, Hnd].
    + lia.
    + cbn [length]. lia.
    + rewrite app_length. destruct seq, top; cbn [fme length]; lia.
  - inversion HF as [|? ? (Hwf & Hkl & HN & Hd) HF']; subst.
    cbn [rtail flat_map tail_toks] in *. fold (rtail r) in *.
    assert (Echars : (comma_sp ++ rentry e) ++ rtail r ++ closer seq :: y :: rest
                     = 44 :: 32 :: (rentry e ++ rtail r ++ closer seq :: y :: rest)).
    { reflexivity. }
    rewrite <- app_assoc in Hfuel |- *. rewrite Echars in *. clear Echars.
    destruct (entry_first e (rtail r ++ closer seq :: y :: rest) Hwf) as (c' & cs' & Ec & Hc').
    destruct (rtail_first seq r (y :: rest)) as (y' & rest' & Ey & Hy').
    pose proof (fnt_comma F c' cs' l n q adj ska p tn m (hd2 :: tls) (fl + 1) tp ta lws top ifr
                  ltac:(cbn [length] in Hfuel; lia) ltac:(lia) Hn Hc') as E.
    rewrite <- Ec in E. rewrite <- (app_assoc q) in E. rewrite (after_pair_ok seq top Htop) in E.
    set (t1 := fme top (mk1 n) ++ [(spn (mk1 n) (mk1 (n + 1 + 1)), TFlowEntry)]) in *.
    assert (Hq1 : q ++ t1 <> []) by (apply app_ne, Hq).
    assert (Hlen : (length (rentry e ++ y' :: rest') + 2 = length (44%N :: 32%N :: rentry e ++ rtail r ++ closer seq :: y :: rest))%nat).
    { rewrite <- Ey. cbn [length]. lia. }
    eapply scanned_exp; [|eapply scanned_cons; [ | exact E | | | | ]].
    + unfold t1. rewrite map_app, (fme_comma seq top _ Htop). cbn [map snd app]. rewrite <- app_assoc. reflexivity.
    + apply busy_flow; [exact Hq | lia | apply needy_cons, Hnd].
    + lia.
    + cbn [length]. lia.
    + unfold t1. rewrite app_length. destruct top; cbn [fme length]; lia.
    + rewrite Ey in *.
      destruct (entry_scan seq e Hwf Hkl HN F y' rest' (Nat.max (Nat.max l 4) 1) (n + 1 + 1) (q ++ t1) adj false tn m (hd2 :: tls) (fl + 1)
                  tp ta false ifr Hy' ltac:(lia) Hd ltac:(lia) Hq1 Hnd ltac:(unfold chr in *; lia)) as (p' & tn' & m' & SC).
      eapply scanned_trans; [exact SC|].
      intros l1 n1 adj1 toks1 Hn1 Hm1. rewrite <- Ey.
      apply IH; try assumption.
      * apply top_ok_e.
      * lia.
      * apply app_ne, Hq1.
      * rewrite Ey. unfold chr in *. rewrite app_length in Hlen. cbn [length] in *. lia.
Qed.

Lemma joinc_cons e r : joinc (map rentry (e :: r)) = rentry e ++ rtail r.
Proof.
  cbn [map joinc]. f_equal. unfold rtail. induction r as [|x r IH]; cbn [map flat_map]; [reflexivity|]. rewrite IH. reflexivity.
Qed.

(* everything between an opening bracket and the token behind the closing one *)
Lemma body_scan seq es : forall fl, Forall (EntOK seq (fl + 1)) es ->
  forall F y rest l n q adj hd2 tls tp ta lws ifr,
  not_ws y -> 0 < n -> q <> [] -> needy tp (hd2 :: tls) ->
  (2 * length (joinc (map rentry es) ++ closer seq :: y :: rest) + 4 <= F)%nat ->
  scanned F (joinc (map rentry es) ++ closer seq :: y :: rest) y rest l n q adj true (dummy_key :: hd2 :: tls) (fl + 1) tp ta lws (top0 seq :: ifr)
     (hd2 :: tls) fl ifr (fsep (map (etk seq) es) ++ [close_tok seq]).
Proof.
  intros fl HF F y rest l n q adj hd2 tls tp ta lws ifr Hy Hn Hq Hnd Hfuel.
  destruct es as [|e r].
  - pose proof (tail_scan seq [] fl HF F y rest l n q adj true false 0 mk0 hd2 tls tp ta lws (top0 seq) ifr Hy (top_ok_0 seq) Hn Hq Hnd Hfuel) as SC.
    cbn [tail_toks rtail flat_map app map joinc fsep] in *. destruct seq; exact SC.
  - inversion HF as [|? ? (Hwf & Hkl & HN & Hd) HF']; subst.
    rewrite joinc_cons in *. rewrite <- app_assoc in Hfuel |- *.
    destruct (rtail_first seq r (y :: rest)) as (y' & rest' & Ey & Hy').
    rewrite Ey in *.
    destruct (entry_scan seq e Hwf Hkl HN F y' rest' l n q adj false 0 mk0 (hd2 :: tls) (fl + 1) tp ta lws ifr Hy' ltac:(lia) Hd Hn Hq Hnd Hfuel)
      as (p' & tn' & m' & SC).
    eapply scanned_exp; [apply tail_toks_spec|].
    eapply scanned_trans; [exact SC|].
    intros l1 n1 adj1 toks1 Hn1 Hm1. rewrite <- Ey.
    apply tail_scan; try assumption.
    + apply top_ok_e.
    + lia.
    + apply app_ne, Hq.
    + rewrite Ey. unfold chr in *. rewrite app_length in Hfuel. cbn [length] in *. lia.
Qed.

Lemma depth_FS_le es e : In e es -> (depth (snd e) < depth (FS es))%nat.
Proof.
  cbn [depth]. induction es as [|x r IH]; intros H; [destruct H|]. cbn [fold_right]. destruct H as [->|H]; [lia|].
  specialize (IH H). lia.
Qed.
Lemma depth_FM_le ps p : In p ps -> (depth (snd p) < depth (FM ps))%nat.
Proof.
  cbn [depth]. induction ps as [|x r IH]; intros H; [destruct H|]. cbn [fold_right]. destruct H as [->|H]; [lia|].
  specialize (IH H). lia.
Qed.

Lemma node_coll (seq : bool) (f : fnode) (es : list entry) :
  render f = opener seq :: joinc (map rentry es) ++ [closer seq] ->
  tokens_of (lt f) = open_tok seq :: fsep (map (etk seq) es) ++ [close_tok seq] ->
  (1 <= depth f)%nat ->
  (forall fl, fl + N.of_nat (depth f) <= 255 -> Forall (EntOK seq (fl + 1)) es) ->
  NodeScan f.
Proof.
  intros Er Et Hd1 HF F k y rest l n q adj ska p tn m tls fl tp ta lws ifms Hy Hfl Hd Hn Hq Hnd Hfuel.
  rewrite Er, Et in *. clear Er Et.
  assert (Echars : (opener seq :: joinc (map rentry es) ++ [closer seq]) ++ y :: rest
                   = opener seq :: (joinc (map rentry es) ++ closer seq :: y :: rest)).
  { cbn [app]. rewrite <- app_assoc. reflexivity. }
  rewrite Echars in *. clear Echars.
  specialize (HF fl Hd).
  assert (Hwfs : Forall (fun e => ewf e = true) es) by (eapply Forall_impl; [|exact HF]; intros e (H & _); exact H).
  destruct (body_first seq es (y :: rest) Hwfs) as (c' & cs' & Ec & Hc').
  set (K := if ska then skey true (tp + N.of_nat (length q)) (mk1 (n + N.of_nat k)) else skey p tn m).
  assert (Hlen : (length (repeat 32%N k ++ opener seq :: joinc (map rentry es) ++ closer seq :: y :: rest)
                  = k + S (length (joinc (map rentry es) ++ closer seq :: y :: rest)))%nat).
  { rewrite app_length, repeat_length. reflexivity. }
  pose proof (fnt_open F k seq c' cs' l n q adj ska (skey p tn m) tls fl tp ta lws ifms
                ltac:(unfold chr in *; lia) Hfl ltac:(lia) Hn Hc') as E.
  rewrite <- Ec in E. fold K in E.
  exists (n + N.of_nat k). fold K.
  set (t1 := [(spn (mk1 (n + N.of_nat k)) (mk1 (n + N.of_nat k + 1)), open_tok seq)]).
  eapply scanned_exp; [|eapply scanned_cons with (t1 := t1); [ | | | | | ]].
  - reflexivity.
  - apply busy_flow; [exact Hq | exact Hfl | apply needy_cons, Hnd].
  - exact E.
  - lia.
  - unfold chr in *. rewrite Hlen. lia.
  - cbn [t1 length]. lia.
  - apply body_scan; try assumption.
    + apply follow3_not_ws, Hy.
    + lia.
    + apply app_ne, Hq.
    + apply needy_cons, Hnd.
    + unfold chr in *. lia.
Qed.

Section fnode_ind2.
  Variable P : fnode -> Prop.
  Hypothesis HW : forall w, P (FW w).
  Hypothesis HS : forall es, Forall (fun e : option str * fnode => P (snd e)) es -> P (FS es).
  Hypothesis HM : forall ps, Forall (fun p : str * fnode => P (snd p)) ps -> P (FM ps).
  Fixpoint fnode_ind2 (f : fnode) : P f :=
    match f with
    | FW w => HW w
    | FS es => HS es ((fix go (l : list (option str * fnode)) : Forall (fun e => P (snd e)) l :=
                         match l with [] => Forall_nil _ | (o, n) :: r => Forall_cons (o, n) (fnode_ind2 n) (go r) end) es)
    | FM ps => HM ps ((fix go (l : list (str * fnode)) : Forall (fun p => P (snd p)) l :=
                         match l with [] => Forall_nil _ | (k, n) :: r => Forall_cons (k, n) (fnode_ind2 n) (go r) end) ps)
    end.
End fnode_ind2.

(* an entry of a well-formed '[ ]' / '{ }' *)
Lemma fs_entry_ok (e : entry) :
  (match fst e with Some k => key_ok k | None => true end && fwf (snd e)) = true ->
  ewf e = true /\ klim true e /\ fwf (snd e) = true.
Proof.
  intros H. apply andb_prop in H as [Hk Hv]. unfold ewf, klim. destruct e as [[k|] v]; cbn [fst snd] in *.
  - unfold key_ok in Hk. apply andb_prop in Hk as [Hk Hs]. rewrite Hk, Hv. repeat split; try reflexivity.
    intros _ k' [= <-]. unfold key_short, key_max in Hs. apply N.leb_le in Hs. exact Hs.
  - rewrite Hv. repeat split; try reflexivity. intros _ k' [=].
Qed.
Lemma fm_entry_ok (p : str * fnode) :
  (word_ok (fst p) && fwf (snd p)) = true -> ewf (of_pair p) = true /\ klim false (of_pair p) /\ fwf (snd p) = true.
Proof.
  intros H. split; [exact H|]. split; [intros [=]|]. apply andb_prop in H as [_ Hv]. exact Hv.
Qed.

Theorem node_scan : forall f, fwf f = true -> NodeScan f.
Proof.
  apply (fnode_ind2 (fun f => fwf f = true -> NodeScan f)).
  - intros w Hw. apply node_word, Hw.
  - intros es IH Hw. apply (node_coll true (FS es) es (render_FS es) (tokens_FS es)); [cbn [depth]; lia|].
    intros fl Hd. rewrite Forall_forall in *. intros e He.
    cbn [fwf] in Hw. rewrite forallb_forall in Hw. specialize (Hw e He). destruct (fs_entry_ok e Hw) as (H1 & H2 & Hv).
    pose proof (depth_FS_le es e He) as Hlt.
    split; [exact H1|]. split; [exact H2|]. split; [|lia].
    apply IH; [exact He|exact Hv].
  - intros ps IH Hw. apply (node_coll false (FM ps) (map of_pair ps) (render_FM ps) (tokens_FM ps)); [cbn [depth]; lia|].
    intros fl Hd. rewrite Forall_forall in *. intros e He. apply in_map_iff in He as (p & <- & Hp).
    cbn [fwf] in Hw. rewrite forallb_forall in Hw. specialize (Hw p Hp). destruct (fm_entry_ok p Hw) as (H1 & H2 & Hv).
    pose proof (depth_FM_le ps p Hp) as Hlt.
    split; [exact H1|]. split; [exact H2|]. split; [|unfold of_pair; cbn [snd]; lia].
    apply IH; [exact Hp|exact Hv].
Qed.

(* ---------- the top level: stream start, the root collection at column 0, the line break, stream end ---------- *)
Definition root_key : simple_key := skey true 1 (mk1 0).

Lemma first_token F chars : (2 <= F)%nat ->
  next_token str_ops F (init_sc {| si_chars := chars; si_look := 0 |})
  = Ok (Some (span_empty (mk1 0), TStreamStart), mkst chars 1 (mk1 0) [] 0 true [dummy_key] 0 1 false true []).
Proof. intros HF. destruct F as [|[|F]]; [lia|lia|]. reflexivity. Qed.

Lemma stale_idle cs l mk q adj ska tn m fl tp ta lws ifms :
  stale_simple_keys (mkst cs l mk q adj ska [skey false tn m] fl tp ta lws ifms) = Ok (tt, mkst cs l mk q adj ska [skey false tn m] fl tp ta lws ifms).
Proof. reflexivity. Qed.

Lemma Zm1 : (-1 <? -1)%Z = false.
Proof. reflexivity. Qed.

Lemma first_open F (seq : bool) c' cs : (1 <= F)%nat -> not_ws c' ->
  fetch_next_token str_ops F (mkst (opener seq :: c' :: cs) 1 (mk1 0) [] 0 true [dummy_key] 0 1 false true [])
  = Ok (tt, mkst (c' :: cs) 4 (mk1 1) [(spn (mk1 0) (mk1 1), open_tok seq)] 0 true [dummy_key; root_key] 1 1 false false [top0 seq]).
Proof.
  intros HF Hws.
  assert (Hb : is_blank_or_breakz (opener seq) = false) by (destruct seq; reflexivity).
  assert (H35 : (opener seq =? 35) = false) by (destruct seq; reflexivity).
  pose proof (skip_spaces 0 F (c' :: cs) 1 0 [] 0 true [dummy_key] 0 1 false true [] (opener seq) ltac:(lia) Hb H35) as E1.
  cbn [repeat app Nat.max N.of_nat] in E1. change (0 + 0) with 0 in E1.
  rewrite fnt_unfold. unfold mkst at 1. cbn. rw_st E1. cbn.
  pose proof (stale_idle (opener seq :: c' :: cs) 1 (mk1 0) [] 0 true 0 mk0 0 1 false true []) as E2.
  unfold dummy_key. rw_sk E2. cbn.
  rewrite col_not_lt_indent. cbn.
  pose proof (open_step F seq (opener seq) c' cs 4 0 [] 0 true dummy_key [] 0 1 false true [] HF eq_refl Hws) as E3.
  unfold dummy_key in E3.
  destruct seq; cbn [opener] in E3; cbn; unfold fnt_rest; cbn; rewrite col_not_lt_indent; cbn; rw_sk E3; reflexivity.
Qed.

Lemma ltb_max2 a : Nat.leb (Nat.max a 2) 1 = false.
Proof. apply Nat.leb_gt. lia. Qed.

(* the line break behind the root collection, then the end of input *)
Lemma skip_nl_eof F l N q adj ska sks tp ta lws ifms : (2 <= F)%nat ->
  skip_to_next_token str_ops F (mkst [10] l (mk1 N) q adj ska sks 0 tp ta lws ifms)
  = Ok (tt, mkst [] (Nat.max (Nat.max (Nat.max l 1) 2) 1) (nlm (mk1 N)) q adj true sks 0 tp ta true ifms).
Proof.
  intros HF. destruct F as [|[|F]]; [lia|lia|].
  unfold skip_to_next_token, mkst. cbn. unfold skip_linebreak, next_2_are, assert_buflen. cbn. rewrite ltb_max2. cbn. reflexivity.
Qed.

Lemma stale_line2 cs l N q adj ska p tp ta lws ifms :
  stale_simple_keys (mkst cs l (nlm (mk1 N)) q adj ska [skey p 1 (mk1 0)] 0 tp ta lws ifms)
  = Ok (tt, mkst cs l (nlm (mk1 N)) q adj ska [skey false 1 (mk1 0)] 0 tp ta lws ifms).
Proof.
  unfold stale_simple_keys, mkst, skey, nlm. cbn. change (1 + 1) with 2. cbn. rewrite !andb_false_r. cbn.
  destruct p; reflexivity.
Qed.

Lemma final_fetch F l N q adj ska p tp ta lws : (2 <= F)%nat ->
  exists l',
  fetch_next_token str_ops F (mkst [10] l (mk1 N) q adj ska [skey p 1 (mk1 0)] 0 tp ta lws [])
  = Ok (tt, mkst [] l' (nlm (mk1 N)) (q ++ [(span_empty (nlm (mk1 N)), TStreamEnd)]) adj false [skey false 1 (mk1 0)] 0 tp ta true []).
Proof.
  intros HF. eexists.
  rewrite fnt_unfold. unfold mkst at 1. cbn.
  rw_st (skip_nl_eof F (Nat.max l 1) N q adj ska [skey p 1 (mk1 0)] tp ta lws [] HF).
  rw_st (stale_line2 [] (Nat.max (Nat.max (Nat.max (Nat.max l 1) 1) 2) 1) N q adj true p tp ta true []).
  cbn. rewrite col_not_lt_indent. cbn.
  unfold fetch_stream_end. cbn. rewrite Zm1. cbn. reflexivity.
Qed.

(* ---------- handing out the queued tokens ---------- *)
Lemma scan_all_S F fuel s acc :
  scan_all str_ops F (S fuel) s acc =
  match next_token str_ops F s with
  | Ok (Some t, s') => scan_all str_ops F fuel s' (t :: acc)
  | Ok (None, _) => (rev acc, SEnded)
  | Err e m => (rev acc, SError e m)
  | Panic n => (rev acc, SPanic n)
  | OutOfFuel => (rev acc, SFuel)
  end.
Proof. reflexivity. Qed.

Definition idle_key : simple_key := skey false 1 (mk1 0).

Ltac nf := unfold mkst, idle_key, root_key, dummy_key, skey, token in *.
Ltac rw_nf E := let H := fresh "E" in pose proof E as H; unfold mkst, idle_key, root_key, dummy_key, skey, token in H; unfold token; rewrite H; clear H.

Lemma need_idle cs l mk t r adj ska fl tp ta lws ifms :
  need_comp (mkst cs l mk (t :: r) adj ska [idle_key] fl tp ta lws ifms)
  = Ok (false, mkst cs l mk (t :: r) adj ska [idle_key] fl tp ta lws ifms).
Proof. reflexivity. Qed.

Lemma idle_next F t r cs l mk adj ska fl tp ta lws ifms : (1 <= F)%nat -> snd t <> TStreamEnd ->
  next_token str_ops F (mkst cs l mk (t :: r) adj ska [idle_key] fl tp ta lws ifms)
  = Ok (Some t, mkst cs l mk r adj ska [idle_key] fl (tp + 1) false lws ifms).
Proof.
  intros HF Ht. destruct F as [|F]; [lia|]. unfold next_token. nf. cbn. destruct ta; cbn.
  - destruct t as [sp k]. cbn [snd] in Ht. destruct k; try congruence; reflexivity.
  - rewrite fmt_S. cbn. rw_nf (need_idle cs l mk t r adj ska fl tp false lws ifms). cbn.
    destruct t as [sp k]. cbn [snd] in Ht. destruct k; try congruence; reflexivity.
Qed.

Lemma drain F ts : forall r cs l mk adj ska fl tp ta lws ifms acc fuel,
  (1 <= F)%nat -> Forall (fun t => snd t <> TStreamEnd) ts ->
  scan_all str_ops F (length ts + fuel) (mkst cs l mk (ts ++ r) adj ska [idle_key] fl tp ta lws ifms) acc
  = scan_all str_ops F fuel (mkst cs l mk r adj ska [idle_key] fl (tp + N.of_nat (length ts))
                               (match ts with [] => ta | _ => false end) lws ifms) (rev ts ++ acc).
Proof.
  induction ts as [|t ts IH]; intros r cs l mk adj ska fl tp ta lws ifms acc fuel HF Hts.
  - cbn [length plus app rev N.of_nat]. rewrite N.add_0_r. reflexivity.
  - inversion Hts as [|? ? Ht Hts']; subst.
    cbn [length plus app]. rewrite scan_all_S, (idle_next F t (ts ++ r)) by assumption. cbv beta iota.
    etransitivity; [exact (IH r cs l mk adj ska fl (tp + 1) false lws ifms (t :: acc) fuel HF Hts')|].
    cbn [rev]. rewrite <- app_assoc. cbn [app].
    replace (tp + 1 + N.of_nat (length ts)) with (tp + N.of_nat (S (length ts))) by lia.
    destruct ts; reflexivity.
Qed.

Lemma end_A F l mE sp adj tp ta acc fuel : (1 <= F)%nat ->
  scan_all str_ops F (S (S fuel)) (mkst [] l mE [(sp, TStreamEnd)] adj false [idle_key] 0 tp ta true []) acc
  = (rev ((sp, TStreamEnd) :: acc), SEnded).
Proof.
  intros HF. destruct F as [|F]; [lia|].
  rewrite scan_all_S. unfold next_token. nf. cbn. destruct ta; cbn.
  - rewrite scan_all_S. unfold next_token. cbn. reflexivity.
  - rewrite fmt_S. cbn. rw_nf (need_idle [] l mE (sp, TStreamEnd) [] adj false 0 tp false true []). cbn.
    rewrite scan_all_S. unfold next_token. cbn. reflexivity.
Qed.

Lemma need_empty cs l mk adj ska sks fl tp ta lws ifms :
  need_comp (mkst cs l mk [] adj ska sks fl tp ta lws ifms) = Ok (true, mkst cs l mk [] adj ska sks fl tp ta lws ifms).
Proof. reflexivity. Qed.

Lemma end_B F l N adj tp acc fuel : (3 <= F)%nat ->
  scan_all str_ops F (S (S fuel)) (mkst [10] l (mk1 N) [] adj false [idle_key] 0 tp false false []) acc
  = (rev ((span_empty (nlm (mk1 N)), TStreamEnd) :: acc), SEnded).
Proof.
  intros HF. destruct (final_fetch F l N [] adj false false tp false false ltac:(lia)) as (l' & E).
  destruct F as [|[|F]]; [lia|lia|].
  rewrite scan_all_S. unfold next_token. nf. cbn.
  rewrite fmt_S. cbn. rw_nf (need_empty [10] l (mk1 N) adj false [idle_key] 0 tp false false []). cbn.
  rw_nf E. cbn. rewrite fmt_S. cbn.
  rw_nf (need_idle [] l' (nlm (mk1 N)) (span_empty (nlm (mk1 N)), TStreamEnd) [] adj false 0 tp false true []). cbn.
  rewrite scan_all_S. unfold next_token. cbn. reflexivity.
Qed.

Lemma next_token_fmt F (s s' : sc strin) :
  sc_stream_end s = false -> sc_token_available s = false ->
  fetch_more_tokens str_ops F F s = Ok (tt, s') ->
  sc_stream_end s' = false -> sc_token_available s' = true ->
  next_token str_ops F s = next_token str_ops F s'.
Proof.
  intros H1 H2 H3 H4 H5. unfold next_token. cbn. rewrite H1, H4. cbn. rewrite H2, H5. cbn. rewrite H3. reflexivity.
Qed.

(* the root's simple key at the end of the line: stale only when the line is longer than the simple-key limit *)
Lemma need_root l n t q adj ska ta lws :
  need_comp (mkst [10] l (mk1 n) (t :: q) adj ska [root_key] 0 1 ta lws [])
  = if 0 + SIMPLE_KEY_MAX <? n
    then Ok (false, mkst [10] l (mk1 n) (t :: q) adj ska [idle_key] 0 1 ta lws [])
    else Ok (true, mkst [10] l (mk1 n) (t :: q) adj ska [root_key] 0 1 ta lws []).
Proof.
  unfold need_comp, stale_simple_keys. nf. cbn. rewrite !andb_false_r. cbn.
  destruct (0 + SIMPLE_KEY_MAX <? n); reflexivity.
Qed.

(* ---------- no token of the sub-language is StreamEnd ---------- *)
Definition not_se (k : tok) : bool := match k with TStreamEnd => false | _ => true end.
Lemma forallb_fsep (p : tok -> bool) l : p TFlowEntry = true -> forallb p (fsep l) = forallb (forallb p) l.
Proof.
  intros Hp. destruct l as [|x r]; cbn [fsep forallb]; [reflexivity|]. rewrite forallb_app. f_equal.
  induction r as [|y r IH]; cbn [flat_map forallb]; [reflexivity|]. rewrite forallb_app. cbn [forallb]. rewrite Hp, IH. reflexivity.
Qed.
Lemma forallb_map {A B} (p : B -> bool) (g : A -> B) l : forallb p (map g l) = forallb (fun x => p (g x)) l.
Proof. induction l as [|x l IH]; cbn; [reflexivity|]. rewrite IH. reflexivity. Qed.

Lemma not_se_tokens : forall f, forallb not_se (tokens_of (lt f)) = true.
Proof.
  apply fnode_ind2.
  - intros w. reflexivity.
  - intros es IH. rewrite tokens_FS. cbn [forallb open_tok not_se andb]. rewrite forallb_app, forallb_fsep, forallb_map by reflexivity.
    cbn [forallb close_tok not_se]. rewrite andb_true_r. apply forallb_forall. intros e He. rewrite Forall_forall in IH. specialize (IH e He).
    unfold etk, etk', etop. rewrite !forallb_app. rewrite IH. destruct e as [[k|] v]; reflexivity.
  - intros ps IH. rewrite tokens_FM. cbn [forallb open_tok not_se andb]. rewrite forallb_app, forallb_fsep, !forallb_map by reflexivity.
    cbn [forallb close_tok not_se]. rewrite andb_true_r. apply forallb_forall. intros p Hp. rewrite Forall_forall in IH. specialize (IH p Hp).
    unfold etk, etk', etop, of_pair. cbn [fst snd]. rewrite !forallb_app. rewrite IH. reflexivity.
Qed.

Lemma no_se_spanned (q : list token) L : map snd q = L -> forallb not_se L = true -> Forall (fun t => snd t <> TStreamEnd) q.
Proof.
  intros <- H. rewrite forallb_map in H. rewrite forallb_forall in H. apply Forall_forall. intros t Ht E.
  specialize (H t Ht). rewrite E in H. discriminate.
Qed.

(* ---------- the whole scanner on a document of the sub-language ---------- *)
Lemma scan_root (seq : bool) (f : fnode) (es : list entry) :
  render f = opener seq :: joinc (map rentry es) ++ [closer seq] ->
  tokens_of (lt f) = open_tok seq :: fsep (map (etk seq) es) ++ [close_tok seq] ->
  Forall (EntOK seq (0 + 1)) es ->
  exists toks, scan_str (doc_text f) = (toks, SEnded) /\ map snd toks = wrap false false (tokens_of (lt f)).
Proof.
  intros Er Et HF.
  assert (Hwfs : Forall (fun e => ewf e = true) es) by (eapply Forall_impl; [|exact HF]; intros e (H & _); exact H).
  destruct (body_first seq es [10] Hwfs) as (c' & cs' & Ec & Hc').
  unfold scan_str, doc_text.
  assert (Etext : render f ++ [10] = opener seq :: c' :: cs').
  { rewrite Er, <- Ec. cbn [app]. rewrite <- app_assoc. reflexivity. }
  rewrite Etext. remember (2 * length (opener seq :: c' :: cs') + 10)%nat as F eqn:HFlen.
  change (length (opener seq :: c' :: cs')) with (1 + length (c' :: cs'))%nat in HFlen.
  set (ot := (spn (mk1 0) (mk1 1), open_tok seq)).
  destruct (body_scan seq es 0 HF F 10 [] 4 1 [ot] 0 root_key [] 1 false false []
              ltac:(repeat split; reflexivity) ltac:(lia) ltac:(discriminate) ltac:(reflexivity)
              ltac:(rewrite Ec; unfold chr in *; cbn [length] in *; lia))
    as (steps & l' & n' & adj' & toks & R & Hn' & Hm & Hs & Hc).
  rewrite Ec in R, Hs.
  set (q := [ot] ++ toks) in *.
  assert (Hmq : map snd q = tokens_of (lt f)) by (unfold q; rewrite map_app, Hm, Et; reflexivity).
  assert (Hq_se : Forall (fun t => snd t <> TStreamEnd) q) by (eapply no_se_spanned; [exact Hmq | apply not_se_tokens]).
  assert (Hqlen : (length q <= 1 + 3 * steps)%nat) by (unfold q; rewrite app_length; unfold token in *; cbn [length]; lia).
  assert (HF3 : exists F2, F = S (steps + S (S F2))).
  { exists (F - steps - 3)%nat. unfold chr in *. cbn [length] in Hs, HFlen. lia. }
  destruct HF3 as (F2 & EF).
  assert (HFge : (3 <= F)%nat) by lia.
  (* the first fetch_more_tokens of the second next_token call brings in the whole document *)
  set (S1 := mkst (opener seq :: c' :: cs') 1 (mk1 0) [] 0 true [dummy_key] 0 1 false true []).
  assert (Hfmt : exists s5, fetch_more_tokens str_ops F F S1 = Ok (tt, s5) /\
            ((exists l5, s5 = mkst [] l5 (nlm (mk1 n')) (q ++ [(span_empty (nlm (mk1 n')), TStreamEnd)]) adj' false [idle_key] 0 1 true true [])
             \/ s5 = mkst [10] l' (mk1 n') q adj' false [idle_key] 0 1 true false [])).
  { replace (fetch_more_tokens str_ops F F S1) with (fetch_more_tokens str_ops F (S (steps + S (S F2))) S1) by (rewrite <- EF; reflexivity).
    rewrite fmt_S. unfold S1. nf. cbn. rw_nf (need_empty (opener seq :: c' :: cs') 1 (mk1 0) 0 true [dummy_key] 0 1 false true []). cbn.
    rw_nf (first_open F seq c' cs' ltac:(lia) Hc'). cbn.
    pose proof (fsteps_fmt F steps _ _ R (S (S F2))) as E3. unfold top0, ot in E3. nf. unfold top0, ot. change (0 + 1) with 1 in E3. rewrite E3. clear E3.
    unfold q, ot. cbn [app].
    rewrite fmt_S. cbn. rw_nf (need_root l' n' (spn (mk1 0) (mk1 1), open_tok seq) toks adj' false false false).
    destruct (0 + SIMPLE_KEY_MAX <? n').
    - cbn. eexists. split; [reflexivity|]. right. reflexivity.
    - cbn. destruct (final_fetch F l' n' ((spn (mk1 0) (mk1 1), open_tok seq) :: toks) adj' false true 1 false false ltac:(lia)) as (l5 & E5).
      rw_nf E5. cbn. rewrite fmt_S. cbn.
      rw_nf (need_idle [] l5 (nlm (mk1 n')) (spn (mk1 0) (mk1 1), open_tok seq) (toks ++ [(span_empty (nlm (mk1 n')), TStreamEnd)]) adj' false 0 1 false true []). cbn.
      eexists. split; [reflexivity|]. left. exists l5. reflexivity. }
  destruct Hfmt as (s5 & E5 & Hs5).
  assert (Hnt : next_token str_ops F S1 = next_token str_ops F s5).
  { apply next_token_fmt; try reflexivity; try exact E5; destruct Hs5 as [(l5 & ->) | ->]; reflexivity. }
  set (tot := (4 * F + 20)%nat).
  assert (Htot : exists rest, tot = S (length q + S (S rest))).
  { exists (tot - length q - 3)%nat. unfold tot. lia. }
  destruct Htot as (rest & Etot). rewrite Etot.
  rewrite scan_all_S, (first_token F (opener seq :: c' :: cs')) by lia. cbv beta iota. fold S1.
  destruct (length q + S (S rest))%nat as [|fuel1] eqn:Efuel; [lia|].
  rewrite scan_all_S, Hnt, <- scan_all_S, <- Efuel.
  exists ((span_empty (mk1 0), TStreamStart) :: q ++ [(span_empty (nlm (mk1 n')), TStreamEnd)]).
  split.
  - destruct Hs5 as [(l5 & ->) | ->].
    + etransitivity; [exact (drain F q [(span_empty (nlm (mk1 n')), TStreamEnd)] [] l5 (nlm (mk1 n')) adj' false 0 1 true true []
                 [(span_empty (mk1 0), TStreamStart)] (S (S rest)) ltac:(lia) Hq_se)|].
      rewrite end_A by lia. f_equal. cbn [rev]. rewrite rev_app_distr, rev_involutive. reflexivity.
    + pose proof (drain F q [] [10] l' (mk1 n') adj' false 0 1 true false [] [(span_empty (mk1 0), TStreamStart)] (S (S rest)) ltac:(lia) Hq_se) as Ed.
      rewrite app_nil_r in Ed. etransitivity; [exact Ed|]. clear Ed.
      assert (Eqq : match q with [] => true | _ :: _ => false end = false) by reflexivity. rewrite Eqq.
      rewrite end_B by lia. f_equal. cbn [rev]. rewrite rev_app_distr, rev_involutive. reflexivity.
  - cbn [map snd]. rewrite map_app, Hmq. reflexivity.
Qed.

Lemma entok_root seq fl es :
  (forall e, In e es -> ewf e = true /\ klim seq e /\ fl + N.of_nat (depth (snd e)) <= 255) -> Forall (EntOK seq fl) es.
Proof.
  intros H. apply Forall_forall. intros e He. destruct (H e He) as (Hw & Hk & Hd). split; [exact Hw|]. split; [exact Hk|]. split; [|exact Hd].
  apply node_scan. unfold ewf in Hw. apply andb_prop in Hw as [_ Hv]. exact Hv.
Qed.

Theorem scan_flow f : fwf f = true -> is_coll f = true -> (depth f <= 255)%nat ->
  exists toks, scan_str (doc_text f) = (toks, SEnded) /\ map snd toks = wrap false false (tokens_of (lt f)).
Proof.
  intros Hw Hc Hd. destruct f as [w|es|ps]; [discriminate| |].
  - apply (scan_root true (FS es) es (render_FS es) (tokens_FS es)). apply entok_root. intros e He.
    cbn [fwf] in Hw. rewrite forallb_forall in Hw. destruct (fs_entry_ok e (Hw e He)) as (H1 & H2 & _).
    split; [exact H1|]. split; [exact H2|].
    pose proof (depth_FS_le es e He). lia.
  - apply (scan_root false (FM ps) (map of_pair ps) (render_FM ps) (tokens_FM ps)). apply entok_root. intros e He.
    apply in_map_iff in He as (p & <- & Hp). cbn [fwf] in Hw. rewrite forallb_forall in Hw.
    destruct (fm_entry_ok p (Hw p Hp)) as (H1 & H2 & _). split; [exact H1|]. split; [exact H2|].
    pose proof (depth_FM_le ps p Hp). unfold of_pair. cbn [snd]. lia.
Qed.

(* ---------- the key limit is sharp: an over-long key of a flow-sequence single pair is an error at its ':' ---------- *)
Lemma value_long F cs l n q0 kt adj ska nk tls fl tp ta lws top ifr :
  0 < fl -> is_ifm top = true -> nk + SIMPLE_KEY_MAX < n ->
  fetch_value str_ops F (mkst (58 :: 32 :: cs) l (mk1 n) (q0 ++ [kt]) adj ska
                           (skey true (tp + N.of_nat (length q0)) (mk1 nk) :: tls) fl tp ta lws (top :: ifr))
  = Err 98 (mk1 n).
Proof.
  intros Hfl Hi Hlong. destruct (fl_pos_facts fl Hfl) as [Hf0 Hf1].
  assert (Hlt : (tp + N.of_nat (length q0) <? tp) = false) by (apply N.ltb_ge; lia).
  assert (Hk : (nk + SIMPLE_KEY_MAX <? n) = true) by (apply N.ltb_lt, Hlong).
  unfold fetch_value, mkst, skey.
  destruct top; try discriminate; cbn; rewrite Hf0; cbn; rewrite Hlt; cbn;
    (erewrite insert_token_app; [| reflexivity]); cbn; rewrite Hk; cbn; reflexivity.
Qed.

Lemma fmt_fetch F fuel s s1 : need_comp s = Ok (true, s) -> fetch_next_token str_ops F s = Ok (tt, s1) ->
  fetch_more_tokens str_ops F (S fuel) s = fetch_more_tokens str_ops F fuel s1.
Proof. intros Hn Hf. rewrite fmt_S. cbn. rewrite Hn. cbn. rewrite Hf. reflexivity. Qed.
Lemma fmt_err F fuel s e m : need_comp s = Ok (true, s) -> fetch_next_token str_ops F s = Err e m ->
  fetch_more_tokens str_ops F (S fuel) s = Err e m.
Proof. intros Hn Hf. rewrite fmt_S. cbn. rewrite Hn. cbn. rewrite Hf. reflexivity. Qed.

Lemma next_token_err F (s : sc strin) e m :
  sc_stream_end s = false -> sc_token_available s = false ->
  fetch_more_tokens str_ops F F s = Err e m -> next_token str_ops F s = Err e m.
Proof. intros H1 H2 H3. unfold next_token. cbn. rewrite H1. cbn. rewrite H2. cbn. rewrite H3. reflexivity. Qed.

Theorem scan_long_key k v es : word_ok k = true -> key_short k = false ->
  scan_str (doc_text (FS ((Some k, v) :: es)))
  = ([(span_empty (mk1 0), TStreamStart)], SError 98 (mk1 (1 + N.of_nat (length k)))).
Proof.
  intros Hk Hlong. destruct (word_first k Hk) as (c & w' & -> & Hcw).
  unfold key_short, key_max in Hlong. apply N.leb_gt in Hlong.
  unfold scan_str, doc_text.
  match goal with |- context [{| si_chars := ?t; si_look := _ |}] =>
    assert (Etext : exists cs, t = opener true :: c :: w' ++ 58 :: 32 :: cs) end.
  { cbn [render map fst snd joinc opener]. eexists. cbn [app colon_sp]. rewrite <- !app_assoc. cbn [app]. reflexivity. }
  destruct Etext as (cs & ->).
  remember (2 * length (opener true :: c :: w' ++ 58%N :: 32%N :: cs) + 10)%nat as F eqn:HFlen.
  assert (HF : (2 * length w' + 16 <= F)%nat) by (rewrite HFlen; cbn [length]; rewrite app_length; cbn [length]; lia).
  assert (Hc : wch c = true) by (cbn [forallb] in Hcw; apply andb_prop in Hcw as [H _]; exact H).
  set (ot := (spn (mk1 0) (mk1 1), open_tok true)).
  destruct (fnt_word F 0 c w' 58 (32 :: cs) 4 1 [ot] 0 true false 0 mk0 [root_key] 1 1 false false [top0 true]
              Hcw ltac:(right; right; right; split; [reflexivity|eexists; reflexivity]) ltac:(lia) ltac:(lia) ltac:(lia) ltac:(lia)) as (l1 & E1).
  set (n1 := 1 + N.of_nat 0 + N.of_nat (length (c :: w'))) in *.
  set (kt := (spn (mk1 (1 + N.of_nat 0)) (mk1 n1), TScalar Plain (c :: w'))) in *.
  set (S1 := mkst (opener true :: c :: w' ++ 58 :: 32 :: cs) 1 (mk1 0) [] 0 true [dummy_key] 0 1 false true []).
  assert (Hfmt : fetch_more_tokens str_ops F F S1 = Err 98 (mk1 n1)).
  { destruct F as [|[|[|F3]]]; [lia|lia|lia|]. unfold S1.
    erewrite fmt_fetch; [ | apply need_empty | apply first_open; [lia | exact (wch_not_ws c Hc)]].
    erewrite fmt_fetch; [ | | exact E1].
    2:{ apply busy_flow; [discriminate | lia | reflexivity]. }
    apply fmt_err; [apply busy_flow; [discriminate | lia | reflexivity]|].
    pose proof (fnt_prefix (S (S (S F3))) 0 58 (32 :: cs) l1 n1 ([ot] ++ [kt]) 0 false
                  [skey true (1 + N.of_nat (length [ot])) (mk1 (1 + N.of_nat 0)); root_key] 1 1 false false [top0 true]
                  ltac:(lia) eq_refl eq_refl ltac:(lia)) as P.
    etransitivity; [exact P|]. clear P.
    rewrite rest_58 by (apply N.eqb_neq; unfold n1; lia).
    replace (mk1 n1) with (mk1 (n1 + N.of_nat 0)) by (f_equal; lia).
    apply (value_long (S (S (S F3))) cs (Nat.max l1 4) (n1 + N.of_nat 0) [ot] kt 0 false (1 + N.of_nat 0) [root_key] 1 1 false false (top0 true) []);
      [lia | reflexivity | unfold n1, SIMPLE_KEY_MAX; cbn [length] in Hlong |- *; lia]. }
  assert (Hnt : next_token str_ops F S1 = Err 98 (mk1 n1)).
  { apply next_token_err; [reflexivity | reflexivity | exact Hfmt]. }
  assert (Htot : exists rest, (4 * F + 20 = S (S rest))%nat) by (exists (4 * F + 18)%nat; lia).
  destruct Htot as (rest & ->).
  rewrite scan_all_S, (first_token F (opener true :: c :: w' ++ 58 :: 32 :: cs)) by lia. cbv beta iota. fold S1.
  rewrite scan_all_S, Hnt. cbn [rev app]. replace n1 with (1 + N.of_nat (length (c :: w'))) by (unfold n1; lia). reflexivity.
Qed.

(* ---------- text -> events: the scanner theorem composed with the parser theorem ---------- *)
Require Import TokenGrammarProofs TokenStreamProofs.

Lemma lt_wf : forall f b i, wf b i (lt f) = true.
Proof.
  apply (fnode_ind2 (fun f => forall b i, wf b i (lt f) = true)).
  - intros w b i. reflexivity.
  - intros es IH b i. cbn [lt wf]. rewrite andb_true_r. rewrite forallb_map. apply forallb_forall. intros e He.
    rewrite Forall_forall in IH. specialize (IH e He). destruct e as [[k|] v]; cbn [fst snd fsent_wf wf forallb fment_wf lword is_none orb andb].
    + rewrite IH, !orb_true_r. reflexivity.
    + apply IH.
  - intros ps IH b i. cbn [lt wf]. rewrite andb_true_r. rewrite forallb_map. apply forallb_forall. intros p Hp.
    rewrite Forall_forall in IH. specialize (IH p Hp). cbn [fment_wf lword is_none wf orb andb]. rewrite IH, !orb_true_r. reflexivity.
Qed.

Definition plain_pev (x : pev) : bool :=
  match x with
  | PScalar _ _ None None | PSeqStart None None | PMapStart None None | PSeqEnd | PMapEnd => true
  | _ => false
  end.
Lemma bound_plain l : forallb plain_pev l = true -> forall e, bound [] e l = true.
Proof.
  induction l as [|x l IH]; intros H e; cbn [bound]; [reflexivity|]. cbn [forallb] in H. apply andb_prop in H as [Hx Hl].
  destruct x as [v st [a|] [tg|] | n | [a|] [tg|] | | [a|] [tg|] | ]; try discriminate; cbn; apply IH; exact Hl.
Qed.
Lemma forallb_flat_map {A B} (p : B -> bool) (g : A -> list B) l : forallb p (flat_map g l) = forallb (fun x => forallb p (g x)) l.
Proof. induction l as [|x l IH]; cbn [flat_map forallb]; [reflexivity|]. rewrite forallb_app, IH. reflexivity. Qed.
Lemma lt_plain : forall f, forallb plain_pev (pre_events (lt f)) = true.
Proof.
  apply fnode_ind2.
  - intros w. reflexivity.
  - intros es IH. cbn [lt pre_events forallb plain_pev no_props pr_anchor pr_tag andb]. rewrite forallb_app. cbn [forallb plain_pev]. rewrite andb_true_r.
    rewrite forallb_flat_map, forallb_map. apply forallb_forall. intros e He. rewrite Forall_forall in IH. specialize (IH e He).
    destruct e as [[k|] v]; cbn [fst snd fsent_pre pre_events flat_map ent_pre lword no_props pr_anchor pr_tag app forallb plain_pev andb] in *.
    + rewrite app_nil_r, forallb_app. cbn [forallb plain_pev]. rewrite IH. reflexivity.
    + exact IH.
  - intros ps IH. cbn [lt pre_events forallb plain_pev no_props pr_anchor pr_tag andb]. rewrite forallb_app. cbn [forallb plain_pev]. rewrite andb_true_r.
    rewrite forallb_flat_map, forallb_map. apply forallb_forall. intros p Hp. rewrite Forall_forall in IH. specialize (IH p Hp).
    cbn [ent_pre pre_events lword no_props pr_anchor pr_tag app forallb plain_pev andb]. exact IH.
Qed.

(* at most one event per character *)
Lemma joinc_length (l : list str) : (length (concat l) <= length (joinc l))%nat.
Proof.
  destruct l as [|x r]; cbn [joinc concat length]; [lia|]. rewrite !app_length.
  enough (length (concat r) <= length (flat_map (fun y => comma_sp ++ y) r))%nat by lia.
  induction r as [|y r IH]; cbn [concat flat_map length]; [lia|]. rewrite !app_length. lia.
Qed.
Lemma flat_map_le_text {A} (f : A -> list pev) (g : A -> str) l :
  Forall (fun x => (length (f x) <= length (g x))%nat) l -> (length (flat_map f l) <= length (concat (map g l)))%nat.
Proof. induction 1 as [|x l Hx _ IH]; cbn [flat_map map concat length]; [lia|]. rewrite !app_length. lia. Qed.

Lemma events_le_text : forall f, fwf f = true -> (length (pre_events (lt f)) <= length (render f))%nat.
Proof.
  apply (fnode_ind2 (fun f => fwf f = true -> (length (pre_events (lt f)) <= length (render f))%nat)).
  - intros w Hw. cbn [fwf] in Hw. destruct w; [discriminate|]. cbn. lia.
  - intros es IH Hw. cbn [lt pre_events render length]. rewrite !app_length. cbn [length].
    pose proof (joinc_length (map (fun e : option str * fnode => match fst e with Some k => k ++ colon_sp | None => [] end ++ render (snd e)) es)) as HJ.
    enough (length (flat_map (fsent_pre pre_events)
                      (map (fun e : option str * fnode => match fst e with
                                     | Some k => inl (LFMap no_props [(true, lword k, (true, lt (snd e)))] false)
                                     | None => inl (lt (snd e)) end) es))
            <= length (concat (map (fun e : option str * fnode => match fst e with Some k => k ++ colon_sp | None => [] end ++ render (snd e)) es)))%nat by (unfold str in *; lia).
    rewrite flat_map_concat_map, map_map, <- flat_map_concat_map. apply flat_map_le_text.
    rewrite Forall_forall in *. intros e He. cbn [fwf] in Hw. rewrite forallb_forall in Hw. specialize (Hw e He). apply andb_prop in Hw as [Hk Hv].
    specialize (IH e He Hv). destruct e as [[k|] v]; cbn [fst snd fsent_pre pre_events flat_map ent_pre lword app length] in *.
    + destruct k; [discriminate|]. rewrite !app_length. cbn [length colon_sp]. rewrite ?app_length. cbn [length]. lia.
    + exact IH.
  - intros ps IH Hw. cbn [lt pre_events render length]. rewrite !app_length. cbn [length].
    pose proof (joinc_length (map (fun p : str * fnode => (fst p ++ colon_sp) ++ render (snd p)) ps)) as HJ.
    enough (length (flat_map (ent_pre pre_events) (map (fun p : str * fnode => (true, lword (fst p), (true, lt (snd p)))) ps))
            <= length (concat (map (fun p : str * fnode => (fst p ++ colon_sp) ++ render (snd p)) ps)))%nat by (unfold str in *; lia).
    rewrite flat_map_concat_map, map_map, <- flat_map_concat_map. apply flat_map_le_text.
    rewrite Forall_forall in *. intros p Hp. cbn [fwf] in Hw. rewrite forallb_forall in Hw. specialize (Hw p Hp). apply andb_prop in Hw as [Hk Hv].
    specialize (IH p Hp Hv). cbn [ent_pre pre_events lword app length].
    destruct (fst p); [discriminate|]. rewrite !app_length. cbn [length colon_sp]. rewrite ?app_length. cbn [length]. lia.
Qed.

(* run_str is the scanner followed by the parser with some fuel that is at least 4 * (2 * length + 10) + 20
   (stated this way so that the proof does not depend on the exact parser fuel of Model/Pipe.v) *)
Lemma run_str_scan s : exists fuel, (4 * (2 * length s + 10) + 20 <= fuel)%nat /\
  run_str s = let '(toks, se) := scan_str s in parse_all fuel (init_p toks false) se [].
Proof. eexists. split; [|reflexivity]. lia. Qed.

Theorem run_flow f : fwf f = true -> is_coll f = true -> (depth f <= 255)%nat ->
  map fst (fst (run_str (doc_text f))) = wrap_events false (events_of (lt f)) /\ snd (run_str (doc_text f)) = PDone.
Proof.
  intros Hw Hc Hd. destruct (scan_flow f Hw Hc Hd) as (toks & Es & Hm).
  destruct (run_str_scan (doc_text f)) as (fuel & Hfuel & ->). rewrite Es.
  apply (parse_wrap (lt f) false false toks false SEnded fuel); [ | | exact Hm | ].
  - unfold wf_root. destruct f; [discriminate| |]; apply lt_wf.
  - apply bound_plain, lt_plain.
  - unfold wrap_events, events_of. cbn [length]. rewrite app_length, number_length. cbn [length].
    pose proof (events_le_text f Hw). unfold doc_text in Hfuel. rewrite app_length in Hfuel. cbn [length] in Hfuel. lia.
Qed.
