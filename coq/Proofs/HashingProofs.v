(* C20 — proofs about Model/Hashing.v *)
From Coq Require Import List NArith ZArith Bool Lia.
Import ListNotations.
Require Import Resolver Loader Hashing.
Open Scope N_scope.

Arguments N.eqb : simpl never.
Arguments N.ltb : simpl never.
Arguments N.sub : simpl never.

(* ------------------------------------------------------------------------------------------------ *)
(* strings, tags                                                                                     *)
(* ------------------------------------------------------------------------------------------------ *)
Lemma seqb_eq (a b : str) : str_eqb a b = true -> a = b.
Proof. unfold str_eqb. destruct (list_eq_dec N.eq_dec a b); congruence. Qed.
Lemma seqb_refl (a : str) : str_eqb a a = true.
Proof. unfold str_eqb. destruct (list_eq_dec N.eq_dec a a); congruence. Qed.
Lemma seqb_iff (a b : str) : str_eqb a b = true <-> a = b.
Proof. split; [apply seqb_eq | intros ->; apply seqb_refl]. Qed.
Lemma seqb_sym (a b : str) : str_eqb a b = str_eqb b a.
Proof. unfold str_eqb. destruct (list_eq_dec N.eq_dec a b), (list_eq_dec N.eq_dec b a); congruence. Qed.

Lemma tag_eqb_eq a b : tag_eqb a b = true -> a = b.
Proof.
  destruct a as [[h s]|], b as [[h' s']|]; cbn [tag_eqb]; try discriminate; [|reflexivity].
  intros H. apply andb_prop in H. destruct H as [H1 H2]. apply seqb_eq in H1, H2. congruence.
Qed.
Lemma tag_eqb_refl a : tag_eqb a a = true.
Proof. destruct a as [[h s]|]; cbn [tag_eqb]; [rewrite !seqb_refl|]; reflexivity. Qed.

(* ------------------------------------------------------------------------------------------------ *)
(* OrderedFloat: Eq implies equal hash bits                                                          *)
(* ------------------------------------------------------------------------------------------------ *)
Lemma ofloat_eq_hash a b : ofloat_eqb a b = true -> ofloat_hash_bits a = ofloat_hash_bits b.
Proof.
  unfold ofloat_eqb, ofloat_hash_bits, f64_ieee_eqb.
  destruct (f64_is_nan a) eqn:Na.
  - intros ->. reflexivity.
  - destruct (f64_is_nan b) eqn:Nb; cbn [negb andb]; [discriminate|].
    destruct (f64_is_zero a) eqn:Za, (f64_is_zero b) eqn:Zb; cbn [andb orb]; intros H; try reflexivity;
      apply N.eqb_eq in H; subst; congruence.
Qed.
Lemma ofloat_eqb_refl a : ofloat_eqb a a = true.
Proof.
  unfold ofloat_eqb, f64_ieee_eqb. destruct (f64_is_nan a); [reflexivity|].
  cbn [negb andb]. rewrite N.eqb_refl. apply orb_true_r.
Qed.
Lemma ofloat_eqb_sym a b : ofloat_eqb a b = ofloat_eqb b a.
Proof.
  unfold ofloat_eqb, f64_ieee_eqb. rewrite (N.eqb_sym a b).
  destruct (f64_is_nan a), (f64_is_nan b), (f64_is_zero a), (f64_is_zero b); reflexivity.
Qed.
(* the hash bits identify the Eq class: the converse also holds, so OrderedFloat's hash is as fine as its Eq *)
Lemma ofloat_hash_canonical a : ofloat_hash_bits (ofloat_hash_bits a) = ofloat_hash_bits a.
Proof.
  unfold ofloat_hash_bits. destruct (f64_is_nan a) eqn:Na; [reflexivity|].
  destruct (f64_is_zero a) eqn:Za; [reflexivity|]. rewrite Na, Za. reflexivity.
Qed.

(* ------------------------------------------------------------------------------------------------ *)
(* induction principles for the nested types                                                         *)
(* ------------------------------------------------------------------------------------------------ *)
Section HInd.
  Variable P : hyaml -> Prop.
  Hypothesis Hrep : forall s st tg, P (HRep s st tg).
  Hypothesis Hval : forall v, P (HVal v).
  Hypothesis Hseq : forall l, Forall P l -> P (HSeq l).
  Hypothesis Hmap : forall l, Forall (fun kv => P (fst kv) /\ P (snd kv)) l -> P (HMap l).
  Hypothesis Halias : forall n, P (HAlias n).
  Hypothesis Hbad : P HBad.
  Fixpoint hyaml_ind' (y : hyaml) : P y :=
    match y with
    | HRep s st tg => Hrep s st tg
    | HVal v => Hval v
    | HSeq l => Hseq l ((fix go (l : list hyaml) : Forall P l :=
                           match l with
                           | [] => Forall_nil _
                           | x :: r => Forall_cons x (hyaml_ind' x) (go r)
                           end) l)
    | HMap l => Hmap l ((fix go (l : list (hyaml * hyaml)) : Forall (fun kv => P (fst kv) /\ P (snd kv)) l :=
                           match l with
                           | [] => Forall_nil _
                           | (k, v) :: r => Forall_cons (k, v) (conj (hyaml_ind' k) (hyaml_ind' v)) (go r)
                           end) l)
    | HAlias n => Halias n
    | HBad => Hbad
    end.
End HInd.

Section CInd.
  Variable P : cnode -> Prop.
  Hypothesis Hrep : forall sp o s st tg, P (CRep sp o s st tg).
  Hypothesis Hval : forall sp v, P (CVal sp v).
  Hypothesis Hseq : forall sp l, Forall P l -> P (CSeq sp l).
  Hypothesis Hmap : forall sp l, Forall (fun kv => P (fst kv) /\ P (snd kv)) l -> P (CMap sp l).
  Hypothesis Halias : forall sp n, P (CAlias sp n).
  Hypothesis Hbad : forall sp, P (CBad sp).
  Fixpoint cnode_ind' (y : cnode) : P y :=
    match y with
    | CRep sp o s st tg => Hrep sp o s st tg
    | CVal sp v => Hval sp v
    | CSeq sp l => Hseq sp l ((fix go (l : list cnode) : Forall P l :=
                           match l with
                           | [] => Forall_nil _
                           | x :: r => Forall_cons x (cnode_ind' x) (go r)
                           end) l)
    | CMap sp l => Hmap sp l ((fix go (l : list (cnode * cnode)) : Forall (fun kv => P (fst kv) /\ P (snd kv)) l :=
                           match l with
                           | [] => Forall_nil _
                           | (k, v) :: r => Forall_cons (k, v) (conj (cnode_ind' k) (cnode_ind' v)) (go r)
                           end) l)
    | CAlias sp n => Halias sp n
    | CBad sp => Hbad sp
    end.
End CInd.

Section YInd.
  Variable P : yaml -> Prop.
  Hypothesis Hval : forall v, P (YVal v).
  Hypothesis Hseq : forall l, Forall P l -> P (YSeq l).
  Hypothesis Hmap : forall l, Forall (fun kv => P (fst kv) /\ P (snd kv)) l -> P (YMap l).
  Hypothesis Hbad : P YBad.
  Fixpoint yaml_ind' (y : yaml) : P y :=
    match y with
    | YVal v => Hval v
    | YSeq l => Hseq l ((fix go (l : list yaml) : Forall P l :=
                           match l with
                           | [] => Forall_nil _
                           | x :: r => Forall_cons x (yaml_ind' x) (go r)
                           end) l)
    | YMap l => Hmap l ((fix go (l : list (yaml * yaml)) : Forall (fun kv => P (fst kv) /\ P (snd kv)) l :=
                           match l with
                           | [] => Forall_nil _
                           | (k, v) :: r => Forall_cons (k, v) (conj (yaml_ind' k) (yaml_ind' v)) (go r)
                           end) l)
    | YBad => Hbad
    end.
End YInd.

(* unfolding equations (the inner fixes of the model are the named list functions) *)
Lemma hash_seq l : hash_stream (HSeq l) = OIsize 2 :: OUsize (N.of_nat (length l)) :: hash_items l.
Proof. reflexivity. Qed.
Lemma hash_map l : hash_stream (HMap l) = OIsize 3 :: hash_pairs l.
Proof. reflexivity. Qed.
Lemma eqb_seq l l' : hyaml_eqb (HSeq l) (HSeq l') = eqb_items l l'.
Proof. reflexivity. Qed.
Lemma eqb_map l l' : hyaml_eqb (HMap l) (HMap l') = eqb_pairs l l'.
Proof. reflexivity. Qed.

(* ------------------------------------------------------------------------------------------------ *)
(* k1 == k2  ->  hash(k1) == hash(k2)                                                                *)
(* ------------------------------------------------------------------------------------------------ *)
Lemma hscalar_eq_hash x y : hscalar_eqb x y = true -> hash_scalar x = hash_scalar y.
Proof.
  destruct x, y; cbn [hscalar_eqb hash_scalar]; try discriminate; intros H.
  - reflexivity.
  - apply Bool.eqb_prop in H. subst. reflexivity.
  - apply Z.eqb_eq in H. subst. reflexivity.
  - apply ofloat_eq_hash in H. rewrite H. reflexivity.
  - apply seqb_eq in H. subst. reflexivity.
Qed.

Lemma eq_hash_items l :
  Forall (fun a => forall b, hyaml_eqb a b = true -> hash_stream a = hash_stream b) l ->
  forall l', eqb_items l l' = true -> length l = length l' /\ hash_items l = hash_items l'.
Proof.
  induction 1 as [|x r Hx _ IH]; intros [|y r']; cbn [eqb_items hash_items length]; try discriminate.
  - split; reflexivity.
  - intros H. apply andb_prop in H. destruct H as [H1 H2].
    destruct (IH _ H2) as [L E]. rewrite (Hx _ H1), E, L. split; reflexivity.
Qed.
Lemma eq_hash_pairs l :
  Forall (fun kv => (forall b, hyaml_eqb (fst kv) b = true -> hash_stream (fst kv) = hash_stream b) /\
                    (forall b, hyaml_eqb (snd kv) b = true -> hash_stream (snd kv) = hash_stream b)) l ->
  forall l', eqb_pairs l l' = true -> hash_pairs l = hash_pairs l'.
Proof.
  induction 1 as [|[k v] r [Hk Hv] _ IH]; intros [|[k' v'] r']; cbn [eqb_pairs hash_pairs]; try discriminate.
  - reflexivity.
  - intros H. apply andb_prop in H. destruct H as [H12 H3]. apply andb_prop in H12. destruct H12 as [H1 H2].
    cbn [fst snd] in Hk, Hv. rewrite (Hk _ H1), (Hv _ H2), (IH _ H3). reflexivity.
Qed.

Lemma eq_implies_hash : forall a b, hyaml_eqb a b = true -> hash_stream a = hash_stream b.
Proof.
  induction a as [s st tg|v|l IH|l IH|n|] using hyaml_ind'; intros b H; destruct b; try discriminate H.
  - cbn [hyaml_eqb] in H. apply andb_prop in H. destruct H as [H12 H3]. apply andb_prop in H12. destruct H12 as [H1 H2].
    apply seqb_eq in H1. apply N.eqb_eq in H2. apply tag_eqb_eq in H3. subst. reflexivity.
  - cbn [hyaml_eqb] in H. cbn [hash_stream]. rewrite (hscalar_eq_hash _ _ H). reflexivity.
  - rewrite eqb_seq in H. rewrite !hash_seq. destruct (eq_hash_items l IH _ H) as [L E]. rewrite L, E. reflexivity.
  - rewrite eqb_map in H. rewrite !hash_map. rewrite (eq_hash_pairs l IH _ H). reflexivity.
  - cbn [hyaml_eqb] in H. apply N.eqb_eq in H. subst. reflexivity.
  - reflexivity.
Qed.

(* Eq is reflexive and symmetric (it is an equivalence; needed to read `q == c` and `c == q` alike) *)
Lemma hscalar_eqb_refl x : hscalar_eqb x x = true.
Proof.
  destruct x; cbn [hscalar_eqb]; [reflexivity|apply Bool.eqb_reflx|apply Z.eqb_refl|apply ofloat_eqb_refl|apply seqb_refl].
Qed.
Lemma hscalar_eqb_sym x y : hscalar_eqb x y = hscalar_eqb y x.
Proof.
  destruct x, y; cbn [hscalar_eqb]; try reflexivity.
  - destruct b, b0; reflexivity.
  - apply Z.eqb_sym.
  - apply ofloat_eqb_sym.
  - apply seqb_sym.
Qed.
Lemma hyaml_eqb_refl : forall a, hyaml_eqb a a = true.
Proof.
  induction a as [s st tg|v|l IH|l IH|n|] using hyaml_ind'.
  - cbn [hyaml_eqb]. rewrite seqb_refl, N.eqb_refl, tag_eqb_refl. reflexivity.
  - apply hscalar_eqb_refl.
  - rewrite eqb_seq. induction IH as [|x r Hx _ IHr]; cbn [eqb_items]; [reflexivity|]. rewrite Hx, IHr. reflexivity.
  - rewrite eqb_map. induction IH as [|[k v] r [Hk Hv] _ IHr]; cbn [eqb_pairs]; [reflexivity|].
    cbn [fst snd] in Hk, Hv. rewrite Hk, Hv, IHr. reflexivity.
  - cbn [hyaml_eqb]. apply N.eqb_refl.
  - reflexivity.
Qed.
Lemma tag_eqb_sym a b : tag_eqb a b = tag_eqb b a.
Proof. destruct a as [[h s]|], b as [[h' s']|]; cbn [tag_eqb]; try reflexivity. rewrite (seqb_sym h), (seqb_sym s). reflexivity. Qed.
Lemma hyaml_eqb_sym : forall a b, hyaml_eqb a b = hyaml_eqb b a.
Proof.
  induction a as [s st tg|v|l IH|l IH|n|] using hyaml_ind'; intros b; destruct b; try reflexivity.
  - cbn [hyaml_eqb]. rewrite (seqb_sym s), (N.eqb_sym st), (tag_eqb_sym tg). reflexivity.
  - cbn [hyaml_eqb]. apply hscalar_eqb_sym.
  - rewrite !eqb_seq. revert l0. induction IH as [|x r Hx _ IHr]; intros [|y r']; cbn [eqb_items]; try reflexivity.
    rewrite Hx, IHr. reflexivity.
  - rewrite !eqb_map. revert l0. induction IH as [|[k v] r [Hk Hv] _ IHr]; intros [|[k' v'] r']; cbn [eqb_pairs]; try reflexivity.
    cbn [fst snd] in Hk, Hv. rewrite Hk, Hv, IHr. reflexivity.
  - cbn [hyaml_eqb]. apply N.eqb_sym.
Qed.

(* ------------------------------------------------------------------------------------------------ *)
(* comparing with a string / integer node                                                            *)
(* ------------------------------------------------------------------------------------------------ *)
Lemma is_str_key_iff k c : is_str_key k c = true <-> c = str_node k.
Proof.
  unfold is_str_key, str_node. destruct c as [| [| | | |s] | | | |]; try (split; [discriminate|intros H; discriminate H]).
  rewrite seqb_iff. split; [intros ->; reflexivity|intros H; injection H; auto].
Qed.
Lemma eqb_str_node_l k c : hyaml_eqb c (str_node k) = is_str_key k c.
Proof. destruct c as [| [| | | |s] | | | |]; reflexivity. Qed.
Lemma eqb_str_node_r k c : hyaml_eqb (str_node k) c = is_str_key k c.
Proof. rewrite hyaml_eqb_sym. apply eqb_str_node_l. Qed.
Lemma as_str_pred k c : (match as_str c with Some s => str_eqb s k | None => false end) = is_str_key k c.
Proof. destruct c as [| [| | | |s] | | | |]; reflexivity. Qed.
Lemma is_int_key_iff i c : is_int_key i c = true <-> c = int_node i.
Proof.
  unfold is_int_key, int_node. destruct c as [| [| |z| |] | | | |]; try (split; [discriminate|intros H; discriminate H]).
  rewrite Z.eqb_eq. split; [intros ->; reflexivity|intros H; injection H; auto].
Qed.
Lemma eqb_int_node_r i c : hyaml_eqb (int_node i) c = is_int_key i c.
Proof. destruct c as [| [| |z| |] | | | |]; try reflexivity. cbn. apply Z.eqb_sym. Qed.
(* a key that is not a string node is never accepted, whatever its text *)
Lemma non_string_rejected k c : as_str c = None -> is_str_key k c = false.
Proof. destruct c as [| [| | | |s] | | | |]; try reflexivity. discriminate. Qed.

(* ------------------------------------------------------------------------------------------------ *)
(* find_key                                                                                          *)
(* ------------------------------------------------------------------------------------------------ *)
Lemma find_key_ext p p' m : (forall c, p c = p' c) -> find_key p m = find_key p' m.
Proof. intros E. induction m as [|[k v] r IH]; cbn [find_key]; [reflexivity|]. rewrite E, IH. reflexivity. Qed.
Lemma find_key_some p m v :
  find_key p m = Some v <->
  exists m1 k m2, m = m1 ++ (k, v) :: m2 /\ p k = true /\ (forall k' v', In (k', v') m1 -> p k' = false).
Proof.
  split.
  - induction m as [|[k0 v0] r IH]; cbn [find_key]; [discriminate|].
    destruct (p k0) eqn:E.
    + intros H. injection H as ->. exists [], k0, r. split; [reflexivity|]. split; [exact E|]. intros ? ? [].
    + intros H. destruct (IH H) as (m1 & k & m2 & -> & Hk & Hm). exists ((k0, v0) :: m1), k, m2.
      split; [reflexivity|]. split; [exact Hk|]. intros k' v' [Hin|Hin]; [injection Hin as <- <-; exact E|eauto].
  - intros (m1 & k & m2 & -> & Hk & Hm). induction m1 as [|[k0 v0] r IH]; cbn [find_key app].
    + rewrite Hk. reflexivity.
    + rewrite (Hm k0 v0 (or_introl eq_refl)). apply IH. intros k' v' Hin. apply (Hm k' v'). right. exact Hin.
Qed.
Lemma find_key_none p m : find_key p m = None <-> (forall k v, In (k, v) m -> p k = false).
Proof.
  induction m as [|[k0 v0] r IH]; cbn [find_key].
  - split; [intros _ ? ? []|reflexivity].
  - destruct (p k0) eqn:E.
    + split; [discriminate|]. intros H. rewrite (H k0 v0 (or_introl eq_refl)) in E. discriminate.
    + rewrite IH. split.
      * intros H k v [Hin|Hin]; [injection Hin as <- <-; exact E|eauto].
      * intros H k v Hin. apply (H k v). right. exact Hin.
Qed.

(* ------------------------------------------------------------------------------------------------ *)
(* the lookups                                                                                       *)
(* ------------------------------------------------------------------------------------------------ *)
Section LookupProofs.
  Variable fin : list hash_op -> N.

  (* a hashed search whose predicate only accepts keys that hash like the needle is a plain search *)
  Lemma from_hash_find q p m :
    (forall c, p c = true -> hash_stream c = hash_stream q) ->
    option_map snd (from_hash fin (hash_of fin q) p m) = find_key p m.
  Proof.
    intros Hp. induction m as [|[k v] r IH]; cbn [from_hash find_key]; [reflexivity|].
    destruct (p k) eqn:E.
    - unfold hash_of at 1. rewrite (Hp _ E). fold (hash_of fin q). rewrite N.eqb_refl. reflexivity.
    - rewrite andb_false_r. exact IH.
  Qed.

  (* LinkedHashMap::get(&q) finds the first key equal to q, for every node q *)
  Lemma map_get_find q m : map_get fin q m = find_key (hyaml_eqb q) m.
  Proof.
    unfold map_get. apply from_hash_find. intros c H. symmetry. apply eq_implies_hash. exact H.
  Qed.

  Lemma get_impl_str_spec k m : get_impl_str fin k (HMap m) = spec_get k m.
  Proof.
    unfold get_impl_str, spec_get. rewrite from_hash_find.
    - apply find_key_ext. intros c. apply as_str_pred.
    - intros c H. rewrite as_str_pred in H. apply is_str_key_iff in H. subst. reflexivity.
  Qed.
  Lemma get_impl_node_spec k m : get_impl_node fin k (HMap m) = spec_get k m.
  Proof.
    unfold get_impl_node, spec_get. rewrite from_hash_find.
    - apply find_key_ext. intros c. apply eqb_str_node_l.
    - intros c H. apply eq_implies_hash. exact H.
  Qed.
  Lemma get_explicit_spec k m : get_explicit fin k (HMap m) = spec_get k m.
  Proof.
    unfold get_explicit, spec_get. rewrite map_get_find. apply find_key_ext. intros c. apply eqb_str_node_r.
  Qed.
  Lemma as_mapping_get_spec marked k m : as_mapping_get fin marked k (HMap m) = spec_get k m.
  Proof. unfold as_mapping_get. destruct marked; [apply get_impl_node_spec|apply get_impl_str_spec]. Qed.

  Definition idx_of (o : option hyaml) (why : N) : idx_res := match o with Some v => IOk v | None => IPanic why end.

  Lemma string_lookups_agree marked k m :
    as_mapping_get fin marked k (HMap m) = spec_get k m /\
    contains_mapping_key fin marked k (HMap m) = is_some (spec_get k m) /\
    index_str fin marked k (HMap m) = idx_of (spec_get k m) p_key_not_found /\
    index_mut_str fin marked k (HMap m) = idx_of (spec_get k m) p_key_not_found /\
    get_explicit fin k (HMap m) = spec_get k m.
  Proof.
    unfold contains_mapping_key, index_str, index_mut_str. rewrite as_mapping_get_spec, get_explicit_spec.
    cbn [is_map]. destruct (spec_get k m); cbn [idx_of]; repeat split; reflexivity.
  Qed.

  Lemma string_lookups_non_mapping marked k y :
    is_map y = false ->
    as_mapping_get fin marked k y = None /\
    contains_mapping_key fin marked k y = false /\
    index_str fin marked k y = IPanic p_not_a_mapping /\
    index_mut_str fin marked k y = IPanic p_not_a_mapping /\
    get_explicit fin k y = None.
  Proof.
    intros H. unfold contains_mapping_key, index_str, index_mut_str, as_mapping_get. rewrite H.
    destruct y; try discriminate H; destruct marked; repeat split; reflexivity.
  Qed.

  Lemma nth_N_nth_error {A} (l : list A) : forall i, nth_N l i = nth_error l (N.to_nat i).
  Proof.
    induction l as [|x r IH]; intros i; cbn [nth_N].
    - destruct (N.to_nat i); reflexivity.
    - destruct (N.eqb_spec i 0) as [->|Hne]; [reflexivity|].
      replace (N.to_nat i) with (S (N.to_nat (i - 1))) by lia. cbn [nth_error]. apply IH.
  Qed.

  Lemma integer_lookups_sequence i l :
    as_sequence_get i (HSeq l) = nth_error l (N.to_nat i) /\
    index_usize fin i (HSeq l) = idx_of (nth_error l (N.to_nat i)) p_out_of_bounds.
  Proof.
    unfold as_sequence_get, index_usize. rewrite nth_N_nth_error. destruct (nth_error l (N.to_nat i)); split; reflexivity.
  Qed.
  Lemma integer_lookups_mapping i m :
    map_get fin (int_node (Z.of_N i)) m = spec_get_int (Z.of_N i) m /\
    index_usize fin i (HMap m) =
      (if i <? 9223372036854775808 then idx_of (spec_get_int (Z.of_N i) m) p_key_not_found else IPanic p_overflowing) /\
    as_sequence_get i (HMap m) = None.
  Proof.
    assert (E : map_get fin (int_node (Z.of_N i)) m = spec_get_int (Z.of_N i) m).
    { rewrite map_get_find. apply find_key_ext. intros c. apply eqb_int_node_r. }
    unfold index_usize. rewrite E. destruct (i <? 9223372036854775808); [destruct (spec_get_int (Z.of_N i) m)|];
      repeat split; reflexivity.
  Qed.
  Lemma integer_lookups_other i y :
    match y with HSeq _ | HMap _ => False | _ => True end ->
    index_usize fin i y = IPanic p_not_map_nor_seq /\ as_sequence_get i y = None.
  Proof. destruct y; intros H; try contradiction; split; reflexivity. Qed.
End LookupProofs.

(* found exactly when some key is the string node; the value of the first such entry is returned *)
Lemma spec_get_some k m v :
  spec_get k m = Some v <->
  exists m1 m2, m = m1 ++ (str_node k, v) :: m2 /\ (forall k' v', In (k', v') m1 -> k' <> str_node k).
Proof.
  unfold spec_get. rewrite find_key_some. split.
  - intros (m1 & c & m2 & -> & Hc & Hm). apply is_str_key_iff in Hc. subst c. exists m1, m2. split; [reflexivity|].
    intros k' v' Hin E. apply Hm in Hin. apply is_str_key_iff in E. congruence.
  - intros (m1 & m2 & -> & Hm). exists m1, (str_node k), m2. split; [reflexivity|].
    split; [apply is_str_key_iff; reflexivity|]. intros k' v' Hin. destruct (is_str_key k k') eqn:E; [|reflexivity].
    apply is_str_key_iff in E. exfalso. eapply Hm; eauto.
Qed.
Lemma spec_get_none k m : spec_get k m = None <-> (forall v, ~ In (str_node k, v) m).
Proof.
  unfold spec_get. rewrite find_key_none. split.
  - intros H v Hin. apply H in Hin. assert (T : is_str_key k (str_node k) = true) by (apply is_str_key_iff; reflexivity). congruence.
  - intros H c v Hin. destruct (is_str_key k c) eqn:E; [|reflexivity]. apply is_str_key_iff in E. subst. exfalso. eapply H; eauto.
Qed.
Lemma spec_get_found_iff k m : is_some (spec_get k m) = true <-> exists v, In (str_node k, v) m.
Proof.
  destruct (spec_get k m) eqn:E; cbn [is_some].
  - split; [intros _|reflexivity]. apply spec_get_some in E. destruct E as (m1 & m2 & -> & _). exists h.
    apply in_or_app. right. left. reflexivity.
  - split; [discriminate|]. intros [v Hin]. exfalso. exact (proj1 (spec_get_none k m) E v Hin).
Qed.
Lemma spec_get_nonstring k m : (forall c v, In (c, v) m -> as_str c <> Some k) -> spec_get k m = None.
Proof. intros H. apply spec_get_none. intros v Hin. apply H in Hin. apply Hin. reflexivity. Qed.
Lemma spec_get_int_some i m v :
  spec_get_int i m = Some v <->
  exists m1 m2, m = m1 ++ (int_node i, v) :: m2 /\ (forall k' v', In (k', v') m1 -> k' <> int_node i).
Proof.
  unfold spec_get_int. rewrite find_key_some. split.
  - intros (m1 & c & m2 & -> & Hc & Hm). apply is_int_key_iff in Hc. subst c. exists m1, m2. split; [reflexivity|].
    intros k' v' Hin E. apply Hm in Hin. apply is_int_key_iff in E. congruence.
  - intros (m1 & m2 & -> & Hm). exists m1, (int_node i), m2. split; [reflexivity|].
    split; [apply is_int_key_iff; reflexivity|]. intros k' v' Hin. destruct (is_int_key i k') eqn:E; [|reflexivity].
    apply is_int_key_iff in E. exfalso. eapply Hm; eauto.
Qed.
Lemma spec_get_int_none i m : spec_get_int i m = None <-> (forall v, ~ In (int_node i, v) m).
Proof.
  unfold spec_get_int. rewrite find_key_none. split.
  - intros H v Hin. apply H in Hin. assert (T : is_int_key i (int_node i) = true) by (apply is_int_key_iff; reflexivity). congruence.
  - intros H c v Hin. destruct (is_int_key i c) eqn:E; [|reflexivity]. apply is_int_key_iff in E. subst. exfalso. eapply H; eauto.
Qed.

(* ------------------------------------------------------------------------------------------------ *)
(* concrete Rust values: Eq and Hash ignore spans and the borrowed/owned distinction                 *)
(* ------------------------------------------------------------------------------------------------ *)
Definition erase_items : list cnode -> list hyaml :=
  fix go (l : list cnode) : list hyaml := match l with [] => [] | x :: r => erase x :: go r end.
Definition erase_pairs : list (cnode * cnode) -> list (hyaml * hyaml) :=
  fix go (l : list (cnode * cnode)) : list (hyaml * hyaml) :=
    match l with [] => [] | (k, v) :: r => (erase k, erase v) :: go r end.
Definition chash_items : list cnode -> list hash_op :=
  fix go (l : list cnode) : list hash_op := match l with [] => [] | x :: r => chash x ++ go r end.
Definition chash_pairs : list (cnode * cnode) -> list hash_op :=
  fix go (l : list (cnode * cnode)) : list hash_op :=
    match l with [] => [] | (k, v) :: r => chash k ++ chash v ++ go r end.
Definition ceqb_items : list cnode -> list cnode -> bool :=
  fix go (l l' : list cnode) : bool :=
    match l, l' with [] , [] => true | x :: r, y :: r' => cnode_eqb x y && go r r' | _, _ => false end.
Definition ceqb_pairs : list (cnode * cnode) -> list (cnode * cnode) -> bool :=
  fix go (l l' : list (cnode * cnode)) : bool :=
    match l, l' with
    | [], [] => true
    | (k, v) :: r, (k', v') :: r' => cnode_eqb k k' && cnode_eqb v v' && go r r'
    | _, _ => false
    end.

Lemma erase_items_length l : length (erase_items l) = length l.
Proof. induction l as [|x r IH]; cbn [erase_items length]; congruence. Qed.

Lemma chash_erase : forall c, chash c = hash_stream (erase c).
Proof.
  induction c as [sp o s st tg|sp v|sp l IH|sp l IH|sp n|sp] using cnode_ind'; try reflexivity.
  - destruct v; reflexivity.
  - change (chash (CSeq sp l)) with (OIsize 2 :: OUsize (N.of_nat (length l)) :: chash_items l).
    change (erase (CSeq sp l)) with (HSeq (erase_items l)). rewrite hash_seq, erase_items_length.
    do 2 f_equal. induction IH as [|x r Hx _ IHr]; cbn [chash_items erase_items hash_items]; [reflexivity|].
    rewrite Hx, IHr. reflexivity.
  - change (chash (CMap sp l)) with (OIsize 3 :: chash_pairs l).
    change (erase (CMap sp l)) with (HMap (erase_pairs l)). rewrite hash_map. f_equal.
    induction IH as [|[k v] r [Hk Hv] _ IHr]; cbn [chash_pairs erase_pairs hash_pairs]; [reflexivity|].
    cbn [fst snd] in Hk, Hv. rewrite Hk, Hv, IHr. reflexivity.
Qed.

Lemma ceqb_erase : forall a b, cnode_eqb a b = hyaml_eqb (erase a) (erase b).
Proof.
  induction a as [sp o s st tg|sp v|sp l IH|sp l IH|sp n|sp] using cnode_ind'; intros b; destruct b; try reflexivity.
  - destruct v, v0; reflexivity.
  - change (cnode_eqb (CSeq sp l) (CSeq span l0)) with (ceqb_items l l0).
    change (erase (CSeq sp l)) with (HSeq (erase_items l)). change (erase (CSeq span l0)) with (HSeq (erase_items l0)).
    rewrite eqb_seq. revert l0. induction IH as [|x r Hx _ IHr]; intros [|y r']; cbn [ceqb_items erase_items eqb_items]; try reflexivity.
    rewrite Hx, IHr. reflexivity.
  - change (cnode_eqb (CMap sp l) (CMap span l0)) with (ceqb_pairs l l0).
    change (erase (CMap sp l)) with (HMap (erase_pairs l)). change (erase (CMap span l0)) with (HMap (erase_pairs l0)).
    rewrite eqb_map. revert l0.
    induction IH as [|[k v] r [Hk Hv] _ IHr]; intros [|[k' v'] r']; cbn [ceqb_pairs erase_pairs eqb_pairs]; try reflexivity.
    cbn [fst snd] in Hk, Hv. rewrite Hk, Hv, IHr. reflexivity.
Qed.

Lemma ceq_implies_chash a b : cnode_eqb a b = true -> chash a = chash b.
Proof. rewrite ceqb_erase, !chash_erase. apply eq_implies_hash. Qed.
(* copies of the same content (Yaml vs YamlOwned vs MarkedYaml vs MarkedYamlOwned, any spans, any mix of
   borrowed and owned strings) are equal and receive the same hasher calls *)
Lemma same_content_eq_hash a b : erase a = erase b -> cnode_eqb a b = true /\ chash a = chash b.
Proof. intros E. rewrite ceqb_erase, !chash_erase, E. split; [apply hyaml_eqb_refl|reflexivity]. Qed.

Lemma concrete_factor a b : cnode_eqb a b = hyaml_eqb (erase a) (erase b) /\ chash a = hash_stream (erase a).
Proof. split; [apply ceqb_erase|apply chash_erase]. Qed.

Lemma non_string_key_never_found fin marked k m :
  (forall c v, In (c, v) m -> as_str c <> Some k) ->
  as_mapping_get fin marked k (HMap m) = None /\ contains_mapping_key fin marked k (HMap m) = false /\
  index_str fin marked k (HMap m) = IPanic p_key_not_found /\ get_explicit fin k (HMap m) = None.
Proof.
  intros H. destruct (string_lookups_agree fin marked k m) as (A & B & C & _ & E).
  rewrite A, B, C, E, (spec_get_nonstring k m H). repeat split; reflexivity.
Qed.

(* ------------------------------------------------------------------------------------------------ *)
(* nodes of the loader model                                                                         *)
(* ------------------------------------------------------------------------------------------------ *)
Definition of_items fb : list yaml -> list hyaml :=
  fix go (l : list yaml) : list hyaml := match l with [] => [] | x :: r => of_yaml fb x :: go r end.
Definition of_pairs fb : list (yaml * yaml) -> list (hyaml * hyaml) :=
  fix go (l : list (yaml * yaml)) : list (hyaml * hyaml) :=
    match l with [] => [] | (k, v) :: r => (of_yaml fb k, of_yaml fb v) :: go r end.
Definition yeqb_items : list yaml -> list yaml -> bool :=
  fix go (l l' : list yaml) : bool :=
    match l, l' with [], [] => true | x :: r, y :: r' => yaml_eqb x y && go r r' | _, _ => false end.
Definition yeqb_pairs : list (yaml * yaml) -> list (yaml * yaml) -> bool :=
  fix go (l l' : list (yaml * yaml)) : bool :=
    match l, l' with
    | [], [] => true
    | (k, v) :: r, (k', v') :: r' => yaml_eqb k k' && yaml_eqb v v' && go r r'
    | _, _ => false
    end.

Section OfYaml.
  (* the bits of the double a decimal of the loader model denotes; only its compatibility with the model's float
     equality is needed *)
  Variable fbits : fval -> N.
  Hypothesis fbits_eq : forall x y, feqb x y = true -> ofloat_eqb (fbits x) (fbits y) = true.

  Lemma of_yaml_eqb : forall a b, yaml_eqb a b = true -> hyaml_eqb (of_yaml fbits a) (of_yaml fbits b) = true.
  Proof.
    induction a as [v|l IH|l IH|] using yaml_ind'; intros b H; destruct b; try discriminate H.
    - cbn [yaml_eqb] in H. cbn [of_yaml hyaml_eqb]. destruct v, v0; cbn [scalar_eqb] in H; try discriminate H;
        cbn [of_scalar hscalar_eqb]; auto.
    - change (yaml_eqb (YSeq l) (YSeq l0)) with (yeqb_items l l0) in H.
      change (of_yaml fbits (YSeq l)) with (HSeq (of_items fbits l)).
      change (of_yaml fbits (YSeq l0)) with (HSeq (of_items fbits l0)). rewrite eqb_seq. revert l0 H.
      induction IH as [|x r Hx _ IHr]; intros [|y r']; cbn [yeqb_items of_items eqb_items]; try discriminate; [reflexivity|].
      intros H. apply andb_prop in H. destruct H as [H1 H2]. rewrite (Hx _ H1), (IHr _ H2). reflexivity.
    - change (yaml_eqb (YMap l) (YMap l0)) with (yeqb_pairs l l0) in H.
      change (of_yaml fbits (YMap l)) with (HMap (of_pairs fbits l)).
      change (of_yaml fbits (YMap l0)) with (HMap (of_pairs fbits l0)). rewrite eqb_map. revert l0 H.
      induction IH as [|[k v] r [Hk Hv] _ IHr]; intros [|[k' v'] r']; cbn [yeqb_pairs of_pairs eqb_pairs]; try discriminate; [reflexivity|].
      intros H. apply andb_prop in H. destruct H as [H12 H3]. apply andb_prop in H12. destruct H12 as [H1 H2].
      cbn [fst snd] in Hk, Hv. rewrite (Hk _ H1), (Hv _ H2), (IHr _ H3). reflexivity.
    - reflexivity.
  Qed.
  (* keys the loader model considers equal hash equally *)
  Lemma of_yaml_eq_hash a b : yaml_eqb a b = true -> hash_stream (of_yaml fbits a) = hash_stream (of_yaml fbits b).
  Proof. intros H. apply eq_implies_hash, of_yaml_eqb, H. Qed.
End OfYaml.
