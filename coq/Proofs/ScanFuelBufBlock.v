(* PORT of ScanRelBlock.v to the fuel-transfer calculus of ScanFuelBuf.v (see there): [rwp] is [rwpN N0]; the base case of
   every lockstep loop is closed by the STRING side's [oof]; the loops that are not in lockstep get a fuel hypothesis.
   HERE: the decoupled pieces.  The buffered side is characterised in [wp1t] (OutOfFuel FORBIDDEN) with the hypotheses
     buf_go / buf_raw / buf_content_line   nbz (remaining text) < fuel      (characters in front of the first break / NUL)
     buf_sst_nocheck / buf_sst_check       jsp indent g < fuel              (spaces skip_spaces_to may consume)
     buf_wide                              P0 indent g, jsp indent g < F, jsp indent g < fuel
   - a round of the [wide] loop that continues has emptied the buffer, i.e. consumed >= cap >= 1 spaces ([buf_sst_check]
   now also says [bl2 t2 + i = bl2 s2]); a round with a non-empty buffer has completed the run, and under [P0] (the
   column is not beyond the target, or the next character is not a space: true right after a line break and at the end
   of the input - [skip_break_col0], premise of [rel_skip_bsi] / [rel_spp]) a complete run ends ON the target column or
   in front of a non-space ([jsp_complete]), where the loop stops.  All these quantities are bounded by the length of
   the string side's remaining text, which the calculus bounds by N0; [2 * N0 + 6 <= F] is the new premise of
   [rel_scan_block_scalar].  The ghost string-side state of the buffered-side rules carries the bound ([GS]). *)
(* Joint proof "the scanner over the buffered input computes what the scanner over the string input computes"
   (see SCANREL.md) - family: BLOCK SCALARS.

     scan_block_scalar_ok : rel_scan_block_scalar cap N0        (after the section: [forall cap, 8 <= cap -> ...])

   The block-scalar code is where the two back-ends take DIFFERENT paths:
   (1) [scan_block_scalar_content_line]: the buffered side reads buffered characters until the buffer is empty and
       then switches to the raw fast path; the string side stays in the first loop (or, with a look-ahead counter
       of 0, goes straight to the raw path);
   (2) [skip_block_scalar_indent]: [indent >= bufmaxlen - 2] is decided with bufmaxlen = 128 on the string side and
       [cap] on the buffered side: narrow path on one side, [wide] path on the other;
   (3) [skip_spaces_to .. check_buf]: the buffered side stops on an empty buffer and the [wide] loop refills it.
   These three pieces are proved by DECOUPLING ([rwp_decouple]): each side is characterised on its own, with its
   own fuel, against a pure function of the string side's state -
       nbz l      number of characters in front of the first break / NUL (content line),
       jsp i s    number of spaces [skip_spaces_to] may consume: leading spaces, at most [i - column]
   - the string side in the one-sided calculus [wp1] over [str_ops], the buffered side in [wp1] over [buf_ops cap]
   relative to a GHOST string-side state [g] with [SR g s2] (rules [wpr_*], derived from the relational rules of
   ScanRel.v / ScanRelPrim.v).  [Mv g j a g']: g' is g after consuming j characters and advancing the mark by a.
   Everything else ([skip_first_line_indent], the outer loop of [skip_block_scalar_indent], [scan_block_scalar]
   itself) is in lockstep and uses the relational rules directly. *)
From Coq Require Import List NArith ZArith Bool Arith Lia.
Import ListNotations.
Require Import Parser SBase SPrim SDir SScalar SFetch SBuf InputRefine ScanFuelBuf ScanFuelBufPrim.
Local Open Scope nat_scope.
Arguments Nat.ltb : simpl never.
Arguments Nat.leb : simpl never.
Arguments Nat.eqb : simpl never.
Arguments Nat.sub : simpl never.
Arguments Nat.max : simpl never.
Arguments N.ltb : simpl never.
Arguments N.eqb : simpl never.
Arguments N.leb : simpl never.
Arguments N.add : simpl never.
Arguments N.sub : simpl never.
Arguments N.max : simpl never.

(* ---------------- one-sided partial-correctness calculus (any back-end) ---------------- *)
Definition wp1 {J A} (m : @M J A) (P : A -> sc J -> Prop) (s : sc J) : Prop :=
  match m s with Ok (a, t) => P a t | Err _ _ => False | _ => True end.

Lemma wp1_ret {J A} (a : A) (P : A -> sc J -> Prop) s : P a s -> wp1 (ret a) P s.
Proof. auto. Qed.
Lemma wp1_bind {J A B} (m : @M J A) (f : A -> @M J B) (P : B -> sc J -> Prop) s :
  wp1 m (fun a t => wp1 (f a) P t) s -> wp1 (bind m f) P s.
Proof. unfold wp1, bind. destruct (m s) as [[a t]| | |]; auto. Qed.
Lemma wp1_mono {J A} (m : @M J A) (P P' : A -> sc J -> Prop) s :
  wp1 m P s -> (forall a t, P a t -> P' a t) -> wp1 m P' s.
Proof. unfold wp1. destruct (m s) as [[a t]| | |]; auto. Qed.
Lemma wp1_oof {J A} (P : A -> sc J -> Prop) s : wp1 (@oof J A) P s.
Proof. exact I. Qed.
Lemma wp1_panic {J A} site (P : A -> sc J -> Prop) s : wp1 (@panic J A site) P s.
Proof. exact I. Qed.

(* the same calculus with OutOfFuel FORBIDDEN: for the buffered side, whose fuel must be shown to suffice *)
Definition wp1t {J A} (m : @M J A) (P : A -> sc J -> Prop) (s : sc J) : Prop :=
  match m s with Ok (a, t) => P a t | Err _ _ => False | Panic _ => True | OutOfFuel => False end.
Lemma wp1t_ret {J A} (a : A) (P : A -> sc J -> Prop) s : P a s -> wp1t (ret a) P s.
Proof. auto. Qed.
Lemma wp1t_bind {J A B} (m : @M J A) (f : A -> @M J B) (P : B -> sc J -> Prop) s :
  wp1t m (fun a t => wp1t (f a) P t) s -> wp1t (bind m f) P s.
Proof. unfold wp1t, bind. destruct (m s) as [[a t]| | |]; auto. Qed.
Lemma wp1t_mono {J A} (m : @M J A) (P P' : A -> sc J -> Prop) s :
  wp1t m P s -> (forall a t, P a t -> P' a t) -> wp1t m P' s.
Proof. unfold wp1t. destruct (m s) as [[a t]| | |]; auto. Qed.
Lemma wp1t_panic {J A} site (P : A -> sc J -> Prop) s : wp1t (@panic J A site) P s.
Proof. exact I. Qed.

Section Decouple.
Variable N0 : nat.
Local Notation rwp := (rwpN N0).
(* the two sides characterised separately: the string side in [wp1] (its own fuel is not our concern), the buffered
   side in [wp1t] (its fuel must suffice) *)
Lemma rwp_decouple {A1 A2} (m1 : M1 A1) (m2 : M2 A2) (P1 : A1 -> st1 -> Prop)
  (Q : A1 -> st1 -> A2 -> st2 -> Prop) s1 s2 :
  wp1 m1 P1 s1 -> (forall a1 t1, P1 a1 t1 -> length (rem1 t1) <= length (rem1 s1)) ->
  (forall a1 t1, P1 a1 t1 -> wp1t m2 (fun a2 t2 => Q a1 t1 a2 t2) s2) -> rwp m1 m2 Q s1 s2.
Proof.
  unfold wp1, wp1t, rwpN. intros H1 HL H2 B. destruct (m1 s1) as [[a1 t1]|e1 k1|n1|].
  - specialize (H2 _ _ H1). specialize (HL _ _ H1). destruct (m2 s2) as [[a2 t2]| | |]; auto.
    split; [exact (Nat.le_trans _ _ _ HL B)|exact H2].
  - contradiction.
  - exact I.
  - exact I.
Qed.
(* a relational rule read as a rule about the buffered side alone *)
Lemma wp1_of_rwp {A1 A2} (m1 : M1 A1) (m2 : M2 A2) (Q : A1 -> st1 -> A2 -> st2 -> Prop) s1 s2 a1 t1 :
  m1 s1 = Ok (a1, t1) -> length (rem1 s1) <= N0 -> rwp m1 m2 Q s1 s2 -> wp1t m2 (fun a2 t2 => Q a1 t1 a2 t2) s2.
Proof.
  unfold rwpN, wp1t. intros E B H. specialize (H B). rewrite E in H.
  destruct (m2 s2) as [[a2 t2]| | |]; auto. destruct H as [_ H]. exact H.
Qed.
(* a fact about the string side's result, proved on the string side alone *)
Lemma rwp_post_l {A1 A2} (m1 : M1 A1) (m2 : M2 A2) (P : A1 -> st1 -> Prop) (Q : A1 -> st1 -> A2 -> st2 -> Prop) s1 s2 :
  (forall a1 t1, m1 s1 = Ok (a1, t1) -> P a1 t1) ->
  rwp m1 m2 (fun a1 t1 a2 t2 => P a1 t1 -> Q a1 t1 a2 t2) s1 s2 -> rwp m1 m2 Q s1 s2.
Proof.
  unfold rwpN. intros HP H B. specialize (H B). destruct (m1 s1) as [[a1 t1]|e1 k1|n1|]; auto.
  destruct (m2 s2) as [[a2 t2]| | |]; auto. destruct H as [Bt H]. split; [exact Bt|]. apply H. apply HP. reflexivity.
Qed.
End Decouple.

(* ---------------- pure functions of the remaining text ---------------- *)
(* characters in front of the first break or NUL (the end of the text counts as NUL) *)
Fixpoint nbz (l : list chr) : nat :=
  match l with [] => 0 | c :: r => if is_breakz c then 0 else S (nbz r) end.
(* leading spaces, at most n *)
Fixpoint nsp (n : nat) (l : list chr) : nat :=
  match n, l with
  | S n, c :: r => if (c =? 32)%N then S (nsp n r) else 0
  | _, _ => 0
  end.

Lemma breakz_0 : is_breakz 0%N = true.
Proof. vm_compute. reflexivity. Qed.
Lemma nbz_stop l : is_breakz (nth 0 l 0%N) = true -> nbz l = 0.
Proof. destruct l as [|c r]; cbn [nbz nth]; [reflexivity|]. intros ->. reflexivity. Qed.
Lemma nbz_step (l : list chr) : is_breakz (nth 0 l 0%N) = false ->
  l = @cons chr (@nth chr 0 l 0%N) (@tl chr l) /\ nbz l = S (nbz (@tl chr l)).
Proof.
  destruct l as [|c r]; cbn [nbz nth tl]; [rewrite breakz_0; discriminate|]. intros ->. split; reflexivity.
Qed.
Lemma nbz_skipn : forall j l, j <= nbz l -> nbz (skipn j l) = nbz l - j.
Proof.
  induction j as [|j IH]; intros l H; [cbn [skipn]; lia|].
  destruct l as [|c r]; cbn [nbz] in *; [lia|]. destruct (is_breakz c); [lia|].
  cbn [skipn]. rewrite IH by lia. lia.
Qed.
Lemma firstn_add {A} : forall j k (l : list A), firstn (j + k) l = firstn j l ++ firstn k (skipn j l).
Proof.
  induction j as [|j IH]; intros k l; [reflexivity|].
  destruct l as [|c r]; [destruct k; reflexivity|]. cbn [Nat.add firstn skipn app]. rewrite IH. reflexivity.
Qed.

Lemma firstn_step (l : list chr) j (acc : list chr) : is_breakz (nth 0 l 0%N) = false ->
  rev (firstn (S j) l) ++ acc = rev (firstn j (@tl chr l)) ++ @cons chr (@nth chr 0 l 0%N) acc.
Proof.
  destruct l as [|c r]; cbn [nth tl firstn rev]; [rewrite breakz_0; discriminate|]. intros _.
  rewrite <- app_assoc. reflexivity.
Qed.

Lemma nsp_0 l : nsp 0 l = 0.
Proof. destruct l; reflexivity. Qed.
Lemma nsp_le : forall n l, nsp n l <= n.
Proof.
  induction n as [|n IH]; intros l; [rewrite nsp_0; lia|]. destruct l as [|c r]; cbn [nsp]; [lia|].
  destruct (c =? 32)%N; [specialize (IH r)|]; lia.
Qed.
Lemma nsp_stop n l : nth 0 l 0%N <> 32%N -> nsp n l = 0.
Proof.
  destruct n as [|n]; [intros _; apply nsp_0|]. destruct l as [|c r]; cbn [nsp nth]; [reflexivity|].
  intros H. destruct (N.eqb_spec c 32); [contradiction|reflexivity].
Qed.
Lemma nsp_step n (l : list chr) : @nth chr 0 l 0%N = 32%N -> nsp (S n) l = S (nsp n (@tl chr l)).
Proof.
  destruct l as [|c r]; cbn [nsp nth tl]; [discriminate|]. intros ->. rewrite N.eqb_refl. reflexivity.
Qed.
Lemma nsp_split : forall i n l, i <= nsp n l -> nsp (n - i) (skipn i l) = nsp n l - i.
Proof.
  induction i as [|i IH]; intros n l H; [cbn [skipn]; rewrite !Nat.sub_0_r; reflexivity|].
  destruct n as [|n]; [rewrite nsp_0 in H; lia|]. destruct l as [|c r]; cbn [nsp] in *; [lia|].
  destruct (c =? 32)%N; [|lia]. cbn [skipn]. replace (S n - S i) with (n - i) by lia.
  rewrite IH by lia. lia.
Qed.

(* ---------------- string-side states: consumed characters and mark movement ---------------- *)
Notation mcol s := (m_col (sc_mark s)).
Definition lk1 (s : st1) : nat := si_look (sc_in s).

Lemma adv_0 m : adv 0 m = m.
Proof. destruct m as [i l c]; unfold adv; cbn [m_index m_line m_col]. rewrite !N.add_0_r. reflexivity. Qed.
Lemma adv_adv a b m : adv a (adv b m) = adv (b + a) m.
Proof. unfold adv; cbn [m_index m_line m_col]. rewrite !N.add_assoc. reflexivity. Qed.

(* [Mv g j a g']: g' is g with j characters consumed and the mark advanced by a (same line); the look-ahead
   counter is not part of it (the state relation [SR] does not see it either) *)
Definition Mv (g : st1) (j : nat) (a : N) (g' : st1) : Prop :=
  rem1 g' = skipn j (rem1 g) /\ erase g' = set_mark (adv a (sc_mark g)) (erase g).
Notation Adv g j g' := (Mv g j (N.of_nat j) g').

Lemma erase_mark {J} (g : sc J) e : erase g = e -> sc_mark g = sc_mark e.
Proof. intros <-. reflexivity. Qed.
Lemma erase_adv0 {J} (g : sc J) : erase g = set_mark (adv 0 (sc_mark g)) (erase g).
Proof. rewrite adv_0. destruct g; reflexivity. Qed.
Lemma Mv_refl g : Mv g 0 0 g.
Proof. split; [reflexivity|apply erase_adv0]. Qed.
Lemma Mv_ext g g' : rem1 g' = rem1 g -> erase g' = erase g -> Mv g 0 0 g'.
Proof. intros R E. split; [exact R|]. rewrite E. apply erase_adv0. Qed.
Lemma Mv_mark g j a g' : Mv g j a g' -> sc_mark g' = adv a (sc_mark g).
Proof. intros [_ E]. apply erase_mark in E. exact E. Qed.
Lemma Mv_mcol g j a g' : Mv g j a g' -> mcol g' = (mcol g + a)%N.
Proof. intros H. rewrite (Mv_mark _ _ _ _ H). reflexivity. Qed.
Lemma Mv_trans a i x b j y c : Mv a i x b -> Mv b j y c -> Mv a (i + j) (x + y) c.
Proof.
  intros [R1 E1] [R2 E2]. split; [rewrite R2, R1; apply skipn_add|].
  rewrite E2. rewrite (erase_mark _ _ E1). rewrite E1. cbn [sc_mark set_mark upd]. rewrite adv_adv. reflexivity.
Qed.
Lemma Mv_eq g j a g' j' a' : Mv g j a g' -> j = j' -> a = a' -> Mv g j' a' g'.
Proof. intros H <- <-. exact H. Qed.
Lemma Adv_trans a i b j c : Adv a i b -> Adv b j c -> Adv a (i + j) c.
Proof. intros H1 H2. eapply Mv_eq; [exact (Mv_trans _ _ _ _ _ _ _ H1 H2)|reflexivity|lia]. Qed.
Lemma Mv_rn1 g j a g' i : Mv g j a g' -> rn1 g' i = rn1 g (j + i).
Proof. intros [R _]. apply rn1_skipn. exact R. Qed.

Lemma Nh_raw n k : (0 + (n + 1 + N.of_nat k))%N = (n + N.of_nat (S k))%N.
Proof. lia. Qed.

(* the state relation only sees the remaining text and the skeleton *)
Lemma SR_ext t1 g t2 : rem1 t1 = rem1 g -> erase t1 = erase g -> SR g t2 -> SR t1 t2.
Proof.
  intros R E [[k Hk] E2]. split; [|rewrite E; exact E2]. exists k. unfold rem1 in R. rewrite R. exact Hk.
Qed.
Lemma Mv_SR s1 j a t1 g t2 : Mv s1 j a t1 -> Mv s1 j a g -> SR g t2 -> SR t1 t2.
Proof. intros [R1 E1] [R2 E2] HS. apply (SR_ext t1 g t2); [congruence|congruence|exact HS]. Qed.

(* the number of spaces [skip_spaces_to indent] may consume *)
Definition jsp (indent : N) (g : st1) : nat := nsp (N.to_nat (indent - mcol g)) (rem1 g).
Lemma jsp_Adv indent g i g' : Adv g i g' -> i <= jsp indent g -> jsp indent g' = jsp indent g - i.
Proof.
  intros H Hi. unfold jsp in *. rewrite (Mv_mcol _ _ _ _ H). destruct H as [R _]. rewrite R.
  replace (N.to_nat (indent - (mcol g + N.of_nat i))) with (N.to_nat (indent - mcol g) - i) by lia.
  apply nsp_split. exact Hi.
Qed.
Lemma jsp_Mv0 indent g g' : Mv g 0 0 g' -> jsp indent g' = jsp indent g.
Proof. intros H. rewrite (jsp_Adv indent g 0 g' H) by lia. lia. Qed.


(* ---------------- bounds used by the fuel hypotheses of the buffered side ---------------- *)
Lemma nbz_le l : nbz l <= length l.
Proof. induction l as [|c r IH]; cbn [nbz length]; [lia|]. destruct (is_breakz c); lia. Qed.
Lemma nsp_le_len : forall n l, nsp n l <= length l.
Proof.
  induction n as [|n IH]; intros l; [rewrite nsp_0; lia|]. destruct l as [|c r]; cbn [nsp length]; [lia|].
  destruct (c =? 32)%N; [specialize (IH r)|]; lia.
Qed.
Lemma jsp_le_len indent g : jsp indent g <= length (rem1 g).
Proof. apply nsp_le_len. Qed.
Lemma Mv_len g j a g' : Mv g j a g' -> length (rem1 g') <= length (rem1 g).
Proof. intros [R _]. rewrite R, skipn_length. lia. Qed.
(* where a complete run of [skip_spaces_to] ends: the column budget is used up, or in front of a non-space *)
Lemma nsp_end : forall n l, nsp n l = n \/ nth (nsp n l) l 0%N <> 32%N.
Proof.
  induction n as [|n IH]; intros l; [left; apply nsp_0|].
  destruct l as [|c r]; cbn [nsp]; [right; cbn; discriminate|].
  destruct (N.eqb_spec c 32) as [E|NE].
  - destruct (IH r) as [H|H]; [left; lia|right; exact H].
  - right. cbn [nth]. exact NE.
Qed.
(* [P0]: the column is not beyond the target, or the next character is not a space (holds whenever
   skip_block_scalar_indent is entered: right after a line break, or at the end of the input);
   then a complete run ends with the column ON the target or in front of a non-space: the [wide] loop stops *)
Definition P0 (indent : N) (g : st1) : Prop := (mcol g <= indent)%N \/ rn1 g 0 <> 32%N.
Lemma jsp_complete indent g g1 : P0 indent g -> Adv g (jsp indent g) g1 -> mcol g1 = indent \/ rn1 g1 0 <> 32%N.
Proof.
  intros HP A. pose proof (Mv_mcol _ _ _ _ A) as C. rewrite (Mv_rn1 _ _ _ _ 0 A), Nat.add_0_r.
  unfold jsp in *. destruct (nsp_end (N.to_nat (indent - mcol g)) (rem1 g)) as [E|E].
  - destruct HP as [H|H].
    + left. rewrite C, E. lia.
    + right. rewrite (nsp_stop _ _ H). exact H.
  - right. exact E.
Qed.
Lemma P0_Mv0 indent g g' : Mv g 0 0 g' -> P0 indent g -> P0 indent g'.
Proof.
  intros M [H|H]; [left; rewrite (Mv_mcol _ _ _ _ M); lia|right; rewrite (Mv_rn1 _ _ _ _ 0 M); exact H].
Qed.
(* [skip_break] leaves the string side at column 0 *)
Lemma skip_break_col0 (s1 t1 : st1) : skip_break str_ops s1 = Ok (tt, t1) -> mcol t1 = 0%N.
Proof.
  unfold skip_break, bind, SPrim.peek, peekn, skip_blank, skip_nl, in_skip, adv_mark, modify, ret, panic.
  cbn [peek_nth str_ops]. destruct (is_break _); [|discriminate].
  destruct (_ && _)%bool; intros H; inversion H; reflexivity.
Qed.

(* ---------------- the local loops of SScalar.v, named (generic in the back-end) ---------------- *)
Section Named.
Context {J : Type} (ops : InputOps J).
Variable F : nat.
Local Open Scope mon_scope.
Fixpoint bs_go (f : nat) (acc : list chr) : @M J (list chr) :=
  match f with
  | O => oof
  | S f => e <- buf_is_empty ops ;;
           if e then ret acc else
           c <- SPrim.peek ops ;; if is_breakz c then ret acc else skip_blank ops ;;; bs_go f (c :: acc)
  end.
Fixpoint bs_raw (f : nat) (acc : list chr) (n : N) : @M J (list chr) :=
  match f with
  | O => oof
  | S f => c <- raw_read ops ;;
           match c with
           | Some c => bs_raw f (c :: acc) (n + 1)%N
           | None => adv_mark n ;;; ret acc
           end
  end.
Lemma content_line_eq acc :
  scan_block_scalar_content_line ops F acc =
  (acc <- bs_go F acc ;; e <- buf_is_empty ops ;; if e then bs_raw F acc 0%N else ret acc).
Proof. reflexivity. Qed.

Section Wide.
Variable indent : N.
Fixpoint bs_wide (f : nat) : @M J unit :=
  match f with
  | O => oof
  | S f =>
    look ops (bufmaxlen ops) ;;; skip_spaces_to ops F indent true ;;;
    k <- col ;; e <- buf_is_empty ops ;;
    c <- (if e then ret 32%N else SPrim.peek ops) ;;
    if (k =? indent)%N || (negb e && negb (c =? 32)%N) then ret tt else bs_wide f
  end.
End Wide.
(* the "consume the indentation" phase of one round of skip_block_scalar_indent *)
Definition bs_spp (indent : N) : @M J unit :=
  if (indent <? N.of_nat (bufmaxlen ops - 2))%N then look ops (bufmaxlen ops) ;;; skip_spaces_to ops F indent false
  else bs_wide indent F ;;; look ops 2.
Lemma sbsi_eq fuel indent breaks :
  skip_block_scalar_indent ops F (S fuel) indent breaks =
  ((if Nat.ltb (bufmaxlen ops) 2 then panic 121 else ret tt) ;;;
   bs_spp indent ;;;
   b <- next_is ops is_break ;;
   if b then skip_break ops ;;; skip_block_scalar_indent ops F fuel indent (breaks + 1)%N else ret breaks).
Proof. reflexivity. Qed.

Fixpoint bs_sfl (f : nat) : @M J unit :=
  match f with
  | O => oof
  | S f => c <- look_ch ops ;; if (c =? 32)%N then skip_blank ops ;;; bs_sfl f else ret tt
  end.
Lemma sfli_eq fuel maxi breaks :
  skip_first_line_indent ops F (S fuel) maxi breaks =
  (bs_sfl F ;;; k <- col ;;
   b <- next_is ops is_break ;;
   if b then look ops 2 ;;; skip_break ops ;;; skip_first_line_indent ops F fuel (N.max maxi k) (breaks + 1)%N
   else ret (N.max maxi k, breaks)).
Proof. reflexivity. Qed.
End Named.

Section RelBlock.
Variable cap : nat.
Hypothesis cap_ge : 8 <= cap.
Variable N0 : nat.
Local Notation rwp := (rwpN N0).
Notation sops := str_ops.
Notation bops := (buf_ops cap).

(* ---------------- the string side alone ---------------- *)
Lemma wpl_look n (P : unit -> st1 -> Prop) s1 :
  (forall t1, Mv s1 0 0 t1 -> lk1 t1 = Nat.max (lk1 s1) n -> P tt t1) -> wp1 (look sops n) P s1.
Proof. intros H. unfold wp1. rewrite look_str_ok. apply H; [apply Mv_ext; reflexivity|reflexivity]. Qed.
Lemma wpl_peek (P : chr -> st1 -> Prop) s1 : P (rn1 s1 0) s1 -> wp1 (SPrim.peek sops) P s1.
Proof. intros H. exact H. Qed.
Lemma wpl_buf_is_empty (P : bool -> st1 -> Prop) s1 : P (Nat.eqb (lk1 s1) 0) s1 -> wp1 (buf_is_empty sops) P s1.
Proof. intros H. exact H. Qed.
Lemma wpl_col (P : N -> st1 -> Prop) s1 : P (mcol s1) s1 -> wp1 (@col strin) P s1.
Proof. intros H. exact H. Qed.
Lemma skipn1_tl {A} (l : list A) : tl l = skipn 1 l.
Proof. destruct l; reflexivity. Qed.
Lemma wpl_skip_blank (P : unit -> st1 -> Prop) s1 :
  (forall t1, Adv s1 1 t1 -> lk1 t1 = lk1 s1 -> P tt t1) -> wp1 (skip_blank sops) P s1.
Proof.
  intros H. unfold wp1. cbn [skip_blank in_skip adv_mark modify bind]. apply H; [|reflexivity].
  split; [unfold rem1; cbn; apply skipn1_tl|reflexivity].
Qed.
Lemma wpl_adv_mark n (P : unit -> st1 -> Prop) s1 :
  (forall t1, Mv s1 0 n t1 -> lk1 t1 = lk1 s1 -> P tt t1) -> wp1 (@adv_mark strin n) P s1.
Proof. intros H. unfold wp1, adv_mark, modify. apply H; [|reflexivity]. split; reflexivity. Qed.
Lemma wpl_raw_read (P : option chr -> st1 -> Prop) s1 :
  (forall t1, Mv s1 0 0 t1 -> lk1 t1 = lk1 s1 -> is_breakz (rn1 s1 0) = true -> P None t1) ->
  (forall x t1, is_breakz x = false -> rn1 s1 0 = x -> Mv s1 1 0 t1 -> lk1 t1 = lk1 s1 -> P (Some x) t1) ->
  wp1 (raw_read sops) P s1.
Proof.
  intros HN HS. unfold wp1, raw_read. cbn [raw_read_non_breakz str_ops]. unfold rn1, rem1 in *.
  destruct (si_chars (sc_in s1)) as [|c r] eqn:EC.
  - apply HN; [apply Mv_ext; reflexivity|reflexivity|apply breakz_0].
  - destruct (is_breakz c) eqn:Eb.
    + apply HN; [apply Mv_ext; reflexivity|reflexivity|exact Eb].
    + apply HS; [exact Eb|reflexivity| |reflexivity].
      split; [unfold rem1; cbn [sc_in set_in upd si_chars]; rewrite EC; reflexivity|].
      rewrite erase_set_in. apply erase_adv0.
Qed.

(* ---------------- the buffered side alone, relative to a ghost string-side state [g] ----------------
   [GS g s2]: the ghost is related to the buffered state and within the calculus' bound *)
Definition GS (g : st1) (s2 : st2) : Prop := SR g s2 /\ length (rem1 g) <= N0.
Lemma GS_Mv g j a g' t2 : length (rem1 g) <= N0 -> Mv g j a g' -> SR g' t2 -> GS g' t2.
Proof. intros B M HS. split; [exact HS|]. pose proof (Mv_len _ _ _ _ M). lia. Qed.
Lemma GS_SR g s2 : GS g s2 -> SR g s2.
Proof. intros [H _]. exact H. Qed.

Lemma wpr_look n g (P : unit -> st2 -> Prop) s2 : GS g s2 -> n <= cap ->
  (forall t2, GS g t2 -> n <= bl2 t2 -> bl2 s2 <= bl2 t2 -> P tt t2) -> wp1t (look bops n) P s2.
Proof.
  intros [HS B] Hn HP. destruct (look_buf_ok cap cap_ge n g s2 HS Hn) as (t2 & E & H1 & H2 & H3).
  unfold wp1t. rewrite E. apply HP; [split|idtac|idtac]; assumption.
Qed.
Lemma wpr_peek g (P : chr -> st2 -> Prop) s2 : GS g s2 -> 1 <= bl2 s2 -> P (rn1 g 0) s2 -> wp1t (SPrim.peek bops) P s2.
Proof.
  intros [HS B] HB HP.
  exact (wp1_of_rwp N0 (SPrim.peek sops) (SPrim.peek bops) (fun _ _ c t2 => P c t2) g s2 (rn1 g 0) g eq_refl B
           (rwp_peek cap cap_ge N0 _ g s2 HS HB HP)).
Qed.
Lemma wpr_buf_is_empty (P : bool -> st2 -> Prop) s2 : P (Nat.eqb (bl2 s2) 0) s2 -> wp1t (buf_is_empty bops) P s2.
Proof. intros H. exact H. Qed.
Lemma wpr_col g (P : N -> st2 -> Prop) s2 : GS g s2 -> P (mcol g) s2 -> wp1t (@col bufin) P s2.
Proof. intros [HS _] H. unfold wp1t, col, gets. rewrite <- (SR_mark _ _ HS). exact H. Qed.
Lemma wpr_skip_blank g (P : unit -> st2 -> Prop) s2 : GS g s2 -> 1 <= bl2 s2 ->
  (forall g' t2, GS g' t2 -> Adv g 1 g' -> bl2 t2 = bl2 s2 - 1 -> P tt t2) -> wp1t (skip_blank bops) P s2.
Proof.
  intros [HS B] HB HP.
  pose (g' := set_mark (adv 1 (sc_mark g)) (set_in (skip1 sops (sc_in g)) g)).
  assert (E : skip_blank sops g = Ok (tt, g')) by reflexivity.
  assert (A : Adv g 1 g') by (split; [unfold rem1; cbn; apply skipn1_tl|reflexivity]).
  eapply wp1t_mono.
  - apply (wp1_of_rwp N0 _ _ (fun _ t1 _ t2 => SR t1 t2 /\ bl2 t2 = bl2 s2 - 1) g s2 tt g' E B).
    apply (rwp_skip_blank cap cap_ge); [exact HS|exact HB|]. intros t1 t2 HT _ BT. split; assumption.
  - cbv beta. intros [] t2 [HT BT]. apply (HP g' t2); [|exact A|exact BT].
    exact (GS_Mv g 1 (N.of_nat 1) g' t2 B A HT).
Qed.
Lemma wpr_adv_mark n g (P : unit -> st2 -> Prop) s2 : GS g s2 ->
  (forall g' t2, GS g' t2 -> Mv g 0 n g' -> bl2 t2 = bl2 s2 -> P tt t2) -> wp1t (@adv_mark bufin n) P s2.
Proof.
  intros [HS B] HP.
  pose (g' := set_mark (adv n (sc_mark g)) g).
  assert (E : @adv_mark strin n g = Ok (tt, g')) by reflexivity.
  assert (A : Mv g 0 n g') by (split; reflexivity).
  eapply wp1t_mono.
  - apply (wp1_of_rwp N0 _ _ (fun _ t1 _ t2 => SR t1 t2 /\ bl2 t2 = bl2 s2) g s2 tt g' E B).
    apply rwp_adv_mark; [exact HS|]. intros t1 t2 HT _ BT. split; assumption.
  - cbv beta. intros [] t2 [HT BT]. apply (HP g' t2); [|exact A|exact BT].
    exact (GS_Mv g 0 n g' t2 B A HT).
Qed.
Lemma wpr_raw_read g (P : option chr -> st2 -> Prop) s2 : GS g s2 -> bl2 s2 = 0 ->
  (forall t2, GS g t2 -> is_breakz (rn1 g 0) = true -> P None t2) ->
  (forall x g' t2, is_breakz x = false -> rn1 g 0 = x -> Mv g 1 0 g' -> GS g' t2 -> bl2 t2 = 0 -> P (Some x) t2) ->
  wp1t (raw_read bops) P s2.
Proof.
  intros [HS B] HB HN HSm.
  assert (EX : exists c t1, raw_read sops g = Ok (c, t1)).
  { unfold raw_read. cbn [raw_read_non_breakz str_ops]. destruct (si_chars (sc_in g)) as [|c r]; [eauto|].
    destruct (is_breakz c); eauto. }
  destruct EX as (c0 & t0 & E).
  apply (wp1_of_rwp N0 _ _ (fun _ _ c t2 => P c t2) g s2 c0 t0 E B).
  apply (rwp_raw_read cap cap_ge); [exact HS|exact HB|]. intros c t1 t2 HT ET HC. destruct c as [x|].
  - destruct HC as (R & Eb & B0).
    assert (M1 : Mv g 1 0 t1) by (split; [rewrite R; reflexivity|rewrite ET; apply erase_adv0]).
    apply (HSm x t1 t2 Eb); [unfold rn1; rewrite R; reflexivity|exact M1| |exact B0].
    exact (GS_Mv g 1 0%N t1 t2 B M1 HT).
  - destruct HC as (R & _ & _ & Hb). apply HN.
    + split; [|exact B]. apply (SR_ext g t1 t2); [symmetry; exact R|symmetry; exact ET|exact HT].
    + unfold rn1. destruct (rem1 g) as [|x r]; [apply breakz_0|exact Hb].
Qed.

(* ---------------- (1) scan_block_scalar_content_line ----------------
   Both sides append the characters in front of the first break / NUL ([nbz]) and stop there, whatever the mix of
   the buffered loop and the raw fast path. *)
Definition line_of (l acc : list chr) : list chr := rev (firstn (nbz l) l) ++ acc.

(* string side, buffered loop with a non-zero look-ahead counter: the whole line *)
Lemma str_go : forall f acc s1, lk1 s1 <> 0 ->
  wp1 (bs_go sops f acc) (fun a t1 => a = line_of (rem1 s1) acc /\ Adv s1 (nbz (rem1 s1)) t1 /\ lk1 t1 = lk1 s1) s1.
Proof.
  induction f as [|f IH]; intros acc s1 Hlk; [exact I|]. cbn [bs_go].
  apply wp1_bind. apply wpl_buf_is_empty. destruct (Nat.eqb_spec (lk1 s1) 0) as [E0|_]; [contradiction|].
  apply wp1_bind. apply wpl_peek. destruct (is_breakz (rn1 s1 0)) eqn:Eb.
  - apply wp1_ret. unfold line_of. unfold rn1 in Eb. rewrite (nbz_stop _ Eb). split; [reflexivity|]. split; [apply Mv_refl|reflexivity].
  - apply wp1_bind. apply wpl_skip_blank. intros t1 A1 L1.
    eapply wp1_mono; [apply IH; rewrite L1; exact Hlk|]. cbv beta. intros a u (Ea & Au & Lu).
    unfold rn1 in Eb. destruct (nbz_step _ Eb) as [El Ek]. fold (rn1 s1 0) in El.
    assert (R1 : rem1 t1 = tl (rem1 s1)) by (destruct A1 as [R _]; rewrite R; symmetry; apply skipn1_tl).
    rewrite R1 in Ea, Au. split; [|split; [|congruence]].
    + rewrite Ea. unfold line_of. rewrite Ek. symmetry. apply firstn_step. assumption.
    + rewrite Ek. exact (Adv_trans _ _ _ _ _ A1 Au).
Qed.
(* string side, raw fast path *)
Lemma str_raw : forall f acc n s1,
  wp1 (bs_raw sops f acc n) (fun a t1 => a = line_of (rem1 s1) acc /\ Mv s1 (nbz (rem1 s1)) (n + N.of_nat (nbz (rem1 s1))) t1) s1.
Proof.
  induction f as [|f IH]; intros acc n s1; [exact I|]. cbn [bs_raw].
  apply wp1_bind. apply wpl_raw_read.
  - intros t1 M1 _ Eb. apply wp1_bind. apply wpl_adv_mark. intros u Mu _. apply wp1_ret.
    unfold line_of. unfold rn1 in Eb. rewrite (nbz_stop _ Eb). split; [reflexivity|].
    eapply Mv_eq; [exact (Mv_trans _ _ _ _ _ _ _ M1 Mu)|reflexivity|lia].
  - intros x t1 Eb Ex M1 _. eapply wp1_mono; [apply IH|]. cbv beta. intros a u (Ea & Mu).
    assert (Eb' : is_breakz (nth 0 (rem1 s1) 0%N) = false) by (fold (rn1 s1 0); rewrite Ex; exact Eb).
    destruct (nbz_step _ Eb') as [_ Ek].
    assert (R1 : rem1 t1 = tl (rem1 s1)) by (destruct M1 as [R _]; rewrite R; symmetry; apply skipn1_tl).
    rewrite R1 in Ea, Mu. split.
    + rewrite Ea. unfold line_of. rewrite Ek. subst x. exact (eq_sym (firstn_step (rem1 s1) _ acc Eb')).
    + rewrite Ek. eapply Mv_eq; [exact (Mv_trans _ _ _ _ _ _ _ M1 Mu)|reflexivity|apply Nh_raw].
Qed.
Lemma str_content_line F acc s1 :
  wp1 (scan_block_scalar_content_line sops F acc) (fun a t1 => a = line_of (rem1 s1) acc /\ Adv s1 (nbz (rem1 s1)) t1) s1.
Proof.
  rewrite content_line_eq. apply wp1_bind. destruct (Nat.eq_dec (lk1 s1) 0) as [E0|NZ0].
  - (* look-ahead counter 0: straight to the raw path *)
    destruct F as [|F]; [exact I|]. cbn [bs_go]. apply wp1_bind. apply wpl_buf_is_empty. rewrite E0.
    change (Nat.eqb 0 0) with true. cbv iota. apply wp1_ret. apply wp1_bind. apply wpl_buf_is_empty. rewrite E0.
    change (Nat.eqb 0 0) with true. cbv iota.
    eapply wp1_mono; [apply str_raw|]. cbv beta. intros a t1 [Ea Ma]. split; [exact Ea|].
    eapply Mv_eq; [exact Ma|reflexivity|lia].
  - eapply wp1_mono; [apply str_go; exact NZ0|]. cbv beta. intros a t1 (Ea & Aa & La).
    apply wp1_bind. apply wpl_buf_is_empty. destruct (Nat.eqb_spec (lk1 t1) 0) as [E0|_]; [congruence|].
    apply wp1_ret. split; assumption.
Qed.

(* buffered side, buffered loop: a prefix of the line, up to an empty buffer or the whole of it *)
Lemma buf_go : forall f acc g s2, GS g s2 -> nbz (rem1 g) < f ->
  wp1t (bs_go bops f acc)
      (fun a t2 => exists j g', j <= nbz (rem1 g) /\ a = rev (firstn j (rem1 g)) ++ acc /\ Adv g j g' /\ GS g' t2 /\
                                (bl2 t2 = 0 \/ j = nbz (rem1 g))) s2.
Proof.
  induction f as [|f IH]; intros acc g s2 HS Hf; [exfalso; lia|]. cbn [bs_go].
  apply wp1t_bind. apply wpr_buf_is_empty. destruct (Nat.eqb_spec (bl2 s2) 0) as [E0|NZ0].
  - apply wp1t_ret. exists 0, g. split; [lia|]. split; [reflexivity|]. split; [apply Mv_refl|]. split; [exact HS|left; exact E0].
  - apply wp1t_bind. apply (wpr_peek g); [exact HS|lia|]. destruct (is_breakz (rn1 g 0)) eqn:Eb.
    + apply wp1t_ret. unfold rn1 in Eb. exists 0, g. rewrite (nbz_stop _ Eb). split; [lia|]. split; [reflexivity|].
      split; [apply Mv_refl|]. split; [exact HS|right; reflexivity].
    + unfold rn1 in Eb. destruct (nbz_step _ Eb) as [El Ek]. fold (rn1 g 0) in El.
      apply wp1t_bind. apply (wpr_skip_blank g); [exact HS|lia|]. intros g1 t2 HT A1 BT.
      assert (R1 : rem1 g1 = tl (rem1 g)) by (destruct A1 as [R _]; rewrite R; symmetry; apply skipn1_tl).
      eapply wp1t_mono; [apply IH; [exact HT|rewrite R1; lia]|]. cbv beta. intros a u (j & g' & Hj & Ea & Aj & HU & D).
      rewrite R1 in Hj, Ea, D. exists (S j), g'. split; [lia|]. split; [|split; [|split]].
      * rewrite Ea. symmetry. apply firstn_step. exact Eb.
      * exact (Adv_trans _ _ _ _ _ A1 Aj).
      * exact HU.
      * destruct D as [D|D]; [left; exact D|right; lia].
Qed.
(* buffered side, raw fast path (entered with an empty buffer): the rest of the line *)
Lemma buf_raw : forall f acc n g s2, GS g s2 -> bl2 s2 = 0 -> nbz (rem1 g) < f ->
  wp1t (bs_raw bops f acc n)
      (fun a t2 => a = line_of (rem1 g) acc /\ exists g', Mv g (nbz (rem1 g)) (n + N.of_nat (nbz (rem1 g))) g' /\ GS g' t2) s2.
Proof.
  induction f as [|f IH]; intros acc n g s2 HS HB Hf; [exfalso; lia|]. cbn [bs_raw].
  apply wp1t_bind. apply (wpr_raw_read g); [exact HS|exact HB| |].
  - intros t2 HT Eb. apply wp1t_bind. apply (wpr_adv_mark n g); [exact HT|]. intros g' u HU Mu _. apply wp1t_ret.
    unfold line_of. unfold rn1 in Eb. rewrite (nbz_stop _ Eb). split; [reflexivity|]. exists g'. split; [|exact HU].
    eapply Mv_eq; [exact Mu|reflexivity|lia].
  - intros x g1 t2 Eb Ex M1 HT BT.
    assert (Eb' : is_breakz (nth 0 (rem1 g) 0%N) = false) by (fold (rn1 g 0); rewrite Ex; exact Eb).
    destruct (nbz_step _ Eb') as [_ Ek].
    assert (R1 : rem1 g1 = tl (rem1 g)) by (destruct M1 as [R _]; rewrite R; symmetry; apply skipn1_tl).
    eapply wp1t_mono; [apply IH; [exact HT|exact BT|rewrite R1; lia]|]. cbv beta.
    intros a u (Ea & g' & Mu & HU).
    rewrite R1 in Ea, Mu. split.
    + rewrite Ea. unfold line_of. rewrite Ek. subst x. exact (eq_sym (firstn_step (rem1 g) _ acc Eb')).
    + exists g'. split; [|exact HU]. rewrite Ek. eapply Mv_eq; [exact (Mv_trans _ _ _ _ _ _ _ M1 Mu)|reflexivity|apply Nh_raw].
Qed.
Lemma buf_content_line F acc g s2 : GS g s2 -> nbz (rem1 g) < F ->
  wp1t (scan_block_scalar_content_line bops F acc)
      (fun a t2 => a = line_of (rem1 g) acc /\ exists g', Adv g (nbz (rem1 g)) g' /\ GS g' t2) s2.
Proof.
  intros HS HF. rewrite content_line_eq. apply wp1t_bind.
  eapply wp1t_mono; [apply buf_go; [exact HS|exact HF]|]. cbv beta. intros a t2 (j & g1 & Hj & Ea & Aj & HT & D).
  assert (R1 : rem1 g1 = skipn j (rem1 g)) by (destruct Aj as [R _]; exact R).
  apply wp1t_bind. apply wpr_buf_is_empty. destruct (Nat.eqb_spec (bl2 t2) 0) as [E0|NZ0].
  - eapply wp1t_mono; [apply buf_raw; [exact HT|exact E0|rewrite R1, (nbz_skipn _ _ Hj); lia]|]. cbv beta.
    intros a' u (Ea' & g' & Mu & HU).
    rewrite R1 in Ea', Mu. rewrite (nbz_skipn _ _ Hj) in Mu.
    split.
    + rewrite Ea', Ea. unfold line_of. rewrite (nbz_skipn _ _ Hj).
      replace (nbz (rem1 g)) with (j + (nbz (rem1 g) - j)) at 2 by lia.
      rewrite firstn_add, rev_app_distr, <- app_assoc. reflexivity.
    + exists g'. split; [|exact HU]. eapply Mv_eq; [exact (Mv_trans _ _ _ _ _ _ _ Aj Mu)|lia|lia].
  - apply wp1t_ret. destruct D as [D|D]; [contradiction|]. subst j. split; [exact Ea|]. exists g1. split; assumption.
Qed.

(* both sides together: same text appended, related states *)
Lemma rel_content_line F acc s1 s2 : 2 * N0 + 6 <= F -> SR s1 s2 ->
  rwp (scan_block_scalar_content_line sops F acc) (scan_block_scalar_content_line bops F acc) (rpost 0) s1 s2.
Proof.
  intros HF HS. apply rwp_bound. intros B.
  eapply rwp_decouple; [apply str_content_line| |].
  - cbv beta. intros a1 t1 [_ A1]. exact (Mv_len _ _ _ _ A1).
  - cbv beta. intros a1 t1 [Ea A1].
    assert (Hn : nbz (rem1 s1) < F) by (pose proof (nbz_le (rem1 s1)); lia).
    eapply wp1t_mono; [apply (buf_content_line F acc s1 s2 (conj HS B) Hn)|]. cbv beta. intros a2 t2 (Ea2 & g' & A2 & HT).
    split; [congruence|]. split; [exact (Mv_SR _ _ _ _ _ _ A1 A2 (GS_SR _ _ HT))|lia].
Qed.

(* ---------------- (2) skip_spaces_to ----------------
   Whatever [check_buf] and the fuel, the complete run consumes [jsp indent s] spaces. *)
Lemma jsp_stop_col indent g : (indent <= mcol g)%N -> jsp indent g = 0.
Proof. intros H. unfold jsp. replace (N.to_nat (indent - mcol g)) with 0 by lia. apply nsp_0. Qed.
Lemma jsp_stop_ch indent g : rn1 g 0 <> 32%N -> jsp indent g = 0.
Proof. intros H. unfold jsp. apply nsp_stop. exact H. Qed.
Lemma jsp_step indent g g1 : (mcol g < indent)%N -> rn1 g 0 = 32%N -> Adv g 1 g1 -> jsp indent g = S (jsp indent g1).
Proof.
  intros Hc E A. unfold jsp. rewrite (Mv_mcol _ _ _ _ A). destruct A as [R _]. rewrite R, <- skipn1_tl.
  replace (N.to_nat (indent - mcol g)) with (S (N.to_nat (indent - (mcol g + N.of_nat 1)))) by lia.
  apply nsp_step. exact E.
Qed.
Lemma jsp_le indent g : jsp indent g <= N.to_nat (indent - mcol g).
Proof. apply nsp_le. Qed.

(* string side: the look-ahead counter is never 0 when [check_buf] is asked, so the run is complete *)
Lemma str_sst indent cb : forall f s1, (cb = true -> lk1 s1 <> 0) ->
  wp1 (skip_spaces_to sops f indent cb) (fun _ t1 => Adv s1 (jsp indent s1) t1 /\ lk1 t1 = lk1 s1) s1.
Proof.
  induction f as [|f IH]; intros s1 Hlk; [exact I|]. cbn [skip_spaces_to].
  apply wp1_bind. apply wp1_mono with (P := fun e t => t = s1 /\ e = false).
  { destruct cb; [|apply wp1_ret; auto]. apply wpl_buf_is_empty. split; [reflexivity|]. apply Nat.eqb_neq. auto. }
  intros e t [-> ->]. apply wp1_bind. apply wpl_col. cbn [orb].
  destruct (N.ltb_spec (mcol s1) indent) as [Hlt|Hge]; cbn [negb].
  2:{ apply wp1_ret. rewrite (jsp_stop_col _ _ Hge). split; [apply Mv_refl|reflexivity]. }
  apply wp1_bind. apply wpl_peek. destruct (N.eqb_spec (rn1 s1 0) 32) as [E|NE].
  - apply wp1_bind. apply wpl_skip_blank. intros t1 A1 L1.
    eapply wp1_mono; [apply IH; rewrite L1; exact Hlk|]. cbv beta. intros _ u [Au Lu]. split; [|congruence].
    rewrite (jsp_step indent s1 t1 Hlt E A1). exact (Adv_trans _ _ _ _ _ A1 Au).
  - apply wp1_ret. rewrite (jsp_stop_ch _ _ NE). split; [apply Mv_refl|reflexivity].
Qed.

(* buffered side, no buffer check: enough characters are buffered for the whole run and [d] more *)
Lemma buf_sst_nocheck d indent : forall f g s2, GS g s2 -> N.to_nat (indent - mcol g) + d < bl2 s2 -> jsp indent g < f ->
  wp1t (skip_spaces_to bops f indent false)
      (fun _ t2 => exists g', Adv g (jsp indent g) g' /\ GS g' t2 /\ d < bl2 t2) s2.
Proof.
  induction f as [|f IH]; intros g s2 HS HB Hf; [exfalso; lia|]. cbn [skip_spaces_to].
  apply wp1t_bind. apply wp1t_ret. apply wp1t_bind. apply (wpr_col g); [exact HS|]. cbn [orb].
  destruct (N.ltb_spec (mcol g) indent) as [Hlt|Hge]; cbn [negb].
  2:{ apply wp1t_ret. exists g. rewrite (jsp_stop_col _ _ Hge). split; [apply Mv_refl|]. split; [exact HS|lia]. }
  apply wp1t_bind. apply (wpr_peek g); [exact HS|lia|]. destruct (N.eqb_spec (rn1 g 0) 32) as [E|NE].
  - apply wp1t_bind. apply (wpr_skip_blank g); [exact HS|lia|]. intros g1 t2 HT A1 BT.
    pose proof (jsp_step indent g g1 Hlt E A1) as Ej.
    eapply wp1t_mono; [apply IH; [exact HT| |lia]|].
    + rewrite (Mv_mcol _ _ _ _ A1). lia.
    + cbv beta. intros _ u (g' & Au & HU & BU). exists g'. split; [|split; assumption].
      rewrite Ej. exact (Adv_trans _ _ _ _ _ A1 Au).
  - apply wp1t_ret. exists g. rewrite (jsp_stop_ch _ _ NE). split; [apply Mv_refl|]. split; [exact HS|lia].
Qed.

(* buffered side, with the buffer check: a prefix of the run, complete unless the buffer ran empty *)
Lemma buf_sst_check indent : forall f g s2, GS g s2 -> jsp indent g < f ->
  wp1t (skip_spaces_to bops f indent true)
      (fun _ t2 => exists i g', i <= jsp indent g /\ Adv g i g' /\ GS g' t2 /\ bl2 t2 + i = bl2 s2 /\
                                (bl2 t2 = 0 \/ i = jsp indent g)) s2.
Proof.
  induction f as [|f IH]; intros g s2 HS Hf; [exfalso; lia|]. cbn [skip_spaces_to].
  apply wp1t_bind. apply wpr_buf_is_empty. apply wp1t_bind. apply (wpr_col g); [exact HS|].
  destruct (Nat.eqb_spec (bl2 s2) 0) as [E0|NZ0]; cbn [orb].
  { apply wp1t_ret. exists 0, g. split; [lia|]. split; [apply Mv_refl|]. split; [exact HS|]. split; [lia|left; exact E0]. }
  destruct (N.ltb_spec (mcol g) indent) as [Hlt|Hge]; cbn [negb].
  2:{ apply wp1t_ret. exists 0, g. rewrite (jsp_stop_col _ _ Hge). split; [lia|]. split; [apply Mv_refl|]. split; [exact HS|].
      split; [lia|right; reflexivity]. }
  apply wp1t_bind. apply (wpr_peek g); [exact HS|lia|]. destruct (N.eqb_spec (rn1 g 0) 32) as [E|NE].
  - apply wp1t_bind. apply (wpr_skip_blank g); [exact HS|lia|]. intros g1 t2 HT A1 BT.
    pose proof (jsp_step indent g g1 Hlt E A1) as Ej.
    eapply wp1t_mono; [apply IH; [exact HT|lia]|]. cbv beta. intros _ u (i & g' & Hi & Au & HU & BU & D).
    rewrite Ej. exists (S i), g'. split; [lia|]. split; [exact (Adv_trans _ _ _ _ _ A1 Au)|].
    split; [exact HU|]. split; [lia|]. destruct D as [D|D]; [left; exact D|right; lia].
  - apply wp1t_ret. exists 0, g. rewrite (jsp_stop_ch _ _ NE). split; [lia|]. split; [apply Mv_refl|]. split; [exact HS|].
    split; [lia|right; reflexivity].
Qed.

(* ---------------- (3) the indentation phase of skip_block_scalar_indent: narrow / wide ---------------- *)
(* string side, wide loop: after [look 128] the counter is not 0, so one round does the whole run; a further round
   (entered when the column is beyond [indent] in front of a space) consumes nothing *)
Lemma str_wide F indent : forall f s1, wp1 (bs_wide sops F indent f) (fun _ t1 => Adv s1 (jsp indent s1) t1) s1.
Proof.
  induction f as [|f IH]; intros s1; [exact I|]. cbn [bs_wide]. change (bufmaxlen sops) with 128.
  apply wp1_bind. apply wpl_look. intros t1 M1 L1.
  apply wp1_bind. eapply wp1_mono; [apply str_sst; intros _; lia|]. cbv beta. intros _ u [Au Lu].
  rewrite (jsp_Mv0 indent _ _ M1) in Au.
  assert (A : Adv s1 (jsp indent s1) u) by exact (Adv_trans _ _ _ _ _ M1 Au).
  apply wp1_bind. apply wpl_col. apply wp1_bind. apply wpl_buf_is_empty.
  destruct (Nat.eqb_spec (lk1 u) 0) as [E0|_]; [lia|].
  apply wp1_bind. apply wpl_peek.
  match goal with |- wp1 (if ?b then _ else _) _ _ => destruct b end; [apply wp1_ret; exact A|].
  eapply wp1_mono; [apply IH|]. cbv beta. intros _ v Av.
  rewrite (jsp_Adv indent _ _ _ A) in Av by lia. rewrite Nat.sub_diag in Av.
  eapply Mv_eq; [exact (Adv_trans _ _ _ _ _ A Av)|lia|lia].
Qed.
Lemma str_spp F indent s1 : wp1 (bs_spp sops F indent) (fun _ t1 => Adv s1 (jsp indent s1) t1) s1.
Proof.
  unfold bs_spp. change (bufmaxlen sops) with 128. destruct (indent <? N.of_nat (128 - 2))%N.
  - apply wp1_bind. apply wpl_look. intros t1 M1 L1.
    eapply wp1_mono; [apply str_sst; discriminate|]. cbv beta. intros _ u [Au _].
    rewrite (jsp_Mv0 indent _ _ M1) in Au. exact (Adv_trans _ _ _ _ _ M1 Au).
  - apply wp1_bind. eapply wp1_mono; [apply str_wide|]. cbv beta. intros _ t1 A1.
    apply wpl_look. intros u Mu _. eapply Mv_eq; [exact (Mv_trans _ _ _ _ _ _ _ A1 Mu)|lia|lia].
Qed.

(* buffered side, wide loop: every round refills the buffer and continues the run where the last one stopped *)
Lemma buf_wide F indent : forall f g s2, GS g s2 -> P0 indent g -> jsp indent g < F -> jsp indent g < f ->
  wp1t (bs_wide bops F indent f) (fun _ t2 => exists g', Adv g (jsp indent g) g' /\ GS g' t2) s2.
Proof.
  induction f as [|f IH]; intros g s2 HS HP HF Hf; [exfalso; lia|]. cbn [bs_wide]. change (bufmaxlen bops) with cap.
  apply wp1t_bind. apply (wpr_look cap g); [exact HS|lia|]. intros t2 HT BT _.
  apply wp1t_bind. eapply wp1t_mono; [apply buf_sst_check; [exact HT|exact HF]|]. cbv beta.
  intros _ u2 (i & g1 & Hi & Ai & HU & BU & D).
  apply wp1t_bind. apply (wpr_col g1); [exact HU|]. apply wp1t_bind. apply wpr_buf_is_empty.
  destruct (Nat.eqb_spec (bl2 u2) 0) as [E0|NZ0].
  - (* the buffer ran empty: at least [cap] spaces were consumed in this round *)
    apply wp1t_bind. apply wp1t_ret. cbn [negb andb]. rewrite orb_false_r.
    destruct (N.eqb_spec (mcol g1) indent) as [Ec|NEc].
    + apply wp1t_ret. exists g1. split; [|exact HU].
      pose proof (jsp_le indent g) as Hle. rewrite (Mv_mcol _ _ _ _ Ai) in Ec.
      eapply Mv_eq; [exact Ai|lia|lia].
    + assert (Hi1 : 1 <= i) by lia.
      assert (HP1 : P0 indent g1).
      { left. rewrite (Mv_mcol _ _ _ _ Ai). pose proof (jsp_le indent g) as Hle.
        destruct HP as [H|H]; [lia|]. rewrite (jsp_stop_ch _ _ H) in Hi. lia. }
      pose proof (jsp_Adv indent _ _ _ Ai Hi) as Ej.
      eapply wp1t_mono; [apply IH; [exact HU|exact HP1|lia|lia]|]. cbv beta. intros _ v2 (g' & Av & HV). exists g'. split; [|exact HV].
      rewrite Ej in Av. eapply Mv_eq; [exact (Adv_trans _ _ _ _ _ Ai Av)|lia|lia].
  - destruct D as [D|D]; [contradiction|]. subst i.
    apply wp1t_bind. apply (wpr_peek g1); [exact HU|lia|].
    (* a complete run ends on the target column or in front of a non-space: the loop stops *)
    destruct (jsp_complete indent g g1 HP Ai) as [Hc|Hc].
    + apply N.eqb_eq in Hc. rewrite Hc. cbn [orb]. apply wp1t_ret. exists g1. split; assumption.
    + apply N.eqb_neq in Hc. rewrite Hc. cbn [negb andb]. rewrite orb_true_r. apply wp1t_ret. exists g1. split; assumption.
Qed.
(* narrow path: [look cap] buffers [cap] characters, the run is at most [indent <= cap - 3] long *)
Lemma buf_spp F indent g s2 : GS g s2 -> P0 indent g -> jsp indent g < F ->
  wp1t (bs_spp bops F indent) (fun _ t2 => exists g', Adv g (jsp indent g) g' /\ GS g' t2 /\ 2 <= bl2 t2) s2.
Proof.
  intros HS HP HF. unfold bs_spp. change (bufmaxlen bops) with cap.
  destruct (N.ltb_spec indent (N.of_nat (cap - 2))) as [Hn|Hw].
  - apply wp1t_bind. apply (wpr_look cap g); [exact HS|lia|]. intros t2 HT BT _.
    eapply wp1t_mono; [apply (buf_sst_nocheck 2 indent F g t2 HT); [lia|exact HF]|]. cbv beta.
    intros _ u (g' & Au & HU & BU). exists g'. split; [exact Au|]. split; [exact HU|lia].
  - apply wp1t_bind. eapply wp1t_mono; [apply buf_wide; [exact HS|exact HP|exact HF|exact HF]|]. cbv beta. intros _ t2 (g' & Ag & HT).
    apply (wpr_look 2 g'); [exact HT|lia|]. intros u HU BU _. exists g'. split; [exact Ag|]. split; assumption.
Qed.

(* both sides together: the same spaces skipped, two characters buffered afterwards *)
Lemma rel_spp F indent s1 s2 : 2 * N0 + 6 <= F -> SR s1 s2 -> P0 indent s1 ->
  rwp (bs_spp sops F indent) (bs_spp bops F indent) (rpost 2) s1 s2.
Proof.
  intros HF HS HP. apply rwp_bound. intros B.
  eapply rwp_decouple; [apply str_spp| |].
  - cbv beta. intros [] t1 A1. exact (Mv_len _ _ _ _ A1).
  - cbv beta. intros [] t1 A1.
    assert (Hn : jsp indent s1 < F) by (pose proof (jsp_le_len indent s1); lia).
    eapply wp1t_mono; [apply (buf_spp F indent s1 s2 (conj HS B) HP Hn)|]. cbv beta. intros [] t2 (g' & A2 & HT & BT).
    split; [reflexivity|]. split; [exact (Mv_SR _ _ _ _ _ _ A1 A2 (GS_SR _ _ HT))|exact BT].
Qed.

(* ---------------- (4) skip_block_scalar_indent: the outer loop is in lockstep ---------------- *)
Lemma rwp_col (Q : N -> st1 -> N -> st2 -> Prop) s1 s2 :
  SR s1 s2 -> Q (mcol s1) s1 (mcol s1) s2 -> rwp (@col strin) (@col bufin) Q s1 s2.
Proof. intros HS HQ. unfold col. apply rwp_gets_skel; [exact HS|rel_eq|exact HQ]. Qed.

Lemma rel_skip_bsi F indent : 2 * N0 + 6 <= F -> forall fuel breaks s1 s2, SR s1 s2 -> P0 indent s1 ->
  rwp (skip_block_scalar_indent sops F fuel indent breaks) (skip_block_scalar_indent bops F fuel indent breaks)
      (rpost 2) s1 s2.
Proof.
  intros HF. induction fuel as [|fuel IH]; intros breaks s1 s2 HS HP; [apply rwp_oof_l|]. rewrite !sbsi_eq.
  apply rwp_bind. change (bufmaxlen sops) with 128. change (bufmaxlen bops) with cap.
  destruct (Nat.ltb 128 2); [apply rwp_panic_l|]. destruct (Nat.ltb cap 2); [apply rwp_panic_r|]. apply rwp_ret.
  eapply rwp_bind_rpost; [apply rel_spp; [exact HF|exact HS|exact HP]|]. intros [] u1 u2 HU BU.
  apply rwp_bind. apply (rwp_next_is cap cap_ge); [exact HU|lia|].
  destruct (is_break (rn1 u1 0)).
  - apply rwp_bind. apply (rwp_post_l N0 _ _ (fun _ t1 => mcol t1 = 0%N)); [intros [] t1 E; exact (skip_break_col0 _ _ E)|].
    apply (rwp_skip_break cap cap_ge); [exact HU|exact BU|]. intros v1 v2 HV _ _ _ C0.
    apply IH; [exact HV|left; rewrite C0; lia].
  - apply rwp_ret_rpost; [exact HU|exact BU].
Qed.

(* ---------------- (5) skip_first_line_indent: lockstep ---------------- *)
Lemma rel_sfl : forall f s1 s2, SR s1 s2 -> rwp (bs_sfl sops f) (bs_sfl bops f) (rpost 1) s1 s2.
Proof.
  induction f as [|f IH]; intros s1 s2 HS; [apply rwp_oof_l|]. cbn [bs_sfl].
  apply rwp_bind. apply (rwp_look_ch cap cap_ge); [exact HS|]. intros u1 u2 HU _ _ BU _.
  destruct (rn1 u1 0 =? 32)%N.
  - apply rwp_bind. apply (rwp_skip_blank cap cap_ge); [exact HU|exact BU|]. intros v1 v2 HV _ _. apply IH. exact HV.
  - apply rwp_ret_rpost; [exact HU|exact BU].
Qed.
Lemma rel_sfli F : forall fuel maxi breaks s1 s2, SR s1 s2 ->
  rwp (skip_first_line_indent sops F fuel maxi breaks) (skip_first_line_indent bops F fuel maxi breaks) (rpost 1) s1 s2.
Proof.
  induction fuel as [|fuel IH]; intros maxi breaks s1 s2 HS; [apply rwp_oof_l|]. rewrite !sfli_eq.
  eapply rwp_bind_rpost; [apply rel_sfl; exact HS|]. intros [] u1 u2 HU BU.
  apply rwp_bind. apply rwp_col; [exact HU|].
  apply rwp_bind. apply (rwp_next_is cap cap_ge); [exact HU|exact BU|].
  destruct (is_break (rn1 u1 0)).
  - apply rwp_bind. apply (rwp_look cap cap_ge); [exact HU|lia|]. intros v1 v2 HV _ _ BV _.
    apply rwp_bind. apply (rwp_skip_break cap cap_ge); [exact HV|exact BV|]. intros w1 w2 HW _ _ _.
    apply IH. exact HW.
  - apply rwp_ret_rpost; [exact HU|exact BU].
Qed.

(* ---------------- (6) scan_block_scalar ---------------- *)
Theorem scan_block_scalar_ok : rel_scan_block_scalar cap N0.
Proof using cap_ge.
  unfold rel_scan_block_scalar. intros F literal s1 s2 HFu HS HB. unfold scan_block_scalar. cbv zeta.
  apply rwp_bind. apply rwp_mark; [exact HS|]. cbv beta.
  apply rwp_bind. apply (rwp_skip_non_blank cap cap_ge); [exact HS|exact HB|]. intros a1 a2 HA _ _.
  apply rwp_bind. apply rwp_unroll_non_block_indents; [exact HA|]. intros b1 b2 HBb _ _.
  apply rwp_bind. apply (rwp_look_ch cap cap_ge); [exact HBb|]. intros c1 c2 HC _ _ BC _.
  (* the header: chomping and indentation indicators, in either order *)
  eapply rwp_bind_rpost with (k := 0).
  { set (c := rn1 c1 0). destruct ((c =? 43) || (c =? 45))%N.
    - apply rwp_bind. apply (rwp_skip_non_blank cap cap_ge); [exact HC|exact BC|]. intros d1 d2 HD _ _.
      apply rwp_bind. apply (rwp_look cap cap_ge); [exact HD|lia|]. intros e1 e2 HE _ _ BE _.
      apply rwp_bind. apply (rwp_peek cap cap_ge); [exact HE|exact BE|].
      destruct (is_digit (rn1 e1 0)); [|apply rwp_ret_rpost; [exact HE|lia]].
      destruct (rn1 e1 0 =? 48)%N; [apply rwp_fail; reflexivity|].
      apply rwp_bind. apply (rwp_skip_non_blank cap cap_ge); [exact HE|exact BE|]. intros f1 f2 HF _ _.
      apply rwp_ret_rpost; [exact HF|lia].
    - destruct (is_digit c); [|apply rwp_ret_rpost; [exact HC|lia]].
      destruct (c =? 48)%N; [apply rwp_fail; reflexivity|].
      apply rwp_bind. apply (rwp_skip_non_blank cap cap_ge); [exact HC|exact BC|]. intros d1 d2 HD _ _.
      apply rwp_bind. apply (rwp_look cap cap_ge); [exact HD|lia|]. intros e1 e2 HE _ _ BE _.
      apply rwp_bind. apply (rwp_peek cap cap_ge); [exact HE|exact BE|].
      destruct ((rn1 e1 0 =? 43) || (rn1 e1 0 =? 45))%N; [|apply rwp_ret_rpost; [exact HE|lia]].
      apply rwp_bind. apply (rwp_skip_non_blank cap cap_ge); [exact HE|exact BE|]. intros f1 f2 HF _ _.
      apply rwp_ret_rpost; [exact HF|lia]. }
  intros [chomp increment] g1 g2 HG _. cbv beta iota.
  (* the rest of the header line *)
  eapply rwp_bind_rpost; [apply (skip_ws_to_eol_ok cap cap_ge); exact HG|]. intros tw h1 h2 HH _.
  apply rwp_bind. apply (rwp_look cap cap_ge); [exact HH|lia|]. intros i1 i2 HI _ _ BI _.
  apply rwp_bind. apply (rwp_peek cap cap_ge); [exact HI|exact BI|].
  destruct (is_breakz (rn1 i1 0)) eqn:Ebz; cbn [negb]; [|apply rwp_fail; reflexivity].
  (* after the header line: at column 0 (a break was consumed) or at the end of the input *)
  apply rwp_bind_e.
  eapply rwp_mono with (Q := Qe (fun (_ : N) t1 t2 => SR t1 t2 /\ (mcol t1 = 0%N \/ rn1 t1 0 = 0%N))).
  { destruct (is_break (rn1 i1 0)) eqn:Ebr.
    - apply rwp_bind. apply (rwp_look cap cap_ge); [exact HI|lia|]. intros j1 j2 HJ _ _ BJ _.
      apply rwp_bind. apply (rwp_post_l N0 _ _ (fun _ t1 => mcol t1 = 0%N)); [intros [] t1 E; exact (skip_break_col0 _ _ E)|].
      apply (rwp_skip_break cap cap_ge); [exact HJ|exact BJ|]. intros k1 k2 HK _ _ _ C0.
      apply rwp_ret. split; [reflexivity|]. split; [exact HK|left; exact C0].
    - apply rwp_ret. split; [reflexivity|]. split; [exact HI|right].
      unfold is_breakz in Ebz. rewrite Ebr in Ebz. cbn [orb] in Ebz. apply N.eqb_eq. exact Ebz. }
  intros cbreak j1 cbreak' j2 (<- & HJ & DJ). split; [reflexivity|].
  apply rwp_bind. apply (rwp_look_ch cap cap_ge); [exact HJ|]. intros k1 k2 HK RK EK BK _.
  assert (HPK : forall ind, P0 ind k1).
  { intros ind. destruct DJ as [H|H].
    - left. rewrite (erase_mark k1 _ EK). change (sc_mark (erase j1)) with (sc_mark j1). rewrite H. lia.
    - right. rewrite (rn1_eq _ _ 0 RK), H. discriminate. }
  destruct (rn1 k1 0 =? 9)%N; [apply rwp_fail; reflexivity|].
  apply rwp_bind. apply rwp_get. cbv beta. sr_sync HK.
  (* the indentation of the first content line *)
  match goal with |- rwp (bind (if (?i =? 0)%N then _ else _) _) _ _ _ _ => set (indent0 := i) end.
  eapply rwp_bind_rpost with (k := 1).
  { destruct (indent0 =? 0)%N.
    - eapply rwp_bind_rpost; [apply rel_sfli; exact HK|]. intros r l1 l2 HL BL. apply rwp_ret_rpost; [exact HL|exact BL].
    - eapply rwp_bind_rpost; [apply rel_skip_bsi; [exact HFu|exact HK|apply HPK]|]. intros r l1 l2 HL BL. apply rwp_ret_rpost; [exact HL|lia]. }
  intros [indent tbreaks] l1 l2 HL BL. cbv beta iota.
  apply rwp_bind. apply (rwp_next_is cap cap_ge); [exact HL|exact BL|]. cbv beta.
  apply rwp_bind. apply rwp_get. cbv beta. sr_sync HL.
  destruct (is_z (rn1 l1 0)).
  { apply rwp_ret_rpost; [exact HL|lia]. }
  (* "wrongly indented" check *)
  eapply rwp_bind_rpost with (k := 1).
  { match goal with |- rwp (if ?b then _ else _) _ _ _ _ => destruct b end; [|apply rwp_ret_rpost; [exact HL|exact BL]].
    apply rwp_bind. apply (rwp_look cap cap_ge); [exact HL|lia|]. intros m1 m2 HM _ _ BM BM'.
    apply rwp_bind. apply (rwp_next_is_document_indicator cap cap_ge); [exact HM|exact BM|].
    apply rwp_ret_rpost; [exact HM|lia]. }
  intros wrong m1 m2 HM BM. destruct wrong; [apply rwp_fail; reflexivity|].
  apply rwp_bind. apply rwp_get. cbv beta. sr_sync HM.
  (* the main loop: one content line per round; one character is buffered at the head of the loop *)
  eapply rwp_bind_rpost with (k := 1).
  { match goal with |- rwp (?g1 F [] 0%N tbreaks false) (?g2 F [] 0%N tbreaks false) _ _ _ =>
      assert (Hgo : forall f acc lb tb ldb u1 u2, SR u1 u2 -> 1 <= bl2 u2 ->
                      rwp (g1 f acc lb tb ldb) (g2 f acc lb tb ldb) (rpost 1) u1 u2) end.
    { induction f as [|f IH]; intros acc lb tb ldb u1 u2 HU BU; [apply rwp_oof_l|]. lazy beta iota.
      apply rwp_bind. apply rwp_col; [exact HU|]. cbv beta.
      apply rwp_bind. apply (rwp_next_is cap cap_ge); [exact HU|exact BU|]. cbv beta.
      match goal with |- rwp (if ?b then _ else _) _ _ _ _ => destruct b end; [apply rwp_ret_rpost; [exact HU|exact BU]|].
      eapply rwp_bind_rpost with (k := 1).
      { destruct (indent =? 0)%N; [|apply rwp_ret_rpost; [exact HU|exact BU]].
        apply rwp_bind. apply (rwp_look cap cap_ge); [exact HU|lia|]. intros v1 v2 HV _ _ BV _.
        apply (rwp_next_is_document_indicator cap cap_ge); [exact HV|exact BV|].
        split; [reflexivity|]. split; [exact HV|lia]. }
      intros de v1 v2 HV BV. destruct de; [apply rwp_ret_rpost; [exact HV|exact BV]|].
      apply rwp_bind. apply (rwp_next_is cap cap_ge); [exact HV|exact BV|]. cbv beta.
      eapply rwp_bind_rpost; [apply rel_content_line; [exact HFu|exact HV]|]. intros acc1 w1 w2 HW _.
      apply rwp_bind. apply (rwp_look cap cap_ge); [exact HW|lia|]. intros x1 x2 HX _ _ BX _.
      apply rwp_bind. apply (rwp_next_is cap cap_ge); [exact HX|lia|]. cbv beta.
      destruct (is_z (rn1 x1 0)); [apply rwp_ret_rpost; [exact HX|lia]|].
      apply rwp_bind. apply (rwp_post_l N0 _ _ (fun _ t1 => mcol t1 = 0%N)); [intros [] t1 E; exact (skip_break_col0 _ _ E)|].
      apply (rwp_skip_break cap cap_ge); [exact HX|exact BX|]. intros y1 y2 HY _ _ _ C0.
      eapply rwp_bind_rpost; [apply rel_skip_bsi; [exact HFu|exact HY|left; rewrite C0; lia]|]. intros tb1 z1 z2 HZ BZ.
      apply IH; [exact HZ|lia]. }
    apply Hgo; assumption. }
  intros [[acc lb] tb] n1 n2 HN BN. cbv beta iota.
  apply rwp_bind. apply (rwp_next_is cap cap_ge); [exact HN|exact BN|]. cbv beta.
  apply rwp_bind. apply rwp_col; [exact HN|]. cbv beta.
  apply rwp_bind. apply rwp_mark; [exact HN|]. cbv beta.
  apply rwp_ret_rpost; [exact HN|lia].
Qed.

End RelBlock.

Check scan_block_scalar_ok.
Print Assumptions scan_block_scalar_ok.
