(* C15, text level: the composition theorem of ScanPrefixDoc.v WITHOUT the side condition [no_eof_block].

   [prefix_tokens] relates the tokens the scanner of  A "...\n" B  delivers up to the marker line to the tokens of A
   alone only up to [TS]: an empty block scalar that runs into the end of A has a different span START in the two
   runs.  The conclusion of the composition theorem is about events WITHOUT spans, and these depend on the tokens only
   up to their spans (ScanPrefixFinalParse.v).

     TS_erased                      TS-related tokens have the same erasure
     text_composition_spanfree      ends_with_break A, nonul A, closed_flow A, both texts accepted  =>  composition *)
From Coq Require Import List NArith ZArith Bool Arith Lia.
Import ListNotations.
Require Import Parser SBase SPrim SDir SScalar SFetch Pipe C02run DocRun DocShift DocIndep DocIndepRun DocScan LazyScan.
Require Import ScanShift ScanShiftTop ScanShiftParse ScanShiftDoc ScanPrefixDoc.
Require ScanPrefix ScanPrefixTop ScanFuelAll ScanPrefixFinalParse.
Local Open Scope nat_scope.

Module E := ScanPrefixFinalParse.

Lemma TS_erased d t1 t2 : ScanPrefix.TS d t1 t2 -> E.etk t2 = E.etk t1 /\ snd t2 = snd t1.
Proof.
  intros [->|(st & n & a & e & _ & -> & ->)]; split; reflexivity.
Qed.
Lemma TSs_erased d l1 l2 : Forall2 (ScanPrefix.TS d) l1 l2 ->
  map E.etk l2 = map E.etk l1 /\ map snd l2 = map snd l1.
Proof.
  induction 1 as [|a b l1 l2 H _ [IH1 IH2]]; [split; reflexivity|]. destruct (TS_erased d a b H) as [E1 E2].
  cbn [map]. rewrite E1, E2, IH1, IH2. split; reflexivity.
Qed.
Lemma Forall_snd (P : tok -> Prop) (l1 l2 : list token) :
  map snd l2 = map snd l1 -> Forall (fun x => P (snd x)) l1 -> Forall (fun x => P (snd x)) l2.
Proof.
  revert l1. induction l2 as [|b l2 IH]; intros [|a l1] EM HF; try discriminate EM; [constructor|].
  cbn [map] in EM. inversion EM as [[Eb El]]. inversion HF as [|x y Ha Hl]; subst. constructor; [rewrite Eb; exact Ha|].
  exact (IH l1 El Hl).
Qed.

Theorem text_composition_spanfree A B evA evB :
  ends_with_break A -> nonul A -> closed_flow A ->
  run_str A = (evA, PDone) -> run_str B = (evB, PDone) ->
  exists evC, run_str (glue_text A B) = (evC, PDone)
              /\ evs_of evC = removelast (evs_of evA) ++ map (shift_ev (count_anchored (evs_of evA))) (tl (evs_of evB)).
Proof.
  intros HE HN HC HA HB.
  destruct (accepted_tokens_wf A evA HA) as (ssA & ta & sps & ETA & HSS & HNE).
  destruct (prefix_tokens A B HE HN (accepted_scan_ended A evA HA) HC)
    as (k & spd & sm & l2 & ED & HF & Hk & MC & HBr & TK & TA & SE & TP & EB).
  (* the tokens of the glued text *)
  pose proof (tail_independence_text (glue_text A B) k _ sm ED Hk MC HBr TK TA SE TP) as HT. cbn zeta in HT.
  rewrite EB in HT. destruct HT as [_ HT].
  destruct (HT (str_scan_proper B) (str_scan_proper (glue_text A B))) as [ETX ESX]. clear HT.
  set (d := boundary_shift sm) in *.
  (* the first part, up to spans *)
  rewrite ETA, app_comm_cons, removelast_last in HF.
  inversion HF as [|x ssA' l1 ta' HS0 HFt]; subst x l1 l2. clear HF.
  destruct (TS_erased B _ _ HS0) as [ES1 ES2]. destruct (TSs_erased B _ _ HFt) as [ET1 ET2].
  assert (HSS' : snd ssA' = TStreamStart) by (rewrite ES2; exact HSS).
  assert (HNE' : Forall (fun x => snd x <> TStreamEnd) ta').
  { exact (Forall_snd (fun t => t <> TStreamEnd) ta ta' ET2 HNE). }
  (* the two parts are accepted by the parser *)
  rewrite run_str_scan in HA, HB.
  apply parse_all_steps in HA. destruct HA as (ea & pa & EvA & SA & EA). cbn [rev app] in EvA. subst ea.
  apply parse_all_steps in HB. destruct HB as (eb & pb & EvB & SB & EB'). cbn [rev app] in EvB. subst eb.
  assert (AA : accepts (ssA :: ta ++ [(sps, TStreamEnd)]) false evA) by (rewrite <- ETA; exists pa; auto).
  assert (AB : accepts (fst (str_scan B)) false evB) by (exists pb; auto).
  destruct (E.accepts_up_to_spans _ (ssA' :: ta' ++ [(sps, TStreamEnd)]) _ _ AA) as (evA' & AA' & EVA).
  { cbn [map]. rewrite !map_app, ES1, ET1. reflexivity. }
  destruct (accepts_two _ _ _ AB) as (ssB & tb & seB & ETB).
  pose proof (accepts_shift_pos d _ _ _ AB) as AB'. rewrite ETB in AB'. cbn [map] in AB'. rewrite map_app in AB'. cbn [map] in AB'.
  destruct (doc_composition_events ssA' ta' sps spd (sht d ssB) (map (sht d) tb) (sht d seB) evA' (map (eev d) evB)
              HSS' HNE' AA' AB') as (evC & (pc & SC & EC) & EV).
  assert (EG : fst (str_scan (glue_text A B)) = ssA' :: ta' ++ (spd, TDocumentEnd) :: map (sht d) tb ++ [sht d seB]).
  { rewrite ETX, ETB. cbn [tl app]. rewrite <- app_assoc, map_app. reflexivity. }
  exists evC. split.
  - rewrite run_str_scan, EG.
    destruct (steps_parse_all_fuel _ _ _ SC EC (str_K (glue_text A B)) (snd (str_scan (glue_text A B))) []) as [G|G].
    + exact G.
    + exfalso. apply (ScanFuelAll.pipeline_never_out_of_fuel (glue_text A B)).
      rewrite run_str_scan, EG. exact G.
  - rewrite EV, evs_of_eev. change (evs_of evA' = evs_of evA) in EVA. rewrite EVA. reflexivity.
Qed.

Print Assumptions text_composition_spanfree.
