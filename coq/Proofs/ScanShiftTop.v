(* C15, scanner level: TAIL INDEPENDENCE of the scanner - assembly.

   1. The character-level contracts (ScanShiftPrim/Dir/Flow/Plain/Block.v) plugged into the skeleton
      (ScanShiftFetch.v): [fetch_next_token], [fetch_more_tokens], [next_token] and [scan_all], run from two states
      related by [SH d] (the same remaining text, side 2 shifted by [d]), end the same way: related states and
      shifted tokens, or the same error site at the shifted marker.  Any fuels.
   2. The same with the token relation spelled as a function: side 2 delivers [map (sht d)] of side 1's tokens.
   3. A by-product on the diagonal: [sc_adjacent s <= m_index (sc_mark s)] in every reachable state.
   4. The document boundary: the state in which the scanner stands behind a document marker line ([...] at flow
      level 0: the marker configuration of DocScan.v) is related to the state in which the scanner of the
      remaining text ALONE stands after StreamStart, with [d] = the position of the boundary; hence the tokens
      delivered from there are the tokens of the remaining text alone, StreamStart removed, every position
      shifted ([tail_independence]). *)
From Coq Require Import List NArith ZArith Bool Arith Lia.
Import ListNotations.
Require Import Parser SBase SPrim SDir SScalar SFetch ScanFrame DocScan.
Require Import ScanShift ScanShiftPrim ScanShiftFetch.
Require ScanShiftDir ScanShiftFlow ScanShiftPlain ScanShiftBlock.
Local Open Scope nat_scope.

(* ================================================================================================ *)
(* 1. Instantiation                                                                                 *)
(* ================================================================================================ *)
Section Inst.
Variable d : shift.
Let Hd := ScanShiftDir.scan_directive_ok d.
Let Ht := ScanShiftDir.scan_tag_ok d.
Let Hf := ScanShiftFlow.scan_flow_scalar_ok d.
Let Hp := ScanShiftPlain.scan_plain_scalar_ok d.
Let Hb := ScanShiftBlock.scan_block_scalar_ok d.

Theorem fetch_next_token_shift : shf_fetch_next_token d.
Proof. exact (fetch_next_token_ok d Hd Ht Hf Hp Hb). Qed.
Theorem fetch_next_token_shift_gen F1 F2 (s1 s2 : bst) :
  sc_stream_start s1 = true -> sc_stream_start s2 = true ->
  swp d (skip_to_next_token sops F1) (skip_to_next_token sops F2) (bpost_al d eq) (bump 1 s1) (bump 1 s2) ->
  swp d (fetch_next_token sops F1) (fetch_next_token sops F2) (bpost d eq) s1 s2.
Proof. exact (fetch_next_token_gen d Hd Ht Hf Hp Hb F1 F2 s1 s2). Qed.
Theorem fetch_more_tokens_shift : shf_fetch_more_tokens d.
Proof. exact (fetch_more_tokens_ok d Hd Ht Hf Hp Hb). Qed.
Theorem next_token_shift : shf_next_token d.
Proof. exact (next_token_ok d Hd Ht Hf Hp Hb). Qed.
Theorem scan_all_shift_rel : shf_scan_all d.
Proof. exact (scan_all_ok d Hd Ht Hf Hp Hb). Qed.
End Inst.

(* ================================================================================================ *)
(* 2. The functional reading                                                                        *)
(* ================================================================================================ *)
(* how two scans end, as a function: the same end, an error marker shifted *)
Definition she (d : shift) (e : scan_end) : scan_end :=
  match e with SError a k => SError a (shm d k) | _ => e end.
Lemma ES_proper d e1 e2 : ES d e1 e2 -> proper_end e1 -> proper_end e2 -> e2 = she d e1.
Proof.
  destruct e1, e2; cbn; try tauto; try reflexivity. intros [-> H] _ _. rewrite (MS_eq d _ _ H). reflexivity.
Qed.

(* ONE STEP: the same result, shifted *)
Theorem next_token_shift_fun d F1 F2 (s1 s2 : bst) : SH d s1 s2 ->
  match next_token sops F1 s1, next_token sops F2 s2 with
  | Ok (o1, t1), Ok (o2, t2) => o2 = option_map (sht d) o1 /\ SH d t1 t2
  | Err e1 k1, Err e2 k2 => e1 = e2 /\ k2 = shm d k1
  | Ok _, Err _ _ | Err _ _, Ok _ => False
  | _, _ => True
  end.
Proof.
  intros H. pose proof (bwp_elim d _ _ _ _ _ (next_token_shift d F1 F2 s1 s2 H)) as HN.
  destruct (next_token sops F1 s1) as [[o1 t1]|e1 k1|p1|]; destruct (next_token sops F2 s2) as [[o2 t2]|e2 k2|p2|]; auto.
  - destruct HN as [HO HT]. split; [|exact HT]. destruct o1 as [a1|], o2 as [a2|]; cbn in HO; try contradiction; [|reflexivity].
    cbn [option_map]. rewrite (TS_eq d _ _ HO). reflexivity.
  - destruct HN as [-> HM]. split; [reflexivity|apply MS_eq; exact HM].
Qed.

(* THE WHOLE SCAN *)
Theorem scan_all_shift d F1 F2 n1 n2 (s1 s2 : bst) acc : SH d s1 s2 ->
  let r1 := scan_all sops F1 n1 s1 acc in
  let r2 := scan_all sops F2 n2 s2 (map (sht d) acc) in
  ES d (snd r1) (snd r2)
  /\ (proper_end (snd r1) -> proper_end (snd r2) -> fst r2 = map (sht d) (fst r1) /\ snd r2 = she d (snd r1)).
Proof.
  intros H r1 r2. destruct (scan_all_shift_rel d F1 F2 n1 n2 s1 s2 acc (map (sht d) acc) H (TSs_map d acc)) as [HE HT].
  split; [exact HE|]. intros P1 P2. split; [apply TSs_eq; apply HT; assumption|apply ES_proper; assumption].
Qed.

(* the accumulator of scan_all is only prepended *)
Lemma scan_all_acc F n : forall (s : bst) acc,
  scan_all sops F n s acc = (rev acc ++ fst (scan_all sops F n s []), snd (scan_all sops F n s [])).
Proof.
  induction n as [|n IH]; intros s acc; cbn [scan_all]; [cbn [fst snd rev]; rewrite app_nil_r; reflexivity|].
  destruct (next_token sops F s) as [[[t|] s']|e k|p|]; cbn [fst snd rev]; rewrite ?app_nil_r; try reflexivity.
  rewrite (IH s' (t :: acc)), (IH s' [t]). cbn [fst snd rev app]. rewrite <- app_assoc. reflexivity.
Qed.

(* ================================================================================================ *)
(* 3. The diagonal: adjacent_value_allowed_at never lies in the future                              *)
(* ================================================================================================ *)
Definition d0 : shift := {| sh_i := 0; sh_l := 0; sh_k := 0 |}.
Definition adj_ok (s : bst) : Prop := (sc_adjacent s <= m_index (sc_mark s))%N.
Lemma MS_diag m : MS d0 m m.
Proof. unfold MS, d0. cbn [sh_i sh_l]. lia. Qed.
Lemma TS_diag t : TS d0 t t.
Proof. split; [split; apply MS_diag|reflexivity]. Qed.
Lemma KS_diag k : KS d0 k k.
Proof. split; auto; intros _; [unfold d0; cbn [sh_k]; lia|apply MS_diag]. Qed.
Lemma F2_diag {A} (R : A -> A -> Prop) l : (forall a, R a a) -> Forall2 R l l.
Proof. intros H. induction l; constructor; auto. Qed.
Lemma SH_diag (s : bst) : adj_ok s -> SH d0 s s.
Proof.
  intros HA. constructor.
  - constructor; reflexivity.
  - apply MS_diag.
  - apply F2_diag. exact TS_diag.
  - apply F2_diag. exact KS_diag.
  - unfold ADJ. unfold adj_ok in HA. split; [exact HA|split; [exact HA|right; tauto]].
  - unfold d0. cbn [sh_k]. lia.
  - reflexivity.
Qed.
Lemma SH_adj_ok d (s1 s2 : bst) : SH d s1 s2 -> adj_ok s1 /\ adj_ok s2.
Proof. intros H. destruct (sh_adj H) as (A1 & A2 & _). split; assumption. Qed.

Theorem fetch_next_token_adj_ok F (s : bst) a s' : adj_ok s -> fetch_next_token sops F s = Ok (a, s') -> adj_ok s'.
Proof.
  intros HA E. pose proof (bwp_elim d0 _ _ _ _ _ (fetch_next_token_shift d0 F F s s (SH_diag s HA))) as H.
  rewrite E in H. destruct H as [_ H]. exact (proj1 (SH_adj_ok _ _ _ H)).
Qed.
Theorem next_token_adj_ok F (s : bst) o s' : adj_ok s -> next_token sops F s = Ok (o, s') -> adj_ok s'.
Proof.
  intros HA E. pose proof (bwp_elim d0 _ _ _ _ _ (next_token_shift d0 F F s s (SH_diag s HA))) as H.
  rewrite E in H. destruct H as [_ H]. exact (proj1 (SH_adj_ok _ _ _ H)).
Qed.
Theorem reach_adj_ok F (s : bst) : reach sops F s -> adj_ok s.
Proof.
  induction 1 as [i|s o s' _ IH E]; [unfold adj_ok; cbn; lia|]. eapply next_token_adj_ok; eauto.
Qed.
Lemma fetches_adj_ok F k : forall (s s' : bst), adj_ok s -> fetches sops F k s = Some s' -> adj_ok s'.
Proof.
  induction k as [|k IH]; intros s s' HA; cbn [fetches]; [intros H; inversion H; subst; exact HA|].
  destruct (fetch_next_token sops F s) as [[a s1]| | |] eqn:E; try discriminate.
  apply IH. eapply fetch_next_token_adj_ok; eauto.
Qed.

(* ================================================================================================ *)
(* 4. The document boundary                                                                         *)
(* ================================================================================================ *)
(* the scanner of a text [B] after it has delivered StreamStart *)
Definition start_mark : marker := {| m_index := 0; m_line := 1; m_col := 0 |}.
Definition start_state (B : list chr) : bst :=
  {| sc_in := {| si_chars := B; si_look := 1 |}; sc_mark := start_mark; sc_tokens := [];
     sc_stream_start := true; sc_stream_end := false; sc_adjacent := 0; sc_ska := true;
     sc_sks := [{| sk_possible := false; sk_required := false; sk_token_number := 0; sk_mark := mk0 |}];
     sc_indent := (-1)%Z; sc_indents := []; sc_flow_level := 0; sc_tokens_parsed := 1;
     sc_token_available := false; sc_lws := true; sc_ifms := [] |}.
Definition ss_token : token := (span_empty start_mark, TStreamStart).
Lemma first_token B f :
  next_token sops (S (S f)) (init_sc {| si_chars := B; si_look := 0 |}) = Ok (Some ss_token, start_state B).
Proof. reflexivity. Qed.
Lemma start_state_config B : marker_config (start_state B) /\ sc_ska (start_state B) = true.
Proof. unfold marker_config. cbn. repeat split; auto. eexists; split; reflexivity. Qed.

(* the shift of a boundary state: its position *)
Definition bd (s : bst) : shift :=
  {| sh_i := m_index (sc_mark s); sh_l := m_line (sc_mark s) - 1; sh_k := sc_tokens_parsed s - 1 |}.

(* THE BOUNDARY RELATION.  [s]: any state in the marker configuration with simple keys allowed (what
   C15_marker_token_resets + C15_marker_then_newline / C15_stream_start_config establish), standing at the beginning
   of a line with nothing queued.  It is the state of the scanner of the remaining text alone after StreamStart,
   moved to the position of [s]. *)
Theorem SH_boundary (s : bst) :
  marker_config s -> sc_ska s = true ->
  m_col (sc_mark s) = 0%N -> (1 <= m_line (sc_mark s))%N -> sc_lws s = true ->
  sc_tokens s = [] -> sc_token_available s = false -> sc_stream_end s = false ->
  adj_ok s -> (1 <= sc_tokens_parsed s)%N -> Nat.eqb (lk s) 0 = false ->
  SH (bd s) (start_state (rm s)) s.
Proof.
  intros (C1 & C2 & C3 & C4 & C5 & k & C6 & C7) EK EC EL EW ET EA EE HA EP EB.
  constructor; cbn [start_state sc_in sc_mark sc_tokens sc_sks sc_adjacent sc_flow_level sc_tokens_parsed].
  - constructor; cbn [si_chars si_look]; [reflexivity|]. fold (lk s). rewrite EB. reflexivity.
  - unfold MS, bd, start_mark. cbn [m_index m_line m_col sh_i sh_l]. rewrite EC. lia.
  - rewrite ET. constructor.
  - rewrite C6. constructor; [|constructor]. apply KS_dead_any; [reflexivity|exact C7].
  - unfold ADJ. unfold adj_ok in HA. split; [lia|split; [exact HA|left; reflexivity]].
  - unfold bd. cbn [sh_k]. lia.
  - unfold skel. cbn [start_state sc_stream_start sc_stream_end sc_ska sc_indent sc_indents sc_flow_level
                      sc_token_available sc_lws sc_ifms].
    rewrite C1, C2, C3, C4, C5, EK, EW, EA, EE. reflexivity.
Qed.

(* ---- crossing the line break behind the marker ---- *)
Definition after_break (sm : bst) : bst := set_ska true (slb (bump 2 (bump 1 sm))).

Lemma break_not_blank c : is_break c = true -> (c =? 9)%N = false /\ (c =? 32)%N = false.
Proof.
  unfold is_break. intros H. apply orb_true_iff in H. destruct H as [H|H]; apply N.eqb_eq in H; subst c; split; reflexivity.
Qed.
Lemma slb_flow_level (s : bst) : sc_flow_level (slb s) = sc_flow_level s.
Proof. unfold slb. destruct (_ && _); [reflexivity|]. destruct (is_break _); reflexivity. Qed.
Lemma ltb_max2 n : Nat.ltb (Nat.max n 2) 2 = false.
Proof. apply Nat.ltb_ge. lia. Qed.
Lemma skip_to_next_token_break f (sm : bst) : is_break (rn sm 0) = true -> sc_flow_level sm = 0%N ->
  skip_to_next_token sops (S f) sm = skip_to_next_token sops f (after_break sm).
Proof.
  intros HB HF. destruct (break_not_blank _ HB) as [E9 E32].
  cbn [skip_to_next_token]. unfold bind at 1. rewrite look_ch_ok.
  unfold bind at 1, get at 1. unfold bind at 1, is_within_block at 1, gets at 1.
  rewrite E9, E32. cbn [andb orb]. unfold is_break in HB. rewrite HB.
  unfold bind at 1. rewrite look_ok. unfold bind at 1. rewrite skip_linebreak_eval.
  rewrite lk_bump, ltb_max2.
  unfold bind at 1, flow_level at 1, gets at 1. rewrite slb_flow_level.
  change (sc_flow_level (bump 2 (bump 1 sm))) with (sc_flow_level sm). rewrite HF. cbn [N.eqb].
  unfold bind at 1, allow_simple_key at 1, modify at 1. reflexivity.
Qed.

(* what [after_break] does to a state standing at a line break *)
Lemma after_break_shape (sm : bst) : is_break (rn sm 0) = true ->
  exists i m, after_break sm = set_ska true (set_lws true (set_mark m (set_in i sm)))
    /\ m_col m = 0%N /\ m_line m = (m_line (sc_mark sm) + 1)%N /\ (m_index (sc_mark sm) <= m_index m)%N
    /\ Nat.eqb (si_look i) 0 = false.
Proof.
  intros HB. unfold after_break, slb.
  change (rn (bump 2 (bump 1 sm)) 0) with (rn sm 0). rewrite HB.
  assert (EL : forall n, Nat.eqb (Nat.max n 2) 0 = false) by (intros n; apply Nat.eqb_neq; lia).
  destruct (_ && _).
  - eexists _, _. split; [reflexivity|]. cbn [nlm adv m_col m_line m_index bl1 drop1 set_mark set_in upd sc_mark sc_in bump lk si_look].
    split; [reflexivity|]. split; [reflexivity|]. split; [lia|apply EL].
  - eexists _, _. split; [reflexivity|]. cbn [nlm adv m_col m_line m_index bl1 drop1 set_mark set_in upd sc_mark sc_in bump lk si_look].
    split; [reflexivity|]. split; [reflexivity|]. split; [lia|apply EL].
Qed.

(* the state behind the break satisfies the hypotheses of [SH_boundary] *)
Lemma after_break_boundary (sm : bst) :
  marker_config sm -> is_break (rn sm 0) = true ->
  sc_tokens sm = [] -> sc_token_available sm = false -> sc_stream_end sm = false ->
  adj_ok sm -> (1 <= sc_tokens_parsed sm)%N ->
  SH (bd (after_break sm)) (start_state (rm (after_break sm))) (after_break sm).
Proof.
  intros HC HB ET EA EE HA EP. destruct (after_break_shape sm HB) as (i & m & -> & M1 & M2 & M3 & M4).
  apply SH_boundary; skel_cbn; try assumption; try reflexivity.
  - lia.
  - unfold adj_ok in *. skel_cbn. lia.
Qed.

Section Boundary.
Variable d : shift.
Local Notation bwp := (swp d).

(* ONE fetch step across the boundary: side 1 stands behind StreamStart, side 2 in front of the line break that
   ends the marker line *)
Theorem fetch_next_token_boundary F1 F2 (s1 sm : bst) :
  sc_stream_start s1 = true -> sc_stream_start sm = true ->
  is_break (rn sm 0) = true -> sc_flow_level sm = 0%N ->
  SH d (bump 1 s1) (after_break (bump 1 sm)) ->
  bwp (fetch_next_token sops F1) (fetch_next_token sops (S F2)) (bpost d eq) s1 sm.
Proof.
  intros E1 E2 HB HF H. apply fetch_next_token_shift_gen; [exact E1|exact E2|].
  eapply bwp_ext_r; [apply skip_to_next_token_break; [exact HB|exact HF]|].
  apply (skip_to_next_token_ok d). exact H.
Qed.

Theorem next_token_boundary F1 F2 (s1 sm : bst) :
  sc_stream_start s1 = true -> sc_stream_start sm = true ->
  is_break (rn sm 0) = true -> sc_flow_level sm = 0%N ->
  sc_tokens s1 = [] -> sc_tokens sm = [] -> sc_token_available s1 = false -> sc_token_available sm = false ->
  sc_stream_end s1 = false -> sc_stream_end sm = false ->
  SH d (bump 1 s1) (after_break (bump 1 sm)) ->
  bwp (next_token sops F1) (next_token sops (S F2)) (bpost d (OTS d)) s1 sm.
Proof.
  intros E1 E2 HB HF T1 T2 A1 A2 X1 X2 H. unfold next_token.
  apply bwp_bind. apply bwp_get. cbv beta. rewrite X1, X2, A1, A2.
  eapply (bwp_call_eq d).
  { destruct F1 as [|F1]; [exact I|]. cbn [fetch_more_tokens].
    apply bwp_bind. apply bwp_get. cbv beta. rewrite T1, T2.
    apply bwp_bind. apply bwp_ret. cbv beta iota.
    eapply (bwp_call_eq d); [apply fetch_next_token_boundary; assumption|]. intros [] v1 v2 HV.
    apply fetch_more_tokens_shift. exact HV. }
  intros [] u1 u2 HU.
  apply bwp_bind. apply bwp_get. cbv beta. sh_sync HU.
  pose proof (sh_tokens HU) as HT. destruct HT as [|a b l1 l2 HAB HL]; [apply (bwp_fail_mark d); exact HU|].
  apply bwp_bind. apply (bwp_put_br d).
  { apply SH_set_tp; [|lia]. apply SH_set_ta. apply SH_set_tokens; [exact HU|exact HL]. }
  { reflexivity. }
  intros v1 v2 HV _.
  rewrite <- (proj2 HAB).
  eapply (bwp_call_eq d).
  { destruct (snd a); try (apply bwp_ret; split; [reflexivity|assumption]).
    apply bwp_modify. split; [reflexivity|]. apply SH_set_se. exact HV. }
  intros [] w1 w2 HW. apply bwp_ret. split; [exact HAB|exact HW].
Qed.

Theorem scan_all_boundary F1 F2 n1 n2 (s1 sm : bst) acc :
  sc_stream_start s1 = true -> sc_stream_start sm = true ->
  is_break (rn sm 0) = true -> sc_flow_level sm = 0%N ->
  sc_tokens s1 = [] -> sc_tokens sm = [] -> sc_token_available s1 = false -> sc_token_available sm = false ->
  sc_stream_end s1 = false -> sc_stream_end sm = false ->
  SH d (bump 1 s1) (after_break (bump 1 sm)) ->
  let r1 := scan_all sops F1 n1 s1 acc in
  let r2 := scan_all sops (S F2) n2 sm (map (sht d) acc) in
  ES d (snd r1) (snd r2)
  /\ (proper_end (snd r1) -> proper_end (snd r2) -> fst r2 = map (sht d) (fst r1) /\ snd r2 = she d (snd r1)).
Proof.
  intros E1 E2 HB HF T1 T2 A1 A2 X1 X2 H r1 r2. subst r1 r2.
  destruct n1 as [|n1]; [cbn [scan_all snd fst]; split; [apply ES_fuel_l|intros []]|].
  destruct n2 as [|n2]; [cbn [scan_all snd fst]; split; [apply ES_fuel_r|intros _ []]|].
  pose proof (bwp_elim d _ _ _ _ _ (next_token_boundary F1 F2 s1 sm E1 E2 HB HF T1 T2 A1 A2 X1 X2 H)) as HN.
  cbn [scan_all].
  destruct (next_token sops F1 s1) as [[o1 t1]|e1 k1|p1|].
  - destruct (next_token sops (S F2) sm) as [[o2 t2]|e2 k2|p2|].
    + destruct HN as [HO HT]. destruct o1 as [a1|], o2 as [a2|]; cbn in HO; try contradiction.
      * rewrite (TS_eq d _ _ HO). apply (scan_all_shift d F1 (S F2) n1 n2 t1 t2 (a1 :: acc)). exact HT.
      * cbn [snd fst]. split; [exact I|]. intros _ _. split; [|reflexivity]. rewrite map_rev. reflexivity.
    + destruct HN.
    + destruct o1 as [a1|]; cbn [snd fst]; (split; [apply ES_panic_r|intros _ []]).
    + destruct o1 as [a1|]; cbn [snd fst]; (split; [apply ES_fuel_r|intros _ []]).
  - destruct (next_token sops (S F2) sm) as [[o2 t2]|e2 k2|p2|].
    + destruct HN.
    + cbn [snd fst]. split; [exact HN|]. intros _ _. destruct HN as [-> HM].
      split; [rewrite map_rev; reflexivity|]. cbn [she]. rewrite (MS_eq d _ _ HM). reflexivity.
    + cbn [snd fst]. split; [apply ES_panic_r|intros _ []].
    + cbn [snd fst]. split; [apply ES_fuel_r|intros _ []].
  - cbn [snd fst]. split; [apply ES_panic_l|intros []].
  - cbn [snd fst]. split; [apply ES_fuel_l|intros []].
Qed.
End Boundary.

(* ================================================================================================ *)
(* 5. TAIL INDEPENDENCE at a document boundary                                                      *)
(* ================================================================================================ *)
(* [sm]: ANY scanner state in the marker configuration (C15_marker_token_resets: the state after a step that queued
   a document marker at flow level 0 - whatever the earlier documents contained), with its queue delivered,
   standing at the line break that ends the marker line.  [B] = the text behind that break.  Then the scanner
   delivers from [sm] exactly the tokens it delivers on [B] alone, StreamStart removed, every position shifted by
   the position of the boundary; it ends the same way (same error site, shifted marker). *)
Definition boundary_text (sm : bst) : list chr := rm (after_break (bump 1 sm)).
Definition boundary_shift (sm : bst) : shift := bd (after_break (bump 1 sm)).

Theorem tail_independence (sm : bst) :
  marker_config sm -> is_break (rn sm 0) = true ->
  sc_tokens sm = [] -> sc_token_available sm = false -> sc_stream_end sm = false ->
  adj_ok sm -> (1 <= sc_tokens_parsed sm)%N ->
  forall f1 F2 n1 n2 acc,
  let d := boundary_shift sm in
  let r1 := scan_all sops (S (S f1)) (S n1) (init_sc {| si_chars := boundary_text sm; si_look := 0 |}) [] in
  let r2 := scan_all sops (S F2) n2 sm acc in
  ES d (snd r1) (snd r2)
  /\ (proper_end (snd r1) -> proper_end (snd r2) ->
      fst r2 = rev acc ++ map (sht d) (tl (fst r1)) /\ snd r2 = she d (snd r1)).
Proof.
  intros HC HB ET EA EE HA EP f1 F2 n1 n2 acc d r1 r2.
  assert (HBR : SH d (bump 1 (start_state (boundary_text sm))) (after_break (bump 1 sm))).
  { change (bump 1 (start_state (boundary_text sm))) with (start_state (boundary_text sm)).
    apply after_break_boundary; try assumption. }
  pose proof HC as (C1 & _ & _ & C4 & _).
  pose proof (scan_all_boundary d (S (S f1)) F2 n1 n2 (start_state (boundary_text sm)) sm []
                eq_refl C1 HB C4 eq_refl ET eq_refl EA eq_refl EE HBR) as HS.
  cbn zeta in HS. cbn [map] in HS.
  assert (R1 : r1 = (ss_token :: fst (scan_all sops (S (S f1)) n1 (start_state (boundary_text sm)) []),
                     snd (scan_all sops (S (S f1)) n1 (start_state (boundary_text sm)) []))).
  { subst r1. cbn [scan_all]. rewrite first_token. rewrite scan_all_acc. reflexivity. }
  assert (R2 : r2 = (rev acc ++ fst (scan_all sops (S F2) n2 sm []), snd (scan_all sops (S F2) n2 sm []))).
  { subst r2. apply scan_all_acc. }
  rewrite R1, R2. cbn [fst snd tl]. destruct HS as [HE HT]. split; [exact HE|].
  intros P1 P2. destruct (HT P1 P2) as [HT1 HT2]. rewrite HT1. split; [reflexivity|exact HT2].
Qed.

(* ================================================================================================ *)
(* 6. Text level: the scanner run inside [run_str]                                                  *)
(* ================================================================================================ *)
(* k tokens delivered by the Scanner iterator *)
Fixpoint deliver (F k : nat) (s : bst) : option (list token * bst) :=
  match k with
  | O => Some ([], s)
  | S k => match next_token sops F s with
           | Ok (Some t, s') => match deliver F k s' with Some (l, u) => Some (t :: l, u) | None => None end
           | _ => None
           end
  end.
Lemma scan_all_deliver F : forall k n (s : bst) acc pre sm, deliver F k s = Some (pre, sm) ->
  scan_all sops F (k + n) s acc = scan_all sops F n sm (rev pre ++ acc).
Proof.
  induction k as [|k IH]; intros n s acc pre sm; cbn [deliver].
  - intros H; inversion H; subst. reflexivity.
  - destruct (next_token sops F s) as [[[t|] s']| | |] eqn:E; try discriminate.
    destruct (deliver F k s') as [[l u]|] eqn:ED; try discriminate. intros H; inversion H; subst.
    cbn [Nat.add scan_all]. rewrite E. rewrite (IH n s' (t :: acc) l sm ED). cbn [rev]. rewrite <- app_assoc. reflexivity.
Qed.
Lemma deliver_reach F k : forall (s : bst) pre sm, reach sops F s -> deliver F k s = Some (pre, sm) -> reach sops F sm.
Proof.
  induction k as [|k IH]; intros s pre sm HR; cbn [deliver]; [intros H; inversion H; subst; exact HR|].
  destruct (next_token sops F s) as [[[t|] s']| | |] eqn:E; try discriminate.
  destruct (deliver F k s') as [[l u]|] eqn:ED; try discriminate. intros H; inversion H; subst.
  eapply IH; [|exact ED]. eapply reach_next; eauto.
Qed.

(* the scanner run inside [run_str y] (Pipe.v) *)
Definition str_F (y : list chr) : nat := 2 * length y + 10.
Definition str_scan (y : list chr) : list token * scan_end :=
  scan_all sops (str_F y) (4 * str_F y + 20) (init_sc {| si_chars := y; si_look := 0 |}) [].

(* TAIL INDEPENDENCE, text level: if the scanner of a text [X] has delivered [pre] and stands in a boundary state
   [sm] (marker configuration, queue delivered, at the line break behind the marker), then the tokens of [X] are
   [pre] followed by the tokens of the text behind the break scanned ALONE, StreamStart removed, shifted; the two
   scans end the same way. *)
Theorem tail_independence_text (X : list chr) k pre (sm : bst) :
  deliver (str_F X) k (init_sc {| si_chars := X; si_look := 0 |}) = Some (pre, sm) -> k <= 4 * str_F X + 20 ->
  marker_config sm -> is_break (rn sm 0) = true ->
  sc_tokens sm = [] -> sc_token_available sm = false -> sc_stream_end sm = false -> (1 <= sc_tokens_parsed sm)%N ->
  let d := boundary_shift sm in
  let rB := str_scan (boundary_text sm) in
  let rX := str_scan X in
  ES d (snd rB) (snd rX)
  /\ (proper_end (snd rB) -> proper_end (snd rX) ->
      fst rX = pre ++ map (sht d) (tl (fst rB)) /\ snd rX = she d (snd rB)).
Proof.
  intros HD Hk HC HB ET EA EE EP d rB rX.
  assert (HA : adj_ok sm).
  { apply (reach_adj_ok (str_F X)). eapply deliver_reach; [apply reach_init|exact HD]. }
  assert (EX : rX = scan_all sops (str_F X) (4 * str_F X + 20 - k) sm (rev pre)).
  { subst rX. unfold str_scan. replace (4 * str_F X + 20) with (k + (4 * str_F X + 20 - k)) at 1 by lia.
    rewrite (scan_all_deliver _ _ _ _ [] pre sm HD), app_nil_r. reflexivity. }
  rewrite EX. subst rB. unfold str_scan.
  assert (EF : exists f1, str_F (boundary_text sm) = S (S f1)) by (unfold str_F; exists (2 * length (boundary_text sm) + 8); lia).
  destruct EF as [f1 EF]. rewrite EF.
  assert (EN : exists n1, 4 * S (S f1) + 20 = S n1) by (exists (4 * S (S f1) + 19); lia).
  destruct EN as [n1 EN]. rewrite EN.
  assert (EF2 : exists F2, str_F X = S F2) by (unfold str_F; exists (2 * length X + 9); lia).
  destruct EF2 as [F2 EF2]. rewrite EF2.
  pose proof (tail_independence sm HC HB ET EA EE HA EP f1 F2 n1 (4 * S F2 + 20 - k) (rev pre)) as HT.
  cbn zeta in HT. rewrite rev_involutive in HT. exact HT.
Qed.

Print Assumptions fetch_next_token_shift.
Print Assumptions fetch_more_tokens_shift.
Print Assumptions next_token_shift.
Print Assumptions scan_all_shift.
Print Assumptions reach_adj_ok.
Print Assumptions SH_boundary.
Print Assumptions fetch_next_token_boundary.
Print Assumptions next_token_boundary.
Print Assumptions scan_all_boundary.
Print Assumptions tail_independence.
Print Assumptions tail_independence_text.
