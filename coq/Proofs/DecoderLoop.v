(* C18 — what decode_loop RETURNS, for every decoder that meets a per-call specification.

   [call_ok]: a call of the decoder in a state it can be in between calls ([bnd]) on the remaining input [rem]
   with [spare] free bytes consumes a run of characters of the one-shot specification ([good_prefix]: the first pieces of
   [rem], all of them characters), appends exactly these, fits them into the spare capacity, ends in such a
   state again, and stops for one of three reasons: the input is used up (InputEmpty); or there is input
   left (OutputFull), in which case at least one byte was consumed if the call was given K spare bytes; or the
   next piece is a malformed sequence, reported with its length and no look-ahead (Malformed (ml, 0)).

   [xloop_result]: for such a decoder, every trap, every callback and every input, the loop of encoding.rs
   with a growth step of at least K returns — within 2 * input.len() + 2 iterations, without any of the
   modelled panics — exactly [apply_trap] of the pieces of the input. *)
From Coq Require Import List NArith Bool Lia Arith.
Import ListNotations.
Require Import Consts Decode TagSpec EncodingSpec DecodeProofs.
Open Scope N_scope.
Arguments N.add : simpl never.
Arguments N.sub : simpl never.
Arguments N.mul : simpl never.
Arguments N.div : simpl never.
Arguments N.modulo : simpl never.
Arguments N.eqb : simpl never.
Arguments N.ltb : simpl never.
Arguments N.leb : simpl never.
Arguments N.max : simpl never.
Arguments N.to_nat : simpl never.
Arguments N.of_nat : simpl never.

Lemma nlen_nil : nlen (@nil N) = 0.
Proof. reflexivity. Qed.

Lemma nlen_zero : forall (l : list N), nlen l = 0 -> l = [].
Proof. intros [|a l] H; [reflexivity|]. unfold nlen in H. cbn [length] in H. lia. Qed.

Lemma nlen_pos : forall (l : list N), l <> [] -> 1 <= nlen l.
Proof. intros [|a l] H; [congruence|]. rewrite nlen_cons. lia. Qed.

Lemma skipn_plus : forall (l : list N) a b, skipn (a + b) l = skipn b (skipn a l).
Proof.
  intros l a. revert l. induction a as [|a IH]; intros l b; [reflexivity|].
  destruct l as [|x l]; cbn [plus skipn]; [destruct b; reflexivity|]. apply IH.
Qed.

Lemma skipn_N_add : forall (l : list N) a b,
    skipn (N.to_nat (a + b)) l = skipn (N.to_nat b) (skipn (N.to_nat a) l).
Proof.
  intros l a b. rewrite N2Nat.inj_add. apply skipn_plus.
Qed.

Lemma skipn_all_N : forall (l : list N) k, nlen l <= k -> skipn (N.to_nat k) l = [].
Proof. intros l k H. apply skipn_all2. unfold nlen in H. lia. Qed.

Lemma text_len_app : forall a b, text_len (a ++ b) = text_len a + text_len b.
Proof. induction a as [|c a IH]; intros b; cbn [app text_len]; [lia|]. rewrite IH. lia. Qed.

(* ================================================================================================ *)
(* Pieces                                                                                            *)
(* ================================================================================================ *)
Section PiecesFacts.
  Variable next : list N -> piece.
  Hypothesis next_size : forall bs, bs <> [] -> 1 <= psize (next bs) <= nlen bs.

  Lemma pieces_go_enough : forall fuel bs, (length bs <= fuel)%nat -> pieces_go next fuel bs = pieces next bs.
  Proof.
    intros fuel bs. remember (length bs) as m eqn:Em. revert fuel bs Em.
    induction m as [m IH] using lt_wf_ind. intros fuel bs Em Hf.
    unfold pieces. rewrite <- Em.
    destruct bs as [|b tl].
    - destruct fuel; destruct m; reflexivity.
    - cbn [length] in Em. destruct m as [|m']; [discriminate|]. destruct fuel as [|f]; [lia|].
      cbn [pieces_go]. f_equal.
      pose proof (next_size (b :: tl) ltac:(discriminate)) as [H1 H2].
      set (k := N.to_nat (psize (next (b :: tl)))) in *.
      assert (Hk : (1 <= k)%nat) by (unfold k; lia).
      assert (Hl : (length (skipn k (b :: tl)) < S m')%nat).
      { rewrite skipn_length. cbn [length]. lia. }
      rewrite (IH _ Hl f _ eq_refl) by lia.
      rewrite (IH _ Hl m' _ eq_refl) by lia. reflexivity.
  Qed.

  Lemma pieces_nil : pieces next [] = [].
  Proof. reflexivity. Qed.

  Lemma pieces_unfold : forall bs, bs <> [] ->
      pieces next bs = next bs :: pieces next (skipn (N.to_nat (psize (next bs))) bs).
  Proof.
    intros [|b tl] H; [congruence|]. unfold pieces at 1. cbn [length pieces_go]. f_equal.
    apply pieces_go_enough.
    pose proof (next_size (b :: tl) ltac:(discriminate)) as [H1 H2].
    rewrite skipn_length. cbn [length]. lia.
  Qed.

  (* a run of characters at the head of a byte string: the characters and the number of bytes *)
  Inductive good_prefix : list N -> list N -> N -> Prop :=
  | gp_nil : forall rem, good_prefix rem [] 0
  | gp_cons : forall rem c k cs rd,
      rem <> [] -> next rem = PChar c k -> good_prefix (skipn (N.to_nat k) rem) cs rd ->
      good_prefix rem (c :: cs) (k + rd).

  Lemma good_prefix_le : forall rem cs rd, good_prefix rem cs rd -> rd <= nlen rem.
  Proof.
    induction 1 as [rem|rem c k cs rd Hne Hn _ IH]; [lia|].
    pose proof (next_size rem Hne) as [H1 H2]. rewrite Hn in H1, H2. cbn [psize] in H1, H2.
    rewrite nlen_skipn in IH. lia.
  Qed.

  Lemma good_prefix_app : forall rem cs rd, good_prefix rem cs rd ->
      forall cs2 rd2, good_prefix (skipn (N.to_nat rd) rem) cs2 rd2 -> good_prefix rem (cs ++ cs2) (rd + rd2).
  Proof.
    induction 1 as [rem|rem c k cs rd Hne Hn Hg IH]; intros cs2 rd2 H2.
    - cbn [app]. replace (0 + rd2) with rd2 by lia. exact H2.
    - cbn [app]. replace (k + rd + rd2) with (k + (rd + rd2)) by lia.
      apply gp_cons; [assumption|assumption|]. apply IH. rewrite <- skipn_N_add. exact H2.
  Qed.

  Lemma apply_good_prefix : forall t input rem cs rd, good_prefix rem cs rd ->
      forall off text,
        apply_trap t input off (pieces next rem) text
        = apply_trap t input (off + rd) (pieces next (skipn (N.to_nat rd) rem)) (text ++ cs).
  Proof.
    intros t input. induction 1 as [rem|rem c k cs rd Hne Hn _ IH]; intros off text.
    - rewrite app_nil_r. replace (off + 0) with off by lia. reflexivity.
    - rewrite (pieces_unfold rem Hne). rewrite Hn. cbn [apply_trap psize].
      rewrite IH. rewrite <- skipn_N_add. rewrite <- app_assoc. cbn [app].
      replace (off + k + rd) with (off + (k + rd)) by lia. reflexivity.
  Qed.
End PiecesFacts.

(* ================================================================================================ *)
(* The loop                                                                                          *)
(* ================================================================================================ *)
Section LoopResult.
  Variable dstate : Type.
  Variable xstep : dstate -> list N -> N -> dstate * xresult * list N.
  Variable next : list N -> piece.
  (* [bnd d rem]: d is a state the decoder can be in between two calls when [rem] is the input still to come *)
  Variable bnd : dstate -> list N -> Prop.
  Variables K div min : N.
  Hypothesis next_size : forall bs, bs <> [] -> 1 <= psize (next bs) <= nlen bs.
  Hypothesis bad_small : forall bs ml, next bs = PBad ml -> ml <= 255.
  Hypothesis min_covers : K <= min.

  Definition call_ok (d : dstate) (rem : list N) (spare : N) : Prop :=
    let '(d', r, cs) := xstep d rem spare in
    text_len cs <= spare /\
    exists rd0, good_prefix next rem cs rd0 /\
      match r with
      | XInputEmpty => rd0 = nlen rem
      | XOutputFull rd =>
          rd = rd0 /\ rd0 < nlen rem /\ (K <= spare -> 0 < rd0) /\ bnd d' (skipn (N.to_nat rd) rem)
      | XMalformed ml af rd =>
          af = 0 /\ rd0 < nlen rem /\ next (skipn (N.to_nat rd0) rem) = PBad ml /\ rd = rd0 + ml /\
          bnd d' (skipn (N.to_nat rd) rem)
      end.

  Hypothesis call_spec : forall d rem spare, bnd d rem -> call_ok d rem spare.

  Variable t : strap.
  Variable g : N -> N -> list N -> list N * N -> N.
  Variable input : list N.
  Let n := nlen input.

  Definition xneed (c : xconfig dstate) : N :=
    2 * (n - x_total c) + (if x_cap c - text_len (x_text c) <? K then 2 else 1).

  Lemma xloop_go_result : forall fuel c,
      bnd (x_dec c) (skipn (N.to_nat (x_total c)) input) -> x_total c <= n -> xneed c <= N.of_nat fuel ->
      result_of input (xloop_go dstate xstep div min fuel (xtrap_of t g) input c)
      = apply_trap t input (x_total c) (pieces next (skipn (N.to_nat (x_total c)) input)) (x_text c).
  Proof.
    induction fuel as [|f IH]; intros [total d text cap] Hd Ht Hneed;
      cbn [x_dec x_total x_text x_cap] in *.
    - exfalso. unfold xneed in Hneed. cbn [x_total x_text x_cap] in Hneed.
      destruct (cap - text_len text <? K); lia.
    - cbn [xloop_go]. unfold xloop_step. cbn [x_dec x_total x_text x_cap]. fold n.
      destruct (N.ltb_spec n total) as [Hlt|_]; [lia|].
      set (rem := skipn (N.to_nat total) input).
      set (spare := cap - text_len text).
      pose proof (call_spec d rem spare Hd) as Hc. unfold call_ok in Hc.
      destruct (xstep d rem spare) as [[d' r] cs].
      destruct Hc as (Hw & rd0 & Hgp & Hr).
      destruct (N.ltb_spec spare (text_len cs)) as [Hbad|_]; [lia|].
      assert (Hrem : nlen rem = n - total) by (unfold rem; apply nlen_skipn).
      pose proof (good_prefix_le next next_size _ _ _ Hgp) as Hrd0.
      rewrite (apply_good_prefix next next_size t input rem cs rd0 Hgp total text).
      destruct r as [|rd|ml af rd].
      + (* InputEmpty *)
        subst rd0. rewrite skipn_all_N by lia. cbn [result_of apply_trap pieces pieces_go length]. reflexivity.
      + (* OutputFull *)
        destruct Hr as (-> & Hlt & Hprog & Hb).
        rewrite IH; cbn [x_dec x_total x_text x_cap].
        * unfold rem. rewrite <- skipn_N_add. reflexivity.
        * rewrite skipn_N_add. exact Hb.
        * lia.
        * unfold xneed in *. cbn [x_total x_text x_cap] in *. fold spare in Hneed.
          rewrite text_len_app.
          pose proof (reserve_spare (text_len text + text_len cs) cap (growth_step div min n)) as Hsp.
          assert (Hg : K <= growth_step div min n)
            by (unfold growth_step; pose proof (N.le_max_r (n / div) min); lia).
          destruct (N.ltb_spec (reserve (text_len text + text_len cs) cap (growth_step div min n)
                                - (text_len text + text_len cs)) K); [lia|].
          destruct (N.ltb_spec spare K); [lia|].
          specialize (Hprog ltac:(assumption)). lia.
      + (* Malformed *)
        destruct Hr as (-> & Hlt & Hn & -> & Hb).
        set (rem2 := skipn (N.to_nat rd0) rem) in *.
        assert (Hne2 : rem2 <> []).
        { intros E. assert (nlen rem2 = 0) by (rewrite E; reflexivity).
          unfold rem2 in *. rewrite nlen_skipn in *. lia. }
        pose proof (next_size rem2 Hne2) as [Hml1 Hml2]. rewrite Hn in Hml1, Hml2. cbn [psize] in Hml1, Hml2.
        assert (Hrem2 : nlen rem2 = n - total - rd0) by (unfold rem2; rewrite nlen_skipn; lia).
        pose proof (bad_small _ _ Hn) as Hml255.
        rewrite (pieces_unfold next next_size rem2 Hne2). rewrite Hn. cbn [psize].
        assert (Hskip : skipn (N.to_nat ml) rem2 = skipn (N.to_nat (total + (rd0 + ml))) input).
        { unfold rem2, rem. rewrite <- !skipn_N_add. f_equal; lia. }
        assert (Hidx : forall u8, malformed_index u8 n (total + (rd0 + ml)) ml 0 = inr (total + rd0)).
        { intros u8. unfold malformed_index.
          replace (u8 && (255 <? ml + 0)) with false
            by (destruct u8; cbn [andb]; [symmetry; apply N.ltb_ge; lia|reflexivity]).
          destruct (N.ltb_spec (total + (rd0 + ml)) (ml + 0)); [lia|].
          replace (total + (rd0 + ml) - (ml + 0)) with (total + rd0) by lia.
          destruct (N.ltb_spec n (total + rd0 + ml)); [lia|]. reflexivity. }
        assert (Hb' : bnd d' (skipn (N.to_nat (total + (rd0 + ml))) input)).
        { rewrite skipn_N_add. exact Hb. }
        assert (Hneed' : forall t2 c2,
                   xneed (XConfig (total + (rd0 + ml)) d' t2 c2) <= N.of_nat f).
        { intros t2 c2. unfold xneed in *. cbn [x_total x_text x_cap] in *.
          destruct (c2 - text_len t2 <? K); destruct (cap - text_len text <? K); lia. }
        destruct t as [| | |cb]; cbn [xtrap_of apply_trap].
        * rewrite IH; cbn [x_dec x_total x_text x_cap]; [|exact Hb'|lia|apply Hneed'].
          rewrite Hskip. f_equal. lia.
        * rewrite Hidx. cbn [result_of]. reflexivity.
        * rewrite IH; cbn [x_dec x_total x_text x_cap]; [|exact Hb'|lia|apply Hneed'].
          rewrite Hskip. f_equal. lia.
        * rewrite Hidx. unfold xcb_of. cbn [fst].
          destruct (cb ml 0 (skipn (N.to_nat (total + rd0)) input) (text ++ cs)) as [t2|[|]].
          -- rewrite IH; cbn [x_dec x_total x_text x_cap]; [|exact Hb'|lia|apply Hneed'].
             rewrite Hskip. f_equal. lia.
          -- cbn [result_of]. reflexivity.
          -- cbn [result_of]. reflexivity.
  Qed.

  Lemma xloop_result : forall d0 fuel, bnd d0 input -> (decode_fuel input <= fuel)%nat ->
      result_of input (xdecode_loop dstate xstep div min fuel d0 (xtrap_of t g) input)
      = apply_trap t input 0 (pieces next input) [].
  Proof.
    intros d0 fuel Hb Hf. unfold xdecode_loop, xinitial_config.
    rewrite xloop_go_result; cbn [x_dec x_total x_text x_cap].
    - reflexivity.
    - exact Hb.
    - lia.
    - unfold xneed. cbn [x_total x_text x_cap]. unfold decode_fuel in Hf. fold n in Hf.
      destruct (reserve 0 0 (nlen input) - text_len [] <? K); lia.
  Qed.
End LoopResult.
