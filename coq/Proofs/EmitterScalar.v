(* C09 — scalars as the emitter writes them: lengths, line breaks, and which mapping keys take the implicit form
   `key: value` (Model/Emitter.v: complex_key, is_long_key).  The positive statement that replaces the former
   refutation "implicit key of 1025 characters": every key written in the implicit form is one line of at most
   SIMPLE_KEY_MAX characters (the scanner's limit, Gen/Consts.v, re-translated from scanner.rs on every run). *)
From Coq Require Import List NArith ZArith Bool Arith Lia.
Import ListNotations.
Require Import Parser Resolver CoreSchema ResolverProofs QuotedLine Consts Emitter EmitterProofs EmitterBlock.
Open Scope N_scope.
Arguments N.eqb : simpl never.
Arguments N.leb : simpl never.
Arguments N.ltb : simpl never.
Arguments N.mul : simpl never.
Arguments N.div : simpl never.
Arguments N.sub : simpl never.

(* ---- what the source must say (Gen/EmitterTables.v; a change of emitter.rs that drops one of these breaks here) ---- *)
Lemma tbl_key_explicit_literal : key_explicit_literal = true.  Proof. reflexivity. Qed.
Lemma tbl_key_explicit_long : key_explicit_long = true.        Proof. reflexivity. Qed.
(* the emitter's limit is not above the scanner's *)
Lemma tbl_key_max_scanner : emit_key_max <= SIMPLE_KEY_MAX.    Proof. vm_compute. discriminate. Qed.
(* the shortcut of is_long_key: `string.len() <= (MAX - 2) / 6` is sound when no escape is longer than 6 characters
   and the quotes are 2 *)
Lemma tbl_esc_len : forallb (fun e => N.of_nat (length (snd e)) <=? emit_key_esc_max) emit_escape_table = true.
Proof. vm_compute. reflexivity. Qed.
Lemma tbl_esc_max_pos : 1 <= emit_key_esc_max.                 Proof. vm_compute. discriminate. Qed.
Lemma tbl_key_quotes : emit_key_quotes = 2 /\ emit_key_quotes <= emit_key_max.
Proof. split; [reflexivity|vm_compute; discriminate]. Qed.
(* no escape sequence contains a line feed *)
Lemma tbl_esc_no_lf : forallb (fun e => negb (existsb (N.eqb 10) (snd e))) emit_escape_table = true.
Proof. vm_compute. reflexivity. Qed.

(* ---------------- lengths ---------------- *)
Lemma escape_char_len c : N.of_nat (length (escape_char c)) <= emit_key_esc_max.
Proof.
  unfold escape_char. destruct (esc_lookup c emit_escape_table) as [e|] eqn:E.
  - apply esc_lookup_in in E. pose proof (forallb_In _ _ _ tbl_esc_len E) as H. cbv beta in H. cbn [snd] in H.
    apply N.leb_le. exact H.
  - exact tbl_esc_max_pos.
Qed.

Lemma escape_body_len (s : list N) : N.of_nat (length (escape_body s)) <= emit_key_esc_max * N.of_nat (length s).
Proof.
  unfold escape_body. induction s as [|c r IH]; [cbn; lia|].
  cbn [flat_map length]. rewrite app_length. pose proof (escape_char_len c). lia.
Qed.

Lemma escape_str_len (s : list N) : length (escape_str s) = S (S (length (escape_body s))).
Proof. unfold escape_str. cbn [length]. rewrite app_length. cbn [length]. lia. Qed.

Lemma utf8_len_ge (s : list N) : N.of_nat (length s) <= utf8_len s.
Proof.
  unfold utf8_len. induction s as [|c r IH]; [cbn; lia|]. cbn [fold_right length].
  assert (1 <= utf8_len_ch c).
  { unfold utf8_len_ch. destruct (c <? 128); [lia|]. destruct (c <? 2048); [lia|]. destruct (c <? 65536); lia. }
  lia.
Qed.

(* a string for which is_long_key answers no is emitted (quoted or plain) in at most emit_key_max characters *)
Lemma short_key_len (s : list N) : is_long_key s = false ->
  str_len (if need_quotes s then escape_str s else s) <= emit_key_max.
Proof.
  unfold is_long_key, str_len. destruct (N.leb_spec (utf8_len s) ((emit_key_max - emit_key_quotes) / emit_key_esc_max)) as [Hs|_].
  - intros _. pose proof (utf8_len_ge s) as H1. pose proof (escape_body_len s) as H2.
    pose proof tbl_esc_max_pos as H3. destruct tbl_key_quotes as [Q1 Q2].
    assert (H4 : emit_key_esc_max * ((emit_key_max - emit_key_quotes) / emit_key_esc_max) <= emit_key_max - emit_key_quotes)
      by (apply N.mul_div_le; lia).
    assert (H5 : emit_key_esc_max * N.of_nat (length s) <= emit_key_max - emit_key_quotes).
    { eapply N.le_trans; [|exact H4]. apply N.mul_le_mono_l. lia. }
    destruct (need_quotes s).
    + rewrite escape_str_len, !Nat2N.inj_succ.
      assert (X : N.of_nat (length (escape_body s)) <= emit_key_max - emit_key_quotes) by (eapply N.le_trans; eassumption).
      rewrite Q1 in X, Q2. revert Q2 X. generalize (N.of_nat (length (escape_body s))). generalize emit_key_max. intros; lia.
    + assert (N.of_nat (length s) <= emit_key_esc_max * N.of_nat (length s)).
      { rewrite <- (N.mul_1_l (N.of_nat (length s))) at 1. apply N.mul_le_mono_r. exact H3. }
      eapply N.le_trans; [eassumption|]. eapply N.le_trans; [exact H5|]. apply N.le_sub_l.
  - destruct (need_quotes s); intros H; apply N.ltb_ge in H; exact H.
Qed.

(* ---------------- line feeds ---------------- *)
Lemma escape_char_no_lf c : ~ In 10 (escape_char c).
Proof.
  unfold escape_char. destruct (esc_lookup c emit_escape_table) as [e|] eqn:E.
  - apply esc_lookup_in in E. pose proof (forallb_In _ _ _ tbl_esc_no_lf E) as H. cbv beta in H. cbn [snd] in H.
    apply negb_true_iff in H. intros X. assert (Y : existsb (N.eqb 10) e = true).
    { apply existsb_exists. exists 10. split; [exact X|reflexivity]. }
    congruence.
  - destruct (unescaped_is_safe c E) as (_ & _ & _ & B). intros [X|[]]. subst c. discriminate B.
Qed.

Lemma escape_str_no_lf (s : list N) : ~ In 10 (escape_str s).
Proof.
  unfold escape_str, escape_body. intros [X|X]; [discriminate|]. apply in_app_or in X. destruct X as [X|[X|[]]]; [|discriminate].
  apply in_flat_map in X. destruct X as (c & _ & X). exact (escape_char_no_lf c X).
Qed.

Lemma plain_no_lf (s : list N) : need_quotes s = false -> ~ In 10 s.
Proof.
  intros H X. destruct (plain_shape s H) as (_ & _ & _ & _ & A). destruct (A 10 X) as [_ B]. apply B. cbn. tauto.
Qed.

(* ---------------- integers ---------------- *)
Lemma dec_rev_len fuel : forall n, (length (dec_rev fuel n) <= fuel)%nat.
Proof.
  induction fuel as [|f IH]; intros n; [cbn; lia|]. cbn [dec_rev length]. destruct (n <? 10); [cbn; lia|].
  specialize (IH (n / 10)). lia.
Qed.

Lemma size_i64 p : (Z.pos p <= 2 ^ 63)%Z -> (N.to_nat (N.size (Npos p)) <= 64)%nat.
Proof.
  intros H. pose proof (N.size_le (Npos p)) as S1. unfold N.succ_double in S1.
  assert (S2 : 2 ^ N.size (N.pos p) < 2 ^ 65).
  { eapply N.le_lt_trans; [exact S1|]. change (N.pos p~1) with (2 * N.pos p + 1).
    assert (N.pos p <= 2 ^ 63) by (apply N2Z.inj_le; rewrite N2Z.inj_pow; exact H).
    change (2 ^ 65) with (2 * (2 * 2 ^ 63)). lia. }
  apply N.pow_lt_mono_r_iff in S2; lia.
Qed.

Lemma dec_N_len p : (Z.pos p <= 2 ^ 63)%Z -> (length (dec_N (Npos p)) <= 65)%nat.
Proof.
  intros H. unfold dec_N. rewrite rev_length. pose proof (dec_rev_len (S (N.to_nat (N.size (N.pos p)))) (N.pos p)).
  pose proof (size_i64 p H). lia.
Qed.

Lemma dec_N_chars n c : In c (dec_N n) -> is_dig c = true.
Proof. intros H. pose proof (dec_N_digits n) as D. unfold all_in in D. exact (forallb_In _ _ _ D H). Qed.

(* the text of an integer: an optional '-', then digits; at most 66 characters for a 64-bit integer *)
Lemma dec_Z_shape z : in_i64_b z = true ->
  exists neg digs, dec_Z z = (if neg : bool then [45] else []) ++ digs /\ digs <> []
                   /\ (forall c, In c digs -> is_dig c = true) /\ (length digs <= 65)%nat.
Proof.
  intros H. unfold in_i64_b, i64_min, i64_max in H. apply andb_true_iff in H as [H1 H2]. apply Z.leb_le in H1, H2.
  destruct z as [|p|p].
  - exists false, [48]. repeat split; [discriminate| |cbn; lia]. intros c [<-|[]]. reflexivity.
  - exists false, (dec_N (Npos p)). cbn [dec_Z app]. repeat split.
    + pose proof (dec_N_nonempty (Npos p)) as X. intros E. rewrite E in X. discriminate X.
    + apply dec_N_chars.
    + apply dec_N_len. lia.
  - exists true, (dec_N (Npos p)). cbn [dec_Z app]. repeat split.
    + pose proof (dec_N_nonempty (Npos p)) as X. intros E. rewrite E in X. discriminate X.
    + apply dec_N_chars.
    + apply dec_N_len. lia.
Qed.

(* ---------------- floats (text taken from Rust's formatting: wf_node) ---------------- *)
Lemma float_text_facts (t : list N) : float_text_ok t = true ->
  t <> [] /\ (length t <= 32)%nat /\ forall c, In c t -> is_dec_digit c = true \/ In c [46; 101; 69; 43; 45; 110; 97; 105; 102].
Proof.
  unfold float_text_ok. intros H. apply orb_true_iff in H as [H|H].
  - unfold inl, float_words in H. cbn [existsb] in H.
    repeat (apply orb_true_iff in H as [H|H]); try discriminate H; apply str_eqb_eq in H; subst t;
      (split; [discriminate|]; split; [cbn; lia|]); intros c Hc; right; cbn in Hc |- *; tauto.
  - apply andb_true_iff in H as [H L]. apply andb_true_iff in H as [Hd F]. split; [destruct t; [discriminate|discriminate]|].
    split; [apply N.leb_le in L; unfold float_text_max in L; nn; lia|].
    intros c Hc. pose proof (forallb_In _ _ _ F Hc) as X. unfold float_text_char in X.
    apply orb_true_iff in X as [X|X]; [left; exact X|right].
    apply existsb_exists in X. destruct X as (k & Hk & E). apply N.eqb_eq in E. subst k. cbn in Hk |- *. tauto.
Qed.

(* ---------------- the implicit key ---------------- *)
Lemma tbl_scanner_key_room : 66 <= SIMPLE_KEY_MAX.   Proof. vm_compute. discriminate. Qed.

Lemma complex_key_false m level k : complex_key m level k = false ->
  is_collection k = false /\ forall s, k = NStr s -> is_literal_block m level s = false /\ is_long_key s = false.
Proof.
  destruct k; cbn [complex_key is_collection]; try discriminate; intros H; (split; [reflexivity|]); intros s0 E; try discriminate E.
  inversion E; subst. rewrite tbl_key_explicit_literal, tbl_key_explicit_long in H. cbn [andb] in H.
  apply orb_false_iff in H. exact H.
Qed.

(* G1, positive: a key that is written in the implicit form is one line of at most SIMPLE_KEY_MAX characters *)
Theorem implicit_key_fits c m level k : wf_node k = true -> complex_key m level k = false ->
  str_len (emit c m None level k) <= SIMPLE_KEY_MAX /\ ~ In 10 (emit c m None level k).
Proof.
  intros Hwf Hck. destruct (complex_key_false _ _ _ Hck) as [_ Hstr]. pose proof tbl_scanner_key_room as Room.
  destruct k as [|b|z|t|s|l|l]; try discriminate Hck; cbn [emit scalar_prefix app].
  - split; [unfold str_len; cbn [length]; lia|]. intros [X|[]]. discriminate X.
  - destruct b; (split; [unfold str_len, w_true, w_false; cbn [length]; lia|]); cbn; intuition discriminate.
  - cbn [wf_node] in Hwf. destruct (dec_Z_shape z Hwf) as (neg & digs & -> & _ & Hd & Hlen). split.
    + unfold str_len. rewrite app_length. destruct neg; cbn [length]; lia.
    + intros X. apply in_app_or in X. destruct X as [X|X].
      * destruct neg; [destruct X as [X|[]]; discriminate X|destruct X].
      * apply Hd in X. discriminate X.
  - cbn [wf_node] in Hwf. apply andb_true_iff in Hwf as [_ Hf]. destruct (float_text_facts t Hf) as (_ & Hlen & Hch). split.
    + unfold str_len. nn. lia.
    + intros X. destruct (Hch 10 X) as [Y|Y]; [discriminate Y|]. cbn in Y. intuition discriminate.
  - destruct (Hstr s eq_refl) as [Hlit Hlong]. unfold emit_string. rewrite Hlit.
    pose proof (short_key_len s Hlong) as Hlen. pose proof tbl_key_max_scanner as Hmax. split.
    + destruct (need_quotes s); lia.
    + destruct (need_quotes s) eqn:Q; [apply escape_str_no_lf|apply plain_no_lf; exact Q].
Qed.

(* ---------------- induction over trees ---------------- *)
Section NodeInd.
Variable P : node -> Prop.
Hypothesis Hnull : P NNull.
Hypothesis Hbool : forall b, P (NBool b).
Hypothesis Hint : forall z, P (NInt z).
Hypothesis Hfloat : forall t, P (NFloat t).
Hypothesis Hstr : forall s, P (NStr s).
Hypothesis Hseq : forall l, Forall P l -> P (NSeq l).
Hypothesis Hmap : forall l, Forall (fun kv => P (fst kv) /\ P (snd kv)) l -> P (NMap l).
Fixpoint node_ind' (n : node) : P n :=
  match n with
  | NNull => Hnull
  | NBool b => Hbool b
  | NInt z => Hint z
  | NFloat t => Hfloat t
  | NStr s => Hstr s
  | NSeq l => Hseq l ((fix go (l : list node) : Forall P l :=
                         match l with [] => Forall_nil _ | x :: r => Forall_cons x (node_ind' x) (go r) end) l)
  | NMap l => Hmap l ((fix go (l : list (node * node)) : Forall (fun kv => P (fst kv) /\ P (snd kv)) l :=
                         match l with
                         | [] => Forall_nil _
                         | kv :: r => Forall_cons kv (conj (node_ind' (fst kv)) (node_ind' (snd kv))) (go r)
                         end) l)
  end.
End NodeInd.

(* G1 at tree level: in every well-formed tree, under either multiline setting, every key that the emitter writes in
   the implicit form has at most SIMPLE_KEY_MAX characters *)
Theorem implicit_keys_fit m doc : wf_node doc = true -> max_key_len m doc <= SIMPLE_KEY_MAX.
Proof.
  induction doc as [| | | | |l IH|l IH] using node_ind'; intros Hwf; try (cbn [max_key_len]; lia).
  - cbn [max_key_len]. cbn [wf_node] in Hwf. induction l as [|x r IHr]; [lia|].
    cbn [forallb] in Hwf. apply andb_true_iff in Hwf as [Hx Hr]. inversion IH as [|? ? Px Pr]; subst.
    apply N.max_lub; [apply Px; exact Hx|apply IHr; assumption].
  - cbn [max_key_len]. cbn [wf_node] in Hwf. apply andb_true_iff in Hwf as [Hwf _].
    induction l as [|[k x] r IHr]; [lia|].
    cbn [forallb fst snd] in Hwf. apply andb_true_iff in Hwf as [Hkx Hr]. apply andb_true_iff in Hkx as [Hk Hx].
    inversion IH as [|? ? [Pk Px] Pr]; subst. cbn [fst snd] in Pk, Px.
    apply N.max_lub; [|apply N.max_lub; [apply Px; exact Hx|apply IHr; assumption]].
    destruct (complex_key m 0 k) eqn:Ck; [apply Pk; exact Hk|].
    exact (proj1 (implicit_key_fits true m 0 k Hk Ck)).
Qed.

(* the key forms do not depend on the level, as long as it is that of a mapping's entries (not negative) *)
Lemma is_literal_block_level m l1 l2 v : (0 <= l1)%Z -> (0 <= l2)%Z -> is_literal_block m l1 v = is_literal_block m l2 v.
Proof.
  intros H1 H2. unfold is_literal_block.
  destruct (Z.ltb_spec l1 0); [lia|]. destruct (Z.ltb_spec l2 0); [lia|]. reflexivity.
Qed.
Lemma complex_key_level m l1 l2 k : (0 <= l1)%Z -> (0 <= l2)%Z -> complex_key m l1 k = complex_key m l2 k.
Proof. intros H1 H2. destruct k; try reflexivity. cbn [complex_key]. rewrite (is_literal_block_level m l1 l2); auto. Qed.
