(* Joint proof "the scanner never panics on a buffered input of any capacity >= 8": the QUOTED (flow) SCALAR family.
   scan_flow_scalar and its helpers (read_hex, resolve_escape, consume_nonws, flow_blanks, the main loop) never
   violate the lookahead contract of the buffered input, and only consume input / move the mark. *)
From Coq Require Import List NArith ZArith Bool Arith Lia.
Import ListNotations.
Require Import Parser SBase SPrim SDir SScalar SFetch SBuf ScanWP.
Local Open Scope nat_scope.
Arguments Nat.ltb : simpl never.
Arguments Nat.leb : simpl never.
Arguments Nat.eqb : simpl never.
Arguments Nat.sub : simpl never.

(* the main loop of scan_flow_scalar (a local [fix] in the model), restated as a top-level Fixpoint; the equation
   [scan_flow_scalar_unfold] below is proved by reflexivity, so this is the model's loop verbatim *)
Section Loop.
Context {I : Type} (ops : InputOps I).
Local Open Scope N_scope.
Local Open Scope mon_scope.
Section Go.
Variables (F : nat) (single : bool) (start : marker).
Fixpoint flow_go (f : nat) (acc : list chr) (lb : bool) (tb : N)
  (ws : list chr) : @M I (list chr) :=
  match f with
  | O => oof
  | S f =>
    look ops 4 ;;;
    s <- get ;;
    di <- (if m_col (sc_mark s) =? 0 then next_is_document_indicator ops else ret false) ;;
    if di then fail 70 start else
    z <- next_is ops is_z ;;
    if z then fail 71 start else
    lt <- col_lt_indent ;;
    if lt then fail 72 start else
    r <- consume_nonws ops F single acc start ;;
    let '(acc, lbl) := r in
    c <- look_ch ops ;;
    if (single && (c =? 39)) || (negb single && (c =? 34)) then ret acc
    else
      r <- flow_blanks ops F lbl lb tb ws ;;
      let '(lbl, lb, tb, ws) := r in
      if lbl then
        if negb lb then flow_go f (nls tb acc) false 0 ws
        else if tb =? 0 then flow_go f (32 :: acc) false 0 ws
        else flow_go f (nls tb acc) false 0 ws
      else flow_go f (ws ++ acc) lb tb []
  end.
End Go.

Lemma scan_flow_scalar_unfold F single :
  scan_flow_scalar ops F single =
  (start <- mark ;;
   skip_non_blank ops ;;;
   str <- flow_go F single start F [] false 0 [] ;;
   skip_non_blank ops ;;;
   skip_ws_to_eol ops F SkipYes ;;;
   c <- peek ops ;; s <- get ;;
   let fl := 0 <? sc_flow_level s in
   if (((c =? 44) || (c =? 125) || (c =? 93)) && fl) || is_breakz c
      || ((c =? 58) && negb fl && (m_line start =? m_line (sc_mark s))) || ((c =? 58) && fl)
   then ret ({| sp_start := start; sp_end := sc_mark s |},
             TScalar (if single then SingleQuoted else DoubleQuoted) (rev str))
   else fail 74 (sc_mark s)).
Proof. reflexivity. Qed.
End Loop.

Section Flow.
Variable cap : nat.
Hypothesis cap_ge : 8 <= cap.
Hypothesis H_ws : spec_skip_ws_to_eol cap.
Notation bo := (bops cap).
Notation st := (sc bufin).

Ltac case_if := match goal with |- wp (if ?b then _ else _) _ _ => destruct b end.

(* ---------------- escapes ---------------- *)
(* the generated table, stated concretely (fails to compile if the generator ever emits a longer escape) *)
Lemma code_length_table_val : code_length_table = [(120%N, 2); (117%N, 4); (85%N, 8)].
Proof. reflexivity. Qed.

Lemma code_length_le8 e : code_length e <= 8.
Proof.
  unfold code_length. rewrite code_length_table_val. cbn [assocn].
  destruct (120 =? e)%N; [lia|]. destruct (117 =? e)%N; [lia|]. destruct (85 =? e)%N; lia.
Qed.

(* read_hex n i peeks at offsets i .. i+n-1 and does not touch the state *)
Lemma wp_read_hex n : forall i acc start (Q : N -> st -> Prop) s,
  i + n <= bl s -> (forall v, Q v s) -> wp (read_hex bo n i acc start) Q s.
Proof.
  induction n as [|n IH]; intros i acc start Q s Hb HQ; cbn [read_hex].
  - apply wp_ret, HQ.
  - apply wp_bind. apply (wp_peekn cap cap_ge); [lia|]. intros c.
    case_if; [apply IH; [lia|exact HQ] | apply wp_fail].
Qed.

Lemma wp_resolve_escape start (Q : chr -> st -> Prop) s :
  2 <= bl s -> (forall r s', keeps s s' -> Q r s') -> wp (resolve_escape bo start) Q s.
Proof.
  intros Hb HQ. unfold resolve_escape. apply wp_bind. apply (wp_peekn cap cap_ge); [lia|]. intros e.
  destruct (assocc e escape_table) as [r|].
  - apply wp_bind. apply (wp_skip_n_non_blank cap cap_ge); [lia|]. intros s1 K1 B1. apply wp_ret. apply HQ, K1.
  - cbv zeta. pose proof (code_length_le8 e) as Hn. case_if; [apply wp_fail|].
    apply wp_bind. apply (wp_skip_n_non_blank cap cap_ge); [lia|]. intros s1 K1 B1.
    apply wp_bind. apply (wp_look cap cap_ge); [lia|]. intros s2 I2 B2 B2' _.
    apply wp_bind. apply wp_read_hex; [lia|]. intros v.
    case_if; [|apply wp_fail].
    apply wp_bind. apply (wp_skip_n_non_blank cap cap_ge); [lia|]. intros s3 K3 B3. apply wp_ret. apply HQ.
    eapply keeps_trans; [exact K1|]. eapply keeps_trans; [apply keeps_input; exact I2|exact K3].
Qed.

(* ---------------- consume_flow_scalar_non_whitespace_chars ---------------- *)
Lemma wp_consume_nonws fuel : forall single acc start (Q : list chr * bool -> st -> Prop) s,
  (forall r s', keeps s s' -> Q r s') -> wp (consume_nonws bo fuel single acc start) Q s.
Proof.
  induction fuel as [|fuel IH]; intros single acc start Q s HQ; cbn [consume_nonws]; [apply wp_oof|].
  apply wp_bind. apply (wp_look cap cap_ge); [lia|]. intros s1 I1 B1 _ _.
  pose proof (keeps_input _ _ I1) as K1.
  apply wp_bind. apply (wp_peek cap cap_ge); [lia|]. intros c.
  case_if; [apply wp_ret, HQ, K1|].
  apply wp_bind. apply (wp_peekn cap cap_ge); [lia|]. intros nc.
  case_if.
  { apply wp_bind. apply (wp_skip_n_non_blank cap cap_ge); [lia|]. intros s2 K2 B2.
    apply IH. intros r s' K. apply HQ. eapply keeps_trans; [exact K1|]. eapply keeps_trans; eauto. }
  case_if; [apply wp_ret, HQ, K1|].
  case_if; [apply wp_ret, HQ, K1|].
  case_if.
  { apply wp_bind. apply (wp_look cap cap_ge); [lia|]. intros s2 I2 B2 _ _.
    apply wp_bind. apply (wp_skip_non_blank cap cap_ge). intros s3 K3 B3.
    apply wp_bind. apply (wp_skip_linebreak cap cap_ge); [lia|]. intros s4 K4 B4.
    apply wp_ret. apply HQ. eapply keeps_trans; [exact K1|]. eapply keeps_trans; [apply keeps_input; exact I2|].
    eapply keeps_trans; eauto. }
  case_if.
  { apply wp_bind. apply wp_resolve_escape; [lia|]. intros r s2 K2.
    apply IH. intros r' s' K. apply HQ. eapply keeps_trans; [exact K1|]. eapply keeps_trans; eauto. }
  apply wp_bind. apply (wp_skip_non_blank cap cap_ge). intros s2 K2 B2.
  apply IH. intros r s' K. apply HQ. eapply keeps_trans; [exact K1|]. eapply keeps_trans; eauto.
Qed.

(* ---------------- the blank-consuming loop ---------------- *)
Lemma wp_col_lt_indent (Q : bool -> st -> Prop) s : (forall b, Q b s) -> wp (@col_lt_indent bufin) Q s.
Proof. intros HQ. unfold col_lt_indent. apply wp_gets, HQ. Qed.

Lemma wp_flow_blanks fuel : forall lbl lb tb ws (Q : bool * bool * N * list chr -> st -> Prop) s,
  1 <= bl s -> (forall r s', keeps s s' -> Q r s') -> wp (flow_blanks bo fuel lbl lb tb ws) Q s.
Proof.
  induction fuel as [|fuel IH]; intros lbl lb tb ws Q s Hb HQ; cbn [flow_blanks]; [apply wp_oof|].
  apply wp_bind. apply (wp_peek_val cap cap_ge); [lia|].
  destruct (is_blank (bnth s 0)).
  - destruct lbl.
    + apply wp_bind. apply wp_col_lt_indent. intros lt.
      case_if; [apply wp_bind; apply wp_mark; apply wp_fail|].
      apply wp_bind. apply (wp_skip_blank cap cap_ge). intros s1 K1 B1.
      apply wp_bind. apply (wp_look cap cap_ge); [lia|]. intros s2 I2 B2 _ _.
      apply IH; [lia|]. intros r s' K. apply HQ.
      eapply keeps_trans; [exact K1|]. eapply keeps_trans; [apply keeps_input; exact I2|exact K].
    + apply wp_bind. apply (wp_skip_blank cap cap_ge). intros s1 K1 B1.
      apply wp_bind. apply (wp_look cap cap_ge); [lia|]. intros s2 I2 B2 _ _.
      apply IH; [lia|]. intros r s' K. apply HQ.
      eapply keeps_trans; [exact K1|]. eapply keeps_trans; [apply keeps_input; exact I2|exact K].
  - destruct (is_break (bnth s 0)) eqn:Eb; [|apply wp_ret, HQ, keeps_refl].
    apply wp_bind. apply (wp_look cap cap_ge); [lia|]. intros s1 I1 B1 B1' P1.
    assert (Eb1 : is_break (bnth s1 0) = true) by (rewrite P1; [exact Eb|lia]).
    destruct lbl.
    + apply wp_bind. apply (wp_skip_break cap cap_ge); [lia|exact Eb1|]. intros s2 K2 B2.
      apply wp_bind. apply (wp_look cap cap_ge); [lia|]. intros s3 I3 B3 _ _.
      apply IH; [lia|]. intros r s' K. apply HQ.
      eapply keeps_trans; [apply keeps_input; exact I1|]. eapply keeps_trans; [exact K2|].
      eapply keeps_trans; [apply keeps_input; exact I3|exact K].
    + apply wp_bind. apply (wp_skip_break cap cap_ge); [lia|exact Eb1|]. intros s2 K2 B2.
      apply wp_bind. apply (wp_look cap cap_ge); [lia|]. intros s3 I3 B3 _ _.
      apply IH; [lia|]. intros r s' K. apply HQ.
      eapply keeps_trans; [apply keeps_input; exact I1|]. eapply keeps_trans; [exact K2|].
      eapply keeps_trans; [apply keeps_input; exact I3|exact K].
Qed.

(* ---------------- the main loop ---------------- *)
Lemma wp_flow_go F single start f : forall acc lb tb ws (Q : list chr -> st -> Prop) s,
  (forall r s', keeps s s' -> Q r s') -> wp (flow_go bo F single start f acc lb tb ws) Q s.
Proof.
  induction f as [|f IH]; intros acc lb tb ws Q s HQ; cbn [flow_go]; [apply wp_oof|].
  apply wp_bind. apply (wp_look cap cap_ge); [lia|]. intros s1 I1 B1 _ _.
  pose proof (keeps_input _ _ I1) as K1.
  apply wp_bind. apply wp_get.
  apply wp_bind.
  apply wp_mono with (Q := fun _ s' => s' = s1).
  { case_if; [apply (wp_next_is_document_indicator cap cap_ge); [lia|reflexivity] | apply wp_ret; reflexivity]. }
  intros di s1' ->.
  destruct di; [apply wp_fail|].
  apply wp_bind. apply (wp_next_is cap cap_ge); [lia|]. intros z.
  destruct z; [apply wp_fail|].
  apply wp_bind. apply wp_col_lt_indent. intros lt.
  destruct lt; [apply wp_fail|].
  apply wp_bind. apply wp_consume_nonws. intros [acc' lbl] s2 K2. cbv beta iota.
  apply wp_bind. apply (wp_look_ch cap cap_ge). intros c s3 I3 B3 _.
  assert (K3 : keeps s s3).
  { eapply keeps_trans; [exact K1|]. eapply keeps_trans; [exact K2|apply keeps_input; exact I3]. }
  case_if; [apply wp_ret, HQ, K3|].
  apply wp_bind. apply wp_flow_blanks; [lia|]. intros [[[lbl' lb'] tb'] ws'] s4 K4. cbv beta iota.
  assert (K : forall r s', keeps s4 s' -> Q r s').
  { intros r s' K. apply HQ. eapply keeps_trans; [exact K3|]. eapply keeps_trans; eauto. }
  destruct lbl'; [|apply IH, K].
  case_if; [apply IH, K|]. case_if; apply IH, K.
Qed.

(* ---------------- scan_flow_scalar ---------------- *)
Theorem safe_scan_flow_scalar : spec_scan_flow_scalar cap.
Proof.
  intros F single s Hb. rewrite scan_flow_scalar_unfold.
  apply wp_bind. apply wp_mark.
  apply wp_bind. apply (wp_skip_non_blank cap cap_ge). intros s1 K1 B1.
  apply wp_bind. apply wp_flow_go. intros str s2 K2.
  apply wp_bind. apply (wp_skip_non_blank cap cap_ge). intros s3 K3 B3.
  apply wp_bind. eapply wp_mono; [apply H_ws|]. intros tw s4 [K4 B4].
  apply wp_bind. apply (wp_peek cap cap_ge); [lia|]. intros c.
  apply wp_bind. apply wp_get. cbv zeta.
  case_if; [|apply wp_fail].
  apply wp_ret. unfold post_keeps. split; [|lia].
  eapply keeps_trans; [exact K1|]. eapply keeps_trans; [exact K2|]. eapply keeps_trans; eauto.
Qed.
End Flow.

Print Assumptions safe_scan_flow_scalar.
