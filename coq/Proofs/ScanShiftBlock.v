(* C15 tail independence of the scanner (see ScanShift.v): the family of BLOCK SCALARS (Model/SScalar.v) under the
   state relation [SH d] of ScanShift.v.

     scan_block_scalar_ok : forall d, shf_scan_block_scalar d

   Mechanical port of ScanBrkBlock.v ([d : shift] in the place of [md]).  Chomping reads [is_z] of the next character,
   the column (equal) and the LINE of the current mark against the line of the captured start mark: two marks of the
   same side, both shifted by [sh_l d] ([shift_eqb]).  [buf_is_empty] gives the same answer on both sides because the
   lookahead counters agree on being zero ([is_look]).  The alignment premises inherited from ScanBrkBlock.v are not
   needed for the shift (see the header of ScanShift.v).  TWO fuels everywhere. *)
From Coq Require Import List NArith ZArith Bool Arith Lia.
Import ListNotations.
Require Import Parser SBase SPrim SDir SScalar SFetch ScanShift ScanShiftPrim.
Local Open Scope nat_scope.

(* ---------------- the local loops of SScalar.v, named (generic in the back-end) ---------------- *)
Section Named.
Context {J : Type} (ops : InputOps J).
Variable F : nat.
Local Open Scope mon_scope.
Fixpoint kb_go (f : nat) (acc : list chr) : @M J (list chr) :=
  match f with
  | O => oof
  | S f => e <- buf_is_empty ops ;;
           if e then ret acc else
           c <- SPrim.peek ops ;; if is_breakz c then ret acc else skip_blank ops ;;; kb_go f (c :: acc)
  end.
Fixpoint kb_raw (f : nat) (acc : list chr) (n : N) : @M J (list chr) :=
  match f with
  | O => oof
  | S f => c <- raw_read ops ;;
           match c with
           | Some c => kb_raw f (c :: acc) (n + 1)%N
           | None => adv_mark n ;;; ret acc
           end
  end.
Lemma kb_content_line_eq acc :
  scan_block_scalar_content_line ops F acc =
  (acc <- kb_go F acc ;; e <- buf_is_empty ops ;; if e then kb_raw F acc 0%N else ret acc).
Proof. reflexivity. Qed.

Section Wide.
Variable indent : N.
Fixpoint kb_wide (f : nat) : @M J unit :=
  match f with
  | O => oof
  | S f =>
    look ops (bufmaxlen ops) ;;; skip_spaces_to ops F indent true ;;;
    k <- col ;; e <- buf_is_empty ops ;;
    c <- (if e then ret 32%N else SPrim.peek ops) ;;
    if (k =? indent)%N || (negb e && negb (c =? 32)%N) then ret tt else kb_wide f
  end.
End Wide.
(* the "consume the indentation" phase of one round of skip_block_scalar_indent *)
Definition kb_spp (indent : N) : @M J unit :=
  if (indent <? N.of_nat (bufmaxlen ops - 2))%N then look ops (bufmaxlen ops) ;;; skip_spaces_to ops F indent false
  else kb_wide indent F ;;; look ops 2.
Lemma kb_sbsi_eq fuel indent breaks :
  skip_block_scalar_indent ops F (S fuel) indent breaks =
  ((if Nat.ltb (bufmaxlen ops) 2 then panic 121 else ret tt) ;;;
   kb_spp indent ;;;
   b <- next_is ops is_break ;;
   if b then skip_break ops ;;; skip_block_scalar_indent ops F fuel indent (breaks + 1)%N else ret breaks).
Proof. reflexivity. Qed.

Fixpoint kb_sfl (f : nat) : @M J unit :=
  match f with
  | O => oof
  | S f => c <- look_ch ops ;; if (c =? 32)%N then skip_blank ops ;;; kb_sfl f else ret tt
  end.
Lemma kb_sfli_eq fuel maxi breaks :
  skip_first_line_indent ops F (S fuel) maxi breaks =
  (kb_sfl F ;;; k <- col ;;
   b <- next_is ops is_break ;;
   if b then look ops 2 ;;; skip_break ops ;;; skip_first_line_indent ops F fuel (N.max maxi k) (breaks + 1)%N
   else ret (N.max maxi k, breaks)).
Proof. reflexivity. Qed.
End Named.

Section Block.
Variable d : shift.
Local Notation bwp := (swp d).

(* ---------------- (1) scan_block_scalar_content_line ----------------
   buffered loop: the same [buf_is_empty] answer on both sides (equal lookahead counters); a content character is
   not a break, hence not a line feed: lockstep, the same character pushed *)
Lemma shf_go : forall f1 f2 acc s1 s2, SH d s1 s2 ->
  bwp (kb_go sops f1 acc) (kb_go sops f2 acc) (bpost d eq) s1 s2.
Proof.
  induction f1 as [|f1 IH]; intros f2 acc s1 s2 H; [exact I|]. destruct f2 as [|f2]; [apply bwp_oof_r|].
  cbn [kb_go]. apply bwp_bind. apply (bwp_buf_is_empty d); [exact H|].
  destruct (Nat.eqb (lk s1) 0); [apply bwp_ret_bpost; [reflexivity|exact H]|].
  apply bwp_bind. apply (bwp_peek d); [exact H|]. b1_norm.
  destruct (is_breakz (rn s1 0)) eqn:Eb; [apply bwp_ret_bpost; [reflexivity|exact H]|].
  assert (N0 : rn s1 0 <> 10%N) by (intros E; rewrite E in Eb; discriminate).
  rewrite (b1_other _ N0).
  apply bwp_bind. apply (bwp_skip_blank d); [exact H|exact N0|]. intros u1 u2 HU _. apply IH. exact HU.
Qed.
(* raw fast path: [raw_read] returns the same character on both sides, or stops on both *)
Lemma shf_raw : forall f1 f2 acc n s1 s2, SH d s1 s2 ->
  bwp (kb_raw sops f1 acc n) (kb_raw sops f2 acc n) (bpost d eq) s1 s2.
Proof.
  induction f1 as [|f1 IH]; intros f2 acc n s1 s2 H; [exact I|]. destruct f2 as [|f2]; [apply bwp_oof_r|].
  cbn [kb_raw]. apply bwp_bind. apply (bwp_raw_read d); [exact H|]. intros c t1 t2 HT _ _ _.
  destruct c as [x|].
  - apply IH. exact HT.
  - apply bwp_bind. apply (bwp_adv_mark d); [exact HT|]. intros u1 u2 HU _.
    apply bwp_ret_bpost; [reflexivity|exact HU].
Qed.
Lemma shf_content_line F1 F2 acc s1 s2 : SH d s1 s2 ->
  bwp (scan_block_scalar_content_line sops F1 acc) (scan_block_scalar_content_line sops F2 acc) (bpost d eq) s1 s2.
Proof.
  intros H. rewrite !kb_content_line_eq.
  eapply (bwp_call_eq d); [apply shf_go; exact H|]. intros a t1 t2 HT.
  apply bwp_bind. apply (bwp_buf_is_empty d); [exact HT|]. destruct (Nat.eqb (lk t1) 0).
  - apply shf_raw. exact HT.
  - apply bwp_ret_bpost; [reflexivity|exact HT].
Qed.

(* ---------------- (2) skip_spaces_to: spaces only, lockstep ---------------- *)
Lemma shf_skip_spaces_to indent cb : forall f1 f2 s1 s2, SH d s1 s2 ->
  bwp (skip_spaces_to sops f1 indent cb) (skip_spaces_to sops f2 indent cb) (bpost d eq) s1 s2.
Proof.
  induction f1 as [|f1 IH]; intros f2 s1 s2 H; [exact I|]. destruct f2 as [|f2]; [apply bwp_oof_r|].
  cbn [skip_spaces_to]. apply bwp_bind.
  apply bwp_mono with (Q := fun (e1 : bool) (t1 : bst) (e2 : bool) (t2 : bst) => e1 = e2 /\ t1 = s1 /\ t2 = s2).
  { destruct cb; [apply (bwp_buf_is_empty d); [exact H|]|apply bwp_ret]; auto. }
  intros e t1 e2 t2 (<- & -> & ->).
  apply bwp_bind. apply (bwp_col d); [exact H|]. cbv beta.
  destruct (e || negb (m_col (sc_mark s1) <? indent)%N); [apply bwp_ret_bpost; [reflexivity|exact H]|].
  apply bwp_bind. apply (bwp_peek d); [exact H|]. b1_norm.
  destruct (N.eqb_spec (rn s1 0) 32) as [E|NE]; [|apply bwp_ret_bpost; [reflexivity|exact H]].
  assert (N0 : rn s1 0 <> 10%N) by (rewrite E; discriminate).
  apply bwp_bind. apply (bwp_skip_blank d); [exact H|exact N0|]. intros u1 u2 HU _. apply IH. exact HU.
Qed.

(* ---------------- (3) the indentation phase of skip_block_scalar_indent: narrow / wide ---------------- *)
Lemma shf_wide F1 F2 indent : forall f1 f2 s1 s2, SH d s1 s2 ->
  bwp (kb_wide sops F1 indent f1) (kb_wide sops F2 indent f2) (bpost d eq) s1 s2.
Proof.
  induction f1 as [|f1 IH]; intros f2 s1 s2 H; [exact I|]. destruct f2 as [|f2]; [apply bwp_oof_r|].
  cbn [kb_wide]. apply bwp_bind. apply (bwp_look d); [exact H|]. intros t1 t2 HT _ _ _ _ _.
  eapply (bwp_call_eq d); [apply shf_skip_spaces_to; exact HT|]. intros [] u1 u2 HU.
  apply bwp_bind. apply (bwp_col d); [exact HU|]. cbv beta.
  apply bwp_bind. apply (bwp_buf_is_empty d); [exact HU|]. cbv beta.
  apply bwp_bind.
  apply bwp_mono with (Q := fun (c1 : chr) (v1 : bst) (c2 : chr) (v2 : bst) =>
                              (c2 =? 32)%N = (c1 =? 32)%N /\ v1 = u1 /\ v2 = u2).
  { destruct (Nat.eqb (lk u1) 0); [apply bwp_ret; auto|]. apply (bwp_peek d); [exact HU|]. b1_norm. auto. }
  intros c1 v1 c2 v2 (Ec & -> & ->). rewrite Ec.
  match goal with |- swp _ (if ?b then _ else _) _ _ _ _ => destruct b end.
  - apply bwp_ret_bpost; [reflexivity|exact HU].
  - apply IH. exact HU.
Qed.
Lemma shf_spp F1 F2 indent s1 s2 : SH d s1 s2 ->
  bwp (kb_spp sops F1 indent) (kb_spp sops F2 indent) (bpost d eq) s1 s2.
Proof.
  intros H. unfold kb_spp. destruct (indent <? N.of_nat (bufmaxlen sops - 2))%N.
  - apply bwp_bind. apply (bwp_look d); [exact H|]. intros t1 t2 HT _ _ _ _ _.
    apply shf_skip_spaces_to. exact HT.
  - eapply (bwp_call_eq d); [apply shf_wide; exact H|]. intros [] t1 t2 HT.
    apply (bwp_look d); [exact HT|]. intros u1 u2 HU _ _ _ _ _. unfold bpost. split; [reflexivity|exact HU].
Qed.

(* ---------------- (4) skip_block_scalar_indent: every empty line ends with [skip_break] ---------------- *)
Lemma shf_skip_bsi F1 F2 indent : forall f1 f2 breaks s1 s2, SH d s1 s2 ->
  bwp (skip_block_scalar_indent sops F1 f1 indent breaks) (skip_block_scalar_indent sops F2 f2 indent breaks)
      (bpost d eq) s1 s2.
Proof.
  induction f1 as [|f1 IH]; intros f2 breaks s1 s2 H; [exact I|]. destruct f2 as [|f2]; [apply bwp_oof_r|].
  rewrite !kb_sbsi_eq. apply bwp_bind.
  change (Nat.ltb (bufmaxlen sops) 2) with false. cbv iota. apply bwp_ret.
  eapply (bwp_call_eq d); [apply shf_spp; exact H|]. intros [] u1 u2 HU.
  apply bwp_bind. apply (bwp_next_is d); [exact HU|exact b1_is_break|].
  destruct (is_break (rn u1 0)).
  - apply bwp_bind. apply (bwp_skip_break d); [exact HU|]. intros v1 v2 HV _ _. apply IH. exact HV.
  - apply bwp_ret_bpost; [reflexivity|exact HU].
Qed.

(* ---------------- (5) skip_first_line_indent ---------------- *)
Lemma shf_sfl : forall f1 f2 s1 s2, SH d s1 s2 -> bwp (kb_sfl sops f1) (kb_sfl sops f2) (bpost d eq) s1 s2.
Proof.
  induction f1 as [|f1 IH]; intros f2 s1 s2 H; [exact I|]. destruct f2 as [|f2]; [apply bwp_oof_r|].
  cbn [kb_sfl]. apply bwp_bind. apply (bwp_look_ch d); [exact H|]. intros u1 u2 HU _ _ _ _. b1_norm.
  destruct (N.eqb_spec (rn u1 0) 32) as [E|NE]; [|apply bwp_ret_bpost; [reflexivity|exact HU]].
  assert (N0 : rn u1 0 <> 10%N) by (rewrite E; discriminate).
  apply bwp_bind. apply (bwp_skip_blank d); [exact HU|exact N0|]. intros v1 v2 HV _. apply IH. exact HV.
Qed.
Lemma shf_sfli F1 F2 : forall f1 f2 maxi breaks s1 s2, SH d s1 s2 ->
  bwp (skip_first_line_indent sops F1 f1 maxi breaks) (skip_first_line_indent sops F2 f2 maxi breaks)
      (bpost d eq) s1 s2.
Proof.
  induction f1 as [|f1 IH]; intros f2 maxi breaks s1 s2 H; [exact I|]. destruct f2 as [|f2]; [apply bwp_oof_r|].
  rewrite !kb_sfli_eq.
  eapply (bwp_call_eq d); [apply shf_sfl; exact H|]. intros [] u1 u2 HU.
  apply bwp_bind. apply (bwp_col d); [exact HU|]. cbv beta.
  apply bwp_bind. apply (bwp_next_is d); [exact HU|exact b1_is_break|].
  destruct (is_break (rn u1 0)).
  - apply bwp_bind. apply (bwp_look d); [exact HU|]. intros v1 v2 HV _ _ _ _ _.
    apply bwp_bind. apply (bwp_skip_break d); [exact HV|]. intros w1 w2 HW _ _. apply IH. exact HW.
  - apply bwp_ret_bpost; [reflexivity|exact HU].
Qed.

(* ---------------- (6) scan_block_scalar ---------------- *)
Theorem scan_block_scalar_ok : shf_scan_block_scalar d.
Proof.
  unfold shf_scan_block_scalar. intros F1 F2 literal s1 s2 H N0. unfold scan_block_scalar. cbv zeta.
  apply bwp_bind. apply (bwp_mark d); [exact H|]. intros HM0. pose proof HM0 as [HML HMC].
  apply bwp_bind. apply (bwp_skip_non_blank d); [exact H|exact N0|]. intros a1 a2 HA _.
  apply bwp_bind. apply (bwp_unroll_non_block_indents d); [exact HA|]. intros p1 p2 HP _.
  apply bwp_bind. apply (bwp_look_ch d); [exact HP|]. intros c1 c2 HC _ _ _ _. b1_norm.
  (* the header: chomping and indentation indicators, in either order; each character consumed has just been
     tested, so it is not a line feed *)
  eapply (bwp_call_eq d).
  { destruct ((rn c1 0 =? 43) || (rn c1 0 =? 45))%N eqn:Epm.
    - assert (Nc : rn c1 0 <> 10%N) by (intros E; rewrite E in Epm; discriminate).
      apply bwp_bind. apply (bwp_skip_non_blank d); [exact HC|exact Nc|]. intros d1 d2 HD _.
      apply bwp_bind. apply (bwp_look d); [exact HD|]. intros e1 e2 HE _ _ _ _ _.
      apply bwp_bind. apply (bwp_peek d); [exact HE|]. b1_norm.
      destruct (is_digit (rn e1 0)) eqn:Ed; [|apply bwp_ret_bpost; [reflexivity|exact HE]].
      assert (Nd : rn e1 0 <> 10%N) by (intros E; rewrite E in Ed; discriminate).
      rewrite (b1_other _ Nd).
      destruct (rn e1 0 =? 48)%N; [apply bwp_fail; exact HM0|].
      apply bwp_bind. apply (bwp_skip_non_blank d); [exact HE|exact Nd|]. intros f1 f2 HF _.
      apply bwp_ret_bpost; [reflexivity|exact HF].
    - destruct (is_digit (rn c1 0)) eqn:Ed; [|apply bwp_ret_bpost; [reflexivity|exact HC]].
      assert (Nc : rn c1 0 <> 10%N) by (intros E; rewrite E in Ed; discriminate).
      rewrite (b1_other _ Nc).
      destruct (rn c1 0 =? 48)%N; [apply bwp_fail; exact HM0|].
      apply bwp_bind. apply (bwp_skip_non_blank d); [exact HC|exact Nc|]. intros d1 d2 HD _.
      apply bwp_bind. apply (bwp_look d); [exact HD|]. intros e1 e2 HE _ _ _ _ _.
      apply bwp_bind. apply (bwp_peek d); [exact HE|]. b1_norm.
      destruct ((rn e1 0 =? 43) || (rn e1 0 =? 45))%N eqn:Epm2; [|apply bwp_ret_bpost; [reflexivity|exact HE]].
      assert (Nd : rn e1 0 <> 10%N) by (intros E; rewrite E in Epm2; discriminate).
      apply bwp_bind. apply (bwp_skip_non_blank d); [exact HE|exact Nd|]. intros f1 f2 HF _.
      apply bwp_ret_bpost; [reflexivity|exact HF]. }
  intros [chomp increment] g1 g2 HG. cbv beta iota.
  (* the rest of the header line, and its line break *)
  eapply (bwp_call_eq d); [apply (skip_ws_to_eol_ok d); exact HG|]. intros tw h1 h2 HH.
  apply bwp_bind. apply (bwp_look d); [exact HH|]. intros i1 i2 HI _ _ _ _ _.
  apply bwp_bind. apply (bwp_peek d); [exact HI|]. b1_norm.
  destruct (is_breakz (rn i1 0)); cbn [negb]; [|apply bwp_fail; exact HM0].
  eapply (bwp_call_eq d).
  { destruct (is_break (rn i1 0)); [|apply bwp_ret_bpost; [reflexivity|exact HI]].
    apply bwp_bind. apply (bwp_look d); [exact HI|]. intros j1 j2 HJ _ _ _ _ _.
    apply bwp_bind. apply (bwp_skip_break d); [exact HJ|]. intros k1 k2 HK _ _.
    apply bwp_ret_bpost; [reflexivity|exact HK]. }
  intros cbreak j1 j2 HJ.
  apply bwp_bind. apply (bwp_look_ch d); [exact HJ|]. intros k1 k2 HK _ _ _ _. b1_norm.
  destruct (rn k1 0 =? 9)%N; [apply bwp_fail; exact HM0|].
  apply bwp_bind. apply bwp_get. cbv beta. sh_sync HK.
  (* the indentation of the first content line *)
  match goal with |- swp _ (bind (if (?i =? 0)%N then _ else _) _) _ _ _ _ => set (indent0 := i) end.
  eapply (bwp_call_eq d).
  { destruct (indent0 =? 0)%N.
    - eapply (bwp_call_eq d); [apply shf_sfli; exact HK|]. intros r l1 l2 HL.
      apply bwp_ret_bpost; [reflexivity|exact HL].
    - eapply (bwp_call_eq d); [apply shf_skip_bsi; exact HK|]. intros r l1 l2 HL.
      apply bwp_ret_bpost; [reflexivity|exact HL]. }
  intros [indent tbreaks] l1 l2 HL. cbv beta iota.
  apply bwp_bind. apply (bwp_next_is d); [exact HL|exact b1_is_z|]. cbv beta.
  apply bwp_bind. apply bwp_get. cbv beta. sh_sync HL. rewrite <- ?HML. rewrite ?shift_eqb.
  destruct (is_z (rn l1 0)).
  { (* the scalar is empty: chomping looks at the line (against the captured start), the column and the count *)
    apply bwp_ret_bpost; [|exact HL]. apply TS_mk. apply SPS_mk; [exact HM0|exact (sh_mark HL)]. }
  (* "wrongly indented" check *)
  eapply (bwp_call_eq d).
  { match goal with |- swp _ (if ?b then _ else _) _ _ _ _ => destruct b end;
      [|apply bwp_ret_bpost; [reflexivity|exact HL]].
    apply bwp_bind. apply (bwp_look d); [exact HL|]. intros m1 m2 HM _ _ _ _ _.
    apply bwp_bind. apply (bwp_next_is_document_indicator d); [exact HM|].
    apply bwp_ret_bpost; [reflexivity|exact HM]. }
  intros wrong m1 m2 HM. destruct wrong; [apply bwp_fail; exact (sh_mark HL)|].
  apply bwp_bind. apply bwp_get. cbv beta.
  (* the main loop: one content line per round *)
  eapply (bwp_call_eq d).
  { match goal with |- swp _ (?g1 F1 [] 0%N tbreaks false) (?g2 F2 [] 0%N tbreaks false) _ _ _ =>
      assert (Hgo : forall f1 f2 acc lb tb ldb u1 u2, SH d u1 u2 ->
                      bwp (g1 f1 acc lb tb ldb) (g2 f2 acc lb tb ldb) (bpost d eq) u1 u2) end.
    { induction f1 as [|f1 IH]; intros f2 acc lb tb ldb u1 u2 HU; [exact I|].
      destruct f2 as [|f2]; [apply bwp_oof_r|]. lazy beta iota.
      apply bwp_bind. apply (bwp_col d); [exact HU|]. cbv beta.
      apply bwp_bind. apply (bwp_next_is d); [exact HU|exact b1_is_z|]. cbv beta.
      match goal with |- swp _ (if ?b then _ else _) _ _ _ _ => destruct b end;
        [apply bwp_ret_bpost; [reflexivity|exact HU]|].
      eapply (bwp_call_eq d).
      { destruct (indent =? 0)%N; [|apply bwp_ret_bpost; [reflexivity|exact HU]].
        apply bwp_bind. apply (bwp_look d); [exact HU|]. intros v1 v2 HV _ _ _ _ _.
        apply (bwp_next_is_document_indicator d); [exact HV|]. unfold bpost. split; [reflexivity|exact HV]. }
      intros de v1 v2 HV. destruct de; [apply bwp_ret_bpost; [reflexivity|exact HV]|].
      apply bwp_bind. apply (bwp_next_is d); [exact HV|exact b1_is_blank|]. cbv beta.
      eapply (bwp_call_eq d); [apply shf_content_line; exact HV|]. intros acc1 w1 w2 HW.
      apply bwp_bind. apply (bwp_look d); [exact HW|]. intros x1 x2 HX _ _ _ _ _.
      apply bwp_bind. apply (bwp_next_is d); [exact HX|exact b1_is_z|]. cbv beta.
      destruct (is_z (rn x1 0)); [apply bwp_ret_bpost; [reflexivity|exact HX]|].
      apply bwp_bind. apply (bwp_skip_break d); [exact HX|]. intros y1 y2 HY _ _.
      eapply (bwp_call_eq d); [apply shf_skip_bsi; exact HY|]. intros tb1 z1 z2 HZ.
      apply IH. exact HZ. }
    apply Hgo. exact HM. }
  intros [[acc lb] tb] n1 n2 HN. cbv beta iota.
  (* tail chomping: [is_z] of the next character and the column, the same on both sides *)
  apply bwp_bind. apply (bwp_next_is d); [exact HN|exact b1_is_z|]. cbv beta.
  apply bwp_bind. apply (bwp_col d); [exact HN|]. cbv beta.
  apply bwp_bind. apply (bwp_mark d); [exact HN|]. intros HMn.
  apply bwp_ret_bpost; [|exact HN]. apply TS_mk. apply SPS_mk; [exact (sh_mark HM)|exact HMn].
Qed.

End Block.

Check scan_block_scalar_ok.
Print Assumptions scan_block_scalar_ok.
