(* C01, bounded work: the scanner model over the string input never exhausts its fuel when every loop is given
   fuel linear in the input length.  Calculus [fwp]: OutOfFuel is the ONE outcome that is forbidden; a value must
   satisfy the postcondition; an error or a panic ends the run and is not this proof's concern (panics are excluded
   by ScanSafeTop.v for the buffered input and by the correspondence run for the string input).
   The measure is the number of remaining characters [rl s]: every loop iteration of the scanner either consumes a
   character or ends the loop (the proofs show which), so a loop started with fuel > rl s cannot run dry. *)
From Coq Require Import List NArith ZArith Bool Arith Lia.
Import ListNotations.
Require Import Parser SBase SPrim SDir SScalar SFetch.
Local Open Scope nat_scope.

Notation fst_ := (sc strin).
Notation FM := (@M strin).

Definition frem (s : fst_) : list chr := si_chars (sc_in s).
Definition rl (s : fst_) : nat := length (frem s).
Definition fnth (s : fst_) (i : nat) : chr := nth i (frem s) 0%N.

Definition fwp {A} (m : FM A) (Q : A -> fst_ -> Prop) (s : fst_) : Prop :=
  match m s with
  | Ok (a, s') => Q a s'
  | OutOfFuel => False
  | _ => True
  end.

Lemma fwp_ret {A} (a : A) (Q : A -> fst_ -> Prop) s : Q a s -> fwp (ret a) Q s.
Proof. auto. Qed.
Lemma fwp_bind {A B} (m : FM A) (f : A -> FM B) (Q : B -> fst_ -> Prop) s :
  fwp m (fun a s' => fwp (f a) Q s') s -> fwp (bind m f) Q s.
Proof. unfold fwp, bind. destruct (m s) as [[a s']| | |]; auto. Qed.
Lemma fwp_mono {A} (m : FM A) (Q Q' : A -> fst_ -> Prop) s :
  fwp m Q s -> (forall a s', Q a s' -> Q' a s') -> fwp m Q' s.
Proof. unfold fwp. destruct (m s) as [[a s']| | |]; auto. Qed.
Lemma fwp_fail {A} site mk (Q : A -> fst_ -> Prop) s : fwp (@fail strin A site mk) Q s.
Proof. exact I. Qed.
Lemma fwp_panic {A} site (Q : A -> fst_ -> Prop) s : fwp (@panic strin A site) Q s.
Proof. exact I. Qed.
(* [oof] is acceptable only where it is unreachable *)
Lemma fwp_oof_absurd {A} (Q : A -> fst_ -> Prop) s : False -> fwp (@oof strin A) Q s.
Proof. tauto. Qed.
Lemma fwp_get (Q : fst_ -> fst_ -> Prop) s : Q s s -> fwp get Q s.
Proof. auto. Qed.
Lemma fwp_gets {A} (f : fst_ -> A) (Q : A -> fst_ -> Prop) s : Q (f s) s -> fwp (gets f) Q s.
Proof. auto. Qed.
Lemma fwp_put s0 (Q : unit -> fst_ -> Prop) s : Q tt s0 -> fwp (put s0) Q s.
Proof. auto. Qed.
Lemma fwp_modify f (Q : unit -> fst_ -> Prop) s : Q tt (f s) -> fwp (modify f) Q s.
Proof. auto. Qed.

(* ---------------- input primitives of the string back-end ---------------- *)
(* [look] bumps the counter to at least n; [si_look] never decreases *)
Definition lk (s : fst_) : nat := si_look (sc_in s).
Lemma fwp_look n (Q : unit -> fst_ -> Prop) s :
  (forall s', frem s' = frem s -> lk s' = Nat.max (lk s) n -> s' = set_in (sc_in s') s -> Q tt s') -> fwp (look str_ops n) Q s.
Proof. intros HQ. unfold fwp, look. cbn. apply HQ; reflexivity. Qed.
Lemma fwp_peekn n (Q : chr -> fst_ -> Prop) s : Q (fnth s n) s -> fwp (peekn str_ops n) Q s.
Proof. intros HQ. exact HQ. Qed.
Lemma fwp_peek (Q : chr -> fst_ -> Prop) s : Q (fnth s 0) s -> fwp (SPrim.peek str_ops) Q s.
Proof. intros HQ. exact HQ. Qed.
Lemma fwp_look_ch (Q : chr -> fst_ -> Prop) s :
  (forall s', frem s' = frem s -> lk s' = Nat.max (lk s) 1 -> s' = set_in (sc_in s') s -> Q (fnth s' 0) s') -> fwp (look_ch str_ops) Q s.
Proof. intros HQ. unfold look_ch. apply fwp_bind. apply fwp_look. intros s' H1 H2 H3. apply fwp_peek. apply HQ; assumption. Qed.
Lemma fwp_in_skip (Q : unit -> fst_ -> Prop) s :
  (forall s', frem s' = tl (frem s) -> lk s' = lk s -> s' = set_in (sc_in s') s -> Q tt s') -> fwp (in_skip str_ops) Q s.
Proof. intros HQ. unfold fwp, in_skip, modify. cbn. apply HQ; reflexivity. Qed.
Lemma fwp_in_skip_n n (Q : unit -> fst_ -> Prop) s :
  (forall s', frem s' = skipn n (frem s) -> lk s' = lk s -> s' = set_in (sc_in s') s -> Q tt s') -> fwp (in_skip_n str_ops n) Q s.
Proof. intros HQ. unfold fwp, in_skip_n. cbn. apply HQ; reflexivity. Qed.
Lemma fwp_raw_read (Q : option chr -> fst_ -> Prop) s :
  match frem s with
  | [] => Q None s
  | c :: r => if is_breakz c then Q None s
              else forall s', frem s' = r -> lk s' = lk s -> s' = set_in (sc_in s') s -> Q (Some c) s'
  end -> fwp (raw_read str_ops) Q s.
Proof.
  intros HQ. unfold fwp, raw_read. cbn. unfold frem in HQ. destruct (si_chars (sc_in s)) as [|c r]; [destruct s; exact HQ|].
  destruct (is_breakz c); [destruct s; exact HQ|]. apply HQ; reflexivity.
Qed.
Lemma fwp_buf_is_empty (Q : bool -> fst_ -> Prop) s : Q (Nat.eqb (lk s) 0) s -> fwp (buf_is_empty str_ops) Q s.
Proof. intros HQ. exact HQ. Qed.
Lemma fwp_assert_buflen n site (Q : unit -> fst_ -> Prop) s : Q tt s -> fwp (assert_buflen str_ops n site) Q s.
Proof. intros HQ. unfold fwp, assert_buflen. destruct (Nat.ltb _ n); [exact I|exact HQ]. Qed.

(* a non-NUL character seen at the front means the input is not exhausted: consuming it decreases the measure *)
Lemma fnth0_nonzero_rl s : fnth s 0 <> 0%N -> 0 < rl s.
Proof. unfold fnth, rl. destruct (frem s); cbn; [congruence|lia]. Qed.
Lemma rl_tl s s' : frem s' = tl (frem s) -> 0 < rl s -> rl s' = rl s - 1.
Proof. unfold rl. intros ->. destruct (frem s); cbn; lia. Qed.
Lemma rl_tl_le s s' : frem s' = tl (frem s) -> rl s' <= rl s.
Proof. unfold rl. intros ->. destruct (frem s); cbn; lia. Qed.
Lemma rl_skipn_le n s s' : frem s' = skipn n (frem s) -> rl s' <= rl s.
Proof. unfold rl. intros ->. rewrite skipn_length. lia. Qed.

(* ---------------- contracts (proved in the ScanFuel*.v files) ----------------
   [F] is the model's fuel parameter (every inner loop gets F afresh).  [fuel_ok F s]: F is at least twice the
   remaining length plus slack (the slack pays for chunk refreshes and loop exits). *)
Definition fuel_ok (F : nat) (s : fst_) : Prop := 2 * rl s + 6 <= F.
Definition le_post (s : fst_) {A} : A -> fst_ -> Prop := fun _ s' => rl s' <= rl s /\ lk s <= lk s'.
Definition lt_post (s : fst_) {A} : A -> fst_ -> Prop := fun _ s' => rl s' < rl s /\ lk s <= lk s'.

Lemma fuel_ok_le F s s' : fuel_ok F s -> rl s' <= rl s -> fuel_ok F s'.
Proof. unfold fuel_ok. lia. Qed.

Definition fuel_skip_to_next_token : Prop := forall F s, fuel_ok F s -> fwp (skip_to_next_token str_ops F) (le_post s) s.
Definition fuel_skip_ws_to_eol : Prop := forall F stb s, fuel_ok F s -> fwp (skip_ws_to_eol str_ops F stb) (le_post s) s.
Definition fuel_skip_yaml_whitespace : Prop := forall F s, fuel_ok F s -> fwp (skip_yaml_whitespace str_ops F) (le_post s) s.
(* the token scanners are entered on a character that is not NUL (the dispatcher has just seen it) and consume it *)
Definition fuel_scan_directive : Prop := forall F s, fuel_ok F s -> fnth s 0 <> 0%N -> fwp (scan_directive str_ops F) (lt_post s) s.
Definition fuel_scan_tag : Prop := forall F s, fuel_ok F s -> fnth s 0 <> 0%N -> fwp (scan_tag str_ops F) (lt_post s) s.
Definition fuel_scan_anchor : Prop := forall F alias s, fuel_ok F s -> fnth s 0 <> 0%N -> fwp (scan_anchor str_ops F alias) (lt_post s) s.
Definition fuel_scan_flow_scalar : Prop := forall F single s, fuel_ok F s -> fnth s 0 <> 0%N -> fwp (scan_flow_scalar str_ops F single) (lt_post s) s.
Definition fuel_scan_plain_scalar : Prop := forall F s, fuel_ok F s -> 1 <= lk s -> fwp (scan_plain_scalar str_ops F) (lt_post s) s.
Definition fuel_scan_block_scalar : Prop := forall F literal s, fuel_ok F s -> fnth s 0 <> 0%N -> 1 <= lk s -> fwp (scan_block_scalar str_ops F literal) (lt_post s) s.
