(* Joint proof "the scanner never panics on a buffered input" (see SCANSAFE.md): the whitespace / comment skipping
   family of Model/SPrim.v.  Reusable [wp] rules for the character loops ([in_skip_ws_to_eol], [in_skip_while*],
   [in_fetch_while_alpha]) and the flag accessors, then the three contracts
     safe_skip_ws_to_eol, safe_skip_to_next_token, safe_skip_yaml_whitespace. *)
From Coq Require Import List NArith ZArith Bool Arith Lia.
Import ListNotations.
Require Import Parser SBase SPrim SDir SScalar SFetch SBuf ScanWP.
Local Open Scope nat_scope.

Arguments Nat.ltb : simpl never.
Arguments Nat.leb : simpl never.
Arguments Nat.eqb : simpl never.
Arguments Nat.sub : simpl never.

Local Notation st := (sc bufin).
Local Notation M := (@M bufin).

(* ---------------- [same_but_input] is a preorder; chains of [same_but_input] / [keeps] ---------------- *)
Lemma sbi_refl (s : st) : same_but_input s s.
Proof. unfold same_but_input. destruct s; reflexivity. Qed.

Lemma sbi_trans (s1 s2 s3 : st) : same_but_input s1 s2 -> same_but_input s2 s3 -> same_but_input s1 s3.
Proof. unfold same_but_input. intros H1 H2. rewrite H2. rewrite H1. reflexivity. Qed.

(* an input operation leaves the mark and every flag alone (stronger than [keeps], which forgets them) *)
Lemma sbi_fields (s s' : st) : same_but_input s s' ->
  sc_mark s' = sc_mark s /\ sc_ska s' = sc_ska s /\ sc_lws s' = sc_lws s /\ sc_adjacent s' = sc_adjacent s
  /\ sc_token_available s' = sc_token_available s /\ sc_indent s' = sc_indent s /\ sc_indents s' = sc_indents s.
Proof. unfold same_but_input. intros ->. cbn. repeat split. Qed.

Ltac sbi :=
  match goal with
  | |- same_but_input ?a ?a => apply sbi_refl
  | H : same_but_input ?a ?b |- same_but_input ?a ?b => exact H
  | H : same_but_input ?a ?b |- same_but_input ?a ?c => apply (sbi_trans a b c H); sbi
  end.

Ltac kp :=
  match goal with
  | |- keeps ?a ?a => apply keeps_refl
  | H : keeps ?a ?b |- keeps ?a ?b => exact H
  | H : same_but_input ?a ?b |- keeps ?a ?b => exact (keeps_input a b H)
  | H : keeps ?a ?b |- keeps ?a ?c => apply (keeps_trans a b c H); kp
  | H : same_but_input ?a ?b |- keeps ?a ?c => apply (keeps_trans a b c (keeps_input a b H)); kp
  end.

(* a contract established from a later state is a contract from an earlier one *)
Lemma wp_keeps_trans {A} (m : M A) (s0 s : st) k :
  keeps s0 s -> wp m (post_keeps s k) s -> wp m (post_keeps s0 k) s.
Proof.
  intros K H. eapply wp_mono; [exact H|]. intros a s' [K' B]. split; [eapply keeps_trans; eauto|exact B].
Qed.

(* ---------------- flag accessors: only flags are touched ---------------- *)
Lemma keeps_set_ska b (s : st) : keeps s (set_ska b s).
Proof. unfold keeps; cbn; repeat split; auto. Qed.

Lemma wp_allow_simple_key (Q : unit -> st -> Prop) s :
  (forall s', keeps s s' -> bl s' = bl s -> (forall i, bnth s' i = bnth s i) -> Q tt s') -> wp allow_simple_key Q s.
Proof.
  intros HQ. unfold allow_simple_key. apply wp_modify. apply HQ; [apply keeps_set_ska|reflexivity|reflexivity].
Qed.
Lemma wp_disallow_simple_key (Q : unit -> st -> Prop) s :
  (forall s', keeps s s' -> bl s' = bl s -> (forall i, bnth s' i = bnth s i) -> Q tt s') -> wp disallow_simple_key Q s.
Proof.
  intros HQ. unfold disallow_simple_key. apply wp_modify. apply HQ; [apply keeps_set_ska|reflexivity|reflexivity].
Qed.
Lemma wp_flow_level (Q : N -> st -> Prop) s : Q (sc_flow_level s) s -> wp flow_level Q s.
Proof. auto. Qed.
Lemma wp_in_flow (Q : bool -> st -> Prop) s : Q (0 <? sc_flow_level s)%N s -> wp in_flow Q s.
Proof. auto. Qed.
Lemma wp_is_within_block (Q : bool -> st -> Prop) s :
  Q (match sc_indents s with [] => false | _ => true end) s -> wp is_within_block Q s.
Proof. auto. Qed.

Section SafePrim.
Variable cap : nat.
Hypothesis cap_ge : 8 <= cap.
Notation bops := (bops cap).

(* ---------------- in_skip_while / in_fetch_while_alpha ---------------- *)
(* strongest form: only the input changes; at exit one character is buffered and it fails the predicate *)
Lemma wp_in_skip_while_sbi F p (Q : N -> st -> Prop) s :
  (forall k s', same_but_input s s' -> 1 <= bl s' -> p (bnth s' 0) = false -> Q k s') ->
  wp (in_skip_while bops F p) Q s.
Proof.
  intros HQ. unfold in_skip_while.
  match goal with |- wp (?L F 0%N) _ _ =>
    assert (HL : forall f k s1, same_but_input s s1 -> wp (L f k) Q s1) end.
  { induction f as [|f IHf]; intros k s1 S1; [exact I|]. lazy beta iota.
    apply wp_bind. apply (wp_look_ch_val cap cap_ge). intros s2 S2 B2 _ _.
    destruct (p (bnth s2 0)) eqn:E.
    - apply wp_bind. apply (wp_in_skip cap cap_ge). intros s3 S3 _. apply IHf. sbi.
    - apply wp_ret. apply HQ; [sbi|exact B2|exact E]. }
  apply HL. sbi.
Qed.

Lemma wp_in_skip_while F p (Q : N -> st -> Prop) s :
  (forall k s', keeps s s' -> 1 <= bl s' -> p (bnth s' 0) = false -> Q k s') ->
  wp (in_skip_while bops F p) Q s.
Proof. intros HQ. apply wp_in_skip_while_sbi. intros k s' S B E. apply HQ; [kp|exact B|exact E]. Qed.

Lemma wp_in_skip_while_non_breakz_sbi F (Q : N -> st -> Prop) s :
  (forall k s', same_but_input s s' -> 1 <= bl s' -> is_breakz (bnth s' 0) = true -> Q k s') ->
  wp (in_skip_while_non_breakz bops F) Q s.
Proof.
  intros HQ. unfold in_skip_while_non_breakz. apply wp_in_skip_while_sbi. intros k s' S B E.
  apply HQ; [exact S|exact B|apply negb_false_iff; exact E].
Qed.
Lemma wp_in_skip_while_non_breakz F (Q : N -> st -> Prop) s :
  (forall k s', keeps s s' -> 1 <= bl s' -> is_breakz (bnth s' 0) = true -> Q k s') ->
  wp (in_skip_while_non_breakz bops F) Q s.
Proof. intros HQ. apply wp_in_skip_while_non_breakz_sbi. intros k s' S B E. apply HQ; [kp|exact B|exact E]. Qed.

Lemma wp_in_skip_while_blank_sbi F (Q : N -> st -> Prop) s :
  (forall k s', same_but_input s s' -> 1 <= bl s' -> is_blank (bnth s' 0) = false -> Q k s') ->
  wp (in_skip_while_blank bops F) Q s.
Proof. intros HQ. unfold in_skip_while_blank. apply wp_in_skip_while_sbi. exact HQ. Qed.
Lemma wp_in_skip_while_blank F (Q : N -> st -> Prop) s :
  (forall k s', keeps s s' -> 1 <= bl s' -> is_blank (bnth s' 0) = false -> Q k s') ->
  wp (in_skip_while_blank bops F) Q s.
Proof. intros HQ. apply wp_in_skip_while_blank_sbi. intros k s' S B E. apply HQ; [kp|exact B|exact E]. Qed.

Lemma wp_in_fetch_while_alpha_sbi F acc (Q : list chr * N -> st -> Prop) s :
  (forall r s', same_but_input s s' -> 1 <= bl s' -> is_alpha (bnth s' 0) = false -> Q r s') ->
  wp (in_fetch_while_alpha bops F acc) Q s.
Proof.
  intros HQ. unfold in_fetch_while_alpha.
  match goal with |- wp (?L F acc 0%N) _ _ =>
    assert (HL : forall f a k s1, same_but_input s s1 -> wp (L f a k) Q s1) end.
  { induction f as [|f IHf]; intros a k s1 S1; [exact I|]. lazy beta iota.
    apply wp_bind. apply (wp_look_ch_val cap cap_ge). intros s2 S2 B2 _ _.
    destruct (is_alpha (bnth s2 0)) eqn:E.
    - apply wp_bind. apply (wp_in_skip cap cap_ge). intros s3 S3 _. apply IHf. sbi.
    - apply wp_ret. apply HQ; [sbi|exact B2|exact E]. }
  apply HL. sbi.
Qed.
Lemma wp_in_fetch_while_alpha F acc (Q : list chr * N -> st -> Prop) s :
  (forall r s', keeps s s' -> 1 <= bl s' -> is_alpha (bnth s' 0) = false -> Q r s') ->
  wp (in_fetch_while_alpha bops F acc) Q s.
Proof. intros HQ. apply wp_in_fetch_while_alpha_sbi. intros r s' S B E. apply HQ; [kp|exact B|exact E]. Qed.

(* ---------------- in_skip_ws_to_eol (with its nested comment loop) ---------------- *)
Lemma wp_in_skip_ws_to_eol_sbi F stb tab ws n (Q : N * option (bool * bool) -> st -> Prop) s :
  (forall r s', same_but_input s s' -> 1 <= bl s' -> Q r s') ->
  wp (in_skip_ws_to_eol bops F stb tab ws n) Q s.
Proof.
  revert tab ws n s. induction F as [|F IHF]; intros tab ws n s HQ; [exact I|].
  cbn [in_skip_ws_to_eol].
  apply wp_bind. apply (wp_look_ch cap cap_ge). intros c s1 S1 B1 _.
  destruct (c =? 32)%N.
  { apply wp_bind. apply (wp_in_skip cap cap_ge). intros s2 S2 _. apply IHF.
    intros r s' S3 B3. apply HQ; [sbi|exact B3]. }
  match goal with |- wp (if ?b then _ else _) _ _ => destruct b end.
  { apply wp_bind. apply (wp_in_skip cap cap_ge). intros s2 S2 _. apply IHF.
    intros r s' S3 B3. apply HQ; [sbi|exact B3]. }
  destruct (c =? 35)%N; [|apply wp_ret; apply HQ; [sbi|exact B1]].
  destruct (negb tab && negb ws); [apply wp_ret; apply HQ; [sbi|exact B1]|].
  apply wp_bind. apply (wp_in_skip cap cap_ge). intros s2 S2 _.
  match goal with |- wp (?L F n) _ _ =>
    assert (HL : forall f k s3, same_but_input s s3 -> wp (L f k) Q s3) end.
  { induction f as [|f IHf]; intros k s3 S3; [exact I|]. lazy beta iota.
    apply wp_bind. apply (wp_look_ch cap cap_ge). intros c' s4 S4 B4 _.
    destruct (is_breakz c').
    - apply IHF. intros r s' S5 B5. apply HQ; [sbi|exact B5].
    - apply wp_bind. apply (wp_in_skip cap cap_ge). intros s5 S5 _. apply IHf. sbi. }
  apply HL. sbi.
Qed.

Lemma wp_in_skip_ws_to_eol F stb tab ws n (Q : N * option (bool * bool) -> st -> Prop) s :
  (forall r s', keeps s s' -> 1 <= bl s' -> Q r s') ->
  wp (in_skip_ws_to_eol bops F stb tab ws n) Q s.
Proof. intros HQ. apply wp_in_skip_ws_to_eol_sbi. intros r s' S B. apply HQ; [kp|exact B]. Qed.

(* ---------------- the contracts ---------------- *)
Theorem safe_skip_ws_to_eol : spec_skip_ws_to_eol cap.
Proof.
  intros F stb s. unfold skip_ws_to_eol.
  apply wp_bind. apply wp_in_skip_ws_to_eol. intros r s1 K1 B1.
  apply wp_bind. apply wp_adv_mark. intros s2 K2 B2.
  destruct (snd r) as [tw|].
  - apply wp_ret. unfold post_keeps. split; [kp|lia].
  - apply wp_bind. apply wp_mark. apply wp_fail.
Qed.

Theorem safe_skip_to_next_token : spec_skip_to_next_token cap.
Proof.
  intros F. induction F as [|F IHF]; intros s; [exact I|].
  cbn [skip_to_next_token].
  apply wp_bind. apply (wp_look_ch cap cap_ge). intros c s1 S1 B1 _.
  apply wp_bind. apply wp_get. apply wp_bind. apply wp_is_within_block. cbv beta.
  match goal with |- wp (if ?b then _ else _) _ _ => destruct b end.
  { apply wp_bind. eapply wp_mono; [apply safe_skip_ws_to_eol|]. intros tw s2 [K2 B2].
    apply wp_bind. apply (wp_next_is cap cap_ge); [exact B2|]. intros b. destruct b.
    - apply (wp_keeps_trans _ s s2); [kp|apply IHF].
    - apply wp_bind. apply wp_mark. apply wp_fail. }
  match goal with |- wp (if ?b then _ else _) _ _ => destruct b end.
  { apply wp_bind. apply (wp_skip_blank cap cap_ge). intros s2 K2 _.
    apply (wp_keeps_trans _ s s2); [kp|apply IHF]. }
  match goal with |- wp (if ?b then _ else _) _ _ => destruct b end.
  { apply wp_bind. apply (wp_look cap cap_ge); [lia|]. intros s2 S2 B2 _ _.
    apply wp_bind. apply (wp_skip_linebreak cap cap_ge); [exact B2|]. intros s3 K3 _.
    apply wp_bind. apply wp_flow_level. cbv beta.
    apply wp_bind. destruct (sc_flow_level s3 =? 0)%N.
    - apply wp_allow_simple_key. intros s4 K4 _ _. apply (wp_keeps_trans _ s s4); [kp|apply IHF].
    - apply wp_ret. apply (wp_keeps_trans _ s s3); [kp|apply IHF]. }
  match goal with |- wp (if ?b then _ else _) _ _ => destruct b end.
  { apply wp_bind. apply wp_in_skip_while_non_breakz. intros n s2 K2 _ _.
    apply wp_bind. apply wp_adv_mark. intros s3 K3 _.
    apply (wp_keeps_trans _ s s3); [kp|apply IHF]. }
  apply wp_ret. unfold post_keeps. split; [kp|exact B1].
Qed.

Theorem safe_skip_yaml_whitespace : spec_skip_yaml_whitespace cap.
Proof.
  intros F s. unfold skip_yaml_whitespace.
  match goal with |- wp (?L F true) _ _ =>
    assert (HL : forall f need s1, wp (L f need) (post_keeps s1 1) s1) end.
  { clear s. induction f as [|f IHf]; intros need s; [exact I|]. lazy beta iota.
    apply wp_bind. apply (wp_look_ch cap cap_ge). intros c s1 S1 B1 _.
    destruct (c =? 32)%N.
    { apply wp_bind. apply (wp_skip_blank cap cap_ge). intros s2 K2 _.
      apply (wp_keeps_trans _ s s2); [kp|apply IHf]. }
    match goal with |- wp (if ?b then _ else _) _ _ => destruct b end.
    { apply wp_bind. apply (wp_look cap cap_ge); [lia|]. intros s2 S2 B2 _ _.
      apply wp_bind. apply (wp_skip_linebreak cap cap_ge); [exact B2|]. intros s3 K3 _.
      apply wp_bind. apply wp_flow_level. cbv beta.
      apply wp_bind. destruct (sc_flow_level s3 =? 0)%N.
      - apply wp_allow_simple_key. intros s4 K4 _ _. apply (wp_keeps_trans _ s s4); [kp|apply IHf].
      - apply wp_ret. apply (wp_keeps_trans _ s s3); [kp|apply IHf]. }
    destruct (c =? 35)%N.
    { apply wp_bind. apply wp_in_skip_while_non_breakz. intros n s2 K2 _ _.
      apply wp_bind. apply wp_adv_mark. intros s3 K3 _.
      apply (wp_keeps_trans _ s s3); [kp|apply IHf]. }
    destruct need.
    - apply wp_bind. apply wp_mark. apply wp_fail.
    - apply wp_ret. unfold post_keeps. split; [kp|exact B1]. }
  apply HL.
Qed.

End SafePrim.

Print Assumptions safe_skip_ws_to_eol.
Print Assumptions safe_skip_to_next_token.
Print Assumptions safe_skip_yaml_whitespace.
