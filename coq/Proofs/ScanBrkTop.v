(* C14 "the line-break style does not change the parse": ASSEMBLY at the pipeline level.

   For a CR-free text [x] and its image [img md x] (every LF replaced by CR LF, [md = CRLF], or by a lone CR,
   [md = CR]) the pipelines [run_str x] and [run_str (img md x)] (scanner + parser, each with the fuels computed from
   its own length) produce [EVR]-related event lists (the same events; spans with the same lines and columns, only
   the character index differs) and related ends ([PER]: both [PDone], or the same scanner / parser error site at
   markers with the same line and column) - unless a run ends in fuel / panic.

   Two versions:
   * [run_str_brk] from the scanner-level contract [brk_scan_all md] (ScanBrk.v).  That contract says nothing about
     the TOKENS of a scanner run that ends in [SFuel]/[SPanic], and the parser may well end properly on such a token
     list (a parse error before the point where the scanner broke off).  So the exception here is: one of the two
     SCANNER runs, or one of the two pipelines, ends in fuel / panic.
   * [run_str_brk_strong] from the contract of ONE scanner step, [brk_next_token md] (from which [brk_scan_all md]
     follows: [brk_scan_all_of_next_token]): a scanner run that broke off has delivered tokens related to a PREFIX
     of the other run's tokens ([scan_all_brk_tri]), and the parser reads its tokens front to back, so the
     exception is only: one of the two PIPELINES ends in fuel / panic. *)
From Coq Require Import List NArith ZArith Bool Arith Lia.
Import ListNotations.
Require Import Parser SBase SPrim SDir SScalar SFetch Pipe BreakProofs ScanBrk ScanBrkParse.
Require ScanRelTop.
Local Open Scope nat_scope.

(* the scanner run inside [run_str y] *)
Definition str_scan (y : list N) : list token * scan_end :=
  scan_all sops (2 * length y + 10) (4 * (2 * length y + 10) + 20) (init_sc {| si_chars := y; si_look := 0 |}) [].
Definition str_fuel (y : list N) : nat := 4 * (4 * (2 * length y + 10) + 20) + 40.
Definition initp (toks : list token) : parser :=
  {| p_toks := toks; p_token := None; p_states := []; p_state := SStreamStart;
     p_anchors := []; p_anchor_id := 1%N; p_tags := []; p_keep_tags := false |}.

Lemma run_str_scan y : run_str y = parse_all (str_fuel y) (initp (fst (str_scan y))) (snd (str_scan y)) [].
Proof. exact (ScanRelTop.run_str_of y). Qed.

Lemma PR_init T1 T2 : Forall2 TR T1 T2 -> PR (initp T1) (initp T2).
Proof.
  intros H. constructor; cbn [initp p_toks p_token p_states p_state p_anchors p_anchor_id p_tags p_keep_tags];
    try reflexivity; try constructor. exact H.
Qed.
Lemma ext_initp a b : ext b (initp a) = initp (a ++ b).
Proof. reflexivity. Qed.

Lemma proper_or_bad e : proper_end e \/ se_bad e.
Proof. destruct e; cbn; auto. Qed.
Lemma proper_not_bad e : proper_end e -> se_bad e -> False.
Proof. destruct e; cbn; auto. Qed.

Lemma ER_bad_l e1 e2 : se_bad e1 -> ER e1 e2.
Proof. destruct e1, e2; cbn; auto; contradiction. Qed.
Lemma ER_bad_r e1 e2 : se_bad e2 -> ER e1 e2.
Proof. destruct e1, e2; cbn; auto; contradiction. Qed.

(* ================================================================================================ *)
(* 1. From the contract of the whole scan                                                           *)
(* ================================================================================================ *)
Section Top.
Variable md : mode.
Hypothesis H_all : brk_scan_all md.

Theorem run_str_brk_sec x : nocr x ->
  se_bad (snd (str_scan x)) \/ se_bad (snd (str_scan (img md x))) \/ run_rel (run_str x) (run_str (img md x)).
Proof.
  intros Hx. rewrite !run_str_scan.
  assert (HT : ER (snd (str_scan x)) (snd (str_scan (img md x)))
               /\ (proper_end (snd (str_scan x)) -> proper_end (snd (str_scan (img md x))) ->
                   Forall2 TR (fst (str_scan x)) (fst (str_scan (img md x)))))
    by (unfold str_scan; apply (brk_target_of_scan_all md H_all x Hx)).
  destruct HT as [HE HF].
  destruct (proper_or_bad (snd (str_scan x))) as [P1|B1]; [|left; exact B1].
  destruct (proper_or_bad (snd (str_scan (img md x)))) as [P2|B2]; [|right; left; exact B2].
  right. right. apply parse_all_brk; [apply PR_init; exact (HF P1 P2)|exact HE|constructor].
Qed.
End Top.

(* ================================================================================================ *)
(* 2. From the contract of one scanner step: a run that broke off has delivered a related prefix    *)
(* ================================================================================================ *)
Definition scan_tri (r1 r2 : list token * scan_end) : Prop :=
  (proper_end (snd r1) /\ proper_end (snd r2) /\ ER (snd r1) (snd r2) /\ Forall2 TR (fst r1) (fst r2))
  \/ (se_bad (snd r1) /\ exists a b, fst r2 = a ++ b /\ Forall2 TR (fst r1) a)
  \/ (se_bad (snd r2) /\ exists a b, fst r1 = a ++ b /\ Forall2 TR a (fst r2)).

Section Strong.
Variable md : mode.
Hypothesis H_nt : brk_next_token md.

Theorem scan_all_brk_tri F1 F2 : forall n1 n2 s1 s2 acc1 acc2, BR md s1 s2 -> Forall2 TR acc1 acc2 ->
  scan_tri (scan_all sops F1 n1 s1 acc1) (scan_all sops F2 n2 s2 acc2).
Proof.
  induction n1 as [|n1 IH]; intros n2 s1 s2 acc1 acc2 HB HA.
  { right. left. cbn [scan_all fst snd]. split; [exact I|].
    destruct (ScanRelTop.scan_all_extends sops F2 n2 s2 acc2) as [x Hx].
    exists (rev acc2), x. split; [exact Hx|apply F2_rev; exact HA]. }
  destruct n2 as [|n2].
  { right. right. cbn [scan_all fst snd]. split; [exact I|].
    destruct (ScanRelTop.scan_all_extends sops F1 (S n1) s1 acc1) as [x Hx].
    exists (rev acc1), x. split; [exact Hx|apply F2_rev; exact HA]. }
  pose proof (ScanRelTop.scan_all_extends sops F1 (S n1) s1 acc1) as X1.
  pose proof (ScanRelTop.scan_all_extends sops F2 (S n2) s2 acc2) as X2.
  pose proof (bwp_elim _ _ _ _ _ (H_nt F1 F2 s1 s2 HB)) as H.
  cbn [scan_all] in *. revert X1 X2 H.
  destruct (next_token sops F1 s1) as [[[t1|] u1]|e1 k1|m1|];
    destruct (next_token sops F2 s2) as [[[t2|] u2]|e2 k2|m2|]; intros X1 X2 H;
    try contradiction;
    try (right; left; cbn [fst snd]; split; [exact I|]; destruct X2 as [x Hx];
         exists (rev acc2), x; split; [exact Hx|apply F2_rev; exact HA]);
    try (right; right; cbn [fst snd]; split; [exact I|]; destruct X1 as [x Hx];
         exists (rev acc1), x; split; [exact Hx|apply F2_rev; exact HA]).
  - destruct H as [HT HU]. apply IH; [exact HU|constructor; [exact HT|exact HA]].
  - destruct H as [[] _].
  - destruct H as [[] _].
  - left. cbn [fst snd proper_end ER]. repeat split. apply F2_rev. exact HA.
  - left. cbn [fst snd proper_end ER]. split; [exact I|split; [exact I|split; [exact H|apply F2_rev; exact HA]]].
Qed.

(* the contract of the whole scan follows *)
Theorem brk_scan_all_of_next_token : brk_scan_all md.
Proof.
  intros F1 F2 n1 n2 s1 s2 acc1 acc2 HB HA.
  destruct (scan_all_brk_tri F1 F2 n1 n2 s1 s2 acc1 acc2 HB HA) as [(P1 & P2 & HE & HF)|[[B _]|[B _]]].
  - split; [exact HE|intros _ _; exact HF].
  - split; [apply ER_bad_l; exact B|intros P; destruct (proper_not_bad _ P B)].
  - split; [apply ER_bad_r; exact B|intros _ P; destruct (proper_not_bad _ P B)].
Qed.

Theorem run_str_brk_strong_sec x : nocr x -> run_rel (run_str x) (run_str (img md x)).
Proof.
  intros Hx. rewrite !run_str_scan.
  assert (HT : scan_tri (str_scan x) (str_scan (img md x)))
    by (unfold str_scan; apply scan_all_brk_tri; [apply BR_init; exact Hx|constructor]).
  destruct HT as [(P1 & P2 & HE & HF)|[[B (a & b & E & HF)]|[B (a & b & E & HF)]]].
  - apply parse_all_brk; [apply PR_init; exact HF|exact HE|constructor].
  - rewrite E, <- ext_initp. apply parse_all_brk_ext_r; [apply PR_init; exact HF|exact B|constructor].
  - rewrite E, <- ext_initp. apply parse_all_brk_ext_l; [apply PR_init; exact HF|exact B|constructor].
Qed.
End Strong.

(* ================================================================================================ *)
(* 3. The exported theorems                                                                         *)
(* ================================================================================================ *)
Theorem run_str_brk : forall md, brk_scan_all md -> forall x, nocr x ->
  se_bad (snd (str_scan x)) \/ se_bad (snd (str_scan (img md x)))
  \/ pend_bad (snd (run_str x)) \/ pend_bad (snd (run_str (img md x)))
  \/ (Forall2 EVR (fst (run_str x)) (fst (run_str (img md x))) /\ PER (snd (run_str x)) (snd (run_str (img md x)))).
Proof.
  intros md H x Hx. destruct (run_str_brk_sec md H x Hx) as [B|[B|[B|[B|R]]]]; auto 10.
Qed.

(* both scanner runs and both pipelines end properly: the same events, the same end *)
Corollary run_str_brk_proper : forall md, brk_scan_all md -> forall x, nocr x ->
  proper_end (snd (str_scan x)) -> proper_end (snd (str_scan (img md x))) ->
  pend_proper (snd (run_str x)) -> pend_proper (snd (run_str (img md x))) ->
  Forall2 EVR (fst (run_str x)) (fst (run_str (img md x))) /\ PER (snd (run_str x)) (snd (run_str (img md x))).
Proof.
  intros md H x Hx S1 S2 P1 P2. destruct (run_str_brk_sec md H x Hx) as [B|[B|R]].
  - destruct (proper_not_bad _ S1 B).
  - destruct (proper_not_bad _ S2 B).
  - apply run_rel_proper; assumption.
Qed.

Theorem run_str_brk_strong : forall md, brk_next_token md -> forall x, nocr x ->
  pend_bad (snd (run_str x)) \/ pend_bad (snd (run_str (img md x)))
  \/ (Forall2 EVR (fst (run_str x)) (fst (run_str (img md x))) /\ PER (snd (run_str x)) (snd (run_str (img md x)))).
Proof. intros md H x Hx. exact (run_str_brk_strong_sec md H x Hx). Qed.

Corollary run_str_brk_strong_proper : forall md, brk_next_token md -> forall x, nocr x ->
  pend_proper (snd (run_str x)) -> pend_proper (snd (run_str (img md x))) ->
  Forall2 EVR (fst (run_str x)) (fst (run_str (img md x))) /\ PER (snd (run_str x)) (snd (run_str (img md x))).
Proof. intros md H x Hx P1 P2. apply run_rel_proper; [exact (run_str_brk_strong_sec md H x Hx)|exact P1|exact P2]. Qed.

(* ---- the two modes: LF -> CR LF ([crlf]) and LF -> CR ([cr]) of BreakProofs.v ---- *)
Theorem run_str_crlf : brk_scan_all CRLF -> forall x, nocr x ->
  se_bad (snd (str_scan x)) \/ se_bad (snd (str_scan (crlf x)))
  \/ pend_bad (snd (run_str x)) \/ pend_bad (snd (run_str (crlf x)))
  \/ (Forall2 EVR (fst (run_str x)) (fst (run_str (crlf x))) /\ PER (snd (run_str x)) (snd (run_str (crlf x)))).
Proof. intros H x Hx. rewrite <- (img_crlf x). exact (run_str_brk CRLF H x Hx). Qed.
Theorem run_str_cr : brk_scan_all CR -> forall x, nocr x ->
  se_bad (snd (str_scan x)) \/ se_bad (snd (str_scan (cr x)))
  \/ pend_bad (snd (run_str x)) \/ pend_bad (snd (run_str (cr x)))
  \/ (Forall2 EVR (fst (run_str x)) (fst (run_str (cr x))) /\ PER (snd (run_str x)) (snd (run_str (cr x)))).
Proof. intros H x Hx. rewrite <- (img_cr x). exact (run_str_brk CR H x Hx). Qed.

Theorem run_str_crlf_strong : brk_next_token CRLF -> forall x, nocr x ->
  pend_bad (snd (run_str x)) \/ pend_bad (snd (run_str (crlf x)))
  \/ (Forall2 EVR (fst (run_str x)) (fst (run_str (crlf x))) /\ PER (snd (run_str x)) (snd (run_str (crlf x)))).
Proof. intros H x Hx. rewrite <- (img_crlf x). exact (run_str_brk_strong CRLF H x Hx). Qed.
Theorem run_str_cr_strong : brk_next_token CR -> forall x, nocr x ->
  pend_bad (snd (run_str x)) \/ pend_bad (snd (run_str (cr x)))
  \/ (Forall2 EVR (fst (run_str x)) (fst (run_str (cr x))) /\ PER (snd (run_str x)) (snd (run_str (cr x)))).
Proof. intros H x Hx. rewrite <- (img_cr x). exact (run_str_brk_strong CR H x Hx). Qed.

Print Assumptions run_str_brk.
Print Assumptions run_str_brk_proper.
Print Assumptions scan_all_brk_tri.
Print Assumptions brk_scan_all_of_next_token.
Print Assumptions run_str_brk_strong.
Print Assumptions run_str_brk_strong_proper.
Print Assumptions run_str_crlf.
Print Assumptions run_str_cr.
Print Assumptions run_str_crlf_strong.
Print Assumptions run_str_cr_strong.
