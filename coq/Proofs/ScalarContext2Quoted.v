(* C04 in document context, part 6: scan_flow_scalar on a presentation of the specification whose follower continues on a
   later line -- blanks, then a line feed (or the end of the input) -- WITH the input that is left ([drop_leading rest]).
   [scan_flow_scalar_ws] of Proofs/ScalarContextQuoted.v uses its hypothesis [ws_only rest] only through the first character
   behind the blanks and (single-quoted) the character behind the closing quote; this is the same proof with exactly these
   two facts as hypotheses. *)
From Coq Require Import List NArith ZArith Bool Arith Lia.
Import ListNotations.
Require Import Parser SBase SPrim SDir SScalar SFetch Pipe FlowFold FlowScalarProofs PlainScalarProofs QuotedFoldProofs ScalarContextQuoted.
Open Scope N_scope.
Open Scope mon_scope.

Definition brk_head (rest : list N) : Prop := nth 0 (drop_leading rest) 0 = 0 \/ nth 0 (drop_leading rest) 0 = 10.

Section FinishBrk.
Variable s0 : sc strin.
Notation ops := str_ops.
Notation st := (st_with s0).

Lemma finish_brk F single start str rest l m w :
  brk_head rest -> (length rest + 2 <= F)%nat ->
  exists sp s',
    finish_flow_scalar F single start str (st (quote_of single :: rest) l m w)
    = Ok ((sp, TScalar (style_of single) (rev str)), s') /\ sp_start sp = start /\ si_chars (sc_in s') = drop_leading rest.
Proof.
  intros Hws HF. unfold finish_flow_scalar.
  mstep (skip_non_blank_st s0 (quote_of single :: rest) l m w). cbn [tl].
  unfold skip_ws_to_eol. rewrite bind_assoc.
  destruct (split_leading rest) as [Hsplit [Hbs Hhd]].
  set (bs := take_leading rest) in *. set (r := drop_leading rest) in *.
  assert (Hlen : length rest = (length bs + length r)%nat) by (rewrite Hsplit at 1; apply app_length).
  assert (Hr : nth 0 r 0 = 0 \/ nth 0 r 0 = 10) by exact Hws.
  assert (Hskip : exists k tab ws l',
             in_skip_ws_to_eol ops F SkipYes false false 0 (st rest l (adv 1 m) false) = Ok ((k, Some (tab, ws)), st r l' (adv 1 m) false)).
  { rewrite Hsplit.
    destruct (ws_blanks s0 bs (F - length bs) false false 0 r l (adv 1 m) false Hbs) as [l1 E1].
    replace (length bs + (F - length bs))%nat with F in E1 by lia.
    replace (F - length bs)%nat with (S (F - length bs - 1)) in E1 by lia.
    rewrite ws_stop in E1; [ | destruct Hr as [-> | ->]; reflexivity ..].
    eexists; eexists; eexists; eexists. exact E1. }
  destruct Hskip as [k [tab [ws [l' E]]]].
  mstep E. cbn [fst snd]. rewrite bind_assoc.
  assert (E2 : adv_mark k (st r l' (adv 1 m) false) = Ok (tt, st r l' (adv k (adv 1 m)) false)) by reflexivity.
  mstep E2. rewrite (bind_Ok (ret (tab, ws)) _ _ _ _ eq_refl).
  unfold peek. mstep (peekn_st 0 s0 r l' (adv k (adv 1 m)) false).
  mstep (get_st s0 r l' (adv k (adv 1 m)) false).
  cbn [sc_flow_level sc_mark st_with].
  match goal with |- context [if ?c then _ else _] => assert (Hacc : c = true) end.
  { destruct Hr as [-> | ->]; rewrite orb_true_r; reflexivity. }
  rewrite Hacc. eexists; eexists. split; [destruct single; reflexivity|]. split; reflexivity.
Qed.
End FinishBrk.

(* C04_quoted_full for a follower whose first non-blank character is a line feed (or that is blank up to the end of the
   input), with the input that is left *)
Theorem scan_flow_scalar_brk :
  forall (F : nat) (single : bool) (n : nat) (first : list dq_item) (more : list (brk_layout * list dq_item))
         (rest : list N) (s : sc strin),
    (if single then sq_layout_wf n first more else dq_layout_wf n first more) = true ->
    let src := if single then sq_render first more else dq_render first more in
    si_chars (sc_in s) = quote_of single :: src ++ quote_of single :: rest ->
    brk_head rest -> (single = true -> (nth 0 rest 0 =? 39) = false) ->
    (sc_indent s < Z.of_nat n)%Z ->
    (sc_indent s <= Z.of_N (m_col (sc_mark s)) + 1)%Z ->
    (2 * length (si_chars (sc_in s)) + 10 <= F)%nat ->
    exists sp s',
      scan_flow_scalar str_ops F single s = Ok ((sp, TScalar (style_of single) (dq_text first more)), s')
      /\ sp_start sp = sc_mark s /\ si_chars (sc_in s') = drop_leading rest.
Proof.
  intros F single n first more rest s Hwf src Hsrc Hws Hclose Hn Hcol HF.
  assert (Hlay : forallb (iwf single) first = true /\ seg_rest_wf (iwf single) (isrc single) n first more = true
                 /\ (single = true -> forallb (fun p => negb (bl_escaped (fst p))) more = true)
                 /\ src = ssrc single first ++ rest_src single more).
  { subst src. destruct single.
    - unfold sq_layout_wf in Hwf. apply andb_prop in Hwf. destruct Hwf as [Hwf H3]. apply andb_prop in Hwf. destruct Hwf as [H1 H2].
      repeat split; auto.
    - unfold dq_layout_wf in Hwf. apply andb_prop in Hwf. destruct Hwf as [H1 H2]. repeat split; auto. discriminate. }
  destruct Hlay as [Hfirst [Hrest [Hsq Esrc]]]. clearbody src. subst src. clear Hwf.
  set (q := quote_of single) in *.
  assert (Hrun : scan_flow_scalar str_ops F single s
                 = (start <- mark ;; skip_non_blank str_ops ;;; str <- loop F single start F [] false 0 [] ;; finish_flow_scalar F single start str)
                     (st_with s (q :: (ssrc single first ++ rest_src single more) ++ q :: rest) (si_look (sc_in s)) (sc_mark s) (sc_lws s))).
  { rewrite scan_flow_scalar_phases. f_equal. rewrite <- Hsrc. apply st_with_id. }
  rewrite Hrun. clear Hrun.
  set (l := si_look (sc_in s)). set (m := sc_mark s). set (w := sc_lws s).
  mstep (mark_st s (q :: (ssrc single first ++ rest_src single more) ++ q :: rest) l m w).
  mstep (skip_non_blank_st s (q :: (ssrc single first ++ rest_src single more) ++ q :: rest) l m w). cbn [tl].
  rewrite <- app_assoc.
  rewrite Hsrc in HF. cbn [length] in HF. rewrite !app_length in HF. cbn [length] in HF.
  destruct (segs_run F single m s n Hn rest Hclose more first Hrest Hsq) as [[x' [tail' [Eafter [Hsep' Hend']]]] Hruns].
  assert (Hml : (length more <= length (rest_src single more))%nat).
  { clear. induction more as [|[b seg] more IH]; [cbn; lia|]. cbn [rest_src flat_map length fst snd]. fold (rest_src single more).
    rewrite !app_length. assert (1 <= length (render_brk b))%nat by (unfold render_brk; rewrite !app_length; pose proof (nl_src_len (bl_nl b)); lia). lia. }
  assert (Hsl : (length first <= length (ssrc single first))%nat).
  { clear. induction first as [|i first IH]; [cbn; lia|]. cbn [ssrc flat_map length]. fold (ssrc single first). rewrite app_length.
    assert (1 <= length (isrc single i))%nat; [|lia].
    destruct single, i as [c| |]; cbn [isrc sq_src item_src length]; try lia. destruct (c =? 39); cbn [length]; lia. }
  assert (Hm1 : colq_ok s (adv 1 m)) by (unfold colq_ok; rewrite adv_col; unfold m; lia).
  rewrite dq_text_rest. subst q.
  destruct more as [|[b1 seg1] more'] eqn:Emore.
  - cbn [rest_src flat_map app] in *.
    pose proof (seg_from_head_m F single m s n (quote_of single) rest
                  (fun a m' o => exists l' w', o = Ok (a, st_with s (quote_of single :: rest) l' m' w')) 1%nat) as SH.
    assert (HA : forall fc f acc l0 m0 w0, (1 <= fc)%nat -> (1 <= f)%nat -> colq_ok s m0 ->
              exists l' w', bind (consume_nonws str_ops fc single acc m) (after_word F single (loop F single m f) false 0 [])
                                 (st_with s (quote_of single :: rest) l0 m0 w0) = Ok (acc, st_with s (quote_of single :: rest) l' m0 w')).
    { intros fc f acc l0 m0 w0 Hfc _ _. eexists; eexists. apply (at_quote F single m s n rest Hclose); exact Hfc. }
    destruct (SH HA (proj1 (sep_head_quote single rest Hclose)) first F [] l (adv 1 m) false Hfirst) as [l' [w' E]].
    + intros E0. exfalso. rewrite adv_col in E0. lia.
    + intros _. exact (proj2 (sep_head_quote single rest Hclose)).
    + lia.
    + lia.
    + exact Hm1.
    + mstep E.
      destruct (finish_brk s F single m (rev (map item_val first) ++ []) rest l' (adv (N.of_nat (length (ssrc single first))) (adv 1 m)) w' Hws)
        as [sp [s' [Ef [Hsp Hin]]]].
      * lia.
      * exists sp, s'. split; [|split; [exact Hsp|exact Hin]]. rewrite Ef. rewrite app_nil_r, rev_involutive. cbn [qrest_text]. rewrite app_nil_r. reflexivity.
  - rewrite <- Emore in *. rewrite Eafter.
    assert (HB : forall fc f acc l0 m0 w0, (length (rest_src single more) + length more + 2 <= fc)%nat ->
              (length (rest_src single more) + length more + 2 <= f)%nat -> colq_ok s m0 ->
              Qfin single s rest more acc
                (bind (consume_nonws str_ops fc single acc m) (after_word F single (loop F single m f) false 0 [])
                      (st_with s (x' :: tail') l0 m0 w0))).
    { intros fc f acc l0 m0 w0 Hfc Hf Hm0. rewrite <- Eafter. apply Hruns; try assumption; lia. }
    destruct (seg_from_head_m F single m s n x' tail' (fun a _ o => Qfin single s rest more a o)
                (length (rest_src single more) + length more + 2)%nat HB
                Hsep' first F [] l (adv 1 m) false Hfirst) as [l' [w' [m' E]]].
    + intros E0. exfalso. rewrite adv_col in E0. lia.
    + rewrite ends_blank_last. exact Hend'.
    + lia.
    + lia.
    + exact Hm1.
    + mstep E.
      destruct (finish_brk s F single m (rev (qrest_text more) ++ rev (map item_val first) ++ []) rest l' m' w' Hws) as [sp [s' [Ef [Hsp Hin]]]].
      * lia.
      * exists sp, s'. split; [|split; [exact Hsp|exact Hin]]. rewrite Ef. rewrite app_nil_r, rev_app_distr, !rev_involutive. reflexivity.
Qed.
