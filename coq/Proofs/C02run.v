(* Lift of the one-step invariant to whole runs of the pull parser, for arbitrary token streams. *)
From Coq Require Import List NArith Bool Lia.
Import ListNotations.
Require Import Parser SBase SPrim SDir SScalar SFetch Pipe Grammar C02base C02rest C02tail.

Definition evs_of (l : list (event * span)) : list event := map fst l.

Lemma grun_app g a b : grun g (a ++ b) = match grun g a with Some g' => grun g' b | None => None end.
Proof.
  revert g; induction a as [|e a IH]; intros g; cbn [app grun]; [reflexivity|].
  destruct (gstep g e); [apply IH|reflexivity].
Qed.

Definition init_parser (toks : list token) (keep : bool) : parser :=
  {| p_toks := toks; p_token := None; p_states := []; p_state := SStreamStart;
     p_anchors := []; p_anchor_id := 1%N; p_tags := []; p_keep_tags := keep |}.

Lemma init_inv toks keep : Inv (init_parser toks keep) GInit.
Proof. unfold Inv; cbn. auto. Qed.

(* what a run may end with: never a parser panic; a panic/fuel verdict can only be the scanner's *)
Definition end_ok (se : scan_end) (r : pend) : Prop :=
  match r with
  | PPanic n => se = SPanic n
  | _ => True
  end.

Definition step_result (fuel : nat) (p : parser) (se : scan_end) (acc : list (event * span)) :=
  match state_machine p with
  | Parser.Ok (ev, p') => parse_all fuel p' se (ev :: acc)
  | Parser.Err PErrScan =>
      (rev acc, match se with
                | SError s m => PScanErr s m
                | SPanic n => PPanic n
                | SFuel => PFuel
                | SEnded => PScanErr 0 {| m_index := 0; m_line := 0; m_col := 0 |}
                end)
  | Parser.Err (PErr s m) => (rev acc, PParseErr s m)
  | Parser.Panic n => (rev acc, PPanic n)
  end.

Lemma parse_all_S fuel p se acc :
  parse_all (S fuel) p se acc =
  match p_state p with SEnd => (rev acc, PDone) | _ => step_result fuel p se acc end.
Proof. cbn [parse_all]. destruct (p_state p); reflexivity. Qed.

Lemma parse_all_inv fuel : forall p se acc g,
  Inv p g ->
  grun GInit (evs_of (rev acc)) = Some g ->
  exists g', grun GInit (evs_of (fst (parse_all fuel p se acc))) = Some g'
             /\ (snd (parse_all fuel p se acc) = PDone -> g' = GEnd)
             /\ end_ok se (snd (parse_all fuel p se acc)).
Proof.
  induction fuel as [|fuel IH]; intros p se acc g HI Hg.
  - cbn [parse_all]. exists g. cbn [fst snd]. repeat split; auto. discriminate.
  - rewrite parse_all_S.
    assert (Hstep : p_state p <> SEnd ->
      exists g', grun GInit (evs_of (fst (step_result fuel p se acc))) = Some g'
             /\ (snd (step_result fuel p se acc) = PDone -> g' = GEnd)
             /\ end_ok se (snd (step_result fuel p se acc))).
    { intros HNE. unfold step_result.
      pose proof (state_machine_post p g HI HNE) as HP.
      destruct (state_machine p) as [[[e sp] p']|er|n].
      - destruct HP as [g' [Hs HI']].
        apply (IH p' se ((e, sp) :: acc) g' HI').
        cbn [rev]. unfold evs_of. rewrite map_app, grun_app.
        fold (evs_of (rev acc)). rewrite Hg. cbn [map fst grun]. rewrite Hs. reflexivity.
      - destruct er as [|s m].
        + exists g. cbn [fst snd]. split; [exact Hg|]. split; destruct se; cbn; auto; discriminate.
        + exists g. cbn [fst snd]. split; [exact Hg|]. split; [discriminate|exact I].
      - contradiction. }
    destruct (p_state p) eqn:ES; try (apply Hstep; discriminate).
    exists g. cbn [fst snd]. split; [exact Hg|]. split; [|exact I].
    intros _. unfold Inv in HI. rewrite ES in HI. cbn in HI. tauto.
Qed.

Theorem parser_run_wellformed toks keep se fuel :
  let r := parse_all fuel (init_parser toks keep) se [] in
  (exists g, grun GInit (evs_of (fst r)) = Some g /\ (snd r = PDone -> g = GEnd))
  /\ end_ok se (snd r).
Proof.
  cbn zeta.
  destruct (parse_all_inv fuel (init_parser toks keep) se [] GInit (init_inv _ _) eq_refl) as [g [A [B C]]].
  split; [exists g; auto | exact C].
Qed.
