(* C09 — the END-TO-END round trip for simple trees, through the whole model pipeline, without a reader hypothesis:
   emitted text = "---" LF + block text without the final line feed (EmitterRoundTripText.v); the scanner model on that
   text (EmitterRoundTripScan*.v, EmitterRoundTripHeader.v, over Proofs/ScanBlockProofs.v); the parser model and
   Parser::load (EmitterRoundTripParse.v, over the C03 parser theorem); the loader and the resolver
   (EmitterRoundTripLoad.v, over C07_refinement, T1, T4). *)
From Coq Require Import List NArith ZArith Bool Arith Lia.
Import ListNotations.
Require Import Resolver Loader SBase SFetch Pipe PipeL Emitter Parser TokenGrammar FlowText BlockText Drivers.
Require Import EmitterRoundTripDefs EmitterRoundTripText EmitterRoundTripScan EmitterRoundTripScanAll EmitterRoundTripParse EmitterRoundTripLoad.
Open Scope N_scope.

Lemma forallb_map_rt {A B} (p : B -> bool) (g : A -> B) l : forallb p (map g l) = forallb (fun x => p (g x)) l.
Proof. induction l as [|x r IH]; [reflexivity|]. cbn [map forallb]. rewrite IH. reflexivity. Qed.

Lemma node_of_nobi c : forall n inl, nobi (node_of c inl n) = true.
Proof.
  intros n. induction n as [|b|z|t|s|l IH|l IH] using node_ind_rt; intros inl; try reflexivity.
  - cbn [node_of nobi]. rewrite forallb_map_rt. apply forallb_forall. intros x Hx.
    rewrite Forall_forall in IH. apply IH, Hx.
  - cbn [node_of nobi]. rewrite forallb_map_rt. apply forallb_forall. intros x Hx.
    rewrite Forall_forall in IH. cbn [snd]. apply IH, Hx.
Qed.

(* the text of a simple tree is scanned to the tokens of its layout tree *)
Theorem simple_tree_tokens c m doc : simple_tree doc = true ->
  exists toks, scan_str (dump_doc c m doc) = (toks, SEnded)
               /\ map snd toks = wrap true false (tokens_of (blt (node_of c true doc))).
Proof.
  intros H. rewrite (emit_simple_text c m doc H).
  exact (scan_block_doc (node_of c true doc) (node_of_root_wf c doc H) (node_of_nobi c doc true) (node_of_depth c doc H)).
Qed.

(* the whole model pipeline on the emitted text delivers exactly one document: the tree *)
Theorem simple_tree_loads c m doc : simple_tree doc = true -> run_load (dump_doc c m doc) = LDocs [to_yaml doc].
Proof.
  intros H. destruct (simple_tree_tokens c m doc H) as (toks & Es & Hm).
  rewrite (emit_simple_text c m doc H) in *.
  rewrite (run_load_block_doc (node_of c true doc) (node_of_root_wf c doc H) (ex_intro _ toks (conj Es Hm))).
  destruct (load_simple_events c doc H) as (ld & -> & ->). reflexivity.
Qed.

Theorem round_trip_simple c m doc : simple_tree doc = true -> round_trip_ok c m doc = true.
Proof.
  intros H. unfold round_trip_ok. rewrite (simple_tree_loads c m doc H). apply simple_tree_value_refl.
Qed.

(* a simple tree is one of the trees C09_full quantifies over *)
Print Assumptions round_trip_simple.

(* step 1 of the proof as one statement: the emitted text is the header line and a document of the block text
   sub-language (Spec/BlockText.v) without its final line feed *)
Theorem simple_tree_text c m doc : simple_tree doc = true ->
  dump_doc c m doc = doc_header ++ blast (node_of c true doc)
  /\ bwf_root (node_of c true doc) = true /\ nobi (node_of c true doc) = true /\ (bdepth (node_of c true doc) <= 255)%nat.
Proof.
  intros H. split; [exact (emit_simple_text c m doc H)|]. split; [exact (node_of_root_wf c doc H)|].
  split; [apply node_of_nobi | exact (node_of_depth c doc H)].
Qed.

(* examples *)
(* a: [b, [1, {k: ~}], {true: 1.5, 7: x}], m: {n: [z]} *)
Definition simple_example : node :=
  NMap [ (NStr [97], NSeq [ NStr [98]; NSeq [NInt 1; NMap [(NStr [107], NNull)]];
                            NMap [(NBool true, NFloat [49; 46; 53]); (NInt 7, NStr [120])] ]);
         (NStr [109], NMap [(NStr [110], NSeq [NStr [122]])]) ].
Lemma simple_example_ok : simple_tree simple_example = true /\ ndepth simple_example = 4%nat.
Proof. vm_compute. split; reflexivity. Qed.
Lemma simple_example_round_trip : forall c m, round_trip_ok c m simple_example = true.
Proof. intros c m. apply round_trip_simple. exact (proj1 simple_example_ok). Qed.
Lemma simple_boundary :
  simple_tree (NSeq [NStr [97; 32; 98]]) = false          (* two words *)
  /\ simple_tree (NSeq [NStr w_true]) = false              (* a string that needs quotes *)
  /\ simple_tree (NSeq [NStr [97; 45; 98]]) = false        (* a-b: plain for the emitter, but '-' is no word character *)
  /\ simple_tree (NSeq []) = false /\ simple_tree (NSeq [NMap []]) = false   (* empty collections *)
  /\ simple_tree (NSeq [NInt (-1)]) = false                (* negative integer *)
  /\ simple_tree (NStr [97]) = false                       (* a scalar at the root *)
  /\ simple_tree (NMap [(NStr [97], NInt 1); (NStr [97], NInt 2)]) = false   (* repeated key *)
  /\ simple_tree (NSeq [NInt 0; NBool false; NNull; NStr [97]; NFloat [49; 101; 51]]) = true.
Proof. vm_compute. repeat split; reflexivity. Qed.
