(* C06 -- rejection lemmas, part 4: the state-level rejection theorems of Proofs/RejectScan.v for EVERY state the scanner
   reaches on ANY text, with the structural hypotheses discharged by the two global invariants that other developments prove
   for all reachable states:
     - DocScan.SkInv (C15): the implicit-flow-mapping stack has exactly flow_level entries, the indentation stack is a strictly
       increasing chain above -1, one key slot per flow level;
     - ScanSafeStrFetch.J / SInv' (no-panic proof of the string back-end): every possible key candidate points into the token
       queue (tokens_parsed <= token_number <= tokens_parsed + length queue).
   What remains as hypotheses are only the SEMANTIC facts of the situation (where the scanner stands, what the innermost
   flow level is, where the key candidate began).  Nothing of the two frameworks is modified; only their theorems are used. *)
From Coq Require Import List NArith ZArith Bool Lia.
Import ListNotations.
Require DocScan ScanSafeStrWP ScanSafeStrFetch.
Require Import Parser SBase SPrim SDir SScalar SFetch Pipe SInv Grammar C02base C02rest C02tail C02run DocReset RejectProofs RejectScan RejectFlow.

Arguments N.add : simpl never.
Arguments N.sub : simpl never.
Arguments N.eqb : simpl never.
Arguments N.ltb : simpl never.
Arguments N.leb : simpl never.
Arguments Nat.max : simpl never.
Open Scope N_scope.
Open Scope mon_scope.

Notation chars_of s := (si_chars (sc_in s)).

(* both invariants *)
Definition RInv (s : sc strin) : Prop := DocScan.SkInv s /\ ScanSafeStrFetch.J s.

Lemma RInv_init l : RInv (init_sc {| si_chars := l; si_look := 0 |}) /\ ScanSafeStrFetch.SInv' (init_sc {| si_chars := l; si_look := 0 |}).
Proof.
  split; [split|].
  - apply DocScan.SkInv_init.
  - apply (ScanSafeStrFetch.sinv'_init {| si_chars := l; si_look := 0 |}).
  - apply ScanSafeStrFetch.sinv'_init.
Qed.

(* ... hold in every state the token iterator goes through ... *)
Lemma reach_RInv F n s0 s : reach F n s0 s -> DocScan.SkInv s0 -> ScanSafeStrFetch.SInv' s0 ->
  DocScan.SkInv s /\ ScanSafeStrFetch.SInv' s.
Proof.
  induction 1 as [s|n s t s1 s2 HN HR IH]; intros H1 H2; [split; assumption|].
  apply IH.
  - exact (DocScan.next_token_SkInv str_ops F s (Some t) s1 H1 HN).
  - pose proof (ScanSafeStrFetch.ws_next_token F s H2) as W. unfold ScanSafeStrWP.wps in W.
    change ScanSafeStrWP.sops with str_ops in W. rewrite HN in W. exact W.
Qed.

(* ... and in every round of a refill *)
Lemma need_more_RInv s b s1 : RInv s -> need_more s = Ok (b, s1) -> RInv s1.
Proof.
  intros [H1 H2] E. unfold need_more in E. unfold bind at 1, get at 1 in E.
  destruct (sc_tokens s) as [|t ts].
  - inversion E; subst. split; assumption.
  - unfold bind at 1 in E. destruct (stale_simple_keys s) as [[u s']| | |] eqn:ES; try discriminate.
    unfold bind, get, ret in E. inversion E; subst. split.
    + exact (DocScan.Tr_stale_SkInv s u s1 H1 ES).
    + pose proof (ScanSafeStrFetch.ws_stale_J (fun _ s' => ScanSafeStrFetch.J s') s H2 (fun s' HJ _ _ _ => HJ)) as W.
      unfold ScanSafeStrWP.wps in W. rewrite ES in W. exact W.
Qed.

Lemma fetch_RInv F s s2 : RInv s -> fetch_next_token str_ops F s = Ok (tt, s2) -> RInv s2.
Proof.
  intros [H1 H2] E. split.
  - exact (DocScan.fetch_next_token_SkInv str_ops F s tt s2 H1 E).
  - pose proof (ScanSafeStrFetch.ws_fetch_next_token F s H2) as W. unfold ScanSafeStrWP.wps in W.
    change ScanSafeStrWP.sops with str_ops in W. rewrite E in W. apply ScanSafeStrFetch.si_J. exact W.
Qed.

Lemma rounds_RInv F k s s' : rounds F k s s' -> RInv s -> RInv s'.
Proof.
  induction 1 as [s|n s s1 s2 s3 HN HFe HR IH]; intros HI; [exact HI|].
  apply IH. apply (fetch_RInv F s1 s2); [|exact HFe]. exact (need_more_RInv s true s1 HI HN).
Qed.

(* the state in which a round of ANY scan fetches *)
Definition fetch_point (l : list N) (s1 : sc strin) : Prop :=
  exists n k s s',
    reach (scan_fuel l) n (init_sc {| si_chars := l; si_look := 0 |}) s /\ (n < 4 * scan_fuel l + 20)%nat
    /\ sc_stream_end s = false /\ sc_token_available s = false
    /\ rounds (scan_fuel l) k s s' /\ (k < scan_fuel l)%nat /\ need_more s' = Ok (true, s1).

Lemma fetch_point_RInv l s1 : fetch_point l s1 -> RInv s1.
Proof.
  intros (n & k & s & s' & HR & _ & _ & _ & HRo & _ & HN).
  destruct (RInv_init l) as [[A B] C].
  destruct (reach_RInv _ _ _ _ HR A C) as [A1 [B1 _]].
  apply (need_more_RInv s' true s1); [|exact HN]. apply (rounds_RInv _ _ _ _ HRo). split; assumption.
Qed.

Lemma fetch_point_error_rejected l s1 e m :
  fetch_point l s1 -> fetch_next_token str_ops (scan_fuel l) s1 = Err e m -> snd (run_str l) <> PDone.
Proof.
  intros (n & k & s & s' & HR & Hn & HE & HA & HRo & Hk & HN) HFe.
  exact (reachable_round_error_rejected l n k s s' s1 e m HR Hn HE HA HRo Hk HN HFe).
Qed.

(* ---- what the invariants give in flow context ---- *)
Lemma chain_sorted l : forall top, DocScan.chain top l -> sorted_from top l = true.
Proof.
  induction l as [|i r IH]; intros top H; cbn in H |- *.
  - apply Z.eqb_eq. exact H.
  - destruct H as [A B]. apply andb_true_intro. split; [apply Z.ltb_lt; exact A | apply IH; exact B].
Qed.

Lemma RInv_flow s : RInv s -> sc_flow_level s <> 0 ->
  sc_stream_start s = true /\ sorted_from (sc_indent s) (sc_indents s) = true
  /\ (exists top rest, sc_ifms s = top :: rest)
  /\ Forall (ScanSafeStrWP.sk_in_range s) (sc_sks s).
Proof.
  intros [(A1 & A2 & A3) [(B1 & B2 & B3) _]] HFL.
  assert (ES : sc_stream_start s = true).
  { destruct (sc_stream_start s); [reflexivity|]. destruct A1 as (_ & E & _). contradiction. }
  split; [exact ES|]. split; [apply chain_sorted; exact A2|]. split; [|exact B3].
  destruct (sc_ifms s) as [|top rest]; [cbn in A3; lia | eauto].
Qed.

(* ================================================================================================ *)
(* EVERY text: if, anywhere in its scan, the scanner is about to fetch in flow context and stands on a  *)
(* closer that is not of the kind of the innermost open flow collection, the text is rejected            *)
(* ================================================================================================ *)
Theorem wrong_closer_anywhere_rejected l s1 (seq : bool) :
  fetch_point l s1 ->
  sc_flow_level s1 <> 0 ->
  nth 0 (chars_of s1) 0 = (if seq then 93 else 125) ->
  is_mapping_level (hd ImPossible (sc_ifms s1)) = seq ->
  (sc_indent s1 <= Z.of_N (m_col (sc_mark s1)))%Z ->
  snd (run_str l) <> PDone.
Proof.
  intros HP HFL HC HM HI.
  destruct (RInv_flow s1 (fetch_point_RInv l s1 HP) HFL) as (ES & HS & (top & rest & Hi) & _).
  rewrite Hi in HM. cbn [hd] in HM.
  apply (fetch_point_error_rejected l s1 (if seq then 47 else 48) (sc_mark s1) HP).
  apply (mismatched_flow_closer_fetch_rejected _ s1 seq top rest ES); try assumption.
  unfold scan_fuel. lia.
Qed.

(* EVERY text: if, anywhere in its scan, the scanner is about to fetch the ':' of a pair in flow context, the innermost
   flow collection is a sequence outside an explicit key (Possible / Inside), and the pending key candidate began on an
   earlier line or more than 1024 characters before the ':', the text is rejected *)
Theorem flow_pair_key_limit_anywhere_rejected l s1 key r b rest :
  fetch_point l s1 ->
  sc_flow_level s1 <> 0 ->
  chars_of s1 = 58 :: b :: rest -> is_blank_or_breakz b = true ->
  sc_sks s1 = key :: r -> sk_possible key = true ->
  (hd ImMapping (sc_ifms s1) = ImPossible \/ hd ImMapping (sc_ifms s1) = ImInside) ->
  (m_line (sk_mark key) < m_line (sc_mark s1) \/ m_index (sk_mark key) + SIMPLE_KEY_MAX < m_index (sc_mark s1)) ->
  (sc_indent s1 <= Z.of_N (m_col (sc_mark s1)))%Z ->
  snd (run_str l) <> PDone.
Proof.
  intros HP HFL HC Hb Hk Hp Htop Hlim HI.
  destruct (RInv_flow s1 (fetch_point_RInv l s1 HP) HFL) as (ES & HS & (top & rest' & Hi) & HR).
  rewrite Hi in Htop. cbn [hd] in Htop.
  rewrite Hk in HR. inversion HR as [|x y Hrange _]; subst. destruct (Hrange Hp) as [R1 R2].
  apply (fetch_point_error_rejected l s1 98 (sc_mark s1) HP).
  rewrite (fetch_next_token_flow _ s1 ES); [ | unfold scan_fuel; lia | exact HFL
            | rewrite HC; cbn [nth]; repeat split; discriminate
            | rewrite HC; cbn [nth]; split; [discriminate | right; repeat split; discriminate] ].
  set (s4 := ahead (set_sks (sc_sks s1) (looked (looked s1 1) 1)) 4).
  unfold dispatch.
  assert (EL : (Z.of_N (m_col (sc_mark s4)) <? sc_indent s4)%Z = false) by (apply Z.ltb_ge; exact HI). rewrite EL.
  unfold bind at 1, peek at 1, peekn at 1. cbn [peek_nth str_ops].
  change (chars_of s4) with (chars_of s1). rewrite HC. cbn [nth].
  unfold bind at 1, peekn at 1. cbn [peek_nth str_ops]. change (chars_of s4) with (chars_of s1). rewrite HC. cbn [nth].
  cbv zeta. rewrite Hb.
  change (58 =? 91) with false. change (58 =? 123) with false. change (58 =? 93) with false. change (58 =? 125) with false.
  change (58 =? 44) with false. change (58 =? 45) with false. change (58 =? 63) with false. change (58 =? 58) with true.
  cbn [andb]. cbv iota.
  apply (flow_pair_key_limit_rejected _ s4 key r top rest'); try assumption.
  - left. exact HFL.
  - change (length (sc_tokens s4)) with (length (sc_tokens s1)). change (sc_tokens_parsed s4) with (sc_tokens_parsed s1). lia.
Qed.

(* not vacuous: in the scan of "[ a }" NL the state at the '}' is such a fetch point (one token delivered, two rounds of the
   refill done: '[' and 'a'), in flow context, with the sequence level on top *)
Definition wrong_closer_example : list N := [91; 32; 97; 32; 125; 10].
Lemma wrong_closer_fetch_point :
  exists s1, fetch_point wrong_closer_example s1 /\ sc_flow_level s1 <> 0 /\ nth 0 (chars_of s1) 0 = 125
             /\ is_mapping_level (hd ImPossible (sc_ifms s1)) = false
             /\ (sc_indent s1 <= Z.of_N (m_col (sc_mark s1)))%Z.
Proof.
  eexists. split.
  - exists 1%nat, 2%nat. eexists. eexists. unfold wrong_closer_example.
    refine (conj _ (conj _ (conj _ (conj _ (conj _ (conj _ _)))))).
    + reach_step. apply reach_0.
    + apply Nat.ltb_lt. vm_compute. reflexivity.
    + reflexivity.
    + reflexivity.
    + eapply rounds_S.
      * eval_exact.
      * eval_exact.
      * eapply rounds_S.
        -- eval_exact.
        -- eval_exact.
        -- apply rounds_0.
    + apply Nat.ltb_lt. vm_compute. reflexivity.
    + eval_exact.
  - cbn. repeat split; try discriminate; try lia.
Qed.
