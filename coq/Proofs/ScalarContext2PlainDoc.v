(* C04 in document context, part 4: PLAIN scalars that end the input, text -> tokens -> events, in three positions (the whole
   document, the value of a one-pair top-level mapping, the entry of a one-entry top-level sequence).  On top of
   [scan_plain_scalar_ws] (Proofs/ScalarContext2Plain.v: scan_plain_scalar with the input that is left), the frame theorem,
   [end_unit] (Proofs/ScalarContext.v) and r3c03's skeleton (Proofs/ScanBlockProofs.v). *)
From Coq Require Import List NArith ZArith Bool Arith Lia.
Import ListNotations.
Require Import Parser SBase SPrim SDir SScalar SFetch Pipe Drivers TokenGrammar FlowText BlockText ScanFlowProofs ScanBlockProofs ScanFrame TokenGrammarProofs TokenStreamProofs FlowFold FlowScalarProofs PlainScalarProofs QuotedFoldProofs ScalarContext ScalarContextQuoted ScalarContextFlow ScalarContext2Plain.
Open Scope N_scope.
Open Scope mon_scope.

#[local] Arguments N.eqb : simpl nomatch.
#[local] Arguments Nat.max : simpl nomatch.
#[local] Arguments Nat.leb : simpl nomatch.
#[local] Arguments Nat.ltb : simpl nomatch.
#[local] Arguments Nat.sub : simpl nomatch.
#[local] Arguments N.add : simpl never.
#[local] Arguments N.sub : simpl never.
#[local] Arguments N.mul : simpl never.
#[local] Arguments N.ltb : simpl nomatch.
#[local] Arguments N.leb : simpl nomatch.
#[local] Arguments Z.of_N : simpl never.
#[local] Arguments Z.ltb : simpl never.
#[local] Arguments Z.leb : simpl never.
#[local] Arguments Z.eqb : simpl never.
#[local] Arguments Z.add : simpl never.
#[local] Arguments bind {I A B} m f s /.
#[local] Arguments ret {I A} a s /.
#[local] Arguments get {I} s /.
#[local] Arguments put {I} s _ /.
#[local] Arguments modify {I} f s /.
#[local] Arguments gets {I A} f s /.
#[local] Arguments fail {I A} site m _ /.
#[local] Arguments upd {I} s i m t /.
#[local] Arguments set_in {I} i s /.
#[local] Arguments set_mark {I} m s /.
#[local] Arguments set_tokens {I} t s /.
#[local] Arguments set_flags {I} s ss se adj ska ta lws /.
#[local] Arguments set_ska {I} b s /.
#[local] Arguments set_lws {I} b s /.
#[local] Arguments set_adj {I} n s /.
#[local] Arguments set_ta {I} b s /.
#[local] Arguments set_ss {I} b s /.
#[local] Arguments set_se {I} b s /.
#[local] Arguments set_struct {I} s sks ind inds fl tp ifms /.
#[local] Arguments set_sks {I} l s /.
#[local] Arguments set_indent {I} z l s /.
#[local] Arguments set_fl {I} n s /.
#[local] Arguments set_tp {I} n s /.
#[local] Arguments set_ifms {I} l s /.
#[local] Arguments skip_to_next_token : simpl never.
#[local] Arguments stale_simple_keys : simpl never.
#[local] Arguments plain_chunk : simpl never.
#[local] Arguments plain_blanks : simpl never.
#[local] Arguments scan_plain_scalar : simpl never.
#[local] Arguments scan_block_scalar : simpl never.
#[local] Arguments scan_flow_scalar : simpl never.
#[local] Arguments fetch_stream_start : simpl never.
#[local] Arguments fetch_stream_end : simpl never.
#[local] Arguments fetch_directive : simpl never.
#[local] Arguments fetch_document_indicator : simpl never.
#[local] Arguments fetch_flow_collection_start : simpl never.
#[local] Arguments fetch_flow_collection_end : simpl never.
#[local] Arguments fetch_flow_entry : simpl never.
#[local] Arguments fetch_block_entry : simpl never.
#[local] Arguments fetch_key : simpl never.
#[local] Arguments fetch_value : simpl never.
#[local] Arguments fetch_flow_value : simpl never.
#[local] Arguments fetch_anchor : simpl never.
#[local] Arguments fetch_tag : simpl never.
#[local] Arguments fetch_block_scalar : simpl never.
#[local] Arguments fetch_flow_scalar : simpl never.
#[local] Arguments fetch_plain_scalar : simpl never.
#[local] Arguments fetch_next_token : simpl never.
#[local] Arguments fetch_more_tokens : simpl never.
#[local] Arguments next_token : simpl never.
#[local] Arguments scan_all : simpl never.
#[local] Arguments fnt_rest : simpl never.
#[local] Arguments skip_ws_to_eol : simpl never.
#[local] Arguments insert_token : simpl never.
#[local] Arguments need_comp : simpl never.
#[local] Arguments unroll_indent : simpl never.
#[local] Arguments roll_indent : simpl never.
#[local] Arguments roll_one_col_indent : simpl never.
#[local] Arguments unroll_non_block_indents : simpl never.
#[local] Arguments save_simple_key : simpl never.
#[local] Arguments popk : simpl never.
#[local] Arguments ntb : simpl never.


(* ---------- the dispatch of fetch_next_token on the first character of a plain scalar ---------- *)
Lemma nids_st s0 c l m w : (4 <= l)%nat ->
  next_is_document_start str_ops (st_with s0 c l m w)
  = Ok (((nth 0 c 0 =? 45) && (nth 1 c 0 =? 45) && (nth 2 c 0 =? 45)) && is_blank_or_breakz (nth 3 c 0), st_with s0 c l m w).
Proof.
  intros Hl. unfold next_is_document_start.
  assert (A4 : assert_buflen str_ops 4 106 (st_with s0 c l m w) = Ok (tt, st_with s0 c l m w)).
  { unfold assert_buflen. cbn [buflen str_ops sc_in st_with si_look].
    replace (Nat.ltb l 4) with false by (symmetry; apply Nat.ltb_ge; exact Hl). reflexivity. }
  assert (A3 : assert_buflen str_ops 3 104 (st_with s0 c l m w) = Ok (tt, st_with s0 c l m w)).
  { unfold assert_buflen. cbn [buflen str_ops sc_in st_with si_look].
    replace (Nat.ltb l 3) with false by (symmetry; apply Nat.ltb_ge; lia). reflexivity. }
  mstep A4. unfold next_3_are, peek. rewrite !bind_assoc. mstep A3. rewrite !bind_assoc.
  mstep (peekn_st 0 s0 c l m w). rewrite !bind_assoc. mstep (peekn_st 1 s0 c l m w). rewrite !bind_assoc.
  mstep (peekn_st 2 s0 c l m w). rewrite (bind_Ok (ret _) _ _ _ _ eq_refl).
  destruct ((nth 0 c 0 =? 45) && (nth 1 c 0 =? 45) && (nth 2 c 0 =? 45)); [mstep (peekn_st 3 s0 c l m w)|]; reflexivity.
Qed.
Lemma nide_st s0 c l m w : (4 <= l)%nat ->
  next_is_document_end str_ops (st_with s0 c l m w)
  = Ok (((nth 0 c 0 =? 46) && (nth 1 c 0 =? 46) && (nth 2 c 0 =? 46)) && is_blank_or_breakz (nth 3 c 0), st_with s0 c l m w).
Proof.
  intros Hl. unfold next_is_document_end.
  assert (A4 : assert_buflen str_ops 4 107 (st_with s0 c l m w) = Ok (tt, st_with s0 c l m w)).
  { unfold assert_buflen. cbn [buflen str_ops sc_in st_with si_look].
    replace (Nat.ltb l 4) with false by (symmetry; apply Nat.ltb_ge; exact Hl). reflexivity. }
  assert (A3 : assert_buflen str_ops 3 104 (st_with s0 c l m w) = Ok (tt, st_with s0 c l m w)).
  { unfold assert_buflen. cbn [buflen str_ops sc_in st_with si_look].
    replace (Nat.ltb l 3) with false by (symmetry; apply Nat.ltb_ge; lia). reflexivity. }
  mstep A4. unfold next_3_are, peek. rewrite !bind_assoc. mstep A3. rewrite !bind_assoc.
  mstep (peekn_st 0 s0 c l m w). rewrite !bind_assoc. mstep (peekn_st 1 s0 c l m w). rewrite !bind_assoc.
  mstep (peekn_st 2 s0 c l m w). rewrite (bind_Ok (ret _) _ _ _ _ eq_refl).
  destruct ((nth 0 c 0 =? 46) && (nth 1 c 0 =? 46) && (nth 2 c 0 =? 46)); [mstep (peekn_st 3 s0 c l m w)|]; reflexivity.
Qed.

Lemma doc_ind_false c : doc_ind c = false ->
  ((nth 0 c 0 =? 45) && (nth 1 c 0 =? 45) && (nth 2 c 0 =? 45)) && is_blank_or_breakz (nth 3 c 0) = false
  /\ ((nth 0 c 0 =? 46) && (nth 1 c 0 =? 46) && (nth 2 c 0 =? 46)) && is_blank_or_breakz (nth 3 c 0) = false.
Proof.
  unfold doc_ind. destruct (is_blank_or_breakz (nth 3 c 0)); [|rewrite !andb_false_r; split; reflexivity].
  cbn [andb]. intros H. apply orb_false_elim in H as [H1 H2]. rewrite H1, H2. split; reflexivity.
Qed.

Lemma c_indicator_facts x : c_indicator x = false ->
  (x =? 45) = false /\ (x =? 63) = false /\ (x =? 58) = false /\ (x =? 44) = false /\ (x =? 91) = false /\ (x =? 93) = false
  /\ (x =? 123) = false /\ (x =? 125) = false /\ (x =? 35) = false /\ (x =? 38) = false /\ (x =? 42) = false /\ (x =? 33) = false
  /\ (x =? 124) = false /\ (x =? 62) = false /\ (x =? 39) = false /\ (x =? 34) = false /\ (x =? 37) = false /\ (x =? 64) = false
  /\ (x =? 96) = false.
Proof.
  unfold c_indicator. cbn [existsb]. intros H.
  repeat match goal with H : _ || _ = false |- _ => apply orb_false_elim in H as [? ?] end. repeat split; assumption.
Qed.

(* the first character of a plain scalar in block context: no indicator, or - ? : in front of a non-space character *)
Definition plain_head (x : N) (cs : list N) : Prop :=
  c_indicator x = false \/ ((x = 45 \/ x = 63 \/ x = 58) /\ is_blank_or_breakz (nth 0 cs 0) = false).

Lemma rest_plain_s F (s : sc strin) x cs :
  si_chars (sc_in s) = x :: cs -> (4 <= si_look (sc_in s))%nat -> sc_flow_level s = 0 ->
  (Z.of_N (m_col (sc_mark s)) <? sc_indent s)%Z = false ->
  (m_col (sc_mark s) = 0 -> doc_ind (x :: cs) = false) ->
  plain_head x cs ->
  fnt_rest F s = fetch_plain_scalar str_ops F s.
Proof.
  intros Hch Hl Hfl Hcol Hdoc Hhd.
  pose proof (st_with_id s) as Es. rewrite Hch in Es. rewrite Es. clear Es.
  set (l := si_look (sc_in s)) in *. set (m := sc_mark s) in *. set (w := sc_lws s).
  unfold fnt_rest. mstep (get_st s (x :: cs) l m w). unfold peek. mstep (peekn_st 0 s (x :: cs) l m w). cbn [nth sc_mark st_with].
  assert (H37 : (x =? 37) = false).
  { destruct Hhd as [Hi|[[-> |[-> | ->]] _]]; [|reflexivity..]. apply c_indicator_facts in Hi. tauto. }
  rewrite H37. cbn [negb andb].
  assert (E1 : (if m_col m =? 0 then next_is_document_start str_ops else ret false) (st_with s (x :: cs) l m w)
               = Ok (false, st_with s (x :: cs) l m w)).
  { destruct (N.eqb_spec (m_col m) 0) as [E|E]; [|reflexivity]. rewrite nids_st by exact Hl.
    rewrite (proj1 (doc_ind_false _ (Hdoc E))). reflexivity. }
  mstep E1. rewrite andb_true_r. cbn [negb].
  assert (E2 : (if (m_col m =? 0) && true then next_is_document_end str_ops else ret false) (st_with s (x :: cs) l m w)
               = Ok (false, st_with s (x :: cs) l m w)).
  { rewrite andb_true_r. destruct (N.eqb_spec (m_col m) 0) as [E|E]; [|reflexivity]. rewrite nide_st by exact Hl.
    rewrite (proj2 (doc_ind_false _ (Hdoc E))). reflexivity. }
  mstep E2. rewrite andb_false_r. cbv iota. cbn [sc_indent st_with]. rewrite Hcol. cbv iota.
  mstep (peekn_st 0 s (x :: cs) l m w). mstep (peekn_st 1 s (x :: cs) l m w). cbn [nth sc_flow_level st_with].
  rewrite Hfl. change (0 <? 0) with false. cbn [negb andb].
  destruct Hhd as [Hi|[Hx Hbz]].
  - apply c_indicator_facts in Hi.
    destruct Hi as (H45 & H63 & H58 & H44 & H91 & H93 & H123 & H125 & H35 & H38 & H42 & H33 & H124 & H62 & H39 & H34 & _ & H64 & H96).
    rewrite H45, H63, H58, H44, H91, H93, H123, H125, H38, H42, H33, H124, H62, H39, H34, H37, H64, H96. cbn [andb orb]. reflexivity.
  - rewrite Hbz. destruct Hx as [-> |[-> | ->]]; reflexivity.
Qed.

(* ---------- the first line of a plain scalar ---------- *)
Lemma plain_first_facts first : plain_first_wf false first = true -> plain_line_wf false first = true ->
  exists x t, first = x :: t /\ first_ok x /\ (x =? 0) = false /\ is_break x = false /\ is_flow x = false
              /\ (forall after, plain_head x (t ++ after)).
Proof.
  intros Hf Hl. destruct first as [|x t]; [discriminate Hf|]. exists x, t. split; [reflexivity|].
  unfold plain_line_wf in Hl. apply andb_prop in Hl as [Hl Hch]. apply andb_prop in Hl as [H0 _]. apply negb_true_iff in H0.
  cbn [plain_line_chars_wf] in Hch. apply andb_prop in Hch as [Hc _].
  destruct (char_facts false 0 x (hd 0 t) Hc H0) as [Hbz [_ H35]].
  destruct (blankz_facts x Hbz) as (H32 & H9 & H10 & H13 & Hz).
  assert (Hhd : forall after, plain_head x (t ++ after)).
  { intros after. unfold plain_first_wf in Hf. apply orb_prop in Hf as [Hf|Hf]; [left; apply negb_true_iff, Hf|].
    right. apply andb_prop in Hf as [Hx Hs]. split.
    - apply orb_prop in Hx as [Hx|Hx]; [apply orb_prop in Hx as [Hx|Hx]|]; apply N.eqb_eq in Hx; auto.
    - destruct t as [|y t']; [discriminate Hs|]. cbn [hd app nth] in *. exact (proj1 (ns_plain_safe_facts _ _ Hs)). }
  assert (Hn35 : (x =? 35) = false).
  { destruct (N.eqb_spec x 35) as [E|E]; [|reflexivity]. exfalso. specialize (H35 E). discriminate H35. }
  assert (Hfl : is_flow x = false).
  { destruct (Hhd []) as [Hi|[[-> |[-> | ->]] _]]; [|reflexivity..]. apply c_indicator_facts in Hi.
    destruct Hi as (_ & _ & _ & H44 & H91 & H93 & H123 & H125 & _). unfold is_flow. rewrite H44, H91, H93, H123, H125. reflexivity. }
  repeat split; try assumption. unfold is_break. rewrite H10, H13. reflexivity.
Qed.

(* ---------- fetch_plain_scalar on a presentation of the specification ---------- *)
Definition p_text (first : list N) (more : list (brk_layout * list N)) (rest : list N) : list N := plain_render first more ++ rest.
Definition p_wf (n : nat) (first : list N) (more : list (brk_layout * list N)) : bool := plain_layout_wf false n first more.
Definition p_tok (first : list N) (more : list (brk_layout * list N)) : tok := TScalar Plain (plain_text first more).

#[local] Arguments p_text : simpl never.
#[local] Arguments plain_text : simpl never.
#[local] Arguments saved : simpl never.

Lemma fetch_plain_case F n first more rest l mk q adj ska k ind inds tp lws :
  p_wf n first more = true -> ws_only rest = true ->
  (fst (unroll_nb inds ind) < Z.of_nat n)%Z -> (fst (unroll_nb inds ind) < Z.of_N (m_col mk))%Z ->
  (lws = true -> m_col mk = 0 -> marker_at_col0 [] first = false) ->
  (2 * length (p_text first more rest) + 10 <= F)%nat ->
  ((ind =? Z.of_N (m_col mk))%Z = true -> inds <> []) ->
  exists l' mk' sp ska' lws' ind' inds',
    fetch_plain_scalar str_ops F (mkb (p_text first more rest) l mk q adj ska k ind inds tp false lws)
    = Ok (tt, mkb [] l' mk' (q ++ [(sp, TScalar Plain (plain_text first more))]) adj ska' (saved ska k ind inds tp q mk) ind' inds' tp false lws')
    /\ nbrel (ind, inds) (ind', inds').
Proof.
  intros Hwf Hws Hn Hcol Hmk HF Hreq.
  unfold fetch_plain_scalar. cbn [bind].
  rewrite (save_key_b (p_text first more rest) l mk q adj ska k ind inds tp false lws Hreq). unfold disallow_simple_key. unfold mkb at 1. cbn.
  set (S1 := {| sc_in := {| si_chars := p_text first more rest; si_look := l |}; sc_mark := mk; sc_tokens := q; sc_stream_start := true;
                sc_stream_end := false; sc_adjacent := adj; sc_ska := false; sc_sks := [saved ska k ind inds tp q mk];
                sc_indent := ind; sc_indents := inds; sc_flow_level := 0; sc_tokens_parsed := tp; sc_token_available := false;
                sc_lws := lws; sc_ifms := [] |}).
  destruct (scan_plain_scalar_ws F n first more rest S1 Hwf eq_refl Hws Hn Hcol Hmk HF) as (sp & s' & E & _ & Hin).
  pose proof (Fr_scan_plain_scalar str_ops F S1 _ s' E) as Hfr.
  rewrite E. cbn.
  destruct s' as [[chars look] mk' toks ss se adj' ska' sks' ind' inds' fl tp' ta' lws' ifms'].
  unfold frame in Hfr. cbn in Hfr, Hin.
  destruct Hfr as (A1 & A2 & A3 & A4 & A5 & A6 & A7 & A8 & A9 & A10 & A11). subst.
  exists look, mk', sp, ska', lws', ind', inds'. split; [|exact A11].
  unfold push_tok, mkb. cbn. reflexivity.
Qed.

(* ---------- a plain scalar that ends the input, as the node at a token position / behind "key: " ---------- *)
Lemma p_text_cons first more rest x t : first = x :: t -> p_text first more rest = x :: t ++ src_more more ++ rest.
Proof. intros ->. unfold p_text, plain_render. fold (src_more more). rewrite <- app_assoc. reflexivity. Qed.

Lemma plain_doc_ind n first more rest x t : p_wf n first more = true -> ws_only rest = true -> first = x :: t ->
  marker_at_col0 [] first = false -> doc_ind (x :: t ++ src_more more ++ rest) = false.
Proof.
  intros Hwf Hws -> Hmk. unfold p_wf, plain_layout_wf in Hwf. apply andb_prop in Hwf as [Hwf Hmore]. apply andb_prop in Hwf as [_ Hline].
  set (S0 := mkb [] 128 (mkm 0 0 0) [] 0 false dummy_key 0%Z [] 0 false false).
  assert (Hch : plain_line_chars_wf (0 <? sc_flow_level S0) 0 (x :: t) = true).
  { unfold plain_line_wf in Hline. apply andb_prop in Hline. tauto. }
  change (x :: t ++ src_more more ++ rest) with ((x :: t) ++ src_more more ++ rest).
  apply (no_marker_no_doc_ind S0 (x :: t) (src_more more ++ rest) Hch Hmk).
  apply (stops_src_more 0 S0 (mkm 0 0 0) 128 ltac:(lia) n rest (ws_only_plain_follower _ _ rest Hws)). exact Hmore.
Qed.

Lemma plain_end_tok F s n first more rest c cols :
  at_tok s (p_text first more rest) c cols -> (fst (stk cols) < Z.of_nat c)%Z -> (fst (stk cols) < Z.of_nat n)%Z ->
  p_wf n first more = true -> ws_only rest = true -> (c = 0%nat -> marker_at_col0 [] first = false) ->
  (2 * length (p_text first more rest) + 10 <= F)%nat ->
  ends_with F s (p_tok first more :: repeat TBlockEnd (length cols) ++ [TStreamEnd]).
Proof.
  intros Hat Hlt Hn Hwf Hws Hmk HF.
  assert (Hwf0 := Hwf). unfold p_wf, plain_layout_wf in Hwf0. apply andb_prop in Hwf0 as [Hwf0 _]. apply andb_prop in Hwf0 as [Hfirst Hline].
  destruct (plain_first_facts first Hfirst Hline) as (x & t & Efirst & Hfo & Hnz & _ & _ & Hhd).
  assert (Hbase : base_le cols (Z.of_nat c)) by (destruct cols as [|t0 r]; cbn in *; lia).
  rewrite (p_text_cons first more rest x t Efirst) in Hat.
  destruct (arrive_tok F s _ _ c [] cols Hat Hfo Hnz ltac:(constructor) Hbase ltac:(lia))
    as (Hcanon & l' & i & ln & adj & k & tp & lws & Hl' & Hk & Hf).
  cbn [length repeat] in Hf.
  rewrite (rest_plain_s F _ x (t ++ src_more more ++ rest)) in Hf;
    [ | reflexivity | exact Hl' | reflexivity | apply col_ge_top, Hbase | | apply Hhd ].
  2:{ cbn [sc_mark mkb mkm m_col]. intros Ec. apply (plain_doc_ind n first more rest x t Hwf Hws Efirst). apply Hmk. lia. }
  rewrite <- (p_text_cons first more rest x t Efirst) in Hf.
  destruct (fetch_plain_case F n first more rest l' (mkm i ln (N.of_nat c)) [] adj true k (fst (stk cols)) (snd (stk cols)) tp lws
              Hwf Hws ltac:(rewrite unroll_nb_stk; exact Hn) ltac:(rewrite unroll_nb_stk; cbn [m_col mkm]; lia)
              ltac:(cbn [m_col mkm]; intros _ Ec; apply Hmk; lia) HF (stk_req_ne cols (N.of_nat c)))
    as (l2 & mk2 & sp & ska2 & lws2 & ind2 & inds2 & E & Hnb).
  rewrite E in Hf. cbn [app] in Hf.
  destruct (grounded_stk cols ltac:(apply Forall_forall; auto)) as [Hg Hnn].
  destruct (nbrel_grounded _ _ _ _ Hg Hnb) as [Hg2 Hn2].
  destruct (end_unit F s l2 mk2 _ adj ska2 _ ind2 inds2 tp lws2 ltac:(lia) Hcanon Hf ltac:(discriminate)) as (toks & Hm & Hscan).
  - apply key_free_not_required. unfold saved, req. cbn [newkey sk_required m_col mkm].
    replace (fst (stk cols) =? Z.of_N (N.of_nat c))%Z with false; [reflexivity|]. symmetry. apply Z.eqb_neq. lia.
  - exact Hg2.
  - exists toks. split; [|exact Hscan]. rewrite Hm. cbn [snd]. rewrite Hn2, Hnn. reflexivity.
Qed.

Lemma plain_end_below F s n first more rest top rest0 :
  at_below s (32 :: p_text first more rest) (top :: rest0) -> (Z.of_N top < Z.of_nat n)%Z ->
  p_wf n first more = true -> ws_only rest = true ->
  (2 * length (p_text first more rest) + 10 <= F)%nat ->
  ends_with F s (p_tok first more :: repeat TBlockEnd (length (top :: rest0)) ++ [TStreamEnd]).
Proof.
  intros Hat Hn Hwf Hws HF.
  assert (Hwf0 := Hwf). unfold p_wf, plain_layout_wf in Hwf0. apply andb_prop in Hwf0 as [Hwf0 _]. apply andb_prop in Hwf0 as [Hfirst Hline].
  destruct (plain_first_facts first Hfirst Hline) as (x & t & Efirst & Hfo & Hnz & _ & _ & Hhd).
  rewrite (p_text_cons first more rest x t Efirst) in Hat.
  destruct (arrive_blank F s _ _ (top :: rest0) Hat Hfo Hnz ltac:(lia))
    as (Hcanon & l' & i & ln & c1 & adj & ska & k & tp & top' & rest' & [= <- <-] & Hc1 & Hl' & Hk & Hf).
  rewrite (rest_plain_s F _ x (t ++ src_more more ++ rest)) in Hf;
    [ | reflexivity | exact Hl' | reflexivity | apply Z.ltb_ge; cbn [sc_mark sc_indent mkb mkm m_col]; lia | | apply Hhd ].
  2:{ cbn [sc_mark mkb mkm m_col]. intros Ec. exfalso. lia. }
  rewrite <- (p_text_cons first more rest x t Efirst) in Hf.
  destruct (fetch_plain_case F n first more rest l' (mkm i ln c1) [] adj ska k (Z.of_N top + 1)%Z (nbl (Z.of_N top) :: snd (stk (top :: rest0))) tp false
              Hwf Hws ltac:(rewrite unroll_nb_below; cbn [stk fst]; exact Hn) ltac:(rewrite unroll_nb_below; cbn [stk fst m_col mkm]; lia)
              ltac:(discriminate) HF ltac:(discriminate))
    as (l2 & mk2 & sp & ska2 & lws2 & ind2 & inds2 & E & Hnb).
  rewrite E in Hf. cbn [app] in Hf.
  destruct (grounded_below top rest0) as [Hg Hnn].
  destruct (nbrel_grounded _ _ _ _ Hg Hnb) as [Hg2 Hn2].
  destruct (end_unit F s l2 mk2 _ adj ska2 _ ind2 inds2 tp lws2 ltac:(lia) Hcanon Hf ltac:(discriminate)) as (toks & Hm & Hscan).
  - unfold saved. destruct ska; [|apply key_free_not_possible, Hk].
    apply key_free_not_required. unfold req. cbn [newkey sk_required nbl in_needs_block_end]. apply andb_false_r.
  - exact Hg2.
  - exists toks. split; [|exact Hscan]. rewrite Hm. cbn [snd]. rewrite Hn2, Hnn. reflexivity.
Qed.

(* ---------- the whole scanner ---------- *)
(* T-top: the document is one plain scalar (any continuation indentation n; the first line is no document marker) *)
Theorem scan_plain_top n first more rest :
  p_wf n first more = true -> ws_only rest = true -> marker_at_col0 [] first = false ->
  exists toks, scan_str (p_text first more rest) = (toks, SEnded) /\
               map snd toks = wrap false false [p_tok first more].
Proof.
  intros Hwf Hws Hmk. set (txt := p_text first more rest).
  pose proof (plain_end_tok (2 * length txt + 10) (start_state txt) n first more rest 0 [] (start_at_tok txt)
                ltac:(cbn; lia) ltac:(cbn; lia) Hwf Hws ltac:(intros _; exact Hmk) ltac:(fold txt; lia)) as He.
  destruct (scan_str_units txt [] (start_state txt) _ (delivers_nil _ _) He ltac:(cbn [length repeat app]; lia)) as (toks & Es & Hm).
  exists toks. split; [exact Es|]. rewrite Hm. reflexivity.
Qed.

(* T-entry: "- " in front, continuation lines indented by n >= 1 *)
Theorem scan_plain_entry n first more rest :
  p_wf n first more = true -> ws_only rest = true -> (1 <= n)%nat ->
  exists toks, scan_str (45 :: 32 :: p_text first more rest) = (toks, SEnded) /\
               map snd toks = wrap false false [TBlockSequenceStart; TBlockEntry; p_tok first more; TBlockEnd].
Proof.
  intros Hwf Hws Hn. set (txt := 45 :: 32 :: p_text first more rest). set (F := (2 * length txt + 10)%nat).
  assert (Hwf0 := Hwf). unfold p_wf, plain_layout_wf in Hwf0. apply andb_prop in Hwf0 as [Hwf0 _]. apply andb_prop in Hwf0 as [Hfirst Hline].
  destruct (plain_first_facts first Hfirst Hline) as (x & t & Efirst & Hfo & Hnz & Hbr & Hfl & _).
  pose proof (start_at_tok txt) as Hat. unfold txt in Hat at 2. rewrite (p_text_cons first more rest x t Efirst) in Hat.
  destruct (dash_sp F (start_state txt) _ _ 0 [] [] true (or_introl Hat) ltac:(constructor) ltac:(split; cbn; lia)
              (first_ok_not_ws x Hfo) Hbr Hfl ltac:(unfold F; lia))
    as (pre & s' & Hd & Hmp & Hat').
  rewrite <- (p_text_cons first more rest x t Efirst) in Hat'. cbn [joined Nat.add] in Hat'.
  pose proof (plain_end_tok F s' n first more rest 2 [N.of_nat 0] Hat' ltac:(cbn; lia) ltac:(cbn; lia) Hwf Hws ltac:(discriminate)
                ltac:(unfold F, txt; cbn [length]; lia)) as He.
  assert (Hlp : length pre = 2%nat) by (pose proof (f_equal (@length _) Hmp) as Hl; rewrite map_length in Hl; exact Hl).
  destruct (scan_str_units txt pre s' _ Hd He ltac:(rewrite Hlp; cbn [length repeat app]; lia)) as (toks & Es & Hm).
  exists toks. split; [exact Es|]. rewrite Hm, Hmp. reflexivity.
Qed.

(* T-value: "key: " in front, continuation lines indented by n >= 1 (scan_plain_scalar compares with the indentation of the
   mapping: the one-column raise behind "key:" is taken back by unroll_non_block_indents) *)
Theorem scan_plain_value kw n first more rest :
  key_ok kw = true -> p_wf n first more = true -> ws_only rest = true -> (1 <= n)%nat ->
  exists toks, scan_str (kw ++ 58 :: 32 :: p_text first more rest) = (toks, SEnded) /\
               map snd toks = wrap false false [TBlockMappingStart; TKey; TScalar Plain kw; TValue; p_tok first more; TBlockEnd].
Proof.
  intros Hkw Hwf Hws Hn.
  destruct (key_ok_word kw Hkw) as (c0 & w & Ekw & Hw & Hlen). subst kw.
  set (txt := (c0 :: w) ++ 58 :: 32 :: p_text first more rest). set (F := (2 * length txt + 10)%nat).
  assert (Hlt : (length w + 3 + length (p_text first more rest) = length txt)%nat).
  { unfold txt. cbn [length app]. rewrite app_length. cbn [length]. lia. }
  pose proof (start_at_tok txt) as Hat. unfold txt in Hat at 2. cbn [app] in Hat.
  destruct (key_at_tok F (start_state txt) c0 w 32 (p_text first more rest) 0 [] [] true Hat Hw Hlen (or_introl eq_refl) ltac:(constructor)
              ltac:(split; cbn; lia) ltac:(unfold F; lia))
    as (pre & s' & Hd & Hmp & Hat').
  cbn [joined length repeat app] in Hat', Hmp.
  pose proof (plain_end_below F s' n first more rest (N.of_nat 0) [] Hat' ltac:(cbn; lia) Hwf Hws ltac:(unfold F; lia)) as He.
  assert (Hlp : length pre = 4%nat) by (pose proof (f_equal (@length _) Hmp) as Hl; rewrite map_length in Hl; exact Hl).
  destruct (scan_str_units txt pre s' _ Hd He ltac:(rewrite Hlp; cbn [length repeat app]; lia)) as (toks & Es & Hm).
  exists toks. split; [exact Es|]. rewrite Hm, Hmp. reflexivity.
Qed.

(* ---------- text -> events ---------- *)
Definition p_node (first : list N) (more : list (brk_layout * list N)) : ltree := LScalar no_props Plain (plain_text first more).

Theorem run_plain_top n first more rest :
  p_wf n first more = true -> ws_only rest = true -> marker_at_col0 [] first = false ->
  map fst (fst (run_str (p_text first more rest)))
  = [EStreamStart; EDocumentStart false; EScalar (plain_text first more) Plain 0 None; EDocumentEnd; EStreamEnd]
  /\ snd (run_str (p_text first more rest)) = PDone.
Proof.
  intros Hwf Hws Hmk. destruct (scan_plain_top n first more rest Hwf Hws Hmk) as (toks & Es & Hm).
  exact (run_of_scan _ (p_node first more) toks Es Hm eq_refl eq_refl ltac:(cbn; lia)).
Qed.

Theorem run_plain_entry n first more rest :
  p_wf n first more = true -> ws_only rest = true -> (1 <= n)%nat ->
  map fst (fst (run_str (45 :: 32 :: p_text first more rest)))
  = [EStreamStart; EDocumentStart false; ESequenceStart 0 None; EScalar (plain_text first more) Plain 0 None; ESequenceEnd;
     EDocumentEnd; EStreamEnd]
  /\ snd (run_str (45 :: 32 :: p_text first more rest)) = PDone.
Proof.
  intros Hwf Hws Hn. destruct (scan_plain_entry n first more rest Hwf Hws Hn) as (toks & Es & Hm).
  exact (run_of_scan _ (LBSeq no_props [p_node first more]) toks Es Hm eq_refl eq_refl ltac:(cbn; lia)).
Qed.

Theorem run_plain_value kw n first more rest :
  key_ok kw = true -> p_wf n first more = true -> ws_only rest = true -> (1 <= n)%nat ->
  map fst (fst (run_str (kw ++ 58 :: 32 :: p_text first more rest)))
  = [EStreamStart; EDocumentStart false; EMappingStart 0 None; EScalar kw Plain 0 None;
     EScalar (plain_text first more) Plain 0 None; EMappingEnd; EDocumentEnd; EStreamEnd]
  /\ snd (run_str (kw ++ 58 :: 32 :: p_text first more rest)) = PDone.
Proof.
  intros Hkw Hwf Hws Hn. destruct (scan_plain_value kw n first more rest Hkw Hwf Hws Hn) as (toks & Es & Hm).
  exact (run_of_scan _ (LBMap no_props [(true, lword kw, (true, p_node first more))]) toks Es Hm eq_refl eq_refl ltac:(cbn; lia)).
Qed.
