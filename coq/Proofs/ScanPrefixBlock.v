(* C15 prefix stability of the scanner (see ScanPrefix.v): the family of BLOCK SCALARS (Model/SScalar.v) under the
   state relation [SH d] of ScanPrefix.v - port of ScanShiftBlock.v.

     scan_block_scalar_ok : forall F1 F2 literal s1 s2, SH d s1 s2 -> nbz (rn s1 0) -> 4 <= lk s1 ->
        swp d (scan_block_scalar sops F1 literal) (scan_block_scalar sops F2 literal) (bpost d (TS d)) s1 s2

   The premise [4 <= lk s1] is NOT in the contract [shf_scan_block_scalar] of ScanPrefix.v and it is needed: where
   side 1 stops at the end of its input (the empty scalar, or the head of the content loop) side 2 goes on and may
   execute [look 4 ;;; next_is_document_indicator]; the state relation demands EQUAL lookahead counters, so the
   counter of side 1 must be at least 4 already (it is: fetch_next_token does [look 4] before the dispatcher, and
   the counter never decreases).

   Two one-sided facts about the run of side 1 are needed and proved here by a small unary calculus [MO]
   ("the line of the mark and the lookahead counter never decrease"):
     - the line of the mark after the header differs from the line of the indicator (chomping Keep of an EMPTY
       scalar at the end of input tests it),
     - the lookahead counter stays >= 4.
   TWO fuels everywhere. *)
From Coq Require Import List NArith ZArith Bool Arith Lia.
Import ListNotations.
Require Import Parser SBase SPrim SDir SScalar SFetch ScanPrefix ScanPrefixPrim.
Local Open Scope nat_scope.

(* ---------------- the local loops of SScalar.v, named (generic in the back-end) ---------------- *)
Section Named.
Context {J : Type} (ops : InputOps J).
Variable F : nat.
Local Open Scope mon_scope.
Fixpoint kb_go (f : nat) (acc : list chr) : @M J (list chr) :=
  match f with
  | O => oof
  | S f => e <- buf_is_empty ops ;;
           if e then ret acc else
           c <- SPrim.peek ops ;; if is_breakz c then ret acc else skip_blank ops ;;; kb_go f (c :: acc)
  end.
Fixpoint kb_raw (f : nat) (acc : list chr) (n : N) : @M J (list chr) :=
  match f with
  | O => oof
  | S f => c <- raw_read ops ;;
           match c with
           | Some c => kb_raw f (c :: acc) (n + 1)%N
           | None => adv_mark n ;;; ret acc
           end
  end.
Lemma kb_content_line_eq acc :
  scan_block_scalar_content_line ops F acc =
  (acc <- kb_go F acc ;; e <- buf_is_empty ops ;; if e then kb_raw F acc 0%N else ret acc).
Proof. reflexivity. Qed.

Section Wide.
Variable indent : N.
Fixpoint kb_wide (f : nat) : @M J unit :=
  match f with
  | O => oof
  | S f =>
    look ops (bufmaxlen ops) ;;; skip_spaces_to ops F indent true ;;;
    k <- col ;; e <- buf_is_empty ops ;;
    c <- (if e then ret 32%N else SPrim.peek ops) ;;
    if (k =? indent)%N || (negb e && negb (c =? 32)%N) then ret tt else kb_wide f
  end.
End Wide.
(* the "consume the indentation" phase of one round of skip_block_scalar_indent *)
Definition kb_spp (indent : N) : @M J unit :=
  if (indent <? N.of_nat (bufmaxlen ops - 2))%N then look ops (bufmaxlen ops) ;;; skip_spaces_to ops F indent false
  else kb_wide indent F ;;; look ops 2.
Lemma kb_sbsi_eq fuel indent breaks :
  skip_block_scalar_indent ops F (S fuel) indent breaks =
  ((if Nat.ltb (bufmaxlen ops) 2 then panic 121 else ret tt) ;;;
   kb_spp indent ;;;
   b <- next_is ops is_break ;;
   if b then skip_break ops ;;; skip_block_scalar_indent ops F fuel indent (breaks + 1)%N else ret breaks).
Proof. reflexivity. Qed.

Fixpoint kb_sfl (f : nat) : @M J unit :=
  match f with
  | O => oof
  | S f => c <- look_ch ops ;; if (c =? 32)%N then skip_blank ops ;;; kb_sfl f else ret tt
  end.
Lemma kb_sfli_eq fuel maxi breaks :
  skip_first_line_indent ops F (S fuel) maxi breaks =
  (kb_sfl F ;;; k <- col ;;
   b <- next_is ops is_break ;;
   if b then look ops 2 ;;; skip_break ops ;;; skip_first_line_indent ops F fuel (N.max maxi k) (breaks + 1)%N
   else ret (N.max maxi k, breaks)).
Proof. reflexivity. Qed.
End Named.

(* ================================================================================================ *)
(* A. one-sided facts: the line of the mark and the lookahead counter never decrease                *)
(* ================================================================================================ *)
Definition ge_st (s t : bst) : Prop := (m_line (sc_mark s) <= m_line (sc_mark t))%N /\ lk s <= lk t.
Definition MO {A} (m : BM A) : Prop := forall s a t, m s = Ok (a, t) -> ge_st s t.

Lemma ge_refl s : ge_st s s.
Proof. split; [apply N.le_refl|apply Nat.le_refl]. Qed.
Lemma ge_trans s t u : ge_st s t -> ge_st t u -> ge_st s u.
Proof. unfold ge_st. intros [A B] [C D]. split; lia. Qed.

Lemma MO_ret {A} (a : A) : MO (@ret strin A a).
Proof. intros s b t H. inversion H; subst. apply ge_refl. Qed.
Lemma MO_bind {A B} (m : BM A) (f : A -> BM B) : MO m -> (forall a, MO (f a)) -> MO (bind m f).
Proof.
  intros Hm Hf s b t H. unfold bind in H. destruct (m s) as [[a u]|? ?|?|] eqn:E; try discriminate.
  eapply ge_trans; [exact (Hm _ _ _ E)|exact (Hf a _ _ _ H)].
Qed.
Lemma MO_fail {A} e mk : MO (@fail strin A e mk). Proof. intros s a t H. discriminate. Qed.
Lemma MO_panic {A} n : MO (@panic strin A n). Proof. intros s a t H. discriminate. Qed.
Lemma MO_oof {A} : MO (@oof strin A). Proof. intros s a t H. discriminate. Qed.
Lemma MO_get : MO (@get strin). Proof. intros s a t H. inversion H; subst. apply ge_refl. Qed.
Lemma MO_gets {A} (f : bst -> A) : MO (gets f). Proof. intros s a t H. inversion H; subst. apply ge_refl. Qed.

Ltac mo_closed E :=
  let s := fresh "s" in let a := fresh "a" in let t := fresh "t" in let H := fresh "H" in
  intros s a t H; rewrite E in H; inversion H; subst; clear H;
  unfold ge_st, bump, nb1, bl1, nl1, drop1, dropn; unfold lk, rm; cbn; split; lia.

Lemma MO_look n : MO (look sops n). Proof. mo_closed look_ok. Qed.
Lemma MO_peekn k : MO (peekn sops k). Proof. mo_closed peekn_ok. Qed.
Lemma MO_peek : MO (SPrim.peek sops). Proof. mo_closed peek_ok. Qed.
Lemma MO_in_skip : MO (in_skip sops). Proof. mo_closed in_skip_ok. Qed.
Lemma MO_skip_blank : MO (skip_blank sops). Proof. mo_closed skip_blank_ok. Qed.
Lemma MO_skip_non_blank : MO (skip_non_blank sops). Proof. mo_closed skip_non_blank_ok. Qed.
Lemma MO_adv_mark n : MO (@adv_mark strin n). Proof. mo_closed (adv_mark_ok n). Qed.
Lemma MO_look_ch : MO (look_ch sops).
Proof. unfold look_ch. apply MO_bind; [apply MO_look|intros _; apply MO_peek]. Qed.
Lemma MO_next_is p : MO (next_is sops p).
Proof. unfold next_is. apply MO_bind; [apply MO_peek|intros c; apply MO_ret]. Qed.
Lemma MO_col : MO (@col strin). Proof. apply MO_gets. Qed.
Lemma MO_mark : MO (@mark strin). Proof. apply MO_gets. Qed.
Lemma MO_buf_is_empty : MO (buf_is_empty sops). Proof. apply MO_gets. Qed.
Lemma sbk_line s : m_line (sc_mark (sbk s)) = (m_line (sc_mark s) + 1)%N /\ lk (sbk s) = lk s.
Proof. unfold sbk. destruct ((rn s 0 =? 13) && (rn s 1 =? 10))%N; unfold lk, nl1, bl1, drop1; cbn; split; reflexivity. Qed.
Lemma MO_skip_break : MO (skip_break sops).
Proof.
  intros s a t H. rewrite skip_break_eval in H. destruct (is_break (rn s 0)); [|discriminate]. inversion H; subst.
  destruct (sbk_line s) as [A B]. unfold ge_st. rewrite A, B. split; lia.
Qed.
Lemma MO_raw_read : MO (raw_read sops).
Proof.
  intros s a t H. unfold raw_read in H. cbn [raw_read_non_breakz str_ops] in H.
  destruct (si_chars (sc_in s)) as [|c r]; [inversion H; subst; unfold ge_st, lk; cbn; split; lia|].
  destruct (is_breakz c); inversion H; subst; unfold ge_st, lk; cbn; split; lia.
Qed.
Lemma MO_unroll_nbi : MO (@unroll_non_block_indents strin).
Proof.
  intros s a t H. unfold unroll_non_block_indents, modify in H. inversion H; subst.
  destruct (unroll_nb (sc_indents s) (sc_indent s)) as [ind l]. unfold ge_st, lk; cbn; split; lia.
Qed.
Lemma MO_docind : MO (next_is_document_indicator sops).
Proof. intros s a t H. rewrite docind_eval in H. destruct (Nat.ltb (lk s) 4); [discriminate|]. inversion H; subst. apply ge_refl. Qed.

Create HintDb mo discriminated.
#[local] Hint Resolve MO_ret MO_fail MO_panic MO_oof MO_get MO_gets MO_look MO_peekn MO_peek MO_in_skip MO_skip_blank
  MO_skip_non_blank MO_adv_mark MO_look_ch MO_next_is MO_col MO_mark MO_buf_is_empty MO_skip_break MO_raw_read
  MO_unroll_nbi MO_docind : mo.
Ltac mo :=
  repeat first
    [ solve [auto with mo]
    | apply MO_bind; [|intros ?]
    | match goal with |- MO (if ?b then _ else _) => destruct b end
    | match goal with |- MO (match ?x with _ => _ end) => destruct x end ].

Lemma MO_in_skip_ws_to_eol fuel : forall stb tab ws n, MO (in_skip_ws_to_eol sops fuel stb tab ws n).
Proof.
  induction fuel as [|fuel IH]; intros stb tab ws n; cbn [in_skip_ws_to_eol]; [apply MO_oof|].
  assert (HC : forall f k, MO ((fix comment (f : nat) (k : N) : BM (N * option (bool * bool)) :=
           match f with
           | O => oof
           | S f => bind (look_ch sops) (fun c => if is_breakz c then in_skip_ws_to_eol sops fuel stb tab ws (k + 1)%N
                                    else bind (in_skip sops) (fun _ => comment f (k + 1)%N))
           end) f k)).
  { induction f as [|f IHf]; intros k; [apply MO_oof|]. mo; auto. }
  mo; auto.
Qed.
Lemma MO_skip_ws_to_eol fuel stb : MO (skip_ws_to_eol sops fuel stb).
Proof. unfold skip_ws_to_eol. pose proof (MO_in_skip_ws_to_eol fuel stb false false 0%N). mo; auto. Qed.
Lemma MO_kb_go : forall f acc, MO (kb_go sops f acc).
Proof. induction f as [|f IH]; intros acc; cbn [kb_go]; [apply MO_oof|]. mo; auto. Qed.
Lemma MO_kb_raw : forall f acc n, MO (kb_raw sops f acc n).
Proof. induction f as [|f IH]; intros acc n; cbn [kb_raw]; [apply MO_oof|]. mo; auto. Qed.
Lemma MO_content_line F acc : MO (scan_block_scalar_content_line sops F acc).
Proof. rewrite kb_content_line_eq. pose proof (MO_kb_go F). pose proof (MO_kb_raw F). mo; auto. Qed.
Lemma MO_skip_spaces_to indent cb : forall f, MO (skip_spaces_to sops f indent cb).
Proof. induction f as [|f IH]; cbn [skip_spaces_to]; [apply MO_oof|]. mo; auto. Qed.
Lemma MO_kb_wide F indent : forall f, MO (kb_wide sops F indent f).
Proof. induction f as [|f IH]; cbn [kb_wide]; [apply MO_oof|]. pose proof (MO_skip_spaces_to indent true F). mo; auto. Qed.
Lemma MO_kb_spp F indent : MO (kb_spp sops F indent).
Proof.
  unfold kb_spp. pose proof (MO_skip_spaces_to indent false F). pose proof (MO_kb_wide F indent F). mo; auto.
Qed.
Lemma MO_sbsi F indent : forall f breaks, MO (skip_block_scalar_indent sops F f indent breaks).
Proof.
  induction f as [|f IH]; intros breaks; [apply MO_oof|]. rewrite kb_sbsi_eq. pose proof (MO_kb_spp F indent). mo; auto.
Qed.
Lemma MO_kb_sfl : forall f, MO (kb_sfl sops f).
Proof. induction f as [|f IH]; cbn [kb_sfl]; [apply MO_oof|]. mo; auto. Qed.
Lemma MO_sfli F : forall f maxi breaks, MO (skip_first_line_indent sops F f maxi breaks).
Proof.
  induction f as [|f IH]; intros maxi breaks; [apply MO_oof|]. rewrite kb_sfli_eq. pose proof (MO_kb_sfl F). mo; auto.
Qed.
#[local] Hint Resolve MO_skip_ws_to_eol MO_content_line MO_sbsi MO_sfli : mo.

(* ================================================================================================ *)
(* B. auxiliary rules                                                                               *)
(* ================================================================================================ *)
Lemma nls_0 acc : nls 0 acc = acc. Proof. reflexivity. Qed.
Lemma nls_succ n acc : nls (N.succ n) acc = 10%N :: nls n acc.
Proof. unfold nls. apply N.iter_succ. Qed.
Lemma nls_snoc n : nls n [] ++ [10%N] = 10%N :: nls n [].
Proof.
  induction n as [|n IH] using N.peano_ind; [reflexivity|].
  rewrite nls_succ. cbn [app]. rewrite IH. reflexivity.
Qed.
Lemma rev_nls n : rev (nls n []) = nls n [].
Proof.
  induction n as [|n IH] using N.peano_ind; [reflexivity|].
  rewrite nls_succ. cbn [rev]. rewrite IH. apply nls_snoc.
Qed.

Lemma next_is_ok p (s : bst) : next_is sops p s = Ok (p (rn s 0), s). Proof. reflexivity. Qed.
Lemma col_ok (s : bst) : col s = Ok (m_col (sc_mark s), s). Proof. reflexivity. Qed.
Lemma mark_ok (s : bst) : mark s = Ok (sc_mark s, s). Proof. reflexivity. Qed.
Lemma get_ok (s : bst) : get s = Ok (s, s). Proof. reflexivity. Qed.
Lemma ret_ok {A} (a : A) (s : bst) : ret a s = Ok (a, s). Proof. reflexivity. Qed.
Lemma docind_marker (s : bst) : rn s 0 = 46%N -> rn s 1 = 46%N -> rn s 2 = 46%N -> rn s 3 = 10%N -> docind_val s = true.
Proof. intros E0 E1 E2 E3. unfold docind_val, n3are. rewrite E0, E1, E2, E3. reflexivity. Qed.

Section Aux.
Variable d : list chr.
Local Notation bwp := (swp d).

(* a one-sided fact of side 1 added to a relational triple *)
Lemma bwp_mo {A1 A2} (m1 : BM A1) (m2 : BM A2) (Q : A1 -> bst -> A2 -> bst -> Prop) s1 s2 :
  MO m1 -> bwp m1 m2 (fun a1 t1 a2 t2 => ge_st s1 t1 -> Q a1 t1 a2 t2) s1 s2 -> bwp m1 m2 Q s1 s2.
Proof.
  intros HM H. unfold swp in *. destruct (m1 s1) as [[a1 t1]|? ?|?|] eqn:E; auto.
  destruct (m2 s2) as [[a2 t2]|? ?|?|]; auto. apply H. exact (HM _ _ _ E).
Qed.
(* side 2 alone *)
Lemma bwp_assoc_r {A1 A B C} (m1 : BM A1) (m : BM A) (f : A -> BM B) (g : B -> BM C)
  (Q : A1 -> bst -> C -> bst -> Prop) s1 s2 :
  bwp m1 (bind m (fun a => bind (f a) g)) Q s1 s2 -> bwp m1 (bind (bind m f) g) Q s1 s2.
Proof.
  unfold swp, bind. destruct (m1 s1) as [[a1 t1]|? ?|?|]; auto. destruct (m s2) as [[a t]|? ?|?|]; auto.
Qed.
Lemma bwp_docind_r {A1 B} (m1 : BM A1) (f2 : bool -> BM B) (Q : A1 -> bst -> B -> bst -> Prop) s1 s2 :
  docind_val s2 = true -> bwp m1 (f2 true) Q s1 s2 -> bwp m1 (bind (next_is_document_indicator sops) f2) Q s1 s2.
Proof.
  intros E H. unfold swp, bind in *. rewrite docind_eval. destruct (Nat.ltb (lk s2) 4).
  - destruct (m1 s1) as [[? ?]|? ?|?|]; exact I.
  - rewrite E. exact H.
Qed.
Lemma bwp_oof_bind_r {A1 A B} (m1 : BM A1) (f : A -> BM B) (Q : A1 -> bst -> B -> bst -> Prop) s1 s2 :
  bwp m1 (bind (@oof strin A) f) Q s1 s2.
Proof. unfold swp, bind, oof. destruct (m1 s1) as [[? ?]|? ?|?|]; exact I. Qed.
(* side 2 has looked further ahead than asked for: no change *)
Lemma SH_bump_r n s1 s2 : SH d s1 s2 -> n <= lk s1 -> SH d s1 (bump n s2).
Proof.
  intros H Hn. apply (SH_jump d 0 s1 s2); try reflexivity; try exact H; try lia.
  - rewrite lk_bump, (SH_lk H). lia.
  - unfold rst, bump; skel_cbn; sh_fwd H; reflexivity.
  - exact (sh_end H).
Qed.
Lemma rn_bump n (s : bst) i : rn (bump n s) i = rn s i. Proof. reflexivity. Qed.
(* skip_break: the line of the mark grows by one *)
Lemma bwp_skip_break_x (Q : unit -> bst -> unit -> bst -> Prop) s1 s2 :
  SH d s1 s2 ->
  (forall t1 t2, SH d t1 t2 -> is_break (rn s1 0) = true ->
                 m_line (sc_mark t1) = (m_line (sc_mark s1) + 1)%N -> lk t1 = lk s1 -> Q tt t1 tt t2) ->
  bwp (skip_break sops) (skip_break sops) Q s1 s2.
Proof.
  intros H HQ. unfold swp. rewrite !skip_break_eval, (SH_rn0 H), b1_is_break.
  destruct (is_break (rn s1 0)) eqn:E; [|exact I]. destruct (sbk_line s1) as [A B].
  apply HQ; [apply SH_sbk; assumption|reflexivity|exact A|exact B].
Qed.
Lemma breakz_in s1 s2 : SH d s1 s2 -> rm s1 <> [] -> is_breakz (rn s1 0) = true -> is_break (rn s1 0) = true.
Proof.
  intros H NE E. unfold is_breakz in E. apply orb_true_iff in E. destruct E as [E|E]; [exact E|].
  exfalso. apply N.eqb_eq in E. exact (SH_nz d _ _ H NE E).
Qed.
Lemma is_z_in s1 s2 : SH d s1 s2 -> rm s1 <> [] -> is_z (rn s1 0) = false.
Proof. intros H NE. unfold is_z. apply N.eqb_neq. exact (SH_nz d _ _ H NE). Qed.
(* side 2 alone: a unary weakest precondition (errors excluded) *)
Definition rwp {A} (m : BM A) (P : A -> bst -> Prop) (s : bst) : Prop :=
  match m s with Ok (a, t) => P a t | Err _ _ => False | _ => True end.
Lemma bwp_r_bind {A1 A B} (m1 : BM A1) (m : BM A) (f : A -> BM B) (Q : A1 -> bst -> B -> bst -> Prop) s1 s2 :
  rwp m (fun a t => bwp m1 (f a) Q s1 t) s2 -> bwp m1 (bind m f) Q s1 s2.
Proof.
  unfold rwp, swp, bind. destruct (m1 s1) as [[a1 t1]|? ?|?|]; auto.
  destruct (m s2) as [[a t]|? ?|?|]; auto; try tauto.
Qed.
Lemma rwp_bind {A B} (m : BM A) (f : A -> BM B) (P : B -> bst -> Prop) s :
  rwp m (fun a t => rwp (f a) P t) s -> rwp (bind m f) P s.
Proof. unfold rwp, bind. destruct (m s) as [[a t]|? ?|?|]; auto. Qed.
Lemma rwp_step {A} (m : BM A) (P : A -> bst -> Prop) s a t : m s = Ok (a, t) -> P a t -> rwp m P s.
Proof. intros E H. unfold rwp. rewrite E. exact H. Qed.
Lemma rwp_mono {A} (m : BM A) (P P' : A -> bst -> Prop) s : rwp m P s -> (forall a t, P a t -> P' a t) -> rwp m P' s.
Proof. unfold rwp. intros H HP. destruct (m s) as [[a t]|? ?|?|]; auto. Qed.
Lemma rwp_docind (P : bool -> bst -> Prop) s : docind_val s = true -> P true s -> rwp (next_is_document_indicator sops) P s.
Proof. intros E H. unfold rwp. rewrite docind_eval. destruct (Nat.ltb (lk s) 4); [exact I|]. rewrite E. exact H. Qed.
End Aux.

Section Block.
Variable d : list chr.
Local Notation bwp := (swp d).

(* ---------------- (1) scan_block_scalar_content_line: entered inside side 1's text, stays there ------------- *)
Lemma shf_go : forall f1 f2 acc s1 s2, SH d s1 s2 -> rm s1 <> [] ->
  bwp (kb_go sops f1 acc) (kb_go sops f2 acc) (fun a1 t1 a2 t2 => a1 = a2 /\ SH d t1 t2 /\ rm t1 <> []) s1 s2.
Proof.
  induction f1 as [|f1 IH]; intros f2 acc s1 s2 H NE; [exact I|]. destruct f2 as [|f2]; [apply bwp_oof_r|].
  cbn [kb_go]. apply bwp_bind. apply (bwp_buf_is_empty d); [exact H|].
  destruct (Nat.eqb (lk s1) 0); [apply bwp_ret; split; [reflexivity|split; assumption]|].
  apply bwp_bind. apply (bwp_peek d); [exact H|]. rewrite (SH_b1_in d _ _ H NE).
  destruct (is_breakz (rn s1 0)) eqn:Eb; [apply bwp_ret; split; [reflexivity|split; assumption]|].
  apply bwp_bind. apply (bwp_skip_blank d); [exact H|exact Eb|]. intros u1 u2 HU RU.
  apply IH; [exact HU|]. exact (SH_ne_tl d _ _ _ H Eb RU).
Qed.
Lemma shf_raw : forall f1 f2 acc n s1 s2, SH d s1 s2 -> rm s1 <> [] ->
  bwp (kb_raw sops f1 acc n) (kb_raw sops f2 acc n) (fun a1 t1 a2 t2 => a1 = a2 /\ SH d t1 t2 /\ rm t1 <> []) s1 s2.
Proof.
  induction f1 as [|f1 IH]; intros f2 acc n s1 s2 H NE; [exact I|]. destruct f2 as [|f2]; [apply bwp_oof_r|].
  cbn [kb_raw]. apply bwp_bind. apply (bwp_raw_read d); [exact H|exact NE|]. intros c t1 t2 HT _ _ NT _.
  destruct c as [x|].
  - apply IH; assumption.
  - apply bwp_bind. apply (bwp_adv_mark d); [exact HT|intros E; contradiction|]. intros u1 u2 HU RU.
    apply bwp_ret. split; [reflexivity|split; [exact HU|]]. rewrite RU. exact NT.
Qed.
Lemma shf_content_line F1 F2 acc s1 s2 : SH d s1 s2 -> rm s1 <> [] ->
  bwp (scan_block_scalar_content_line sops F1 acc) (scan_block_scalar_content_line sops F2 acc)
      (fun a1 t1 a2 t2 => a1 = a2 /\ SH d t1 t2 /\ rm t1 <> []) s1 s2.
Proof.
  intros H NE. rewrite !kb_content_line_eq.
  apply bwp_bind. eapply bwp_mono; [apply shf_go; assumption|]. intros a t1 a2 t2 (<- & HT & NT).
  apply bwp_bind. apply (bwp_buf_is_empty d); [exact HT|]. destruct (Nat.eqb (lk t1) 0).
  - apply shf_raw; assumption.
  - apply bwp_ret. split; [reflexivity|split; assumption].
Qed.

(* ---------------- (2) skip_spaces_to: spaces only, lockstep ---------------- *)
Lemma shf_skip_spaces_to indent cb : forall f1 f2 s1 s2, SH d s1 s2 ->
  bwp (skip_spaces_to sops f1 indent cb) (skip_spaces_to sops f2 indent cb) (bpost d eq) s1 s2.
Proof.
  induction f1 as [|f1 IH]; intros f2 s1 s2 H; [exact I|]. destruct f2 as [|f2]; [apply bwp_oof_r|].
  cbn [skip_spaces_to]. apply bwp_bind.
  apply bwp_mono with (Q := fun (e1 : bool) (t1 : bst) (e2 : bool) (t2 : bst) => e1 = e2 /\ t1 = s1 /\ t2 = s2).
  { destruct cb; [apply (bwp_buf_is_empty d); [exact H|]|apply bwp_ret]; auto. }
  intros e t1 e2 t2 (<- & -> & ->).
  apply bwp_bind. apply (bwp_col d); [exact H|]. cbv beta.
  destruct (e || negb (m_col (sc_mark s1) <? indent)%N); [apply bwp_ret_bpost; [reflexivity|exact H]|].
  apply bwp_bind. apply (bwp_peek d); [exact H|]. b1_norm.
  destruct (N.eqb_spec (rn s1 0) 32) as [E|NE]; [|apply bwp_ret_bpost; [reflexivity|exact H]].
  assert (N0 : nbz (rn s1 0)) by (unfold nbz; rewrite E; reflexivity).
  apply bwp_bind. apply (bwp_skip_blank d); [exact H|exact N0|]. intros u1 u2 HU _. apply IH. exact HU.
Qed.

(* ---------------- (3) the indentation phase of skip_block_scalar_indent: narrow / wide ---------------- *)
Lemma shf_wide F1 F2 indent : forall f1 f2 s1 s2, SH d s1 s2 ->
  bwp (kb_wide sops F1 indent f1) (kb_wide sops F2 indent f2) (bpost d eq) s1 s2.
Proof.
  induction f1 as [|f1 IH]; intros f2 s1 s2 H; [exact I|]. destruct f2 as [|f2]; [apply bwp_oof_r|].
  cbn [kb_wide]. apply bwp_bind. apply (bwp_look d); [exact H|]. intros t1 t2 HT _ _ _ _ _.
  eapply (bwp_call_eq d); [apply shf_skip_spaces_to; exact HT|]. intros [] u1 u2 HU.
  apply bwp_bind. apply (bwp_col d); [exact HU|]. cbv beta.
  apply bwp_bind. apply (bwp_buf_is_empty d); [exact HU|]. cbv beta.
  apply bwp_bind.
  apply bwp_mono with (Q := fun (c1 : chr) (v1 : bst) (c2 : chr) (v2 : bst) =>
                              (c2 =? 32)%N = (c1 =? 32)%N /\ v1 = u1 /\ v2 = u2).
  { destruct (Nat.eqb (lk u1) 0); [apply bwp_ret; auto|]. apply (bwp_peek d); [exact HU|]. b1_norm. auto. }
  intros c1 v1 c2 v2 (Ec & -> & ->). rewrite Ec.
  match goal with |- swp _ (if ?b then _ else _) _ _ _ _ => destruct b end.
  - apply bwp_ret_bpost; [reflexivity|exact HU].
  - apply IH. exact HU.
Qed.
Lemma shf_spp F1 F2 indent s1 s2 : SH d s1 s2 ->
  bwp (kb_spp sops F1 indent) (kb_spp sops F2 indent) (bpost d eq) s1 s2.
Proof.
  intros H. unfold kb_spp. destruct (indent <? N.of_nat (bufmaxlen sops - 2))%N.
  - apply bwp_bind. apply (bwp_look d); [exact H|]. intros t1 t2 HT _ _ _ _ _.
    apply shf_skip_spaces_to. exact HT.
  - eapply (bwp_call_eq d); [apply shf_wide; exact H|]. intros [] t1 t2 HT.
    apply (bwp_look d); [exact HT|]. intros u1 u2 HU _ _ _ _ _. unfold bpost. split; [reflexivity|exact HU].
Qed.

(* ---------------- (4) skip_block_scalar_indent: every empty line ends with [skip_break] ---------------- *)
Lemma shf_skip_bsi F1 F2 indent : forall f1 f2 breaks s1 s2, SH d s1 s2 ->
  bwp (skip_block_scalar_indent sops F1 f1 indent breaks) (skip_block_scalar_indent sops F2 f2 indent breaks)
      (bpost d eq) s1 s2.
Proof.
  induction f1 as [|f1 IH]; intros f2 breaks s1 s2 H; [exact I|]. destruct f2 as [|f2]; [apply bwp_oof_r|].
  rewrite !kb_sbsi_eq. apply bwp_bind.
  change (Nat.ltb (bufmaxlen sops) 2) with false. cbv iota. apply bwp_ret.
  eapply (bwp_call_eq d); [apply shf_spp; exact H|]. intros [] u1 u2 HU.
  apply bwp_bind. apply (bwp_next_is d); [exact HU|exact b1_is_break|].
  destruct (is_break (rn u1 0)).
  - apply bwp_bind. apply (bwp_skip_break d); [exact HU|]. intros v1 v2 HV _ _. apply IH. exact HV.
  - apply bwp_ret_bpost; [reflexivity|exact HU].
Qed.

(* ---------------- (5) skip_first_line_indent ---------------- *)
Lemma shf_sfl : forall f1 f2 s1 s2, SH d s1 s2 -> bwp (kb_sfl sops f1) (kb_sfl sops f2) (bpost d eq) s1 s2.
Proof.
  induction f1 as [|f1 IH]; intros f2 s1 s2 H; [exact I|]. destruct f2 as [|f2]; [apply bwp_oof_r|].
  cbn [kb_sfl]. apply bwp_bind. apply (bwp_look_ch d); [exact H|]. intros u1 u2 HU _ _ _ _. b1_norm.
  destruct (N.eqb_spec (rn u1 0) 32) as [E|NE]; [|apply bwp_ret_bpost; [reflexivity|exact HU]].
  assert (N0 : nbz (rn u1 0)) by (unfold nbz; rewrite E; reflexivity).
  apply bwp_bind. apply (bwp_skip_blank d); [exact HU|exact N0|]. intros v1 v2 HV _. apply IH. exact HV.
Qed.
Lemma shf_sfli F1 F2 : forall f1 f2 maxi breaks s1 s2, SH d s1 s2 ->
  bwp (skip_first_line_indent sops F1 f1 maxi breaks) (skip_first_line_indent sops F2 f2 maxi breaks)
      (bpost d eq) s1 s2.
Proof.
  induction f1 as [|f1 IH]; intros f2 maxi breaks s1 s2 H; [exact I|]. destruct f2 as [|f2]; [apply bwp_oof_r|].
  rewrite !kb_sfli_eq.
  eapply (bwp_call_eq d); [apply shf_sfl; exact H|]. intros [] u1 u2 HU.
  apply bwp_bind. apply (bwp_col d); [exact HU|]. cbv beta.
  apply bwp_bind. apply (bwp_next_is d); [exact HU|exact b1_is_break|].
  destruct (is_break (rn u1 0)).
  - apply bwp_bind. apply (bwp_look d); [exact HU|]. intros v1 v2 HV _ _ _ _ _.
    apply bwp_bind. apply (bwp_skip_break d); [exact HV|]. intros w1 w2 HW _ _. apply IH. exact HW.
  - apply bwp_ret_bpost; [reflexivity|exact HU].
Qed.
(* ---------------- (6) scan_block_scalar ---------------- *)
Theorem scan_block_scalar_ok : forall F1 F2 literal s1 s2, SH d s1 s2 -> nbz (rn s1 0) -> 4 <= lk s1 ->
  bwp (scan_block_scalar sops F1 literal) (scan_block_scalar sops F2 literal) (bpost d (TS d)) s1 s2.
Proof.
  intros F1 F2 literal s1 s2 H N0 L4. unfold scan_block_scalar. cbv zeta.
  apply bwp_bind. apply (bwp_mark d); [exact H|]. intros _. rewrite <- (SH_mark H).
  set (start := sc_mark s1).
  assert (G0 : m_line start = m_line (sc_mark s1)) by reflexivity.
  apply bwp_bind. apply bwp_mo; [mo|]. apply (bwp_skip_non_blank d); [exact H|exact N0|]. intros a1 a2 HA RA G1.
  assert (NA : rm a1 <> []) by exact (SH_ne_tl d _ _ _ H N0 RA).
  apply bwp_bind. apply bwp_mo; [mo|]. apply (bwp_unroll_non_block_indents d); [exact HA|]. intros p1 p2 HP RP G2.
  apply bwp_bind. apply bwp_mo; [mo|]. apply (bwp_look_ch d); [exact HP|]. intros c1 c2 HC RC _ _ _ G3.
  assert (NC : rm c1 <> []) by (rewrite RC, RP; exact NA).
  cbv beta. b1_norm.
  (* the header: chomping and indentation indicators, in either order; each character consumed has just been
     tested, so it is neither a break nor NUL *)
  apply bwp_bind. apply bwp_mo; [mo|].
  apply bwp_mono with (Q := fun (a1 : chomping * N) (t1 : bst) (a2 : chomping * N) (t2 : bst) =>
                              a1 = a2 /\ SH d t1 t2 /\ rm t1 <> []).
  { destruct ((rn c1 0 =? 43) || (rn c1 0 =? 45))%N eqn:Epm.
    - assert (Nc : nbz (rn c1 0)) by (nbz_by Epm).
      apply bwp_bind. apply (bwp_skip_non_blank d); [exact HC|exact Nc|]. intros d1 d2 HD RD.
      assert (ND : rm d1 <> []) by exact (SH_ne_tl d _ _ _ HC Nc RD).
      apply bwp_bind. apply (bwp_look d); [exact HD|]. intros e1 e2 HE RE _ _ _ _.
      assert (NE : rm e1 <> []) by (rewrite RE; exact ND).
      apply bwp_bind. apply (bwp_peek d); [exact HE|]. rewrite (SH_b1_in d _ _ HE NE).
      destruct (is_digit (rn e1 0)) eqn:Ed; [|apply bwp_ret; split; [reflexivity|split; assumption]].
      assert (Nd : nbz (rn e1 0)) by (nbz_by Ed).
      destruct (rn e1 0 =? 48)%N; [apply bwp_err_l|].
      apply bwp_bind. apply (bwp_skip_non_blank d); [exact HE|exact Nd|]. intros f1 f2 HF RF.
      apply bwp_ret. split; [reflexivity|split; [exact HF|exact (SH_ne_tl d _ _ _ HE Nd RF)]].
    - destruct (is_digit (rn c1 0)) eqn:Ed; [|apply bwp_ret; split; [reflexivity|split; assumption]].
      assert (Nc : nbz (rn c1 0)) by (nbz_by Ed).
      rewrite (b1_nbz _ Nc).
      destruct (rn c1 0 =? 48)%N; [apply bwp_err_l|].
      apply bwp_bind. apply (bwp_skip_non_blank d); [exact HC|exact Nc|]. intros d1 d2 HD RD.
      assert (ND : rm d1 <> []) by exact (SH_ne_tl d _ _ _ HC Nc RD).
      apply bwp_bind. apply (bwp_look d); [exact HD|]. intros e1 e2 HE RE _ _ _ _.
      assert (NE : rm e1 <> []) by (rewrite RE; exact ND).
      apply bwp_bind. apply (bwp_peek d); [exact HE|]. rewrite (SH_b1_in d _ _ HE NE).
      destruct ((rn e1 0 =? 43) || (rn e1 0 =? 45))%N eqn:Epm2; [|apply bwp_ret; split; [reflexivity|split; assumption]].
      assert (Nd : nbz (rn e1 0)) by (nbz_by Epm2).
      apply bwp_bind. apply (bwp_skip_non_blank d); [exact HE|exact Nd|]. intros f1 f2 HF RF.
      apply bwp_ret. split; [reflexivity|split; [exact HF|exact (SH_ne_tl d _ _ _ HE Nd RF)]]. }
  intros hd g1 hd2 g2 (<- & HG & NG) G4. destruct hd as [chomp increment]. cbv beta iota.
  (* the rest of the header line, and its line break *)
  apply bwp_bind. apply bwp_mo; [mo|]. eapply bwp_mono; [apply (skip_ws_to_eol_ok d); exact HG|].
  intros tw h1 tw2 h2 (_ & HH & NH0) G5. specialize (NH0 NG).
  apply bwp_bind. apply bwp_mo; [mo|]. apply (bwp_look d); [exact HH|]. intros i1 i2 HI RI _ _ _ _ G6.
  assert (NI : rm i1 <> []) by (rewrite RI; exact NH0).
  apply bwp_bind. apply (bwp_peek d); [exact HI|]. rewrite (SH_b1_in d _ _ HI NI).
  destruct (is_breakz (rn i1 0)) eqn:Ebz; cbn [negb]; [|apply bwp_err_l].
  rewrite (breakz_in d _ _ HI NI Ebz).
  apply bwp_bind.
  apply bwp_bind. apply bwp_mo; [mo|]. apply (bwp_look d); [exact HI|]. intros j1 j2 HJ _ _ _ _ _ G7.
  apply bwp_bind. apply (bwp_skip_break_x d); [exact HJ|]. intros k1 k2 HK _ LK1 LK2.
  apply bwp_ret.
  apply bwp_bind. apply bwp_mo; [mo|]. apply (bwp_look_ch d); [exact HK|]. intros q1 q2 HQ _ _ _ _ G8. cbv beta. b1_norm.
  destruct (rn q1 0 =? 9)%N; [apply bwp_err_l|].
  apply bwp_bind. apply bwp_get. cbv beta. sh_sync HQ.
  (* the indentation of the first content line *)
  match goal with |- swp _ (bind (if (?i =? 0)%N then _ else _) _) _ _ _ _ => set (indent0 := i) end.
  apply bwp_bind. apply bwp_mo; [mo|].
  apply bwp_mono with (Q := bpost d eq).
  { destruct (indent0 =? 0)%N.
    - eapply (bwp_call_eq d); [apply shf_sfli; exact HQ|]. intros r l1 l2 HL.
      apply bwp_ret_bpost; [reflexivity|exact HL].
    - eapply (bwp_call_eq d); [apply shf_skip_bsi; exact HQ|]. intros r l1 l2 HL.
      apply bwp_ret_bpost; [reflexivity|exact HL]. }
  intros ib l1 ib2 l2 [<- HL] G9. destruct ib as [indent tbreaks]. cbv beta iota.
  assert (LL : (m_line start < m_line (sc_mark l1))%N /\ 4 <= lk l1).
  { unfold ge_st in *. split; lia. }
  clear G1 G2 G3 G4 G5 G6 G7 G8 G9 LK1 LK2.
  apply bwp_bind. apply (bwp_next_is_raw d); [exact HL|]. cbv beta.
  apply bwp_bind. apply bwp_get. cbv beta. sh_sync HL.
  destruct (N.eq_dec (rn l1 0) 0) as [E0|NZ].
  { (* THE EMPTY SCALAR AT THE END OF INPUT: side 1 returns, side 2 leaves the content loop at once *)
    rewrite E0, b1_0. change (is_z 0%N) with true. change (is_z 46%N) with false. cbv iota.
    destruct (SH_end_col HL E0) as [C0 _]. pose proof (SH_at_end HL E0) as EE. rewrite C0.
    destruct LL as [LL1 LL2].
    apply bwp_r_bind.
    apply rwp_mono with (P := fun (w : bool) (t : bst) => w = false /\ SH d l1 t).
    { destruct (SH_end_rn HL EE) as (R0 & R1 & R2 & R3).
      match goal with |- rwp (if ?b then _ else _) _ _ => destruct b end.
      - apply rwp_bind. eapply rwp_step; [apply look_ok|]. apply rwp_bind.
        apply rwp_docind; [apply docind_marker; rewrite rn_bump; assumption|].
        eapply rwp_step; [apply ret_ok|]. split; [reflexivity|apply SH_bump_r; [exact HL|lia]].
      - eapply rwp_step; [apply ret_ok|]. split; [reflexivity|exact HL]. }
    intros w t2 [-> HT]. cbv iota.
    eapply bwp_step_r; [apply get_ok|]. cbv beta.
    match goal with |- swp _ _ (bind (?g2 F2 [] 0%N tbreaks false) _) _ _ _ =>
      assert (Hexit : forall f2 acc lb tb ldb u2, SH d l1 u2 ->
                rwp (g2 f2 acc lb tb ldb) (fun r t => r = (acc, lb, tb) /\ SH d l1 t) u2) end.
    { intros f2 acc lb tb ldb u2 HU. destruct f2 as [|f2]; [exact I|]. lazy beta iota.
      destruct (SH_end_rn HU EE) as (R0 & R1 & R2 & R3).
      apply rwp_bind. eapply rwp_step; [apply col_ok|]. apply rwp_bind. eapply rwp_step; [apply next_is_ok|].
      rewrite <- (SH_col HU), C0, R0. change (is_z 46%N) with false. rewrite orb_false_r.
      destruct (N.eqb_spec 0 indent) as [Ei|Ei]; cbn [negb].
      - rewrite <- Ei. rewrite N.eqb_refl.
        apply rwp_bind. apply rwp_bind. eapply rwp_step; [apply look_ok|].
        apply rwp_docind; [apply docind_marker; rewrite rn_bump; assumption|]. cbv beta iota.
        eapply rwp_step; [apply ret_ok|]. split; [reflexivity|apply SH_bump_r; [exact HU|lia]].
      - eapply rwp_step; [apply ret_ok|]. split; [reflexivity|exact HU]. }
    apply bwp_r_bind. eapply rwp_mono; [apply Hexit; exact HT|]. intros r t3 [-> HT3]. cbv beta iota.
    destruct (SH_end_rn HT3 EE) as (R0 & _).
    eapply bwp_step_r; [apply next_is_ok|]. cbv beta.
    eapply bwp_step_r; [apply col_ok|]. cbv beta.
    eapply bwp_step_r; [apply mark_ok|]. cbv beta.
    apply bwp_ret. split; [|exact HT3].
    rewrite R0, <- (SH_col HT3), C0, <- (SH_mark HT3), <- (SH_mark HT).
    assert (EL : (m_line (sc_mark l1) =? m_line start)%N = false) by (apply N.eqb_neq; lia).
    rewrite EL. change (is_z 46%N) with false. rewrite !andb_false_r.
    right. exists (if literal then Literal else Folded). eexists _, start, (sc_mark l1).
    split; [destruct literal; reflexivity|]. split; [reflexivity|].
    f_equal. f_equal.
    destruct chomp; cbv beta iota zeta; rewrite ?nls_0.
    - reflexivity.
    - reflexivity.
    - change (0 <? 0)%N with false. cbv iota. rewrite N.add_0_r. apply rev_nls. }
  (* side 1 is not at its end: both sides go on in lockstep *)
  destruct LL as [_ LL2].
  assert (NL : rm l1 <> []) by exact (SH_nonempty NZ).
  rewrite (b1_other _ NZ), (is_z_in d _ _ HL NL).
  (* "wrongly indented" check *)
  apply bwp_bind.
  apply bwp_mono with (Q := fun (w1 : bool) (t1 : bst) (w2 : bool) (t2 : bst) =>
                              w1 = w2 /\ SH d t1 t2 /\ rm t1 <> [] /\ 4 <= lk t1).
  { match goal with |- swp _ (if ?b then _ else _) _ _ _ _ => destruct b end;
      [|apply bwp_ret; split; [reflexivity|split; [exact HL|split; assumption]]].
    apply bwp_bind. apply (bwp_look d); [exact HL|]. intros m1 m2 HM RM _ _ _ LM.
    apply bwp_bind. apply (bwp_next_is_document_indicator d); [exact HM|].
    assert (EA : atend m1 = false) by (unfold atend; rewrite RM; destruct (rm l1); [contradiction|reflexivity]).
    rewrite EA, orb_false_r.
    apply bwp_ret. split; [reflexivity|split; [exact HM|split; [rewrite RM; exact NL|lia]]]. }
  intros wrong m1 w2 m2 (<- & HM & NM & LM). destruct wrong; [apply bwp_err_l|].
  apply bwp_bind. apply bwp_get. cbv beta. sh_sync HM.
  (* the main loop: one content line per round; side 1 may reach its end at the head of a round *)
  apply bwp_bind. apply bwp_mono with (Q := bpost d eq).
  { match goal with |- swp _ (?g1 F1 [] 0%N tbreaks false) (?g2 F2 [] 0%N tbreaks false) _ _ _ =>
      assert (Hgo : forall f1 f2 acc lb tb ldb u1 u2, SH d u1 u2 -> 4 <= lk u1 ->
                      bwp (g1 f1 acc lb tb ldb) (g2 f2 acc lb tb ldb) (bpost d eq) u1 u2) end.
    { induction f1 as [|f1 IH]; intros f2 acc lb tb ldb u1 u2 HU LU; [exact I|].
      destruct f2 as [|f2]; [apply bwp_oof_r|]. lazy beta iota.
      apply bwp_bind. apply (bwp_col d); [exact HU|]. cbv beta.
      apply bwp_bind. apply (bwp_next_is_raw d); [exact HU|]. cbv beta.
      destruct (N.eq_dec (rn u1 0) 0) as [E0|NZ'].
      - (* side 1 at its end: it leaves the loop; so does side 2 (column 0: other indentation, or the marker) *)
        rewrite E0, b1_0. change (is_z 0%N) with true. change (is_z 46%N) with false.
        rewrite orb_true_r, orb_false_r.
        destruct (SH_end_col HU E0) as [C0 _]. pose proof (SH_at_end HU E0) as EE.
        destruct (SH_end_rn HU EE) as (R0 & R1 & R2 & R3). rewrite C0.
        destruct (N.eqb_spec 0 indent) as [Ei|Ei]; cbn [negb].
        + rewrite <- Ei. rewrite N.eqb_refl.
          apply bwp_assoc_r. eapply bwp_step_r; [apply look_ok|].
          apply bwp_docind_r; [apply docind_marker; rewrite rn_bump; assumption|]. cbv beta iota.
          apply bwp_ret. split; [reflexivity|apply SH_bump_r; assumption].
        + apply bwp_ret_bpost; [reflexivity|exact HU].
      - assert (NU : rm u1 <> []) by exact (SH_nonempty NZ').
        rewrite (b1_other _ NZ'), (is_z_in d _ _ HU NU), orb_false_r.
        match goal with |- swp _ (if ?b then _ else _) _ _ _ _ => destruct b end;
          [apply bwp_ret_bpost; [reflexivity|exact HU]|].
        apply bwp_bind.
        apply bwp_mono with (Q := fun (e1 : bool) (t1 : bst) (e2 : bool) (t2 : bst) =>
                                    e1 = e2 /\ SH d t1 t2 /\ rm t1 <> [] /\ 4 <= lk t1).
        { destruct (indent =? 0)%N; [|apply bwp_ret; split; [reflexivity|split; [exact HU|split; assumption]]].
          apply bwp_bind. apply (bwp_look d); [exact HU|]. intros v1 v2 HV RV _ _ _ LV.
          apply (bwp_next_is_document_indicator d); [exact HV|].
          assert (EA : atend v1 = false) by (unfold atend; rewrite RV; destruct (rm u1); [contradiction|reflexivity]).
          rewrite EA, orb_false_r. split; [reflexivity|split; [exact HV|split; [rewrite RV; exact NU|lia]]]. }
        intros de v1 de2 v2 (<- & HV & NV & LV). destruct de; [apply bwp_ret_bpost; [reflexivity|exact HV]|].
        apply bwp_bind. apply (bwp_next_is d); [exact HV|exact b1_is_blank|]. cbv beta.
        apply bwp_bind. apply bwp_mo; [mo|]. eapply bwp_mono; [apply shf_content_line; assumption|].
        intros acc1 w1 acc2 w2 (<- & HW & NW) GW.
        apply bwp_bind. apply (bwp_look d); [exact HW|]. intros x1 x2 HX RX _ _ _ LX.
        apply bwp_bind. apply (bwp_next_is_in d); [exact HX|rewrite RX; exact NW|]. cbv beta.
        destruct (is_z (rn x1 0)); [apply bwp_ret_bpost; [reflexivity|exact HX]|].
        apply bwp_bind. apply (bwp_skip_break_x d); [exact HX|]. intros y1 y2 HY _ _ LY.
        apply bwp_bind. apply bwp_mo; [mo|]. eapply bwp_mono; [apply shf_skip_bsi; exact HY|].
        intros tb1 z1 tb2 z2 [<- HZ] GZ.
        apply IH; [exact HZ|]. unfold ge_st in *. lia. }
    apply Hgo; [exact HM|exact LM]. }
  intros r n1 r2 n2 [<- HN]. destruct r as [[acc lb] tb]. cbv beta iota.
  (* tail chomping: [is_z] of the next character and the column; at the end of side 1 the column is 0 and the
     answer of [is_z] does not matter *)
  apply bwp_bind. apply (bwp_next_is_raw d); [exact HN|]. cbv beta.
  apply bwp_bind. apply (bwp_col d); [exact HN|]. cbv beta.
  apply bwp_bind. apply (bwp_mark d); [exact HN|]. intros _. rewrite <- (SH_mark HN).
  apply bwp_ret. split; [|exact HN]. left.
  destruct (N.eq_dec (rn n1 0) 0) as [E0|NZ'].
  - destruct (SH_end_col HN E0) as [C0 _]. rewrite E0, b1_0, C0.
    assert (X1 : (N.max indent 1 <=? 0)%N = false) by (apply N.leb_gt; lia).
    rewrite X1. change (0 <? 0)%N with false. rewrite !andb_false_r. reflexivity.
  - rewrite (b1_other _ NZ'). reflexivity.
Qed.

End Block.

Check scan_block_scalar_ok.
Print Assumptions scan_block_scalar_ok.
