(* Joint proof "the scanner never runs out of fuel" (see SCANFUEL.md) - family: BLOCK SCALARS.
   Main result: [scan_block_scalar_ok : fuel_scan_block_scalar] (under the contract of [skip_ws_to_eol]).

   Loops of this family and why each ends before its fuel does (measure [rl] = remaining characters):
   - content line, buffered loop: an iteration returns, or consumes a character that was peeked and is not a break
     nor NUL;  raw fast path: [raw_read] answers [Some] only when it consumed a character;
   - [skip_spaces_to]: an iteration returns, or consumes a space that was peeked;
   - [skip_first_line_indent]: the [sp] loop consumes a peeked space per iteration, the outer loop a line break;
   - [skip_block_scalar_indent]: the outer loop consumes a line break per iteration.  The [wide] loop is the one that
     can iterate WITHOUT consuming: it repeats while [col <> indent] and the next character is a space (or the buffer
     is empty).  Over the string input the buffer is never empty after [look bufmaxlen]; [skip_spaces_to] stops with
     [col = indent] or in front of a non-space PROVIDED it was entered with [col <= indent] or in front of a
     non-space ([P0]); under that invariant [wide] does exactly one iteration.  [P0] holds at every call: the
     function is entered right after a line break ([col = 0]) or at the end of the input (next character NUL).
   - main loop of [scan_block_scalar]: an iteration returns, or consumes the line break after the content line
     ([skip_break] panics if it is not in front of a break). *)
From Coq Require Import List NArith ZArith Bool Arith Lia.
Import ListNotations.
Require Import Parser SBase SPrim SDir SScalar SFetch ScanFuel.
Local Open Scope nat_scope.

Arguments Nat.ltb : simpl never.
Arguments Nat.leb : simpl never.
Arguments Nat.eqb : simpl never.
Arguments Nat.sub : simpl never.
Arguments Nat.max : simpl never.
Arguments N.ltb : simpl never.
Arguments N.eqb : simpl never.
Arguments N.leb : simpl never.
Arguments N.add : simpl never.
Arguments N.max : simpl never.

Notation mcol s := (m_col (sc_mark s)).

(* "keeps": the remaining length did not grow, the look-ahead counter did not shrink *)
Definition kp (s s' : fst_) : Prop := rl s' <= rl s /\ lk s <= lk s'.
Ltac kpt := unfold le_post, lt_post, kp, fuel_ok in *; lia.

Lemma setin_mark (s s' : fst_) : s' = set_in (sc_in s') s -> sc_mark s' = sc_mark s.
Proof. intros H. rewrite H. reflexivity. Qed.
Lemma rl_eq s s' : frem s' = frem s -> rl s' = rl s.
Proof. unfold rl. intros H. rewrite H. reflexivity. Qed.
Lemma fnth_eq s s' : frem s' = frem s -> forall i, fnth s' i = fnth s i.
Proof. unfold fnth. intros H i. rewrite H. reflexivity. Qed.

(* ---------------- primitives, with the facts in arithmetic form ---------------- *)
Lemma fwp_look' n (Q : unit -> fst_ -> Prop) s :
  (forall s', rl s' = rl s -> (forall i, fnth s' i = fnth s i) -> lk s' = Nat.max (lk s) n -> mcol s' = mcol s -> Q tt s') ->
  fwp (look str_ops n) Q s.
Proof.
  intros HQ. apply fwp_look. intros s' R L E.
  apply HQ; [apply rl_eq, R|apply fnth_eq, R|exact L|rewrite (setin_mark _ _ E); reflexivity].
Qed.
Lemma fwp_look_ch' (Q : chr -> fst_ -> Prop) s :
  (forall s', rl s' = rl s -> (forall i, fnth s' i = fnth s i) -> lk s' = Nat.max (lk s) 1 -> mcol s' = mcol s -> Q (fnth s' 0) s') ->
  fwp (look_ch str_ops) Q s.
Proof.
  intros HQ. apply fwp_look_ch. intros s' R L E.
  apply HQ; [apply rl_eq, R|apply fnth_eq, R|exact L|rewrite (setin_mark _ _ E); reflexivity].
Qed.
Lemma fwp_adv_mark' n (Q : unit -> fst_ -> Prop) s :
  (forall s', rl s' = rl s -> (forall i, fnth s' i = fnth s i) -> lk s' = lk s -> mcol s' = (mcol s + n)%N -> Q tt s') ->
  fwp (@adv_mark strin n) Q s.
Proof. intros HQ. unfold adv_mark. apply fwp_modify. apply HQ; reflexivity. Qed.
Lemma fwp_skip_blank' (Q : unit -> fst_ -> Prop) s :
  (forall s', rl s' <= rl s -> (0 < rl s -> rl s' < rl s) -> lk s' = lk s -> mcol s' = (mcol s + 1)%N -> Q tt s') ->
  fwp (skip_blank str_ops) Q s.
Proof.
  intros HQ. unfold skip_blank. apply fwp_bind. apply fwp_in_skip. intros s1 R1 L1 E1.
  apply fwp_adv_mark'. intros s2 R2 N2 L2 C2. apply HQ.
  - rewrite R2. apply (rl_tl_le _ _ R1).
  - intros Hp. rewrite R2, (rl_tl _ _ R1 Hp). lia.
  - rewrite L2. exact L1.
  - rewrite C2, (setin_mark _ _ E1). reflexivity.
Qed.
Lemma fwp_skip_non_blank' (Q : unit -> fst_ -> Prop) s :
  (forall s', rl s' <= rl s -> (0 < rl s -> rl s' < rl s) -> lk s' = lk s -> Q tt s') ->
  fwp (skip_non_blank str_ops) Q s.
Proof.
  intros HQ. unfold skip_non_blank. apply fwp_bind. apply fwp_in_skip. intros s1 R1 L1 E1.
  apply fwp_bind. apply fwp_adv_mark'. intros s2 R2 N2 L2 C2. apply fwp_modify.
  change (rl (set_lws false s2)) with (rl s2) in HQ. apply HQ.
  - change (rl (set_lws false s2)) with (rl s2). rewrite R2. apply (rl_tl_le _ _ R1).
  - intros Hp. change (rl (set_lws false s2)) with (rl s2). rewrite R2, (rl_tl _ _ R1 Hp). lia.
  - change (lk (set_lws false s2)) with (lk s2). rewrite L2. exact L1.
Qed.
Lemma fwp_skip_nl' (Q : unit -> fst_ -> Prop) s :
  (forall s', rl s' <= rl s -> (0 < rl s -> rl s' < rl s) -> lk s' = lk s -> mcol s' = 0%N -> Q tt s') ->
  fwp (skip_nl str_ops) Q s.
Proof.
  intros HQ. unfold skip_nl. apply fwp_bind. apply fwp_in_skip. intros s1 R1 L1 E1.
  apply fwp_modify. apply HQ.
  - apply (rl_tl_le _ _ R1).
  - intros Hp. pose proof (rl_tl _ _ R1 Hp) as H. unfold rl, frem in *. cbn. lia.
  - exact L1.
  - reflexivity.
Qed.
(* [skip_break] panics unless it is in front of a line break; then it consumes it and the column is 0 *)
Lemma fwp_skip_break' (Q : unit -> fst_ -> Prop) s :
  (forall s', rl s' < rl s -> lk s' = lk s -> mcol s' = 0%N -> Q tt s') -> fwp (skip_break str_ops) Q s.
Proof.
  intros HQ. unfold skip_break. apply fwp_bind. apply fwp_peek. apply fwp_bind. apply fwp_peekn.
  apply fwp_bind. destruct (is_break (fnth s 0)) eqn:Eb; [|apply fwp_panic]. apply fwp_ret.
  assert (Hpos : 0 < rl s).
  { apply fnth0_nonzero_rl. intros E0. rewrite E0 in Eb. vm_compute in Eb. discriminate Eb. }
  apply fwp_bind. destruct (_ && _).
  - apply fwp_skip_blank'. intros s1 R1 R1' L1 _. apply fwp_skip_nl'. intros s2 R2 _ L2 C2.
    apply HQ; [specialize (R1' Hpos); lia|congruence|exact C2].
  - apply fwp_ret. apply fwp_skip_nl'. intros s2 R2 R2' L2 C2. apply HQ; [apply R2', Hpos|exact L2|exact C2].
Qed.

Lemma fwp_next_is p (Q : bool -> fst_ -> Prop) s : Q (p (fnth s 0)) s -> fwp (next_is str_ops p) Q s.
Proof. intros H. unfold next_is. apply fwp_bind. apply fwp_peek. apply fwp_ret. exact H. Qed.
Lemma fwp_col (Q : N -> fst_ -> Prop) s : Q (mcol s) s -> fwp (@col strin) Q s.
Proof. intros H. exact H. Qed.
Lemma fwp_next_3_are a b c (Q : bool -> fst_ -> Prop) s : (forall r, Q r s) -> fwp (next_3_are str_ops a b c) Q s.
Proof.
  intros H. unfold next_3_are. apply fwp_bind. apply fwp_assert_buflen. apply fwp_bind. apply fwp_peek.
  apply fwp_bind. apply fwp_peekn. apply fwp_bind. apply fwp_peekn. apply fwp_ret. apply H.
Qed.
Lemma fwp_next_is_document_indicator (Q : bool -> fst_ -> Prop) s :
  (forall r, Q r s) -> fwp (next_is_document_indicator str_ops) Q s.
Proof.
  intros H. unfold next_is_document_indicator. apply fwp_bind. apply fwp_assert_buflen. apply fwp_bind. apply fwp_peekn.
  destruct (is_blank_or_breakz (fnth s 3)); [|apply fwp_ret; apply H].
  apply fwp_bind. apply fwp_next_3_are. intros d. destruct d; [apply fwp_ret; apply H|apply fwp_next_3_are; exact H].
Qed.
Lemma fwp_unroll_nb' (Q : unit -> fst_ -> Prop) s :
  (forall s', rl s' = rl s -> lk s' = lk s -> Q tt s') -> fwp (@unroll_non_block_indents strin) Q s.
Proof.
  intros HQ. unfold unroll_non_block_indents. apply fwp_modify. destruct (unroll_nb _ _) as [ind l].
  apply HQ; reflexivity.
Qed.

(* ---------------- (1) scan_block_scalar_content_line ---------------- *)
Lemma fuel_content_line F acc s : rl s < F ->
  fwp (scan_block_scalar_content_line str_ops F acc) (le_post s) s.
Proof.
  intros HF. unfold scan_block_scalar_content_line. apply fwp_bind.
  match goal with |- fwp (?g F acc) _ _ =>
    assert (H1 : forall f acc1 s1, rl s1 < f -> fwp (g f acc1) (le_post s1) s1) end.
  { induction f as [|f IH]; intros acc1 s1 Hf; [exfalso; lia|]. lazy beta iota.
    apply fwp_bind. apply fwp_buf_is_empty. destruct (Nat.eqb (lk s1) 0).
    - apply fwp_ret. kpt.
    - apply fwp_bind. apply fwp_peek. destruct (is_breakz (fnth s1 0)) eqn:Ez.
      + apply fwp_ret. kpt.
      + assert (Hpos : 0 < rl s1).
        { apply fnth0_nonzero_rl. intros E0. rewrite E0 in Ez. vm_compute in Ez. discriminate Ez. }
        apply fwp_bind. apply fwp_skip_blank'. intros s2 R2 R2' L2 C2. specialize (R2' Hpos).
        eapply fwp_mono; [apply IH; lia|]. intros a s' K'. kpt. }
  eapply fwp_mono; [apply H1; exact HF|]. cbv beta. intros acc1 s1 K1. clear H1.
  apply fwp_bind. apply fwp_buf_is_empty. destruct (Nat.eqb (lk s1) 0); [|apply fwp_ret; exact K1].
  match goal with |- fwp (?g F acc1 0%N) _ _ =>
    assert (H2 : forall f acc2 n s2, rl s2 < f -> fwp (g f acc2 n) (le_post s2) s2) end.
  { induction f as [|f IH]; intros acc2 n s2 Hf; [exfalso; lia|]. lazy beta iota.
    assert (Hend : fwp (bind (adv_mark n) (fun _ => ret acc2)) (le_post s2) s2).
    { apply fwp_bind. apply fwp_adv_mark'. intros s3 R3 N3 L3 C3. apply fwp_ret. kpt. }
    apply fwp_bind. apply fwp_raw_read. destruct (frem s2) as [|c r] eqn:R2.
    - lazy beta iota. exact Hend.
    - destruct (is_breakz c).
      + lazy beta iota. exact Hend.
      + intros s3 R3 L3 E3. lazy beta iota.
        assert (Ha : rl s2 = S (length r)) by (unfold rl; rewrite R2; reflexivity).
        assert (Hb : rl s3 = length r) by (unfold rl; rewrite R3; reflexivity).
        eapply fwp_mono; [apply IH; lia|]. intros a s' K'. kpt. }
  eapply fwp_mono; [apply H2; kpt|]. intros a s' K'. kpt.
Qed.

(* ---------------- (2) skip_spaces_to ----------------
   [P0]: the column is not beyond the target, or the next character is not a space;
   [P1]: the column is the target, or the next character is not a space. *)
Definition P0 (indent : N) (s : fst_) : Prop := (mcol s <= indent)%N \/ fnth s 0 <> 32%N.
Definition P1 (indent : N) (s : fst_) : Prop := mcol s = indent \/ fnth s 0 <> 32%N.

Lemma fuel_skip_spaces_to indent cb : forall fuel s, rl s < fuel -> (cb = true -> 1 <= lk s) ->
  fwp (skip_spaces_to str_ops fuel indent cb) (fun _ s' => kp s s' /\ (P0 indent s -> P1 indent s')) s.
Proof.
  induction fuel as [|fuel IH]; intros s Hf Hlk; [exfalso; lia|].
  cbn [skip_spaces_to]. apply fwp_bind.
  apply fwp_mono with (Q := fun e s' => s' = s /\ e = false).
  { destruct cb.
    - apply fwp_buf_is_empty. split; [reflexivity|]. apply Nat.eqb_neq. specialize (Hlk eq_refl). lia.
    - apply fwp_ret. split; reflexivity. }
  intros e s' [-> ->]. apply fwp_bind. apply fwp_col. cbn [orb].
  destruct (N.ltb_spec (mcol s) indent) as [Hlt|Hge]; cbn [negb].
  2: { apply fwp_ret. split; [kpt|]. intros [H|H]; [left; lia|right; exact H]. }
  apply fwp_bind. apply fwp_peek. destruct (N.eqb_spec (fnth s 0) 32) as [E32|N32].
  - assert (Hpos : 0 < rl s) by (apply fnth0_nonzero_rl; rewrite E32; discriminate).
    apply fwp_bind. apply fwp_skip_blank'. intros s2 R2 R2' L2 C2. specialize (R2' Hpos).
    eapply fwp_mono; [apply IH; [lia|intros Hc; specialize (Hlk Hc); lia]|].
    intros _ s3 [K3 P3]. split; [kpt|]. intros _. apply P3. left. rewrite C2. lia.
  - apply fwp_ret. split; [kpt|]. intros _. right. exact N32.
Qed.

(* ---------------- (3) skip_block_scalar_indent ---------------- *)
Lemma fuel_skip_bsi F indent : forall fuel breaks s, rl s < fuel -> rl s < F -> P0 indent s ->
  fwp (skip_block_scalar_indent str_ops F fuel indent breaks) (le_post s) s.
Proof.
  induction fuel as [|fuel IH]; intros breaks s Hf HF HP; [exfalso; lia|].
  cbn [skip_block_scalar_indent]. change (bufmaxlen str_ops) with 128.
  apply fwp_bind. destruct (Nat.ltb 128 2); [apply fwp_panic|apply fwp_ret].
  apply fwp_bind. apply fwp_mono with (Q := fun _ s1 => kp s s1).
  { destruct (N.ltb indent (N.of_nat (128 - 2))).
    - apply fwp_bind. apply fwp_look'. intros s1 R1 N1 L1 C1.
      eapply fwp_mono; [apply fuel_skip_spaces_to; [lia|discriminate]|]. intros _ s2 [K2 _]. kpt.
    - apply fwp_bind.
      (* the wide loop: exactly one iteration *)
      { match goal with |- fwp (?g F) _ _ =>
          assert (HW : forall f, 1 <= f -> fwp (g f) (fun _ s1 => kp s s1) s) end.
        { intros f Hf1. destruct f as [|f]; [exfalso; lia|]. lazy beta iota. change (bufmaxlen str_ops) with 128.
          apply fwp_bind. apply fwp_look'. intros s1 R1 N1 L1 C1.
          assert (HP1 : P0 indent s1).
          { destruct HP as [H|H]; [left; rewrite C1; exact H|right; rewrite N1; exact H]. }
          apply fwp_bind. eapply fwp_mono; [apply fuel_skip_spaces_to; [lia|intros _; lia]|]. intros _ s2 [K2 HP2].
          specialize (HP2 HP1).
          apply fwp_bind. apply fwp_col. apply fwp_bind. apply fwp_buf_is_empty.
          assert (He : Nat.eqb (lk s2) 0 = false) by (apply Nat.eqb_neq; kpt).
          rewrite He. apply fwp_bind. apply fwp_peek. cbn [negb andb].
          assert (Hc : ((mcol s2 =? indent)%N || negb (fnth s2 0 =? 32)%N) = true).
          { destruct HP2 as [H|H]; [rewrite H, N.eqb_refl; reflexivity|].
            apply N.eqb_neq in H. rewrite H. apply orb_true_r. }
          rewrite Hc. apply fwp_ret. kpt. }
        eapply fwp_mono; [apply HW; lia|]. cbv beta.
        intros _ s1 K1. apply fwp_look'. intros s2 R2 N2 L2 C2. kpt. } }
  intros _ s1 K1. apply fwp_bind. apply fwp_next_is.
  destruct (is_break (fnth s1 0)).
  - apply fwp_bind. apply fwp_skip_break'. intros s2 R2 L2 C2.
    eapply fwp_mono; [apply IH; [kpt|kpt|left; rewrite C2; lia]|]. intros a s' K'. kpt.
  - apply fwp_ret. kpt.
Qed.

(* ---------------- (4) skip_first_line_indent ---------------- *)
Lemma fuel_sfli F : forall fuel maxi breaks s, rl s < fuel -> rl s < F ->
  fwp (skip_first_line_indent str_ops F fuel maxi breaks) (le_post s) s.
Proof.
  induction fuel as [|fuel IH]; intros maxi breaks s Hf HF; [exfalso; lia|].
  cbn [skip_first_line_indent]. apply fwp_bind.
  match goal with |- fwp (?g F) _ _ =>
    assert (HSP : forall f s1, rl s1 < f -> fwp (g f) (fun _ s' => kp s1 s') s1) end.
  { induction f as [|f IHf]; intros s1 Hf1; [exfalso; lia|]. lazy beta iota.
    apply fwp_bind. apply fwp_look_ch'. intros s2 R2 N2 L2 C2.
    destruct (N.eqb_spec (fnth s2 0) 32) as [E32|N32].
    - assert (Hpos : 0 < rl s2) by (apply fnth0_nonzero_rl; rewrite E32; discriminate).
      apply fwp_bind. apply fwp_skip_blank'. intros s3 R3 R3' L3 C3. specialize (R3' Hpos).
      eapply fwp_mono; [apply IHf; lia|]. intros a s' K'. kpt.
    - apply fwp_ret. kpt. }
  eapply fwp_mono; [apply HSP; exact HF|]. cbv beta. intros _ s1 K1. clear HSP.
  apply fwp_bind. apply fwp_col. apply fwp_bind. apply fwp_next_is.
  destruct (is_break (fnth s1 0)).
  - apply fwp_bind. apply fwp_look'. intros s2 R2 N2 L2 C2.
    apply fwp_bind. apply fwp_skip_break'. intros s3 R3 L3 C3.
    eapply fwp_mono; [apply IH; kpt|]. intros a s' K'. kpt.
  - apply fwp_ret. kpt.
Qed.

(* ---------------- (5) scan_block_scalar ---------------- *)
Section FuelBlock.
Hypothesis H_ws : fuel_skip_ws_to_eol.

Theorem scan_block_scalar_ok : fuel_scan_block_scalar.
Proof using H_ws.
  intros F literal s HF Hnz Hlk. unfold scan_block_scalar.
  apply fwp_bind. unfold mark. apply fwp_gets.
  assert (Hpos : 0 < rl s) by (apply fnth0_nonzero_rl; exact Hnz).
  (* the '|' or '>' *)
  apply fwp_bind. apply fwp_skip_non_blank'. intros s1 R1 R1' L1. specialize (R1' Hpos).
  apply fwp_bind. apply fwp_unroll_nb'. intros s2 R2 L2.
  apply fwp_bind. apply fwp_look_ch'. intros s3 R3 N3 L3 C3.
  (* the header *)
  apply fwp_bind. apply fwp_mono with (Q := fun _ s4 => kp s3 s4).
  { destruct ((fnth s3 0 =? 43) || (fnth s3 0 =? 45))%N.
    - apply fwp_bind. apply fwp_skip_non_blank'. intros s4 R4 _ L4.
      apply fwp_bind. apply fwp_look'. intros s5 R5 N5 L5 C5.
      apply fwp_bind. apply fwp_peek. destruct (is_digit (fnth s5 0)).
      + destruct (fnth s5 0 =? 48)%N; [apply fwp_fail|].
        apply fwp_bind. apply fwp_skip_non_blank'. intros s6 R6 _ L6. apply fwp_ret. kpt.
      + apply fwp_ret. kpt.
    - destruct (is_digit (fnth s3 0)).
      + destruct (fnth s3 0 =? 48)%N; [apply fwp_fail|].
        apply fwp_bind. apply fwp_skip_non_blank'. intros s4 R4 _ L4.
        apply fwp_bind. apply fwp_look'. intros s5 R5 N5 L5 C5.
        apply fwp_bind. apply fwp_peek. destruct ((fnth s5 0 =? 43) || (fnth s5 0 =? 45))%N.
        * apply fwp_bind. apply fwp_skip_non_blank'. intros s6 R6 _ L6. apply fwp_ret. kpt.
        * apply fwp_ret. kpt.
      + apply fwp_ret. kpt. }
  intros [chomp increment] s4 K4. lazy beta iota.
  (* the rest of the header line *)
  apply fwp_bind. eapply fwp_mono; [apply H_ws; kpt|]. intros tw s5 K5.
  apply fwp_bind. apply fwp_look'. intros s6 R6 N6 L6 C6.
  apply fwp_bind. apply fwp_peek.
  destruct (is_breakz (fnth s6 0)) eqn:Ebz; cbn [negb]; [|apply fwp_fail].
  apply fwp_bind. apply fwp_mono with (Q := fun _ s7 => kp s6 s7 /\ (mcol s7 = 0%N \/ fnth s7 0 = 0%N)).
  { destruct (is_break (fnth s6 0)) eqn:Eb.
    - apply fwp_bind. apply fwp_look'. intros s7 R7 N7 L7 C7.
      apply fwp_bind. apply fwp_skip_break'. intros s8 R8 L8 C8. apply fwp_ret. split; [kpt|left; exact C8].
    - apply fwp_ret. split; [kpt|right]. unfold is_breakz in Ebz. rewrite Eb in Ebz. cbn [orb] in Ebz.
      apply N.eqb_eq. exact Ebz. }
  intros cbreak s7 [K7 D7].
  apply fwp_bind. apply fwp_look_ch'. intros s8 R8 N8 L8 C8.
  destruct (fnth s8 0 =? 9)%N; [apply fwp_fail|].
  apply fwp_bind. apply fwp_get.
  (* the indentation of the first content line *)
  match goal with |- fwp (bind (if N.eqb ?i 0 then _ else _) _) _ _ => set (indent0 := i) end.
  apply fwp_bind. apply fwp_mono with (Q := fun _ s9 => kp s8 s9).
  { destruct (N.eqb indent0 0).
    - apply fwp_bind. eapply fwp_mono; [apply fuel_sfli; kpt|]. intros r s9 K9. apply fwp_ret. exact K9.
    - apply fwp_bind. eapply fwp_mono; [apply fuel_skip_bsi; [kpt|kpt|]|].
      + destruct D7 as [H|H]; [left; rewrite C8, H; lia|right; rewrite N8, H; discriminate].
      + intros r s9 K9. apply fwp_ret. exact K9. }
  intros [indent tbreaks] s9 K9. lazy beta iota.
  apply fwp_bind. apply fwp_next_is. apply fwp_bind. apply fwp_get.
  destruct (is_z (fnth s9 0)).
  { apply fwp_ret. kpt. }
  (* "wrongly indented" check *)
  apply fwp_bind. apply fwp_mono with (Q := fun _ s10 => kp s9 s10).
  { match goal with |- fwp (if ?b then _ else _) _ _ => destruct b end; [|apply fwp_ret; kpt].
    apply fwp_bind. apply fwp_look'. intros s10 R10 N10 L10 C10.
    apply fwp_bind. apply fwp_next_is_document_indicator. intros di. apply fwp_ret. kpt. }
  intros wrong s10 K10. destruct wrong; [apply fwp_fail|].
  apply fwp_bind. apply fwp_get.
  (* the main loop: one content line per round, each round consumes its line break *)
  apply fwp_bind.
  match goal with |- fwp (?g F [] 0%N tbreaks false) _ _ =>
    assert (Hgo : forall f acc lb tb ldb s5, rl s5 < f -> rl s5 < F -> fwp (g f acc lb tb ldb) (le_post s5) s5) end.
  { induction f as [|f IH]; intros acc lb tb ldb t5 Hf HF5; [exfalso; lia|]. lazy beta iota.
    apply fwp_bind. apply fwp_col. apply fwp_bind. apply fwp_next_is.
    match goal with |- fwp (if ?b then _ else _) _ _ => destruct b end; [apply fwp_ret; kpt|].
    apply fwp_bind. apply fwp_mono with (Q := fun _ t6 => kp t5 t6).
    { destruct (N.eqb indent 0); [|apply fwp_ret; kpt].
      apply fwp_bind. apply fwp_look'. intros t6 T6 M6 J6 D6.
      apply fwp_next_is_document_indicator. intros r. kpt. }
    intros de t6 Kt6. destruct de; [apply fwp_ret; exact Kt6|].
    apply fwp_bind. apply fwp_next_is. cbv zeta.
    apply fwp_bind. eapply fwp_mono; [apply fuel_content_line; kpt|]. intros acc1 t7 Kt7.
    apply fwp_bind. apply fwp_look'. intros t8 T8 M8 J8 D8.
    apply fwp_bind. apply fwp_next_is.
    destruct (is_z (fnth t8 0)); [apply fwp_ret; kpt|].
    apply fwp_bind. apply fwp_skip_break'. intros t9 T9 J9 D9.
    apply fwp_bind. eapply fwp_mono; [apply fuel_skip_bsi; [kpt|kpt|left; rewrite D9; lia]|]. intros tb1 t10 Kt10.
    eapply fwp_mono; [apply IH; kpt|]. intros a t' K'. kpt. }
  eapply fwp_mono; [apply Hgo; kpt|]. clear Hgo. intros [[acc lb] tb] s11 K11. lazy beta iota.
  apply fwp_bind. apply fwp_next_is. apply fwp_bind. apply fwp_col.
  apply fwp_bind. unfold mark. apply fwp_gets. apply fwp_ret. kpt.
Qed.

End FuelBlock.

Print Assumptions scan_block_scalar_ok.
