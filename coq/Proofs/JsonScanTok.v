(* C13, scanner half (2): one lemma per structural token of a JSON text ([ { ] } , :), with the insignificant whitespace
   around it.  Spans of tokens and positions are left existential: the theorem is about token kinds and scalar values. *)
From Coq Require Import List NArith ZArith Bool Arith Lia.
Import ListNotations.
Require Import Parser SBase SPrim SDir SScalar SFetch Pipe Json FlowFold FlowScalarProofs PlainScalarProofs QuotedFoldProofs JsonScanBase.
Open Scope N_scope.
Open Scope mon_scope.

Arguments insert_token : simpl never.


Definition open_char (seq : bool) : N := if seq then 91 else 123.
Definition close_char (seq : bool) : N := if seq then 93 else 125.
Definition open_tok (seq : bool) : tok := if seq then TFlowSequenceStart else TFlowMappingStart.
Definition close_tok (seq : bool) : tok := if seq then TFlowSequenceEnd else TFlowMappingEnd.
Definition open_ims (seq : bool) : ims := if seq then ImPossible else ImMapping.
Ltac rw_st E := let H := fresh "E" in pose proof E as H; cbn [open_ims open_tok open_char close_tok close_char] in H; unfold mkst, dummy_key, skey in H; rewrite H; clear H.

Lemma open_tail F (seq : bool) w1 rest2 l mk q adj ska hd tls fl tp ta lws ifms :
  wsb w1 = true -> tokstart rest2 -> (length w1 < F)%nat -> (fl =? 255) = false -> (4 <= l)%nat ->
  exists l' mk' w1' sp mkk,
    fnt_tail F (mkst (open_char seq :: w1 ++ rest2) l mk q adj ska (hd :: tls) fl tp ta lws ifms)
    = Ok (tt, mkst (w1' ++ rest2) l' mk' (q ++ [(sp, open_tok seq)]) adj true
                (dummy_key :: (if ska then skey true (tp + N.of_nat (length q)) mkk else hd) :: tls) (fl + 1) tp ta false
                (open_ims seq :: ifms))
    /\ wsb w1' = true /\ (length w1' <= length w1)%nat.
Proof.
  intros Hw Hts HF H255 Hl.
  destruct (eol_ws F w1 rest2 l (adv 1 mk) (q) adj true
              (dummy_key :: (if ska then skey true (tp + N.of_nat (length q)) mk else hd) :: tls) (fl + 1) tp ta false (open_ims seq :: ifms) Hw Hts HF)
    as (l' & mk' & w1' & tw & E & Hw' & Hlen).
  exists l', mk', w1', (spn mk mk'), mk. split; [|split; assumption].
  unfold fnt_tail, disp, mkst. destruct seq; cbn [open_char]; cbn; rewrite col_not_lt_indent; cbn.
  - unfold fetch_flow_collection_start. destruct ska; cbn.
    + rewrite indent_ne_col, andb_false_r. cbn. rewrite andb_false_r. cbn. unfold FLOW_LEVEL_MAX. rewrite H255. cbn.
      rw_st E. cbn. reflexivity.
    + rewrite andb_false_r. cbn. unfold FLOW_LEVEL_MAX. rewrite H255. cbn. rw_st E. cbn. reflexivity.
  - unfold fetch_flow_collection_start. destruct ska; cbn.
    + rewrite indent_ne_col, andb_false_r. cbn. rewrite andb_false_r. cbn. unfold FLOW_LEVEL_MAX. rewrite H255. cbn.
      rw_st E. cbn. reflexivity.
    + rewrite andb_false_r. cbn. unfold FLOW_LEVEL_MAX. rewrite H255. cbn. rw_st E. cbn. reflexivity.
Qed.

(* ']' / '}' closing its own kind of collection *)
Lemma close_tail F (seq : bool) w1 rest2 l mk q adj ska p tn km hd2 tls fl tp ta lws ifr :
  wsb w1 = true -> tokstart rest2 -> (length w1 < F)%nat -> (4 <= l)%nat ->
  exists l' mk' w1' sp adj',
    fnt_tail F (mkst (close_char seq :: w1 ++ rest2) l mk q adj ska (skey p tn km :: hd2 :: tls) (fl + 1) tp ta lws (open_ims seq :: ifr))
    = Ok (tt, mkst (w1' ++ rest2) l' mk' (q ++ [(sp, close_tok seq)]) adj' false (hd2 :: tls) fl tp ta false ifr)
    /\ wsb w1' = true /\ (length w1' <= length w1)%nat.
Proof.
  intros Hw Hts HF Hl.
  destruct (eol_ws F w1 rest2 l (adv 1 mk) q adj false (hd2 :: tls) fl tp ta false ifr Hw Hts HF)
    as (l' & mk' & w1' & tw & E & Hw' & Hlen).
  exists l', mk', w1', (spn mk mk'), (if 0 <? fl then m_index mk' else adj). split; [|split; assumption].
  assert (Hfl : (0 <? fl + 1) = true) by (apply N.ltb_lt; lia).
  unfold fnt_tail, disp, mkst. destruct seq; cbn [close_char open_ims]; cbn; rewrite col_not_lt_indent; cbn;
    unfold fetch_flow_collection_end; cbn; rewrite andb_false_r; cbn; rewrite Hfl; cbn; rewrite N.add_sub; rw_st E; cbn;
    destruct (0 <? fl); cbn; reflexivity.
Qed.

(* ',' between the entries of '[' (no single pair is open: JSON arrays hold no "key: value" entry) or of '{' *)
Lemma comma_tail F (seq : bool) w1 rest2 l mk q adj ska p tn km tls fl tp ta lws ifr :
  wsb w1 = true -> tokstart rest2 -> (length w1 < F)%nat -> (4 <= l)%nat ->
  exists l' mk' w1' sp,
    fnt_tail F (mkst (44 :: w1 ++ rest2) l mk q adj ska (skey p tn km :: tls) fl tp ta lws (open_ims seq :: ifr))
    = Ok (tt, mkst (w1' ++ rest2) l' mk' (q ++ [(sp, TFlowEntry)]) adj true (skey false tn km :: tls) fl tp ta false (open_ims seq :: ifr))
    /\ wsb w1' = true /\ (length w1' <= length w1)%nat.
Proof.
  intros Hw Hts HF Hl.
  destruct (eol_ws F w1 rest2 l (adv 1 mk) q adj true (skey false tn km :: tls) fl tp ta false (open_ims seq :: ifr) Hw Hts HF)
    as (l' & mk' & w1' & tw & E & Hw' & Hlen).
  exists l', mk', w1', (spn mk mk'). split; [|split; assumption].
  unfold fnt_tail, disp, mkst. cbn. rewrite col_not_lt_indent. cbn.
  unfold fetch_flow_entry. cbn. rewrite andb_false_r. cbn.
  destruct seq; cbn [open_ims]; cbn; rw_st E; cbn; reflexivity.
Qed.

(* ':' directly behind a member name (the string's fetch left sc_adjacent at this very position): Key goes in front of the name *)
Lemma insert_at_app {A} (x : A) q0 r : insert_at (length q0) x (q0 ++ r) = Some (q0 ++ x :: r).
Proof. induction q0 as [|y q0 IH]; cbn [length insert_at app]; [destruct r; reflexivity|]. rewrite IH. reflexivity. Qed.

Lemma insert_token_app (s : sc strin) tp t q0 r : sc_tokens s = q0 ++ r ->
  insert_token (tp + N.of_nat (length q0) - tp) t s = Ok (tt, set_tokens (q0 ++ t :: r) s).
Proof.
  intros H. unfold insert_token. replace (N.to_nat (tp + N.of_nat (length q0) - tp)) with (length q0) by lia.
  rewrite H, insert_at_app. reflexivity.
Qed.

Lemma colon_tail F cs l mk q0 kt ska km tls fl tp ta lws ifr :
  0 < fl -> (4 <= l)%nat ->
  exists sp1 sp2,
    fnt_tail F (mkst (58 :: cs) l mk (q0 ++ [kt]) (m_index mk) ska (skey true (tp + N.of_nat (length q0)) km :: tls) fl tp ta lws (ImMapping :: ifr))
    = Ok (tt, mkst cs l (adv 1 mk) ((q0 ++ [(sp1, TKey); kt]) ++ [(sp2, TValue)]) (m_index mk) false
                (skey false (tp + N.of_nat (length q0)) km :: tls) fl tp ta false (ImMapping :: ifr)).
Proof.
  intros Hfl Hl. destruct (fl_pos_facts fl Hfl) as [Hf0 Hf1].
  assert (Hlt : (tp + N.of_nat (length q0) <? tp) = false) by (apply N.ltb_ge; lia).
  exists (span_empty km), (span_empty mk).
  assert (Hval : fetch_value str_ops F (mkst (58 :: cs) l mk (q0 ++ [kt]) (m_index mk) ska (skey true (tp + N.of_nat (length q0)) km :: tls) fl tp ta lws (ImMapping :: ifr))
    = Ok (tt, mkst cs l (adv 1 mk) ((q0 ++ [(span_empty km, TKey); kt]) ++ [(span_empty mk, TValue)]) (m_index mk) false
                (skey false (tp + N.of_nat (length q0)) km :: tls) fl tp ta false (ImMapping :: ifr))).
  { unfold fetch_value, mkst, skey. cbn. rewrite Hf0. cbn. rewrite Hlt. cbn.
    erewrite insert_token_app; [|reflexivity]. cbn. rewrite Hf1. cbn. rewrite ?Hf0. cbn. rewrite ?Hf0. cbn. reflexivity. }
  unfold fnt_tail, disp. unfold mkst at 1. cbn. rewrite col_not_lt_indent. cbn. rewrite Hf1, N.eqb_refl, orb_true_r. cbn.
  unfold chr in *. destruct (is_blank_or_breakz (nth 0 cs 0)); cbn.
  - exact Hval.
  - unfold fetch_flow_value. cbn. rewrite N.eqb_refl. cbn. exact Hval.
Qed.
