(* C14: positions under LF -> CR LF and LF -> CR substitution. *)
From Coq Require Import List NArith Bool Arith Lia.
Import ListNotations.
Require Import Positions PosProofs.
Open Scope N_scope.

Definition crlf (s : list N) : list N := flat_map (fun c => if c =? 10 then [13; 10] else [c]) s.
Definition cr (s : list N) : list N := map (fun c => if c =? 10 then 13 else c) s.

Lemma pos_crlf_gen s : Forall (fun c => c <> 13) s -> forall n line col,
  pos_go (crlf s) (length (crlf (firstn n s))) line col = count_from (firstn n s) line col.
Proof.
  induction 1 as [|c r Hc Hr IH]; intros n line col.
  - destruct n; reflexivity.
  - destruct n as [|n]; [unfold crlf; cbn [firstn flat_map length]; destruct (c =? 10); reflexivity|].
    cbn [firstn]. unfold crlf at 1 2. cbn [flat_map]. fold (crlf r). fold (crlf (firstn n r)).
    destruct (N.eqb_spec c 10) as [->|Hne].
    + cbn [app length pos_go count_from]. change (13 =? 13) with true. change (10 =? 13) with false.
      change (10 =? 10) with true. cbv iota. apply IH.
    + cbn [app length pos_go count_from].
      destruct (N.eqb_spec c 13); [congruence|]. destruct (N.eqb_spec c 10); [congruence|]. apply IH.
Qed.

Lemma firstn_min {A} n (s : list A) : firstn (Nat.min n (length s)) s = firstn n s.
Proof.
  destruct (Nat.le_ge_cases n (length s)) as [H|H].
  - rewrite Nat.min_l by exact H. reflexivity.
  - rewrite Nat.min_r by exact H. rewrite firstn_all, firstn_all2 by exact H. reflexivity.
Qed.

Theorem pos_crlf s n :
  Forall (fun c => c <> 13) s -> pos_go (crlf s) (length (crlf (firstn n s))) 1 0 = pos_go s (Nat.min n (length s)) 1 0.
Proof.
  intros H. rewrite (pos_crlf_gen s H), (pos_go_count s H), firstn_min. reflexivity.
Qed.

