From Coq Require Import List NArith ZArith Bool Arith Lia.
Import ListNotations.
Require Import Parser SBase SPrim SDir SScalar SFetch SBuf InputRefine ScanRel.
Local Open Scope nat_scope.
Lemma SR_fields s1 s2 : SR s1 s2 ->
  sc_mark s1 = sc_mark s2 /\ sc_tokens s1 = sc_tokens s2 /\ sc_stream_start s1 = sc_stream_start s2
  /\ sc_stream_end s1 = sc_stream_end s2 /\ sc_adjacent s1 = sc_adjacent s2 /\ sc_ska s1 = sc_ska s2
  /\ sc_sks s1 = sc_sks s2 /\ sc_indent s1 = sc_indent s2 /\ sc_indents s1 = sc_indents s2
  /\ sc_flow_level s1 = sc_flow_level s2 /\ sc_tokens_parsed s1 = sc_tokens_parsed s2
  /\ sc_token_available s1 = sc_token_available s2 /\ sc_lws s1 = sc_lws s2 /\ sc_fms s1 = sc_fms s2
  /\ sc_ifms s1 = sc_ifms s2.
Proof. intros H. apply erase_fields. apply SR_erase. exact H. Qed.
Ltac sr_fields H :=
  let E := fresh "E" in
  pose proof (SR_fields _ _ H) as E; decompose [and] E; clear E.
Ltac skel_cbn :=
  cbn [sc_in sc_mark sc_tokens sc_stream_start sc_stream_end sc_adjacent sc_ska sc_sks sc_indent sc_indents
       sc_flow_level sc_tokens_parsed sc_token_available sc_lws sc_fms sc_ifms
       upd set_in set_mark set_tokens set_flags set_ska set_lws set_fms set_adj set_ta set_ss set_se
       set_struct set_sks set_indent set_fl set_tp set_ifms].
Goal forall n s1 s2, SR s1 s2 -> SR (set_mark (adv n (sc_mark s1)) s1) (set_mark (adv n (sc_mark s2)) s2).
Proof.
  intros n s1 s2 H. 
  Time split.
  Time exact (SR_rel _ _ H).
  Time sr_fields H.
  Time unfold erase. Time skel_cbn.
  Time f_equal.
  Show.
  all: Time try assumption.
  Time rewrite H0. reflexivity.
Qed.
