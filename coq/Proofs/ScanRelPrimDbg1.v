From Coq Require Import List NArith ZArith Bool Arith Lia.
Import ListNotations.
Require Import Parser SBase SPrim SDir SScalar SFetch SBuf InputRefine ScanRel.
About rwp. About Qe. About rpost. About rwp_look. About rwp_peek. About SR. About rwp_in_skip. About SR_lift. About rwp_bind.
About rel_skip_linebreak.
