(* Joint proof "the scanner does an amount of work linear in the input" (see SCANFUEL.md): the PLAIN SCALAR family
   (scan_plain_scalar, its chunked word loop plain_chunk and its blank/break loop plain_blanks).
   Measures:
   - plain_chunk: every round either returns, or consumes a character that has just been seen not to be a blank, a
     break or NUL, or - when the chunk counter j has reached bufmaxlen - 1 - refreshes the lookahead and restarts the
     counter WITHOUT consuming.  A refresh is followed by at least one consuming round or by the exit, so
     [2 * rl s + (1 if a refresh is pending) < fuel] decreases in every round.
   - plain_blanks: every round consumes a blank or a break (both are real characters), or - a tab in the
     indentation - calls skip_ws_to_eol on a tab, which consumes it; [rl s < fuel].
   - the word loop of scan_plain_scalar: a round that reads a word consumes its first character; a round that reads no
     word either returns or enters plain_blanks on a blank or a break, which consumes it; [rl s < f].
   The file is self-contained: the primitive loop in_skip_ws_to_eol (with its nested comment loop) is bounded here. *)
From Coq Require Import List NArith ZArith Bool Arith Lia.
Import ListNotations.
Require Import Parser SBase SPrim SDir SScalar SFetch ScanFuel.
Local Open Scope nat_scope.

#[local] Arguments Nat.ltb : simpl never.
#[local] Arguments Nat.leb : simpl never.
#[local] Arguments Nat.eqb : simpl never.
#[local] Arguments Nat.sub : simpl never.

(* ---------------- character classes ---------------- *)
Lemma break_nz c : is_break c = true -> c <> 0%N.
Proof. intros H E. rewrite E in H. discriminate H. Qed.
Lemma blank_nz c : is_blank c = true -> c <> 0%N.
Proof. intros H E. rewrite E in H. discriminate H. Qed.
Lemma breakz_false_nz c : is_breakz c = false -> c <> 0%N.
Proof. intros H E. rewrite E in H. discriminate H. Qed.
Lemma bobz_false_nz c : is_blank_or_breakz c = false -> c <> 0%N.
Proof. intros H E. rewrite E in H. discriminate H. Qed.

(* ---------------- the state seen through its input only ---------------- *)
Lemma rl_frem s s' : frem s' = frem s -> rl s' = rl s.
Proof. unfold rl. intros ->. reflexivity. Qed.
Lemma fnth_frem s s' i : frem s' = frem s -> fnth s' i = fnth s i.
Proof. unfold fnth. intros ->. reflexivity. Qed.

Lemma fw_look n (Q : unit -> fst_ -> Prop) s :
  (forall s', frem s' = frem s -> rl s' = rl s -> lk s <= lk s' -> Q tt s') -> fwp (look str_ops n) Q s.
Proof. intros HQ. apply fwp_look. intros s' R L _. apply HQ; [exact R|apply rl_frem; exact R|lia]. Qed.

Lemma fw_look_ch (Q : chr -> fst_ -> Prop) s :
  (forall s', frem s' = frem s -> rl s' = rl s -> lk s <= lk s' -> Q (fnth s' 0) s') -> fwp (look_ch str_ops) Q s.
Proof. intros HQ. apply fwp_look_ch. intros s' R L _. apply HQ; [exact R|apply rl_frem; exact R|lia]. Qed.

(* an update that leaves the input alone *)
Lemma fw_modify f (Q : unit -> fst_ -> Prop) s :
  sc_in (f s) = sc_in s ->
  (forall s', frem s' = frem s -> rl s' = rl s -> lk s' = lk s -> Q tt s') -> fwp (modify f) Q s.
Proof.
  intros Hin HQ. apply fwp_modify.
  apply HQ; [unfold frem|unfold rl, frem|unfold lk]; rewrite Hin; reflexivity.
Qed.

(* consuming one character: the measure does not grow, and drops by one when the character is real *)
Lemma fw_in_skip_gen (Q : unit -> fst_ -> Prop) s :
  (forall s', rl s' <= rl s -> (fnth s 0 <> 0%N -> rl s' + 1 = rl s) -> lk s' = lk s -> Q tt s') ->
  fwp (in_skip str_ops) Q s.
Proof.
  intros HQ. apply fwp_in_skip. intros s' R L _. apply HQ; [apply rl_tl_le; exact R| |exact L].
  intros Hc. pose proof (fnth0_nonzero_rl s Hc) as Hp. rewrite (rl_tl s s' R Hp). lia.
Qed.
Lemma fw_in_skip (Q : unit -> fst_ -> Prop) s : fnth s 0 <> 0%N ->
  (forall s', rl s' + 1 = rl s -> lk s' = lk s -> Q tt s') -> fwp (in_skip str_ops) Q s.
Proof. intros Hc HQ. apply fw_in_skip_gen. intros s' _ R L. apply HQ; [exact (R Hc)|exact L]. Qed.

Lemma fw_skip_blank (Q : unit -> fst_ -> Prop) s : fnth s 0 <> 0%N ->
  (forall s', rl s' + 1 = rl s -> lk s' = lk s -> Q tt s') -> fwp (skip_blank str_ops) Q s.
Proof.
  intros Hc HQ. unfold skip_blank. apply fwp_bind. apply fw_in_skip; [exact Hc|]. intros s1 R1 L1.
  unfold adv_mark. apply fw_modify; [reflexivity|]. intros s2 _ R2 L2. apply HQ; lia.
Qed.
Lemma fw_skip_non_blank (Q : unit -> fst_ -> Prop) s : fnth s 0 <> 0%N ->
  (forall s', rl s' + 1 = rl s -> lk s' = lk s -> Q tt s') -> fwp (skip_non_blank str_ops) Q s.
Proof.
  intros Hc HQ. unfold skip_non_blank. apply fwp_bind. apply fw_in_skip; [exact Hc|]. intros s1 R1 L1.
  apply fwp_bind. unfold adv_mark. apply fw_modify; [reflexivity|]. intros s2 _ R2 L2.
  apply fw_modify; [reflexivity|]. intros s3 _ R3 L3. apply HQ; lia.
Qed.
Lemma fw_skip_nl (Q : unit -> fst_ -> Prop) s :
  (forall s', rl s' <= rl s -> (fnth s 0 <> 0%N -> rl s' + 1 = rl s) -> lk s' = lk s -> Q tt s') ->
  fwp (skip_nl str_ops) Q s.
Proof.
  intros HQ. unfold skip_nl. apply fwp_bind. apply fw_in_skip_gen. intros s1 A1 R1 L1.
  apply fw_modify; [reflexivity|]. intros s2 _ R2 L2. apply HQ; [lia| |lia]. intros Hc. specialize (R1 Hc). lia.
Qed.
(* a break (LF, CR or CR LF) is consumed as one unit *)
Lemma fw_skip_break (Q : unit -> fst_ -> Prop) s : is_break (fnth s 0) = true ->
  (forall s', rl s' < rl s -> lk s' = lk s -> Q tt s') -> fwp (skip_break str_ops) Q s.
Proof.
  intros Hb HQ. pose proof (break_nz _ Hb) as Hc. unfold skip_break.
  apply fwp_bind. apply fwp_peek. apply fwp_bind. apply fwp_peekn. apply fwp_bind.
  rewrite Hb. apply fwp_ret. apply fwp_bind.
  match goal with |- fwp (if ?b then _ else _) _ _ => destruct b end.
  - apply fw_skip_blank; [exact Hc|]. intros s1 R1 L1. apply fw_skip_nl. intros s2 R2 _ L2. apply HQ; lia.
  - apply fwp_ret. apply fw_skip_nl. intros s2 _ R2 L2. specialize (R2 Hc). apply HQ; lia.
Qed.

(* ---------------- pure look-ups ---------------- *)
Lemma fw_next_is p (Q : bool -> fst_ -> Prop) s : Q (p (fnth s 0)) s -> fwp (next_is str_ops p) Q s.
Proof. intros H. unfold next_is. apply fwp_bind. apply fwp_peek. apply fwp_ret. exact H. Qed.

Lemma fw_next_can_be_plain_scalar fl (Q : bool -> fst_ -> Prop) s :
  (forall b, Q b s) -> fwp (next_can_be_plain_scalar str_ops fl) Q s.
Proof.
  intros H. unfold next_can_be_plain_scalar. apply fwp_bind. apply fwp_peekn. apply fwp_bind. apply fwp_peek.
  repeat match goal with |- fwp (if ?b then _ else _) _ _ => destruct b end; apply fwp_ret; apply H.
Qed.

Lemma fw_next_3_are a b c (Q : bool -> fst_ -> Prop) s : (forall x, Q x s) -> fwp (next_3_are str_ops a b c) Q s.
Proof.
  intros H. unfold next_3_are. apply fwp_bind. apply fwp_assert_buflen. apply fwp_bind. apply fwp_peek.
  apply fwp_bind. apply fwp_peekn. apply fwp_bind. apply fwp_peekn. apply fwp_ret. apply H.
Qed.

Lemma fw_next_is_document_indicator (Q : bool -> fst_ -> Prop) s :
  (forall b, Q b s) -> fwp (next_is_document_indicator str_ops) Q s.
Proof.
  intros H. unfold next_is_document_indicator. apply fwp_bind. apply fwp_assert_buflen. apply fwp_bind. apply fwp_peekn.
  match goal with |- fwp (if ?b then _ else _) _ _ => destruct b end; [|apply fwp_ret; apply H].
  apply fwp_bind. apply fw_next_3_are. intros d. destruct d; [apply fwp_ret; apply H|apply fw_next_3_are; exact H].
Qed.

(* ---------------- in_skip_ws_to_eol with its nested comment loop ----------------
   every round of either loop consumes a real character (space, tab, '#', a comment character that is not a break
   or NUL) or leaves the loop; the comment loop hands over to the outer loop with the outer loop's smaller fuel,
   which still exceeds the remaining length because the '#' has been consumed in between *)
Lemma fw_in_skip_ws_to_eol : forall fuel st tab ws n s, rl s < fuel ->
  fwp (in_skip_ws_to_eol str_ops fuel st tab ws n) (le_post s) s.
Proof.
  induction fuel as [|fuel IH]; intros st tab ws n s Hf; [exfalso; lia|].
  cbn [in_skip_ws_to_eol].
  apply fwp_bind. apply fw_look_ch. intros s1 R1 E1 L1.
  destruct (N.eqb_spec (fnth s1 0) 32) as [E32|N32].
  { apply fwp_bind. apply fw_in_skip; [rewrite E32; discriminate|]. intros s2 R2 L2.
    eapply fwp_mono; [apply IH; lia|]. intros a s' [A B]. split; lia. }
  match goal with |- fwp (if ?b then _ else _) _ _ => destruct b eqn:E9 end.
  { apply andb_true_iff in E9 as [E9 _]. apply N.eqb_eq in E9.
    apply fwp_bind. apply fw_in_skip; [rewrite E9; discriminate|]. intros s2 R2 L2.
    eapply fwp_mono; [apply IH; lia|]. intros a s' [A B]. split; lia. }
  destruct (N.eqb_spec (fnth s1 0) 35) as [E35|N35]; [|apply fwp_ret; split; lia].
  destruct (negb tab && negb ws); [apply fwp_ret; split; lia|].
  apply fwp_bind. apply fw_in_skip; [rewrite E35; discriminate|]. intros s2 R2 L2.
  match goal with |- fwp (?L fuel n) _ _ =>
    assert (HL : forall f k s3, rl s3 < f -> rl s3 <= rl s2 -> lk s2 <= lk s3 -> fwp (L f k) (le_post s) s3) end.
  { induction f as [|f IHf]; intros k s3 Hf3 A3 B3; [exfalso; lia|]. lazy beta iota.
    apply fwp_bind. apply fw_look_ch. intros s4 R4 E4 L4.
    destruct (is_breakz (fnth s4 0)) eqn:Z4.
    - eapply fwp_mono; [apply IH; lia|]. intros a s' [A B]. split; lia.
    - apply fwp_bind. apply fw_in_skip; [apply breakz_false_nz; exact Z4|]. intros s5 R5 L5.
      apply IHf; lia. }
  apply HL; lia.
Qed.

(* entered on a tab with SkipYes, skip_ws_to_eol consumes it *)
Lemma fw_skip_ws_to_eol_tab F s : rl s < F -> fnth s 0 = 9%N ->
  fwp (skip_ws_to_eol str_ops F SkipYes) (lt_post s) s.
Proof.
  intros Hf H9. unfold skip_ws_to_eol. apply fwp_bind.
  destruct F as [|F]; [exfalso; lia|]. cbn [in_skip_ws_to_eol].
  apply fwp_bind. apply fw_look_ch. intros s1 R1 E1 L1.
  assert (H9' : fnth s1 0 = 9%N) by (rewrite (fnth_frem _ _ 0 R1); exact H9).
  destruct (N.eqb_spec (fnth s1 0) 32) as [E32|_]; [rewrite H9' in E32; discriminate E32|].
  match goal with |- fwp (if ?b then _ else _) _ _ => replace b with true by (rewrite H9'; reflexivity) end.
  apply fwp_bind. apply fw_in_skip; [rewrite H9'; discriminate|]. intros s2 R2 L2.
  eapply fwp_mono; [apply fw_in_skip_ws_to_eol; lia|]. intros r s3 [A3 B3]. cbv beta.
  apply fwp_bind. unfold adv_mark. apply fw_modify; [reflexivity|]. intros s4 _ R4 L4.
  destruct (snd r).
  - apply fwp_ret. split; lia.
  - apply fwp_bind. unfold mark. apply fwp_gets. apply fwp_fail.
Qed.

(* ---------------- plain_chunk: the rest of a word ---------------- *)
Lemma fuel_plain_chunk : forall fuel j acc s,
  2 * rl s + (if Nat.leb (bufmaxlen str_ops - 1) j then 1 else 0) < fuel ->
  fwp (plain_chunk str_ops fuel j acc) (le_post s) s.
Proof.
  induction fuel as [|fuel IH]; intros j acc s Hf; [exfalso; lia|]. cbn [plain_chunk].
  destruct (Nat.leb (bufmaxlen str_ops - 1) j) eqn:E.
  - (* the chunk is exhausted: refresh the lookahead, restart the counter; nothing is consumed *)
    apply fwp_bind. apply fw_look. intros s1 R1 E1 L1.
    eapply fwp_mono; [apply IH|].
    + change (Nat.leb (bufmaxlen str_ops - 1) 0) with false. cbv iota. lia.
    + intros a s' [A B]. split; lia.
  - apply fwp_bind. apply fw_next_is. apply fwp_bind. apply fwp_get. cbv beta.
    destruct (is_blank_or_breakz (fnth s 0)) eqn:Eb.
    + apply fwp_bind. apply fwp_ret. cbn [orb]. apply fwp_ret. split; lia.
    + apply fwp_bind. apply fw_next_can_be_plain_scalar. intros cb. cbn [orb]. destruct cb; cbn [negb].
      * apply fwp_bind. apply fwp_peek. apply fwp_bind.
        apply fw_skip_non_blank; [apply bobz_false_nz; exact Eb|]. intros s1 R1 L1.
        eapply fwp_mono; [apply IH|].
        -- destruct (Nat.leb (bufmaxlen str_ops - 1) (S j)); lia.
        -- intros a s' [A B]. split; lia.
      * apply fwp_ret. split; lia.
Qed.

Lemma fuel_plain_chunk0 fuel acc s : 2 * rl s < fuel -> fwp (plain_chunk str_ops fuel 0 acc) (le_post s) s.
Proof.
  intros Hf. apply fuel_plain_chunk. change (Nat.leb (bufmaxlen str_ops - 1) 0) with false. cbv iota. lia.
Qed.

(* ---------------- plain_blanks: blanks and breaks between the words ----------------
   entered on a blank or a break it consumes at least that character *)
Lemma fuel_plain_blanks F : forall fuel indent start lb tb ws s,
  rl s < F -> rl s < fuel ->
  fwp (plain_blanks str_ops F fuel indent start lb tb ws)
      (fun _ s' => rl s' <= rl s /\ lk s <= lk s' /\
                   (is_blank (fnth s 0) || is_break (fnth s 0) = true -> rl s' < rl s)) s.
Proof.
  induction fuel as [|fuel IH]; intros indent start lb tb ws s HF Hf; [exfalso; lia|].
  cbn [plain_blanks].
  apply fwp_bind. apply fwp_peek.
  (* the rest of the loop, entered after something has been consumed *)
  assert (HK : forall lb' tb' ws' s2, rl s2 < rl s -> lk s <= lk s2 ->
            fwp (bind (look str_ops 2) (fun _ => plain_blanks str_ops F fuel indent start lb' tb' ws'))
                (lt_post s) s2).
  { intros lb' tb' ws' s2 A2 B2. apply fwp_bind. apply fw_look. intros s3 R3 E3 L3.
    eapply fwp_mono; [apply IH; lia|]. intros a s' (A & B & _). split; lia. }
  assert (HM : forall (a : bool * N * list chr) s', lt_post s a s' ->
            rl s' <= rl s /\ lk s <= lk s' /\ (is_blank (fnth s 0) || is_break (fnth s 0) = true -> rl s' < rl s)).
  { intros a s' [A B]. split; [lia|split; [lia|intros _; exact A]]. }
  destruct (is_blank (fnth s 0)) eqn:Eb.
  - pose proof (blank_nz _ Eb) as Hc.
    apply fwp_bind. apply fwp_get.
    destruct (negb (sc_lws s)).
    + apply fwp_bind. apply fw_skip_blank; [exact Hc|]. intros s1 R1 L1.
      eapply fwp_mono; [apply HK; lia|exact HM].
    + match goal with |- fwp (if ?b then _ else _) _ _ => destruct b eqn:Et end.
      * (* a tab in the indentation: the rest of the line must be blank / a comment *)
        apply andb_true_iff in Et as [_ Et]. apply N.eqb_eq in Et.
        apply fwp_bind. eapply fwp_mono; [apply fw_skip_ws_to_eol_tab; [exact HF|exact Et]|].
        intros tw s1 [A1 B1]. apply fwp_bind. apply fw_next_is.
        destruct (is_breakz (fnth s1 0)); [|apply fwp_fail].
        eapply fwp_mono; [apply HK; lia|exact HM].
      * apply fwp_bind. apply fw_skip_blank; [exact Hc|]. intros s1 R1 L1.
        eapply fwp_mono; [apply HK; lia|exact HM].
  - destruct (is_break (fnth s 0)) eqn:Ek.
    + apply fwp_bind. apply fwp_get. destruct (sc_lws s).
      * apply fwp_bind. apply fw_skip_break; [exact Ek|]. intros s1 R1 L1.
        eapply fwp_mono; [apply HK; lia|exact HM].
      * apply fwp_bind. apply fw_skip_break; [exact Ek|]. intros s1 R1 L1.
        apply fwp_bind. apply fw_modify; [reflexivity|]. intros s2 _ R2 L2.
        eapply fwp_mono; [apply HK; lia|exact HM].
    + apply fwp_ret. split; [lia|split; [lia|discriminate]].
Qed.

(* ---------------- the main loop of scan_plain_scalar (a local [fix] in the model), restated ---------------- *)
Local Open Scope N_scope.
Local Open Scope mon_scope.
Section Go.
Variables (F : nat) (indent : Z) (start : marker).
Fixpoint plain_go (f : nat) (acc : list chr) (lb : bool) (tb : N) (ws : list chr) (endm : marker) {struct f}
    : FM (list chr * marker) :=
  match f with
  | O => oof
  | S f =>
    look str_ops 4 ;;;
    s <- get ;;
    di <- (if sc_lws s && (m_col (sc_mark s) =? 0) then next_is_document_indicator str_ops else ret false) ;;
    c <- SPrim.peek str_ops ;;
    if di || (c =? 35) then ret (acc, endm) else
    nc <- peekn str_ops 1 ;;
    let fl := 0 <? sc_flow_level s in
    if (match acc with [] => true | _ => false end) && fl && (c =? 45) && is_flow nc then fail 76 (sc_mark s) else
    cb <- (if is_blank_or_breakz c then ret false else next_can_be_plain_scalar str_ops fl) ;;
    r <- (if cb then
            let '(acc, lb, tb, ws) :=
              if sc_lws s then
                (if negb lb then (nls tb acc, false, 0, ws)
                 else if tb =? 0 then (32 :: acc, false, 0, ws)
                 else (nls tb acc, false, 0, ws))
              else (ws ++ acc, lb, tb, []) in
            modify (set_lws false) ;;;
            skip_non_blank str_ops ;;;
            look str_ops (bufmaxlen str_ops) ;;;
            acc <- plain_chunk str_ops F 0 (c :: acc) ;;
            m <- mark ;; ret (acc, lb, tb, ws, m)
          else ret (acc, lb, tb, ws, endm)) ;;
    let '(acc, lb, tb, ws, endm) := r in
    c <- SPrim.peek str_ops ;;
    if negb (is_blank c || is_break c) then ret (acc, endm) else
    look str_ops 2 ;;;
    r <- plain_blanks str_ops F F indent start lb tb ws ;;
    let '(lb, tb, ws) := r in
    s <- get ;;
    if (sc_flow_level s =? 0) && (Z.of_N (m_col (sc_mark s)) <? indent)%Z then ret (acc, endm)
    else plain_go f acc lb tb ws endm
  end.
End Go.

Lemma scan_plain_scalar_eq F :
  scan_plain_scalar str_ops F =
  (unroll_non_block_indents ;;;
   s0 <- get ;;
   let indent := (sc_indent s0 + 1)%Z in
   let start := sc_mark s0 in
   if (0 <? sc_flow_level s0) && (Z.of_N (m_col start) <? indent)%Z then fail 75 start else
   r <- plain_go F indent start F [] false 0 [] start ;;
   s <- get ;;
   (if sc_lws s then allow_simple_key else ret tt) ;;;
   match fst r with
   | [] => fail 78 start
   | _ => ret ({| sp_start := start; sp_end := snd r |}, TScalar Plain (rev (fst r)))
   end).
Proof. reflexivity. Qed.
Close Scope mon_scope.
Close Scope N_scope.

(* a round that reads a word consumes its first character; a round that reads no word returns or consumes the blank
   or break it stands on; so: the remaining length never grows, and if it is unchanged the scalar is unchanged *)
Lemma fuel_plain_go F indent start : forall f acc lb tb ws endm s,
  fuel_ok F s -> rl s < f ->
  fwp (plain_go F indent start f acc lb tb ws endm)
      (fun r s' => rl s' <= rl s /\ lk s <= lk s' /\ (rl s' = rl s -> fst r = acc)) s.
Proof.
  induction f as [|f IH]; intros acc lb tb ws endm s HF Hf; [exfalso; lia|]. cbn [plain_go].
  pose proof HF as HF'. unfold fuel_ok in HF'.
  apply fwp_bind. apply fw_look. intros s1 R1 E1 L1.
  apply fwp_bind. apply fwp_get. apply fwp_bind.
  match goal with |- fwp _ ?Q _ => assert (HQ : forall di, Q di s1) end.
  2:{ destruct (sc_lws s1 && (m_col (sc_mark s1) =? 0)%N);
        [apply fw_next_is_document_indicator; exact HQ|apply fwp_ret; exact (HQ false)]. }
  intros di. cbv beta.
  apply fwp_bind. apply fwp_peek.
  match goal with |- fwp (if ?b then _ else _) _ _ => destruct b end.
  { apply fwp_ret. split; [lia|split; [lia|intros _; reflexivity]]. }
  apply fwp_bind. apply fwp_peekn. cbv zeta.
  match goal with |- fwp (if ?b then _ else _) _ _ => destruct b end; [apply fwp_fail|].
  apply fwp_bind.
  (* the first character of a word is consumed only if it is not a blank, a break or NUL *)
  match goal with |- fwp _ ?Q _ =>
    assert (HQ : forall cb, (cb = true -> fnth s1 0 <> 0%N) -> Q cb s1) end.
  2:{ destruct (is_blank_or_breakz (fnth s1 0)) eqn:Eb.
      - apply fwp_ret. refine (HQ false _). discriminate.
      - apply fw_next_can_be_plain_scalar. intros cb. refine (HQ cb _). intros _. apply bobz_false_nz. exact Eb. }
  intros cb Hcb. cbv beta.
  apply fwp_bind.
  (* after the word *)
  match goal with |- fwp _ ?Q _ =>
    assert (HK : forall r s2, rl s2 <= rl s -> lk s <= lk s2 ->
                   (rl s2 = rl s -> fst (fst (fst (fst r))) = acc) -> Q r s2) end.
  { intros [[[[acc' lb'] tb'] ws'] endm'] s2 A2 B2 C2. cbv beta iota. cbn [fst] in C2.
    apply fwp_bind. apply fwp_peek.
    destruct (is_blank (fnth s2 0) || is_break (fnth s2 0)) eqn:Ebb; cbn [negb].
    2:{ apply fwp_ret. split; [lia|split; [lia|exact C2]]. }
    apply fwp_bind. apply fw_look. intros s3 R3 E3 L3.
    apply fwp_bind. eapply fwp_mono; [apply fuel_plain_blanks; lia|].
    intros [[lb2 tb2] ws2] s4 (A4 & B4 & C4). cbv beta iota.
    rewrite (fnth_frem _ _ 0 R3) in C4. specialize (C4 Ebb).
    apply fwp_bind. apply fwp_get.
    match goal with |- fwp (if ?b then _ else _) _ _ => destruct b end.
    { apply fwp_ret. split; [lia|split; [lia|intros X; exfalso; lia]]. }
    eapply fwp_mono; [apply IH; [eapply fuel_ok_le; [exact HF|lia]|lia]|]. intros r s' (A' & B' & C').
    split; [lia|split; [lia|intros X; exfalso; lia]]. }
  destruct cb; [|apply fwp_ret; refine (HK (acc, lb, tb, ws, endm) s1 _ _ _); [lia|lia|intros _; reflexivity]].
  destruct (if sc_lws s1 then _ else _) as [[[a1 l1] t1] w1]. cbv beta iota.
  apply fwp_bind. apply fw_modify; [reflexivity|]. intros sx Rx Ex Lx.
  apply fwp_bind. apply fw_skip_non_blank; [rewrite (fnth_frem _ _ 0 Rx); exact (Hcb eq_refl)|]. intros s2 R2 L2.
  apply fwp_bind. apply fw_look. intros s3 R3 E3 L3.
  apply fwp_bind. eapply fwp_mono; [apply fuel_plain_chunk0; lia|]. intros acc2 s4 [A4 B4].
  apply fwp_bind. unfold mark. apply fwp_gets. apply fwp_ret.
  refine (HK (acc2, l1, t1, w1, sc_mark s4) s4 _ _ _); [lia|lia|intros X; exfalso; lia].
Qed.

(* ---------------- the contract ---------------- *)
Theorem scan_plain_scalar_ok : fuel_scan_plain_scalar.
Proof.
  intros F s HF _. rewrite scan_plain_scalar_eq.
  pose proof HF as HF'. unfold fuel_ok in HF'.
  apply fwp_bind. unfold unroll_non_block_indents. apply fw_modify.
  { destruct (unroll_nb (sc_indents s) (sc_indent s)) as [ind l]. reflexivity. }
  intros s1 R1 E1 L1.
  apply fwp_bind. apply fwp_get. cbv zeta.
  match goal with |- fwp (if ?b then _ else _) _ _ => destruct b end; [apply fwp_fail|].
  apply fwp_bind. eapply fwp_mono; [apply fuel_plain_go; [eapply fuel_ok_le; [exact HF|lia]|lia]|].
  intros r s2 (A2 & B2 & C2). cbv beta.
  apply fwp_bind. apply fwp_get. apply fwp_bind.
  destruct (sc_lws s2).
  - unfold allow_simple_key. apply fw_modify; [reflexivity|]. intros s3 _ E3 L3.
    destruct (fst r) eqn:Er; [apply fwp_fail|]. apply fwp_ret.
    assert (rl s2 <> rl s1) by (intros X; specialize (C2 X); discriminate C2).
    split; lia.
  - apply fwp_ret.
    destruct (fst r) eqn:Er; [apply fwp_fail|]. apply fwp_ret.
    assert (rl s2 <> rl s1) by (intros X; specialize (C2 X); discriminate C2).
    split; lia.
Qed.

Print Assumptions scan_plain_scalar_ok.
