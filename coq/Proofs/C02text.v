(* C02 at text level: the statements of C02_run / C02_anchor_ids for the whole model pipeline on EVERY text, over the string
   input and over the buffered input of every capacity >= 8 (the latter by C10's run_buf cap x = run_str x). *)
From Coq Require Import List NArith Bool Lia.
Import ListNotations.
Require Import Parser SBase SBuf SFetch Pipe Grammar C02base C02tail C02run C02anchors C02anchorsRun.
Require Import ScanFuelBufAll.

Lemma run_str_is_parse_all (x : list N) :
  exists toks se, run_str x = parse_all (4 * (4 * (2 * length x + 10) + 20) + 40) (init_parser toks false) se [].
Proof.
  unfold run_str. destruct (scan_all _ _ _ _ _) as [toks se]. exists toks, se. reflexivity.
Qed.

Theorem text_run_wellformed (x : list N) :
  (exists g, grun GInit (evs_of (fst (run_str x))) = Some g /\ (snd (run_str x) = PDone -> g = GEnd))
  /\ (exists n, arun 0 (evs_of (fst (run_str x))) = Some n).
Proof.
  destruct (run_str_is_parse_all x) as (toks & se & E). rewrite E. split.
  - exact (proj1 (parser_run_wellformed toks false se _)).
  - exact (parser_run_anchors toks false se _).
Qed.

Theorem text_run_wellformed_buffered (cap : nat) (x : list N) : (8 <= cap)%nat ->
  (exists g, grun GInit (evs_of (fst (run_buf cap x))) = Some g /\ (snd (run_buf cap x) = PDone -> g = GEnd))
  /\ (exists n, arun 0 (evs_of (fst (run_buf cap x))) = Some n).
Proof. intros H. rewrite (pipeline_backends_equal cap x H). exact (text_run_wellformed x). Qed.
