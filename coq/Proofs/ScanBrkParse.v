(* C14, parser / pipeline level: the line-break style does not change the parse.

   The parser model (Parser.v) never looks inside a marker: markers are only copied from token spans into event
   spans, into error values, and into the state [SFlowSequenceEntryMappingEnd m].  So two parsers over token lists
   that differ only in the character INDEX of their markers ([TR] of ScanBrk.v) run in lockstep.

   Method: ERASURE.  [em] forgets the index of a marker; it is lifted to spans, tokens, parser states, parsers, events
   and results.  Every function of the parser COMMUTES with the erasure (unary statements [rc e (f p) (f (epa p))],
   one lemma per parser function, proved by a small symbolic-execution tactic), and two values are related
   ([MR] / [SPR] / [TR] / [STR] / [PR] / [EVR]) iff their erasures are equal.  Hence [state_machine_brk], and by
   induction on the two fuels [parse_all_brk] (any two fuels; related scanner ends [ER]).

   [parse_all_brk_ext] is the variant for a scanner run that broke off (SFuel / SPanic) on one side: the other side
   may hold MORE tokens (the parser reads its tokens front to back: ScanRelTop.state_machine_ext). *)
From Coq Require Import List NArith Bool Arith Lia.
Import ListNotations.
Require Import Parser SBase SPrim SDir SScalar SFetch Pipe ScanBrk.
Require ScanRelTop.
Local Open Scope nat_scope.

Notation pend_bad := ScanRelTop.pend_bad.
Notation se_bad := ScanRelTop.se_bad.
Notation ext := ScanRelTop.ext.

(* ================================================================================================ *)
(* 1. The relations                                                                                 *)
(* ================================================================================================ *)
(* events with their spans: the same event (text, style, anchor id, tag), spans with the same lines and columns *)
Definition EVR (a b : event * span) : Prop := fst a = fst b /\ SPR (snd a) (snd b).

(* parser states: equal, up to the marker remembered by SFlowSequenceEntryMappingEnd *)
Inductive STR : pstate -> pstate -> Prop :=
| STR_eq s : STR s s
| STR_end m1 m2 : MR m1 m2 -> STR (SFlowSequenceEntryMappingEnd m1) (SFlowSequenceEntryMappingEnd m2).

Record PR (p1 p2 : parser) : Prop := {
  pr_toks : Forall2 TR (p_toks p1) (p_toks p2);
  pr_token : OTR (p_token p1) (p_token p2);
  pr_states : Forall2 STR (p_states p1) (p_states p2);
  pr_state : STR (p_state p1) (p_state p2);
  pr_anchors : p_anchors p1 = p_anchors p2;
  pr_anchor_id : p_anchor_id p1 = p_anchor_id p2;
  pr_tags : p_tags p1 = p_tags p2;
  pr_keep_tags : p_keep_tags p1 = p_keep_tags p2 }.

(* results of one step of the state machine *)
Definition SMR (r1 r2 : Parser.res ((event * span) * parser)) : Prop :=
  match r1, r2 with
  | Parser.Ok (ev1, q1), Parser.Ok (ev2, q2) => EVR ev1 ev2 /\ PR q1 q2
  | Parser.Err PErrScan, Parser.Err PErrScan => True
  | Parser.Err (PErr a m1), Parser.Err (PErr b m2) => a = b /\ MR m1 m2
  | Parser.Panic a, Parser.Panic b => a = b
  | _, _ => False
  end.

(* how two pipelines end (both properly) *)
Definition PER (e1 e2 : pend) : Prop :=
  match e1, e2 with
  | PDone, PDone => True
  | PScanErr a m1, PScanErr b m2 => a = b /\ MR m1 m2
  | PParseErr a m1, PParseErr b m2 => a = b /\ MR m1 m2
  | _, _ => False
  end.

(* ================================================================================================ *)
(* 2. Erasure of the character index                                                                *)
(* ================================================================================================ *)
Definition em (m : marker) : marker := {| m_index := 0; m_line := m_line m; m_col := m_col m |}.
Definition esp (s : span) : span := {| sp_start := em (sp_start s); sp_end := em (sp_end s) |}.
Definition etk (t : token) : token := (esp (fst t), snd t).
Definition est (s : pstate) : pstate :=
  match s with SFlowSequenceEntryMappingEnd m => SFlowSequenceEntryMappingEnd (em m) | s => s end.
Definition epa (p : parser) : parser :=
  {| p_toks := map etk (p_toks p); p_token := option_map etk (p_token p);
     p_states := map est (p_states p); p_state := est (p_state p);
     p_anchors := p_anchors p; p_anchor_id := p_anchor_id p; p_tags := p_tags p; p_keep_tags := p_keep_tags p |}.
Definition eev (v : event * span) : event * span := (fst v, esp (snd v)).
(* on the values the parser functions return *)
Definition ept (v : token * parser) : token * parser := (etk (fst v), epa (snd v)).
Definition eep (v : (event * span) * parser) : (event * span) * parser := (eev (fst v), epa (snd v)).
Definition e3 (v : N * option tag * parser) : N * option tag * parser := (fst v, epa (snd v)).
Definition mres {A B} (f : A -> B) (r : Parser.res A) : Parser.res B :=
  match r with
  | Parser.Ok v => Parser.Ok (f v)
  | Parser.Err PErrScan => Parser.Err PErrScan
  | Parser.Err (PErr s m) => Parser.Err (PErr s (em m))
  | Parser.Panic n => Parser.Panic n
  end.

(* related = equal after erasure *)
Lemma MR_em m1 m2 : MR m1 m2 <-> em m1 = em m2.
Proof.
  destruct m1 as [i1 l1 c1], m2 as [i2 l2 c2]. unfold MR, em. cbn [m_line m_col]. split.
  - intros [-> ->]. reflexivity.
  - intros E. inversion E. auto.
Qed.
Lemma SPR_esp a b : SPR a b <-> esp a = esp b.
Proof.
  destruct a as [a1 a2], b as [b1 b2]. unfold SPR, esp. cbn [sp_start sp_end]. rewrite !MR_em. split.
  - intros [-> ->]. reflexivity.
  - intros E. split; congruence.
Qed.
Lemma TR_etk t1 t2 : TR t1 t2 <-> etk t1 = etk t2.
Proof.
  destruct t1 as [s1 k1], t2 as [s2 k2]. unfold TR, etk. cbn [fst snd]. rewrite SPR_esp. split.
  - intros [-> ->]. reflexivity.
  - intros E. split; congruence.
Qed.
Lemma OTR_etk o1 o2 : OTR o1 o2 <-> option_map etk o1 = option_map etk o2.
Proof.
  destruct o1 as [t1|], o2 as [t2|]; cbn [OTR option_map]; try (split; [contradiction|discriminate]).
  - rewrite TR_etk. split; [intros ->; reflexivity|intros E; congruence].
  - split; auto.
Qed.
Lemma STR_est s1 s2 : STR s1 s2 <-> est s1 = est s2.
Proof.
  split.
  - intros [s|m1 m2 H]; [reflexivity|]. cbn [est]. apply MR_em in H. rewrite H. reflexivity.
  - destruct s1; cbn [est]; intros E; destruct s2; cbn [est] in E; try discriminate E; try apply STR_eq.
    apply STR_end. apply MR_em. congruence.
Qed.
Lemma F2_map {A} (R : A -> A -> Prop) (f : A -> A) : (forall a b, R a b <-> f a = f b) ->
  forall l1 l2, Forall2 R l1 l2 <-> map f l1 = map f l2.
Proof.
  intros HR l1. induction l1 as [|a l1 IH]; intros l2; destruct l2 as [|b l2]; cbn [map]; split; intros H;
    try reflexivity; try constructor; try discriminate H; try solve [inversion H].
  - inversion H; subst. f_equal; [apply HR; assumption|apply IH; assumption].
  - inversion H. apply HR. assumption.
  - inversion H. apply IH. assumption.
Qed.
Lemma EVR_eev a b : EVR a b <-> eev a = eev b.
Proof.
  destruct a as [e1 s1], b as [e2 s2]. unfold EVR, eev. cbn [fst snd]. rewrite SPR_esp. split.
  - intros [-> ->]. reflexivity.
  - intros E. split; congruence.
Qed.
Lemma PR_epa p1 p2 : PR p1 p2 <-> epa p1 = epa p2.
Proof.
  split.
  - intros [H1 H2 H3 H4 H5 H6 H7 H8]. unfold epa.
    apply (F2_map TR etk TR_etk) in H1. apply OTR_etk in H2. apply (F2_map STR est STR_est) in H3. apply STR_est in H4.
    rewrite H1, H2, H3, H4, H5, H6, H7, H8. reflexivity.
  - unfold epa. intros E. inversion E. constructor; try assumption.
    + apply (F2_map TR etk TR_etk). assumption.
    + apply OTR_etk. assumption.
    + apply (F2_map STR est STR_est). assumption.
    + apply STR_est. assumption.
Qed.

(* the relations are equivalences (only symmetry and reflexivity are used below) *)
Lemma MR_sym a b : MR a b -> MR b a. Proof. rewrite !MR_em. auto. Qed.
Lemma EVR_sym a b : EVR a b -> EVR b a. Proof. rewrite !EVR_eev. auto. Qed.
Lemma PR_sym a b : PR a b -> PR b a. Proof. rewrite !PR_epa. auto. Qed.
Lemma PR_refl a : PR a a. Proof. apply PR_epa. reflexivity. Qed.
Lemma F2_sym {A} (R : A -> A -> Prop) : (forall a b, R a b -> R b a) -> forall l1 l2, Forall2 R l1 l2 -> Forall2 R l2 l1.
Proof. intros HR l1 l2 H. induction H; constructor; auto. Qed.
Lemma PER_sym a b : PER a b -> PER b a.
Proof. destruct a, b; cbn [PER]; auto; intros [-> H]; split; auto using MR_sym. Qed.
Lemma F2_rev {A B} (R : A -> B -> Prop) l1 l2 : Forall2 R l1 l2 -> Forall2 R (rev l1) (rev l2).
Proof. induction 1; cbn [rev]; [constructor|]. apply Forall2_app; [assumption|]. constructor; [assumption|constructor]. Qed.

(* ================================================================================================ *)
(* 3. Every parser function commutes with the erasure                                               *)
(* ================================================================================================ *)
Definition rc {A B} (f : A -> B) (r : Parser.res A) (r' : Parser.res B) : Prop := r' = mres f r.

Lemma rc_bind {T T' U U'} (e1 : T -> T') (e2 : U -> U') r r' (k : T -> Parser.res U) (k' : T' -> Parser.res U') :
  rc e1 r r' -> (forall v, rc e2 (k v) (k' (e1 v))) ->
  rc e2 (match r with Parser.Ok v => k v | Parser.Err e => Parser.Err e | Parser.Panic n => Parser.Panic n end)
        (match r' with Parser.Ok v => k' v | Parser.Err e => Parser.Err e | Parser.Panic n => Parser.Panic n end).
Proof. unfold rc. intros -> HK. destruct r as [v|[|s m]|n]; cbn [mres]; auto. Qed.

Lemma peek_comm p : rc ept (Parser.peek p) (Parser.peek (epa p)).
Proof.
  destruct p as [toks tok sts st an aid tg kt]. unfold rc, Parser.peek, epa. cbn [p_token p_toks].
  destruct tok as [t|]; [reflexivity|]. cbn [option_map]. destruct toks as [|t r]; reflexivity.
Qed.
Lemma pop_state_comm p : rc epa (pop_state p) (pop_state (epa p)).
Proof.
  destruct p as [toks tok sts st an aid tg kt]. unfold rc, pop_state, epa. cbn [p_states]. destruct sts; reflexivity.
Qed.
Lemma resolve_tag_comm p m h s : rc (fun v : tag => v) (resolve_tag p m h s) (resolve_tag (epa p) (em m) h s).
Proof.
  unfold rc, resolve_tag. cbn [epa p_tags].
  repeat match goal with
         | |- context [if ?b then _ else _] => destruct b
         | |- context [match assoc ?a ?b with _ => _ end] => destruct (assoc a b)
         end; reflexivity.
Qed.

(* symbolic execution of both sides *)
Ltac cnorm :=
  unfold register_anchor, empty_or_err;
  cbn [etk eev ept eep e3 fst snd
       p_toks p_token p_states p_state p_anchors p_anchor_id p_tags p_keep_tags
       skip set_tok set_state set_states set_anchors set_tags push_state];
  repeat match goal with
         | |- context [p_anchors (epa ?q)] => change (p_anchors (epa q)) with (p_anchors q)
         | |- context [p_anchor_id (epa ?q)] => change (p_anchor_id (epa q)) with (p_anchor_id q)
         | |- context [p_tags (epa ?q)] => change (p_tags (epa q)) with (p_tags q)
         | |- context [p_keep_tags (epa ?q)] => change (p_keep_tags (epa q)) with (p_keep_tags q)
         end.
Ltac cleaf :=
  first [ reflexivity
        | match goal with |- context [if ?b then _ else _] => destruct b end; reflexivity ].
Create HintDb pcomm.
Ltac cstep :=
  cnorm;
  lazymatch goal with
  | |- rc _ (Parser.Ok _) _ => cleaf
  | |- rc _ (Parser.Err _) _ => reflexivity
  | |- rc _ (Parser.Panic _) _ => reflexivity
  | |- rc _ (Parser.peek ?p) _ => exact (peek_comm p)
  | |- rc _ (pop_state ?p) _ => exact (pop_state_comm p)
  | |- rc _ (resolve_tag ?p ?m ?h ?s) _ => exact (resolve_tag_comm p m h s)
  | |- rc _ (match ?r with Parser.Ok _ => _ | Parser.Err _ => _ | Parser.Panic _ => _ end) _ =>
      let T := type of r in
      lazymatch T with
      | Parser.res parser => eapply (rc_bind epa)
      | Parser.res (token * parser)%type => eapply (rc_bind ept)
      | Parser.res ((event * span) * parser)%type => eapply (rc_bind eep)
      | Parser.res (N * option tag * parser)%type => eapply (rc_bind e3)
      | Parser.res tag => eapply (rc_bind (fun v : tag => v))
      end;
      [ | let v := fresh "v" in intros v;
          repeat match goal with x : (_ * _)%type |- _ => destruct x end ]
  | |- rc _ (match (match ?t with _ => _ end) with _ => _ end) _ => destruct t
  | |- rc _ (match ?t with _ => _ end) _ => destruct t
  | |- rc _ (if ?b then _ else _) _ => destruct b
  | |- _ => solve [auto with pcomm nocore]
  end.
Ltac pcomm := repeat cstep.

Lemma node_props_comm p t : rc e3 (node_props p t) (node_props (epa p) (etk t)).
Proof. unfold node_props. destruct t as [sp k]. pcomm. Qed.
Global Hint Extern 0 (rc _ (node_props ?p ?t) _) => exact (node_props_comm p t) : pcomm.
Lemma node_content_comm p aid tg b i : rc eep (node_content p aid tg b i) (node_content (epa p) aid tg b i).
Proof. unfold node_content. pcomm. Qed.
Global Hint Extern 0 (rc _ (node_content ?p ?a ?t ?b ?i) _) => exact (node_content_comm p a t b i) : pcomm.
Lemma parse_node_comm p b i : rc eep (parse_node p b i) (parse_node (epa p) b i).
Proof. unfold parse_node. pcomm. Qed.
Global Hint Extern 0 (rc _ (parse_node ?p ?b ?i) _) => exact (parse_node_comm p b i) : pcomm.

Lemma stream_start_comm p : rc eep (stream_start p) (stream_start (epa p)).
Proof. unfold stream_start. pcomm. Qed.

(* the two fuelled loops: the fuel is computed from the length of the token list, which the erasure keeps *)
Lemma process_directives_comm : forall f p vs tags,
  rc epa (process_directives f p vs tags) (process_directives f (epa p) vs tags).
Proof.
  induction f as [|f IH]; intros p vs tags; [reflexivity|]. cbn [process_directives].
  eapply (rc_bind ept); [exact (peek_comm p)|]. intros [[sp k] q]. cnorm.
  destruct k; try reflexivity.
  - destruct vs; [reflexivity|]. exact (IH (skip q) true tags).
  - match goal with |- rc _ (if ?b then _ else _) _ => destruct b end; [reflexivity|]. exact (IH (skip q) vs _).
Qed.
Lemma skip_document_ends_comm : forall f p, rc epa (skip_document_ends f p) (skip_document_ends f (epa p)).
Proof.
  induction f as [|f IH]; intros p; [reflexivity|]. cbn [skip_document_ends].
  eapply (rc_bind ept); [exact (peek_comm p)|]. intros [[sp k] q]. cnorm.
  destruct k; try reflexivity. exact (IH (skip q)).
Qed.
Lemma len_toks_epa p : length (p_toks (epa p)) = length (p_toks p).
Proof. unfold epa. cbn [p_toks]. apply map_length. Qed.
Lemma process_directives_call p vs tags :
  rc epa (process_directives (S (S (length (p_toks p)))) p vs tags)
         (process_directives (S (S (length (p_toks (epa p))))) (epa p) vs tags).
Proof. rewrite len_toks_epa. apply process_directives_comm. Qed.
Lemma skip_document_ends_call p :
  rc epa (skip_document_ends (S (S (length (p_toks p)))) p)
         (skip_document_ends (S (S (length (p_toks (epa p))))) (epa p)).
Proof. rewrite len_toks_epa. apply skip_document_ends_comm. Qed.
Global Hint Extern 0 (rc _ (process_directives _ ?p ?vs ?tags) _) => exact (process_directives_call p vs tags) : pcomm.
Global Hint Extern 0 (rc _ (skip_document_ends _ ?p) _) => exact (skip_document_ends_call p) : pcomm.

Lemma explicit_document_start_comm p : rc eep (explicit_document_start p) (explicit_document_start (epa p)).
Proof. unfold explicit_document_start. pcomm. Qed.
Global Hint Extern 0 (rc _ (explicit_document_start ?p) _) => exact (explicit_document_start_comm p) : pcomm.
Lemma document_start_comm p i : rc eep (document_start p i) (document_start (epa p) i).
Proof. unfold document_start. pcomm. Qed.
Lemma document_content_comm p : rc eep (document_content p) (document_content (epa p)).
Proof. unfold document_content. pcomm. Qed.
Lemma document_end_comm p : rc eep (document_end p) (document_end (epa p)).
Proof.
  unfold document_end. eapply (rc_bind ept); [exact (peek_comm p)|]. intros [[sp k] q].
  destruct k; cnorm; destruct (p_keep_tags q); pcomm.
Qed.
Lemma block_mapping_key_comm p b : rc eep (block_mapping_key p b) (block_mapping_key (epa p) b).
Proof. unfold block_mapping_key. pcomm. Qed.
Lemma block_mapping_value_comm p : rc eep (block_mapping_value p) (block_mapping_value (epa p)).
Proof. unfold block_mapping_value. pcomm. Qed.
Lemma flow_mapping_key_comm p b : rc eep (flow_mapping_key p b) (flow_mapping_key (epa p) b).
Proof. unfold flow_mapping_key. pcomm. Qed.
Lemma flow_mapping_value_comm p b : rc eep (flow_mapping_value p b) (flow_mapping_value (epa p) b).
Proof. unfold flow_mapping_value. pcomm. Qed.
Lemma flow_sequence_entry_comm p b : rc eep (flow_sequence_entry p b) (flow_sequence_entry (epa p) b).
Proof. unfold flow_sequence_entry. pcomm. Qed.
Lemma indentless_sequence_entry_comm p :
  rc eep (indentless_sequence_entry p) (indentless_sequence_entry (epa p)).
Proof. unfold indentless_sequence_entry. pcomm. Qed.
Lemma block_sequence_entry_comm p b : rc eep (block_sequence_entry p b) (block_sequence_entry (epa p) b).
Proof. unfold block_sequence_entry. pcomm. Qed.
Lemma flow_sequence_entry_mapping_key_comm p :
  rc eep (flow_sequence_entry_mapping_key p) (flow_sequence_entry_mapping_key (epa p)).
Proof. unfold flow_sequence_entry_mapping_key. pcomm. Qed.
Lemma flow_sequence_entry_mapping_value_comm p :
  rc eep (flow_sequence_entry_mapping_value p) (flow_sequence_entry_mapping_value (epa p)).
Proof. unfold flow_sequence_entry_mapping_value. pcomm. Qed.
Lemma flow_sequence_entry_mapping_end_comm p m :
  rc eep (flow_sequence_entry_mapping_end p m) (flow_sequence_entry_mapping_end (epa p) (em m)).
Proof. reflexivity. Qed.

Theorem state_machine_comm p : rc eep (state_machine p) (state_machine (epa p)).
Proof.
  unfold state_machine. cbn [epa p_state]. destruct (p_state p); cbn [est].
  - apply stream_start_comm.
  - apply document_start_comm.
  - apply document_start_comm.
  - apply document_content_comm.
  - apply document_end_comm.
  - apply parse_node_comm.
  - apply block_sequence_entry_comm.
  - apply block_sequence_entry_comm.
  - apply indentless_sequence_entry_comm.
  - apply block_mapping_key_comm.
  - apply block_mapping_key_comm.
  - apply block_mapping_value_comm.
  - apply flow_sequence_entry_comm.
  - apply flow_sequence_entry_comm.
  - apply flow_sequence_entry_mapping_key_comm.
  - apply flow_sequence_entry_mapping_value_comm.
  - apply flow_sequence_entry_mapping_end_comm.
  - apply flow_mapping_key_comm.
  - apply flow_mapping_key_comm.
  - apply flow_mapping_value_comm.
  - apply flow_mapping_value_comm.
  - reflexivity.
Qed.

(* ================================================================================================ *)
(* 4. One step of the state machine on related parsers                                              *)
(* ================================================================================================ *)
(* generic: a function that commutes with the erasure maps related parsers to related results *)
Lemma mres_eep_SMR r1 r2 : mres eep r1 = mres eep r2 -> SMR r1 r2.
Proof.
  destruct r1 as [[ev1 q1]|[|a m1]|n1], r2 as [[ev2 q2]|[|b m2]|n2]; intros E; unfold eep in E; cbn [mres SMR fst snd] in *;
    try discriminate E; auto.
  - split; [apply EVR_eev|apply PR_epa]; congruence.
  - split; [|apply MR_em]; congruence.
  - congruence.
Qed.

Theorem state_machine_brk p1 p2 : PR p1 p2 -> SMR (state_machine p1) (state_machine p2).
Proof.
  intros H. apply PR_epa in H. apply mres_eep_SMR.
  rewrite <- (state_machine_comm p1), <- (state_machine_comm p2), H. reflexivity.
Qed.

(* the same for the node parser and the two auxiliaries named in the brief *)
Theorem parse_node_brk p1 p2 b i : PR p1 p2 -> SMR (parse_node p1 b i) (parse_node p2 b i).
Proof.
  intros H. apply PR_epa in H. apply mres_eep_SMR.
  rewrite <- (parse_node_comm p1), <- (parse_node_comm p2), H. reflexivity.
Qed.
(* results of the auxiliary functions *)
Definition RR {A} (R : A -> A -> Prop) (r1 r2 : Parser.res A) : Prop :=
  match r1, r2 with
  | Parser.Ok a, Parser.Ok b => R a b
  | Parser.Err PErrScan, Parser.Err PErrScan => True
  | Parser.Err (PErr a k1), Parser.Err (PErr b k2) => a = b /\ MR k1 k2
  | Parser.Panic a, Parser.Panic b => a = b
  | _, _ => False
  end.
Lemma mres_RR {A} (e : A -> A) (R : A -> A -> Prop) r1 r2 :
  (forall a b, e a = e b -> R a b) -> mres e r1 = mres e r2 -> RR R r1 r2.
Proof.
  intros HR. destruct r1 as [v1|[|a m1]|n1], r2 as [v2|[|b m2]|n2]; intros E; cbn [mres RR] in *;
    try discriminate E; auto.
  - apply HR. congruence.
  - split; [|apply MR_em]; congruence.
  - congruence.
Qed.
Theorem resolve_tag_brk p1 p2 m1 m2 h s : PR p1 p2 -> MR m1 m2 ->
  RR eq (resolve_tag p1 m1 h s) (resolve_tag p2 m2 h s).
Proof.
  intros H HM. apply PR_epa in H. apply MR_em in HM. apply (mres_RR (fun v : tag => v)); [auto|].
  rewrite <- (resolve_tag_comm p1 m1 h s), <- (resolve_tag_comm p2 m2 h s), H, HM. reflexivity.
Qed.
Theorem process_directives_brk f p1 p2 vs tags : PR p1 p2 ->
  RR PR (process_directives f p1 vs tags) (process_directives f p2 vs tags).
Proof.
  intros H. apply PR_epa in H. apply (mres_RR epa); [intros a b; apply PR_epa|].
  rewrite <- (process_directives_comm f p1 vs tags), <- (process_directives_comm f p2 vs tags), H. reflexivity.
Qed.

(* ================================================================================================ *)
(* 5. The whole parser run                                                                          *)
(* ================================================================================================ *)
Definition is_end (s : pstate) : bool := match s with SEnd => true | _ => false end.
Lemma STR_is_end s1 s2 : STR s1 s2 -> is_end s1 = is_end s2.
Proof. intros [s|m1 m2 _]; reflexivity. Qed.

Definition pa_step (K : nat) (p : parser) (se : scan_end) (acc : list (event * span)) :=
  match state_machine p with
  | Parser.Ok (ev, p') => parse_all K p' se (ev :: acc)
  | Parser.Err PErrScan =>
      (rev acc, match se with
                | SError s m => PScanErr s m
                | SPanic n => PPanic n
                | SFuel => PFuel
                | SEnded => PScanErr 0 {| m_index := 0; m_line := 0; m_col := 0 |}
                end)
  | Parser.Err (PErr s m) => (rev acc, PParseErr s m)
  | Parser.Panic n => (rev acc, PPanic n)
  end.
Lemma parse_all_S K p se acc :
  parse_all (S K) p se acc = if is_end (p_state p) then (rev acc, PDone) else pa_step K p se acc.
Proof. cbn [parse_all]. unfold pa_step. destruct (p_state p); reflexivity. Qed.

Lemma ext_nil p : ext [] p = p.
Proof. destruct p as [a b c d e f g h]. unfold ScanRelTop.ext, set_tok. cbn [p_toks p_token p_states p_state p_anchors p_anchor_id p_tags p_keep_tags]. rewrite app_nil_r. reflexivity. Qed.

(* what the theorems below conclude *)
Definition run_rel (r1 r2 : list (event * span) * pend) : Prop :=
  pend_bad (snd r1) \/ pend_bad (snd r2) \/ (Forall2 EVR (fst r1) (fst r2) /\ PER (snd r1) (snd r2)).

(* GENERAL FORM: side 2 may hold more tokens [x] than side 1 - either it does not ([x = []]) and the scanner ends are
   related, or side 1's scanner run broke off *)
Lemma parse_all_brk_gen x : forall K1 K2 p1 p2 e1 e2 acc1 acc2,
  PR p1 p2 -> Forall2 EVR acc1 acc2 -> (x = [] /\ ER e1 e2) \/ se_bad e1 ->
  run_rel (parse_all K1 p1 e1 acc1) (parse_all K2 (ext x p2) e2 acc2).
Proof.
  induction K1 as [|K1 IH]; intros K2 p1 p2 e1 e2 acc1 acc2 HP HA HE; [left; exact I|].
  destruct K2 as [|K2]; [right; left; exact I|].
  rewrite !parse_all_S. rewrite ScanRelTop.p_state_ext. rewrite <- (STR_is_end _ _ (pr_state _ _ HP)).
  destruct (is_end (p_state p1)).
  { right. right. cbn [fst snd PER]. split; [apply F2_rev; exact HA|exact I]. }
  unfold pa_step.
  pose proof (state_machine_brk p1 p2 HP) as HB.
  pose proof (ScanRelTop.state_machine_ext x p2) as HS.
  destruct (state_machine p1) as [[ev1 q1]|[|a m1]|n1]; destruct (state_machine p2) as [[ev2 q2]|[|b m2]|n2] eqn:E2;
    cbn [SMR] in HB; try contradiction; cbn [ScanRelTop.rsimG] in HS.
  - rewrite HS. unfold ScanRelTop.pe. cbn [fst snd]. destruct HB as [HV HQ].
    apply IH; [exact HQ|constructor; assumption|exact HE].
  - destruct HE as [[-> HE]|HE].
    + rewrite ext_nil, E2.
      destruct e1 as [|a k1|n1|], e2 as [|b k2|n2|]; cbn [ER] in HE; try contradiction;
        try (left; exact I); try (right; left; exact I);
        right; right; cbn [fst snd PER]; (split; [apply F2_rev; exact HA|]).
      * split; [reflexivity|apply MR_refl].
      * exact HE.
    + left. destruct e1; cbn in HE; try contradiction; exact I.
  - rewrite HS. right. right. cbn [fst snd PER]. split; [apply F2_rev; exact HA|exact HB].
  - left. exact I.
Qed.

(* THE PARSER RUN: related parsers, related scanner ends, ANY two fuels *)
Theorem parse_all_brk K1 K2 p1 p2 e1 e2 acc1 acc2 :
  PR p1 p2 -> ER e1 e2 -> Forall2 EVR acc1 acc2 ->
  run_rel (parse_all K1 p1 e1 acc1) (parse_all K2 p2 e2 acc2).
Proof.
  intros HP HE HA. rewrite <- (ext_nil p2). apply parse_all_brk_gen; auto.
Qed.

(* side 1's scanner run broke off, side 2 holds more tokens *)
Theorem parse_all_brk_ext_r x K1 K2 p1 p2 e1 e2 acc1 acc2 :
  PR p1 p2 -> se_bad e1 -> Forall2 EVR acc1 acc2 ->
  run_rel (parse_all K1 p1 e1 acc1) (parse_all K2 (ext x p2) e2 acc2).
Proof. intros HP HE HA. apply parse_all_brk_gen; auto. Qed.

Lemma run_rel_sym r1 r2 : run_rel r1 r2 -> run_rel r2 r1.
Proof.
  intros [H|[H|[H1 H2]]]; [right; left; exact H|left; exact H|].
  right. right. split; [apply (F2_sym EVR EVR_sym); exact H1|apply PER_sym; exact H2].
Qed.
(* side 2's scanner run broke off, side 1 holds more tokens *)
Theorem parse_all_brk_ext_l x K1 K2 p1 p2 e1 e2 acc1 acc2 :
  PR p1 p2 -> se_bad e2 -> Forall2 EVR acc1 acc2 ->
  run_rel (parse_all K1 (ext x p1) e1 acc1) (parse_all K2 p2 e2 acc2).
Proof.
  intros HP HE HA. apply run_rel_sym. apply parse_all_brk_ext_r; [apply PR_sym; exact HP|exact HE|].
  apply (F2_sym EVR EVR_sym). exact HA.
Qed.

(* the "both ends proper" reading of [run_rel] *)
Definition pend_proper (e : pend) : Prop := match e with PPanic _ | PFuel => False | _ => True end.
Lemma run_rel_proper r1 r2 : run_rel r1 r2 -> pend_proper (snd r1) -> pend_proper (snd r2) ->
  Forall2 EVR (fst r1) (fst r2) /\ PER (snd r1) (snd r2).
Proof.
  intros [H|[H|H]] P1 P2; [exfalso|exfalso|exact H].
  - destruct (snd r1); cbn in *; contradiction.
  - destruct (snd r2); cbn in *; contradiction.
Qed.

Print Assumptions state_machine_comm.
Print Assumptions state_machine_brk.
Print Assumptions parse_node_brk.
Print Assumptions resolve_tag_brk.
Print Assumptions process_directives_brk.
Print Assumptions parse_all_brk_gen.
Print Assumptions parse_all_brk.
Print Assumptions parse_all_brk_ext_r.
Print Assumptions parse_all_brk_ext_l.
