(* C09 — facts about the emitter model (Model/Emitter.v) for ALL strings / integers. *)
From Coq Require Import List NArith ZArith Bool Lia.
Import ListNotations.
Require Import Resolver CoreSchema CoreNumber ResolverProofs C08complete Escapes CharTraits QuotedLine Emitter.
Open Scope N_scope.
Arguments N.eqb : simpl never.
Arguments N.add : simpl never.
Arguments N.leb : simpl never.
Arguments N.ltb : simpl never.

(* ---- bridging lemmas: the generated tables (Gen/EmitterTables.v, re-translated from emitter.rs on every run) are
        what the proofs are about; removing a disjunct of need_quotes in the Rust source breaks here ---- *)
Lemma tbl_nq_empty : nq_empty = true.        Proof. reflexivity. Qed.
Lemma tbl_nq_spaces : nq_spaces = true.      Proof. reflexivity. Qed.
Lemma tbl_nq_i64 : nq_i64 = true.            Proof. reflexivity. Qed.
Lemma tbl_nq_f64 : nq_f64 = true.            Proof. reflexivity. Qed.
Lemma tbl_nq_resolver : nq_resolver = true.  Proof. reflexivity. Qed.

(* the YAML indicator characters, and what must never occur inside a plain scalar *)
Definition c_indicators : list N := [45; 63; 58; 44; 91; 93; 123; 125; 35; 38; 42; 33; 124; 62; 39; 34; 37; 64; 96].
Definition plain_unsafe : list N := [58; 35; 34; 39; 92; 9; 10; 13; 91; 93; 123; 125; 44; 96; 0].
Lemma tbl_indicators_quoted :
  forallb (fun c => in_ranges c nq_leading || in_ranges c nq_anywhere) c_indicators = true.
Proof. reflexivity. Qed.
Lemma tbl_unsafe_anywhere : forallb (fun c => in_ranges c nq_anywhere) plain_unsafe = true.
Proof. reflexivity. Qed.

(* ---------------- T1 / T2: what need_quotes = false gives ---------------- *)
Lemma need_quotes_false s : need_quotes s = false ->
  is_nil s = false /\ starts_with_ch s 32 = false /\ ends_with_ch s 32 = false
  /\ starts_with_in s nq_leading = false /\ contains_in s nq_anywhere = false
  /\ inl s nq_words = false /\ existsb (fun p => has_prefix p s) nq_prefixes = false
  /\ parse_i64 s = None /\ rust_parse_f64 s = None /\ is_sstr (parse_from_cow s) = true.
Proof.
  unfold need_quotes. rewrite tbl_nq_empty, tbl_nq_spaces, tbl_nq_i64, tbl_nq_f64, tbl_nq_resolver.
  cbn [andb]. intros H.
  apply orb_false_iff in H as [H Hres]. apply orb_false_iff in H as [H Hf64]. apply orb_false_iff in H as [H Hi64].
  apply orb_false_iff in H as [H Hpre]. apply orb_false_iff in H as [H Hwords]. apply orb_false_iff in H as [H Hany].
  apply orb_false_iff in H as [H Hlead]. apply orb_false_iff in H as [Hnil Hsp]. apply orb_false_iff in Hsp as [Hs1 Hs2].
  apply negb_false_iff in Hres.
  destruct (parse_i64 s); [discriminate|]. destruct (rust_parse_f64 s); [discriminate|].
  repeat split; assumption.
Qed.

(* T1: a string emitted plain is read back by the resolver as that same string *)
Theorem plain_resolves_to_string s : need_quotes s = false -> parse_from_cow s = SStr s.
Proof.
  intros H. destruct (need_quotes_false s H) as (_ & _ & _ & _ & _ & _ & _ & _ & _ & R).
  pose proof (C08_soundness_fixed s) as Snd.
  destruct (parse_from_cow s) as [| | | |t]; try discriminate R.
  cbn in Snd. subst t. reflexivity.
Qed.

Lemma in_ranges_false_of_contains s l c : contains_in s l = false -> In c s -> in_ranges c l = false.
Proof.
  unfold contains_in. intros H Hin. destruct (in_ranges c l) eqn:E; [|reflexivity].
  assert (X : existsb (fun c => in_ranges c l) s = true) by (apply existsb_exists; exists c; split; assumption).
  congruence.
Qed.

Lemma forallb_In {A} (p : A -> bool) l x : forallb p l = true -> In x l -> p x = true.
Proof. intros H Hin. rewrite forallb_forall in H. apply H. exact Hin. Qed.

(* T2: the shape a plain-scalar scanner theorem needs *)
Theorem plain_shape s : need_quotes s = false ->
  s <> []
  /\ hd_error s <> Some 32 /\ (s <> [] -> last s 0 <> 32)
  /\ (forall c, hd_error s = Some c -> in_ranges c nq_leading = false /\ ~ In c c_indicators)
  /\ (forall c, In c s -> in_ranges c nq_anywhere = false /\ ~ In c plain_unsafe).
Proof.
  intros H. destruct (need_quotes_false s H) as (E & S1 & S2 & L & A & _).
  assert (HA : forall c, In c s -> in_ranges c nq_anywhere = false /\ ~ In c plain_unsafe).
  { intros c Hin. pose proof (in_ranges_false_of_contains _ _ _ A Hin) as F. split; [exact F|].
    intros Hu. pose proof (forallb_In _ _ _ tbl_unsafe_anywhere Hu) as T. cbv beta in T. congruence. }
  repeat split.
  - intros ->. discriminate E.
  - destruct s as [|x r]; [discriminate|]. cbn. intros X. inversion X; subst. discriminate S1.
  - intros Hne. destruct s as [|x r]; [congruence|]. unfold ends_with_ch in S2.
    intros X. rewrite X in S2. discriminate S2.
  - destruct s as [|x r]; [discriminate|]. cbn in H0. inversion H0; subst. exact L.
  - destruct s as [|x r]; [discriminate|]. cbn in H0. inversion H0; subst. cbn [starts_with_in] in L.
    intros Hi. pose proof (forallb_In _ _ _ tbl_indicators_quoted Hi) as T. cbv beta in T.
    destruct (HA c (or_introl eq_refl)) as [F _]. rewrite L, F in T. discriminate T.
  - apply HA. assumption.
  - apply HA. assumption.
Qed.

(* ---------------- T3: escape_str ---------------- *)
(* every key of the escape table is an ASCII byte: looking a code point up is the same as looking its bytes up *)
Lemma esc_keys_ascii : forallb (fun e => fst e <? 128) emit_escape_table = true.
Proof. reflexivity. Qed.

(* the reading of the body of a one-line double-quoted scalar: Spec/QuotedLine.v (dq_decode) *)

(* each table entry is a well-formed escape that the scanner decodes back to its key *)
Definition esc_entry_ok (e : N * list N) : bool :=
  match dq_decode 2 (snd e) with Some [k] => N.eqb k (fst e) | _ => false end
  && match snd e with 92 :: _ => true | _ => false end.
Lemma esc_table_ok : forallb esc_entry_ok emit_escape_table = true.
Proof. vm_compute. reflexivity. Qed.
Theorem escape_entries_decode k e :
  In (k, e) emit_escape_table -> dq_decode 2 e = Some [k] /\ hd_error e = Some 92.
Proof.
  intros Hin. pose proof (forallb_In _ _ _ esc_table_ok Hin) as H. unfold esc_entry_ok in H. cbn [fst snd] in H.
  apply andb_true_iff in H as [H1 H2]. split.
  - destruct (dq_decode 2 e) as [[|k' [|? ?]]|]; try discriminate H1. apply N.eqb_eq in H1. subst. reflexivity.
  - destruct e as [|c r]; [discriminate|]. destruct (N.eqb_spec c 92) as [->|Hne]; [reflexivity|].
    destruct c as [|p]; [discriminate|]. exfalso.
    do 7 (destruct p as [p|p|]; try discriminate H2); congruence.
Qed.

Lemma esc_lookup_in c t e : esc_lookup c t = Some e -> In (c, e) t.
Proof.
  induction t as [|[k e'] r IH]; [discriminate|]. cbn. destruct (N.eqb_spec k c) as [->|Hne].
  - intros H; inversion H; subst. left; reflexivity.
  - intros H. right. apply IH. exact H.
Qed.

(* decoding one escaped character in front of any continuation *)
Lemma dq_step_entry k e : In (k, e) emit_escape_table ->
  forall f rest, dq_decode (S f) (e ++ rest) = option_map (cons k) (dq_decode f rest).
Proof.
  intros Hin f rest. unfold emit_escape_table in Hin. cbn [In] in Hin.
  repeat (destruct Hin as [Hin|Hin]; [inversion Hin; subst; reflexivity|]). destruct Hin.
Qed.

(* a code point that is not a key of the table is none of double quote, backslash, LF, CR *)
Definition esc_must_have : list N := [34; 92; 10; 13].
Lemma tbl_esc_must_have : forallb (fun c => is_some (esc_lookup c emit_escape_table)) esc_must_have = true.
Proof. reflexivity. Qed.
Lemma unescaped_is_safe c : esc_lookup c emit_escape_table = None ->
  escape_char c = [c] /\ c <> 34 /\ c <> 92 /\ is_break c = false.
Proof.
  intros H. unfold escape_char. rewrite H. split; [reflexivity|].
  assert (X : forall k, In k esc_must_have -> c <> k).
  { intros k Hk -> . pose proof (forallb_In _ _ _ tbl_esc_must_have Hk) as T. cbv beta in T. rewrite H in T. discriminate T. }
  split; [apply X; cbn; tauto|]. split; [apply X; cbn; tauto|].
  unfold is_break. destruct (N.eqb_spec c 10) as [->|]; [exfalso; apply (X 10); cbn; tauto|].
  destruct (N.eqb_spec c 13) as [->|]; [exfalso; apply (X 13); cbn; tauto|]. reflexivity.
Qed.

Lemma dq_step c f rest : dq_decode (S f) (escape_char c ++ rest) = option_map (cons c) (dq_decode f rest).
Proof.
  destruct (esc_lookup c emit_escape_table) as [e|] eqn:E.
  - unfold escape_char. rewrite E. apply dq_step_entry. apply esc_lookup_in. exact E.
  - destruct (unescaped_is_safe c E) as (-> & N1 & N2 & N3). cbn [app dq_decode].
    destruct (N.eqb_spec c 92); [congruence|]. destruct (N.eqb_spec c 34); [congruence|]. rewrite N3. reflexivity.
Qed.

(* T3: the quoted form is unambiguous — the scanner's decoding of the escaped body is the original string *)
Theorem escape_body_decodes s : dq_decode (S (length s)) (escape_body s) = Some s.
Proof.
  induction s as [|c s IH]; [reflexivity|].
  unfold escape_body. cbn [flat_map length]. rewrite dq_step. fold (escape_body s). rewrite IH. reflexivity.
Qed.

(* ---------------- T4: integers ---------------- *)
Open Scope Z_scope.
Lemma digits_val_snoc r s c a :
  digits_val r (s ++ [c]) a =
  match digits_val r s a with
  | Some v => match to_digit r c with Some d => Some (v * Z.of_N r + Z.of_N d) | None => None end
  | None => None
  end.
Proof.
  revert a. induction s as [|x s IH]; intros a; cbn [app digits_val].
  - destruct (to_digit r c); reflexivity.
  - destruct (to_digit r x); [apply IH|reflexivity].
Qed.

Lemma to_digit_dec d : (d < 10)%N -> to_digit 10 (48 + d)%N = Some d.
Proof.
  intros H. unfold to_digit.
  assert (A : ((48 <=? 48 + d)%N && (48 + d <=? 57)%N) = true).
  { apply andb_true_iff; split; apply N.leb_le; lia. }
  rewrite A. replace (48 + d - 48)%N with d by lia.
  assert (B : (d <? 10)%N = true) by (apply N.ltb_lt; exact H). rewrite B. reflexivity.
Qed.

Lemma dec_rev_val fuel : forall n, (n < 2 ^ N.of_nat fuel)%N ->
  digits_val 10 (rev (dec_rev fuel n)) 0 = Some (Z.of_N n).
Proof.
  induction fuel as [|f IH]; intros n Hn.
  - cbn in Hn. assert (n = 0%N) by lia. subst. reflexivity.
  - cbn [dec_rev rev]. rewrite digits_val_snoc.
    assert (Hm : (n mod 10 < 10)%N) by (apply N.mod_lt; discriminate).
    rewrite (to_digit_dec _ Hm).
    destruct (N.ltb_spec n 10) as [Hlt|Hge].
    + cbn [rev digits_val]. rewrite N.mod_small by exact Hlt. f_equal.
    + rewrite IH.
      * f_equal. rewrite (N.div_mod n 10) at 3 by discriminate. lia.
      * rewrite Nat2N.inj_succ, N.pow_succ_r' in Hn.
        apply N.div_lt_upper_bound; [discriminate|]. lia.
Qed.

Lemma dec_N_val n : digits_val 10 (dec_N n) 0 = Some (Z.of_N n).
Proof.
  unfold dec_N. apply dec_rev_val. rewrite Nat2N.inj_succ, N2Nat.id, N.pow_succ_r'.
  pose proof (N.size_gt n). lia.
Qed.

Lemma dec_N_nonempty n : nonempty (dec_N n) = true.
Proof.
  unfold dec_N. cbn [dec_rev rev]. destruct (rev _ ++ _) eqn:E; [|reflexivity].
  apply app_eq_nil in E. destruct E as [_ E]. discriminate E.
Qed.

Lemma dec_N_digits n : all_in is_dig (dec_N n) = true.
Proof. unfold all_in. eapply digits_val_all; [exact to_digit_10|apply dec_N_val]. Qed.

Lemma dec_N_unsigned n : sign_split (dec_N n) = (false, dec_N n).
Proof.
  pose proof (dec_N_nonempty n) as Hn. pose proof (dec_N_digits n) as Hd.
  destruct (dec_N n) as [|c r]; [discriminate|]. unfold all_in in Hd. cbn in Hd. apply andb_true_iff in Hd as [Hc _].
  destruct (dig_not_sign c Hc) as [A B]. cbn [sign_split]. rewrite A, B. reflexivity.
Qed.

Lemma dec_Z_dec_int z : dec_int (dec_Z z) = Some z.
Proof.
  destruct z as [|p|p]; [reflexivity| |].
  - cbn [dec_Z]. unfold dec_int. rewrite dec_N_unsigned, dec_N_nonempty, dec_N_digits, dec_N_val. reflexivity.
  - cbn [dec_Z]. unfold dec_int. cbn [sign_split]. change (ch 45%N 43%N) with false. change (ch 45%N 45%N) with true.
    cbv iota. rewrite dec_N_nonempty, dec_N_digits, dec_N_val. reflexivity.
Qed.

(* T4: the decimal text of every 64-bit integer is read back as that integer *)
Theorem int_text_round_trip z : in_i64 z = true -> parse_from_cow (dec_Z z) = SInt z.
Proof. intros H. apply int_complete; [apply dec_int_core, dec_Z_dec_int|exact H]. Qed.

(* ... and never needs (nor gets) quotes: it is not confused with a string *)
Theorem int_text_parse_i64 z : in_i64 z = true -> parse_i64 (dec_Z z) = Some z.
Proof. intros H. apply parse_i64_complete; [apply dec_Z_dec_int|exact H]. Qed.

(* the other scalar spellings of the emitter are read back with their type *)
Lemma null_text_round_trip : parse_from_cow [126%N] = SNull.       Proof. reflexivity. Qed.
Lemma true_text_round_trip : parse_from_cow w_true = SBool true.    Proof. reflexivity. Qed.
Lemma false_text_round_trip : parse_from_cow w_false = SBool false. Proof. reflexivity. Qed.
Lemma special_floats_round_trip :
  parse_from_cow [46;110;97;110]%N = SFloat FNan /\ parse_from_cow [46;105;110;102]%N = SFloat (FInf false)
  /\ parse_from_cow [45;46;105;110;102]%N = SFloat (FInf true).
Proof. repeat split; reflexivity. Qed.

