(* C11 — the scanner's flow level and the flow collection tokens it emits, for EVERY input (any Input back-end, any
   fuel): along the token stream the scanner delivers, the number of unmatched '[' / '{' tokens never exceeds
   flow_level, and flow_level never exceeds FLOW_LEVEL_MAX.  Hence [tok_flow_max] of every scanned token stream is at
   most FLOW_LEVEL_MAX — "flow nesting is bounded" as a statement about text.

   Self-contained frame calculus (does not use Proofs/ScanWP.v): the judgment [neu m] says that a run of [m] that
   returns normally leaves flow_level alone and changes the token queue only by inserting tokens that are not a
   '[' / '{' token.  It needs no precondition, so it is proved by a walk over the definitions. *)
From Coq Require Import List NArith ZArith Bool Lia PeanoNat.
Import ListNotations.
Require Import Parser SBase SPrim SDir SScalar SFetch Drivers Depth.
Local Open Scope nat_scope.

(* ------------------------------------------------------------------------------------------------ *)
(* 1. token lists: insertion of tokens that are not a real flow collection start                      *)
(* ------------------------------------------------------------------------------------------------ *)
Inductive ext : list token -> list token -> Prop :=
| ext_nil : ext [] []
| ext_keep x l l' : ext l l' -> ext (x :: l) (x :: l')
| ext_ins x l l' : real_flow_open x = false -> ext l l' -> ext l (x :: l').

Lemma ext_refl l : ext l l.
Proof. induction l; constructor; auto. Qed.

Lemma ext_trans a b c : ext a b -> ext b c -> ext a c.
Proof.
  intros H1 H2. revert a H1. induction H2 as [|x l l' H IH|x l l' Hx H IH]; intros a H1.
  - exact H1.
  - inversion H1; subst.
    + apply ext_keep. apply IH. assumption.
    + apply ext_ins; [assumption|]. apply IH. assumption.
  - apply ext_ins; [exact Hx|]. apply IH. exact H1.
Qed.

Lemma ext_push l t : real_flow_open t = false -> ext l (l ++ [t]).
Proof. intros H. induction l; cbn; [apply ext_ins; [exact H|constructor]|apply ext_keep; assumption]. Qed.

Lemma ext_insert_at t : real_flow_open t = false ->
  forall n l l', insert_at n t l = Some l' -> ext l l'.
Proof.
  intros H. induction n as [|n IH]; intros l l' E.
  - cbn in E. inversion E; subst. apply ext_ins; [exact H|apply ext_refl].
  - destruct l as [|y r]; cbn in E; [discriminate|].
    destruct (insert_at n t r) as [r'|] eqn:E2; [|discriminate]. inversion E; subst.
    apply ext_keep. apply IH. exact E2.
Qed.

Lemma ext_app_l pre l l' : ext l l' -> ext (pre ++ l) (pre ++ l').
Proof. intros H. induction pre; cbn; [exact H|apply ext_keep; assumption]. Qed.

Lemma ext_app_r l l' x : ext l l' -> ext (l ++ [x]) (l' ++ [x]).
Proof. induction 1; cbn; [apply ext_refl|apply ext_keep; assumption|apply ext_ins; assumption]. Qed.

(* inserting such tokens can only lower the running flow level and its maximum *)
Lemma tok_flow_step_mono c c' m m' t :
  c' <= c -> m' <= m ->
  fst (tok_flow_step (c', m') t) <= fst (tok_flow_step (c, m) t)
  /\ snd (tok_flow_step (c', m') t) <= snd (tok_flow_step (c, m) t).
Proof.
  intros Hc Hm. unfold tok_flow_step. destruct (real_flow_open t); [cbn; lia|].
  destruct (flow_close t); cbn; lia.
Qed.

Lemma tok_flow_step_nonopen c m t :
  real_flow_open t = false -> fst (tok_flow_step (c, m) t) <= c /\ snd (tok_flow_step (c, m) t) = m.
Proof. intros H. unfold tok_flow_step. rewrite H. destruct (flow_close t); cbn; lia. Qed.

Lemma ext_flow_run l l' : ext l l' -> forall c c' m m',
  c' <= c -> m' <= m ->
  fst (tok_flow_run l' (c', m')) <= fst (tok_flow_run l (c, m))
  /\ snd (tok_flow_run l' (c', m')) <= snd (tok_flow_run l (c, m)).
Proof.
  unfold tok_flow_run. induction 1 as [|x l l' H IH|x l l' Hx H IH]; intros c c' m m' Hc Hm.
  - cbn. lia.
  - cbn [fold_left]. destruct (tok_flow_step_mono c c' m m' x Hc Hm) as [A B].
    destruct (tok_flow_step (c', m') x) as [c1' m1'], (tok_flow_step (c, m) x) as [c1 m1]. apply IH; assumption.
  - cbn [fold_left]. destruct (tok_flow_step_nonopen c' m' x Hx) as [A B].
    destruct (tok_flow_step (c', m') x) as [c1' m1']. cbn [fst snd] in A, B. apply IH; lia.
Qed.

Lemma tok_flow_run_app a b cm : tok_flow_run (a ++ b) cm = tok_flow_run b (tok_flow_run a cm).
Proof. unfold tok_flow_run. apply fold_left_app. Qed.

Lemma tok_flow_run_snd_ge l : forall c m, m <= snd (tok_flow_run l (c, m)).
Proof.
  unfold tok_flow_run. induction l as [|t r IH]; intros c m; [apply le_n|]. cbn [fold_left].
  unfold tok_flow_step at 2. destruct (real_flow_open t); [|destruct (flow_close t)];
    (etransitivity; [|apply IH]); lia.
Qed.

(* ------------------------------------------------------------------------------------------------ *)
(* 2. the judgment                                                                                    *)
(* ------------------------------------------------------------------------------------------------ *)
Section Scan.
Context {I : Type} (ops : InputOps I).
Notation M := (@M I).
Notation st := (sc I).

Definition fe (s s' : st) : Prop := sc_flow_level s' = sc_flow_level s /\ ext (sc_tokens s) (sc_tokens s').

Lemma fe_refl s : fe s s.
Proof. split; [reflexivity|apply ext_refl]. Qed.
Lemma fe_trans a b c : fe a b -> fe b c -> fe a c.
Proof. intros [A1 A2] [B1 B2]. split; [congruence|eapply ext_trans; eauto]. Qed.

Definition neu {A} (m : M A) : Prop := forall s a s', m s = Ok (a, s') -> fe s s'.

Lemma neu_ret {A} (a : A) : neu (ret a).
Proof. intros s x s' H. inversion H; subst. apply fe_refl. Qed.
Lemma neu_bind {A B} (m : M A) (f : A -> M B) : neu m -> (forall a, neu (f a)) -> neu (bind m f).
Proof.
  intros Hm Hf s b s' H. unfold bind in H. destruct (m s) as [[a s1]| | |] eqn:E; try discriminate.
  eapply fe_trans; [eapply Hm; exact E|eapply Hf; exact H].
Qed.
Lemma neu_fail {A} e mk : neu (@fail I A e mk).
Proof. intros s a s' H. discriminate. Qed.
Lemma neu_panic {A} n : neu (@panic I A n).
Proof. intros s a s' H. discriminate. Qed.
Lemma neu_oof {A} : neu (@oof I A).
Proof. intros s a s' H. discriminate. Qed.
Lemma neu_get : neu (@get I).
Proof. intros s a s' H. inversion H; subst. apply fe_refl. Qed.
Lemma neu_gets {A} (f : st -> A) : neu (gets f).
Proof. intros s a s' H. inversion H; subst. apply fe_refl. Qed.
Lemma neu_modify (f : st -> st) : (forall s, fe s (f s)) -> neu (modify f).
Proof. intros Hf s a s' H. inversion H; subst. apply Hf. Qed.
Lemma neu_errk {A} e mk : neu (fun _ : st => @Err (A * st) e mk).
Proof. intros s a s' H. discriminate. Qed.

(* pointwise variant, for the few functions that read the state with [get] and write it back with [put] *)
Definition neuS {A} (m : M A) (s : st) : Prop := forall a s', m s = Ok (a, s') -> fe s s'.
Lemma neuS_of_neu {A} (m : M A) s : neu m -> neuS m s.
Proof. intros H a s' E. eapply H; exact E. Qed.
Lemma neuS_get_bind {A} (f : st -> M A) s : neuS (f s) s -> neuS (bind get f) s.
Proof. intros H a s' E. unfold neuS in H. eapply H. exact E. Qed.
Lemma neuS_ret_bind {A B} (v : A) (f : A -> M B) s : neuS (f v) s -> neuS (bind (ret v) f) s.
Proof. intros H a s' E. unfold neuS in H. eapply H. exact E. Qed.
Lemma neuS_put_bind {A} s0 (f : unit -> M A) s : fe s s0 -> neuS (f tt) s0 -> neuS (bind (put s0) f) s.
Proof. intros H1 H2 a s' E. eapply fe_trans; [exact H1|]. unfold neuS in H2. eapply H2. exact E. Qed.
Lemma neuS_put s0 s : fe s s0 -> neuS (put s0) s.
Proof. intros H a s' E. inversion E; subst. exact H. Qed.
Lemma neuS_ret {A} (v : A) s : neuS (ret v) s.
Proof. apply neuS_of_neu, neu_ret. Qed.
Lemma neuS_bind_neu {A B} (m : M A) (f : A -> M B) s : neu m -> (forall a s1, neuS (f a) s1) -> neuS (bind m f) s.
Proof.
  intros Hm Hf b s' H. unfold bind in H. destruct (m s) as [[a s1]| | |] eqn:E; try discriminate.
  eapply fe_trans; [eapply Hm; exact E|eapply Hf; exact H].
Qed.
Lemma neuS_stuck_bind_fail {A B} e mk (f : A -> M B) s : neuS (bind (fail e mk) f) s.
Proof. intros a s' E. discriminate. Qed.
Lemma neuS_stuck_bind_panic {A B} n (f : A -> M B) s : neuS (bind (panic n) f) s.
Proof. intros a s' E. discriminate. Qed.
Lemma neuS_fail {A} e mk s : neuS (@fail I A e mk) s.
Proof. intros a s' E. discriminate. Qed.
Lemma neuS_panic {A} n s : neuS (@panic I A n) s.
Proof. intros a s' E. discriminate. Qed.
Lemma neu_of_neuS {A} (m : M A) : (forall s, neuS m s) -> neu m.
Proof. intros H s a s' E. eapply H; exact E. Qed.

(* a state obtained by setters that leave flow_level and the token queue alone *)
Ltac fe_solve :=
  cbv beta;
  repeat match goal with |- fe _ (match ?x with _ => _ end) => destruct x end;
  (split; cbn; [reflexivity | first [apply ext_refl | idtac]]).

Ltac neu1 :=
  lazymatch goal with
  | |- neu (bind _ _) => apply neu_bind; [|intros ?]
  | |- neu (ret _) => apply neu_ret
  | |- neu (fail _ _) => apply neu_fail
  | |- neu (panic _) => apply neu_panic
  | |- neu oof => apply neu_oof
  | |- neu get => apply neu_get
  | |- neu (gets _) => apply neu_gets
  | |- neu (modify _) => apply neu_modify; intros ?; fe_solve
  | |- neu (match ?x with _ => _ end) => destruct x
  | |- neu _ => solve [eauto 3 with neu]
  end.
Ltac neu_go := repeat (lazy zeta; neu1).

(* a function of the form [fun s => match prim (sc_in s) with Ok .. => Ok (.., set_in i s) | .. end] *)
Ltac neu_prim :=
  let s := fresh "s" in let a := fresh "a" in let s' := fresh "s'" in let H := fresh "H" in
  intros s a s' H;
  repeat match type of H with context [match ?x with _ => _ end] => destruct x end;
  try discriminate; inversion H; subst; clear H; fe_solve.

(* local [fix go (f : nat) args := match f with O => oof | S f => .. go f .. end] applied to its arguments *)
Ltac neu_fix_body IH := lazy beta iota; try apply neu_oof; neu_go.
Ltac neu_fix1 :=
  match goal with |- neu (?G ?f) =>
    let H := fresh "Hfix" in
    assert (H : forall f', neu (G f'));
    [ let f' := fresh "f" in let IH := fresh "IH" in intros f'; induction f' as [|f' IH]; lazy beta iota; [apply neu_oof|]
    | apply H ] end.
Ltac neu_fix2 :=
  match goal with |- neu (?G ?f ?a) =>
    let H := fresh "Hfix" in
    assert (H : forall f' a', neu (G f' a'));
    [ let f' := fresh "f" in let IH := fresh "IH" in intros f'; induction f' as [|f' IH]; intros; lazy beta iota; [apply neu_oof|]
    | apply H ] end.
Ltac neu_fix3 :=
  match goal with |- neu (?G ?f ?a ?b) =>
    let H := fresh "Hfix" in
    assert (H : forall f' a' b', neu (G f' a' b'));
    [ let f' := fresh "f" in let IH := fresh "IH" in intros f'; induction f' as [|f' IH]; intros; lazy beta iota; [apply neu_oof|]
    | apply H ] end.
Ltac neu_fix5 :=
  match goal with |- neu (?G ?f ?a ?b ?c ?d) =>
    let H := fresh "Hfix" in
    assert (H : forall f' a' b' c' d', neu (G f' a' b' c' d'));
    [ let f' := fresh "f" in let IH := fresh "IH" in intros f'; induction f' as [|f' IH]; intros; lazy beta iota; [apply neu_oof|]
    | apply H ] end.
Ltac neu_fix6 :=
  match goal with |- neu (?G ?f ?a ?b ?c ?d ?e) =>
    let H := fresh "Hfix" in
    assert (H : forall f' a' b' c' d' e', neu (G f' a' b' c' d' e'));
    [ let f' := fresh "f" in let IH := fresh "IH" in intros f'; induction f' as [|f' IH]; intros; lazy beta iota; [apply neu_oof|]
    | apply H ] end.

(* ------------------------------------------------------------------------------------------------ *)
(* 3. Model/SPrim.v                                                                                   *)
(* ------------------------------------------------------------------------------------------------ *)
Lemma neu_look n : neu (look ops n).
Proof. unfold look. neu_prim. Qed.
Lemma neu_peekn n : neu (peekn ops n).
Proof. unfold peekn. neu_prim. Qed.
Lemma neu_peek : neu (SPrim.peek ops).
Proof. apply neu_peekn. Qed.
Hint Resolve neu_look neu_peekn neu_peek : neu.
Lemma neu_look_ch : neu (look_ch ops).
Proof. unfold look_ch. neu_go. Qed.
Lemma neu_in_skip : neu (in_skip ops).
Proof. unfold in_skip. neu_go. Qed.
Lemma neu_in_skip_n n : neu (in_skip_n ops n).
Proof. unfold in_skip_n. neu_prim. Qed.
Lemma neu_raw_read : neu (raw_read ops).
Proof. unfold raw_read. neu_prim. Qed.
Lemma neu_buf_is_empty : neu (buf_is_empty ops).
Proof. unfold buf_is_empty. neu_go. Qed.
Lemma neu_assert_buflen n site : neu (assert_buflen ops n site).
Proof. unfold assert_buflen. neu_prim. Qed.
Hint Resolve neu_look_ch neu_in_skip neu_in_skip_n neu_raw_read neu_buf_is_empty neu_assert_buflen : neu.

Lemma neu_next_char_is c : neu (next_char_is ops c).
Proof. unfold next_char_is. neu_go. Qed.
Lemma neu_nth_char_is n c : neu (nth_char_is ops n c).
Proof. unfold nth_char_is. neu_go. Qed.
Lemma neu_next_2_are a b : neu (next_2_are ops a b).
Proof. unfold next_2_are. neu_go. Qed.
Lemma neu_next_3_are a b c : neu (next_3_are ops a b c).
Proof. unfold next_3_are. neu_go. Qed.
Hint Resolve neu_next_char_is neu_nth_char_is neu_next_2_are neu_next_3_are : neu.
Lemma neu_next_is_document_indicator : neu (next_is_document_indicator ops).
Proof. unfold next_is_document_indicator. neu_go. Qed.
Lemma neu_next_is_document_start : neu (next_is_document_start ops).
Proof. unfold next_is_document_start. neu_go. Qed.
Lemma neu_next_is_document_end : neu (next_is_document_end ops).
Proof. unfold next_is_document_end. neu_go. Qed.
Lemma neu_next_is p : neu (next_is ops p).
Proof. unfold next_is. neu_go. Qed.
Lemma neu_next_can_be_plain_scalar b : neu (next_can_be_plain_scalar ops b).
Proof. unfold next_can_be_plain_scalar. neu_go. Qed.
Hint Resolve neu_next_is_document_indicator neu_next_is_document_start neu_next_is_document_end neu_next_is
  neu_next_can_be_plain_scalar : neu.

Lemma neu_in_skip_ws_to_eol fuel : forall stb tab ws n, neu (in_skip_ws_to_eol ops fuel stb tab ws n).
Proof.
  induction fuel as [|fuel IH]; intros stb tab ws n; cbn [in_skip_ws_to_eol]; [apply neu_oof|].
  neu_go. neu_fix2. neu_go.
Qed.
Hint Resolve neu_in_skip_ws_to_eol : neu.

Lemma neu_in_skip_while fuel p : neu (in_skip_while ops fuel p).
Proof. unfold in_skip_while. neu_fix2. neu_go. Qed.
Hint Resolve neu_in_skip_while : neu.
Lemma neu_in_skip_while_non_breakz fuel : neu (in_skip_while_non_breakz ops fuel).
Proof. apply neu_in_skip_while. Qed.
Lemma neu_in_skip_while_blank fuel : neu (in_skip_while_blank ops fuel).
Proof. apply neu_in_skip_while. Qed.
Lemma neu_in_fetch_while_alpha fuel acc : neu (in_fetch_while_alpha ops fuel acc).
Proof. unfold in_fetch_while_alpha. neu_fix3. neu_go. Qed.
Hint Resolve neu_in_skip_while_non_breakz neu_in_skip_while_blank neu_in_fetch_while_alpha : neu.

Lemma neu_mark : neu (@mark I).
Proof. unfold mark. neu_go. Qed.
Lemma neu_adv_mark n : neu (@adv_mark I n).
Proof. unfold adv_mark. neu_go. Qed.
Hint Resolve neu_mark neu_adv_mark : neu.
Lemma neu_skip_blank : neu (skip_blank ops).
Proof. unfold skip_blank. neu_go. Qed.
Lemma neu_skip_non_blank : neu (skip_non_blank ops).
Proof. unfold skip_non_blank. neu_go. Qed.
Lemma neu_skip_n_non_blank n : neu (skip_n_non_blank ops n).
Proof. unfold skip_n_non_blank. neu_go. Qed.
Lemma neu_skip_nl : neu (skip_nl ops).
Proof. unfold skip_nl. neu_go. Qed.
Hint Resolve neu_skip_blank neu_skip_non_blank neu_skip_n_non_blank neu_skip_nl : neu.
Lemma neu_skip_linebreak : neu (skip_linebreak ops).
Proof. unfold skip_linebreak. neu_go. Qed.
Lemma neu_skip_break : neu (skip_break ops).
Proof. unfold skip_break. neu_go. Qed.
Hint Resolve neu_skip_linebreak neu_skip_break : neu.

Lemma neu_push_tok t : real_flow_open t = false -> neu (@push_tok I t).
Proof.
  intros Ht. unfold push_tok. apply neu_modify. intros s. split; cbn; [reflexivity|apply ext_push; exact Ht].
Qed.
Lemma neu_insert_token pos t : real_flow_open t = false -> neu (@insert_token I pos t).
Proof.
  intros Ht s a s' H. unfold insert_token in H.
  destruct (insert_at (N.to_nat pos) t (sc_tokens s)) as [l|] eqn:E; [|discriminate].
  inversion H; subst. split; cbn; [reflexivity|eapply ext_insert_at; eauto].
Qed.
Lemma neu_allow_simple_key : neu (@allow_simple_key I).
Proof. unfold allow_simple_key. neu_go. Qed.
Lemma neu_disallow_simple_key : neu (@disallow_simple_key I).
Proof. unfold disallow_simple_key. neu_go. Qed.
Lemma neu_flow_level : neu (@flow_level I).
Proof. unfold flow_level. neu_go. Qed.
Hint Resolve neu_allow_simple_key neu_disallow_simple_key neu_flow_level : neu.
Lemma neu_in_flow : neu (@in_flow I).
Proof. unfold in_flow. neu_go. Qed.
Lemma neu_skip_ws_to_eol fuel stb : neu (skip_ws_to_eol ops fuel stb).
Proof. unfold skip_ws_to_eol. neu_go. Qed.
Lemma neu_is_within_block : neu (@is_within_block I).
Proof. unfold is_within_block. neu_go. Qed.
Hint Resolve neu_in_flow neu_skip_ws_to_eol neu_is_within_block : neu.

Lemma neu_skip_to_next_token fuel : neu (skip_to_next_token ops fuel).
Proof.
  induction fuel as [|fuel IH]; cbn [skip_to_next_token]; [apply neu_oof|]. neu_go.
Qed.
Hint Resolve neu_skip_to_next_token : neu.
Lemma neu_skip_yaml_whitespace fuel : neu (skip_yaml_whitespace ops fuel).
Proof. unfold skip_yaml_whitespace. neu_fix2. neu_go. Qed.
Hint Resolve neu_skip_yaml_whitespace : neu.

(* tokens that are certainly not a '[' / '{' token *)
Lemma nonopen_kind sp t :
  match t with TFlowSequenceStart | TFlowMappingStart => False | _ => True end -> real_flow_open (sp, t) = false.
Proof. destruct t; cbn; tauto. Qed.
Lemma nonopen_synthetic mk : real_flow_open (span_empty mk, TFlowMappingStart) = false.
Proof. unfold real_flow_open, span_is_empty, span_empty. cbn. rewrite N.eqb_refl. reflexivity. Qed.

Ltac neuS1 :=
  lazymatch goal with
  | |- neuS (bind get _) _ => apply neuS_get_bind
  | |- neuS (bind (ret _) _) _ => apply neuS_ret_bind
  | |- neuS (bind (put _) _) _ => apply neuS_put_bind; [fe_solve|]
  | |- neuS (bind (fail _ _) _) _ => apply neuS_stuck_bind_fail
  | |- neuS (bind (panic _) _) _ => apply neuS_stuck_bind_panic
  | |- neuS (bind (match ?x with _ => _ end) _) _ => destruct x
  | |- neuS (match ?x with _ => _ end) _ => destruct x
  | |- neuS (put _) _ => apply neuS_put; fe_solve
  | |- neuS (ret _) _ => apply neuS_ret
  | |- neuS (fail _ _) _ => apply neuS_fail
  | |- neuS (panic _) _ => apply neuS_panic
  | |- neuS (bind _ _) _ => apply neuS_bind_neu; [solve [eauto 3 with neu]|intros ? ?]
  | |- neuS _ _ => apply neuS_of_neu; solve [eauto 3 with neu]
  end.
Ltac neuS_go := repeat (lazy zeta; neuS1).

Lemma neu_roll_indent col number tk mk :
  match tk with TFlowSequenceStart | TFlowMappingStart => False | _ => True end ->
  neu (@roll_indent I col number tk mk).
Proof.
  intros Hk. pose proof (nonopen_kind (span_empty mk) tk Hk) as Hn. cbn [span_empty] in Hn.
  pose proof (neu_push_tok _ Hn).
  assert (forall pos, neu (@insert_token I pos (span_empty mk, tk))) by (intros; apply neu_insert_token; exact Hn).
  apply neu_of_neuS. intros s. unfold roll_indent. neuS_go.
Qed.

Lemma neu_unroll_indent_go fuel col : neu (@unroll_indent_go I fuel col).
Proof.
  induction fuel as [|fuel IH]; cbn [unroll_indent_go]; [apply neu_oof|].
  assert (forall mk, neu (@push_tok I (span_empty mk, TBlockEnd))) by (intros; apply neu_push_tok; reflexivity).
  apply neu_of_neuS. intros s. neuS_go.
Qed.
Hint Resolve neu_unroll_indent_go : neu.
Lemma neu_unroll_indent col : neu (@unroll_indent I col).
Proof. unfold unroll_indent. neu_go. Qed.
Lemma neu_roll_one_col_indent : neu (@roll_one_col_indent I).
Proof. apply neu_of_neuS. intros s. unfold roll_one_col_indent. neuS_go. Qed.
Lemma neu_unroll_non_block_indents : neu (@unroll_non_block_indents I).
Proof.
  unfold unroll_non_block_indents. apply neu_modify. intros s.
  destruct (unroll_nb (sc_indents s) (sc_indent s)). fe_solve.
Qed.
Lemma neu_save_simple_key : neu (@save_simple_key I).
Proof. apply neu_of_neuS. intros s. unfold save_simple_key. neuS_go. Qed.
Lemma neu_remove_simple_key : neu (@remove_simple_key I).
Proof. apply neu_of_neuS. intros s. unfold remove_simple_key. neuS_go. Qed.
Lemma neu_stale_simple_keys : neu (@stale_simple_keys I).
Proof. apply neu_of_neuS. intros s. unfold stale_simple_keys. neuS_go. Qed.
Lemma neu_end_implicit_mapping mk : neu (@end_implicit_mapping I mk).
Proof.
  assert (neu (@push_tok I (span_empty mk, TFlowMappingEnd))) by (apply neu_push_tok; reflexivity).
  apply neu_of_neuS. intros s. unfold end_implicit_mapping. neuS_go.
Qed.
Hint Resolve neu_unroll_indent neu_roll_one_col_indent neu_unroll_non_block_indents neu_save_simple_key
  neu_remove_simple_key neu_stale_simple_keys neu_end_implicit_mapping : neu.


(* ------------------------------------------------------------------------------------------------ *)
(* 4. Model/SDir.v                                                                                    *)
(* ------------------------------------------------------------------------------------------------ *)
Lemma neu_scan_uri_escapes mk : neu (scan_uri_escapes ops mk).
Proof. cbv beta delta [scan_uri_escapes]. neu_fix5. neu_go. Qed.
Hint Resolve neu_scan_uri_escapes : neu.
Lemma neu_scan_tag_handle F d mk : neu (scan_tag_handle ops F d mk).
Proof. unfold scan_tag_handle. neu_go. Qed.
Lemma neu_uri_loop F p mk acc : neu (uri_loop ops F p mk acc).
Proof. unfold uri_loop. neu_fix3. neu_go. Qed.
Hint Resolve neu_scan_tag_handle neu_uri_loop : neu.
Lemma neu_scan_tag_prefix F mk : neu (scan_tag_prefix ops F mk).
Proof. unfold scan_tag_prefix. neu_go. Qed.
Lemma neu_scan_verbatim_tag F mk : neu (scan_verbatim_tag ops F mk).
Proof. unfold scan_verbatim_tag. neu_go. Qed.
Lemma neu_scan_tag_shorthand_suffix F h mk : neu (scan_tag_shorthand_suffix ops F h mk).
Proof. unfold scan_tag_shorthand_suffix. neu_go. Qed.
Hint Resolve neu_scan_tag_prefix neu_scan_verbatim_tag neu_scan_tag_shorthand_suffix : neu.
Lemma neu_scan_tag F : neu (scan_tag ops F).
Proof. unfold scan_tag. neu_go. Qed.
Lemma neu_scan_anchor F alias : neu (scan_anchor ops F alias).
Proof. unfold scan_anchor. neu_go. neu_fix2. neu_go. Qed.
Lemma neu_scan_version_directive_number F mk : neu (scan_version_directive_number ops F mk).
Proof. unfold scan_version_directive_number. neu_fix3. neu_go. Qed.
Hint Resolve neu_scan_tag neu_scan_anchor neu_scan_version_directive_number : neu.
Lemma neu_scan_version_directive_value F mk : neu (scan_version_directive_value ops F mk).
Proof. unfold scan_version_directive_value. neu_go. Qed.
Lemma neu_scan_tag_directive_value F mk : neu (scan_tag_directive_value ops F mk).
Proof. unfold scan_tag_directive_value. neu_go. Qed.
Lemma neu_scan_directive_name F : neu (scan_directive_name ops F).
Proof. unfold scan_directive_name. neu_go. Qed.
Hint Resolve neu_scan_version_directive_value neu_scan_tag_directive_value neu_scan_directive_name : neu.
Lemma neu_scan_directive F : neu (scan_directive ops F).
Proof. unfold scan_directive. neu_go. Qed.
Hint Resolve neu_scan_directive : neu.

(* ------------------------------------------------------------------------------------------------ *)
(* 5. Model/SScalar.v                                                                                 *)
(* ------------------------------------------------------------------------------------------------ *)
Lemma neu_col_lt_indent : neu (@col_lt_indent I).
Proof. unfold col_lt_indent. neu_go. Qed.
Lemma neu_col : neu (@col I).
Proof. unfold col. neu_go. Qed.
Hint Resolve neu_col_lt_indent neu_col : neu.
Lemma neu_read_hex n : forall i acc start, neu (read_hex ops n i acc start).
Proof. induction n as [|n IH]; intros; cbn [read_hex]; neu_go. Qed.
Hint Resolve neu_read_hex : neu.
Lemma neu_resolve_escape start : neu (resolve_escape ops start).
Proof. unfold resolve_escape. neu_go. Qed.
Hint Resolve neu_resolve_escape : neu.
Lemma neu_consume_nonws fuel : forall single acc start, neu (consume_nonws ops fuel single acc start).
Proof. induction fuel as [|fuel IH]; intros; cbn [consume_nonws]; [apply neu_oof|]. neu_go. Qed.
Lemma neu_flow_blanks fuel : forall lbl lb tb ws, neu (flow_blanks ops fuel lbl lb tb ws).
Proof. induction fuel as [|fuel IH]; intros; cbn [flow_blanks]; [apply neu_oof|]. neu_go. Qed.
Hint Resolve neu_consume_nonws neu_flow_blanks : neu.
Lemma neu_scan_flow_scalar F single : neu (scan_flow_scalar ops F single).
Proof. unfold scan_flow_scalar. neu_go. neu_fix5. neu_go. Qed.
Lemma neu_plain_chunk fuel : forall j acc, neu (plain_chunk ops fuel j acc).
Proof. induction fuel as [|fuel IH]; intros; cbn [plain_chunk]; [apply neu_oof|]. neu_go. Qed.
Lemma neu_plain_blanks F fuel : forall indent start lb tb ws, neu (plain_blanks ops F fuel indent start lb tb ws).
Proof. induction fuel as [|fuel IH]; intros; cbn [plain_blanks]; [apply neu_oof|]. neu_go. Qed.
Hint Resolve neu_scan_flow_scalar neu_plain_chunk neu_plain_blanks : neu.
Lemma neu_scan_plain_scalar F : neu (scan_plain_scalar ops F).
Proof. unfold scan_plain_scalar. neu_go. neu_fix6. neu_go. Qed.
Hint Resolve neu_scan_plain_scalar : neu.
Lemma neu_scan_block_scalar_content_line F acc : neu (scan_block_scalar_content_line ops F acc).
Proof. unfold scan_block_scalar_content_line. neu_go. - neu_fix2. neu_go. - neu_fix3. neu_go. Qed.
Lemma neu_skip_spaces_to fuel : forall indent cb, neu (skip_spaces_to ops fuel indent cb).
Proof. induction fuel as [|fuel IH]; intros; cbn [skip_spaces_to]; [apply neu_oof|]. neu_go. Qed.
Hint Resolve neu_scan_block_scalar_content_line neu_skip_spaces_to : neu.
Lemma neu_skip_block_scalar_indent F fuel : forall indent breaks, neu (skip_block_scalar_indent ops F fuel indent breaks).
Proof.
  induction fuel as [|fuel IH]; intros; cbn [skip_block_scalar_indent]; [apply neu_oof|]. neu_go.
  neu_fix1. neu_go.
Qed.
Lemma neu_skip_first_line_indent F fuel : forall maxi breaks, neu (skip_first_line_indent ops F fuel maxi breaks).
Proof.
  induction fuel as [|fuel IH]; intros; cbn [skip_first_line_indent]; [apply neu_oof|]. neu_go.
  neu_fix1. neu_go.
Qed.
Hint Resolve neu_skip_block_scalar_indent neu_skip_first_line_indent : neu.
Lemma neu_scan_block_scalar F literal : neu (scan_block_scalar ops F literal).
Proof. unfold scan_block_scalar. neu_go. all: try (neu_fix5; neu_go). Qed.
Hint Resolve neu_scan_block_scalar : neu.

(* ------------------------------------------------------------------------------------------------ *)
(* 6. the token-producing scanners return a token that is not a '[' / '{' token                       *)
(* ------------------------------------------------------------------------------------------------ *)
Definition retk (m : M token) : Prop := forall s t s', m s = Ok (t, s') -> real_flow_open t = false.
Lemma retk_bind {A} (m : M A) (f : A -> M token) : (forall a, retk (f a)) -> retk (bind m f).
Proof.
  intros Hf s t s' H. unfold bind in H. destruct (m s) as [[a s1]| | |]; try discriminate. eapply Hf; exact H.
Qed.
Lemma retk_ret t : real_flow_open t = false -> retk (ret t).
Proof. intros Ht s x s' H. inversion H; subst. exact Ht. Qed.
Lemma retk_fail e mk : retk (fail e mk).
Proof. intros s t s' H. discriminate. Qed.
Lemma retk_panic n : retk (panic n).
Proof. intros s t s' H. discriminate. Qed.
Lemma retk_oof : retk oof.
Proof. intros s t s' H. discriminate. Qed.

Ltac retk1 :=
  lazymatch goal with
  | |- retk (bind _ _) => apply retk_bind; intros ?
  | |- retk (ret _) => apply retk_ret; first [reflexivity | assumption]
  | |- retk (fail _ _) => apply retk_fail
  | |- retk (panic _) => apply retk_panic
  | |- retk oof => apply retk_oof
  | |- retk (match ?x with _ => _ end) => destruct x
  | |- retk _ => solve [eauto 3 with retk]
  end.
Ltac retk_go := repeat (lazy zeta; retk1).

Lemma retk_scan_tag F : retk (scan_tag ops F).
Proof. unfold scan_tag. retk_go. Qed.
Lemma retk_scan_anchor F alias : retk (scan_anchor ops F alias).
Proof. unfold scan_anchor. destruct alias; retk_go. Qed.
Lemma retk_scan_version_directive_value F mk : retk (scan_version_directive_value ops F mk).
Proof. unfold scan_version_directive_value. retk_go. Qed.
Lemma retk_scan_tag_directive_value F mk : retk (scan_tag_directive_value ops F mk).
Proof. unfold scan_tag_directive_value. retk_go. Qed.
Hint Resolve retk_scan_version_directive_value retk_scan_tag_directive_value : retk.
Lemma retk_bind_tok (m : M token) (g : token -> M token) :
  retk m -> (forall tk, real_flow_open tk = false -> retk (g tk)) -> retk (bind m g).
Proof.
  intros Hm Hg s t s' H. unfold bind in H. destruct (m s) as [[tk s1]| | |] eqn:E; try discriminate.
  eapply Hg; [eapply Hm; exact E|exact H].
Qed.
Lemma retk_scan_directive F : retk (scan_directive ops F).
Proof.
  unfold scan_directive. apply retk_bind; intros start. apply retk_bind; intros _. apply retk_bind; intros name.
  (* the token is produced by the inner computation and returned after the line end has been consumed *)
  apply retk_bind_tok; [retk_go|]. intros tk Htk. retk_go.
Qed.
Lemma retk_scan_flow_scalar F single : retk (scan_flow_scalar ops F single).
Proof. unfold scan_flow_scalar. destruct single; retk_go. Qed.
Lemma retk_scan_plain_scalar F : retk (scan_plain_scalar ops F).
Proof. unfold scan_plain_scalar. retk_go. Qed.
Lemma retk_scan_block_scalar F literal : retk (scan_block_scalar ops F literal).
Proof. unfold scan_block_scalar. destruct literal; retk_go. Qed.

Lemma neu_bind_tok (m : M token) (f : token -> M unit) :
  neu m -> retk m -> (forall t, real_flow_open t = false -> neu (f t)) -> neu (bind m f).
Proof.
  intros Hm Hk Hf s b s' H. unfold bind in H. destruct (m s) as [[t s1]| | |] eqn:E; try discriminate.
  eapply fe_trans; [eapply Hm; exact E|]. eapply Hf; [eapply Hk; exact E|exact H].
Qed.

(* ------------------------------------------------------------------------------------------------ *)
(* 7. Model/SFetch.v: everything but the two flow-collection fetchers is neutral                      *)
(* ------------------------------------------------------------------------------------------------ *)
Hint Extern 1 (real_flow_open _ = false) => first [reflexivity | apply nonopen_synthetic] : neu.
Hint Extern 5 => exact Logic.I : neu.
Hint Resolve neu_push_tok neu_insert_token neu_roll_indent : neu.

Lemma neu_fetch_stream_start : neu (@fetch_stream_start I).
Proof.
  apply neu_of_neuS. intros s. unfold fetch_stream_start. apply neuS_get_bind. lazy zeta. apply neuS_put.
  split; cbn; [reflexivity|]. apply ext_push. reflexivity.
Qed.
Lemma neu_fetch_stream_end : neu (@fetch_stream_end I).
Proof.
  unfold fetch_stream_end. apply neu_bind.
  - apply neu_modify. intros s. destruct (m_col (sc_mark s) =? 0)%N; [apply fe_refl|fe_solve].
  - intros _. apply neu_of_neuS. intros s. neuS_go.
Qed.
Lemma neu_fetch_directive F : neu (fetch_directive ops F).
Proof.
  unfold fetch_directive. do 3 (apply neu_bind; [solve [eauto 3 with neu]|intros _]). apply neu_bind_tok; [apply neu_scan_directive|apply retk_scan_directive|].
  intros t Ht. apply neu_push_tok. exact Ht.
Qed.
Lemma neu_fetch_tag F : neu (fetch_tag ops F).
Proof.
  unfold fetch_tag. do 2 (apply neu_bind; [solve [eauto 3 with neu]|intros _]). apply neu_bind_tok; [apply neu_scan_tag|apply retk_scan_tag|].
  intros t Ht. apply neu_push_tok. exact Ht.
Qed.
Lemma neu_fetch_anchor F alias : neu (fetch_anchor ops F alias).
Proof.
  unfold fetch_anchor. do 2 (apply neu_bind; [solve [eauto 3 with neu]|intros _]). apply neu_bind_tok; [apply neu_scan_anchor|apply retk_scan_anchor|].
  intros t Ht. apply neu_push_tok. exact Ht.
Qed.
Lemma neu_fetch_flow_entry F : neu (fetch_flow_entry ops F).
Proof. unfold fetch_flow_entry. neu_go. Qed.
Lemma neu_fetch_block_entry F : neu (fetch_block_entry ops F).
Proof. unfold fetch_block_entry. neu_go. Qed.
Lemma neu_fetch_document_indicator t :
  match t with TFlowSequenceStart | TFlowMappingStart => False | _ => True end ->
  neu (fetch_document_indicator ops t).
Proof.
  intros Hk. unfold fetch_document_indicator. neu_go. apply neu_push_tok. apply nonopen_kind. exact Hk.
Qed.
Lemma neu_fetch_block_scalar F literal : neu (fetch_block_scalar ops F literal).
Proof.
  unfold fetch_block_scalar. do 2 (apply neu_bind; [solve [eauto 3 with neu]|intros _]). apply neu_bind_tok; [apply neu_scan_block_scalar|apply retk_scan_block_scalar|].
  intros t Ht. apply neu_push_tok. exact Ht.
Qed.
Lemma neu_fetch_flow_scalar F single : neu (fetch_flow_scalar ops F single).
Proof.
  unfold fetch_flow_scalar. do 2 (apply neu_bind; [solve [eauto 3 with neu]|intros _]). apply neu_bind_tok; [apply neu_scan_flow_scalar|apply retk_scan_flow_scalar|].
  intros t Ht. neu_go.
Qed.
Lemma neu_fetch_plain_scalar F : neu (fetch_plain_scalar ops F).
Proof.
  unfold fetch_plain_scalar. do 2 (apply neu_bind; [solve [eauto 3 with neu]|intros _]). apply neu_bind_tok; [apply neu_scan_plain_scalar|apply retk_scan_plain_scalar|].
  intros t Ht. apply neu_push_tok. exact Ht.
Qed.
Lemma neu_fetch_key F : neu (fetch_key ops F).
Proof.
  unfold fetch_key. neu_go.
  all: try (apply neu_modify; intros s0; destruct (sc_ifms s0) as [|[] ?]; fe_solve).
Qed.
Lemma neu_fetch_value F : neu (fetch_value ops F).
Proof. unfold fetch_value. neu_go. Qed.
Hint Resolve neu_fetch_value : neu.
Lemma neu_fetch_flow_value F : neu (fetch_flow_value ops F).
Proof. unfold fetch_flow_value. neu_go. Qed.

(* ------------------------------------------------------------------------------------------------ *)
(* 8. the invariant: unmatched '[' / '{' tokens delivered or queued <= flow_level <= FLOW_LEVEL_MAX   *)
(* ------------------------------------------------------------------------------------------------ *)
(* [pre] = the tokens already delivered; [d] = a slack of -1 between increase_flow_level and the push of the '[' / '{'
   token, of +1 between decrease_flow_level and the push of the ']' / '}' token, 0 otherwise *)
Definition G (pre : list token) (d : Z) (s : st) : Prop :=
  let r := tok_flow_run (pre ++ sc_tokens s) (0, 0) in
  (Z.of_nat (fst r) <= Z.of_N (sc_flow_level s) + d)%Z
  /\ snd r <= N.to_nat FLOW_LEVEL_MAX
  /\ (sc_flow_level s <= FLOW_LEVEL_MAX)%N.

Definition kpd {A} (m : M A) (d d' : Z) : Prop :=
  forall pre s a s', m s = Ok (a, s') -> G pre d s -> G pre d' s'.

Lemma G_fe pre d s s' : fe s s' -> G pre d s -> G pre d s'.
Proof.
  intros [HL HE] (A & B & C). unfold G. rewrite HL.
  destruct (ext_flow_run _ _ (ext_app_l pre _ _ HE) 0 0 0 0 (le_n 0) (le_n 0)) as [E1 E2].
  cbv zeta in *. repeat split; [lia|lia|exact C].
Qed.

Lemma kpd_neu {A} (m : M A) d : neu m -> kpd m d d.
Proof. intros H pre s a s' E HG. eapply G_fe; [eapply H; exact E|exact HG]. Qed.

Lemma kpd_bind {A B} (m : M A) (f : A -> M B) d1 d2 d3 :
  kpd m d1 d2 -> (forall a, kpd (f a) d2 d3) -> kpd (bind m f) d1 d3.
Proof.
  intros Hm Hf pre s b s' H HG. unfold bind in H. destruct (m s) as [[a s1]| | |] eqn:E; try discriminate.
  eapply Hf; [exact H|]. eapply Hm; [exact E|exact HG].
Qed.

Lemma kpd_increase : kpd (@increase_flow_level I) 0 (-1).
Proof.
  intros pre s a s' H (A & B & C). unfold increase_flow_level, bind, get, put in H.
  destruct (sc_flow_level s =? FLOW_LEVEL_MAX)%N eqn:E; [discriminate|]. apply N.eqb_neq in E.
  inversion H; subst; clear H. unfold G. cbn [sc_flow_level sc_tokens set_fl set_sks set_struct].
  cbv zeta in *. repeat split; lia.
Qed.

Lemma kpd_decrease : kpd (@decrease_flow_level I) 0 1.
Proof.
  intros pre s a s' H (A & B & C). unfold decrease_flow_level, bind, get, put, ret, panic in H.
  destruct (0 <? sc_flow_level s)%N eqn:E.
  - destruct (sc_sks s); [discriminate|]. inversion H; subst; clear H. apply N.ltb_lt in E.
    unfold G. cbn [sc_flow_level sc_tokens set_fl set_sks set_struct]. cbv zeta in *. repeat split; lia.
  - inversion H; subst; clear H. unfold G. cbv zeta in *. repeat split; lia.
Qed.

Lemma tok_flow_run_snoc l t cm : tok_flow_run (l ++ [t]) cm = tok_flow_step (tok_flow_run l cm) t.
Proof. unfold tok_flow_run. rewrite fold_left_app. reflexivity. Qed.

(* the '[' / '{' token, pushed after flow_level has been raised *)
Lemma kpd_push_after_inc t : kpd (@push_tok I t) (-1) 0.
Proof.
  intros pre s a s' H (A & B & C). unfold push_tok, modify in H. inversion H; subst; clear H.
  unfold G. cbn [sc_flow_level sc_tokens set_tokens upd]. rewrite app_assoc, tok_flow_run_snoc.
  cbv zeta in *. destruct (tok_flow_run (pre ++ sc_tokens s) (0, 0)) as [c m]. cbn [fst snd] in *.
  assert (HM : (Z.of_N (sc_flow_level s) <= Z.of_N FLOW_LEVEL_MAX)%Z) by lia.
  assert (HM' : Z.of_nat (N.to_nat FLOW_LEVEL_MAX) = Z.of_N FLOW_LEVEL_MAX) by lia.
  unfold tok_flow_step. destruct (real_flow_open t); [|destruct (flow_close t)]; cbn [fst snd]; repeat split; lia.
Qed.

(* the ']' / '}' token, pushed after flow_level has been lowered *)
Lemma kpd_push_after_dec t : real_flow_open t = false -> flow_close t = true -> kpd (@push_tok I t) 1 0.
Proof.
  intros HO HC pre s a s' H (A & B & C). unfold push_tok, modify in H. inversion H; subst; clear H.
  unfold G. cbn [sc_flow_level sc_tokens set_tokens upd]. rewrite app_assoc, tok_flow_run_snoc.
  cbv zeta in *. destruct (tok_flow_run (pre ++ sc_tokens s) (0, 0)) as [c m]. cbn [fst snd] in *.
  unfold tok_flow_step. rewrite HO, HC. cbn [fst snd]. repeat split; lia.
Qed.

Create HintDb kpd.
Ltac kpd1 :=
  lazymatch goal with
  | |- kpd (bind _ _) _ _ => eapply kpd_bind; [kpd1|intros ?]
  | |- kpd increase_flow_level _ _ => apply kpd_increase
  | |- kpd decrease_flow_level _ _ => apply kpd_decrease
  | |- kpd (push_tok _) (-1)%Z _ => apply kpd_push_after_inc
  | |- kpd (push_tok _) 1%Z _ => apply kpd_push_after_dec
  | |- kpd (match ?x with _ => _ end) _ _ => destruct x
  | |- kpd _ _ _ => first [ solve [eauto 2 with kpd] | apply kpd_neu; neu_go ]
  end.
Ltac kpd_go := repeat kpd1.

Lemma kpd_fetch_flow_collection_start F seq : kpd (fetch_flow_collection_start ops F seq) 0 0.
Proof. unfold fetch_flow_collection_start. kpd_go. Qed.

(* /repo 88700d3: the closer is first compared with the level it closes; that test only reads the state *)
Lemma neu_check_flow_closer seq : neu (@check_flow_closer I seq).
Proof. unfold check_flow_closer. neu_go. Qed.
Hint Resolve neu_check_flow_closer : neu.

Lemma kpd_fetch_flow_collection_end F seq : kpd (fetch_flow_collection_end ops F seq) 0 0.
Proof.
  unfold fetch_flow_collection_end.
  eapply kpd_bind; [apply kpd_neu, neu_check_flow_closer|intros ?].
  kpd_go; destruct seq; reflexivity.
Qed.
Hint Resolve kpd_fetch_flow_collection_start kpd_fetch_flow_collection_end : kpd.
Hint Resolve neu_fetch_stream_start neu_fetch_stream_end neu_fetch_directive neu_fetch_tag neu_fetch_anchor
  neu_fetch_flow_entry neu_fetch_block_entry neu_fetch_block_scalar neu_fetch_flow_scalar neu_fetch_plain_scalar
  neu_fetch_key neu_fetch_flow_value : neu.

Lemma kpd_fetch_next_token F : kpd (fetch_next_token ops F) 0 0.
Proof.
  unfold fetch_next_token. kpd_go.
  all: apply neu_fetch_document_indicator; exact Logic.I.
Qed.
Hint Resolve kpd_fetch_next_token : kpd.

Lemma kpd_fetch_more_tokens F fuel : kpd (fetch_more_tokens ops F fuel) 0 0.
Proof. induction fuel as [|fuel IH]; cbn [fetch_more_tokens]; [intros pre s a s' H; discriminate|]. kpd_go. Qed.

(* next_token: the head of the queue is delivered *)
Lemma next_token_G F pre s o s' :
  next_token ops F s = Ok (o, s') -> G pre 0 s ->
  match o with Some t => G (pre ++ [t]) 0 s' | None => True end.
Proof.
  intros H HG. unfold next_token in H. unfold bind at 1 in H. unfold get at 1 in H.
  destruct (sc_stream_end s); [inversion H; subst; exact Logic.I|].
  unfold bind at 1 in H.
  destruct ((if sc_token_available s then ret tt else fetch_more_tokens ops F F) s) as [[u s1]| | |] eqn:E1; try discriminate.
  assert (HG1 : G pre 0 s1).
  { destruct (sc_token_available s); [inversion E1; subst; exact HG|].
    eapply kpd_fetch_more_tokens; [exact E1|exact HG]. }
  unfold bind at 1 in H. unfold get at 1 in H.
  destruct (sc_tokens s1) as [|t r] eqn:ET; [discriminate|].
  unfold bind at 1 in H. unfold put at 1 in H. unfold bind at 1 in H.
  assert (HG2 : G (pre ++ [t]) 0 (set_tp (sc_tokens_parsed s1 + 1) (set_ta false (set_tokens r s1)))).
  { destruct HG1 as (A & B & C). unfold G in *. cbn [sc_flow_level sc_tokens set_tp set_ta set_tokens set_struct set_flags upd].
    rewrite <- app_assoc. cbn [app]. rewrite ET in *. auto. }
  destruct (snd t); inversion H; subst; exact HG2.
Qed.

(* the Scanner iterator: every token list it delivers, however the run ends *)
Lemma scan_all_G F fuel : forall s acc,
  G (rev acc) 0 s -> tok_flow_max (fst (scan_all ops F fuel s acc)) <= N.to_nat FLOW_LEVEL_MAX.
Proof.
  assert (Hbase : forall s acc, G (rev acc) 0 s -> tok_flow_max (rev acc) <= N.to_nat FLOW_LEVEL_MAX).
  { intros s acc (A & B & C). cbv zeta in B. rewrite tok_flow_run_app in B. unfold tok_flow_max.
    destruct (tok_flow_run (rev acc) (0, 0)) as [c m]. pose proof (tok_flow_run_snd_ge (sc_tokens s) c m). cbn [snd]. lia. }
  induction fuel as [|fuel IH]; intros s acc HG; cbn [scan_all]; [cbn [fst]; eapply Hbase; exact HG|].
  destruct (next_token ops F s) as [[[t|] s']| | |] eqn:E; cbn [fst]; try (eapply Hbase; exact HG).
  apply IH. cbn [rev]. exact (next_token_G F _ _ _ _ E HG).
Qed.

Lemma G_init (i : I) : G [] 0 (init_sc i).
Proof. unfold G, init_sc. cbn. repeat split; lia. Qed.

Theorem scan_flow_level_bounded F fuel (i : I) :
  tok_flow_max (fst (scan_all ops F fuel (init_sc i) [])) <= N.to_nat FLOW_LEVEL_MAX.
Proof. apply scan_all_G. apply G_init. Qed.

(* ------------------------------------------------------------------------------------------------ *)
(* 9. the tokens of '[' and '{' ARE counted: fetch_flow_collection_start pushes a token with a non-empty span  *)
(*    (so [real_flow_open] holds for it) and raises flow_level by one                                   *)
(* ------------------------------------------------------------------------------------------------ *)
(* the mark's index never decreases in the functions between the indicator and the push of its token *)
Definition mono {A} (m : M A) : Prop :=
  forall s a s', m s = Ok (a, s') -> (m_index (sc_mark s) <= m_index (sc_mark s'))%N.
Lemma mono_ret {A} (a : A) : mono (ret a).
Proof. intros s x s' H. inversion H; subst. lia. Qed.
Lemma mono_bind {A B} (m : M A) (f : A -> M B) : mono m -> (forall a, mono (f a)) -> mono (bind m f).
Proof.
  intros Hm Hf s b s' H. unfold bind in H. destruct (m s) as [[a s1]| | |] eqn:E; try discriminate.
  pose proof (Hm _ _ _ E). pose proof (Hf _ _ _ _ H). lia.
Qed.
Lemma mono_fail {A} e mk : mono (@fail I A e mk).
Proof. intros s a s' H. discriminate. Qed.
Lemma mono_oof {A} : mono (@oof I A).
Proof. intros s a s' H. discriminate. Qed.
Lemma mono_gets {A} (f : st -> A) : mono (gets f).
Proof. intros s a s' H. inversion H; subst. lia. Qed.
Lemma mono_modify (f : st -> st) : (forall s, (m_index (sc_mark s) <= m_index (sc_mark (f s)))%N) -> mono (modify f).
Proof. intros Hf s a s' H. inversion H; subst. apply Hf. Qed.
Lemma mono_look n : mono (look ops n).
Proof.
  intros s a s' H. unfold look in H. destruct (lookahead ops n (sc_in s)); try discriminate.
  inversion H; subst. cbn. lia.
Qed.
Lemma mono_peekn n : mono (peekn ops n).
Proof.
  intros s a s' H. unfold peekn in H. destruct (peek_nth ops n (sc_in s)); try discriminate.
  inversion H; subst. lia.
Qed.
Ltac mono1 :=
  lazymatch goal with
  | |- mono (bind _ _) => apply mono_bind; [|intros ?]
  | |- mono (ret _) => apply mono_ret
  | |- mono (fail _ _) => apply mono_fail
  | |- mono oof => apply mono_oof
  | |- mono (gets _) => apply mono_gets
  | |- mono (modify _) => apply mono_modify; intros ?; cbn; lia
  | |- mono (match ?x with _ => _ end) => destruct x
  | |- mono _ => solve [eauto 3 using mono_look, mono_peekn]
  end.
Ltac mono_go := repeat (lazy zeta; mono1).
Lemma mono_look_ch : mono (look_ch ops).
Proof. unfold look_ch, SPrim.peek. mono_go. Qed.
Lemma mono_in_skip : mono (in_skip ops).
Proof. unfold in_skip. mono_go. Qed.
Lemma mono_in_skip_ws_to_eol fuel : forall stb tab ws n, mono (in_skip_ws_to_eol ops fuel stb tab ws n).
Proof.
  pose proof mono_look_ch. pose proof mono_in_skip.
  induction fuel as [|fuel IH]; intros stb tab ws n; cbn [in_skip_ws_to_eol]; [apply mono_oof|].
  mono_go.
  all: match goal with |- mono (?G ?f ?a) =>
    assert (Hfix : forall f' a', mono (G f' a'));
    [ intros f'; induction f' as [|f' IHf]; intros; lazy beta iota; [apply mono_oof|mono_go] | apply Hfix ] end.
Qed.
Lemma mono_skip_ws_to_eol fuel stb : mono (skip_ws_to_eol ops fuel stb).
Proof.
  pose proof (mono_in_skip_ws_to_eol fuel). unfold skip_ws_to_eol, adv_mark, mark. mono_go.
Qed.

Lemma fetch_flow_collection_start_counted F seq s u s' :
  fetch_flow_collection_start ops F seq s = Ok (u, s') ->
  exists mid t, sc_tokens s' = mid ++ [t] /\ real_flow_open t = true
                /\ snd t = (if seq then TFlowSequenceStart else TFlowMappingStart)
                /\ sc_flow_level s' = (sc_flow_level s + 1)%N.
Proof.
  intros H. unfold fetch_flow_collection_start in H.
  unfold bind at 1 in H. destruct (save_simple_key s) as [[u1 s1]| | |] eqn:E1; try discriminate.
  unfold bind at 1 in H. destruct (roll_one_col_indent s1) as [[u2 s2]| | |] eqn:E2; try discriminate.
  unfold bind at 1 in H. destruct (increase_flow_level s2) as [[u3 s3]| | |] eqn:E3; try discriminate.
  pose proof (neu_save_simple_key _ _ _ E1) as [L1 _]. pose proof (neu_roll_one_col_indent _ _ _ E2) as [L2 _].
  assert (L3 : sc_flow_level s3 = (sc_flow_level s2 + 1)%N).
  { unfold increase_flow_level, bind, get, put in E3. destruct (sc_flow_level s2 =? FLOW_LEVEL_MAX)%N; [discriminate|].
    inversion E3; subst. reflexivity. }
  (* from here on everything but skip_ws_to_eol is a pure state update *)
  unfold bind at 1 in H. unfold allow_simple_key, modify at 1 in H.
  unfold bind at 1 in H. unfold mark at 1, gets at 1 in H.
  unfold bind at 1 in H. unfold skip_non_blank, in_skip, adv_mark, bind, modify in H.
  destruct (skip_ws_to_eol ops F SkipYes
              (set_ifms ((if seq then ImPossible else ImMapping) ::
                 sc_ifms (set_lws false (set_mark (adv 1 (sc_mark (set_in (skip1 ops (sc_in (set_ska true s3))) (set_ska true s3))))
                            (set_in (skip1 ops (sc_in (set_ska true s3))) (set_ska true s3)))))
                 (set_lws false (set_mark (adv 1 (sc_mark (set_in (skip1 ops (sc_in (set_ska true s3))) (set_ska true s3))))
                            (set_in (skip1 ops (sc_in (set_ska true s3))) (set_ska true s3))))))
    as [[tw s4]| | |] eqn:E4; try discriminate.
  pose proof (mono_skip_ws_to_eol _ _ _ _ _ E4) as M4. pose proof (neu_skip_ws_to_eol _ _ _ _ _ E4) as [L4 _].
  cbn in M4, L4. unfold mark, gets, push_tok, modify in H. inversion H; subst; clear H.
  cbn [sc_tokens sc_flow_level set_tokens upd]. eexists; eexists. split; [reflexivity|].
  split; [|split; [destruct seq; reflexivity|]].
  - unfold real_flow_open, spn. cbn [fst snd]. destruct seq; [reflexivity|].
    unfold span_is_empty. cbn [sp_start sp_end]. apply negb_true_iff. apply N.eqb_neq. lia.
  - rewrite L4. cbn. rewrite L3, L2, L1. reflexivity.
Qed.

End Scan.

(* the string back-end, with the fuel of the driver *)
Corollary scan_str_flow_level_bounded text : tok_flow_max (fst (Drivers.scan_str text)) <= N.to_nat FLOW_LEVEL_MAX.
Proof. unfold Drivers.scan_str. apply scan_flow_level_bounded. Qed.
