(* C11 — the depth of the LOADED tree (what the destructor, clone, eq, hash and the emitter recurse over) in terms of the
   nesting depth of the events, for alias-free event sentences: an alias copies the completed anchored node into the
   tree, so with aliases the tree may be deeper than the events nest (example at the end). *)
From Coq Require Import List NArith ZArith Bool Lia PeanoNat.
Import ListNotations.
Require Import Parser Resolver Loader Grammar BuildDocs LoaderProofs Depth DepthProofs.
Local Open Scope nat_scope.

(* depth of an event tree: the analogue of [ydepth] *)
Fixpoint tdepth (t : etree) : nat :=
  match t with
  | TScalar _ _ _ _ | TAlias _ => 0
  | TSeq _ _ l => list_max (map (fun x => S (tdepth x)) l)
  | TMap _ _ l => list_max (map (fun kv => Nat.max (S (tdepth (fst kv))) (S (tdepth (snd kv)))) l)
  end.
Fixpoint alias_free (t : etree) : bool :=
  match t with
  | TScalar _ _ _ _ => true
  | TAlias _ => false
  | TSeq _ _ l => forallb alias_free l
  | TMap _ _ l => forallb (fun kv => alias_free (fst kv) && alias_free (snd kv)) l
  end.
Definition is_alias_ev (e : event) : bool := match e with EAlias _ => true | _ => false end.
Definition alias_free_events (evs : list event) : bool := forallb (fun e => negb (is_alias_ev e)) evs.

Definition pdepth (kv : yaml * yaml) : nat := Nat.max (S (ydepth (fst kv))) (S (ydepth (snd kv))).

Lemma list_max_app l1 l2 : list_max (l1 ++ l2) = Nat.max (list_max l1) (list_max l2).
Proof. induction l1 as [|x r IH]; cbn [app list_max fold_right]; [reflexivity|]. fold (list_max (r ++ l2)). fold (list_max r). rewrite IH. lia. Qed.

Lemma list_max_cons x l : list_max (x :: l) = Nat.max x (list_max l).
Proof. reflexivity. Qed.

(* LinkedHashMap::insert never deepens the map beyond the old entries and the new pair *)
Lemma remove_key_depth k l : forall o r, remove_key k l = (o, r) ->
  list_max (map pdepth r) <= list_max (map pdepth l)
  /\ match o with Some k0 => S (ydepth k0) <= list_max (map pdepth l) | None => True end.
Proof.
  induction l as [|[k' v'] l IH]; intros o r H; cbn [remove_key] in H.
  - inversion H; subst. cbn. auto.
  - destruct (yaml_eqb k k').
    + inversion H; subst. cbn [map]. rewrite !list_max_cons.
      change (pdepth (k', v')) with (Nat.max (S (ydepth k')) (S (ydepth v'))). split; lia.
    + destruct (remove_key k l) as [o' r'] eqn:E. inversion H; subst. destruct (IH _ _ eq_refl) as [A B].
      cbn [map]. rewrite !list_max_cons. split; [lia|]. destruct o; [lia|exact I].
Qed.

Lemma map_insert_depth k v l :
  list_max (map pdepth (map_insert k v l)) <= Nat.max (list_max (map pdepth l)) (Nat.max (S (ydepth k)) (S (ydepth v))).
Proof.
  unfold map_insert. destruct (remove_key k l) as [o r] eqn:E. destruct (remove_key_depth _ _ _ _ E) as [A B].
  destruct o as [k0|]; rewrite map_app, list_max_app; cbn [map]; rewrite list_max_cons;
    [change (pdepth (k0, v)) with (Nat.max (S (ydepth k0)) (S (ydepth v)))|change (pdepth (k, v)) with (Nat.max (S (ydepth k)) (S (ydepth v)))];
    cbn [list_max fold_right]; lia.
Qed.

(* the value of an alias-free tree is no deeper than the tree *)
Lemma build_depth : forall t m, alias_free t = true -> ydepth (fst (build m t)) <= tdepth t.
Proof.
  induction t as [v st a tg|i|a tg l IH|a tg l IH] using etree_ind2; intros m HA.
  - cbn [build fst tdepth]. unfold value_of. destruct (parse_from_cow_and_metadata _ _ _); cbn; lia.
  - discriminate.
  - cbn [build tdepth]. destruct (build_items build m l) as [ys m'] eqn:E. cbn [fst ydepth].
    cbn [alias_free] in HA. revert m ys m' E HA.
    induction IH as [|x r Hx _ IHr]; intros m ys m' E HA; cbn [build_items] in E.
    + inversion E; subst. cbn. lia.
    + destruct (build m x) as [y m1] eqn:E1. destruct (build_items build m1 r) as [ys2 m2] eqn:E2.
      inversion E; subst. cbn [forallb] in HA. apply andb_prop in HA as [HA1 HA2].
      cbn [map]. rewrite !list_max_cons. specialize (Hx m HA1). rewrite E1 in Hx. cbn [fst] in Hx.
      specialize (IHr m1 ys2 m' E2 HA2). lia.
  - cbn [build tdepth]. destruct (build_pairs build m l []) as [ps m'] eqn:E. cbn [fst ydepth].
    cbn [alias_free] in HA.
    change (list_max (map (fun kv : yaml * yaml => Nat.max (S (ydepth (fst kv))) (S (ydepth (snd kv)))) ps))
      with (list_max (map pdepth ps)).
    assert (G : forall acc m ps m', build_pairs build m l acc = (ps, m') ->
                forallb (fun kv => alias_free (fst kv) && alias_free (snd kv)) l = true ->
                list_max (map pdepth ps)
                <= Nat.max (list_max (map pdepth acc))
                           (list_max (map (fun kv => Nat.max (S (tdepth (fst kv))) (S (tdepth (snd kv)))) l))).
    { clear E HA m ps m'. induction IH as [|[kt vt] r [Hk Hv] _ IHr]; intros acc m ps m' E HA; cbn [build_pairs] in E.
      - inversion E; subst. cbn [map list_max fold_right]. lia.
      - cbn [fst snd] in Hk, Hv. destruct (build m kt) as [ky m1] eqn:E1. destruct (build m1 vt) as [vy m2] eqn:E2.
        cbn [forallb fst snd] in HA. apply andb_prop in HA as [HA1 HA2]. apply andb_prop in HA1 as [HAk HAv].
        specialize (Hk m HAk). rewrite E1 in Hk. specialize (Hv m1 HAv). rewrite E2 in Hv. cbn [fst] in Hk, Hv.
        specialize (IHr _ _ _ _ E HA2). pose proof (map_insert_depth ky vy acc).
        cbn [map fst snd]. rewrite list_max_cons. lia. }
    specialize (G [] m ps m' E HA). cbn [map list_max fold_right] in G. lia.
Qed.

(* nesting depth of the events of a tree *)
Lemma events_of_depth : forall t c m tail,
  depth_run c m (events_of t ++ tail) = depth_run c (Nat.max m (c + tdepth t)) tail.
Proof.
  induction t as [v st a tg|i|a tg l IH|a tg l IH] using etree_ind2; intros c m tail.
  - cbn [events_of app tdepth]. rewrite depth_run_cons. cbn [depth_step fst snd]. rewrite Nat.add_0_r. reflexivity.
  - cbn [events_of app tdepth]. rewrite depth_run_cons. cbn [depth_step fst snd]. rewrite Nat.add_0_r. reflexivity.
  - cbn [events_of tdepth]. rewrite <- app_comm_cons, depth_run_cons. cbn [depth_step fst snd]. rewrite <- app_assoc.
    assert (G : forall m0 tail0, c <= m0 -> depth_run (S c) m0 (events_items events_of l ++ tail0)
                 = depth_run (S c) (Nat.max m0 (c + list_max (map (fun x => S (tdepth x)) l))) tail0).
    { induction IH as [|x r Hx _ IHr]; intros m0 tail0 Hm.
      - cbn [events_items app map list_max fold_right]. f_equal. lia.
      - cbn [events_items]. rewrite <- app_assoc, Hx, IHr by lia. cbn [map]. rewrite list_max_cons. f_equal. lia. }
    rewrite G by lia. cbn [app]. rewrite depth_run_cons. cbn [depth_step fst snd Nat.pred]. f_equal. lia.
  - cbn [events_of tdepth]. rewrite <- app_comm_cons, depth_run_cons. cbn [depth_step fst snd]. rewrite <- app_assoc.
    assert (G : forall m0 tail0, c <= m0 -> depth_run (S c) m0 (events_pairs events_of l ++ tail0)
                 = depth_run (S c) (Nat.max m0 (c + list_max (map (fun kv => Nat.max (S (tdepth (fst kv))) (S (tdepth (snd kv)))) l))) tail0).
    { induction IH as [|[kx vx] r [Hk Hv] _ IHr]; intros m0 tail0 Hm.
      - cbn [events_pairs app map list_max fold_right]. f_equal. lia.
      - cbn [fst snd] in Hk, Hv. cbn [events_pairs]. rewrite <- !app_assoc, Hk, Hv, IHr by lia. cbn [map fst snd]. rewrite list_max_cons. f_equal. lia. }
    rewrite G by lia. cbn [app]. rewrite depth_run_cons. cbn [depth_step fst snd Nat.pred]. f_equal. lia.
Qed.

Lemma alias_free_events_app a b : alias_free_events (a ++ b) = alias_free_events a && alias_free_events b.
Proof. unfold alias_free_events. apply forallb_app. Qed.

Lemma alias_free_of_events : forall t, alias_free_events (events_of t) = true -> alias_free t = true.
Proof.
  induction t as [v st a tg|i|a tg l IH|a tg l IH] using etree_ind2; intros H.
  - reflexivity.
  - discriminate.
  - cbn [events_of] in H. change (ESequenceStart a tg :: events_items events_of l ++ [ESequenceEnd])
      with ([ESequenceStart a tg] ++ events_items events_of l ++ [ESequenceEnd]) in H.
    rewrite !alias_free_events_app in H. apply andb_prop in H as [_ H]. apply andb_prop in H as [H _].
    cbn [alias_free]. induction IH as [|x r Hx _ IHr]; [reflexivity|].
    cbn [events_items] in H. rewrite alias_free_events_app in H. apply andb_prop in H as [H1 H2].
    cbn [forallb]. rewrite (Hx H1), (IHr H2). reflexivity.
  - cbn [events_of] in H. change (EMappingStart a tg :: events_pairs events_of l ++ [EMappingEnd])
      with ([EMappingStart a tg] ++ events_pairs events_of l ++ [EMappingEnd]) in H.
    rewrite !alias_free_events_app in H. apply andb_prop in H as [_ H]. apply andb_prop in H as [H _].
    cbn [alias_free]. induction IH as [|[kx vx] r [Hk Hv] _ IHr]; [reflexivity|].
    cbn [fst snd] in Hk, Hv. cbn [events_pairs] in H. rewrite !alias_free_events_app in H.
    apply andb_prop in H as [H1 H2]. apply andb_prop in H2 as [H2 H3].
    cbn [forallb fst snd]. rewrite (Hk H1), (Hv H2), (IHr H3). reflexivity.
Qed.

(* documents *)
Lemma docs_depth ds : forall m mx tail,
  alias_free_events (events_docs ds) = true ->
  Forall (fun y => ydepth y <= snd (depth_run 0 mx (events_docs ds ++ tail))) (fst (build_docs m ds)).
Proof.
  induction ds as [|[e t] r IH]; intros m mx tail HA; [constructor|].
  cbn [events_docs build_docs]. unfold events_doc in *. cbn [fst snd] in *.
  cbn [events_docs] in HA. unfold events_doc in HA. cbn [fst snd] in HA.
  change (EDocumentStart e :: events_of t ++ [EDocumentEnd]) with ([EDocumentStart e] ++ events_of t ++ [EDocumentEnd]) in HA.
  rewrite !alias_free_events_app in HA. apply andb_prop in HA as [HA0 HA].
  apply andb_prop in HA0 as [_ HA0]. apply andb_prop in HA0 as [HAt _].
  destruct (build m t) as [y m1] eqn:E1. destruct (build_docs m1 r) as [ys m2] eqn:E2. cbn [fst].
  rewrite <- app_assoc. rewrite <- app_comm_cons. rewrite depth_run_cons. cbn [depth_step fst snd].
  rewrite <- app_assoc, events_of_depth. cbn [app]. rewrite depth_run_cons. cbn [depth_step fst snd Nat.add].
  constructor.
  - pose proof (build_depth t m (alias_free_of_events t HAt)) as B. rewrite E1 in B. cbn [fst] in B.
    etransitivity; [exact B|]. etransitivity; [|apply depth_run_snd_ge]. lia.
  - specialize (IH m1 (Nat.max mx (tdepth t)) tail HA). rewrite E2 in IH. exact IH.
Qed.

(* Every event sentence the grammar accepts and that holds no alias: the loader model builds its documents (no panic)
   and none of them is deeper than the events nest — so every recursive traversal of a loaded document (drop, clone, eq,
   hash, emit: [ywalk]) entered at depth d reaches at most d + the nesting depth of the events. *)
Theorem loaded_tree_depth_bounded evs :
  grun GInit evs = Some GEnd -> alias_free_events evs = true ->
  exists ld, load_events evs l0 = LOk ld
             /\ Forall (fun y => ydepth y <= max_nesting evs /\ forall d, ywalk d y <= d + max_nesting evs) (l_docs ld).
Proof.
  intros HG HA. destruct (accepted_loads_spec evs HG) as (ds & ld & _ & E & HL & HD & _ & _).
  exists ld. split; [exact HL|].
  assert (HF : Forall (fun y => ydepth y <= max_nesting evs) (spec_load ds)).
  { subst evs. unfold spec_load, max_nesting, stream_of.
    rewrite depth_run_cons. cbn [depth_step fst snd].
    unfold stream_of in HA. change (EStreamStart :: events_docs ds ++ [EStreamEnd]) with ([EStreamStart] ++ events_docs ds ++ [EStreamEnd]) in HA.
    rewrite !alias_free_events_app in HA. apply andb_prop in HA as [_ HA]. apply andb_prop in HA as [HA _].
    apply (docs_depth ds [] 0 [EStreamEnd] HA). }
  rewrite <- HD in HF. apply Forall_rev in HF. rewrite rev_involutive in HF.
  eapply Forall_impl; [|exact HF]. cbn beta. intros y Hy. split; [exact Hy|].
  intros d. rewrite walk_depth_is_tree_depth. lia.
Qed.

(* with aliases the tree can be deeper than the events nest: "- &a [x]", "- &b [*a]", "- &c [*b]" nests 2 deep and
   loads to a tree of depth 4 (each alias copies the completed anchored node) *)
Example alias_deepens_the_tree :
  let evs := [EStreamStart; EDocumentStart false; ESequenceStart 0%N None;
              ESequenceStart 1%N None; EScalar [120%N] Plain 0%N None; ESequenceEnd;
              ESequenceStart 2%N None; EAlias 1%N; ESequenceEnd;
              ESequenceStart 3%N None; EAlias 2%N; ESequenceEnd;
              ESequenceEnd; EDocumentEnd; EStreamEnd] in
  max_nesting evs = 2
  /\ match load_events evs l0 with LOk ld => map ydepth (l_docs ld) = [4] | LPanic _ => False end.
Proof. vm_compute. split; reflexivity. Qed.
