(* C10, value level: the six character-level contracts (ScanRelDir/Flow/Plain/Block.v) plugged into the skeleton
   and top-level theorems of ScanRelTop.v.  Nothing is proved here but the instantiation. *)
From Coq Require Import List NArith Bool.
Import ListNotations.
Require Import Parser SBase SFetch Pipe SBuf ScanRel ScanRelTop.
Require ScanRelDir ScanRelFlow ScanRelPlain ScanRelBlock ScanFuelAll.
Local Open Scope nat_scope.

Lemma scan_backends_agree : forall (orig : list chr) cap, (8 <= cap)%nat -> forall F K,
  scan_agree (scan_all str_ops F K (init_sc {| si_chars := orig; si_look := 0 |}) [])
             (scan_all (buf_ops cap) F K (init_sc {| b_buf := []; b_rest := orig |}) []).
Proof.
  intros orig cap H. exact (scan_str_buf_agree orig cap H (ScanRelDir.scan_directive_ok cap H) (ScanRelDir.scan_tag_ok cap H)
    (ScanRelDir.scan_anchor_ok cap H) (ScanRelFlow.scan_flow_scalar_ok cap H) (ScanRelPlain.scan_plain_scalar_ok cap H)
    (ScanRelBlock.scan_block_scalar_ok cap H)).
Qed.

Lemma scan_backends_equal : forall (orig : list chr) cap, (8 <= cap)%nat -> forall F K,
  se_proper (snd (scan_all str_ops F K (init_sc {| si_chars := orig; si_look := 0 |}) [])) ->
  se_proper (snd (scan_all (buf_ops cap) F K (init_sc {| b_buf := []; b_rest := orig |}) [])) ->
  scan_all str_ops F K (init_sc {| si_chars := orig; si_look := 0 |}) [] =
  scan_all (buf_ops cap) F K (init_sc {| b_buf := []; b_rest := orig |}) [].
Proof.
  intros orig cap H. exact (scan_str_buf_equal orig cap H (ScanRelDir.scan_directive_ok cap H) (ScanRelDir.scan_tag_ok cap H)
    (ScanRelDir.scan_anchor_ok cap H) (ScanRelFlow.scan_flow_scalar_ok cap H) (ScanRelPlain.scan_plain_scalar_ok cap H)
    (ScanRelBlock.scan_block_scalar_ok cap H)).
Qed.

Lemma pipeline_backends_agree : forall (orig : list N) cap, (8 <= cap)%nat ->
  run_str orig = run_buf cap orig \/ pend_bad (snd (run_str orig)) \/ snd (run_buf cap orig) = PFuel.
Proof.
  intros orig cap H. exact (run_str_buf_agree_safe orig cap H (ScanRelDir.scan_directive_ok cap H) (ScanRelDir.scan_tag_ok cap H)
    (ScanRelDir.scan_anchor_ok cap H) (ScanRelFlow.scan_flow_scalar_ok cap H) (ScanRelPlain.scan_plain_scalar_ok cap H)
    (ScanRelBlock.scan_block_scalar_ok cap H)).
Qed.

(* the string run always ends properly (ScanFuelAll.pipeline_ends_properly): the only exception left is fuel on the buffered side *)
Lemma pipeline_backends_agree_total : forall (orig : list N) cap, 8 <= cap ->
  run_str orig = run_buf cap orig \/ snd (run_buf cap orig) = PFuel.
Proof.
  intros orig cap H. destruct (pipeline_backends_agree orig cap H) as [E|[B|F]]; [left; exact E| |right; exact F].
  pose proof (ScanFuelAll.pipeline_ends_properly orig) as P. destruct (snd (run_str orig)); cbn in *; contradiction.
Qed.
