(* C18 — proofs about Model/Decode.v:
   1. detection: the chosen encoding is the right one for input with a byte-order mark and for the
      encodings of texts that start with an ASCII character;
   2. termination and panic-freedom of decode_loop for ALL inputs and traps, for every decoder that meets
      an explicit contract, with fuel 2 * input.len() + 2;
   3. without the lower bound of the growth step (RESERVE_MIN = 0, the unrepaired `input.len() / 10`) the
      loop spins forever on an 8-byte input with a decoder that meets the same contract;
   4. the contract is satisfiable: the toy UTF-16LE decoder of Model/Decode.v meets it. *)
From Coq Require Import List NArith Bool Lia Arith.
Import ListNotations.
Require Import Consts Decode EncodingSpec.
Open Scope N_scope.
Arguments N.add : simpl never.
Arguments N.sub : simpl never.
Arguments N.mul : simpl never.
Arguments N.div : simpl never.
Arguments N.modulo : simpl never.
Arguments N.eqb : simpl never.
Arguments N.ltb : simpl never.
Arguments N.leb : simpl never.
Arguments N.max : simpl never.

(* ================================================================================================ *)
(* 1. Detection                                                                                      *)
(* ================================================================================================ *)
Lemma detect_bom : forall e text, choose_encoding (bom e ++ encode e text) = (e, nlen (bom e)).
Proof. intros [] text; reflexivity. Qed.

(* for any bytes after the mark, not only well-formed ones *)
Lemma detect_bom_any : forall e rest, choose_encoding (bom e ++ rest) = (e, nlen (bom e)).
Proof. intros [] rest; reflexivity. Qed.

Lemma eqb_false_lt : forall a b, a < b -> (a =? b) = false.
Proof. intros a b H; apply N.eqb_neq; lia. Qed.

Lemma for_bom_ascii_first : forall c rest, c < 128 -> for_bom (c :: rest) = None.
Proof.
  intros c rest Hc. unfold for_bom. destruct rest as [|b1 t]; [reflexivity|].
  rewrite (eqb_false_lt c 239), (eqb_false_lt c 255), (eqb_false_lt c 254) by lia. reflexivity.
Qed.

Lemma for_bom_zero_first : forall rest, for_bom (0 :: rest) = None.
Proof. intros rest. apply for_bom_ascii_first. lia. Qed.

Lemma utf16_units_ascii : forall c, c < 128 -> utf16_units c = [c].
Proof. intros c Hc. unfold utf16_units. destruct (N.ltb_spec c 65536); [reflexivity|lia]. Qed.

Lemma detect_utf16le_ascii : forall text, ascii_first text = true -> choose_encoding (encode Utf16LE text) = (Utf16LE, 0).
Proof.
  intros [|c rest] H; [discriminate|]. cbn [ascii_first] in H.
  apply andb_true_iff in H as [H0 H1]. apply N.ltb_lt in H0, H1.
  cbn [encode flat_map]. unfold utf16_char at 1. rewrite (utf16_units_ascii c H1).
  cbn [flat_map unit_bytes app].
  rewrite (N.mod_small c 256), (N.div_small c 256) by lia.
  unfold choose_encoding. rewrite for_bom_ascii_first by lia.
  cbn [detect_utf16_endianness].
  rewrite (proj2 (N.eqb_neq c 0)) by lia. cbn [negb].
  rewrite N.eqb_refl. reflexivity.
Qed.

Lemma detect_utf16be_ascii : forall text, ascii_first text = true -> choose_encoding (encode Utf16BE text) = (Utf16BE, 0).
Proof.
  intros [|c rest] H; [discriminate|]. cbn [ascii_first] in H.
  apply andb_true_iff in H as [H0 H1]. apply N.ltb_lt in H0, H1.
  cbn [encode flat_map]. unfold utf16_char at 1. rewrite (utf16_units_ascii c H1).
  cbn [flat_map unit_bytes app].
  rewrite (N.mod_small c 256), (N.div_small c 256) by lia.
  unfold choose_encoding. rewrite for_bom_zero_first.
  cbn [detect_utf16_endianness].
  rewrite (proj2 (N.eqb_neq 0 c)) by lia. cbn [negb].
  rewrite N.eqb_refl. reflexivity.
Qed.

Lemma add_pos_nonzero : forall a b, 0 < a -> a + b <> 0.
Proof. intros a b H. lia. Qed.

(* the first byte of the UTF-8 form of a character other than NUL is not zero *)
Lemma utf8_char_head : forall d, d <> 0 -> exists h t, utf8_char d = h :: t /\ h <> 0.
Proof.
  intros d Hd. unfold utf8_char.
  destruct (N.ltb_spec d 128); [exists d, []; split; [reflexivity|assumption]|].
  destruct (N.ltb_spec d 2048); [eexists _, _; split; [reflexivity|apply add_pos_nonzero; lia]|].
  destruct (N.ltb_spec d 65536); eexists _, _; (split; [reflexivity|apply add_pos_nonzero; lia]).
Qed.

Lemma detect_utf8_ascii : forall text, ascii_start text = true -> choose_encoding (encode Utf8 text) = (Utf8, 0).
Proof.
  intros [|c rest] H; [discriminate|]. cbn [ascii_start] in H.
  apply andb_true_iff in H as [H H2]. apply andb_true_iff in H as [H0 H1]. apply N.ltb_lt in H0, H1.
  cbn [encode flat_map]. unfold utf8_char at 1. rewrite (proj2 (N.ltb_lt c 128) H1). cbn [app].
  unfold choose_encoding. rewrite for_bom_ascii_first by lia.
  destruct rest as [|d r2]; [reflexivity|].
  apply negb_true_iff, N.eqb_neq in H2.
  destruct (utf8_char_head d H2) as (h & t & Eh & Hh).
  cbn [flat_map]. rewrite Eh. cbn [app detect_utf16_endianness].
  destruct (c =? h); cbn [negb]; [reflexivity|].
  rewrite (proj2 (N.eqb_neq c 0)) by lia. rewrite (proj2 (N.eqb_neq h 0)) by lia. reflexivity.
Qed.

Definition detectable (e : encoding) (text : list N) : bool :=
  match e with Utf8 => ascii_start text | _ => ascii_first text end.

Lemma detect_no_bom : forall e text, detectable e text = true -> choose_encoding (encode e text) = (e, 0).
Proof.
  intros [] text H; [apply detect_utf8_ascii|apply detect_utf16le_ascii|apply detect_utf16be_ascii]; exact H.
Qed.

(* ================================================================================================ *)
(* 2. The decoder contract, termination and panic-freedom                                            *)
(* ================================================================================================ *)
Definition step_read (r : step_result) : N :=
  match r with InputEmpty _ => 0 | OutputFull rd _ => rd | Malformed _ _ rd _ => rd end.
Definition step_written (r : step_result) : N :=
  match r with InputEmpty w => w | OutputFull _ w => w | Malformed _ _ _ w => w end.

(* What the loop needs from encoding_rs's Decoder::decode_to_string_without_replacement.
   [pending d] = number of input bytes the decoder has consumed but not yet turned into output or reported
   (a UTF-16 lead byte / lead surrogate, the seen part of a UTF-8 sequence): such bytes make it possible for a
   call to read nothing and still make progress, and for a malformed sequence to start before the current
   slice.
     H0  a call reads at most what it is given and writes at most the spare capacity;
     H1  OutputFull: no pending byte is invented, and if the call was given at least K spare bytes it
         consumed or settled at least one byte  (i.e. "output full" is only an excuse below K);
     H2  Malformed: at least one byte was consumed or settled;
     H3  Malformed(len, after): the reported context lies within the bytes read so far
         (len + after <= pending before + read in this call) and fits the u8 arithmetic of the Call branch. *)
Record decoder_contract {dstate : Type} (dstep : dstate -> list N -> N -> dstate * step_result)
       (pending : dstate -> N) (K : N) : Prop := {
  dc_bounds : forall d rem spare d' r, dstep d rem spare = (d', r) ->
      step_read r <= nlen rem /\ step_written r <= spare;
  dc_full : forall d rem spare d' rd w, dstep d rem spare = (d', OutputFull rd w) ->
      pending d' <= pending d + rd /\ (K <= spare -> pending d' < pending d + rd);
  dc_malformed_progress : forall d rem spare d' ml af rd w, dstep d rem spare = (d', Malformed ml af rd w) ->
      pending d' < pending d + rd;
  dc_malformed_context : forall d rem spare d' ml af rd w, dstep d rem spare = (d', Malformed ml af rd w) ->
      ml + af <= pending d + rd /\ ml + af <= 255
}.

(* what a finished loop may look like: no panic, fuel left, and a reported malformed sequence inside the input *)
Definition outcome_ok (n : N) (o : outcome) : bool :=
  match o with
  | Done _ _ => true
  | DecodeError idx ml => idx + ml <=? n
  | CallbackError => true
  | Panicked _ | OutOfFuel => false
  end.

Lemma outcome_ok_terminated : forall n o, outcome_ok n o = true -> terminated o = true.
Proof. intros n []; cbn; congruence. Qed.

Lemma nlen_skipn : forall (l : list N) k, nlen (skipn (N.to_nat k) l) = nlen l - k.
Proof.
  intros l k. unfold nlen. rewrite skipn_length, Nat2N.inj_sub, N2Nat.id. reflexivity.
Qed.

Lemma reserve_spare : forall len cap add, add <= reserve len cap add - len.
Proof.
  intros len cap add. unfold reserve. destruct (N.leb_spec add (cap - len)); [assumption|].
  pose proof (N.le_max_l (N.max (cap * 2) (len + add)) 8).
  pose proof (N.le_max_r (cap * 2) (len + add)). lia.
Qed.

Lemma reserve_grows : forall len cap add, cap <= reserve len cap add.
Proof.
  intros len cap add. unfold reserve. destruct (N.leb_spec add (cap - len)); [lia|].
  pose proof (N.le_max_l (N.max (cap * 2) (len + add)) 8).
  pose proof (N.le_max_l (cap * 2) (len + add)). lia.
Qed.

Section Termination.
  Variable dstate : Type.
  Variable dstep : dstate -> list N -> N -> dstate * step_result.
  Variable pending : dstate -> N.
  Variables K div min : N.
  Hypothesis contract : decoder_contract dstep pending K.
  (* the growth step covers the decoder's need *)
  Hypothesis min_covers : K <= min.

  Variable t : trap.
  Variable input : list N.
  Let n := nlen input.

  (* bytes not yet settled *)
  Definition measure (c : config dstate) : N := (n - c_total c) + pending (c_dec c).
  (* iterations that suffice from [c] *)
  Definition need (c : config dstate) : N :=
    2 * measure c + (if c_cap c - c_len c <? K then 2 else 1).
  Definition inv (c : config dstate) : Prop :=
    c_total c <= n /\ pending (c_dec c) <= c_total c.

  Lemma malformed_index_ok : forall u8 total ml af,
      total <= n -> ml + af <= total -> ml + af <= 255 ->
      exists idx, malformed_index u8 n total ml af = inr idx /\ idx + ml <= n.
  Proof.
    intros u8 total ml af Ht Hc Hu. unfold malformed_index.
    replace (u8 && (255 <? ml + af)) with false
      by (destruct u8; cbn [andb]; [symmetry; apply N.ltb_ge; assumption|reflexivity]).
    destruct (N.ltb_spec total (ml + af)); [lia|].
    destruct (N.ltb_spec n (total - (ml + af) + ml)); [lia|].
    eexists; split; [reflexivity|lia].
  Qed.

  Lemma loop_step_progress : forall c, inv c ->
      match loop_step dstate dstep div min t input c with
      | inr o => outcome_ok n o = true
      | inl c' => inv c' /\ need c' + 1 <= need c
      end.
  Proof.
    intros [total d len cap] [Ht Hp]. cbn [c_total c_dec c_len c_cap] in Ht, Hp.
    unfold loop_step. cbn [c_total c_dec c_len c_cap]. fold n.
    destruct (N.ltb_spec n total) as [Hlt|_]; [lia|].
    destruct (dstep d (skipn (N.to_nat total) input) (cap - len)) as [d' r] eqn:E.
    pose proof (dc_bounds _ _ _ contract _ _ _ _ _ E) as [Hrd Hw].
    rewrite nlen_skipn in Hrd. fold n in Hrd.
    destruct r as [w|rd w|ml af rd w]; cbn [step_read step_written] in Hrd, Hw.
    - (* InputEmpty *)
      destruct (N.ltb_spec (cap - len) w); [lia|]. reflexivity.
    - (* OutputFull *)
      destruct (N.ltb_spec (cap - len) w); [lia|].
      pose proof (dc_full _ _ _ contract _ _ _ _ _ _ E) as [Hweak Hstrong].
      pose proof (reserve_spare (len + w) cap (growth_step div min n)) as Hsp.
      assert (Hg : K <= growth_step div min n)
        by (unfold growth_step; pose proof (N.le_max_r (n / div) min); lia).
      split; [split; cbn [c_total c_dec]; lia|].
      unfold need, measure. cbn [c_total c_dec c_len c_cap].
      destruct (N.ltb_spec (reserve (len + w) cap (growth_step div min n) - (len + w)) K); [lia|].
      destruct (N.ltb_spec (cap - len) K); [lia|].
      specialize (Hstrong ltac:(assumption)). lia.
    - (* Malformed *)
      destruct (N.ltb_spec (cap - len) w); [lia|].
      pose proof (dc_malformed_progress _ _ _ contract _ _ _ _ _ _ _ _ E) as Hprog.
      pose proof (dc_malformed_context _ _ _ contract _ _ _ _ _ _ _ _ E) as [Hctx Hu8].
      assert (Hneed : forall l2 c2,
                 inv (Config (total + rd) d' l2 c2) /\
                 need (Config (total + rd) d' l2 c2) + 1 <= need (Config total d len cap)).
      { intros l2 c2. split; [split; cbn [c_total c_dec]; lia|].
        unfold need, measure. cbn [c_total c_dec c_len c_cap].
        destruct (c2 - l2 <? K); destruct (cap - len <? K); lia. }
      destruct t as [| | |cb].
      + apply Hneed.
      + destruct (malformed_index_ok false (total + rd) ml af) as (idx & Ei & Hi); [lia|lia|lia|].
        rewrite Ei. cbn [outcome_ok]. apply N.leb_le. exact Hi.
      + apply Hneed.
      + destruct (malformed_index_ok true (total + rd) ml af) as (idx & Ei & Hi); [lia|lia|lia|].
        rewrite Ei.
        destruct (cb ml af (skipn (N.to_nat idx) input) (len + w, cap)) as [l2 c2|[|]].
        * apply Hneed.
        * cbn [outcome_ok]. apply N.leb_le. exact Hi.
        * reflexivity.
  Qed.

  Lemma loop_go_terminates : forall fuel c, inv c -> need c <= N.of_nat fuel ->
      outcome_ok n (loop_go dstate dstep div min fuel t input c) = true.
  Proof.
    induction fuel as [|f IH]; intros c Hinv Hneed.
    - exfalso. unfold need in Hneed. cbn in Hneed. destruct (c_cap c - c_len c <? K); lia.
    - cbn [loop_go]. pose proof (loop_step_progress c Hinv) as Hs.
      destruct (loop_step dstate dstep div min t input c) as [c'|o]; [|exact Hs].
      destruct Hs as [Hinv' Hdec]. apply IH; [exact Hinv'|]. lia.
  Qed.

  Lemma decode_loop_terminates : forall d0 fuel, pending d0 = 0 -> (decode_fuel input <= fuel)%nat ->
      outcome_ok n (decode_loop dstate dstep div min fuel d0 t input) = true.
  Proof.
    intros d0 fuel Hd0 Hfuel. unfold decode_loop. apply loop_go_terminates.
    - unfold inv, initial_config. cbn [c_total c_dec]. lia.
    - unfold need, measure, initial_config. cbn [c_total c_dec c_len c_cap]. rewrite Hd0.
      unfold decode_fuel in Hfuel. unfold n.
      assert (2 * nlen input + 2 <= N.of_nat fuel) by lia.
      destruct (reserve 0 0 (nlen input) - 0 <? K); lia.
  Qed.
End Termination.

(* the obligation that ties the theorem to the constants found in encoding.rs:
   it fails as soon as the translator reads a growth step without (or with too small) a lower bound *)
Lemma reserve_min_covers_decoder : DECODER_K <= RESERVE_MIN.
Proof. vm_compute. discriminate. Qed.

Lemma decode_loop_impl_terminates :
  forall (dstate : Type) (dstep : dstate -> list N -> N -> dstate * step_result) (pending : dstate -> N) (d0 : dstate),
    decoder_contract dstep pending DECODER_K -> pending d0 = 0 ->
    forall (t : trap) (input : list N) (fuel : nat), (decode_fuel input <= fuel)%nat ->
      outcome_ok (nlen input) (decode_loop_impl dstep fuel d0 t input) = true.
Proof.
  intros dstate dstep pending d0 Hc Hd0 t input fuel Hf. unfold decode_loop_impl.
  exact (decode_loop_terminates dstate dstep pending DECODER_K RESERVE_DIV RESERVE_MIN Hc
           reserve_min_covers_decoder t input d0 fuel Hd0 Hf).
Qed.

(* ================================================================================================ *)
(* 4. The contract is satisfiable: the toy UTF-16LE decoder                                          *)
(* ================================================================================================ *)
Lemma nlen_cons : forall (b : N) l, nlen (b :: l) = nlen l + 1.
Proof. intros b l. unfold nlen. cbn [length]. lia. Qed.

Lemma utf8_len_bmp_range : forall u, 1 <= utf8_len_bmp u <= 3.
Proof. intros u. unfold utf8_len_bmp. destruct (u <? 128); [lia|]. destruct (u <? 2048); lia. Qed.

Definition toy_post (rem : list N) (lead : option N) (spare rd w : N) (d' : option N) (r : step_result) : Prop :=
  match r with
  | InputEmpty w' => w <= w' /\ w' <= w + spare
  | OutputFull rd' w' =>
      rd <= rd' /\ rd' <= rd + nlen rem /\ w <= w' /\ w' <= w + spare /\
      toy_pending d' + rd <= toy_pending lead + rd' /\
      (4 <= spare -> toy_pending d' + rd < toy_pending lead + rd')
  | Malformed ml af rd' w' =>
      rd <= rd' /\ rd' <= rd + nlen rem /\ w <= w' /\ w' <= w + spare /\
      toy_pending d' + rd < toy_pending lead + rd' /\
      ml + af + rd <= toy_pending lead + rd' /\ ml + af <= 255
  end.

Lemma toy_go_post : forall rem lead spare rd w d' r,
    toy_go rem lead spare rd w = (d', r) -> toy_post rem lead spare rd w d' r.
Proof.
  induction rem as [|b tl IH]; intros lead spare rd w d' r E; cbn [toy_go] in E.
  - destruct lead as [l|].
    + destruct (N.ltb_spec spare 3); inversion E; subst; unfold toy_post; cbn [toy_pending nlen length]; lia.
    + inversion E; subst. unfold toy_post. lia.
  - destruct (N.ltb_spec spare 4) as [Hs|Hs].
    + inversion E; subst. unfold toy_post. rewrite nlen_cons. lia.
    + destruct lead as [l|].
      * destruct (is_surrogate_unit (l + 256 * b)).
        -- inversion E; subst. unfold toy_post. rewrite nlen_cons. cbn [toy_pending]. lia.
        -- pose proof (utf8_len_bmp_range (l + 256 * b)) as Hk.
           apply IH in E. unfold toy_post in *. rewrite nlen_cons.
           destruct r as [w'|rd' w'|ml af rd' w']; cbn [toy_pending] in *; lia.
      * apply IH in E. unfold toy_post in *. rewrite nlen_cons.
        destruct r as [w'|rd' w'|ml af rd' w']; cbn [toy_pending] in *; lia.
Qed.

Lemma toy_contract : decoder_contract toy_step toy_pending DECODER_K.
Proof.
  unfold DECODER_K.
  split; unfold toy_step; intros d rem spare d'.
  - intros r E. apply toy_go_post in E. unfold toy_post in E.
    destruct r; cbn [step_read step_written]; lia.
  - intros rd w E. apply toy_go_post in E. unfold toy_post in E. lia.
  - intros ml af rd w E. apply toy_go_post in E. unfold toy_post in E. lia.
  - intros ml af rd w E. apply toy_go_post in E. unfold toy_post in E. lia.
Qed.

Lemma toy_terminates : forall t input fuel, (decode_fuel input <= fuel)%nat ->
    outcome_ok (nlen input) (decode_loop_impl toy_step fuel None t input) = true.
Proof.
  intros t input fuel Hf.
  exact (decode_loop_impl_terminates (option N) toy_step toy_pending None toy_contract eq_refl t input fuel Hf).
Qed.

(* ================================================================================================ *)
(* 3. Why the lower bound of the growth step matters                                                 *)
(* ================================================================================================ *)
Lemma stuck_forever : forall (dstate : Type) dstep div min t input (c : config dstate),
    loop_step dstate dstep div min t input c = inl c ->
    forall fuel, loop_go dstate dstep div min fuel t input c = OutOfFuel.
Proof.
  intros dstate dstep div min t input c H. induction fuel as [|f IH]; [reflexivity|].
  cbn [loop_go]. rewrite H. exact IH.
Qed.

(* "a中文a" in UTF-16LE without BOM: 8 bytes that decode to 8 bytes of UTF-8, 7 of which fit before the
   decoder asks for more room; 8 / 10 = 0 additional bytes are reserved, for ever. *)
Definition spin_witness : list N := [97; 0; 45; 78; 135; 101; 97; 0].

Lemma spin_first_step : forall t,
    loop_step (option N) toy_step 10 0 t spin_witness (initial_config (option N) None spin_witness)
    = inl (Config 6 None 7 8).
Proof. intros t. vm_compute. reflexivity. Qed.

Lemma spin_fixpoint : forall t,
    loop_step (option N) toy_step 10 0 t spin_witness (Config 6 None 7 8) = inl (Config 6 None 7 8).
Proof. intros t. vm_compute. reflexivity. Qed.

Lemma decode_loop_without_min_spins : forall t fuel,
    decode_loop (option N) toy_step 10 0 fuel None t spin_witness = OutOfFuel.
Proof.
  intros t [|f]; [reflexivity|]. unfold decode_loop. cbn [loop_go].
  rewrite spin_first_step. apply stuck_forever. apply spin_fixpoint.
Qed.

(* Termination of the loop with growth step `input.len() / 10` (no lower bound) is refuted: there is a
   decoder meeting the contract and an input on which no amount of fuel suffices, under every trap. *)
Lemma termination_without_min_refuted :
  exists (dstate : Type) (dstep : dstate -> list N -> N -> dstate * step_result) (pending : dstate -> N)
         (d0 : dstate) (input : list N),
    decoder_contract dstep pending DECODER_K /\ pending d0 = 0 /\
    forall t fuel, decode_loop dstate dstep 10 0 fuel d0 t input = OutOfFuel.
Proof.
  exists (option N), toy_step, toy_pending, None, spin_witness.
  split; [exact toy_contract|]. split; [reflexivity|]. exact decode_loop_without_min_spins.
Qed.
