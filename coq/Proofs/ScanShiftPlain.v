(* C15 tail independence of the scanner (see ScanShift.v): the family of PLAIN SCALARS (Model/SScalar.v) under the
   state relation [SH d] of ScanShift.v.

     scan_plain_scalar_ok : forall d, shf_scan_plain_scalar d

   Mechanical port of ScanBrkPlain.v ([d : shift] in the place of [md]); the alignment premises inherited from it are
   not needed for the shift (see the header of ScanShift.v).  Columns are equal on the two sides, so the indentation
   tests agree; the document-marker test at column 0 reads the text only.  TWO fuels everywhere. *)
From Coq Require Import List NArith ZArith Bool Arith Lia.
Import ListNotations.
Require Import Parser SBase SPrim SDir SScalar SFetch ScanShift ScanShiftPrim.
Local Open Scope nat_scope.

(* ---------------- the main loop of scan_plain_scalar (a local [fix] in the model), restated, generic in ops ---- *)
Section Go.
Context {I : Type} (ops : InputOps I).
Variables (F : nat) (indent : Z) (start : marker).
Local Open Scope N_scope.
Local Open Scope mon_scope.
Fixpoint plain_go (f : nat) (acc : list chr) (lb : bool) (tb : N) (ws : list chr) (endm : marker) {struct f}
    : @M I (list chr * marker) :=
  match f with
  | O => oof
  | S f =>
    look ops 4 ;;;
    s <- get ;;
    di <- (if sc_lws s && (m_col (sc_mark s) =? 0) then next_is_document_indicator ops else ret false) ;;
    c <- peek ops ;;
    if di || (c =? 35) then ret (acc, endm) else
    nc <- peekn ops 1 ;;
    let fl := 0 <? sc_flow_level s in
    if (match acc with [] => true | _ => false end) && fl && (c =? 45) && is_flow nc then fail 76 (sc_mark s) else
    cb <- (if is_blank_or_breakz c then ret false else next_can_be_plain_scalar ops fl) ;;
    r <- (if cb then
            let '(acc, lb, tb, ws) :=
              if sc_lws s then
                (if negb lb then (nls tb acc, false, 0, ws)
                 else if tb =? 0 then (32 :: acc, false, 0, ws)
                 else (nls tb acc, false, 0, ws))
              else (ws ++ acc, lb, tb, []) in
            modify (set_lws false) ;;;
            skip_non_blank ops ;;;
            look ops (bufmaxlen ops) ;;;
            acc <- plain_chunk ops F 0 (c :: acc) ;;
            m <- mark ;; ret (acc, lb, tb, ws, m)
          else ret (acc, lb, tb, ws, endm)) ;;
    let '(acc, lb, tb, ws, endm) := r in
    c <- peek ops ;;
    if negb (is_blank c || is_break c) then ret (acc, endm) else
    look ops 2 ;;;
    r <- plain_blanks ops F F indent start lb tb ws ;;
    let '(lb, tb, ws) := r in
    s <- get ;;
    if (sc_flow_level s =? 0) && (Z.of_N (m_col (sc_mark s)) <? indent)%Z then ret (acc, endm)
    else plain_go f acc lb tb ws endm
  end.

End Go.

Local Open Scope mon_scope.

Lemma scan_plain_scalar_eq {I} (ops : InputOps I) F :
  scan_plain_scalar ops F =
  (unroll_non_block_indents ;;;
   s0 <- get ;;
   let indent := (sc_indent s0 + 1)%Z in
   let start := sc_mark s0 in
   if ((0 <? sc_flow_level s0)%N && (Z.of_N (m_col start) <? indent)%Z)%bool then fail 75%N start else
   r <- plain_go ops F indent start F [] false 0%N [] start ;;
   s <- get ;;
   (if sc_lws s then allow_simple_key else ret tt) ;;;
   match fst r with
   | [] => fail 78%N start
   | _ => ret ({| sp_start := start; sp_end := snd r |}, TScalar Plain (rev (fst r)))
   end).
Proof. reflexivity. Qed.

(* one round of the chunked loop *)
Lemma plain_chunk_S {I} (ops : InputOps I) fuel j acc :
  plain_chunk ops (S fuel) j acc =
  (if Nat.leb (bufmaxlen ops - 1) j then look ops (bufmaxlen ops) ;;; plain_chunk ops fuel 0 acc
   else
     b <- next_is ops is_blank_or_breakz ;; s <- get ;;
     cb <- (if b then ret false else next_can_be_plain_scalar ops (0 <? sc_flow_level s)%N) ;;
     if (b || negb cb)%bool then ret acc
     else c <- peek ops ;; skip_non_blank ops ;;; plain_chunk ops fuel (S j) (c :: acc)).
Proof. reflexivity. Qed.

Section BrkPlain.
Variable d : shift.
Local Notation bwp := (swp d).

(* what the word loop returns: the same (reversed) text, end marks with the same line and column *)
Definition PR (r1 r2 : list chr * marker) : Prop := fst r1 = fst r2 /\ MS d (snd r1) (snd r2).

(* ---------------- plain_chunk: lockstep, the same chunk counter, two fuels ---------------- *)
Lemma shf_plain_chunk : forall f1 f2 j acc s1 s2, SH d s1 s2 ->
  bwp (plain_chunk sops f1 j acc) (plain_chunk sops f2 j acc) (bpost d eq) s1 s2.
Proof.
  induction f1 as [|f1 IH]; intros f2 j acc s1 s2 H; [exact I|].
  destruct f2 as [|f2]; [apply bwp_oof_r|].
  rewrite (plain_chunk_S sops f1), (plain_chunk_S sops f2).
  destruct (Nat.leb (bufmaxlen sops - 1) j).
  { (* the refresh: the same [look 128] on both sides *)
    apply bwp_bind. apply (bwp_look d); [exact H|]. intros t1 t2 HT _ _ _ _ _. apply IH. exact HT. }
  apply bwp_bind. apply (bwp_next_is d); [exact H|exact b1_is_blank_or_breakz|]. cbv beta.
  apply bwp_bind. apply bwp_get. cbv beta. sh_sync H.
  destruct (is_blank_or_breakz (rn s1 0)) eqn:Eb.
  - apply bwp_bind. apply bwp_ret. cbn [orb]. apply (bwp_ret_bpost d); [reflexivity|exact H].
  - assert (N0 : rn s1 0 <> 10%N) by (intros E; rewrite E in Eb; discriminate).
    apply bwp_bind. apply (bwp_next_can_be_plain_scalar d); [exact H|exact N0|]. cbn [orb].
    destruct (plain_ok_val (0 <? sc_flow_level s1)%N s1); cbn [negb].
    + apply bwp_bind. apply (bwp_peek d); [exact H|]. cbv beta. rewrite (b1_other _ N0).
      apply bwp_bind. apply (bwp_skip_non_blank d); [exact H|exact N0|]. intros t1 t2 HT _.
      apply IH. exact HT.
    + apply (bwp_ret_bpost d); [reflexivity|exact H].
Qed.

(* ---------------- plain_blanks: blanks in lockstep, a line break is one step on both sides ----------------
   exit: the next character is neither a blank nor a break, hence not a line feed *)
Lemma shf_plain_blanks F1 F2 indent : forall f1 f2 start1 start2 lb tb ws s1 s2, SH d s1 s2 -> MS d start1 start2 ->
  bwp (plain_blanks sops F1 f1 indent start1 lb tb ws) (plain_blanks sops F2 f2 indent start2 lb tb ws)
      (bpost_al d eq) s1 s2.
Proof.
  induction f1 as [|f1 IH]; intros f2 start1 start2 lb tb ws s1 s2 H HM; [exact I|].
  destruct f2 as [|f2]; [apply bwp_oof_r|]. cbn [plain_blanks].
  apply bwp_bind. apply (bwp_peek d); [exact H|]. cbv beta. b1_norm.
  destruct (is_blank (rn s1 0)) eqn:Ebl.
  - assert (N0 : rn s1 0 <> 10%N) by (intros E; rewrite E in Ebl; discriminate).
    rewrite (b1_other _ N0).
    assert (Hblank : forall ws',
              bwp (skip_blank sops ;;; look sops 2 ;;; plain_blanks sops F1 f1 indent start1 lb tb ws')
                  (skip_blank sops ;;; look sops 2 ;;; plain_blanks sops F2 f2 indent start2 lb tb ws')
                  (bpost_al d eq) s1 s2).
    { intros ws'. apply bwp_bind. apply (bwp_skip_blank d); [exact H|exact N0|]. intros u1 u2 HU _.
      apply bwp_bind. apply (bwp_look d); [exact HU|]. intros v1 v2 HV _ _ _ _ _. apply IH; assumption. }
    apply bwp_bind. apply bwp_get. cbv beta. sh_sync H.
    destruct (negb (sc_lws s1)); [apply Hblank|].
    destruct ((Z.of_N (m_col (sc_mark s1)) <? indent)%Z && (rn s1 0 =? 9)%N); [|apply Hblank].
    (* a tab in the indentation *)
    eapply (bwp_call_eq d); [apply (skip_ws_to_eol_ok d); exact H|]. intros tw u1 u2 HU.
    apply bwp_bind. apply (bwp_next_is d); [exact HU|exact b1_is_breakz|]. cbv beta.
    destruct (is_breakz (rn u1 0)); [|apply bwp_fail; exact HM].
    apply bwp_bind. apply (bwp_look d); [exact HU|]. intros v1 v2 HV _ _ _ _ _. apply IH; assumption.
  - destruct (is_break (rn s1 0)) eqn:Ek.
    2:{ apply (bwp_ret_bpost_al d); [reflexivity|exact H|]. intros E. rewrite E in Ek. discriminate. }
    apply bwp_bind. apply bwp_get. cbv beta. sh_sync H.
    destruct (sc_lws s1).
    + apply bwp_bind. apply (bwp_skip_break d); [exact H|]. intros u1 u2 HU _ _.
      apply bwp_bind. apply (bwp_look d); [exact HU|]. intros v1 v2 HV _ _ _ _ _. apply IH; assumption.
    + apply bwp_bind. apply (bwp_skip_break d); [exact H|]. intros u1 u2 HU _ _.
      apply bwp_bind. apply (bwp_modify_br d); [apply SH_set_lws; exact HU|reflexivity|]. intros w1 w2 HW _.
      apply bwp_bind. apply (bwp_look d); [exact HW|]. intros v1 v2 HV _ _ _ _ _. apply IH; assumption.
Qed.

(* ---------------- the word loop: invariant [rn s1 0 <> 10] at the head ---------------- *)
Lemma shf_plain_go F1 F2 indent start1 start2 : MS d start1 start2 ->
  forall f1 f2 acc lb tb ws endm1 endm2 s1 s2, SH d s1 s2 -> rn s1 0 <> 10%N -> MS d endm1 endm2 ->
  bwp (plain_go sops F1 indent start1 f1 acc lb tb ws endm1) (plain_go sops F2 indent start2 f2 acc lb tb ws endm2)
      (bpost d PR) s1 s2.
Proof.
  intros HS. induction f1 as [|f1 IH]; intros f2 acc lb tb ws endm1 endm2 s1 s2 H N0 HE; [exact I|].
  destruct f2 as [|f2]; [apply bwp_oof_r|]. cbn [plain_go].
  apply bwp_bind. apply (bwp_look d); [exact H|]. intros u1 u2 HU RU _ _ _ _.
  assert (NU : rn u1 0 <> 10%N) by (rewrite (rn_eq u1 s1 0 RU); exact N0).
  apply bwp_bind. apply bwp_get. cbv beta. sh_sync HU.
  apply bwp_bind.
  match goal with |- swp _ _ _ ?Q _ _ => assert (HQ : forall di, Q di u1 di u2) end.
  2:{ destruct (sc_lws u1 && (m_col (sc_mark u1) =? 0)%N);
      [apply (bwp_next_is_document_indicator d); [exact HU|apply HQ] | apply bwp_ret; exact (HQ false)]. }
  intros di. cbv beta.
  apply bwp_bind. apply (bwp_peek d); [exact HU|]. cbv beta. rewrite (b1_other _ NU).
  destruct (di || (rn u1 0 =? 35)%N); [apply (bwp_ret_bpost d); [split; [reflexivity|exact HE]|exact HU]|].
  apply bwp_bind. apply (bwp_peekn d); [exact HU|apply noLF_1; exact NU|]. cbv beta zeta. b1_norm.
  match goal with |- swp _ (if ?b then _ else _) _ _ _ _ => destruct b end; [apply (bwp_fail_mark d); exact HU|].
  apply bwp_bind.
  match goal with |- swp _ _ _ ?Q _ _ => assert (HQ : forall cb, Q cb u1 cb u2) end.
  2:{ destruct (is_blank_or_breakz (rn u1 0));
      [apply bwp_ret; exact (HQ false) | apply (bwp_next_can_be_plain_scalar d); [exact HU|exact NU|apply HQ]]. }
  intros cb. cbv beta.
  apply bwp_bind.
  (* what happens after the word has been consumed *)
  match goal with |- swp _ _ _ ?Q _ _ =>
    assert (HQ : forall r m1 m2 v1 v2, SH d v1 v2 -> MS d m1 m2 -> Q (r, m1) v1 (r, m2) v2) end.
  { intros [[[acc' lb'] tb'] ws'] m1 m2 v1 v2 HV HM. cbv beta iota.
    apply bwp_bind. apply (bwp_peek d); [exact HV|]. cbv beta. b1_norm.
    destruct (negb (is_blank (rn v1 0) || is_break (rn v1 0)));
      [apply (bwp_ret_bpost d); [split; [reflexivity|exact HM]|exact HV]|].
    apply bwp_bind. apply (bwp_look d); [exact HV|]. intros w1 w2 HW _ _ _ _ _.
    eapply (bwp_call_al_eq d); [apply shf_plain_blanks; [exact HW|exact HS]|]. intros [[lb2 tb2] ws2] x1 x2 HX NX.
    cbv beta iota.
    apply bwp_bind. apply bwp_get. cbv beta. sh_sync HX.
    match goal with |- swp _ (if ?b then _ else _) _ _ _ _ => destruct b end;
      [apply (bwp_ret_bpost d); [split; [reflexivity|exact HM]|exact HX]|].
    apply IH; assumption. }
  destruct cb; [|apply bwp_ret; exact (HQ (acc, lb, tb, ws) endm1 endm2 u1 u2 HU HE)].
  match goal with |- swp _ _ _ ?Q' _ _ =>
    assert (HW : forall a1 l1 t1 w1,
      bwp (modify (set_lws false) ;;; skip_non_blank sops ;;; look sops (bufmaxlen sops) ;;;
           acc0 <- plain_chunk sops F1 0 (rn u1 0 :: a1) ;; m <- mark ;; ret (acc0, l1, t1, w1, m))
          (modify (set_lws false) ;;; skip_non_blank sops ;;; look sops (bufmaxlen sops) ;;;
           acc0 <- plain_chunk sops F2 0 (rn u1 0 :: a1) ;; m <- mark ;; ret (acc0, l1, t1, w1, m)) Q' u1 u2) end.
  { intros a1 l1 t1 w1.
    apply bwp_bind. apply (bwp_modify_br d); [apply SH_set_lws; exact HU|reflexivity|]. intros v1 v2 HV RV.
    assert (NV : rn v1 0 <> 10%N) by (rewrite (rn_eq v1 u1 0 RV); exact NU).
    apply bwp_bind. apply (bwp_skip_non_blank d); [exact HV|exact NV|]. intros x1 x2 HX _.
    apply bwp_bind. apply (bwp_look d); [exact HX|]. intros y1 y2 HY _ _ _ _ _.
    eapply (bwp_call_eq d); [apply shf_plain_chunk; exact HY|]. intros acc1 z1 z2 HZ.
    apply bwp_bind. apply (bwp_mark d); [exact HZ|]. intros HM. apply bwp_ret.
    exact (HQ (acc1, l1, t1, w1) _ _ z1 z2 HZ HM). }
  destruct (sc_lws u1); [destruct (negb lb); [|destruct (tb =? 0)%N]|]; exact (HW _ _ _ _).
Qed.

(* ---------------- the contract ---------------- *)
Theorem scan_plain_scalar_ok : shf_scan_plain_scalar d.
Proof.
  unfold shf_scan_plain_scalar. intros F1 F2 s1 s2 H N0.
  rewrite (scan_plain_scalar_eq sops F1), (scan_plain_scalar_eq sops F2).
  apply bwp_bind. apply (bwp_unroll_non_block_indents d); [exact H|]. intros u1 u2 HU RU.
  assert (NU : rn u1 0 <> 10%N) by (rewrite (rn_eq u1 s1 0 RU); exact N0).
  apply bwp_bind. apply bwp_get. cbv beta zeta. sh_sync HU.
  match goal with |- swp _ (if ?b then _ else _) _ _ _ _ => destruct b end; [apply (bwp_fail_mark d); exact HU|].
  eapply (bwp_call d); [apply shf_plain_go; [exact (sh_mark HU)|exact HU|exact NU|exact (sh_mark HU)]|].
  intros r1 r2 v1 v2 [EF ME] HV.
  apply bwp_bind. apply bwp_get. cbv beta. sh_sync HV.
  apply bwp_bind.
  match goal with |- swp _ _ _ ?Q _ _ => assert (HQ : forall w1 w2, SH d w1 w2 -> Q tt w1 tt w2) end.
  { intros w1 w2 HW. cbv beta. rewrite <- EF. destruct (fst r1); [apply bwp_fail; exact (sh_mark HU)|].
    apply (bwp_ret_bpost d); [|exact HW]. apply TS_mk. apply SPS_mk; [exact (sh_mark HU)|exact ME]. }
  destruct (sc_lws v1).
  - apply (bwp_allow_simple_key d); [exact HV|]. intros w1 w2 HW _. apply HQ. exact HW.
  - apply bwp_ret. apply HQ. exact HV.
Qed.

End BrkPlain.

Print Assumptions scan_plain_scalar_ok.
