(* Joint proof "every position reported is a true position" (see SCANPOS.md), parser half - no scanner reasoning:
   every span the parser attaches to an event, and every marker of a parser error, is taken from the markers of the
   tokens it is given ([p_toks], the cached [p_token]) or from a marker it stored in its state
   ([SFlowSequenceEntryMappingEnd m], itself a token marker).  Hence: if all token markers are true marks, so are
   both markers of every event span and the marker of a parser error; lifted to [parse_all]. *)
From Coq Require Import List NArith Bool Lia.
Import ListNotations.
Require Import SBase SPrim SFetch Pipe Positions ScanPos.
Require Import Parser.

(* the markers of a token list *)
Definition marks_of_tokens (l : list token) : list marker :=
  flat_map (fun t => [sp_start (fst t); sp_end (fst t)]) l.

Ltac pfields :=
  cbn [p_toks p_token p_states p_state p_anchors p_anchor_id p_tags p_keep_tags
       skip set_tok set_state set_states push_state set_anchors set_tags fst snd] in *.

Ltac psplit := repeat match goal with |- _ /\ _ => split end.

Section PosParse.
Variable orig : list N.
Notation tmark := (true_mark orig).
Notation tspan := (true_span orig).
Notation ttok := (true_tok orig).

Lemma marks_of_tokens_true l : Forall tmark (marks_of_tokens l) <-> Forall ttok l.
Proof.
  induction l as [|t l IH]; cbn [marks_of_tokens flat_map app]; [split; constructor|]. fold (marks_of_tokens l). split.
  - intros H. inversion H as [|a l1 Ha H1]; subst. inversion H1 as [|b l2 Hb H2]; subst.
    constructor; [split; assumption|apply IH; exact H2].
  - intros H. inversion H as [|a l1 [Ha Hb] H1]; subst. constructor; [exact Ha|]. constructor; [exact Hb|]. apply IH; exact H1.
Qed.

(* markers stored in parser states *)
Definition st_ok (st : pstate) : Prop :=
  match st with SFlowSequenceEntryMappingEnd m => tmark m | _ => True end.

(* every marker the parser holds - in the tokens still to come, the cached token, the current state and the state
   stack - is a true mark *)
Definition ParInv (p : parser) : Prop :=
  Forall ttok (p_toks p) /\ (forall t, p_token p = Some t -> ttok t) /\ st_ok (p_state p) /\ Forall st_ok (p_states p).

Definition epost (r : res ((event * span) * parser)) : Prop :=
  match r with Ok ((_, sp), q) => tspan sp /\ ParInv q | Err (PErr _ m) => tmark m | _ => True end.
Definition qpost (r : res parser) : Prop :=
  match r with Ok q => ParInv q | Err (PErr _ m) => tmark m | _ => True end.
Definition npost (r : res (N * option tag * parser)) : Prop :=
  match r with Ok (_, _, q) => ParInv q | Err (PErr _ m) => tmark m | _ => True end.

Lemma peek_inv p : ParInv p ->
  match peek p with
  | Ok (t, q) => (tmark (sp_start (fst t)) /\ tmark (sp_end (fst t))) /\ ParInv q
  | Err PErrScan => True
  | Err (PErr _ _) => False
  | Panic _ => False
  end.
Proof.
  intros (HT & HC & HS & HK). unfold peek. destruct (p_token p) as [t|] eqn:E.
  - split; [apply (HC t eq_refl)|]. unfold ParInv. rewrite E. psplit; assumption.
  - destruct (p_toks p) as [|t r] eqn:ET; [exact I|]. inversion HT as [|t0 r0 Ht Hr]; subst.
    split; [exact Ht|]. unfold ParInv. pfields. psplit; try assumption. intros t1 Et. injection Et as <-. exact Ht.
Qed.

Lemma pop_inv p : ParInv p -> match pop_state p with Ok q => ParInv q | Err _ => False | Panic _ => True end.
Proof.
  intros (HT & HC & HS & HK). unfold pop_state. destruct (p_states p) as [|s r] eqn:E; [exact I|].
  inversion HK; subst. unfold ParInv. pfields. psplit; assumption.
Qed.

(* ParInv of a parser built from setters over a parser whose invariant is in the context (destructed) *)
Ltac pinv :=
  first [ assumption
        | unfold ParInv; pfields;
          repeat match goal with |- _ /\ _ => split end;
          first [ assumption | exact I | (intros ? ?; discriminate) | (constructor; first [assumption | exact I])
                | (constructor; [first [assumption | exact I]|constructor; first [assumption | exact I]]) ] ].

Ltac rd := cbv beta iota zeta.

(* the computation at the head of the goal (through the discriminees of the [do] matches) *)
Ltac head_call t k :=
  lazymatch t with
  | match ?d with Ok _ => _ | Err _ => _ | Panic _ => _ end => head_call d k
  | _ => k t
  end.
(* destruct the [peek] at the head of the goal *)
Ltac ppeek_at q :=
  let HP := fresh "HP" in let W := fresh "W" in
  assert (HP : ParInv q) by pinv;
  pose proof (peek_inv q HP) as W; clear HP;
  let sp := fresh "sp" in let tk := fresh "tk" in let q' := fresh "q" in
  let Hs := fresh "Hs" in let He := fresh "He" in
  let HT := fresh "HT" in let HC := fresh "HC" in let HS := fresh "HS" in let HK := fresh "HK" in
  destruct (peek q) as [[[sp tk] q']|[|? ?]|?];
  [ destruct W as ((Hs & He) & (HT & HC & HS & HK)); cbn [fst] in Hs, He; rd
  | exact I | contradiction | contradiction ].
Ltac ppeek :=
  lazymatch goal with
  | |- ?P ?t => head_call t ltac:(fun c => lazymatch c with peek ?q => ppeek_at q end)
  end.
Ltac ppop_at q :=
  let HP := fresh "HP" in let W := fresh "W" in
  assert (HP : ParInv q) by pinv;
  pose proof (pop_inv q HP) as W; clear HP;
  let q' := fresh "q" in
  let HT := fresh "HT" in let HC := fresh "HC" in let HS := fresh "HS" in let HK := fresh "HK" in
  destruct (pop_state q) as [q'|?|?];
  [ destruct W as (HT & HC & HS & HK); rd | contradiction | exact I ].
Ltac ppop :=
  lazymatch goal with
  | |- ?P ?t => head_call t ltac:(fun c => lazymatch c with pop_state ?q => ppop_at q end)
  end.
(* destruct the token kind the head of the goal dispatches on *)
Ltac dtk :=
  lazymatch goal with
  | |- ?P ?t => head_call t ltac:(fun c => lazymatch c with match ?x with TStreamStart => _ | _ => _ end => destruct x end)
  end.
(* an event with its span and the next parser state, or an error at a token marker *)
Ltac leaf :=
  rd;
  first [ exact I
        | assumption
        | (cbn [epost qpost npost]; first [assumption | split; [split; assumption|pinv] | pinv]) ].

Lemma resolve_tag_ok p m h s : tmark m -> match resolve_tag p m h s with Err (PErr _ m') => tmark m' | _ => True end.
Proof.
  intros Hm. unfold resolve_tag. destruct (str_eqb h [bang; bang]); [exact I|].
  destruct (_ && _); [exact I|]. destruct (assoc h (p_tags p)); [exact I|]. destruct (is_named_handle h); [exact Hm|exact I].
Qed.
Ltac ptag :=
  match goal with
  | |- context [resolve_tag ?q ?m ?h ?s] =>
      let W := fresh "W" in
      assert (W : match resolve_tag q m h s with Err (PErr _ m') => tmark m' | _ => True end) by (apply resolve_tag_ok; assumption);
      destruct (resolve_tag q m h s) as [?|[|? ?]|?]; rd; [ | exact I | exact W | exact I ]
  end.

Lemma node_props_ok p t :
  ParInv p -> tmark (sp_start (fst t)) -> npost (node_props p t).
Proof.
  intros (HT & HC & HS & HK) Hm. unfold node_props, register_anchor. destruct t as [sp tk]. cbn [fst] in Hm.
  dtk; try solve [leaf].
  - rd. ppeek. dtk; try solve [leaf]. ptag. leaf.
  - rd. ptag. ppeek. dtk; solve [leaf].
Qed.

Lemma empty_or_err_ok p aid tg sp : ParInv p -> tspan sp -> epost (empty_or_err p aid tg sp).
Proof.
  intros (HT & HC & HS & HK) [Hs He]. unfold empty_or_err. destruct (has_props aid tg); [|exact Hs].
  ppop. leaf.
Qed.

Lemma node_content_ok p aid tg b i : ParInv p -> epost (node_content p aid tg b i).
Proof.
  intros (HT & HC & HS & HK). unfold node_content. ppeek.
  dtk; try destruct i; try destruct b;
    first [ solve [leaf] | (apply empty_or_err_ok; [pinv|split; assumption]) | (ppop; solve [leaf]) ].
Qed.

Lemma parse_node_ok p b i : ParInv p -> epost (parse_node p b i).
Proof.
  intros (HT & HC & HS & HK). unfold parse_node. ppeek.
  dtk;
    try (match goal with
         | |- context [node_props ?q ?t] =>
             let W := fresh "W" in
             assert (W : npost (node_props q t)) by (apply node_props_ok; [pinv|assumption]);
             destruct (node_props q t) as [[[aid tg] q2]|[|? ?]|?]; rd; [apply node_content_ok; exact W|exact I|exact W|exact I]
         end).
  ppop. pfields. destruct (assoc n _); solve [leaf].
Qed.

Lemma stream_start_ok p : ParInv p -> epost (stream_start p).
Proof. intros (HT & HC & HS & HK). unfold stream_start. ppeek. dtk; solve [leaf]. Qed.

Lemma process_directives_ok fuel : forall p vs tags, ParInv p -> qpost (process_directives fuel p vs tags).
Proof.
  induction fuel as [|fuel IH]; intros p vs tags (HT & HC & HS & HK); [exact I|].
  cbn [process_directives]. ppeek. dtk; try solve [leaf].
  - destruct vs; [exact Hs|]. apply IH. pinv.
  - destruct (_ && _); [exact Hs|]. apply IH. pinv.
Qed.
Lemma skip_document_ends_ok fuel : forall p, ParInv p -> qpost (skip_document_ends fuel p).
Proof.
  induction fuel as [|fuel IH]; intros p (HT & HC & HS & HK); [exact I|].
  cbn [skip_document_ends]. ppeek. dtk; try solve [leaf]. apply IH. pinv.
Qed.
(* destruct a call whose result is a parser *)
Ltac pcallq lem :=
  match goal with
  | |- context [match ?c with Ok _ => _ | Err _ => _ | Panic _ => _ end] =>
      let W := fresh "W" in
      assert (W : qpost c) by (apply lem; pinv);
      let q' := fresh "q" in
      let HT := fresh "HT" in let HC := fresh "HC" in let HS := fresh "HS" in let HK := fresh "HK" in
      destruct c as [q'|[|? ?]|?]; rd; [ destruct W as (HT & HC & HS & HK) | exact I | exact W | exact I ]
  end.

Lemma explicit_document_start_ok p : ParInv p -> epost (explicit_document_start p).
Proof.
  intros (HT & HC & HS & HK). unfold explicit_document_start. pcallq process_directives_ok.
  ppeek. dtk; solve [leaf].
Qed.

Lemma document_start_ok p implicit : ParInv p -> epost (document_start p implicit).
Proof.
  intros (HT & HC & HS & HK). unfold document_start. pcallq skip_document_ends_ok.
  ppeek.
  dtk; try solve [leaf]; try (apply explicit_document_start_ok; pinv);
    (destruct implicit; [|apply explicit_document_start_ok; pinv]); pcallq process_directives_ok; solve [leaf].
Qed.

Lemma document_content_ok p : ParInv p -> epost (document_content p).
Proof.
  intros (HT & HC & HS & HK). unfold document_content. ppeek.
  dtk; first [ apply parse_node_ok; pinv | (ppop; solve [leaf]) ].
Qed.

Lemma document_end_ok p : ParInv p -> epost (document_end p).
Proof.
  intros (HT & HC & HS & HK). unfold document_end. ppeek.
  destruct tk; rd; destruct (p_keep_tags _); rd; try solve [leaf]; (ppeek; dtk; solve [leaf]).
Qed.

Ltac pnode := apply parse_node_ok; pinv.
(* finish a branch: an event / an error / a node / a pop, possibly after one or two more token dispatches *)
Ltac fin1 := rd; first [ solve [leaf] | pnode | (ppop; solve [leaf]) ].
Ltac fin2 := first [ fin1 | (ppeek; dtk; fin1) ].
Ltac fin3 := first [ fin2 | (ppeek; dtk; fin2) ].

Lemma block_mapping_key_ok p first : ParInv p -> epost (block_mapping_key p first).
Proof.
  intros (HT & HC & HS & HK). unfold block_mapping_key. destruct first; rd; [ppeek|]; ppeek; dtk; fin2.
Qed.

Lemma block_mapping_value_ok p : ParInv p -> epost (block_mapping_value p).
Proof. intros (HT & HC & HS & HK). unfold block_mapping_value. ppeek. dtk; fin2. Qed.

Lemma flow_mapping_key_ok p first : ParInv p -> epost (flow_mapping_key p first).
Proof.
  intros (HT & HC & HS & HK). unfold flow_mapping_key. destruct first; rd.
  - ppeek. ppeek. dtk; fin3.
  - ppeek. dtk; try fin1; (ppeek; dtk; fin3).
Qed.

Lemma flow_mapping_value_ok p empty : ParInv p -> epost (flow_mapping_value p empty).
Proof.
  intros (HT & HC & HS & HK). unfold flow_mapping_value. destruct empty; ppeek; [solve [leaf]|]. dtk; fin2.
Qed.

Lemma flow_sequence_entry_ok p first : ParInv p -> epost (flow_sequence_entry p first).
Proof.
  intros (HT & HC & HS & HK). unfold flow_sequence_entry. destruct first; rd; [ppeek|]; ppeek; dtk; fin2.
Qed.

Lemma indentless_sequence_entry_ok p : ParInv p -> epost (indentless_sequence_entry p).
Proof. intros (HT & HC & HS & HK). unfold indentless_sequence_entry. ppeek. dtk; fin2. Qed.

Lemma block_sequence_entry_ok p first : ParInv p -> epost (block_sequence_entry p first).
Proof.
  intros (HT & HC & HS & HK). unfold block_sequence_entry. destruct first; rd; [ppeek|]; ppeek; dtk; fin2.
Qed.

Lemma flow_sequence_entry_mapping_key_ok p : ParInv p -> epost (flow_sequence_entry_mapping_key p).
Proof. intros (HT & HC & HS & HK). unfold flow_sequence_entry_mapping_key. ppeek. dtk; fin1. Qed.

Lemma flow_sequence_entry_mapping_value_ok p : ParInv p -> epost (flow_sequence_entry_mapping_value p).
Proof. intros (HT & HC & HS & HK). unfold flow_sequence_entry_mapping_value. ppeek. dtk; fin2. Qed.

(* one step of the parser: the event's span and the error marker are true marks, the invariant is kept *)
Theorem state_machine_ok p : ParInv p -> epost (state_machine p).
Proof.
  intros HP. unfold state_machine. destruct (p_state p) eqn:ES;
    first [ exact I
          | apply stream_start_ok; exact HP | apply document_start_ok; exact HP | apply document_content_ok; exact HP
          | apply document_end_ok; exact HP | apply parse_node_ok; exact HP
          | apply block_mapping_key_ok; exact HP | apply block_mapping_value_ok; exact HP
          | apply block_sequence_entry_ok; exact HP | apply flow_sequence_entry_ok; exact HP
          | apply flow_mapping_key_ok; exact HP | apply flow_mapping_value_ok; exact HP
          | apply indentless_sequence_entry_ok; exact HP | apply flow_sequence_entry_mapping_key_ok; exact HP
          | apply flow_sequence_entry_mapping_value_ok; exact HP
          | idtac ].
  destruct HP as (HT & HC & HS & HK). rewrite ES in HS. cbn [st_ok] in HS.
  unfold flow_sequence_entry_mapping_end. cbn [epost]. split; [split; exact HS|]. pinv.
Qed.

Definition ev_ok (es : event * span) : Prop := tspan (snd es).

Lemma parse_all_pos : forall fuel p se acc,
  ParInv p -> (forall site m, se = SError site m -> tmark m) -> Forall ev_ok acc ->
  let '(evs, r) := parse_all fuel p se acc in
  Forall ev_ok evs
  /\ (forall site m, r = PScanErr site m -> site <> 0%N -> tmark m)
  /\ (forall site m, r = PParseErr site m -> tmark m).
Proof.
  induction fuel as [|fuel IH]; intros p se acc HP HSE HA; cbn [parse_all].
  - split; [apply Forall_rev; exact HA|]. split; intros; discriminate.
  - assert (HB : let '(evs, r) :=
                   match state_machine p with
                   | Ok (ev, p') => parse_all fuel p' se (ev :: acc)
                   | Err PErrScan =>
                       (rev acc, match se with
                                 | SError s m => PScanErr s m
                                 | SPanic n => PPanic n
                                 | SFuel => PFuel
                                 | SEnded => PScanErr 0 {| m_index := 0; m_line := 0; m_col := 0 |}
                                 end)
                   | Err (PErr s m) => (rev acc, PParseErr s m)
                   | Panic n => (rev acc, PPanic n)
                   end in
                 Forall ev_ok evs
                 /\ (forall site m, r = PScanErr site m -> site <> 0%N -> tmark m)
                 /\ (forall site m, r = PParseErr site m -> tmark m)).
    { pose proof (state_machine_ok p HP) as W.
      destruct (state_machine p) as [[[ev sp] p']|[|s m]|n]; cbn [epost] in W.
      - destruct W as [Wsp WP]. apply IH; [exact WP|exact HSE|]. constructor; [exact Wsp|exact HA].
      - destruct se as [|s0 m0| |]; (split; [apply Forall_rev; exact HA|]); (split; [|intros; discriminate]);
          intros st1 mk1 E Hne; try discriminate E.
        + injection E as <- _. congruence.
        + injection E as _ <-. eapply HSE; reflexivity.
      - split; [apply Forall_rev; exact HA|]. split; [intros; discriminate|]. intros site m0 E. injection E as _ <-. exact W.
      - split; [apply Forall_rev; exact HA|]. split; intros; discriminate. }
    destruct (p_state p); try exact HB.
    split; [apply Forall_rev; exact HA|]. split; intros; discriminate.
Qed.

(* the initial parser over a token list whose markers are all true marks *)
Lemma parinv_init toks :
  Forall tmark (marks_of_tokens toks) ->
  ParInv {| p_toks := toks; p_token := None; p_states := []; p_state := SStreamStart;
            p_anchors := []; p_anchor_id := 1%N; p_tags := []; p_keep_tags := false |}.
Proof.
  intros H. apply marks_of_tokens_true in H. unfold ParInv. pfields. psplit; [exact H|intros; discriminate|exact I|constructor].
Qed.

Theorem parse_all_true_positions : forall fuel toks se,
  Forall tmark (marks_of_tokens toks) -> (forall site m, se = SError site m -> tmark m) ->
  let '(evs, r) := parse_all fuel {| p_toks := toks; p_token := None; p_states := []; p_state := SStreamStart;
                                    p_anchors := []; p_anchor_id := 1%N; p_tags := []; p_keep_tags := false |} se [] in
  Forall (fun es => true_span orig (snd es)) evs
  /\ (forall site m, r = PScanErr site m -> site <> 0%N -> tmark m)
  /\ (forall site m, r = PParseErr site m -> tmark m).
Proof.
  intros fuel toks se HT HSE. apply (parse_all_pos fuel _ se []); [apply parinv_init; exact HT|exact HSE|constructor].
Qed.

End PosParse.

Print Assumptions state_machine_ok.
Print Assumptions parse_all_true_positions.
