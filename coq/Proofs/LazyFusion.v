(* C17, fusion: the lazy pipeline (Model/Lazy.v: the parser pulls tokens from the scanner on demand) delivers exactly
   what the batch pipeline (Model/Pipe.v: all tokens first, then the parser) delivers - events, spans, verdict.

   [Scans F s toks se]: from scanner state [s] the iterator hands out [toks] and then ends with [se] (the fuel-free
   reading of [scan_all]).  Invariant of the fusion: the batch parser is the lazy parser with the tokens the scanner
   will still deliver appended ([ext toks p], Proofs/ScanRelTop.v), and a step of the state machine either asks for a
   token beyond the end of its list or does the same on every extension ([state_machine_ext]). *)
From Coq Require Import List NArith ZArith Bool Arith Lia.
Import ListNotations.
Require Import Parser SBase SPrim SDir SScalar SFetch Pipe PushLoad Lazy ScanRelTop ScanFuelTop ScanFuelAll.
Local Open Scope nat_scope.

Inductive Scans (F : nat) : sc strin -> list token -> scan_end -> Prop :=
| ScEnd s s' : next_token str_ops F s = SBase.Ok (None, s') -> Scans F s [] SEnded
| ScErr s e m : next_token str_ops F s = SBase.Err e m -> Scans F s [] (SError e m)
| ScPanic s n : next_token str_ops F s = SBase.Panic n -> Scans F s [] (SPanic n)
| ScTok s t s' toks se : next_token str_ops F s = SBase.Ok (Some t, s') -> Scans F s' toks se -> Scans F s (t :: toks) se.

Lemma scan_all_Scans F : forall n s acc l se,
  scan_all str_ops F n s acc = (l, se) -> se <> SFuel -> exists toks, l = rev acc ++ toks /\ Scans F s toks se.
Proof.
  induction n as [|n IH]; intros s acc l se E NF; cbn [scan_all] in E.
  - inversion E; subst. congruence.
  - destruct (next_token str_ops F s) as [[[t|] s']|e m|k|] eqn:EN.
    + destruct (IH _ _ _ _ E NF) as (toks & -> & HS). exists (t :: toks). split.
      * cbn [rev]. rewrite <- app_assoc. reflexivity.
      * eapply ScTok; eauto.
    + inversion E; subst. exists []. rewrite app_nil_r. split; [reflexivity|]. eapply ScEnd; eauto.
    + inversion E; subst. exists []. rewrite app_nil_r. split; [reflexivity|]. eapply ScErr; eauto.
    + inversion E; subst. exists []. rewrite app_nil_r. split; [reflexivity|]. eapply ScPanic; eauto.
    + inversion E; subst. congruence.
Qed.

(* how the parser reports the way the scanner ended (Pipe.parse_all) *)
Definition verdict (se : scan_end) : pend :=
  match se with
  | SError s m => PScanErr s m
  | SPanic n => PPanic n
  | SFuel => PFuel
  | SEnded => PScanErr 0 {| m_index := 0; m_line := 0; m_col := 0 |}
  end.

Lemma ext_nil p : ext [] p = p.
Proof. destruct p. unfold ext, set_tok. cbn. rewrite app_nil_r. reflexivity. Qed.
Lemma ext_feed t toks p : ext toks (feed t p) = ext (t :: toks) p.
Proof. unfold ext, feed, set_tok. cbn. rewrite <- app_assoc. reflexivity. Qed.
Lemma ext_ext x y p : ext y (ext x p) = ext (x ++ y) p.
Proof. unfold ext, set_tok. cbn. rewrite <- app_assoc. reflexivity. Qed.

Lemma scan_next_token_tok F s t s' : next_token str_ops F s = SBase.Ok (Some t, s') -> scan_next_token F s = inl (t, s').
Proof. unfold scan_next_token. intros ->. reflexivity. Qed.

Lemma lazy_sm_S k F s p :
  lazy_sm (S k) F s p =
  match state_machine p with
  | Parser.Ok (ev, p') => inl (ev, {| lz_sc := s; lz_p := p' |})
  | Parser.Err PErrScan => match scan_next_token F s with
                           | inl (t, s') => lazy_sm k F s' (feed t p)
                           | inr e => inr e
                           end
  | Parser.Err (PErr site m) => inr (PParseErr site m)
  | Parser.Panic n => inr (PPanic n)
  end.
Proof. reflexivity. Qed.

(* one step *)
Definition fuse_post F (se : scan_end) (n : nat) (r : res ((event * span) * parser)) (l : ((event * span) * lz) + pend) : Prop :=
  match r with
  | Parser.Ok (ev, q) => exists s' p' toks', l = inl (ev, {| lz_sc := s'; lz_p := p' |}) /\ q = ext toks' p'
                                             /\ Scans F s' toks' se /\ length toks' <= n
  | Parser.Err PErrScan => l = inr (verdict se)
  | Parser.Err (PErr a m) => l = inr (PParseErr a m)
  | Parser.Panic n => l = inr (PPanic n)
  end.

Lemma fuse_local F se s toks p k :
  Scans F s toks se -> state_machine p <> Parser.Err PErrScan ->
  fuse_post F se (length toks) (state_machine (ext toks p)) (lazy_sm (S k) F s p).
Proof.
  intros HS NE. rewrite lazy_sm_S. pose proof (state_machine_ext toks p) as HX.
  destruct (state_machine p) as [[ev q]|[|a m]|n]; cbn [rsimG] in HX; [|congruence| |]; rewrite HX; cbn [fuse_post pe fst snd].
  - exists s, q, toks. repeat split; auto.
  - reflexivity.
  - reflexivity.
Qed.

Lemma perrscan_dec {T} (r : res T) : r <> Parser.Err PErrScan \/ r = Parser.Err PErrScan.
Proof. destruct r as [v|[|a m]|n]; [left; discriminate|right; reflexivity|left; discriminate|left; discriminate]. Qed.

Lemma lazy_sm_fuse F s toks se : Scans F s toks se -> forall k p, length toks < k ->
  fuse_post F se (length toks) (state_machine (ext toks p)) (lazy_sm k F s p).
Proof.
  induction 1 as [s s' E|s e m E|s n E|s t s' toks se E HS IH]; intros k p HK; (destruct k as [|k]; [cbn [length] in HK; lia|]);
    (destruct (perrscan_dec (state_machine p)) as [NE|ESM]; [apply fuse_local; [econstructor; eauto|exact NE]|]).
  1-3: rewrite ext_nil, lazy_sm_S, ESM; unfold scan_next_token; rewrite E; reflexivity.
  rewrite lazy_sm_S, ESM, (scan_next_token_tok _ _ _ _ E). rewrite <- ext_feed.
  cbn [length] in HK. specialize (IH k (feed t p) ltac:(lia)).
  destruct (state_machine (ext toks (feed t p))) as [[ev q]|[|a m]|n']; cbn [fuse_post] in *; auto.
  destruct IH as (s2 & p2 & toks2 & A & B & C & D). exists s2, p2, toks2. repeat split; auto. cbn [length]. lia.
Qed.

(* whole runs *)
Lemma lazy_run_fuse F se : forall fuel k toks s p acc, Scans F s toks se -> length toks < k ->
  lazy_run fuel k F {| lz_sc := s; lz_p := p |} acc = parse_all fuel (ext toks p) se acc.
Proof.
  induction fuel as [|fuel IH]; intros k toks s p acc HS HK; [reflexivity|].
  cbn [lazy_run parse_all lz_p lz_sc]. rewrite p_state_ext. unfold lazy_step. cbn [lz_p lz_sc].
  pose proof (lazy_sm_fuse F s toks se HS k p HK) as HF.
  assert (G : match lazy_sm k F s p with
              | inl (ev, z') => lazy_run fuel k F z' (ev :: acc)
              | inr e => (rev acc, e)
              end
              = match state_machine (ext toks p) with
                | Parser.Ok (ev, p') => parse_all fuel p' se (ev :: acc)
                | Parser.Err PErrScan =>
                    (rev acc, match se with
                              | SError s m => PScanErr s m
                              | SPanic n => PPanic n
                              | SFuel => PFuel
                              | SEnded => PScanErr 0 {| m_index := 0; m_line := 0; m_col := 0 |}
                              end)
                | Parser.Err (PErr s m) => (rev acc, PParseErr s m)
                | Parser.Panic n => (rev acc, PPanic n)
                end).
  { destruct (state_machine (ext toks p)) as [[ev q]|[|a m]|n]; cbn [fuse_post] in HF.
    - destruct HF as (s2 & p2 & toks2 & -> & -> & C & D). apply IH; [exact C|lia].
    - rewrite HF. reflexivity.
    - rewrite HF. reflexivity.
    - rewrite HF. reflexivity. }
  destruct (p_state p); try exact G. reflexivity.
Qed.

(* the tokens of a whole text *)
Lemma scans_of_text orig :
  let F := 2 * length orig + 10 in
  exists toks se, scan_all str_ops F (4 * F + 20) (init_sc {| si_chars := orig; si_look := 0 |}) [] = (toks, se)
                  /\ Scans F (init_sc {| si_chars := orig; si_look := 0 |}) toks se /\ length toks <= 4 * F + 20.
Proof.
  intros F. pose proof (scanner_never_out_of_fuel orig) as NF. cbv zeta in NF. fold F in NF.
  pose proof (scan_all_length str_ops F (4 * F + 20) (init_sc {| si_chars := orig; si_look := 0 |}) []) as HL.
  destruct (scan_all str_ops F (4 * F + 20) _ []) as [toks se] eqn:E. cbn [fst snd length] in *.
  destruct (scan_all_Scans F _ _ _ _ _ E NF) as (toks' & EQ & HS). cbn [rev app] in EQ. subst toks'.
  exists toks, se. repeat split; auto. lia.
Qed.

Theorem lazy_is_batch : forall text : list N, lazy_run_str text = run_str text.
Proof.
  intros text. unfold lazy_run_str, run_str, lazy_F, lazy_K, lz_init. cbv zeta.
  destruct (scans_of_text text) as (toks & se & E & HS & HL). cbv zeta in E, HS, HL. unfold chr in *. rewrite E.
  rewrite (lazy_run_fuse _ se _ _ toks _ _ _ HS); [reflexivity|unfold lazy_F; lia].
Qed.
