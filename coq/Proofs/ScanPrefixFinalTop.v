(* C15, text level, final form: the composition theorem with the two natural side conditions only.

     closed_flow_of_accepted    an accepted text ends its scan at flow level 0: its tokens are bracket-balanced (C06) and the
                                scanner's flow level is exactly the bracket depth of the tokens produced
                                (ScanPrefixFinalFlow.v)
     text_composition_final     ends_with_break A, nonul A, run_str A and run_str B accepted  =>  run_str (A "...\n" B) is
                                accepted with the events of A - StreamEnd followed by the events of B - StreamStart, anchor
                                ids renumbered
     text_composition_many      the same for any number of texts glued with "...\n" lines *)
From Coq Require Import List NArith ZArith Bool Arith Lia.
Import ListNotations.
Require Import Parser SBase SPrim SDir SScalar SFetch Pipe C02run DocRun DocShift DocIndep DocIndepRun DocScan LazyScan.
Require Import ScanShift ScanShiftTop ScanShiftDoc ScanPrefixDoc ScanPrefixFinalDoc.
Require ScanPrefix ScanPrefixTop RejectProofs ScanPrefixFinalFlow.
Local Open Scope nat_scope.

Lemma scan_last_eq F : forall n (s : bst), ScanPrefixTop.scan_last F n s = ScanPrefixFinalFlow.last_state sops F n s.
Proof.
  induction n as [|n IH]; intros s; [reflexivity|]. cbn [ScanPrefixTop.scan_last ScanPrefixFinalFlow.last_state].
  destruct (next_token sops F s) as [[[t|] s']| | |]; auto.
Qed.

Theorem closed_flow_of_accepted A evA : run_str A = (evA, PDone) -> closed_flow A.
Proof.
  intros HA. unfold closed_flow. rewrite scan_last_eq.
  destruct (accepted_tokens_wf A evA HA) as (ss & t & sps & ET & HSS & HNE).
  pose proof (accepted_scan_ended A evA HA) as HE.
  assert (HB : RejectProofs.flow_balanced (fst (str_scan A)) [] = true).
  { apply (RejectProofs.accepted_implies_balanced_proved _ false (snd (str_scan A)) (str_K A)).
    rewrite run_str_scan in HA. change (C02run.init_parser (fst (str_scan A)) false) with (start_parser (fst (str_scan A)) false).
    rewrite HA. reflexivity. }
  rewrite ET in HB.
  apply (ScanPrefixFinalFlow.balanced_flow_level_zero sops (str_F A) (4 * str_F A + 20) _ ss t sps); auto.
  unfold str_scan in ET, HE.
  destruct (scan_all sops (str_F A) (4 * str_F A + 20) (init_sc {| si_chars := A; si_look := 0 |}) []) as [toks se].
  cbn [fst snd] in ET, HE. subst. reflexivity.
Qed.

Theorem text_composition_final A B evA evB :
  ends_with_break A -> nonul A ->
  run_str A = (evA, PDone) -> run_str B = (evB, PDone) ->
  exists evC, run_str (glue_text A B) = (evC, PDone)
              /\ evs_of evC = removelast (evs_of evA) ++ map (shift_ev (count_anchored (evs_of evA))) (tl (evs_of evB)).
Proof.
  intros HE HN HA HB. exact (text_composition_spanfree A B evA evB HE HN (closed_flow_of_accepted A evA HA) HA HB).
Qed.

Print Assumptions closed_flow_of_accepted.
Print Assumptions text_composition_final.
