(* C15 prefix stability of the scanner (see ScanPrefix.v): the family of QUOTED (flow) SCALARS (Model/SScalar.v) under
   the state relation [SH d] of ScanPrefix.v.

     scan_flow_scalar_ok : forall d, shf_scan_flow_scalar d

   Port of ScanShiftFlow.v.  The new reasoning is the END OF INPUT of side 1: a quoted scalar must be closed by its
   quote, so side 1 can reach the end of its text only to fail: the main loop tests "next is NUL" (error 71) at the
   head of every iteration, before consume_nonws is entered; consume_nonws therefore runs inside side 1's text
   (invariant [rm s1 <> []]), and consumes only characters that are neither breaks nor NUL before it looks again,
   but for the escaped line break, after which it returns at once.  flow_blanks (blind classes only) may stop at the
   end of side 1; the next iteration of the main loop then fails on side 1 (no claim).  TWO fuels everywhere. *)
From Coq Require Import List NArith ZArith Bool Arith Lia.
Import ListNotations.
Require Import Parser SBase SPrim SDir SScalar SFetch ScanPrefix ScanPrefixPrim.
Local Open Scope nat_scope.

(* ---------------- the main loop of scan_flow_scalar as a top-level Fixpoint ---------------- *)
Section Loop.
Context {I : Type} (ops : InputOps I).
Local Open Scope N_scope.
Local Open Scope mon_scope.
Section Go.
Variables (F : nat) (single : bool) (start : marker).
Fixpoint bflow_go (f : nat) (acc : list chr) (lb : bool) (tb : N)
  (ws : list chr) : @M I (list chr) :=
  match f with
  | O => oof
  | S f =>
    look ops 4 ;;;
    s <- get ;;
    di <- (if m_col (sc_mark s) =? 0 then next_is_document_indicator ops else ret false) ;;
    if di then fail 70 start else
    z <- next_is ops is_z ;;
    if z then fail 71 start else
    lt <- col_lt_indent ;;
    if lt then fail 72 start else
    r <- consume_nonws ops F single acc start ;;
    let '(acc, lbl) := r in
    c <- look_ch ops ;;
    if (single && (c =? 39)) || (negb single && (c =? 34)) then ret acc
    else
      r <- flow_blanks ops F lbl lb tb ws ;;
      let '(lbl, lb, tb, ws) := r in
      if lbl then
        if negb lb then bflow_go f (nls tb acc) false 0 ws
        else if tb =? 0 then bflow_go f (32 :: acc) false 0 ws
        else bflow_go f (nls tb acc) false 0 ws
      else bflow_go f (ws ++ acc) lb tb []
  end.
End Go.

Lemma scan_flow_scalar_unfold_b F single :
  scan_flow_scalar ops F single =
  (start <- mark ;;
   skip_non_blank ops ;;;
   str <- bflow_go F single start F [] false 0 [] ;;
   skip_non_blank ops ;;;
   skip_ws_to_eol ops F SkipYes ;;;
   c <- peek ops ;; s <- get ;;
   let fl := 0 <? sc_flow_level s in
   if (((c =? 44) || (c =? 125) || (c =? 93)) && fl) || is_breakz c
      || ((c =? 58) && negb fl && (m_line start =? m_line (sc_mark s))) || ((c =? 58) && fl)
   then ret ({| sp_start := start; sp_end := sc_mark s |},
             TScalar (if single then SingleQuoted else DoubleQuoted) (rev str))
   else fail 74 (sc_mark s)).
Proof. reflexivity. Qed.
End Loop.

Lemma nbz_of_nbk_nz c : is_break c = false -> c <> 0%N -> nbz c.
Proof.
  intros HB HZ. unfold nbz, is_breakz. rewrite HB. cbn [orb]. unfold is_z. apply N.eqb_neq. exact HZ.
Qed.
Lemma atend_ne (s : bst) : rm s <> [] -> atend s = false.
Proof. unfold atend. destruct (rm s); [contradiction|reflexivity]. Qed.

Section BrkFlow.
Variable d : list chr.
Local Notation bwp := (swp d).

Ltac case_if E := match goal with |- swp _ (if ?b then _ else _) (if ?b then _ else _) _ _ _ => destruct b eqn:E end.

(* ---------------- escapes ---------------- *)
(* read_hex n i peeks at offsets i .. i+n-1 and does not touch the state; the offsets before i are neither breaks nor
   NUL, and a hex digit is neither (the same characters are read on both sides) *)
Lemma bwp_read_hex n : forall i acc st1 st2 (Q : N -> bst -> N -> bst -> Prop) s1 s2,
  SH d s1 s2 -> MS d st1 st2 -> noLF i (rm s1) ->
  (forall v, noLF (i + n) (rm s1) -> Q v s1 v s2) ->
  bwp (read_hex sops n i acc st1) (read_hex sops n i acc st2) Q s1 s2.
Proof.
  induction n as [|n IH]; intros i acc st1 st2 Q s1 s2 H HM HL HQ; cbn [read_hex].
  - apply bwp_ret. apply HQ. rewrite Nat.add_0_r. exact HL.
  - apply bwp_bind. apply (bwp_peekn d i); [exact H|exact HL|]. cbv beta. b1_norm.
    destruct (is_hex (rn s1 i)) eqn:Eh; [|apply bwp_fail; exact HM].
    assert (Ni : nbz (rn s1 i)) by (nbz_by Eh).
    rewrite (b1_nbz _ Ni).
    apply IH; [exact H|exact HM|apply noLF_S; [exact HL|exact Ni]|].
    intros v Hv. apply HQ. replace (i + S n) with (S i + n) by lia. exact Hv.
Qed.

(* resolve_escape: entered at [\] followed by a character that is not a line break (that arm came first); it
   consumes at least two characters, none of them a break or NUL: side 1 does not reach its end *)
Lemma bwp_resolve_escape st1 st2 (Q : chr -> bst -> chr -> bst -> Prop) s1 s2 :
  SH d s1 s2 -> MS d st1 st2 -> noLF 2 (rm s1) ->
  (forall r t1 t2, SH d t1 t2 -> rm t1 <> [] -> Q r t1 r t2) ->
  bwp (resolve_escape sops st1) (resolve_escape sops st2) Q s1 s2.
Proof.
  intros H HM HL HQ. unfold resolve_escape.
  assert (N1 : nbz (rn s1 1)) by (exact (HL 1 ltac:(lia))).
  apply bwp_bind. apply (bwp_peekn d 1); [exact H|apply (noLF_le 2); [exact HL|lia]|]. cbv beta.
  rewrite (b1_nbz _ N1).
  destruct (assocc (rn s1 1) escape_table) as [r|].
  - apply bwp_bind. apply (bwp_skip_n_non_blank d 2); [exact H|exact HL|lia|]. intros t1 t2 HT RT.
    apply bwp_ret. apply HQ; [exact HT|]. rewrite RT. apply (skipn_nonempty_of_noLF d s1 s2); [exact H|exact HL|lia].
  - cbv zeta. destruct (Nat.eqb (code_length (rn s1 1)) 0) eqn:Ecl; [apply bwp_fail; exact HM|].
    assert (Hcl : 0 < code_length (rn s1 1)) by (apply Nat.eqb_neq in Ecl; lia).
    apply bwp_bind. apply (bwp_skip_n_non_blank d 2); [exact H|exact HL|lia|]. intros u1 u2 HU _.
    apply bwp_bind. apply (bwp_look d); [exact HU|]. intros v1 v2 HV _ _ _ _ _.
    apply bwp_bind. apply bwp_read_hex; [exact HV|exact HM|apply noLF_0|]. intros v HLv. cbv beta.
    destruct (is_scalar_value v); [|apply bwp_fail; exact HM].
    apply bwp_bind. apply (bwp_skip_n_non_blank d); [exact HV|exact HLv|exact Hcl|]. intros t1 t2 HT RT.
    apply bwp_ret. apply HQ; [exact HT|]. rewrite RT. apply (skipn_nonempty_of_noLF d v1 v2); [exact HV|exact HLv|exact Hcl].
Qed.

(* ---------------- consume_flow_scalar_non_whitespace_chars ---------------- *)
(* entered inside side 1's text (the main loop has just seen that the next character is not NUL) *)
Lemma bwp_consume_nonws f1 : forall f2 single acc st1 st2
  (Q : list chr * bool -> bst -> list chr * bool -> bst -> Prop) s1 s2,
  SH d s1 s2 -> MS d st1 st2 -> rm s1 <> [] -> (forall r t1 t2, SH d t1 t2 -> Q r t1 r t2) ->
  bwp (consume_nonws sops f1 single acc st1) (consume_nonws sops f2 single acc st2) Q s1 s2.
Proof.
  induction f1 as [|f1 IH]; intros f2 single acc st1 st2 Q s1 s2 H HM NE0 HQ; [exact I|].
  destruct f2 as [|f2]; [apply bwp_oof_r|]. cbn [consume_nonws].
  apply bwp_bind. apply (bwp_look d); [exact H|]. intros u1 u2 HU RU _ _ _ _.
  assert (NE : rm u1 <> []) by (exact (SH_ne_eq s1 u1 NE0 RU)).
  apply bwp_bind. apply (bwp_peek d); [exact HU|]. cbv beta.
  rewrite (SH_b1_in d u1 u2 HU NE).
  destruct (is_blank_or_breakz (rn u1 0)) eqn:Ebb; [apply bwp_ret; apply HQ; exact HU|].
  (* the character is not blank/breakz: position 1 lies inside side 1's text *)
  assert (N0 : nbz (rn u1 0)) by (nbz_by Ebb).
  apply bwp_bind. apply (bwp_peekn_same d 1); [exact HU|apply noLF_1; exact N0|exact NE|]. intros NZ1. cbv beta.
  case_if E1.
  { (* '' in a single-quoted scalar *)
    assert (HL2 : noLF 2 (rm u1)).
    { apply noLF_S; [apply noLF_1; exact N0|].
      apply andb_true_iff in E1. destruct E1 as [E1 _]. apply andb_true_iff in E1. destruct E1 as [_ E1].
      exact (lit_eq_nbz (rn u1 1) 39%N eq_refl E1). }
    apply bwp_bind. apply (bwp_skip_n_non_blank d 2); [exact HU|exact HL2|lia|].
    intros v1 v2 HV RV. apply IH; [exact HV|exact HM| |exact HQ].
    rewrite RV. apply (skipn_nonempty_of_noLF d u1 u2); [exact HU|exact HL2|lia]. }
  case_if E2; [apply bwp_ret; apply HQ; exact HU|].
  case_if E3; [apply bwp_ret; apply HQ; exact HU|].
  destruct ((rn u1 0 =? 92)%N && negb single) eqn:E4; cbn [andb].
  - destruct (is_break (rn u1 1)) eqn:Ebk.
    + (* an escaped line break: [\] consumed in lockstep, then the break; then consume_nonws returns *)
      apply bwp_bind. apply (bwp_look d); [exact HU|]. intros v1 v2 HV RV _ _ _ _.
      apply bwp_bind. apply (bwp_skip_non_blank d); [exact HV|rewrite (rn_eq v1 u1 0 RV); exact N0|]. intros w1 w2 HW _.
      apply bwp_bind. apply (bwp_skip_linebreak d); [exact HW|]. intros x1 x2 HX _.
      apply bwp_ret. apply HQ. exact HX.
    + (* an escape sequence: the escape character is neither a line break nor NUL *)
      apply bwp_bind. apply bwp_resolve_escape; [exact HU|exact HM| |].
      * apply noLF_S; [apply noLF_1; exact N0|]. exact (nbz_of_nbk_nz _ Ebk NZ1).
      * intros r v1 v2 HV NEV. apply IH; [exact HV|exact HM|exact NEV|exact HQ].
  - apply bwp_bind. apply (bwp_skip_non_blank d); [exact HU|exact N0|]. intros v1 v2 HV RV.
    apply IH; [exact HV|exact HM|exact (SH_ne_tl d u1 u2 v1 HU N0 RV)|exact HQ].
Qed.

(* ---------------- the blank-consuming loop (line folding) ---------------- *)
(* blanks and breaks only (blind classes): it may stop at the end of side 1, with the same tuple on both sides *)
Lemma bwp_flow_blanks f1 : forall f2 lbl lb tb ws
  (Q : bool * bool * N * list chr -> bst -> bool * bool * N * list chr -> bst -> Prop) s1 s2,
  SH d s1 s2 -> (forall r t1 t2, SH d t1 t2 -> Q r t1 r t2) ->
  bwp (flow_blanks sops f1 lbl lb tb ws) (flow_blanks sops f2 lbl lb tb ws) Q s1 s2.
Proof.
  induction f1 as [|f1 IH]; intros f2 lbl lb tb ws Q s1 s2 H HQ; [exact I|].
  destruct f2 as [|f2]; [apply bwp_oof_r|]. cbn [flow_blanks].
  apply bwp_bind. apply (bwp_peek d); [exact H|]. cbv beta. b1_norm.
  destruct (is_blank (rn s1 0)) eqn:Ebl.
  - assert (N0 : nbz (rn s1 0)) by (nbz_by Ebl).
    rewrite ?(b1_nbz _ N0).
    destruct lbl.
    + apply bwp_bind. apply (bwp_col_lt_indent d); [exact H|]. cbv beta.
      case_if Et; [apply (bwp_mark_fail d); exact H|].
      apply bwp_bind. apply (bwp_skip_blank d); [exact H|exact N0|]. intros u1 u2 HU _.
      apply bwp_bind. apply (bwp_look d); [exact HU|]. intros v1 v2 HV _ _ _ _ _.
      apply IH; [exact HV|exact HQ].
    + apply bwp_bind. apply (bwp_skip_blank d); [exact H|exact N0|]. intros u1 u2 HU _.
      apply bwp_bind. apply (bwp_look d); [exact HU|]. intros v1 v2 HV _ _ _ _ _.
      apply IH; [exact HV|exact HQ].
  - destruct (is_break (rn s1 0)) eqn:Ebk; [|apply bwp_ret; apply HQ; exact H].
    apply bwp_bind. apply (bwp_look d); [exact H|]. intros u1 u2 HU _ _ _ _ _.
    destruct lbl.
    + apply bwp_bind. apply (bwp_skip_break d); [exact HU|]. intros v1 v2 HV _ _.
      apply bwp_bind. apply (bwp_look d); [exact HV|]. intros w1 w2 HW _ _ _ _ _.
      apply IH; [exact HW|exact HQ].
    + apply bwp_bind. apply (bwp_skip_break d); [exact HU|]. intros v1 v2 HV _ _.
      apply bwp_bind. apply (bwp_look d); [exact HV|]. intros w1 w2 HW _ _ _ _ _.
      apply IH; [exact HW|exact HQ].
Qed.

(* ---------------- the main loop ---------------- *)
(* at the exit the next character is the closing quote: neither a line break nor NUL.  An iteration entered at the
   end of side 1 fails on side 1 (70 or 71): no claim. *)
Lemma bwp_flow_go F1 F2 single st1 st2 f1 : forall f2 acc lb tb ws s1 s2,
  SH d s1 s2 -> MS d st1 st2 ->
  bwp (bflow_go sops F1 single st1 f1 acc lb tb ws) (bflow_go sops F2 single st2 f2 acc lb tb ws)
      (fun r1 t1 r2 t2 => r1 = r2 /\ SH d t1 t2 /\ nbz (rn t1 0)) s1 s2.
Proof.
  induction f1 as [|f1 IH]; intros f2 acc lb tb ws s1 s2 H HM; [exact I|].
  destruct f2 as [|f2]; [apply bwp_oof_r|]. cbn [bflow_go].
  apply bwp_bind. apply (bwp_look d); [exact H|]. intros u1 u2 HU _ _ _ _ _.
  apply bwp_bind. apply bwp_get. cbv beta. sh_sync HU.
  destruct (N.eq_dec (rn u1 0) 0) as [Z0|NZ0].
  { (* side 1 stands at the end of its input: it fails (70 or 71) *)
    apply bwp_bind.
    apply bwp_mono with (Q := fun (_ : bool) t1 (_ : bool) t2 => t1 = u1 /\ t2 = u2).
    { destruct (m_col (sc_mark u1) =? 0)%N.
      - apply (bwp_next_is_document_indicator d); [exact HU|]. split; reflexivity.
      - apply bwp_ret. split; reflexivity. }
    intros di t1 di' t2 [-> ->].
    destruct di; [apply bwp_err_l|].
    eapply bwp_err_eval. unfold bind at 1. unfold next_is. unfold bind at 1. rewrite peek_ok. unfold ret at 1.
    cbv beta iota. rewrite Z0. reflexivity. }
  assert (NE : rm u1 <> []) by (exact (SH_nonempty NZ0)).
  apply bwp_bind.
  apply bwp_mono with (Q := Qe (fun _ t1 t2 => t1 = u1 /\ t2 = u2)).
  { destruct (m_col (sc_mark u1) =? 0)%N.
    - apply (bwp_next_is_document_indicator d); [exact HU|]. rewrite (atend_ne u1 NE), orb_false_r.
      split; [reflexivity|split; reflexivity].
    - apply bwp_ret. split; [reflexivity|split; reflexivity]. }
  intros di t1 di' t2 [<- [-> ->]].
  destruct di; [apply bwp_fail; exact HM|].
  apply bwp_bind. apply (bwp_next_is_in d); [exact HU|exact NE|]. cbv beta.
  destruct (is_z (rn u1 0)); [apply bwp_fail; exact HM|].
  apply bwp_bind. apply (bwp_col_lt_indent d); [exact HU|]. cbv beta.
  case_if Et; [apply bwp_fail; exact HM|].
  apply bwp_bind. apply bwp_consume_nonws; [exact HU|exact HM|exact NE|]. intros [acc' lbl] v1 v2 HV. cbv beta iota.
  apply bwp_bind. apply (bwp_look_ch d); [exact HV|]. intros w1 w2 HW _ _ _ _. cbv beta. b1_norm.
  case_if Equ.
  { apply bwp_ret. split; [reflexivity|split; [exact HW|]].
    destruct single; cbn [andb negb orb] in Equ.
    - rewrite orb_false_r in Equ. exact (lit_eq_nbz (rn w1 0) 39%N eq_refl Equ).
    - exact (lit_eq_nbz (rn w1 0) 34%N eq_refl Equ). }
  apply bwp_bind. apply bwp_flow_blanks; [exact HW|]. intros [[[lbl' lb'] tb'] ws'] x1 x2 HX. cbv beta iota.
  destruct lbl'; [|apply IH; [exact HX|exact HM]].
  destruct (negb lb'); [apply IH; [exact HX|exact HM]|].
  destruct (tb' =? 0)%N; apply IH; [exact HX|exact HM|exact HX|exact HM].
Qed.

(* ---------------- scan_flow_scalar ---------------- *)
Theorem scan_flow_scalar_ok : shf_scan_flow_scalar d.
Proof.
  unfold shf_scan_flow_scalar. intros F1 F2 single s1 s2 H N0. rewrite !scan_flow_scalar_unfold_b.
  apply bwp_bind. apply (bwp_mark d); [exact H|]. intros HM0.
  apply bwp_bind. apply (bwp_skip_non_blank d); [exact H|exact N0|]. intros u1 u2 HU _.
  apply bwp_bind. eapply bwp_mono; [apply bwp_flow_go; [exact HU|exact HM0]|].
  intros r1 v1 r2 v2 (<- & HV & NV). cbv beta.
  (* the closing quote is not the last character of side 1's text *)
  apply bwp_bind. apply (bwp_skip_non_blank d); [exact HV|exact NV|]. intros w1 w2 HW RW.
  assert (NEW : rm w1 <> []) by (exact (SH_ne_tl d v1 v2 w1 HV NV RW)).
  apply bwp_bind. eapply bwp_mono; [apply skip_ws_to_eol_ok; exact HW|].
  intros a1 x1 a2 x2 (<- & HX & HNE). cbv beta.
  assert (NEX : rm x1 <> []) by (exact (HNE NEW)).
  apply bwp_bind. apply (bwp_peek d); [exact HX|]. cbv beta.
  rewrite (SH_b1_in d x1 x2 HX NEX).
  apply bwp_bind. apply bwp_get. cbv beta zeta. sh_sync HX.
  unfold MS in HM0. rewrite <- HM0.
  case_if Ec; [|apply bwp_fail; first [apply MS_refl|exact (sh_mark HX)]].
  apply (bwp_ret_bpost d); [|exact HX]. apply TS_mk. apply SPS_mk; first [apply MS_refl|exact (sh_mark HX)].
Qed.

End BrkFlow.

Print Assumptions scan_flow_scalar_ok.
