(* C04 — plain scalars: scan_plain_scalar (Model/SScalar.v) over the string input returns exactly the text that
   the specification (Spec/FlowFold.v: plain_layout_wf / plain_render / plain_text) assigns to the presentation. *)
From Coq Require Import List NArith ZArith Bool Arith Lia.
Import ListNotations.
Require Import Parser SBase SPrim SDir SScalar SFetch Pipe FlowFold FlowScalarProofs.
Open Scope N_scope.

Arguments N.add : simpl never.
Arguments N.sub : simpl never.
Arguments N.mul : simpl never.
Arguments N.eqb : simpl never.
Arguments N.ltb : simpl never.
Arguments N.leb : simpl never.
Arguments Nat.max : simpl never.
Arguments Nat.leb : simpl never.
Arguments Nat.ltb : simpl never.
Arguments Nat.sub : simpl never.
Open Scope mon_scope.

(* ================================================================================================= *)
(* primitives on states in normal form (st_with of FlowScalarProofs)                                 *)
(* ================================================================================================= *)
Lemma mark_st s0 c l m w : mark (st_with s0 c l m w) = Ok (m, st_with s0 c l m w).
Proof. reflexivity. Qed.
Lemma set_lws_st b s0 c l m w : modify (set_lws b) (st_with s0 c l m w) = Ok (tt, st_with s0 c l m b).
Proof. reflexivity. Qed.
Lemma look_noop n s0 c l m w : (n <= l)%nat -> look str_ops n (st_with s0 c l m w) = Ok (tt, st_with s0 c l m w).
Proof. intros H. rewrite look_st. rewrite (Nat.max_l l n) by exact H. reflexivity. Qed.
Lemma nlm_col m : m_col (nlm m) = 0.
Proof. reflexivity. Qed.

(* a break written LF, CR or CR LF: where the mark is afterwards; a CR must not be followed by a LF of its own *)
Definition nl_mark (k : nl_kind) (m : marker) : marker := match k with NlCRLF => nlm (adv 1 m) | _ => nlm m end.
Lemma nl_mark_col k m : m_col (nl_mark k m) = 0.
Proof. destruct k; reflexivity. Qed.
Definition cr_ok (k : nl_kind) (r : list N) : Prop := k = NlCR -> (nth 0 r 0 =? 10) = false.
Lemma skip_break_nl s0 k r l m w : cr_ok k r ->
  skip_break str_ops (st_with s0 (nl_src k ++ r) l m w) = Ok (tt, st_with s0 r l (nl_mark k m) true).
Proof.
  intros H. destruct k; [reflexivity| |reflexivity].
  unfold skip_break, peek. cbn [nl_src app]. mstep (peekn_st 0 s0 (13 :: r) l m w). mstep (peekn_st 1 s0 (13 :: r) l m w).
  cbn [nth]. rewrite (H eq_refl). reflexivity.
Qed.
Lemma nl_head k r : is_blank (nth 0 (nl_src k ++ r) 0) = false /\ is_break (nth 0 (nl_src k ++ r) 0) = true.
Proof. destruct k; split; reflexivity. Qed.
Lemma nl_src_len k : (1 <= length (nl_src k))%nat.
Proof. destruct k; cbn; lia. Qed.
Lemma cr_ok_blanks k bs x r : forallb is_sp bs = true -> is_break x = false -> cr_ok k (bs ++ x :: r).
Proof.
  intros Hb Hx _. destruct bs as [|b bs].
  - cbn [app nth]. unfold is_break in Hx. apply orb_false_elim in Hx. tauto.
  - cbn [forallb] in Hb. apply andb_prop in Hb. destruct Hb as [Hb _]. cbn [app nth].
    destruct (blank_cases b Hb) as [->| ->]; reflexivity.
Qed.
Lemma cr_ok_flat k es r : Forall (fun e => forallb is_sp e = true) es -> cr_ok k r ->
  cr_ok k (flat_map (fun e => e ++ nl_src k) es ++ r).
Proof.
  intros Hes Hr Hk. destruct es as [|e es]; [exact (Hr Hk)|]. inversion Hes as [|? ? He _]; subst.
  cbn [flat_map]. rewrite <- !app_assoc. destruct e as [|c e].
  - cbn [app nl_src nth]. reflexivity.
  - cbn [forallb] in He. apply andb_prop in He. destruct He as [Hc _]. cbn [app nth].
    destruct (blank_cases c Hc) as [->| ->]; reflexivity.
Qed.

(* next_can_be_plain_scalar as a function of the next two characters *)
Definition cbf (fl : bool) (c nc : N) : bool :=
  if (c =? 58) && (is_blank_or_breakz nc || (fl && is_flow nc)) then false
  else if fl && is_flow c then false else true.
Lemma ncbps_st fl s0 c l m w :
  next_can_be_plain_scalar str_ops fl (st_with s0 c l m w) = Ok (cbf fl (nth 0 c 0) (nth 1 c 0), st_with s0 c l m w).
Proof.
  unfold next_can_be_plain_scalar, cbf, peek.
  mstep (peekn_st 1 s0 c l m w). mstep (peekn_st 0 s0 c l m w).
  destruct ((nth 0 c 0 =? 58) && (is_blank_or_breakz (nth 1 c 0) || (fl && is_flow (nth 1 c 0)))); [reflexivity|].
  destruct (fl && is_flow (nth 0 c 0)); reflexivity.
Qed.

(* next_is_document_indicator as a function of the next four characters *)
Definition doc_ind (c : list N) : bool :=
  is_blank_or_breakz (nth 3 c 0)
  && (((nth 0 c 0 =? 46) && (nth 1 c 0 =? 46) && (nth 2 c 0 =? 46)) || ((nth 0 c 0 =? 45) && (nth 1 c 0 =? 45) && (nth 2 c 0 =? 45))).
Lemma nidi_st s0 c l m w : (4 <= l)%nat ->
  next_is_document_indicator str_ops (st_with s0 c l m w) = Ok (doc_ind c, st_with s0 c l m w).
Proof.
  intros Hl. unfold next_is_document_indicator, doc_ind.
  assert (A4 : assert_buflen str_ops 4 105 (st_with s0 c l m w) = Ok (tt, st_with s0 c l m w)).
  { unfold assert_buflen. cbn [buflen str_ops sc_in st_with si_look].
    replace (Nat.ltb l 4) with false by (symmetry; apply Nat.ltb_ge; exact Hl). reflexivity. }
  assert (A3 : forall k, assert_buflen str_ops 3 k (st_with s0 c l m w) = Ok (tt, st_with s0 c l m w)).
  { intros k. unfold assert_buflen. cbn [buflen str_ops sc_in st_with si_look].
    replace (Nat.ltb l 3) with false by (symmetry; apply Nat.ltb_ge; lia). reflexivity. }
  mstep A4. mstep (peekn_st 3 s0 c l m w).
  destruct (is_blank_or_breakz (nth 3 c 0)); [|reflexivity]. cbn [andb].
  unfold next_3_are, peek. rewrite bind_assoc. mstep (A3 104). rewrite bind_assoc.
  mstep (peekn_st 0 s0 c l m w). rewrite bind_assoc. mstep (peekn_st 1 s0 c l m w). rewrite bind_assoc.
  mstep (peekn_st 2 s0 c l m w).
  rewrite (bind_Ok (ret _) _ _ _ _ eq_refl).
  destruct ((nth 0 c 0 =? 46) && (nth 1 c 0 =? 46) && (nth 2 c 0 =? 46)); [reflexivity|].
  mstep (A3 104). mstep (peekn_st 0 s0 c l m w). mstep (peekn_st 1 s0 c l m w). mstep (peekn_st 2 s0 c l m w).
  reflexivity.
Qed.

(* ================================================================================================= *)
(* the loop of scan_plain_scalar, cut into its phases (checked equal to the model by conversion)      *)
(* ================================================================================================= *)
Section PLoop.
Variable F : nat.
Variable indent : Z.
Variable start : marker.
Notation ops := str_ops.
Notation MS := (@M strin).
Notation GO := (list chr -> bool -> N -> list chr -> marker -> MS (list chr * marker)).

Definition pafter_blanks (go : GO) (acc : list chr) (endm : marker) (r : bool * N * list chr) : MS (list chr * marker) :=
  let '(lb, tb, ws) := r in
  s <- get ;;
  if (sc_flow_level s =? 0) && (Z.of_N (m_col (sc_mark s)) <? indent)%Z then ret (acc, endm)
  else go acc lb tb ws endm.

Definition ptail (go : GO) (r : list chr * bool * N * list chr * marker) : MS (list chr * marker) :=
  let '(acc, lb, tb, ws, endm) := r in
  c <- peek ops ;;
  if negb (is_blank c || is_break c) then ret (acc, endm) else
  look ops 2 ;;;
  r <- plain_blanks ops F F indent start lb tb ws ;;
  pafter_blanks go acc endm r.

(* how the pending fold is flushed in front of a word *)
Definition flush (w : bool) (acc : list chr) (lb : bool) (tb : N) (ws : list chr) : list chr * bool * N * list chr :=
  if w then
    (if negb lb then (nls tb acc, false, 0, ws)
     else if tb =? 0 then (32 :: acc, false, 0, ws)
     else (nls tb acc, false, 0, ws))
  else (ws ++ acc, lb, tb, []).

Definition pword (c : chr) (r : list chr * bool * N * list chr) : MS (list chr * bool * N * list chr * marker) :=
  let '(acc, lb, tb, ws) := r in
  modify (set_lws false) ;;;
  skip_non_blank ops ;;;
  look ops (bufmaxlen ops) ;;;
  acc <- plain_chunk ops F 0 (c :: acc) ;;
  m <- mark ;; ret (acc, lb, tb, ws, m).

Definition pbody (go : GO) (acc : list chr) (lb : bool) (tb : N) (ws : list chr) (endm : marker) : MS (list chr * marker) :=
  look ops 4 ;;;
  s <- get ;;
  di <- (if sc_lws s && (m_col (sc_mark s) =? 0) then next_is_document_indicator ops else ret false) ;;
  c <- peek ops ;;
  if di || (c =? 35) then ret (acc, endm) else
  nc <- peekn ops 1 ;;
  let fl := 0 <? sc_flow_level s in
  if (match acc with [] => true | _ => false end) && fl && (c =? 45) && is_flow nc then fail 76 (sc_mark s) else
  cb <- (if is_blank_or_breakz c then ret false else next_can_be_plain_scalar ops fl) ;;
  r <- (if cb then pword c (flush (sc_lws s) acc lb tb ws) else ret (acc, lb, tb, ws, endm)) ;;
  ptail go r.

Fixpoint ploop (f : nat) (acc : list chr) (lb : bool) (tb : N) (ws : list chr) (endm : marker) : MS (list chr * marker) :=
  match f with O => oof | S f => pbody (ploop f) acc lb tb ws endm end.
End PLoop.

Definition pfinish (start : marker) (r : list chr * marker) : @M strin token :=
  s <- get ;;
  (if sc_lws s then allow_simple_key else ret tt) ;;;
  match fst r with
  | [] => fail 78 start
  | _ => ret ({| sp_start := start; sp_end := snd r |}, TScalar Plain (rev (fst r)))
  end.

(* the phases ARE the model's scan_plain_scalar (conversion: this breaks when the model is edited) *)
Lemma scan_plain_scalar_phases F :
  scan_plain_scalar str_ops F
  = (unroll_non_block_indents ;;;
     s0 <- get ;;
     let indent := (sc_indent s0 + 1)%Z in
     let start := sc_mark s0 in
     if (0 <? sc_flow_level s0) && (Z.of_N (m_col start) <? indent)%Z then fail 75 start else
     r <- ploop F indent start F [] false 0 [] start ;; pfinish start r).
Proof. reflexivity. Qed.

(* ================================================================================================= *)
(* character facts: the specification's ns-plain-char against the scanner's tests                     *)
(* ================================================================================================= *)
Lemma is_flow_spec c : is_flow c = c_flow_indicator c.
Proof.
  unfold is_flow, c_flow_indicator. cbn [existsb].
  destruct (c =? 44), (c =? 91), (c =? 93), (c =? 123), (c =? 125); reflexivity.
Qed.
Lemma is_blank_sp c : is_blank c = is_sp c.
Proof. reflexivity. Qed.
Lemma ns_char_not_bbz c : ns_char c = true -> is_blank_or_breakz c = false.
Proof.
  unfold ns_char. intros H. repeat (apply andb_prop in H; destruct H as [H ?]).
  apply N.ltb_lt in H.
  unfold is_blank_or_breakz, is_blank, is_breakz, is_break, is_z.
  repeat match goal with |- context [c =? ?k] => destruct (N.eqb_spec c k); [lia|] end. reflexivity.
Qed.
Lemma ns_plain_safe_facts flow c : ns_plain_safe flow c = true ->
  is_blank_or_breakz c = false /\ (flow && is_flow c) = false.
Proof.
  unfold ns_plain_safe. intros H. apply andb_prop in H. destruct H as [H1 H2].
  split; [apply ns_char_not_bbz; exact H1|]. rewrite is_flow_spec. apply negb_true_iff in H2. exact H2.
Qed.

(* a non-blank character of a well-formed line: the scanner keeps it, whatever the real successor is when the
   character is not a colon *)
Lemma char_facts flow prev c next : plain_char_wf flow prev c next = true -> is_sp c = false ->
  is_blank_or_breakz c = false
  /\ (forall nc, (c = 58 -> nc = next) -> cbf flow c nc = true)
  /\ (c = 35 -> ns_char prev = true).
Proof.
  unfold plain_char_wf. intros H Hs. rewrite Hs in H.
  destruct (N.eqb_spec c 58) as [->|H58].
  - destruct (ns_plain_safe_facts flow next H) as [Hb Hf]. split; [reflexivity|]. split; [|discriminate].
    intros nc Hn. rewrite (Hn eq_refl). unfold cbf. rewrite Hb, Hf. change (58 =? 58) with true. cbn [andb orb].
    change (is_flow 58) with false. rewrite andb_false_r. reflexivity.
  - destruct (N.eqb_spec c 35) as [->|H35].
    + split; [reflexivity|]. split; [|intros _; exact H]. intros nc _. unfold cbf.
      change (35 =? 58) with false. cbn [andb]. change (is_flow 35) with false. rewrite andb_false_r. reflexivity.
    + destruct (ns_plain_safe_facts flow c H) as [Hb Hf]. split; [exact Hb|]. split; [|intros E; contradiction].
      intros nc _. unfold cbf. apply N.eqb_neq in H58. rewrite H58. cbn [andb]. rewrite Hf. reflexivity.
Qed.

Lemma leading_spaces_cons c r : leading_spaces (c :: r) = if c =? 32 then S (leading_spaces r) else O.
Proof.
  destruct c as [|p]; [reflexivity|].
  do 6 (destruct p as [p|p|]; try reflexivity).
Qed.
Lemma is_sp_cases c : is_sp c = true -> c = 32 \/ c = 9.
Proof. exact (blank_cases c). Qed.

(* ================================================================================================= *)
(* what may follow a plain scalar                                                                    *)
(* ================================================================================================= *)
(* a character that ends a plain scalar wherever it stands after white space: a comment, in a flow collection a flow
   indicator, a colon followed by white space / the end of input / (flow) a flow indicator *)
Definition generic_terminator (flow : bool) (x x' : N) : bool :=
  (x =? 35) || (flow && c_flow_indicator x)
  || ((x =? 58) && (is_sp x' || is_breakz x' || (flow && c_flow_indicator x'))).

(* after the break that follows the last line: lines of spaces only (ended by LF, CR or CR LF), then the end of input
   or a line whose first non-space character [c] (in column [col]) ends the scalar: a generic terminator, in block
   context any text that is not indented deeper than the enclosing block, a document marker in column 0 *)
Fixpoint after_break_ok (flow : bool) (indent : Z) (col : nat) (r : list N) : bool :=
  match r with
  | [] => true
  | c :: r' =>
      if c =? 32 then after_break_ok flow indent (S col) r'
      else if c =? 10 then after_break_ok flow indent O r'
      else if c =? 13 then after_break_ok flow indent O (match r' with c2 :: r'' => if c2 =? 10 then r'' else r' | [] => r' end)
      else negb (is_blank_or_breakz c)
           && (generic_terminator flow c (hd 0 r')
               || (negb flow && (Z.of_nat col <=? indent)%Z)
               || (Nat.eqb col 0 && marker_at_col0 [] r))
  end.

(* what ends a plain scalar: blanks, then the end of input; a break (LF, CR, CR LF) followed by after_break_ok; a
   comment (after at least one blank); in a flow collection , [ ] { }; a colon + white space *)
Definition plain_follower_ok (flow : bool) (indent : Z) (rest : list N) : bool :=
  let r := drop_leading rest in
  match r with
  | [] => true
  | c :: r' =>
      if is_break c then after_break_ok flow indent O r
      else if c =? 35 then negb (Nat.eqb (length r) (length rest))
      else (flow && c_flow_indicator c)
           || ((c =? 58) && (is_sp (hd 0 r') || is_breakz (hd 0 r') || (flow && c_flow_indicator (hd 0 r'))))
  end.

Fixpoint take_leading (l : list N) : list N :=
  match l with c :: r => if is_sp c then c :: take_leading r else [] | [] => [] end.
Lemma split_leading l :
  l = take_leading l ++ drop_leading l /\ forallb is_sp (take_leading l) = true /\ is_sp (hd 1 (drop_leading l)) = false.
Proof.
  induction l as [|c l [IH1 [IH2 IH3]]]; [repeat split|].
  cbn [take_leading drop_leading]. destruct (is_sp c) eqn:E.
  - cbn [app forallb]. rewrite E. repeat split; [f_equal; exact IH1|exact IH2|exact IH3].
  - repeat split. exact E.
Qed.
Lemma hd_nth (l : list N) : hd 0 l = nth 0 l 0.
Proof. destruct l; reflexivity. Qed.

(* the text and the source of the lines after the first *)
Fixpoint rest_text (more : list (brk_layout * list N)) : list N :=
  match more with [] => [] | (b, l) :: r => break_text (brk_of b) ++ l ++ rest_text r end.
Definition src_more (more : list (brk_layout * list N)) : list N := flat_map (fun p => render_brk (fst p) ++ snd p) more.
Lemma plain_text_rest first more : plain_text first more = first ++ rest_text more.
Proof.
  unfold plain_text. revert first. induction more as [|[b l] more IH]; intros first; [cbn; rewrite app_nil_r; reflexivity|].
  cbn [map fold_lines rest_text fst snd]. rewrite IH. reflexivity.
Qed.
Definition more_wf (flow : bool) (n : nat) (more : list (brk_layout * list N)) : bool :=
  forallb (fun p => brk_wf n (fst p) && negb (bl_escaped (fst p)) && plain_line_wf flow (snd p)
                    && negb (marker_at_col0 (bl_indent (fst p)) (snd p))) more.

(* fuel: one unit per blank and per break (a CR LF pair is one break) *)
Definition ecost (es : list (list N)) : nat := length (flat_map (fun e => e ++ [10]) es).
Definition brk_cost (b : brk_layout) : nat := (length (bl_pad b) + S (ecost (bl_empties b) + length (bl_indent b)))%nat.
Lemma ecost_le k es : (ecost es <= length (flat_map (fun e => e ++ nl_src k) es))%nat.
Proof.
  unfold ecost. induction es as [|e es IH]; [cbn; lia|]. cbn [flat_map]. rewrite !app_length. pose proof (nl_src_len k). cbn [length]. lia.
Qed.
Lemma brk_cost_le b : (brk_cost b <= length (render_brk b))%nat.
Proof.
  unfold brk_cost, render_brk. rewrite !app_length. pose proof (nl_src_len (bl_nl b)). pose proof (ecost_le (bl_nl b) (bl_empties b)). lia.
Qed.

(* ================================================================================================= *)
(* one plain scalar: fixed context                                                                   *)
(* ================================================================================================= *)
Section Plain.
Variable F : nat.
Variable s0 : sc strin.          (* the state after unroll_non_block_indents: every field but input, mark, lws *)
Variable start : marker.
Variable L : nat.
Hypothesis HL : (128 <= L)%nat.
Notation fl := (0 <? sc_flow_level s0).
Notation indent := (sc_indent s0 + 1)%Z.
Notation ops := str_ops.
Notation st := (st_with s0).

Definition col_ok (m : marker) : Prop := (indent <= Z.of_N (m_col m))%Z.
Lemma col_ok_adv k m : col_ok m -> col_ok (adv k m).
Proof. unfold col_ok. rewrite adv_col. lia. Qed.

(* ---- plain_chunk ---- *)
Lemma chunk_refresh fuel j acc c m :
  (127 <= j)%nat ->
  plain_chunk ops (S fuel) j acc (st c L m false) = plain_chunk ops fuel 0 acc (st c L m false).
Proof.
  intros Hj. cbn [plain_chunk].
  replace (Nat.leb (bufmaxlen ops - 1) j) with true by (symmetry; apply Nat.leb_le; exact Hj).
  mstep (look_noop (bufmaxlen ops) s0 c L m false HL). reflexivity.
Qed.

Lemma chunk_step1 fuel j acc c r m :
  (j < 127)%nat -> is_blank_or_breakz c = false -> cbf fl c (nth 0 r 0) = true ->
  plain_chunk ops (S fuel) j acc (st (c :: r) L m false) = plain_chunk ops fuel (S j) (c :: acc) (st r L (adv 1 m) false).
Proof.
  intros Hj Hb Hc. cbn [plain_chunk].
  replace (Nat.leb (bufmaxlen ops - 1) j) with false by (symmetry; apply Nat.leb_gt; exact Hj).
  unfold next_is, peek. rewrite bind_assoc. mstep (peekn_st 0 s0 (c :: r) L m false). cbn [nth].
  rewrite (bind_Ok (ret _) _ _ _ _ eq_refl). rewrite Hb.
  mstep (get_st s0 (c :: r) L m false). cbn [sc_flow_level st_with].
  mstep (ncbps_st fl s0 (c :: r) L m false). cbn [nth]. rewrite Hc. cbn [orb negb].
  mstep (peekn_st 0 s0 (c :: r) L m false). cbn [nth].
  mstep (skip_non_blank_st s0 (c :: r) L m false). reflexivity.
Qed.

Definition stops_chunk (after : list N) : Prop :=
  is_blank_or_breakz (nth 0 after 0) = true \/ cbf fl (nth 0 after 0) (nth 1 after 0) = false.

Lemma chunk_stop1 fuel j acc after m :
  (j < 127)%nat -> stops_chunk after ->
  plain_chunk ops (S fuel) j acc (st after L m false) = Ok (acc, st after L m false).
Proof.
  intros Hj Hs. cbn [plain_chunk].
  replace (Nat.leb (bufmaxlen ops - 1) j) with false by (symmetry; apply Nat.leb_gt; exact Hj).
  unfold next_is, peek. rewrite bind_assoc. mstep (peekn_st 0 s0 after L m false).
  rewrite (bind_Ok (ret _) _ _ _ _ eq_refl).
  mstep (get_st s0 after L m false). cbn [sc_flow_level st_with].
  destruct (is_blank_or_breakz (nth 0 after 0)) eqn:Eb.
  - rewrite (bind_Ok (ret false) _ _ _ _ eq_refl). reflexivity.
  - destruct Hs as [Hs|Hs]; [congruence|].
    mstep (ncbps_st fl s0 after L m false). rewrite Hs. reflexivity.
Qed.

(* the same, from any counter value *)
Lemma chunk_step fuel j acc c r m :
  is_blank_or_breakz c = false -> cbf fl c (nth 0 r 0) = true ->
  exists j', (j' <= 127)%nat /\
    (plain_chunk ops (S (S fuel)) j acc (st (c :: r) L m false)
     = plain_chunk ops (if Nat.leb 127 j then fuel else S fuel) j' (c :: acc) (st r L (adv 1 m) false)).
Proof.
  intros Hb Hc. destruct (Nat.leb 127 j) eqn:E.
  - apply Nat.leb_le in E. exists 1%nat. split; [lia|]. rewrite chunk_refresh by exact E.
    apply chunk_step1; [lia|exact Hb|exact Hc].
  - apply Nat.leb_gt in E. exists (S j). split; [lia|]. apply chunk_step1; [exact E|exact Hb|exact Hc].
Qed.
Lemma chunk_stop fuel j acc after m :
  stops_chunk after ->
  plain_chunk ops (S (S fuel)) j acc (st after L m false) = Ok (acc, st after L m false).
Proof.
  intros Hs. destruct (Nat.leb 127 j) eqn:E.
  - apply Nat.leb_le in E. rewrite chunk_refresh by exact E. apply chunk_stop1; [lia|exact Hs].
  - apply Nat.leb_gt in E. apply chunk_stop1; [exact E|exact Hs].
Qed.

(* ---- plain_blanks ---- *)
Notation pblanks := (plain_blanks ops F).

Lemma pb_blank_ws fb lb tb ws b r m :
  is_blank b = true ->
  pblanks (S fb) indent start lb tb ws (st (b :: r) L m false) = pblanks fb indent start lb tb (b :: ws) (st r L (adv 1 m) false).
Proof.
  intros Hb. cbn [plain_blanks]. unfold peek. mstep (peekn_st 0 s0 (b :: r) L m false). cbn [nth]. rewrite Hb.
  mstep (get_st s0 (b :: r) L m false). cbn [sc_lws st_with negb].
  mstep (skip_blank_st s0 (b :: r) L m false). cbn [tl].
  mstep (look_noop 2 s0 r L (adv 1 m) false ltac:(lia)). reflexivity.
Qed.

Lemma pb_blank_skip fb lb tb ws b r m :
  is_blank b = true -> (b = 9 -> col_ok m) ->
  pblanks (S fb) indent start lb tb ws (st (b :: r) L m true) = pblanks fb indent start lb tb ws (st r L (adv 1 m) true).
Proof.
  intros Hb Ht. cbn [plain_blanks]. unfold peek. mstep (peekn_st 0 s0 (b :: r) L m true). cbn [nth]. rewrite Hb.
  mstep (get_st s0 (b :: r) L m true). cbn [sc_lws sc_mark st_with negb].
  replace ((Z.of_N (m_col m) <? indent)%Z && (b =? 9)) with false.
  2:{ symmetry. destruct (N.eqb_spec b 9) as [E|E]; [|apply andb_false_r].
      rewrite andb_true_r. apply Z.ltb_ge. exact (Ht E). }
  mstep (skip_blank_st s0 (b :: r) L m true). cbn [tl].
  mstep (look_noop 2 s0 r L (adv 1 m) true ltac:(lia)). reflexivity.
Qed.

Lemma pb_nl_first k fb lb tb ws r m :
  cr_ok k r ->
  pblanks (S fb) indent start lb tb ws (st (nl_src k ++ r) L m false) = pblanks fb indent start true tb [] (st r L (nl_mark k m) true).
Proof.
  intros Hk. destruct (nl_head k r) as [H1 H2].
  cbn [plain_blanks]. unfold peek. mstep (peekn_st 0 s0 (nl_src k ++ r) L m false). rewrite H1, H2.
  mstep (get_st s0 (nl_src k ++ r) L m false). cbn [sc_lws st_with].
  mstep (skip_break_nl s0 k r L m false Hk).
  mstep (set_lws_st true s0 r L (nl_mark k m) true).
  mstep (look_noop 2 s0 r L (nl_mark k m) true ltac:(lia)). reflexivity.
Qed.

Lemma pb_nl_more k fb lb tb ws r m :
  cr_ok k r ->
  pblanks (S fb) indent start lb tb ws (st (nl_src k ++ r) L m true) = pblanks fb indent start lb (tb + 1) ws (st r L (nl_mark k m) true).
Proof.
  intros Hk. destruct (nl_head k r) as [H1 H2].
  cbn [plain_blanks]. unfold peek. mstep (peekn_st 0 s0 (nl_src k ++ r) L m true). rewrite H1, H2.
  mstep (get_st s0 (nl_src k ++ r) L m true). cbn [sc_lws st_with].
  mstep (skip_break_nl s0 k r L m true Hk).
  mstep (look_noop 2 s0 r L (nl_mark k m) true ltac:(lia)). reflexivity.
Qed.

Lemma pb_stop fb lb tb ws c m w :
  is_blank (nth 0 c 0) = false -> is_break (nth 0 c 0) = false ->
  pblanks (S fb) indent start lb tb ws (st c L m w) = Ok ((lb, tb, ws), st c L m w).
Proof.
  intros Hb Hk. cbn [plain_blanks]. unfold peek. mstep (peekn_st 0 s0 c L m w). rewrite Hb, Hk. reflexivity.
Qed.

(* a run of blanks after content (collected), and a run of blanks at the start of a line (skipped) *)
Lemma pb_blanks_ws : forall bs fb lb tb ws r m,
  forallb is_sp bs = true ->
  pblanks (length bs + fb) indent start lb tb ws (st (bs ++ r) L m false)
  = pblanks fb indent start lb tb (rev bs ++ ws) (st r L (adv (N.of_nat (length bs)) m) false).
Proof.
  induction bs as [|b bs IH]; intros fb lb tb ws r m H.
  - cbn [length app rev Nat.add]. change (N.of_nat 0) with 0. rewrite adv_0. reflexivity.
  - cbn [forallb] in H. apply andb_prop in H. destruct H as [Hb H].
    cbn [length app Nat.add]. rewrite pb_blank_ws by exact Hb. rewrite IH by exact H.
    rewrite adv_1_n. cbn [rev]. rewrite <- app_assoc. reflexivity.
Qed.

(* tabs of a line prefix are beyond the indentation *)
Fixpoint tabs_ok (col : N) (bs : list N) : Prop :=
  match bs with
  | [] => True
  | b :: r => (b = 9 -> (indent <= Z.of_N col)%Z) /\ tabs_ok (col + 1) r
  end.
Lemma pb_blanks_skip : forall bs fb lb tb ws r m,
  forallb is_sp bs = true -> tabs_ok (m_col m) bs ->
  pblanks (length bs + fb) indent start lb tb ws (st (bs ++ r) L m true)
  = pblanks fb indent start lb tb ws (st r L (adv (N.of_nat (length bs)) m) true).
Proof.
  induction bs as [|b bs IH]; intros fb lb tb ws r m H Ht.
  - cbn [length app Nat.add]. change (N.of_nat 0) with 0. rewrite adv_0. reflexivity.
  - cbn [forallb] in H. apply andb_prop in H. destruct H as [Hb H]. destruct Ht as [Ht1 Ht2].
    cbn [length app Nat.add]. rewrite pb_blank_skip; [|exact Hb|exact Ht1]. rewrite IH; [|exact H|exact Ht2].
    rewrite adv_1_n. reflexivity.
Qed.

Lemma tabs_ok_indent_wf : forall l col,
  forallb is_sp l = true -> (indent <= Z.of_N col + Z.of_nat (leading_spaces l))%Z -> tabs_ok col l.
Proof.
  induction l as [|c l IH]; intros col H Hi; [exact I|].
  cbn [forallb] in H. apply andb_prop in H. destruct H as [Hc H].
  rewrite leading_spaces_cons in Hi. cbn [tabs_ok].
  destruct (is_sp_cases c Hc) as [->| ->].
  - change (32 =? 32) with true in Hi. cbv iota in Hi. split; [discriminate|]. apply IH; [exact H|]. lia.
  - change (9 =? 32) with false in Hi. cbv iota in Hi. split; [intros _; lia|]. apply IH; [exact H|]. lia.
Qed.
Lemma tabs_ok_spaces : forall l col, forallb (N.eqb 32) l = true -> tabs_ok col l.
Proof.
  induction l as [|c l IH]; intros col H; [exact I|].
  cbn [forallb] in H. apply andb_prop in H. destruct H as [Hc H]. apply N.eqb_eq in Hc. subst c.
  split; [discriminate|]. apply IH. exact H.
Qed.
Lemma spaces_are_sp l : forallb (N.eqb 32) l = true -> forallb is_sp l = true.
Proof.
  induction l as [|c l IH]; intros H; [reflexivity|].
  cbn [forallb] in *. apply andb_prop in H. destruct H as [Hc H]. apply N.eqb_eq in Hc. subst c. rewrite IH by exact H. reflexivity.
Qed.

(* the lines of a break that hold blanks only, as the specification allows them (n: the indentation the context demands) *)
Variable n : nat.
Hypothesis Hn : (indent <= Z.of_nat n)%Z.

Lemma empty_wf_facts e : empty_wf n e = true -> forallb is_sp e = true /\ tabs_ok 0 e.
Proof.
  unfold empty_wf, indent_wf. intros H. apply orb_prop in H. destruct H as [H|H]; apply andb_prop in H; destruct H as [H1 H2].
  - split; [exact H1|]. apply tabs_ok_indent_wf; [exact H1|]. apply Nat.leb_le in H2. lia.
  - split; [apply spaces_are_sp; exact H1|apply tabs_ok_spaces; exact H1].
Qed.
Lemma indent_wf_facts e : indent_wf n e = true -> forallb is_sp e = true /\ tabs_ok 0 e /\ col_ok (adv (N.of_nat (length e)) (nlm start)).
Proof.
  unfold indent_wf. intros H. apply andb_prop in H. destruct H as [H1 H2]. apply Nat.leb_le in H2.
  split; [exact H1|]. split; [apply tabs_ok_indent_wf; [exact H1|lia]|].
  unfold col_ok. rewrite adv_col, nlm_col.
  assert (leading_spaces e <= length e)%nat.
  { clear. induction e as [|c e IH]; [cbn; lia|]. rewrite leading_spaces_cons. destruct (c =? 32); cbn [length]; lia. }
  lia.
Qed.

Lemma empties_blank es : forallb (empty_wf n) es = true -> Forall (fun e => forallb is_sp e = true) es.
Proof.
  intros H. apply Forall_forall. intros e Hin. exact (proj1 (empty_wf_facts e (proj1 (forallb_forall _ _) H e Hin))).
Qed.

Lemma pb_empties k : forall es fb lb tb ws r m,
  forallb (empty_wf n) es = true -> m_col m = 0 -> cr_ok k r ->
  exists m', m_col m' = 0 /\
    pblanks (ecost es + fb) indent start lb tb ws (st (flat_map (fun e => e ++ nl_src k) es ++ r) L m true)
    = pblanks fb indent start lb (tb + N.of_nat (length es)) ws (st r L m' true).
Proof.
  induction es as [|e es IH]; intros fb lb tb ws r m H Hm Hr.
  - exists m. split; [exact Hm|]. cbn [ecost flat_map length app Nat.add]. change (N.of_nat 0) with 0. rewrite N.add_0_r. reflexivity.
  - assert (Hbl := empties_blank _ H).
    cbn [forallb] in H. apply andb_prop in H. destruct H as [He H].
    destruct (empty_wf_facts e He) as [Hs Ht].
    destruct (IH fb lb (tb + 1) ws r (nl_mark k (adv (N.of_nat (length e)) m)) H (nl_mark_col _ _) Hr) as [m' [Hm' E]].
    exists m'. split; [exact Hm'|].
    unfold ecost in *. cbn [flat_map]. rewrite !app_length, <- !app_assoc. cbn [length app].
    match goal with |- context [(length e + 1 + ?c + fb)%nat] =>
      replace (length e + 1 + c + fb)%nat with (length e + S (c + fb))%nat by lia end.
    rewrite pb_blanks_skip; [|exact Hs|rewrite Hm; exact Ht].
    rewrite pb_nl_more.
    2:{ inversion Hbl; subst. apply cr_ok_flat; assumption. }
    rewrite E. f_equal. lia.
Qed.

Lemma pb_brk b fb x r m :
  brk_wf n b = true -> bl_escaped b = false -> is_blank x = false -> is_break x = false ->
  exists m', m_col m' = N.of_nat (length (bl_indent b)) /\ col_ok m' /\
    pblanks (brk_cost b + S fb) indent start false 0 [] (st (render_brk b ++ x :: r) L m false)
    = Ok ((true, N.of_nat (length (bl_empties b)), []), st (x :: r) L m' true).
Proof.
  intros Hw He Hx Hk. unfold brk_wf in Hw. rewrite He in Hw. cbn [negb orb] in Hw.
  do 3 (apply andb_prop in Hw; destruct Hw as [Hw ?]).
  match goal with H : indent_wf n _ = true |- _ => destruct (indent_wf_facts _ H) as [Hi1 [Hi2 Hi3]] end.
  match goal with H : forallb (empty_wf n) _ = true |- _ => rename H into Hes end.
  assert (Hcr : cr_ok (bl_nl b) (bl_indent b ++ x :: r)) by (apply cr_ok_blanks; assumption).
  unfold render_brk, brk_cost. rewrite He. cbn [app]. rewrite <- !app_assoc.
  destruct (pb_empties (bl_nl b) (bl_empties b) (length (bl_indent b) + S fb) true 0 [] (bl_indent b ++ x :: r)
              (nl_mark (bl_nl b) (adv (N.of_nat (length (bl_pad b))) m)) Hes (nl_mark_col _ _) Hcr) as [m' [Hm' E]].
  exists (adv (N.of_nat (length (bl_indent b))) m'). split; [rewrite adv_col, Hm'; lia|]. split.
  { unfold col_ok in *. rewrite adv_col, Hm'. rewrite adv_col, nlm_col in Hi3. exact Hi3. }
  replace (length (bl_pad b) + S (ecost (bl_empties b) + length (bl_indent b)) + S fb)%nat
    with (length (bl_pad b) + S (ecost (bl_empties b) + (length (bl_indent b) + S fb)))%nat by lia.
  rewrite pb_blanks_ws by exact Hw. rewrite pb_nl_first by (apply cr_ok_flat; [apply empties_blank; exact Hes|exact Hcr]).
  rewrite E.
  rewrite pb_blanks_skip; [|exact Hi1|rewrite Hm'; exact Hi2].
  rewrite pb_stop by assumption. rewrite N.add_0_l. reflexivity.
Qed.

(* ---- the phases of the loop body ---- *)
Notation GO := (list chr -> bool -> N -> list chr -> marker -> @M strin (list chr * marker)).
Definition after_chunk (go : GO) (lb : bool) (tb : N) (ws : list chr) (a : list chr) : @M strin (list chr * marker) :=
  bind (m <- mark ;; ret (a, lb, tb, ws, m)) (ptail F indent start go).
Lemma after_chunk_st go lb tb ws a c l m w :
  after_chunk go lb tb ws a (st c l m w) = ptail F indent start go (a, lb, tb, ws, m) (st c l m w).
Proof. reflexivity. Qed.

Lemma ptail_stop go a lb tb ws endm c l m w :
  is_blank (nth 0 c 0) = false -> is_break (nth 0 c 0) = false ->
  ptail F indent start go (a, lb, tb, ws, endm) (st c l m w) = Ok ((a, endm), st c l m w).
Proof.
  intros Hb Hk. unfold ptail, peek. mstep (peekn_st 0 s0 c l m w). rewrite Hb, Hk. reflexivity.
Qed.
Lemma ptail_blanks go a lb tb ws endm c m w :
  is_blank (nth 0 c 0) || is_break (nth 0 c 0) = true ->
  ptail F indent start go (a, lb, tb, ws, endm) (st c L m w)
  = bind (pblanks F indent start lb tb ws) (pafter_blanks indent go a endm) (st c L m w).
Proof.
  intros Hb. unfold ptail, peek. mstep (peekn_st 0 s0 c L m w). rewrite Hb. cbn [negb].
  mstep (look_noop 2 s0 c L m w ltac:(lia)). reflexivity.
Qed.
Lemma pafter_blanks_go (go : GO) a endm lb tb ws c l m w :
  col_ok m ->
  pafter_blanks indent go a endm (lb, tb, ws) (st c l m w) = go a lb tb ws endm (st c l m w).
Proof.
  intros Hc. unfold pafter_blanks. mstep (get_st s0 c l m w). cbn [sc_flow_level sc_mark st_with].
  replace (Z.of_N (m_col m) <? indent)%Z with false by (symmetry; apply Z.ltb_ge; exact Hc).
  rewrite andb_false_r. reflexivity.
Qed.
Lemma pafter_blanks_end (go : GO) a endm lb tb ws c l m w :
  fl = false -> (Z.of_N (m_col m) < indent)%Z ->
  pafter_blanks indent go a endm (lb, tb, ws) (st c l m w) = Ok ((a, endm), st c l m w).
Proof.
  intros Hf Hc. unfold pafter_blanks. mstep (get_st s0 c l m w). cbn [sc_flow_level sc_mark st_with].
  replace (Z.of_N (m_col m) <? indent)%Z with true by (symmetry; apply Z.ltb_lt; exact Hc).
  replace (sc_flow_level s0 =? 0) with true; [reflexivity|].
  symmetry. apply N.eqb_eq. apply N.ltb_ge in Hf. lia.
Qed.

(* the head of an iteration at the first character of a word *)
Lemma pbody_word (go : GO) acc lb tb ws endm c r l m w acc' lb' tb' ws' :
  (w && (m_col m =? 0) = true -> doc_ind (c :: r) = false) ->
  c <> 35 ->
  (match acc with [] => true | _ => false end) && fl && (c =? 45) && is_flow (nth 0 r 0) = false ->
  is_blank_or_breakz c = false -> cbf fl c (nth 0 r 0) = true ->
  flush w acc lb tb ws = (acc', lb', tb', ws') ->
  pbody F indent start go acc lb tb ws endm (st (c :: r) l m w)
  = bind (plain_chunk ops F 0 (c :: acc')) (after_chunk go lb' tb' ws') (st r (Nat.max (Nat.max l 4) 128) (adv 1 m) false).
Proof.
  intros Hdi H35 H76 Hb Hcb Hfl. unfold pbody.
  mstep (look_st 4 s0 (c :: r) l m w).
  mstep (get_st s0 (c :: r) (Nat.max l 4) m w). cbn [sc_lws sc_mark sc_flow_level st_with].
  assert (Edi : (if w && (m_col m =? 0) then next_is_document_indicator ops else ret false) (st (c :: r) (Nat.max l 4) m w)
                = Ok (false, st (c :: r) (Nat.max l 4) m w)).
  { destruct (w && (m_col m =? 0)) eqn:E; [|reflexivity].
    rewrite nidi_st by lia. rewrite (Hdi eq_refl). reflexivity. }
  mstep Edi. unfold peek. mstep (peekn_st 0 s0 (c :: r) (Nat.max l 4) m w). cbn [nth].
  apply N.eqb_neq in H35. rewrite H35. cbn [orb]. cbv iota.
  mstep (peekn_st 1 s0 (c :: r) (Nat.max l 4) m w). cbn [nth]. rewrite H76. rewrite Hb.
  mstep (ncbps_st fl s0 (c :: r) (Nat.max l 4) m w). cbn [nth]. rewrite Hcb. rewrite Hfl.
  unfold pword. rewrite !bind_assoc.
  mstep (set_lws_st false s0 (c :: r) (Nat.max l 4) m w). rewrite !bind_assoc.
  mstep (skip_non_blank_st s0 (c :: r) (Nat.max l 4) m false). cbn [tl]. rewrite !bind_assoc.
  mstep (look_st (bufmaxlen ops) s0 r (Nat.max l 4) (adv 1 m) false). rewrite bind_assoc.
  reflexivity.
Qed.

Lemma max_L : Nat.max (Nat.max L 4) 128 = L.
Proof. lia. Qed.

(* the real successor of a character of the line is the specification's, where it matters *)
Lemma real_next prev c t' after :
  plain_char_wf fl prev c (hd 0 t') = true -> is_sp c = false ->
  is_blank_or_breakz c = false /\ cbf fl c (nth 0 (t' ++ after) 0) = true /\ (c = 35 -> ns_char prev = true).
Proof.
  intros H Hs. destruct (char_facts fl prev c (hd 0 t') H Hs) as [Hb [Hc H35]].
  split; [exact Hb|]. split; [|exact H35]. apply Hc. intros E. subst c.
  destruct t' as [|x t']; [|reflexivity]. exfalso.
  unfold plain_char_wf in H. cbn [hd] in H. change (is_sp 58) with false in H. change (58 =? 58) with true in H. cbv iota in H.
  unfold ns_plain_safe in H. change (ns_char 0) with false in H. discriminate H.
Qed.

(* ---- one line: from inside the chunk loop / the blank loop to the end of the line ---- *)
Section Line.
Variable after : list N.
Variable Q : list chr -> outcome (list chr * marker * sc strin) -> Prop.
Variable B : nat.
Hypothesis Hafter : forall f acc m, (B <= f)%nat -> acc <> [] -> col_ok m ->
  Q acc (after_chunk (ploop F indent start f) false 0 [] acc (st after L m false)).
Hypothesis Hstop : stops_chunk after.

Definition PW (t : list N) : Prop := forall prev fc j f acc m,
  plain_line_chars_wf fl prev t = true -> is_sp (last t 1) = false ->
  (2 * length t + 2 <= fc)%nat -> (2 * length t + 2 <= F)%nat -> (B + length t <= f)%nat ->
  acc <> [] -> col_ok m ->
  Q (rev t ++ acc) (bind (plain_chunk ops fc j acc) (after_chunk (ploop F indent start f) false 0 []) (st (t ++ after) L m false)).

Definition PB (b : N) (t : list N) : Prop := forall fb f acc ws endm m,
  is_sp b = true -> plain_line_chars_wf fl b t = true -> t <> [] -> is_sp (last t 1) = false ->
  (length (b :: t) < fb)%nat -> (2 * length t + 2 <= F)%nat -> (B + length (b :: t) <= f)%nat ->
  acc <> [] -> col_ok m ->
  Q (rev t ++ b :: ws ++ acc)
    (bind (pblanks fb indent start false 0 ws) (pafter_blanks indent (ploop F indent start f) acc endm) (st (b :: t ++ after) L m false)).

Lemma last_cons_ne (c : N) t d : t <> [] -> last (c :: t) d = last t d.
Proof. destruct t; [contradiction|reflexivity]. Qed.
Lemma last_default_ne (t : list N) d d' : t <> [] -> last t d = last t d'.
Proof.
  induction t as [|c t IH]; [contradiction|]. intros _. destruct t as [|c' t]; [reflexivity|].
  change (last (c :: c' :: t) d) with (last (c' :: t) d). change (last (c :: c' :: t) d') with (last (c' :: t) d').
  apply IH. discriminate.
Qed.

Lemma PW_PB : forall t, PW t /\ (forall b, PB b t).
Proof.
  induction t as [|c t [IHW IHB]].
  - split; [|intros b fb f acc ws endm m _ _ Hne; contradiction].
    intros prev fc j f acc m _ _ Hfc _ Hf Hacc Hm.
    destruct fc as [|[|fc]]; [cbn in Hfc; lia|cbn in Hfc; lia|].
    cbn [app rev length]. rewrite (bind_Ok _ _ _ _ _ (chunk_stop fc j acc after m Hstop)).
    apply Hafter; [cbn in Hf; lia|exact Hacc|exact Hm].
  - assert (W : PW (c :: t)).
    { intros prev fc j f acc m Hwf Hlast Hfc HF Hf Hacc Hm.
      cbn [plain_line_chars_wf] in Hwf. apply andb_prop in Hwf. destruct Hwf as [Hc Hwf].
      destruct fc as [|[|fc]]; [cbn in Hfc; lia|cbn in Hfc; lia|].
      destruct (is_sp c) eqn:Es.
      - (* a blank: the word is over *)
        assert (Hne : t <> []).
        { intros ->. cbn [last] in Hlast. congruence. }
        assert (Hst : stops_chunk ((c :: t) ++ after)).
        { left. cbn [app nth]. unfold is_blank_or_breakz. rewrite is_blank_sp, Es. reflexivity. }
        rewrite (bind_Ok _ _ _ _ _ (chunk_stop fc j acc _ m Hst)).
        rewrite after_chunk_st. cbn [app].
        rewrite ptail_blanks by (cbn [nth]; rewrite is_blank_sp, Es; reflexivity).
        cbn [rev]. rewrite <- app_assoc. cbn [app].
        apply (IHB c F f acc [] m m); try assumption.
        + rewrite last_cons_ne in Hlast by exact Hne. exact Hlast.
        + cbn [length] in *. lia.
        + cbn [length] in *. lia.
      - (* a character of the word *)
        destruct (real_next prev c t after Hc Es) as [Hb [Hcb _]].
        destruct (chunk_step fc j acc c (t ++ after) m Hb Hcb) as [j' [Hj' E]].
        cbn [app]. rewrite (bind_congr _ _ _ _ _ E).
        cbn [rev]. rewrite <- app_assoc. cbn [app].
        replace (adv (N.of_nat (length (c :: t))) m) with (adv (N.of_nat (length t)) (adv 1 m)) by (rewrite adv_1_n; reflexivity).
        apply (IHW c); try assumption.
        + destruct t as [|c' t]; [reflexivity|]. rewrite last_cons_ne in Hlast by discriminate. exact Hlast.
        + cbn [length] in Hfc. destruct (Nat.leb 127 j); lia.
        + cbn [length] in HF. lia.
        + cbn [length] in Hf. lia.
        + discriminate.
        + apply col_ok_adv. exact Hm. }
    split; [exact W|].
    intros b fb f acc ws endm m Hb Hwf _ Hlast Hfb HF Hf Hacc Hm.
    cbn [plain_line_chars_wf] in Hwf. apply andb_prop in Hwf. destruct Hwf as [Hc Hwf].
    destruct fb as [|fb]; [cbn in Hfb; lia|].
    rewrite (bind_congr _ _ _ _ _ (pb_blank_ws fb false 0 ws b ((c :: t) ++ after) m Hb)).
    destruct (is_sp c) eqn:Es.
    + (* another blank *)
      assert (Hne : t <> []).
      { intros ->. cbn [last] in Hlast. congruence. }
      cbn [app rev]. rewrite <- app_assoc. cbn [app].
      apply (IHB c fb f acc (b :: ws) endm (adv 1 m)); try assumption.
      * rewrite last_cons_ne in Hlast by exact Hne. exact Hlast.
      * cbn [length] in *. lia.
      * cbn [length] in *. lia.
      * cbn [length] in *. lia.
      * apply col_ok_adv. exact Hm.
    + (* the next word starts *)
      destruct (real_next b c t after Hc Es) as [Hbz [Hcb H35]].
      destruct fb as [|fb]; [cbn in Hfb; lia|].
      assert (Hbb : is_blank c = false /\ is_break c = false).
      { unfold is_blank_or_breakz, is_breakz in Hbz. apply orb_false_elim in Hbz. destruct Hbz as [H1 H2].
        apply orb_false_elim in H2. tauto. }
      cbn [app].
      rewrite (bind_Ok _ _ _ _ _ (pb_stop fb false 0 (b :: ws) (c :: t ++ after) (adv 1 m) false (proj1 Hbb) (proj2 Hbb))).
      rewrite pafter_blanks_go by (apply col_ok_adv; exact Hm).
      destruct f as [|f]; [cbn in Hf; lia|]. cbn [ploop].
      rewrite (pbody_word (ploop F indent start f) acc false 0 (b :: ws) endm c (t ++ after) L (adv 1 m) false
                 ((b :: ws) ++ acc) false 0 []); try assumption; try reflexivity.
      * rewrite max_L. cbn [rev]. rewrite <- app_assoc. cbn [app].
        apply (IHW c F 0%nat f (c :: (b :: ws) ++ acc) (adv 1 (adv 1 m))); try assumption.
        -- destruct t as [|c' t]; [reflexivity|]. rewrite last_cons_ne in Hlast by discriminate. exact Hlast.
        -- cbn [length] in HF. lia.
        -- cbn [length] in HF. lia.
        -- cbn [length] in Hf. lia.
        -- discriminate.
        -- apply col_ok_adv. apply col_ok_adv. exact Hm.
      * discriminate.
      * intros E. specialize (H35 E). destruct (is_sp_cases b Hb) as [->| ->]; discriminate H35.
      * destruct acc; [contradiction|reflexivity].
Qed.
End Line.

(* ---- a whole line, from the head of the iteration that starts it ---- *)
Lemma plain_char_wf_nul flow p nx : plain_char_wf flow p 0 nx = false.
Proof. reflexivity. Qed.

Lemma line_run after (Q : list chr -> outcome (list chr * marker * sc strin) -> Prop) B
  (Hafter : forall f acc m, (B <= f)%nat -> acc <> [] -> col_ok m ->
            Q acc (after_chunk (ploop F indent start f) false 0 [] acc (st after L m false)))
  (Hstop : stops_chunk after) :
  forall c0 t acc lb tb ws endm l m w acc' f,
    plain_line_wf fl (c0 :: t) = true ->
    (w && (m_col m =? 0) = true -> doc_ind (c0 :: t ++ after) = false) ->
    (match acc with [] => true | _ => false end) && fl && (c0 =? 45) && is_flow (nth 0 (t ++ after) 0) = false ->
    flush w acc lb tb ws = (acc', false, 0, []) ->
    Nat.max (Nat.max l 4) 128 = L ->
    (2 * length t + 2 <= F)%nat -> (B + length t <= f)%nat -> col_ok m ->
    Q (rev t ++ c0 :: acc')
      (pbody F indent start (ploop F indent start f) acc lb tb ws endm (st (c0 :: t ++ after) l m w)).
Proof.
  intros c0 t acc lb tb ws endm l m w acc' f Hwf Hdi H76 Hfl Hl HF Hf Hm.
  unfold plain_line_wf in Hwf. apply andb_prop in Hwf. destruct Hwf as [Hwf Hch]. apply andb_prop in Hwf. destruct Hwf as [H0 Hlast].
  apply negb_true_iff in H0, Hlast.
  cbn [plain_line_chars_wf] in Hch. apply andb_prop in Hch. destruct Hch as [Hc Hch].
  destruct (real_next 0 c0 t after Hc H0) as [Hb [Hcb H35]].
  rewrite (pbody_word (ploop F indent start f) acc lb tb ws endm c0 (t ++ after) l m w acc' false 0 []); try assumption.
  - rewrite Hl.
    destruct (PW_PB after Q B Hafter Hstop t) as [W _].
    apply (W c0 F 0%nat f (c0 :: acc') (adv 1 m)); try assumption.
    + destruct t as [|c' t]; [reflexivity|]. rewrite last_cons_ne in Hlast by discriminate.
      rewrite (last_default_ne (c' :: t) 1 0) by discriminate. exact Hlast.
    + discriminate.
    + apply col_ok_adv. exact Hm.
  - intros E. specialize (H35 E). discriminate H35.
Qed.

(* ---- a break and the line after it ---- *)
Lemma nls_repeat k acc : nls (N.of_nat k) acc = repeat 10 k ++ acc.
Proof.
  unfold nls. induction k as [|k IH]; [reflexivity|].
  rewrite Nat2N.inj_succ, N.iter_succ, IH. reflexivity.
Qed.
Lemma rev_repeat10 k : rev (repeat 10 k) = repeat 10 k.
Proof.
  induction k as [|k IH]; [reflexivity|]. cbn [repeat rev]. rewrite IH.
  clear IH. induction k as [|k IH]; [reflexivity|]. cbn [repeat app]. rewrite IH. reflexivity.
Qed.
Lemma flush_fold k acc :
  flush true acc true (N.of_nat k) [] = (rev (break_text (Folded k)) ++ acc, false, 0, []).
Proof.
  unfold flush. cbn [negb]. destruct k as [|k].
  - reflexivity.
  - replace (N.of_nat (S k) =? 0) with false by (symmetry; apply N.eqb_neq; lia).
    rewrite nls_repeat. cbn [break_text]. rewrite rev_repeat10. reflexivity.
Qed.

(* a continuation line that is not a document marker in column 0 does not look like one to the scanner *)
Lemma no_marker_no_doc_ind line after :
  plain_line_chars_wf fl 0 line = true -> marker_at_col0 [] line = false -> stops_chunk after ->
  doc_ind (line ++ after) = false.
Proof.
  intros Hwf Hm Hs. unfold doc_ind.
  destruct (((nth 0 (line ++ after) 0 =? 46) && (nth 1 (line ++ after) 0 =? 46) && (nth 2 (line ++ after) 0 =? 46))
            || ((nth 0 (line ++ after) 0 =? 45) && (nth 1 (line ++ after) 0 =? 45) && (nth 2 (line ++ after) 0 =? 45))) eqn:E;
    [|apply andb_false_r].
  rewrite andb_true_r.
  assert (Hx : forall x y, (x = 45 \/ x = 46) -> stops_chunk (x :: y) -> False).
  { intros x y Hx [H|H]; cbn [nth] in H; destruct Hx as [->| ->]; try discriminate H.
    - unfold cbf in H. change (45 =? 58) with false in H. change (is_flow 45) with false in H.
      rewrite andb_false_r in H. discriminate H.
    - unfold cbf in H. change (46 =? 58) with false in H. change (is_flow 46) with false in H.
      rewrite andb_false_r in H. discriminate H. }
  assert (Hd : forall x y z, ((x =? 46) && (y =? 46) && (z =? 46)) || ((x =? 45) && (y =? 45) && (z =? 45)) = true ->
               (x = 45 \/ x = 46) /\ (y = 45 \/ y = 46) /\ (z = 45 \/ z = 46)).
  { intros x y z H. apply orb_prop in H. destruct H as [H|H]; apply andb_prop in H; destruct H as [H H3];
      apply andb_prop in H; destruct H as [H1 H2]; apply N.eqb_eq in H1, H2, H3; subst; auto. }
  destruct line as [|a [|b [|c [|d r]]]]; cbn [app nth] in *.
  - exfalso. destruct after as [|x y]; [cbn in E; discriminate E|].
    cbn [nth] in E. destruct (Hd _ _ _ E) as [H1 _]. exact (Hx x y H1 Hs).
  - exfalso. destruct after as [|x y]; [cbn [nth] in E; rewrite !andb_false_r in E; discriminate E|].
    cbn [nth] in E. destruct (Hd _ _ _ E) as [_ [H1 _]]. exact (Hx x y H1 Hs).
  - exfalso. destruct after as [|x y]; [cbn [nth] in E; rewrite !andb_false_r in E; discriminate E|].
    cbn [nth] in E. destruct (Hd _ _ _ E) as [_ [_ H1]]. exact (Hx x y H1 Hs).
  - exfalso. cbn [marker_at_col0] in Hm. rewrite andb_true_r in Hm. rewrite orb_comm in Hm. congruence.
  - cbn [marker_at_col0] in Hm. rewrite orb_comm in Hm. rewrite E in Hm. cbn [andb] in Hm.
    cbn [plain_line_chars_wf] in Hwf. repeat (apply andb_prop in Hwf; destruct Hwf as [? Hwf]).
    match goal with H : plain_char_wf fl c d _ = true |- _ => rename H into Hdw end.
    unfold is_blank_or_breakz, is_blank, is_breakz, is_break, is_z.
    apply orb_false_elim in Hm. destruct Hm as [Hm1 Hm2]. apply orb_false_elim in Hm1. destruct Hm1 as [Hm0 Hm1].
    unfold is_sp in Hm0. rewrite Hm0, Hm1, Hm2. cbn [orb].
    destruct (N.eqb_spec d 0) as [->|_]; [rewrite plain_char_wf_nul in Hdw; discriminate Hdw|reflexivity].
Qed.

Lemma render_brk_head b r : bl_escaped b = false -> forallb is_sp (bl_pad b) = true ->
  is_blank (nth 0 (render_brk b ++ r) 0) || is_break (nth 0 (render_brk b ++ r) 0) = true.
Proof.
  intros He Hp. unfold render_brk. rewrite He. destruct (bl_pad b) as [|x y]; [destruct (bl_nl b); reflexivity|].
  cbn [forallb] in Hp. apply andb_prop in Hp. destruct Hp as [Hx _]. cbn [app nth]. rewrite is_blank_sp, Hx. reflexivity.
Qed.

Lemma brk_step after (Q : list chr -> outcome (list chr * marker * sc strin) -> Prop) B
  (Hafter : forall f acc m, (B <= f)%nat -> acc <> [] -> col_ok m ->
            Q acc (after_chunk (ploop F indent start f) false 0 [] acc (st after L m false)))
  (Hstop : stops_chunk after) :
  forall b line f acc m,
    brk_wf n b = true -> bl_escaped b = false -> plain_line_wf fl line = true ->
    marker_at_col0 (bl_indent b) line = false ->
    (length (render_brk b) + 2 * length line + 2 <= F)%nat -> (B + length line + 1 <= f)%nat ->
    acc <> [] -> col_ok m ->
    Q (rev line ++ rev (break_text (brk_of b)) ++ acc)
      (after_chunk (ploop F indent start f) false 0 [] acc (st (render_brk b ++ line ++ after) L m false)).
Proof.
  intros b line f acc m Hb He Hline Hmk HF Hf Hacc Hm.
  destruct line as [|c0 t]; [discriminate Hline|].
  assert (Hline' := Hline).
  unfold plain_line_wf in Hline'. apply andb_prop in Hline'. destruct Hline' as [Hl1 Hch]. apply andb_prop in Hl1. destruct Hl1 as [H0 _].
  apply negb_true_iff in H0.
  assert (Hch' := Hch). cbn [plain_line_chars_wf] in Hch'. apply andb_prop in Hch'. destruct Hch' as [Hc _].
  destruct (real_next 0 c0 t after Hc H0) as [Hbz _].
  assert (Hbb : is_blank c0 = false /\ is_break c0 = false).
  { unfold is_blank_or_breakz, is_breakz in Hbz. apply orb_false_elim in Hbz. destruct Hbz as [H1 H2].
    apply orb_false_elim in H2. tauto. }
  assert (Hpad : forallb is_sp (bl_pad b) = true).
  { unfold brk_wf in Hb. repeat (apply andb_prop in Hb; destruct Hb as [Hb ?]). exact Hb. }
  rewrite after_chunk_st. rewrite ptail_blanks by (apply render_brk_head; assumption).
  cbn [app].
  pose proof (brk_cost_le b) as Hcost.
  destruct (pb_brk b (F - brk_cost b - 1) c0 (t ++ after) m Hb He (proj1 Hbb) (proj2 Hbb)) as [m' [Hcol [Hm' E]]].
  replace (brk_cost b + S (F - brk_cost b - 1))%nat with F in E by lia.
  rewrite (bind_Ok _ _ _ _ _ E).
  rewrite pafter_blanks_go by exact Hm'.
  destruct f as [|f]; [lia|]. cbn [ploop].
  unfold brk_of. rewrite He.
  cbn [rev]. rewrite <- app_assoc. cbn [app].
  apply (line_run after Q B Hafter Hstop c0 t acc true (N.of_nat (length (bl_empties b))) [] m L m' true); try assumption.
  - intros Hz. rewrite andb_true_l in Hz. apply N.eqb_eq in Hz. rewrite Hz in Hcol.
    assert (Hi : bl_indent b = []) by (destruct (bl_indent b); [reflexivity|cbn [length] in Hcol; lia]).
    rewrite Hi in Hmk. exact (no_marker_no_doc_ind (c0 :: t) after Hch Hmk Hstop).
  - destruct acc; [contradiction|reflexivity].
  - apply flush_fold.
  - apply max_L.
  - cbn [length] in HF. lia.
  - cbn [length] in Hf. lia.
Qed.

(* ---- the end of the scalar ---- *)
Lemma pbody_end (go : GO) acc lb tb ws endm c l m w :
  acc <> [] -> is_blank (nth 0 c 0) = false -> is_break (nth 0 c 0) = false ->
  (nth 0 c 0 = 35 \/ is_z (nth 0 c 0) = true \/ cbf fl (nth 0 c 0) (nth 1 c 0) = false
   \/ (w = true /\ m_col m = 0 /\ doc_ind c = true)) ->
  pbody F indent start go acc lb tb ws endm (st c l m w) = Ok ((acc, endm), st c (Nat.max l 4) m w).
Proof.
  intros Hacc Hb Hk Hx. unfold pbody.
  mstep (look_st 4 s0 c l m w).
  mstep (get_st s0 c (Nat.max l 4) m w). cbn [sc_lws sc_mark sc_flow_level st_with].
  assert (Edi : (if w && (m_col m =? 0) then next_is_document_indicator ops else ret false) (st c (Nat.max l 4) m w)
                = Ok ((w && (m_col m =? 0)) && doc_ind c, st c (Nat.max l 4) m w)).
  { destruct (w && (m_col m =? 0)) eqn:E; [|reflexivity]. rewrite nidi_st by lia. reflexivity. }
  mstep Edi. unfold peek. mstep (peekn_st 0 s0 c (Nat.max l 4) m w).
  destruct ((w && (m_col m =? 0)) && doc_ind c) eqn:Ed; [reflexivity|]. cbn [orb].
  destruct (N.eqb_spec (nth 0 c 0) 35) as [E35|E35]; [reflexivity|].
  mstep (peekn_st 1 s0 c (Nat.max l 4) m w).
  destruct acc as [|a0 acc0]; [contradiction|]. cbn [andb]. cbv iota.
  assert (Ecb : (if is_blank_or_breakz (nth 0 c 0) then ret false else next_can_be_plain_scalar ops fl) (st c (Nat.max l 4) m w)
                = Ok (false, st c (Nat.max l 4) m w)).
  { destruct (is_blank_or_breakz (nth 0 c 0)) eqn:Ez; [reflexivity|].
    rewrite ncbps_st. destruct Hx as [Hx|[Hx|[Hx|[Hw [Hc Hd]]]]].
    - contradiction.
    - unfold is_blank_or_breakz, is_breakz in Ez. rewrite Hx in Ez. rewrite !orb_true_r in Ez. discriminate Ez.
    - rewrite Hx. reflexivity.
    - rewrite Hw, Hc, Hd in Ed. discriminate Ed. }
  mstep Ecb. rewrite (bind_Ok (ret _) _ _ _ _ eq_refl).
  apply ptail_stop; assumption.
Qed.

Definition ends_here (c : list N) (m : marker) (w : bool) : Prop :=
  is_blank (nth 0 c 0) = false /\ is_break (nth 0 c 0) = false /\
  ((nth 0 c 0 = 35 \/ is_z (nth 0 c 0) = true \/ cbf fl (nth 0 c 0) (nth 1 c 0) = false
    \/ (w = true /\ m_col m = 0 /\ doc_ind c = true))
   \/ (fl = false /\ (Z.of_N (m_col m) < indent)%Z)).

Definition Qf (final : list chr) (o : outcome (list chr * marker * sc strin)) : Prop :=
  exists endm s', o = Ok ((final, endm), s').

Lemma pafter_ends f acc endm lb tb ws c l m w :
  ends_here c m w -> acc <> [] ->
  Qf acc (pafter_blanks indent (ploop F indent start (S f)) acc endm (lb, tb, ws) (st c l m w)).
Proof.
  intros [Hb [Hk Hx]] Hacc. unfold pafter_blanks. mstep (get_st s0 c l m w). cbn [sc_flow_level sc_mark st_with].
  destruct ((sc_flow_level s0 =? 0) && (Z.of_N (m_col m) <? indent)%Z) eqn:E; [eexists; eexists; reflexivity|].
  destruct Hx as [Hx|[Hf Hc]].
  - cbn [ploop]. rewrite pbody_end by assumption. eexists; eexists; reflexivity.
  - exfalso. apply Z.ltb_lt in Hc. rewrite Hc in E. rewrite andb_true_r in E.
    apply N.ltb_ge in Hf. apply N.eqb_neq in E. lia.
Qed.

Lemma marker_doc_ind r : marker_at_col0 [] r = true -> doc_ind r = true.
Proof.
  unfold marker_at_col0, doc_ind. destruct r as [|a [|b [|c r]]]; try discriminate.
  intros H. apply andb_prop in H. destruct H as [H1 H2]. cbn [nth]. rewrite orb_comm, H1, andb_true_r.
  destruct r as [|d r]; [reflexivity|]. cbn [nth].
  unfold is_blank_or_breakz, is_breakz, is_break, is_blank. unfold is_sp in H2.
  destruct ((d =? 32) || (d =? 9)); [reflexivity|]. cbn [orb] in *. apply orb_prop in H2. destruct H2 as [H2|H2]; rewrite H2; [reflexivity|].
  rewrite orb_true_r. reflexivity.
Qed.

Lemma generic_terminator_cases x r' :
  generic_terminator fl x (hd 0 r') = true -> x = 35 \/ cbf fl x (nth 0 r' 0) = false.
Proof.
  intros H.
  unfold generic_terminator in H. apply orb_prop in H. destruct H as [H|H]; [apply orb_prop in H; destruct H as [H|H]|].
  - left. apply N.eqb_eq. exact H.
  - right. unfold cbf. rewrite !is_flow_spec, H. destruct ((x =? 58) && _); reflexivity.
  - right. apply andb_prop in H. destruct H as [H1 H2]. unfold cbf. rewrite H1. cbn [andb].
    rewrite <- hd_nth. unfold is_blank_or_breakz. rewrite is_blank_sp, is_flow_spec. rewrite H2. reflexivity.
Qed.
Lemma generic_terminator_ends x r' m w :
  generic_terminator fl x (hd 0 r') = true -> is_blank_or_breakz x = false -> ends_here (x :: r') m w.
Proof.
  intros H Hz. unfold ends_here. cbn [nth].
  unfold is_blank_or_breakz, is_breakz in Hz. apply orb_false_elim in Hz. destruct Hz as [Hb Hz]. apply orb_false_elim in Hz.
  split; [exact Hb|]. split; [tauto|]. left.
  destruct (generic_terminator_cases x r' H) as [E|E]; [left; exact E|right; right; left; exact E].
Qed.

(* a break at the head of [c :: r']: its kind, and what follows it *)
Lemma break_split c r' : is_break c = true ->
  exists k r2, c :: r' = nl_src k ++ r2 /\ cr_ok k r2 /\ (length r2 <= length r')%nat
               /\ r2 = (if c =? 10 then r' else match r' with c2 :: r'' => if c2 =? 10 then r'' else r' | [] => r' end).
Proof.
  intros Hc. unfold is_break in Hc. apply orb_prop in Hc. destruct Hc as [Hc|Hc]; apply N.eqb_eq in Hc; subst c.
  - exists NlLF, r'. split; [reflexivity|]. split; [intros E; discriminate E|]. split; [lia|reflexivity].
  - change (13 =? 10) with false. cbv iota. destruct r' as [|c2 r''].
    + exists NlCR, []. split; [reflexivity|]. split; [intros _; reflexivity|]. split; [lia|reflexivity].
    + destruct (N.eqb_spec c2 10) as [->|Hne].
      * exists NlCRLF, r''. split; [reflexivity|]. split; [intros E; discriminate E|]. split; [cbn [length]; lia|reflexivity].
      * exists NlCR, (c2 :: r''). split; [reflexivity|]. split; [intros _; cbn [nth]; apply N.eqb_neq; exact Hne|]. split; [lia|reflexivity].
Qed.

(* the lines after the break that follows the last line *)
Lemma after_break_run : forall len r col fb f lb tb ws m acc endm,
  (length r <= len)%nat ->
  after_break_ok fl (sc_indent s0) col r = true -> m_col m = N.of_nat col -> (length r < fb)%nat -> acc <> [] ->
  Qf acc (bind (pblanks fb indent start lb tb ws) (pafter_blanks indent (ploop F indent start (S f)) acc endm) (st r L m true)).
Proof.
  assert (Hnil : forall fb f lb tb ws m acc endm, (0 < fb)%nat -> acc <> [] ->
            Qf acc (bind (pblanks fb indent start lb tb ws) (pafter_blanks indent (ploop F indent start (S f)) acc endm) (st [] L m true))).
  { intros fb f lb tb ws m acc endm Hfb Hacc. destruct fb as [|fb]; [lia|].
    rewrite (bind_Ok _ _ _ _ _ (pb_stop fb lb tb ws [] m true eq_refl eq_refl)).
    apply pafter_ends; [|exact Hacc]. split; [reflexivity|]. split; [reflexivity|]. left. right. left. reflexivity. }
  induction len as [|len IH]; intros r col fb f lb tb ws m acc endm Hlen H Hc Hfb Hacc.
  { destruct r as [|c r]; [apply Hnil; [lia|exact Hacc]|cbn [length] in Hlen; lia]. }
  destruct r as [|c r]; [apply Hnil; [lia|exact Hacc]|].
  destruct fb as [|fb]; [cbn in Hfb; lia|]. cbn [after_break_ok] in H.
  destruct (N.eqb_spec c 32) as [->|H32].
  - rewrite (bind_congr _ _ _ _ _ (pb_blank_skip fb lb tb ws 32 r m eq_refl ltac:(discriminate))).
    apply (IH r (S col)); [cbn [length] in Hlen; lia|exact H|rewrite adv_col, Hc; lia|cbn [length] in Hfb; lia|exact Hacc].
  - destruct (is_break c) eqn:Ek.
    + (* a break: LF, CR, CR LF *)
      destruct (break_split c r Ek) as [k [r2 [Esrc [Hcr [Hl2 Er2]]]]].
      assert (H2 : after_break_ok fl (sc_indent s0) O r2 = true).
      { rewrite Er2. unfold is_break in Ek. destruct (N.eqb_spec c 10) as [->|H10]; [exact H|].
        cbn [orb] in Ek. rewrite Ek in H. exact H. }
      rewrite Esrc. rewrite (bind_congr _ _ _ _ _ (pb_nl_more k fb lb tb ws r2 m Hcr)).
      apply (IH r2 O); [cbn [length] in Hlen; lia|exact H2|apply nl_mark_col|cbn [length] in Hfb; lia|exact Hacc].
    + unfold is_break in Ek. apply orb_false_elim in Ek. destruct Ek as [E10 E13]. rewrite E10, E13 in H.
      apply andb_prop in H. destruct H as [Hz H]. apply negb_true_iff in Hz.
      assert (Hbb : is_blank c = false /\ is_break c = false).
      { unfold is_blank_or_breakz, is_breakz in Hz. apply orb_false_elim in Hz. destruct Hz as [H1 H2].
        apply orb_false_elim in H2. tauto. }
      rewrite (bind_Ok _ _ _ _ _ (pb_stop fb lb tb ws (c :: r) m true (proj1 Hbb) (proj2 Hbb))).
      apply pafter_ends; [|exact Hacc].
      apply orb_prop in H. destruct H as [H|H]; [apply orb_prop in H; destruct H as [H|H]|].
      * apply generic_terminator_ends; assumption.
      * apply andb_prop in H. destruct H as [Hf Hcol]. apply negb_true_iff in Hf. apply Z.leb_le in Hcol.
        split; [tauto|]. split; [tauto|]. right. split; [exact Hf|]. rewrite Hc. lia.
      * apply andb_prop in H. destruct H as [H0 Hmk]. apply Nat.eqb_eq in H0. subst col.
        split; [tauto|]. split; [tauto|]. left. right. right. right.
        split; [reflexivity|]. split; [exact Hc|]. apply marker_doc_ind. exact Hmk.
Qed.

(* blanks, then something that ends the scalar *)
Lemma blanks_then_end bs r f acc m :
  bs <> [] -> forallb is_sp bs = true -> ends_here r (adv (N.of_nat (length bs)) m) false ->
  (length bs < F)%nat -> acc <> [] ->
  Qf acc (after_chunk (ploop F indent start (S f)) false 0 [] acc (st (bs ++ r) L m false)).
Proof.
  intros Hne Hbs He HF Hacc. rewrite after_chunk_st.
  rewrite ptail_blanks.
  2:{ destruct bs as [|b bs]; [contradiction|]. cbn [forallb] in Hbs. apply andb_prop in Hbs. destruct Hbs as [Hb _].
      cbn [app nth]. rewrite is_blank_sp, Hb. reflexivity. }
  replace F with (length bs + S (F - length bs - 1))%nat at 2 by lia.
  rewrite (bind_congr _ _ _ _ _ (pb_blanks_ws bs _ false 0 [] r m Hbs)).
  destruct He as [Hb [Hk Hx]].
  rewrite (bind_Ok _ _ _ _ _ (pb_stop _ false 0 _ r _ false Hb Hk)).
  apply pafter_ends; [|exact Hacc]. split; [exact Hb|]. split; [exact Hk|exact Hx].
Qed.

Lemma follower_run rest :
  plain_follower_ok fl (sc_indent s0) rest = true ->
  stops_chunk rest /\
  forall f acc m, (length rest + 2 <= F)%nat -> acc <> [] -> col_ok m ->
    Qf acc (after_chunk (ploop F indent start (S f)) false 0 [] acc (st rest L m false)).
Proof.
  unfold plain_follower_ok. destruct (split_leading rest) as [Hsplit [Hbs Hhd]].
  set (bs := take_leading rest) in *. set (r := drop_leading rest) in *.
  intros H.
  assert (Hstop_b : bs <> [] -> stops_chunk rest).
  { intros Hne. left. rewrite Hsplit. destruct bs as [|b bs']; [contradiction|].
    cbn [forallb] in Hbs. apply andb_prop in Hbs. destruct Hbs as [Hb _].
    cbn [app nth]. unfold is_blank_or_breakz. rewrite is_blank_sp, Hb. reflexivity. }
  assert (Hlen : length rest = (length bs + length r)%nat) by (rewrite Hsplit at 1; apply app_length).
  destruct r as [|c r'] eqn:Er.
  - (* end of input *)
    split.
    + destruct bs as [|b bs'] eqn:Eb; [|apply Hstop_b; discriminate]. left. rewrite Hsplit. reflexivity.
    + intros f acc m HF Hacc Hm. rewrite Hsplit.
      destruct bs as [|b bs'] eqn:Eb.
      * cbn [app]. rewrite after_chunk_st. rewrite ptail_stop by reflexivity. eexists; eexists; reflexivity.
      * rewrite <- Eb in *. apply blanks_then_end; try assumption; try lia; [rewrite Eb; discriminate|].
        split; [reflexivity|]. split; [reflexivity|]. left. right. left. reflexivity.
  - cbn [hd] in Hhd.
    destruct (is_break c) eqn:Ek.
    + (* a break *)
      destruct (break_split c r' Ek) as [k [r2 [Esrc [Hcr [Hl2 Er2]]]]].
      assert (H2 : after_break_ok fl (sc_indent s0) O r2 = true).
      { rewrite Er2. cbn [after_break_ok] in H. assert (E32 : (c =? 32) = false).
        { unfold is_sp in Hhd. apply orb_false_elim in Hhd. tauto. }
        rewrite E32 in H. unfold is_break in Ek. destruct (N.eqb_spec c 10) as [->|H10]; [exact H|].
        cbn [orb] in Ek. rewrite Ek in H. exact H. }
      split.
      * destruct bs as [|b bs'] eqn:Eb; [|apply Hstop_b; discriminate]. left. rewrite Hsplit. cbn [app nth].
        unfold is_blank_or_breakz, is_breakz. rewrite Ek. rewrite orb_true_r. reflexivity.
      * intros f acc m HF Hacc Hm. rewrite Hsplit. rewrite after_chunk_st.
        rewrite ptail_blanks.
        2:{ destruct bs as [|b bs']; [cbn [app nth]; rewrite Ek; apply orb_true_r|].
            cbn [forallb] in Hbs. apply andb_prop in Hbs. destruct Hbs as [Hb _]. cbn [app nth]. rewrite is_blank_sp, Hb. reflexivity. }
        replace F with (length bs + S (F - length bs - 1))%nat at 2 by (cbn [length] in Hlen; lia).
        rewrite (bind_congr _ _ _ _ _ (pb_blanks_ws bs _ false 0 [] (c :: r') m Hbs)).
        rewrite Esrc.
        rewrite (bind_congr _ _ _ _ _ (pb_nl_first k _ false 0 _ r2 _ Hcr)).
        apply (after_break_run (length r2) r2 O); [lia|exact H2|apply nl_mark_col|cbn [length] in Hlen; lia|exact Hacc].
    + assert (Hbl : is_blank c = false) by (rewrite is_blank_sp; exact Hhd).
      destruct (N.eqb_spec c 35) as [->|H35].
      * (* a comment *)
        apply negb_true_iff in H. apply Nat.eqb_neq in H.
        assert (Hne : bs <> []) by (intros E; rewrite E in Hlen; cbn [length] in Hlen, H; lia).
        split; [apply Hstop_b; exact Hne|].
        intros f acc m HF Hacc Hm. rewrite Hsplit.
        apply blanks_then_end; try assumption; try lia.
        split; [reflexivity|]. split; [reflexivity|]. left. left. reflexivity.
      * (* a flow indicator, a colon *)
        assert (Hg : generic_terminator fl c (hd 0 r') = true).
        { unfold generic_terminator. apply orb_prop in H. destruct H as [H|H]; rewrite H; [rewrite orb_true_r|]; try reflexivity.
          apply orb_true_r. }
        assert (Hz : is_blank_or_breakz c = false).
        { unfold is_blank_or_breakz, is_breakz. rewrite Hbl, Ek. cbn [orb].
          unfold generic_terminator in Hg. unfold is_z. destruct (N.eqb_spec c 0) as [->|_]; [|reflexivity].
          destruct fl; discriminate Hg. }
        assert (He : forall m w, ends_here (c :: r') m w) by (intros; apply generic_terminator_ends; assumption).
        split.
        { destruct bs as [|b bs'] eqn:Eb; [|apply Hstop_b; discriminate]. rewrite Hsplit. cbn [app].
          destruct (generic_terminator_cases c r' Hg) as [E|E]; [contradiction|]. right. exact E. }
        intros f acc m HF Hacc Hm. rewrite Hsplit.
        destruct bs as [|b bs'] eqn:Eb.
        -- cbn [app]. rewrite after_chunk_st. rewrite ptail_stop by (cbn [nth]; assumption). eexists; eexists; reflexivity.
        -- rewrite <- Eb in *. apply blanks_then_end; try assumption; try lia; [rewrite Eb; discriminate|apply He].
Qed.

(* ---- all the lines after the first ---- *)
Section Lines.
Variable rest : list N.
Hypothesis Hfollow : plain_follower_ok fl (sc_indent s0) rest = true.

Lemma stops_src_more more : more_wf fl n more = true -> stops_chunk (src_more more ++ rest).
Proof.
  destruct more as [|[b l] more]; intros H.
  - exact (proj1 (follower_run rest Hfollow)).
  - left. cbn [more_wf forallb fst snd] in H. repeat (apply andb_prop in H; destruct H as [H ?]).
    match goal with H : negb (bl_escaped b) = true |- _ => apply negb_true_iff in H; rename H into He end.
    assert (Hpad : forallb is_sp (bl_pad b) = true).
    { unfold brk_wf in H. repeat (apply andb_prop in H; destruct H as [H ?]). exact H. }
    cbn [src_more flat_map fst snd]. rewrite <- !app_assoc.
    pose proof (render_brk_head b (l ++ flat_map (fun p => render_brk (fst p) ++ snd p) more ++ rest) He Hpad) as Hh.
    unfold is_blank_or_breakz, is_breakz. apply orb_prop in Hh. destruct Hh as [Hh|Hh]; rewrite Hh; [reflexivity|].
    rewrite orb_true_r. reflexivity.
Qed.

Lemma lines_run : forall more f acc m,
  more_wf fl n more = true ->
  (length (src_more more ++ rest) + 2 <= f)%nat -> (2 * length (src_more more ++ rest) + 6 <= F)%nat ->
  acc <> [] -> col_ok m ->
  Qf (rev (rest_text more) ++ acc)
     (after_chunk (ploop F indent start f) false 0 [] acc (st (src_more more ++ rest) L m false)).
Proof.
  induction more as [|[b line] more IH]; intros f acc m Hwf Hf HF Hacc Hm.
  - destruct f as [|f]; [lia|]. cbn [src_more flat_map app rest_text rev] in *.
    apply (proj2 (follower_run rest Hfollow)); [lia|exact Hacc|exact Hm].
  - assert (Hwf0 := Hwf).
    cbn [more_wf forallb fst snd] in Hwf. apply andb_prop in Hwf. destruct Hwf as [Hhd Hwf'].
    do 3 (apply andb_prop in Hhd; destruct Hhd as [Hhd ?]).
    match goal with H : negb (bl_escaped b) = true |- _ => apply negb_true_iff in H; rename H into He end.
    match goal with H : negb (marker_at_col0 _ _) = true |- _ => apply negb_true_iff in H; rename H into Hmk end.
    cbn [src_more flat_map fst snd] in *. fold (src_more more) in *.
    rewrite <- !app_assoc in *. rewrite !app_length in Hf, HF.
    cbn [rest_text]. rewrite !rev_app_distr, <- !app_assoc.
    apply (brk_step (src_more more ++ rest) (fun a o => Qf (rev (rest_text more) ++ a) o) (length (src_more more ++ rest) + 2)%nat);
      try assumption.
    + intros f' acc' m' HB' Hacc' Hm'. apply IH; try assumption. rewrite ?app_length in *. lia.
    + apply stops_src_more. exact Hwf'.
    + rewrite ?app_length in *. lia.
    + assert (1 <= length (render_brk b))%nat by (unfold render_brk; rewrite !app_length; pose proof (nl_src_len (bl_nl b)); lia).
      rewrite ?app_length in *. lia.
Qed.
End Lines.
End Plain.

(* ================================================================================================= *)
(* the theorem                                                                                       *)
(* ================================================================================================= *)
(* the indentation scan_plain_scalar works with: that of the innermost block collection that is not an
   indentless sequence / a one-column indent (unroll_non_block_indents) *)
Definition eff_indent (s : sc strin) : Z := fst (unroll_nb (sc_indents s) (sc_indent s)).

Definition C04_plain_full : Prop :=
  forall (F n : nat) (first : list N) (more : list (brk_layout * list N)) (rest : list N) (s : sc strin),
    plain_layout_wf (0 <? sc_flow_level s) n first more = true ->
    si_chars (sc_in s) = plain_render first more ++ rest ->
    plain_follower_ok (0 <? sc_flow_level s) (eff_indent s) rest = true ->
    (eff_indent s < Z.of_nat n)%Z ->                              (* continuation lines are indented deeper than the block *)
    (eff_indent s < Z.of_N (m_col (sc_mark s)))%Z ->              (* ... and so is the first line *)
    (sc_lws s = true -> m_col (sc_mark s) = 0 -> marker_at_col0 [] first = false) ->   (* c-forbidden *)
    (2 * length (si_chars (sc_in s)) + 10 <= F)%nat ->
    exists sp s',
      scan_plain_scalar str_ops F s = Ok ((sp, TScalar Plain (plain_text first more)), s')
      /\ sp_start sp = sc_mark s.

Lemma scan_plain_scalar_text : C04_plain_full.
Proof.
  intros F n first more rest s Hwf Hsrc Hfollow Hn Hcol Hmk HF.
  set (s1 := let '(ind, l) := unroll_nb (sc_indents s) (sc_indent s) in set_indent ind l s).
  assert (E1 : unroll_non_block_indents s = Ok (tt, s1)) by reflexivity.
  assert (Hs1 : sc_indent s1 = eff_indent s /\ sc_flow_level s1 = sc_flow_level s /\ sc_mark s1 = sc_mark s
                /\ sc_in s1 = sc_in s /\ sc_lws s1 = sc_lws s).
  { unfold s1, eff_indent. destruct (unroll_nb (sc_indents s) (sc_indent s)) as [ind l]. repeat split. }
  destruct Hs1 as [Hi1 [Hf1 [Hm1 [Hin1 Hw1]]]].
  assert (Hrun : scan_plain_scalar str_ops F s
                 = (r <- ploop F (sc_indent s1 + 1) (sc_mark s) F [] false 0 [] (sc_mark s) ;; pfinish (sc_mark s) r)
                     (st_with s1 (plain_render first more ++ rest) (si_look (sc_in s)) (sc_mark s) (sc_lws s))).
  { rewrite scan_plain_scalar_phases.
    mstep E1. mstep (eq_refl : get s1 = Ok (s1, s1)). cbv zeta.
    rewrite Hf1, Hm1, Hi1.
    replace (Z.of_N (m_col (sc_mark s)) <? eff_indent s + 1)%Z with false by (symmetry; apply Z.ltb_ge; lia).
    rewrite andb_false_r.
    rewrite <- Hsrc, <- Hin1, <- Hw1. f_equal. rewrite <- Hm1. apply st_with_id. }
  rewrite Hrun. clear Hrun. clearbody s1. clear E1.
  set (l := si_look (sc_in s)). set (m := sc_mark s). set (w := sc_lws s).
  set (L := Nat.max (Nat.max l 4) 128).
  assert (HL : (128 <= L)%nat) by (unfold L; lia).
  unfold plain_layout_wf in Hwf. apply andb_prop in Hwf. destruct Hwf as [Hwf Hmore].
  apply andb_prop in Hwf. destruct Hwf as [Hfirst Hline].
  rewrite <- Hf1 in Hfirst, Hline, Hmore, Hfollow. rewrite <- Hi1 in Hfollow, Hn, Hcol.
  fold (more_wf (0 <? sc_flow_level s1) n more) in Hmore.
  destruct first as [|c0 t]; [discriminate Hline|].
  rewrite Hsrc in HF.
  unfold plain_render in *. fold (src_more more) in *. rewrite <- app_assoc in *. cbn [app] in *. cbn [length] in HF. rewrite app_length in HF.
  destruct F as [|f]; [lia|].
  assert (Hn' : (sc_indent s1 + 1 <= Z.of_nat n)%Z) by lia.
  assert (Hstop : stops_chunk s1 (src_more more ++ rest)).
  { apply (stops_src_more (S f) s1 m L HL n rest Hfollow). exact Hmore. }
  assert (Hch : plain_line_chars_wf (0 <? sc_flow_level s1) 0 (c0 :: t) = true).
  { unfold plain_line_wf in Hline. apply andb_prop in Hline. tauto. }
  cbn [ploop].
  pose proof (line_run (S f) s1 m L HL n (src_more more ++ rest)
                (fun a o => Qf (rev (rest_text more) ++ a) o) (length (src_more more ++ rest) + 2)%nat) as LR.
  destruct (LR (fun f' acc' m' HB' Hacc' Hm' =>
                  lines_run (S f) s1 m L HL n Hn' rest Hfollow more f' acc' m' Hmore HB' ltac:(lia) Hacc' Hm')
               Hstop c0 t [] false 0 [] m l m w [] f Hline) as [endm [s' E]].
  - intros Hz. apply andb_prop in Hz. destruct Hz as [Hz1 Hz2]. apply N.eqb_eq in Hz2.
    apply (no_marker_no_doc_ind s1 (c0 :: t) (src_more more ++ rest) Hch); [|exact Hstop].
    apply Hmk; assumption.
  - cbn [andb]. destruct (N.eqb_spec c0 45) as [->|H45]; [|rewrite andb_false_r; reflexivity].
    rewrite andb_true_r. unfold plain_first_wf in Hfirst. change (c_indicator 45) with true in Hfirst.
    cbn [negb orb] in Hfirst. apply andb_prop in Hfirst. destruct Hfirst as [_ Hsafe].
    destruct t as [|c1 t]; [discriminate Hsafe|]. cbn [hd app nth] in *.
    exact (proj2 (ns_plain_safe_facts _ _ Hsafe)).
  - destruct w; reflexivity.
  - reflexivity.
  - lia.
  - lia.
  - unfold col_ok. fold m in Hcol. lia.
  - assert (Erev : rev (rest_text more) ++ rev t ++ [c0] = rev ((c0 :: t) ++ rest_text more))
      by (rewrite rev_app_distr; cbn [rev]; reflexivity).
    cbv beta in E. unfold chr in *. rewrite Erev in E. clear Erev. rewrite plain_text_rest.
    assert (Einv : rev (rev ((c0 :: t) ++ rest_text more)) = (c0 :: t) ++ rest_text more) by apply rev_involutive.
    revert E Einv. destruct (rev ((c0 :: t) ++ rest_text more)) as [|x y] eqn:Er; intros E Einv.
    { apply (f_equal (@length N)) in Er. rewrite rev_length in Er. discriminate Er. }
    rewrite (bind_Ok _ _ _ _ _ E).
    unfold pfinish. mstep (eq_refl : get s' = Ok (s', s')).
    assert (Ea : exists s'', (if sc_lws s' then allow_simple_key else ret tt) s' = Ok (tt, s'')).
    { destruct (sc_lws s'); eexists; reflexivity. }
    destruct Ea as [s'' Ea]. mstep Ea. cbn [fst snd]. unfold chr. rewrite Einv.
    eexists. eexists. split; reflexivity.
Qed.
