(* C17, scanner half: what the scanner's observable flags say at the moment the StreamEnd token is handed out.

   Generic in the input type and its operations, for every fuel parameter, for every state.

   [SEInv]: as long as the scanner has not handed out StreamEnd, its queue either holds no StreamEnd token at all, or
   ([Fin]) it ends with exactly one, whose span is the empty span AT THE SCANNER'S CURRENT MARK, and no simple key is
   possible - so fetch_more_tokens never fetches again and the mark never moves again.
   [next_token_se]: next_token sets [sc_stream_end] exactly when the token it hands out is StreamEnd, and that token's
   span is [span_empty (sc_mark s')] in the state [s'] it leaves behind: Scanner::mark() after StreamEnd has been
   handed out IS the position of the StreamEnd token. *)
From Coq Require Import List NArith ZArith Bool Lia.
Import ListNotations.
Require Import Parser SBase SPrim SDir SScalar SFetch ScanFrame DocScan.

Definition is_se (t : tok) : bool := match t with TStreamEnd => true | _ => false end.
Definition tnse (t : token) : Prop := is_se (snd t) = false.
Definition allclr (l : list simple_key) : Prop := Forall (fun k => sk_possible k = false) l.

Section Keep.
Context {I : Type}.
Notation st := (sc I).
Notation M := (@M I).

Definition NoSE (s : st) : Prop := forall t, In t (sc_tokens s) -> tnse t.
Definition Fin (s : st) : Prop :=
  allclr (sc_sks s) /\ exists l, sc_tokens s = l ++ [(span_empty (sc_mark s), TStreamEnd)] /\ (forall t, In t l -> tnse t).
Definition SEInv (s : st) : Prop := sc_stream_end s = false -> NoSE s \/ Fin s.

(* a step that may queue tokens, none of them StreamEnd, and does not touch the stream-end flag *)
Definition fl (s s' : st) : Prop :=
  sc_stream_end s' = sc_stream_end s /\ (sc_stream_start s = true -> sc_stream_start s' = true).
Definition kp (s s' : st) : Prop :=
  (forall t, In t (sc_tokens s') -> In t (sc_tokens s) \/ tnse t) /\ fl s s'.
Lemma fl_refl s : fl s s.
Proof. split; auto. Qed.
Lemma fl_trans a b c : fl a b -> fl b c -> fl a c.
Proof. intros [A1 A2] [B1 B2]. split; [congruence|auto]. Qed.
Definition Keeps {A} (m : M A) : Prop := forall s a s', m s = Ok (a, s') -> kp s s'.

Lemma kp_refl s : kp s s.
Proof. split; [auto|apply fl_refl]. Qed.
Lemma kp_trans a b c : kp a b -> kp b c -> kp a c.
Proof.
  intros [A1 A2] [B1 B2]. split; [|eapply fl_trans; eauto]. intros t Ht. destruct (B1 t Ht) as [H|H]; [|right; exact H]. apply A1, H.
Qed.
Lemma kp_same s s' : sc_tokens s' = sc_tokens s -> sc_stream_end s' = sc_stream_end s ->
  sc_stream_start s' = sc_stream_start s -> kp s s'.
Proof. intros A B C. split; [|split; [exact B|congruence]]. intros t Ht. left. rewrite <- A. exact Ht. Qed.
Lemma kp_NoSE s s' : kp s s' -> NoSE s -> NoSE s'.
Proof. intros [A _] H t Ht. destruct (A t Ht) as [X|X]; [apply H, X|exact X]. Qed.

Lemma Keeps_ret {A} (a : A) : Keeps (ret a).
Proof. intros s a' s' H. inversion H; subst. apply kp_refl. Qed.
Lemma Keeps_fail {A} e mk : Keeps (@fail I A e mk).
Proof. intros s a s' H. discriminate. Qed.
Lemma Keeps_panic {A} n : Keeps (@panic I A n).
Proof. intros s a s' H. discriminate. Qed.
Lemma Keeps_oof {A} : Keeps (@oof I A).
Proof. intros s a s' H. discriminate. Qed.
Lemma Keeps_get : Keeps (@get I).
Proof. intros s a s' H. inversion H; subst. apply kp_refl. Qed.
Lemma Keeps_gets {A} (f : st -> A) : Keeps (gets f).
Proof. intros s a s' H. inversion H; subst. apply kp_refl. Qed.
Lemma Keeps_modify f : (forall s, kp s (f s)) -> Keeps (modify f).
Proof. intros Hf s a s' H. inversion H; subst. apply Hf. Qed.
Lemma Keeps_bind {A B} (m : M A) (f : A -> M B) : Keeps m -> (forall a, Keeps (f a)) -> Keeps (bind m f).
Proof.
  intros Hm Hf s b s'. unfold bind. destruct (m s) as [[a s1]| | |] eqn:E; try discriminate.
  intros H. eapply kp_trans; [eapply Hm; eauto|eapply Hf; eauto].
Qed.
Lemma Keeps_bind2 {A B} (R : A -> Prop) (m : M A) (f : A -> M B) :
  Res R m -> Keeps m -> (forall a, R a -> Keeps (f a)) -> Keeps (bind m f).
Proof.
  intros HR Hm Hf s b s'. unfold bind. destruct (m s) as [[a s1]| | |] eqn:E; try discriminate.
  intros H. eapply kp_trans; [eapply Hm; eauto|eapply Hf; [eapply HR; eauto|eauto]].
Qed.
Lemma Keeps_get_bind {B} (f : st -> M B) : (forall s0, Keeps (f s0)) -> Keeps (bind get f).
Proof. intros H s b s' E. unfold bind, get in E. eapply H; eauto. Qed.
Lemma Keeps_of_Fr {A} (m : M A) : Fr m -> Keeps m.
Proof.
  intros HF s a s' E. destruct (HF _ _ _ E) as (_ & _ & _ & F4 & _ & F6 & F7 & _). apply kp_same; assumption.
Qed.
Lemma Keeps_push_tok t : tnse t -> Keeps (@push_tok I t).
Proof.
  intros Ht. apply Keeps_modify. intros s. split; [|split; [reflexivity|intro X; exact X]]. cbn. intros u Hu. apply in_app_or in Hu.
  destruct Hu as [Hu|[<-|[]]]; [left; exact Hu|right; exact Ht].
Qed.
Lemma insert_at_In {A} (x : A) : forall n l l', insert_at n x l = Some l' -> forall y, In y l' -> y = x \/ In y l.
Proof.
  induction n as [|n IH]; intros l l' E y Hy; cbn [insert_at] in E.
  - inversion E; subst. destruct Hy as [<-|Hy]; auto.
  - destruct l as [|z r]; [discriminate|]. destruct (insert_at n x r) as [r'|] eqn:E'; [|discriminate].
    inversion E; subst. destruct Hy as [<-|Hy]; [right; left; reflexivity|].
    destruct (IH _ _ E' _ Hy) as [->|H]; [left; reflexivity|right; right; exact H].
Qed.
Lemma Keeps_insert_token pos t : tnse t -> Keeps (@insert_token I pos t).
Proof.
  intros Ht s a s' E. unfold insert_token in E. destruct (insert_at _ t (sc_tokens s)) as [l|] eqn:EI; [|discriminate].
  inversion E; subst. split; [|split; [reflexivity|intro X; exact X]]. cbn. intros u Hu. destruct (insert_at_In _ _ _ _ EI _ Hu) as [->|H]; auto.
Qed.

(* the skeleton primitives that read the state and write it back *)
Ltac kb H :=
  repeat (cbn [bind get put ret modify gets fail panic oof] in H;
          lazymatch type of H with
          | Ok _ = Ok _ => fail
          | Err _ _ = _ => discriminate H
          | Panic _ = _ => discriminate H
          | OutOfFuel = _ => discriminate H
          | context [if ?b then _ else _] => destruct b
          | context [match ?x with _ => _ end] => destruct x
          end).
Ltac ksame := apply kp_same; reflexivity.

Lemma Keeps_roll_indent col num tk mk : is_se tk = false -> Keeps (@roll_indent I col num tk mk).
Proof.
  intros Htk s a s' H. unfold roll_indent in H. unfold bind at 1, get at 1 in H.
  destruct (0 <? sc_flow_level s)%N; [inversion H; subst; apply kp_refl|].
  match type of H with (let '(ind, inds) := ?x in _) _ = _ => destruct x as [ind inds] end.
  destruct (ind <? Z.of_N col)%Z.
  - destruct (_ <=? _)%N; [discriminate|]. unfold bind at 1, put at 1 in H.
    destruct num as [n|].
    + destruct (n <? _)%N; [discriminate|]. eapply kp_trans; [|eapply Keeps_insert_token; [|exact H]; exact Htk]. ksame.
    + eapply kp_trans; [|eapply Keeps_push_tok; [|exact H]; exact Htk]. ksame.
  - inversion H; subst. ksame.
Qed.

Lemma Keeps_unroll_indent_go fuel : forall col, Keeps (@unroll_indent_go I fuel col).
Proof.
  induction fuel as [|fuel IH]; intros col s a s' H; cbn [unroll_indent_go] in H; [discriminate|].
  unfold bind at 1, get at 1 in H. destruct (col <? sc_indent s)%Z; [|inversion H; subst; apply kp_refl].
  destruct (sc_indents s) as [|i r]; [discriminate|]. unfold bind at 1, put at 1 in H.
  destruct (in_needs_block_end i).
  - unfold bind at 1, push_tok at 1, modify at 1 in H. eapply kp_trans; [|eapply IH; exact H].
    split; [|split; [reflexivity|intro X; exact X]]. cbn. intros u Hu. apply in_app_or in Hu. destruct Hu as [Hu|[<-|[]]]; [left; exact Hu|right; reflexivity].
  - unfold bind at 1, ret at 1 in H. eapply kp_trans; [|eapply IH; exact H]. ksame.
Qed.
Lemma Keeps_unroll_indent col : Keeps (@unroll_indent I col).
Proof.
  intros s a s' H. unfold unroll_indent in H. unfold bind at 1, get at 1 in H.
  destruct (0 <? sc_flow_level s)%N; [inversion H; subst; apply kp_refl|]. eapply Keeps_unroll_indent_go; eauto.
Qed.
Lemma Keeps_roll_one_col_indent : Keeps (@roll_one_col_indent I).
Proof. intros s a s' H. unfold roll_one_col_indent in H. kb H; inversion H; subst; ksame. Qed.
Lemma Keeps_save_simple_key : Keeps (@save_simple_key I).
Proof. intros s a s' H. unfold save_simple_key in H. kb H; inversion H; subst; ksame. Qed.
Lemma Keeps_remove_simple_key : Keeps (@remove_simple_key I).
Proof. intros s a s' H. unfold remove_simple_key in H. kb H; inversion H; subst; ksame. Qed.
Lemma Keeps_stale_simple_keys : Keeps (@stale_simple_keys I).
Proof.
  intros s a s' H. unfold stale_simple_keys in H. unfold bind, get in H. cbv zeta in H.
  destruct (existsb _ _); [discriminate|]. inversion H; subst. ksame.
Qed.
Lemma Keeps_end_implicit_mapping mk : Keeps (@end_implicit_mapping I mk).
Proof.
  intros s a s' H. unfold end_implicit_mapping in H. unfold bind at 1, get at 1 in H.
  destruct (sc_ifms s) as [|[] r]; try (inversion H; subst; first [apply kp_refl|ksame]).
  unfold bind, put, push_tok, modify in H. inversion H; subst. split; [|split; [reflexivity|intro X; exact X]]. cbn. intros u Hu.
  apply in_app_or in Hu. destruct Hu as [Hu|[<-|[]]]; [left; exact Hu|right; reflexivity].
Qed.
Lemma Keeps_increase_flow_level : Keeps (@increase_flow_level I).
Proof. intros s a s' H. unfold increase_flow_level in H. kb H; inversion H; subst; ksame. Qed.
Lemma Keeps_decrease_flow_level : Keeps (@decrease_flow_level I).
Proof. intros s a s' H. unfold decrease_flow_level in H. kb H; inversion H; subst; first [apply kp_refl|ksame]. Qed.
Lemma Keeps_allow_simple_key : Keeps (@allow_simple_key I).
Proof. apply Keeps_modify. intros s. ksame. Qed.
Lemma Keeps_disallow_simple_key : Keeps (@disallow_simple_key I).
Proof. apply Keeps_modify. intros s. ksame. Qed.
Lemma Keeps_mark : Keeps (@mark I).
Proof. apply Keeps_gets. Qed.

End Keep.

#[export] Hint Resolve Keeps_ret Keeps_fail Keeps_panic Keeps_oof Keeps_get Keeps_gets Keeps_unroll_indent
  Keeps_roll_one_col_indent Keeps_save_simple_key Keeps_remove_simple_key Keeps_stale_simple_keys Keeps_end_implicit_mapping
  Keeps_increase_flow_level Keeps_decrease_flow_level Keeps_allow_simple_key Keeps_disallow_simple_key Keeps_mark : kps.

Ltac kp1 :=
  lazymatch goal with
  | |- Keeps (bind get _) => apply Keeps_get_bind; intro
  | |- Keeps (bind _ _) =>
      first [ eapply Keeps_bind2; [solve [eauto with res]|solve [auto with kps fr nocore | apply Keeps_of_Fr; auto with fr]|intros ? ?]
            | apply Keeps_bind; [|intro] ]
  | |- Keeps (if ?b then _ else _) => destruct b
  | |- Keeps (match ?x with _ => _ end) => destruct x
  | |- Keeps (let _ := _ in _) => cbv zeta
  | |- Keeps (push_tok _) => apply Keeps_push_tok; first [reflexivity|assumption]
  | |- Keeps (insert_token _ _) => apply Keeps_insert_token; first [reflexivity|assumption]
  | |- Keeps (roll_indent _ _ _ _) => apply Keeps_roll_indent; reflexivity
  | |- Keeps (modify _) =>
      apply Keeps_modify; intro;
      repeat match goal with
             | |- kp _ (match ?b with _ => _ end) => destruct b
             | |- kp _ (if ?b then _ else _) => destruct b
             end; first [apply kp_refl | apply kp_same; reflexivity]
  | |- Keeps _ => first [solve [auto with kps nocore] | apply Keeps_of_Fr; solve [auto with fr]]
  end.
Ltac kps := repeat kp1.

Section Fetch.
Context {I : Type} (ops : InputOps I).
Notation st := (sc I).
Notation M := (@M I).
Variable F : nat.

(* the character-level scanners never return a StreamEnd token *)
Lemma SRes_scan_directive : Res tnse (scan_directive ops F).
Proof.
  unfold scan_directive. apply Res_bind; intro. apply Res_bind; intro. apply Res_bind; intro.
  eapply Res_bind2 with (R' := tnse).
  - destruct (str_eqb _ _); [unfold scan_version_directive_value; rs|].
    destruct (str_eqb _ _); [unfold scan_tag_directive_value; rs|]. rs.
  - intros tk Htk. apply Res_bind; intro. apply Res_bind; intro. destruct a3; [|apply Res_fail].
    apply Res_bind; intro. apply Res_bind; intro. apply Res_ret. exact Htk.
Qed.
Lemma SRes_scan_tag : Res tnse (scan_tag ops F).
Proof. unfold scan_tag. rs. Qed.
Lemma SRes_scan_anchor alias : Res tnse (scan_anchor ops F alias).
Proof. unfold scan_anchor. destruct alias; rs. Qed.
Lemma SRes_scan_flow_scalar single : Res tnse (scan_flow_scalar ops F single).
Proof. unfold scan_flow_scalar. destruct single; rs. Qed.
Lemma SRes_scan_plain_scalar : Res tnse (scan_plain_scalar ops F).
Proof. unfold scan_plain_scalar. rs. Qed.
Lemma SRes_scan_block_scalar literal : Res tnse (scan_block_scalar ops F literal).
Proof. unfold scan_block_scalar. destruct literal; rs. Qed.
Hint Resolve SRes_scan_directive SRes_scan_tag SRes_scan_anchor SRes_scan_flow_scalar SRes_scan_plain_scalar SRes_scan_block_scalar : res.

Lemma Keeps_fetch_stream_start : Keeps (fetch_stream_start (I:=I)).
Proof.
  intros s a s'. unfold fetch_stream_start, bind, get, put. intros H; inversion H; subst.
  split; [|split; [reflexivity|intros _; reflexivity]]. cbn. intros u Hu. apply in_app_or in Hu. destruct Hu as [Hu|[<-|[]]]; [left; exact Hu|right; reflexivity].
Qed.
Lemma Keeps_fetch_directive : Keeps (fetch_directive ops F).
Proof. unfold fetch_directive. kps. Qed.
Lemma Keeps_fetch_tag : Keeps (fetch_tag ops F).
Proof. unfold fetch_tag. kps. Qed.
Lemma Keeps_fetch_anchor alias : Keeps (fetch_anchor ops F alias).
Proof. unfold fetch_anchor. kps. Qed.
Lemma Keeps_fetch_flow_collection_start seq : Keeps (fetch_flow_collection_start ops F seq).
Proof. unfold fetch_flow_collection_start. kps. apply Keeps_push_tok. destruct seq; reflexivity. Qed.
Lemma Keeps_check_flow_closer seq : Keeps (check_flow_closer (I:=I) seq).
Proof. unfold check_flow_closer. kps. Qed.
Hint Resolve Keeps_check_flow_closer : kps.
Lemma Keeps_fetch_flow_collection_end seq : Keeps (fetch_flow_collection_end ops F seq).
Proof. unfold fetch_flow_collection_end. kps; apply Keeps_push_tok; destruct seq; reflexivity. Qed.
Lemma Keeps_fetch_flow_entry : Keeps (fetch_flow_entry ops F).
Proof. unfold fetch_flow_entry. kps. Qed.
Lemma Keeps_fetch_block_entry : Keeps (fetch_block_entry ops F).
Proof. unfold fetch_block_entry. kps. Qed.
Lemma Keeps_fetch_document_indicator t : is_se t = false -> Keeps (fetch_document_indicator ops t).
Proof. intros Ht. unfold fetch_document_indicator. kps. Qed.
Lemma Keeps_fetch_block_scalar lit : Keeps (fetch_block_scalar ops F lit).
Proof. unfold fetch_block_scalar. kps. Qed.
Lemma Keeps_fetch_flow_scalar single : Keeps (fetch_flow_scalar ops F single).
Proof. unfold fetch_flow_scalar. kps. Qed.
Lemma Keeps_fetch_plain_scalar : Keeps (fetch_plain_scalar ops F).
Proof. unfold fetch_plain_scalar. kps. Qed.
Lemma Keeps_fetch_key : Keeps (fetch_key ops F).
Proof. unfold fetch_key. kps. Qed.
Lemma Keeps_fetch_value : Keeps (fetch_value ops F).
Proof. unfold fetch_value. kps. Qed.
Lemma Keeps_fetch_flow_value : Keeps (fetch_flow_value ops F).
Proof. unfold fetch_flow_value. kps. apply Keeps_fetch_value. Qed.
End Fetch.

Section Top.
Context {I : Type} (ops : InputOps I).
Notation st := (sc I).
Notation M := (@M I).
Variable F : nat.

(* mark and simple keys under the skeleton steps of fetch_stream_end / fetch_more_tokens *)
Lemma unroll_indent_go_sm fuel : forall col (s s' : st) a, unroll_indent_go fuel col s = Ok (a, s') ->
  sc_sks s' = sc_sks s /\ sc_mark s' = sc_mark s.
Proof.
  induction fuel as [|fuel IH]; intros col s s' a H; cbn [unroll_indent_go] in H; [discriminate|].
  unfold bind at 1, get at 1 in H. destruct (col <? sc_indent s)%Z; [|inversion H; subst; auto].
  destruct (sc_indents s) as [|i r]; [discriminate|]. unfold bind at 1, put at 1 in H.
  destruct (in_needs_block_end i).
  - unfold bind at 1, push_tok at 1, modify at 1 in H. apply IH in H. exact H.
  - unfold bind at 1, ret at 1 in H. apply IH in H. exact H.
Qed.
Lemma unroll_indent_sm col (s s' : st) a : unroll_indent col s = Ok (a, s') -> sc_sks s' = sc_sks s /\ sc_mark s' = sc_mark s.
Proof.
  unfold unroll_indent. unfold bind at 1, get at 1. destruct (0 <? sc_flow_level s)%N; [intros H; inversion H; subst; auto|].
  apply unroll_indent_go_sm.
Qed.
Lemma remove_simple_key_sm (s s' : st) a : remove_simple_key s = Ok (a, s') ->
  sc_mark s' = sc_mark s /\ sc_tokens s' = sc_tokens s /\ (allclr (sc_sks s) -> allclr (sc_sks s')).
Proof.
  unfold remove_simple_key. unfold bind, get. destruct (sc_sks s) as [|k r] eqn:EK; [discriminate|].
  destruct (_ && _); [discriminate|]. unfold put. intros H; inversion H; subst. cbn. repeat split; auto.
  intros HC. inversion HC; subst. constructor; [reflexivity|assumption].
Qed.
Lemma stale_simple_keys_sm (s s' : st) a : stale_simple_keys s = Ok (a, s') ->
  sc_mark s' = sc_mark s /\ sc_tokens s' = sc_tokens s /\ sc_stream_end s' = sc_stream_end s
  /\ sc_tokens_parsed s' = sc_tokens_parsed s /\ (allclr (sc_sks s) -> allclr (sc_sks s')).
Proof.
  unfold stale_simple_keys. unfold bind, get. cbv zeta. destruct (existsb _ _); [discriminate|].
  unfold put. intros H; inversion H; subst. cbn. repeat split; auto.
  intros HC. unfold allclr in *. rewrite Forall_forall in *. intros k Hk. apply in_map_iff in Hk. destruct Hk as (k0 & <- & Hk0).
  destruct (_ && _ && _); [reflexivity|apply HC, Hk0].
Qed.

Lemma fetch_stream_end_Fin (s s' : st) a : fetch_stream_end s = Ok (a, s') -> fl s s' /\ (NoSE s -> Fin s').
Proof.
  intros H. unfold fetch_stream_end in H. unfold bind at 1, modify at 1 in H.
  match type of H with ?m ?x = _ => set (s1 := x) in * end.
  assert (T1 : sc_tokens s1 = sc_tokens s /\ fl s s1) by (subst s1; destruct (_ =? _)%N; split; auto; split; auto).
  clearbody s1. unfold bind at 1, get at 1 in H. destruct (existsb _ _); [discriminate|].
  unfold bind at 1, put at 1 in H.
  match type of H with ?m ?x = _ => set (s2 := x) in * end.
  assert (T2 : sc_tokens s2 = sc_tokens s1 /\ fl s1 s2 /\ allclr (sc_sks s2)).
  { subst s2. cbn. repeat split; auto. unfold allclr. rewrite Forall_forall. intros k Hk. apply in_map_iff in Hk.
    destruct Hk as (k0 & <- & _). reflexivity. }
  clearbody s2. unfold bind at 1 in H. destruct (unroll_indent (-1) s2) as [[u3 s3]| | |] eqn:E3; try discriminate.
  pose proof (Keeps_unroll_indent _ _ _ _ E3) as K3. destruct (unroll_indent_sm _ _ _ _ E3) as [S3 M3].
  unfold bind at 1 in H. destruct (remove_simple_key s3) as [[u4 s4]| | |] eqn:E4; try discriminate.
  destruct (remove_simple_key_sm _ _ _ E4) as (M4 & T4 & C4). pose proof (Keeps_remove_simple_key _ _ _ E4) as [_ SE4].
  unfold bind, disallow_simple_key, modify, mark, gets, push_tok in H. inversion H; subst. clear H.
  destruct T1 as [T1 SE1], T2 as (T2 & SE2 & C2), K3 as [K3 SE3]. split.
  { eapply fl_trans; [exact SE1|]. eapply fl_trans; [exact SE2|]. eapply fl_trans; [exact SE3|]. eapply fl_trans; [exact SE4|].
    split; [reflexivity|intro X; exact X]. }
  intros HN. split.
  - cbn. apply C4. rewrite S3. exact C2.
  - exists (sc_tokens s4). cbn. split; [reflexivity|]. intros t Ht. rewrite T4 in Ht. destruct (K3 t Ht) as [X|X]; [|exact X].
    apply HN. rewrite <- T1, <- T2. exact X.
Qed.

(* fetch_next_token: flags, and what it does to a queue without StreamEnd *)
Definition FN {A} (m : M A) : Prop :=
  forall s a s', m s = Ok (a, s') -> fl s s' /\ (NoSE s -> NoSE s' \/ Fin s').
Lemma FN_of_Keeps {A} (m : M A) : Keeps m -> FN m.
Proof. intros HK s a s' E. pose proof (HK _ _ _ E) as K. split; [apply K|]. intros HN. left. eapply kp_NoSE; eauto. Qed.
Lemma FN_bind_keeps {A B} (m : M A) (f : A -> M B) : Keeps m -> (forall a, FN (f a)) -> FN (bind m f).
Proof.
  intros Hm Hf s b s'. unfold bind. destruct (m s) as [[a s1]| | |] eqn:E; try discriminate. intros H.
  pose proof (Hm _ _ _ E) as K. destruct (Hf a s1 b s' H) as [X Y]. split; [eapply fl_trans; [apply K|exact X]|].
  intros HN. apply Y. eapply kp_NoSE; eauto.
Qed.
Lemma FN_get_bind {B} (f : st -> M B) : (forall s0, FN (f s0)) -> FN (bind get f).
Proof. intros H s b s' E. unfold bind, get in E. eapply H; eauto. Qed.

Lemma FN_fetch_next_token : FN (fetch_next_token ops F).
Proof.
  unfold fetch_next_token.
  apply FN_bind_keeps; [apply Keeps_of_Fr; auto with fr|intro].
  apply FN_get_bind; intro s0. destruct (negb (sc_stream_start s0)); [apply FN_of_Keeps, Keeps_fetch_stream_start|].
  apply FN_bind_keeps; [apply Keeps_of_Fr; auto with fr|intro].
  apply FN_bind_keeps; [auto with kps|intro].
  apply FN_bind_keeps; [auto with kps|intro].
  apply FN_bind_keeps; [auto with kps|intro].
  apply FN_bind_keeps; [apply Keeps_of_Fr; auto with fr|intro].
  apply FN_bind_keeps; [apply Keeps_of_Fr; auto with fr|intro z].
  destruct z.
  { intros x1 x2 x3 E. apply fetch_stream_end_Fin in E. destruct E as [E1 E2]. split; [exact E1|]. intros HN. right. apply E2, HN. }
  apply FN_of_Keeps.
  pose proof (Keeps_fetch_directive ops F). pose proof (fun t H => Keeps_fetch_document_indicator ops t H).
  pose proof (Keeps_fetch_flow_collection_start ops F). pose proof (Keeps_fetch_flow_collection_end ops F).
  pose proof (Keeps_fetch_flow_entry ops F). pose proof (Keeps_fetch_block_entry ops F). pose proof (Keeps_fetch_key ops F).
  pose proof (Keeps_fetch_value ops F). pose proof (Keeps_fetch_flow_value ops F). pose proof (Keeps_fetch_anchor ops F).
  pose proof (Keeps_fetch_tag ops F). pose proof (Keeps_fetch_block_scalar ops F). pose proof (Keeps_fetch_flow_scalar ops F).
  pose proof (Keeps_fetch_plain_scalar ops F).
  repeat lazymatch goal with
  | |- Keeps (bind get _) => apply Keeps_get_bind; intro
  | |- Keeps (bind (fetch_document_indicator _ _) _) => apply Keeps_bind; [auto|intro]
  | |- Keeps (bind _ _) => apply Keeps_bind; [first [solve [auto with kps nocore] | apply Keeps_of_Fr; solve [auto with fr]
                                                   | repeat (match goal with |- Keeps (if ?b then _ else _) => destruct b end);
                                                     first [solve [auto with kps nocore] | apply Keeps_of_Fr; solve [auto with fr]]]|intro]
  | |- Keeps (if ?b then _ else _) => destruct b
  | |- Keeps (let _ := _ in _) => cbv zeta
  | |- Keeps (fail _ _) => apply Keeps_fail
  | |- Keeps (ret _) => apply Keeps_ret
  | |- Keeps _ => solve [auto]
  end.
Qed.

Lemma allclr_existsb (p : simple_key -> bool) l : allclr l -> existsb (fun k => sk_possible k && p k) l = false.
Proof. intros H. induction H as [|k l Hk Hl IH]; cbn [existsb]; [reflexivity|]. rewrite Hk, IH. reflexivity. Qed.

Definition Good (s : st) : Prop := NoSE s \/ Fin s.

Lemma fetch_next_token_ss (s s' : st) a : fetch_next_token ops F s = Ok (a, s') -> sc_stream_start s' = true.
Proof.
  intros H. destruct (sc_stream_start s) eqn:ESS.
  - destruct (FN_fetch_next_token _ _ _ H) as [[_ X] _]. apply X, ESS.
  - unfold fetch_next_token in H. unfold bind at 1 in H. destruct (look ops 1 s) as [[u s1]| | |] eqn:EL; try discriminate.
    pose proof (Fr_look ops 1 _ _ _ EL) as (_ & _ & _ & _ & _ & F6 & _).
    unfold bind at 1, get at 1 in H. rewrite F6, ESS in H. cbn [negb] in H.
    unfold fetch_stream_start, bind, get, put in H. inversion H; subst. reflexivity.
Qed.

(* before StreamStart nothing is queued *)
Definition SSInv (s : st) : Prop := sc_stream_start s = true \/ (sc_tokens s = [] /\ sc_token_available s = false).

Lemma fetch_more_tokens_good : forall fuel (s s' : st) a, fetch_more_tokens ops F fuel s = Ok (a, s') ->
  fl s s' /\ (Good s -> Good s') /\ (sc_tokens s = [] -> sc_stream_start s' = true).
Proof.
  induction fuel as [|fuel IH]; intros s s' a H; cbn [fetch_more_tokens] in H; [discriminate|].
  unfold bind at 1, get at 1 in H. unfold bind at 1 in H.
  match type of H with match ?m s with _ => _ end = _ => destruct (m s) as [[need s1]| | |] eqn:EN; try discriminate end.
  assert (X : fl s s1 /\ (Good s -> Good s1 /\ (Fin s1 -> need = false) /\ (need = true -> NoSE s1))
              /\ (sc_tokens s = [] -> need = true)).
  { destruct (sc_tokens s) as [|t0 r0] eqn:ET.
    - inversion EN; subst. split; [apply fl_refl|]. split; [|reflexivity]. intros HG. repeat split; auto.
      + intros (_ & l & E & _). rewrite ET in E. destruct l; discriminate.
      + intros _ t Ht. rewrite ET in Ht. destruct Ht.
    - unfold bind at 1 in EN. destruct (stale_simple_keys s) as [[u s2]| | |] eqn:ES; try discriminate.
      destruct (stale_simple_keys_sm _ _ _ ES) as (M2 & T2 & SE2 & TP2 & C2).
      pose proof (Keeps_stale_simple_keys _ _ _ ES) as [_ FL2].
      unfold bind, get, ret in EN. inversion EN; subst s1 need. clear EN. split; [exact FL2|]. split; [|discriminate].
      intros HG.
      assert (G2 : Good s2).
      { destruct HG as [HN|(C & l & E & NL)]; [left; intros t Ht; rewrite T2 in Ht; apply HN, Ht|].
        right. split; [apply C2, C|]. exists l. rewrite T2, M2. auto. }
      repeat split; auto.
      + intros (C & _). apply allclr_existsb. exact C.
      + intros EX. destruct G2 as [HN|(C & _)]; [exact HN|]. rewrite (allclr_existsb _ _ C) in EX. discriminate. }
  destruct X as (FL1 & G1 & NE). destruct need.
  - unfold bind at 1 in H. destruct (fetch_next_token ops F s1) as [[u s2]| | |] eqn:EF; try discriminate.
    destruct (FN_fetch_next_token _ _ _ EF) as [FL2 G2]. pose proof (fetch_next_token_ss _ _ _ EF) as SS2.
    destruct (IH _ _ _ H) as (FL3 & G3 & _). split; [eapply fl_trans; [exact FL1|]; eapply fl_trans; eauto|]. split.
    + intros HG. destruct (G1 HG) as (_ & _ & NT). apply G3, G2, NT. reflexivity.
    + intros _. apply FL3, SS2.
  - unfold modify in H. inversion H; subst. split; [eapply fl_trans; [exact FL1|split; [reflexivity|intro X; exact X]]|]. split.
    + intros HG. destruct (G1 HG) as ([HN|(C & l & E & NL)] & _); [left; exact HN|right]. split; [exact C|]. exists l. cbn. auto.
    + intros ET. specialize (NE ET). discriminate.
Qed.

(* next_token: the stream-end flag is set exactly when the token handed out is StreamEnd, and the StreamEnd token
   sits at the scanner's mark; StreamStart has been produced once a token has been handed out *)
Theorem next_token_se (s s' : st) t : SEInv s -> SSInv s -> next_token ops F s = Ok (Some t, s') ->
  sc_stream_end s = false /\ SEInv s' /\ sc_stream_start s' = true /\
  (if is_se (snd t) then sc_stream_end s' = true /\ fst t = span_empty (sc_mark s') else sc_stream_end s' = false).
Proof.
  intros HI HSS H. unfold next_token in H. unfold bind at 1, get at 1 in H.
  destruct (sc_stream_end s) eqn:SE; [inversion H|]. split; [reflexivity|]. specialize (HI SE).
  unfold bind at 1 in H.
  match type of H with match ?m s with _ => _ end = _ => destruct (m s) as [[u s1]| | |] eqn:EM; try discriminate end.
  assert (G1 : Good s1 /\ sc_stream_end s1 = false /\ sc_stream_start s1 = true).
  { destruct (sc_token_available s) eqn:TA.
    - inversion EM; subst. repeat split; auto. destruct HSS as [X|[_ X]]; [exact X|congruence].
    - destruct (fetch_more_tokens_good _ _ _ _ EM) as ([A1 A2] & B & C). repeat split; [apply B, HI|congruence|].
      destruct HSS as [X|[X _]]; [apply A2, X|apply C, X]. }
  destruct G1 as (G1 & SE1 & SS1). unfold bind at 1, get at 1 in H.
  destruct (sc_tokens s1) as [|t1 r] eqn:ET; [discriminate|].
  unfold bind at 1, put at 1 in H. unfold bind at 1 in H.
  set (s2 := set_tp (sc_tokens_parsed s1 + 1) (set_ta false (set_tokens r s1))) in *.
  assert (B2 : sc_tokens s2 = r /\ sc_mark s2 = sc_mark s1 /\ sc_sks s2 = sc_sks s1 /\ sc_stream_end s2 = false
               /\ sc_stream_start s2 = true).
  { subst s2. cbn. auto. }
  clearbody s2. destruct B2 as (T2 & M2 & K2 & SE2 & SS2).
  destruct G1 as [HN|(C & l & E & NL)].
  - assert (Ht1 : is_se (snd t1) = false) by (apply HN; rewrite ET; left; reflexivity).
    assert (HS : s' = s2 /\ t = t1).
    { destruct t1 as [sp tk]. cbn [snd] in *. destruct tk; try discriminate Ht1; unfold ret in H; inversion H; auto. }
    destruct HS as [-> ->]. rewrite Ht1. split; [|split; [exact SS2|exact SE2]]. intros _. left. intros w Hw. rewrite T2 in Hw. apply HN. rewrite ET. right. exact Hw.
  - rewrite ET in E. destruct l as [|t0 l].
    + cbn [app] in E. injection E as E1 E2. subst t1. cbn [snd] in H. unfold modify, ret in H. inversion H; subst s' t. cbn [snd fst is_se].
      split; [intros X; cbn in X; congruence|]. split; [exact SS2|]. split; [reflexivity|]. cbn. rewrite M2. reflexivity.
    + cbn [app] in E. injection E as E1 E2. subst t0. rewrite E2 in T2.
      assert (Ht1 : is_se (snd t1) = false) by (apply NL; left; reflexivity).
      assert (HS : s' = s2 /\ t = t1).
      { destruct t1 as [sp tk]. cbn [snd] in *. destruct tk; try discriminate Ht1; unfold ret in H; inversion H; auto. }
      destruct HS as [-> ->]. rewrite Ht1. split; [|split; [exact SS2|exact SE2]]. intros _. right. split; [rewrite K2; exact C|].
      exists l. rewrite T2, M2. split; [reflexivity|]. intros w Hw. apply NL. right. exact Hw.
Qed.

Lemma next_token_none (s s' : st) : next_token ops F s = Ok (None, s') -> sc_stream_end s = true /\ s' = s.
Proof.
  unfold next_token. unfold bind at 1, get at 1. destruct (sc_stream_end s); [intros H; inversion H; auto|].
  unfold bind at 1. match goal with |- match ?m s with _ => _ end = _ -> _ => destruct (m s) as [[u s1]| | |]; try discriminate end.
  unfold bind at 1, get at 1. destruct (sc_tokens s1); [discriminate|]. unfold bind at 1, put at 1. unfold bind at 1.
  destruct (snd t); unfold ret, modify; discriminate.
Qed.

Lemma SEInv_init (i : I) : SEInv (init_sc i).
Proof. intros _. left. intros t Ht. destruct Ht. Qed.
Lemma SSInv_init (i : I) : SSInv (init_sc i).
Proof. right. split; reflexivity. Qed.

End Top.
