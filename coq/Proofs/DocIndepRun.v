(* C15, parser half: the composition theorem of Proofs/DocIndep.v restated for the model's own driver
   [Pipe.parse_all] (the function the extracted model runs and the correspondence runs compare with the
   implementation). *)
From Coq Require Import List NArith Bool Lia.
Import ListNotations.
Require Import Parser SBase SPrim SDir SScalar SFetch Pipe Grammar C02run DocRun DocShift DocIndep.

Lemma start_parser_init toks keep : start_parser toks keep = init_parser toks keep.
Proof. reflexivity. Qed.

Lemma parse_all_steps fuel : forall p se acc l,
  parse_all fuel p se acc = (l, PDone) ->
  exists evs pe, l = rev acc ++ evs /\ steps p evs pe /\ p_state pe = SEnd.
Proof.
  induction fuel as [|fuel IH]; intros p se acc l H; [discriminate|]. rewrite parse_all_S in H.
  destruct (p_state p) eqn:ES;
    try (unfold step_result in H; destruct (state_machine p) as [[ev p']|[|ss mm]|nn] eqn:E;
         [ apply IH in H; destruct H as (evs & pe & -> & HS & HE); exists (ev :: evs), pe;
           split; [cbn [rev]; rewrite <- app_assoc; reflexivity|split; [econstructor; eauto|exact HE]]
         | destruct se; discriminate | discriminate | discriminate ]).
  inversion H; subst. exists [], p. rewrite app_nil_r. repeat split; [constructor|exact ES].
Qed.

Lemma steps_parse_all : forall p evs pe, steps p evs pe -> p_state pe = SEnd ->
  forall fuel se acc, (length evs < fuel)%nat -> parse_all fuel p se acc = (rev acc ++ evs, PDone).
Proof.
  induction 1 as [p|p e p1 l p2 H1 H2 IH]; intros HE fuel se acc Hf; (destruct fuel as [|fuel]; [cbn in Hf; lia|]);
    rewrite parse_all_S.
  - rewrite HE, app_nil_r. reflexivity.
  - pose proof (step_not_end _ _ H1) as NE.
    assert (G : step_result fuel p se acc = (rev acc ++ e :: l, PDone)).
    { unfold step_result. rewrite H1. rewrite (IH HE fuel se (e :: acc)) by (cbn in Hf; lia).
      cbn [rev]. rewrite <- app_assoc. reflexivity. }
    destruct (p_state p); try exact G. contradiction.
Qed.

(* The composition theorem for the model's driver: if the driver accepts the token streams of A and of B, it accepts
   "tokens of A without StreamEnd, DocumentEnd, tokens of B without StreamStart" for every scanner verdict and every
   sufficient fuel, and the events are A's without StreamEnd followed by B's without StreamStart, renumbered. *)
Theorem doc_composition_parse_all ssA ta sps spd ssB tb seB fA fB sa sb evA evB :
  snd ssA = TStreamStart -> Forall (fun t => snd t <> TStreamEnd) ta ->
  parse_all fA (init_parser (ssA :: ta ++ [(sps, TStreamEnd)]) false) sa [] = (evA, PDone) ->
  parse_all fB (init_parser (ssB :: tb ++ [seB]) false) sb [] = (evB, PDone) ->
  exists evC,
    (forall fuel sc, (length evA + length evB < fuel)%nat ->
       parse_all fuel (init_parser (ssA :: ta ++ (spd, TDocumentEnd) :: tb ++ [seB]) false) sc [] = (evC, PDone))
    /\ DocRun.evs_of evC
       = removelast (DocRun.evs_of evA)
         ++ map (shift_ev (count_anchored (DocRun.evs_of evA))) (tl (DocRun.evs_of evB)).
Proof.
  intros H1 H2 HA HB.
  apply parse_all_steps in HA. destruct HA as (ea & pa & -> & SA & EA).
  apply parse_all_steps in HB. destruct HB as (eb & pb & -> & SB & EB). cbn [rev app] in *.
  destruct (doc_composition_events ssA ta sps spd ssB tb seB ea eb H1 H2) as (evC & (pc & SC & EC) & EV).
  { exists pa. rewrite start_parser_init. auto. }
  { exists pb. rewrite start_parser_init. auto. }
  exists evC. split; [|exact EV]. intros fuel sc Hf. rewrite start_parser_init in SC.
  rewrite (steps_parse_all _ _ _ SC EC fuel sc []); [reflexivity|].
  assert (L : length evC = length (DocRun.evs_of evC)) by (unfold DocRun.evs_of; rewrite map_length; reflexivity).
  rewrite L, EV, app_length, map_length.
  assert (L1 : (length (removelast (DocRun.evs_of ea)) <= length ea)%nat).
  { unfold DocRun.evs_of. generalize (map fst ea) as l, (map_length (@fst event span) ea).
    intros l <-. induction l as [|x [|y r] IHl]; cbn [removelast length] in *; lia. }
  assert (L2 : (length (tl (DocRun.evs_of eb)) <= length eb)%nat).
  { unfold DocRun.evs_of. destruct eb; cbn; rewrite ?map_length; lia. }
  lia.
Qed.
