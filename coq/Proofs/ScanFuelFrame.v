(* C01, bounded work: frame lemmas for the character-level scanners.
   Every normal return of skip_to_next_token, skip_ws_to_eol, skip_yaml_whitespace, scan_directive, scan_tag,
   scan_anchor, scan_flow_scalar, scan_plain_scalar, scan_block_scalar (and of all their helpers) leaves the token
   queue, the token counter, the stream flags, the simple keys, the flow level and the implicit flow-mapping states
   unchanged and keeps the number of indent records that need a BlockEnd ([fkeeps], ScanFuelFrameDef.v).
   No precondition, any input back-end [ops], any fuel. *)
From Coq Require Import List NArith ZArith Bool Arith Lia.
Import ListNotations.
Require Import Parser SBase SPrim SDir SScalar ScanFuelFrameDef.
Local Open Scope N_scope.
Local Open Scope mon_scope.

Create HintDb frm.

Section Frame.
Context {I : Type} (ops : InputOps I).
Notation M := (@M I).

(* ---- the calculus ---- *)
Lemma frames_ret {A} (a : A) : @frames I A (ret a).
Proof. intros s x s' H. unfold ret in H. inversion H; subst. apply fkeeps_refl. Qed.

Lemma frames_bind {A B} (m : M A) (f : A -> M B) :
  frames m -> (forall a, frames (f a)) -> frames (bind m f).
Proof.
  intros Hm Hf s b s' H. unfold bind in H.
  destruct (m s) as [[a s1]| | |] eqn:E; try discriminate.
  eapply fkeeps_trans; [eapply Hm; exact E | eapply Hf; exact H].
Qed.

Lemma frames_fail {A} site mk : @frames I A (fail site mk).
Proof. intros s x s' H. discriminate H. Qed.
Lemma frames_panic {A} site : @frames I A (panic site).
Proof. intros s x s' H. discriminate H. Qed.
Lemma frames_oof {A} : @frames I A oof.
Proof. intros s x s' H. discriminate H. Qed.
Lemma frames_get : @frames I _ get.
Proof. intros s x s' H. unfold get in H. inversion H; subst. apply fkeeps_refl. Qed.
Lemma frames_gets {A} (f : sc I -> A) : frames (gets f).
Proof. intros s x s' H. unfold gets in H. inversion H; subst. apply fkeeps_refl. Qed.
Lemma frames_modify (f : sc I -> sc I) : (forall s, fkeeps s (f s)) -> frames (modify f).
Proof. intros Hf s x s' H. unfold modify in H. inversion H; subst. apply Hf. Qed.

(* ---- the setters that the character-level scanners use ---- *)
Lemma fk_set_in i (s : sc I) : fkeeps s (set_in i s).
Proof. unfold fkeeps; cbn; repeat split; reflexivity. Qed.
Lemma fk_set_mark m (s : sc I) : fkeeps s (set_mark m s).
Proof. unfold fkeeps; cbn; repeat split; reflexivity. Qed.
Lemma fk_set_lws b (s : sc I) : fkeeps s (set_lws b s).
Proof. unfold fkeeps; cbn; repeat split; reflexivity. Qed.
Lemma fk_set_ska b (s : sc I) : fkeeps s (set_ska b s).
Proof. unfold fkeeps; cbn; repeat split; reflexivity. Qed.

(* ---- input primitives ---- *)
Lemma frames_look n : frames (look ops n).
Proof.
  intros s x s' H. unfold look in H. destruct (lookahead ops n (sc_in s)); try discriminate.
  inversion H; subst. apply fk_set_in.
Qed.
Lemma frames_peekn n : frames (peekn ops n).
Proof.
  intros s x s' H. unfold peekn in H. destruct (peek_nth ops n (sc_in s)); try discriminate.
  inversion H; subst. apply fkeeps_refl.
Qed.
Lemma frames_peek : frames (peek ops).
Proof. apply frames_peekn. Qed.
Lemma frames_in_skip : frames (in_skip ops).
Proof. apply frames_modify. intros s. apply fk_set_in. Qed.
Lemma frames_in_skip_n n : frames (in_skip_n ops n).
Proof.
  intros s x s' H. unfold in_skip_n in H. destruct (skip_n ops n (sc_in s)); try discriminate.
  inversion H; subst. apply fk_set_in.
Qed.
Lemma frames_raw_read : frames (raw_read ops).
Proof.
  intros s x s' H. unfold raw_read in H. destruct (raw_read_non_breakz ops (sc_in s)) as [[c i]| | |]; try discriminate.
  inversion H; subst. apply fk_set_in.
Qed.
Lemma frames_buf_is_empty : frames (buf_is_empty ops).
Proof. apply frames_gets. Qed.
Lemma frames_assert_buflen n site : frames (assert_buflen ops n site).
Proof.
  intros s x s' H. unfold assert_buflen in H. destruct (Nat.ltb (buflen ops (sc_in s)) n); try discriminate.
  inversion H; subst. apply fkeeps_refl.
Qed.

(* ---- mark / flag primitives ---- *)
Lemma frames_mark : @frames I _ mark.
Proof. apply frames_gets. Qed.
Lemma frames_adv_mark n : @frames I _ (adv_mark n).
Proof. apply frames_modify. intros s. apply fk_set_mark. Qed.
Lemma frames_set_lws b : @frames I _ (modify (set_lws b)).
Proof. apply frames_modify. intros s. apply fk_set_lws. Qed.
Lemma frames_allow_simple_key : @frames I _ allow_simple_key.
Proof. apply frames_modify. intros s. apply fk_set_ska. Qed.
Lemma frames_flow_level : @frames I _ flow_level.
Proof. apply frames_gets. Qed.
Lemma frames_is_within_block : @frames I _ is_within_block.
Proof. apply frames_gets. Qed.
Lemma frames_col : @frames I _ col.
Proof. apply frames_gets. Qed.
Lemma frames_col_lt_indent : @frames I _ col_lt_indent.
Proof. apply frames_gets. Qed.
Lemma frames_skip_nl : frames (skip_nl ops).
Proof.
  unfold skip_nl. apply frames_bind; [apply frames_in_skip|intros _].
  apply frames_modify. intros s. eapply fkeeps_trans; [apply fk_set_mark|apply fk_set_lws].
Qed.
Lemma frames_unroll_non_block_indents : @frames I _ unroll_non_block_indents.
Proof.
  apply frames_modify. intros s.
  pose proof (npend_unroll_nb (sc_indents s) (sc_indent s)) as E.
  destruct (unroll_nb (sc_indents s) (sc_indent s)) as [ind l]. cbn [snd] in E.
  unfold fkeeps; cbn; repeat split; try reflexivity. exact E.
Qed.

Hint Resolve frames_look frames_peekn frames_peek frames_in_skip frames_in_skip_n frames_raw_read
  frames_buf_is_empty frames_assert_buflen frames_mark frames_adv_mark frames_set_lws frames_allow_simple_key
  frames_flow_level frames_is_within_block frames_col frames_col_lt_indent frames_skip_nl
  frames_unroll_non_block_indents frames_get : frm.

(* ---- the tactic ---- *)
(* a local loop [(fix go f a b .. := match f with O => oof | S f => .. end) F a b ..]: induction on its fuel *)
Ltac fr_fix_cut :=
  match goal with
  | |- frames (?g ?F) => is_fix g; cut (forall f, frames (g f)); [let H := fresh in intro H; apply H|]
  | |- frames (?g ?F ?a) => is_fix g; cut (forall f a1, frames (g f a1)); [let H := fresh in intro H; apply H|]
  | |- frames (?g ?F ?a ?b) => is_fix g;
      cut (forall f a1 a2, frames (g f a1 a2)); [let H := fresh in intro H; apply H|]
  | |- frames (?g ?F ?a ?b ?c) => is_fix g;
      cut (forall f a1 a2 a3, frames (g f a1 a2 a3)); [let H := fresh in intro H; apply H|]
  | |- frames (?g ?F ?a ?b ?c ?d) => is_fix g;
      cut (forall f a1 a2 a3 a4, frames (g f a1 a2 a3 a4)); [let H := fresh in intro H; apply H|]
  | |- frames (?g ?F ?a ?b ?c ?d ?e) => is_fix g;
      cut (forall f a1 a2 a3 a4 a5, frames (g f a1 a2 a3 a4 a5)); [let H := fresh in intro H; apply H|]
  end.
Ltac fr_fix :=
  fr_fix_cut;
  let f := fresh "f" in let IH := fresh "IH" in
  intro f; induction f as [|f IH]; intros; lazy beta iota zeta; [apply frames_oof|].

Ltac fr_step :=
  match goal with
  | |- frames (bind _ _) => apply frames_bind; [|intro]
  | |- frames (ret _) => apply frames_ret
  | |- frames (fail _ _) => apply frames_fail
  | |- frames (panic _) => apply frames_panic
  | |- frames oof => apply frames_oof
  | |- frames (gets _) => apply frames_gets
  | |- frames (if ?c then _ else _) => destruct c; lazy beta iota zeta
  | |- frames (match ?c with _ => _ end) => destruct c; lazy beta iota zeta
  | |- frames _ => solve [auto with frm]
  | |- frames _ => fr_fix
  end.
Ltac fr := lazy beta iota zeta; repeat fr_step.

(* ---- SPrim ---- *)
Lemma frames_look_ch : frames (look_ch ops).
Proof. unfold look_ch. fr. Qed.
Hint Resolve frames_look_ch : frm.
Lemma frames_next_char_is c : frames (next_char_is ops c).
Proof. unfold next_char_is. fr. Qed.
Lemma frames_nth_char_is n c : frames (nth_char_is ops n c).
Proof. unfold nth_char_is. fr. Qed.
Lemma frames_next_2_are a b : frames (next_2_are ops a b).
Proof. unfold next_2_are. fr. Qed.
Lemma frames_next_3_are a b c : frames (next_3_are ops a b c).
Proof. unfold next_3_are. fr. Qed.
Hint Resolve frames_next_char_is frames_nth_char_is frames_next_2_are frames_next_3_are : frm.
Lemma frames_next_is_document_indicator : frames (next_is_document_indicator ops).
Proof. unfold next_is_document_indicator. fr. Qed.
Lemma frames_next_is_document_start : frames (next_is_document_start ops).
Proof. unfold next_is_document_start. fr. Qed.
Lemma frames_next_is_document_end : frames (next_is_document_end ops).
Proof. unfold next_is_document_end. fr. Qed.
Lemma frames_next_is p : frames (next_is ops p).
Proof. unfold next_is. fr. Qed.
Lemma frames_next_can_be_plain_scalar b : frames (next_can_be_plain_scalar ops b).
Proof. unfold next_can_be_plain_scalar. fr. Qed.
Hint Resolve frames_next_is_document_indicator frames_next_is_document_start frames_next_is_document_end
  frames_next_is frames_next_can_be_plain_scalar : frm.

Lemma frames_in_skip_ws_to_eol : forall fuel st tab ws n, frames (in_skip_ws_to_eol ops fuel st tab ws n).
Proof.
  induction fuel as [|fuel IH]; intros; cbn [in_skip_ws_to_eol]; [apply frames_oof|]. fr.
Qed.
Lemma frames_in_skip_while fuel p : frames (in_skip_while ops fuel p).
Proof. unfold in_skip_while. fr. Qed.
Hint Resolve frames_in_skip_ws_to_eol frames_in_skip_while : frm.
Lemma frames_in_skip_while_non_breakz fuel : frames (in_skip_while_non_breakz ops fuel).
Proof. unfold in_skip_while_non_breakz. fr. Qed.
Lemma frames_in_skip_while_blank fuel : frames (in_skip_while_blank ops fuel).
Proof. unfold in_skip_while_blank. fr. Qed.
Lemma frames_in_fetch_while_alpha fuel acc : frames (in_fetch_while_alpha ops fuel acc).
Proof. unfold in_fetch_while_alpha. fr. Qed.
Hint Resolve frames_in_skip_while_non_breakz frames_in_skip_while_blank frames_in_fetch_while_alpha : frm.

Lemma frames_skip_blank : frames (skip_blank ops).
Proof. unfold skip_blank. fr. Qed.
Lemma frames_skip_non_blank : frames (skip_non_blank ops).
Proof. unfold skip_non_blank. fr. Qed.
Lemma frames_skip_n_non_blank n : frames (skip_n_non_blank ops n).
Proof. unfold skip_n_non_blank. fr. Qed.
Hint Resolve frames_skip_blank frames_skip_non_blank frames_skip_n_non_blank : frm.
Lemma frames_skip_linebreak : frames (skip_linebreak ops).
Proof. unfold skip_linebreak. fr. Qed.
Lemma frames_skip_break : frames (skip_break ops).
Proof. unfold skip_break. fr. Qed.
Hint Resolve frames_skip_linebreak frames_skip_break : frm.

Theorem frames_skip_ws_to_eol : forall F stb, frames (skip_ws_to_eol ops F stb).
Proof. intros. unfold skip_ws_to_eol. fr. Qed.
Hint Resolve frames_skip_ws_to_eol : frm.

Theorem frames_skip_to_next_token : forall F, frames (skip_to_next_token ops F).
Proof.
  induction F as [|fuel IH]; intros; cbn [skip_to_next_token]; [apply frames_oof|]. fr.
Qed.

Theorem frames_skip_yaml_whitespace : forall F, frames (skip_yaml_whitespace ops F).
Proof. intros. unfold skip_yaml_whitespace. fr. Qed.
Hint Resolve frames_skip_to_next_token frames_skip_yaml_whitespace : frm.

(* ---- SDir ---- *)
Lemma frames_scan_uri_escapes mk : frames (scan_uri_escapes ops mk).
Proof. unfold scan_uri_escapes. fr. Qed.
Hint Resolve frames_scan_uri_escapes : frm.
Lemma frames_scan_tag_handle F d mk : frames (scan_tag_handle ops F d mk).
Proof. unfold scan_tag_handle. fr. Qed.
Lemma frames_uri_loop F p mk acc : frames (uri_loop ops F p mk acc).
Proof. unfold uri_loop. fr. Qed.
Hint Resolve frames_scan_tag_handle frames_uri_loop : frm.
Lemma frames_scan_tag_prefix F mk : frames (scan_tag_prefix ops F mk).
Proof. unfold scan_tag_prefix. fr. Qed.
Lemma frames_scan_verbatim_tag F mk : frames (scan_verbatim_tag ops F mk).
Proof. unfold scan_verbatim_tag. fr. Qed.
Lemma frames_scan_tag_shorthand_suffix F h mk : frames (scan_tag_shorthand_suffix ops F h mk).
Proof. unfold scan_tag_shorthand_suffix. fr. Qed.
Hint Resolve frames_scan_tag_prefix frames_scan_verbatim_tag frames_scan_tag_shorthand_suffix : frm.

Theorem frames_scan_tag : forall F, frames (scan_tag ops F).
Proof. intros. unfold scan_tag. fr. Qed.

Theorem frames_scan_anchor : forall F alias, frames (scan_anchor ops F alias).
Proof. intros. unfold scan_anchor. fr. Qed.

Lemma frames_scan_version_directive_number F mk : frames (scan_version_directive_number ops F mk).
Proof. unfold scan_version_directive_number. fr. Qed.
Hint Resolve frames_scan_version_directive_number : frm.
Lemma frames_scan_version_directive_value F mk : frames (scan_version_directive_value ops F mk).
Proof. unfold scan_version_directive_value. fr. Qed.
Lemma frames_scan_tag_directive_value F mk : frames (scan_tag_directive_value ops F mk).
Proof. unfold scan_tag_directive_value. fr. Qed.
Lemma frames_scan_directive_name F : frames (scan_directive_name ops F).
Proof. unfold scan_directive_name. fr. Qed.
Hint Resolve frames_scan_version_directive_value frames_scan_tag_directive_value frames_scan_directive_name : frm.

Theorem frames_scan_directive : forall F, frames (scan_directive ops F).
Proof. intros. unfold scan_directive. fr. Qed.

(* ---- SScalar: flow scalars ---- *)
Lemma frames_read_hex : forall n i acc start, frames (read_hex ops n i acc start).
Proof. induction n as [|n IH]; intros; cbn [read_hex]; fr. Qed.
Hint Resolve frames_read_hex : frm.
Lemma frames_resolve_escape start : frames (resolve_escape ops start).
Proof. unfold resolve_escape. fr. Qed.
Hint Resolve frames_resolve_escape : frm.
Lemma frames_consume_nonws : forall fuel single acc start, frames (consume_nonws ops fuel single acc start).
Proof. induction fuel as [|fuel IH]; intros; cbn [consume_nonws]; [apply frames_oof|]. fr. Qed.
Lemma frames_flow_blanks : forall fuel lbl lb tb ws, frames (flow_blanks ops fuel lbl lb tb ws).
Proof. induction fuel as [|fuel IH]; intros; cbn [flow_blanks]; [apply frames_oof|]. fr. Qed.
Hint Resolve frames_consume_nonws frames_flow_blanks : frm.

Theorem frames_scan_flow_scalar : forall F single, frames (scan_flow_scalar ops F single).
Proof. intros. unfold scan_flow_scalar. fr. Qed.

(* ---- SScalar: plain scalars ---- *)
Lemma frames_plain_chunk : forall fuel j acc, frames (plain_chunk ops fuel j acc).
Proof. induction fuel as [|fuel IH]; intros; cbn [plain_chunk]; [apply frames_oof|]. fr. Qed.
Lemma frames_plain_blanks F : forall fuel indent start lb tb ws, frames (plain_blanks ops F fuel indent start lb tb ws).
Proof. induction fuel as [|fuel IH]; intros; cbn [plain_blanks]; [apply frames_oof|]. fr. Qed.
Hint Resolve frames_plain_chunk frames_plain_blanks : frm.

Theorem frames_scan_plain_scalar : forall F, frames (scan_plain_scalar ops F).
Proof. intros. unfold scan_plain_scalar. fr. Qed.

(* ---- SScalar: block scalars ---- *)
Lemma frames_scan_block_scalar_content_line F acc : frames (scan_block_scalar_content_line ops F acc).
Proof. unfold scan_block_scalar_content_line. fr. Qed.
Lemma frames_skip_spaces_to : forall fuel indent cb, frames (skip_spaces_to ops fuel indent cb).
Proof. induction fuel as [|fuel IH]; intros; cbn [skip_spaces_to]; [apply frames_oof|]. fr. Qed.
Hint Resolve frames_scan_block_scalar_content_line frames_skip_spaces_to : frm.
Lemma frames_skip_block_scalar_indent F : forall fuel indent breaks, frames (skip_block_scalar_indent ops F fuel indent breaks).
Proof. induction fuel as [|fuel IH]; intros; cbn [skip_block_scalar_indent]; [apply frames_oof|]. fr. Qed.
Lemma frames_skip_first_line_indent F : forall fuel maxi breaks, frames (skip_first_line_indent ops F fuel maxi breaks).
Proof. induction fuel as [|fuel IH]; intros; cbn [skip_first_line_indent]; [apply frames_oof|]. fr. Qed.
Hint Resolve frames_skip_block_scalar_indent frames_skip_first_line_indent : frm.

Theorem frames_scan_block_scalar : forall F literal, frames (scan_block_scalar ops F literal).
Proof. intros. unfold scan_block_scalar. fr. Qed.

End Frame.

(* the calculus and the entry points, for clients ([auto with frm]) *)
#[export] Hint Resolve frames_ret frames_fail frames_panic frames_oof frames_get frames_gets
  frames_look frames_peekn frames_peek frames_in_skip frames_in_skip_n frames_raw_read frames_buf_is_empty
  frames_assert_buflen frames_mark frames_adv_mark frames_set_lws frames_allow_simple_key frames_flow_level
  frames_is_within_block frames_col frames_col_lt_indent frames_unroll_non_block_indents
  frames_look_ch frames_next_is frames_next_is_document_indicator frames_next_is_document_start
  frames_next_is_document_end frames_skip_blank frames_skip_non_blank frames_skip_n_non_blank
  frames_skip_linebreak frames_skip_break
  frames_skip_to_next_token frames_skip_ws_to_eol frames_skip_yaml_whitespace frames_scan_directive frames_scan_tag
  frames_scan_anchor frames_scan_flow_scalar frames_scan_plain_scalar frames_scan_block_scalar : frm.

Print Assumptions frames_skip_to_next_token.
Print Assumptions frames_skip_ws_to_eol.
Print Assumptions frames_skip_yaml_whitespace.
Print Assumptions frames_scan_directive.
Print Assumptions frames_scan_tag.
Print Assumptions frames_scan_anchor.
Print Assumptions frames_scan_flow_scalar.
Print Assumptions frames_scan_plain_scalar.
Print Assumptions frames_scan_block_scalar.
