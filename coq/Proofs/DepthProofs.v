(* C11 — lemmas about nesting depth, recursion depth and the heap stack of the pull parser. *)
From Coq Require Import List NArith Bool Lia PeanoNat.
Import ListNotations.
Require Import Parser SFetch Pipe Drivers Grammar Resolver Loader C02base C02rest C02tail C02run Depth.
Local Open Scope nat_scope.

(* ------------------------------------------------------------------------------------------------ *)
(* 1. nesting depth of event lists                                                                   *)
(* ------------------------------------------------------------------------------------------------ *)
Lemma depth_run_app c m a b :
  depth_run c m (a ++ b) = depth_run (fst (depth_run c m a)) (snd (depth_run c m a)) b.
Proof.
  unfold depth_run. rewrite fold_left_app. destruct (fold_left depth_step a (c, m)); reflexivity.
Qed.

Lemma depth_run_cons c m e r : depth_run c m (e :: r) = depth_run (fst (depth_step (c, m) e)) (snd (depth_step (c, m) e)) r.
Proof. unfold depth_run. cbn [fold_left]. destruct (depth_step (c, m) e); reflexivity. Qed.

Lemma depth_run_nil c m : depth_run c m [] = (c, m).
Proof. reflexivity. Qed.

(* ------------------------------------------------------------------------------------------------ *)
(* 2. the recursive push loader: recursion depth = entry depth + nesting depth of what it consumed    *)
(* ------------------------------------------------------------------------------------------------ *)
Definition node_claim (fuel : nat) : Prop :=
  forall d evs r m, pl_node fuel d evs = PlDone r m ->
    exists used, evs = used ++ r /\ d <= m /\
      forall c mx, c <= mx -> depth_run c mx used = (c, Nat.max mx (c + (m - d))).
Definition seq_claim (fuel : nat) : Prop :=
  forall d evs r m, pl_sequence fuel d evs = PlDone r m ->
    exists used, evs = used ++ r /\ d <= m /\
      forall c mx, S c <= mx -> depth_run (S c) mx used = (c, Nat.max mx (c + (m - d))).
Definition map_claim (fuel : nat) : Prop :=
  forall d evs r m, pl_mapping fuel d evs = PlDone r m ->
    exists used, evs = used ++ r /\ d <= m /\
      forall c mx, S c <= mx -> depth_run (S c) mx used = (c, Nat.max mx (c + (m - d))).

Lemma pl_claims fuel : node_claim fuel /\ seq_claim fuel /\ map_claim fuel.
Proof.
  induction fuel as [|f [IHn [IHs IHm]]].
  - repeat split; intros d evs r m H; discriminate.
  - split; [|split].
    + (* load_node *)
      intros d evs r m H. cbn [pl_node] in H.
      destruct evs as [|e evs]; [discriminate|].
      destruct e; try discriminate.
      * inversion H; subst. exists [EAlias id]. split; [reflexivity|]. split; [lia|].
        intros c mx Hc. rewrite depth_run_cons. cbn. f_equal. lia.
      * inversion H; subst. exists [EScalar v st aid tg]. split; [reflexivity|]. split; [lia|].
        intros c mx Hc. rewrite depth_run_cons. cbn. f_equal. lia.
      * destruct (IHs _ _ _ _ H) as (used & E & Hd & Hrun).
        exists (ESequenceStart aid tg :: used). split; [rewrite E; reflexivity|]. split; [exact Hd|].
        intros c mx Hc. rewrite depth_run_cons. cbn [depth_step fst snd].
        rewrite Hrun by lia. f_equal. lia.
      * destruct (IHm _ _ _ _ H) as (used & E & Hd & Hrun).
        exists (EMappingStart aid tg :: used). split; [rewrite E; reflexivity|]. split; [exact Hd|].
        intros c mx Hc. rewrite depth_run_cons. cbn [depth_step fst snd].
        rewrite Hrun by lia. f_equal. lia.
    + (* load_sequence *)
      intros d evs r m H. cbn [pl_sequence] in H.
      destruct evs as [|e evs]; [discriminate|].
      assert (Hloop :
        match pl_node f (S d) (e :: evs) with
        | PlDone r0 m0 => match pl_sequence f d r0 with PlDone r' m' => PlDone r' (Nat.max m0 m') | x => x end
        | x => x
        end = PlDone r m ->
        exists used, e :: evs = used ++ r /\ d <= m /\
          forall c mx, S c <= mx -> depth_run (S c) mx used = (c, Nat.max mx (c + (m - d)))).
      { clear H. intros H.
        destruct (pl_node f (S d) (e :: evs)) as [r0 m0| | |] eqn:E1; try discriminate.
        destruct (pl_sequence f d r0) as [r1 m1| | |] eqn:E2; try discriminate.
        inversion H; subst; clear H.
        destruct (IHn _ _ _ _ E1) as (u1 & A1 & D1 & R1).
        destruct (IHs _ _ _ _ E2) as (u2 & A2 & D2 & R2).
        exists (u1 ++ u2). split; [rewrite A1, A2, app_assoc; reflexivity|]. split; [lia|].
        intros c mx Hc. rewrite depth_run_app, R1 by lia. cbn [fst snd].
        rewrite R2 by lia. f_equal. lia. }
      destruct e; try (apply Hloop; exact H).
      inversion H; subst. exists [ESequenceEnd]. split; [reflexivity|]. split; [lia|].
      intros c mx Hc. rewrite depth_run_cons. cbn. f_equal. lia.
    + (* load_mapping *)
      intros d evs r m H. cbn [pl_mapping] in H.
      destruct evs as [|e evs]; [discriminate|].
      assert (Hloop :
        match pl_node f (S d) (e :: evs) with
        | PlDone r0 m0 =>
            match pl_node f (S d) r0 with
            | PlDone r' m' =>
                match pl_mapping f d r' with
                | PlDone r'' m'' => PlDone r'' (Nat.max (Nat.max m0 m') m'')
                | x => x
                end
            | x => x
            end
        | x => x
        end = PlDone r m ->
        exists used, e :: evs = used ++ r /\ d <= m /\
          forall c mx, S c <= mx -> depth_run (S c) mx used = (c, Nat.max mx (c + (m - d)))).
      { clear H. intros H.
        destruct (pl_node f (S d) (e :: evs)) as [r0 m0| | |] eqn:E1; try discriminate.
        destruct (pl_node f (S d) r0) as [r1 m1| | |] eqn:E2; try discriminate.
        destruct (pl_mapping f d r1) as [r2 m2| | |] eqn:E3; try discriminate.
        inversion H; subst; clear H.
        destruct (IHn _ _ _ _ E1) as (u1 & A1 & D1 & R1).
        destruct (IHn _ _ _ _ E2) as (u2 & A2 & D2 & R2).
        destruct (IHm _ _ _ _ E3) as (u3 & A3 & D3 & R3).
        exists (u1 ++ u2 ++ u3). split; [rewrite A1, A2, A3, !app_assoc; reflexivity|]. split; [lia|].
        intros c mx Hc. rewrite depth_run_app, R1 by lia. cbn [fst snd].
        rewrite depth_run_app, R2 by lia. cbn [fst snd].
        rewrite R3 by lia. f_equal. lia. }
      destruct e; try (apply Hloop; exact H).
      inversion H; subst. exists [EMappingEnd]. split; [reflexivity|]. split; [lia|].
      intros c mx Hc. rewrite depth_run_cons. cbn. f_equal. lia.
Qed.

(* Whenever load_node returns (with whatever fuel): it consumed a well-nested prefix, and the deepest
   chain of load_node activations was the entry depth plus the nesting depth of that prefix. *)
Theorem push_loader_recursion_depth fuel d evs r m :
  pl_node fuel d evs = PlDone r m ->
  exists used, evs = used ++ r /\ open_depth used = 0 /\ m = d + max_nesting used.
Proof.
  intros H. destruct (proj1 (pl_claims fuel) _ _ _ _ H) as (used & E & Hd & Hrun).
  exists used. split; [exact E|]. unfold open_depth, max_nesting. rewrite (Hrun 0 0) by lia.
  cbn [fst snd]. split; [reflexivity|]. lia.
Qed.
