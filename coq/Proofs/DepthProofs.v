(* C11 — lemmas about nesting depth, recursion depth and the heap stack of the pull parser. *)
From Coq Require Import List NArith Bool Lia PeanoNat.
Import ListNotations.
Require Import Parser SFetch Pipe Drivers Grammar Resolver Loader C02base C02rest C02tail C02run Depth.
Require SBase SPrim Consts.
Local Open Scope nat_scope.

(* ------------------------------------------------------------------------------------------------ *)
(* 1. nesting depth of event lists                                                                   *)
(* ------------------------------------------------------------------------------------------------ *)
Lemma depth_run_app c m a b :
  depth_run c m (a ++ b) = depth_run (fst (depth_run c m a)) (snd (depth_run c m a)) b.
Proof.
  unfold depth_run. rewrite fold_left_app. destruct (fold_left depth_step a (c, m)); reflexivity.
Qed.

Lemma depth_run_cons c m e r : depth_run c m (e :: r) = depth_run (fst (depth_step (c, m) e)) (snd (depth_step (c, m) e)) r.
Proof. unfold depth_run. cbn [fold_left]. destruct (depth_step (c, m) e); reflexivity. Qed.

Lemma depth_run_nil c m : depth_run c m [] = (c, m).
Proof. reflexivity. Qed.

Lemma depth_step_mono c c' m m' e :
  c <= c' -> m <= m' ->
  fst (depth_step (c, m) e) <= fst (depth_step (c', m') e) /\ snd (depth_step (c, m) e) <= snd (depth_step (c', m') e).
Proof. intros Hc Hm. destruct e; cbn [depth_step fst snd]; lia. Qed.

Lemma depth_run_mono evs : forall c c' m m',
  c <= c' -> m <= m' ->
  fst (depth_run c m evs) <= fst (depth_run c' m' evs) /\ snd (depth_run c m evs) <= snd (depth_run c' m' evs).
Proof.
  induction evs as [|e r IH]; intros c c' m m' Hc Hm; [cbn; lia|].
  rewrite !depth_run_cons. destruct (depth_step_mono c c' m m' e Hc Hm) as [A B]. apply IH; assumption.
Qed.

Lemma depth_run_snd_ge evs : forall c m, m <= snd (depth_run c m evs).
Proof.
  induction evs as [|e r IH]; intros c m; [cbn; lia|]. rewrite depth_run_cons.
  etransitivity; [|apply IH]. destruct e; cbn [depth_step fst snd]; lia.
Qed.

Lemma max_nesting_segment pre used post : max_nesting used <= max_nesting (pre ++ used ++ post).
Proof.
  unfold max_nesting. rewrite depth_run_app.
  destruct (depth_run 0 0 pre) as [c1 m1]. cbn [fst snd]. rewrite depth_run_app.
  destruct (depth_run_mono used 0 c1 0 m1 (Nat.le_0_l _) (Nat.le_0_l _)) as [_ B].
  etransitivity; [exact B|]. destruct (depth_run c1 m1 used) as [c2 m2]. cbn [fst snd]. apply depth_run_snd_ge.
Qed.

(* ------------------------------------------------------------------------------------------------ *)
(* 2. the recursive push loader: recursion depth = entry depth + nesting depth of what it consumed    *)
(* ------------------------------------------------------------------------------------------------ *)
Definition node_claim (fuel : nat) : Prop :=
  forall d evs r m, pl_node fuel d evs = PlDone r m ->
    exists used, evs = used ++ r /\ d <= m /\
      forall c mx, depth_run c mx used = (c, Nat.max mx (c + (m - d))).
Definition seq_claim (fuel : nat) : Prop :=
  forall d evs r m, pl_sequence fuel d evs = PlDone r m ->
    exists used, evs = used ++ r /\ d <= m /\
      forall c mx, c <= mx -> depth_run (S c) mx used = (c, Nat.max mx (c + (m - d))).
Definition map_claim (fuel : nat) : Prop :=
  forall d evs r m, pl_mapping fuel d evs = PlDone r m ->
    exists used, evs = used ++ r /\ d <= m /\
      forall c mx, c <= mx -> depth_run (S c) mx used = (c, Nat.max mx (c + (m - d))).

Lemma pl_claims fuel : node_claim fuel /\ seq_claim fuel /\ map_claim fuel.
Proof.
  induction fuel as [|f [IHn [IHs IHm]]].
  - repeat split; intros d evs r m H; discriminate.
  - split; [|split].
    + (* load_node *)
      intros d evs r m H. cbn [pl_node] in H.
      destruct evs as [|e evs]; [discriminate|].
      destruct e; try discriminate.
      * inversion H; subst. exists [EAlias id]. split; [reflexivity|]. split; [lia|].
        intros c mx. rewrite depth_run_cons. cbn [depth_step fst snd]. rewrite depth_run_nil. f_equal. lia.
      * inversion H; subst. exists [EScalar v st aid tg]. split; [reflexivity|]. split; [lia|].
        intros c mx. rewrite depth_run_cons. cbn [depth_step fst snd]. rewrite depth_run_nil. f_equal. lia.
      * destruct (IHs _ _ _ _ H) as (used & E & Hd & Hrun).
        exists (ESequenceStart aid tg :: used). split; [rewrite E; reflexivity|]. split; [exact Hd|].
        intros c mx. rewrite depth_run_cons. cbn [depth_step fst snd].
        rewrite Hrun by lia. f_equal. lia.
      * destruct (IHm _ _ _ _ H) as (used & E & Hd & Hrun).
        exists (EMappingStart aid tg :: used). split; [rewrite E; reflexivity|]. split; [exact Hd|].
        intros c mx. rewrite depth_run_cons. cbn [depth_step fst snd].
        rewrite Hrun by lia. f_equal. lia.
    + (* load_sequence *)
      intros d evs r m H. cbn [pl_sequence] in H.
      destruct evs as [|e evs]; [discriminate|].
      assert (Hloop :
        match pl_node f (S d) (e :: evs) with
        | PlDone r0 m0 => match pl_sequence f d r0 with PlDone r' m' => PlDone r' (Nat.max m0 m') | x => x end
        | x => x
        end = PlDone r m ->
        exists used, e :: evs = used ++ r /\ d <= m /\
          forall c mx, c <= mx -> depth_run (S c) mx used = (c, Nat.max mx (c + (m - d)))).
      { clear H. intros H.
        destruct (pl_node f (S d) (e :: evs)) as [r0 m0| | |] eqn:E1; try discriminate.
        destruct (pl_sequence f d r0) as [r1 m1| | |] eqn:E2; try discriminate.
        inversion H; subst; clear H.
        destruct (IHn _ _ _ _ E1) as (u1 & A1 & D1 & R1).
        destruct (IHs _ _ _ _ E2) as (u2 & A2 & D2 & R2).
        exists (u1 ++ u2). split; [rewrite A1, A2, app_assoc; reflexivity|]. split; [lia|].
        intros c mx Hc. rewrite depth_run_app, R1. cbn [fst snd].
        rewrite R2 by lia. f_equal. lia. }
      destruct e; try (apply Hloop; exact H).
      inversion H; subst. exists [ESequenceEnd]. split; [reflexivity|]. split; [lia|].
      intros c mx Hc. rewrite depth_run_cons. cbn [depth_step fst snd]. rewrite depth_run_nil. f_equal. lia.
    + (* load_mapping *)
      intros d evs r m H. cbn [pl_mapping] in H.
      destruct evs as [|e evs]; [discriminate|].
      assert (Hloop :
        match pl_node f (S d) (e :: evs) with
        | PlDone r0 m0 =>
            match pl_node f (S d) r0 with
            | PlDone r' m' =>
                match pl_mapping f d r' with
                | PlDone r'' m'' => PlDone r'' (Nat.max (Nat.max m0 m') m'')
                | x => x
                end
            | x => x
            end
        | x => x
        end = PlDone r m ->
        exists used, e :: evs = used ++ r /\ d <= m /\
          forall c mx, c <= mx -> depth_run (S c) mx used = (c, Nat.max mx (c + (m - d)))).
      { clear H. intros H.
        destruct (pl_node f (S d) (e :: evs)) as [r0 m0| | |] eqn:E1; try discriminate.
        destruct (pl_node f (S d) r0) as [r1 m1| | |] eqn:E2; try discriminate.
        destruct (pl_mapping f d r1) as [r2 m2| | |] eqn:E3; try discriminate.
        inversion H; subst; clear H.
        destruct (IHn _ _ _ _ E1) as (u1 & A1 & D1 & R1).
        destruct (IHn _ _ _ _ E2) as (u2 & A2 & D2 & R2).
        destruct (IHm _ _ _ _ E3) as (u3 & A3 & D3 & R3).
        exists (u1 ++ u2 ++ u3). split; [rewrite A1, A2, A3, !app_assoc; reflexivity|]. split; [lia|].
        intros c mx Hc. rewrite depth_run_app, R1. cbn [fst snd].
        rewrite depth_run_app, R2. cbn [fst snd].
        rewrite R3 by lia. f_equal. lia. }
      destruct e; try (apply Hloop; exact H).
      inversion H; subst. exists [EMappingEnd]. split; [reflexivity|]. split; [lia|].
      intros c mx Hc. rewrite depth_run_cons. cbn [depth_step fst snd]. rewrite depth_run_nil. f_equal. lia.
Qed.

(* Whenever load_node returns (with whatever fuel): it consumed a well-nested prefix, and the deepest
   chain of load_node activations was the entry depth plus the nesting depth of that prefix. *)
Theorem push_loader_recursion_depth fuel d evs r m :
  pl_node fuel d evs = PlDone r m ->
  exists used, evs = used ++ r /\ open_depth used = 0 /\ m = d + max_nesting used.
Proof.
  intros H. destruct (proj1 (pl_claims fuel) _ _ _ _ H) as (used & E & Hd & Hrun).
  exists used. split; [exact E|]. unfold open_depth, max_nesting. rewrite (Hrun 0 0).
  cbn [fst snd]. split; [reflexivity|]. lia.
Qed.

(* ------------------------------------------------------------------------------------------------ *)
(* 3. structural recursion over the tree: depth reached = entry depth + depth of the tree            *)
(* ------------------------------------------------------------------------------------------------ *)
Section YamlInd.
  Variable P : yaml -> Prop.
  Hypothesis HV : forall v, P (YVal v).
  Hypothesis HB : P YBad.
  Hypothesis HS : forall l, Forall P l -> P (YSeq l).
  Hypothesis HM : forall l, Forall (fun kv => P (fst kv) /\ P (snd kv)) l -> P (YMap l).
  Fixpoint yaml_nested_ind (y : yaml) : P y :=
    match y with
    | YVal v => HV v
    | YBad => HB
    | YSeq l => HS l ((fix go (l : list yaml) : Forall P l :=
                         match l with
                         | [] => Forall_nil P
                         | x :: r => Forall_cons x (yaml_nested_ind x) (go r)
                         end) l)
    | YMap l => HM l ((fix go (l : list (yaml * yaml)) : Forall (fun kv => P (fst kv) /\ P (snd kv)) l :=
                         match l with
                         | [] => Forall_nil _
                         | kv :: r => Forall_cons kv (conj (yaml_nested_ind (fst kv)) (yaml_nested_ind (snd kv))) (go r)
                         end) l)
    end.
End YamlInd.

Lemma list_max_map_shift {A} (f g : A -> nat) d l :
  Forall (fun x => f x = d + g x) l -> l <> [] -> list_max (map f l) = d + list_max (map g l).
Proof.
  induction 1 as [|x r Hx Hr IH]; intros HN; [congruence|].
  cbn [map list_max fold_right]. fold (list_max (map f r)). fold (list_max (map g r)).
  destruct r as [|y r'].
  - cbn. lia.
  - rewrite IH by discriminate. lia.
Qed.

Theorem walk_depth_is_tree_depth : forall y d, ywalk d y = d + ydepth y.
Proof.
  induction y as [v| |l IH|l IH] using yaml_nested_ind; intros d; cbn [ywalk ydepth]; try lia.
  - destruct l as [|x r]; [cbn; lia|].
    rewrite (list_max_map_shift (fun x => ywalk (S d) x) (fun x => S (ydepth x)) d); [lia| |discriminate].
    eapply Forall_impl; [|exact IH]. cbn beta. intros a Ha. rewrite Ha. lia.
  - destruct l as [|x r]; [cbn; lia|].
    rewrite (list_max_map_shift (fun kv => Nat.max (ywalk (S d) (fst kv)) (ywalk (S d) (snd kv)))
                                (fun kv => Nat.max (S (ydepth (fst kv))) (S (ydepth (snd kv)))) d);
      [lia| |discriminate].
    eapply Forall_impl; [|exact IH]. cbn beta. intros a [Ha Hb]. rewrite Ha, Hb. lia.
Qed.

Lemma ydepth_nest_seq n leaf : ydepth (nest_seq n leaf) = n + ydepth leaf.
Proof.
  induction n as [|n IH]; [reflexivity|].
  cbn [nest_seq ydepth map list_max fold_right]. rewrite IH. lia.
Qed.

(* ------------------------------------------------------------------------------------------------ *)
(* 4. the pull parser: its continuation lives on the heap stack [p_states]; the stack length is tied   *)
(*    to the number of constructs currently open in the event sentence (C02's invariant)               *)
(* ------------------------------------------------------------------------------------------------ *)
Definition gframes (g : gstate) : list frame := match g with GStream stk => stk | _ => [] end.
Definition gdepth (g : gstate) : nat := length (gframes g).

Lemma cont_frames_len s : cont_ok s = true \/ s = SDocumentEnd -> 1 <= length (cont_frames s) <= 2.
Proof. intros [H| ->]; [destruct s; try discriminate H|]; cbn; lia. Qed.

Lemma rooted_frames stk : Rooted stk -> length stk <= length (stack_frames stk) <= 2 * length stk.
Proof.
  induction 1 as [|s r Hc HR IH].
  - cbn. lia.
  - unfold stack_frames in *. cbn [flat_map]. rewrite app_length. cbn [length].
    pose proof (cont_frames_len s (or_introl Hc)). lia.
Qed.

Lemma cur_frames_len st a : cur_frames st = Some a -> length a <= 2.
Proof. destruct st; cbn; intros H; inversion H; cbn; lia. Qed.

(* heap stack of the pull parser <= open constructs of the sentence so far <= 2 * stack + 2 *)
Lemma inv_stack_bounds p g : Inv p g -> length (p_states p) <= gdepth g <= 2 * length (p_states p) + 2.
Proof.
  unfold Inv, InvS, gdepth.
  destruct (p_state p);
    try (intros [-> ->]; cbn; lia);
    intros [HR [a [Ha ->]]]; cbn [gframes]; rewrite app_length;
    pose proof (rooted_frames _ HR); pose proof (cur_frames_len _ _ Ha); lia.
Qed.

(* the acceptor's stack: collection frames + at most one document frame at the bottom *)
Definition is_coll (f : frame) : bool := match f with FSeq | FMapKey | FMapVal => true | _ => false end.
Definition is_doc (f : frame) : bool := negb (is_coll f).
Definition wf_frames (stk : list frame) : Prop :=
  exists cs ds, stk = cs ++ ds /\ forallb is_coll cs = true /\ (ds = [] \/ ds = [FDoc] \/ ds = [FDocDone]).

Lemma wf_len stk : wf_frames stk -> length stk <= S (length (filter is_coll stk)).
Proof.
  intros (cs & ds & -> & Hc & Hd). rewrite filter_app, !app_length.
  assert (length (filter is_coll cs) = length cs).
  { clear Hd. induction cs as [|x r IH]; [reflexivity|]. cbn in Hc. apply andb_prop in Hc as [A B].
    cbn [filter]. rewrite A. cbn [length]. rewrite IH by exact B. reflexivity. }
  destruct Hd as [-> | [-> | ->]]; cbn; lia.
Qed.

Lemma filter_len_le {A} (f : A -> bool) l : length (filter f l) <= length l.
Proof. induction l as [|x r IH]; [apply le_n|]. cbn [filter]. destruct (f x); cbn [length]; lia. Qed.

Definition colls (g : gstate) : nat := length (filter is_coll (gframes g)).
Definition wf_g (g : gstate) : Prop := wf_frames (gframes g).

Lemma wf_cons_coll f stk : is_coll f = true -> wf_frames stk -> wf_frames (f :: stk).
Proof.
  intros Hf (cs & ds & -> & Hc & Hd). exists (f :: cs), ds. repeat split; auto. cbn. rewrite Hf, Hc. reflexivity.
Qed.

Lemma wf_tail f stk : is_coll f = true -> wf_frames (f :: stk) -> wf_frames stk.
Proof.
  intros Hf (cs & ds & E & Hc & Hd). destruct cs as [|x cs].
  - cbn in E. subst ds. destruct Hd as [H | [H | H]]; inversion H; subst; discriminate.
  - cbn in E. inversion E; subst. cbn in Hc. apply andb_prop in Hc as [_ B]. exists cs, ds. auto.
Qed.

Lemma complete_wf stk stk' :
  complete stk = Some stk' -> wf_frames stk -> wf_frames stk' /\ length (filter is_coll stk') = length (filter is_coll stk).
Proof.
  destruct stk as [|f r]; [discriminate|].
  destruct f; cbn [complete]; intros H; inversion H; subst; clear H; intros W.
  - split; [exact W | reflexivity].
  - split; [|reflexivity]. apply wf_cons_coll; [reflexivity|]. eapply wf_tail; [|exact W]. reflexivity.
  - split; [|reflexivity]. apply wf_cons_coll; [reflexivity|]. eapply wf_tail; [|exact W]. reflexivity.
  - split; [|reflexivity]. destruct W as (cs & ds & E & Hc & Hd). destruct cs as [|x cs].
    + cbn in E. subst ds. destruct Hd as [Hd | [Hd | Hd]]; inversion Hd; subst.
      exists [], [FDocDone]. repeat split; auto.
    + cbn in E. inversion E; subst. cbn in Hc. discriminate.
Qed.

(* one event: well-formedness of the acceptor stack is kept, and the number of collection frames moves
   exactly like the running counter of [depth_step] *)
Lemma gstep_colls g e g' :
  gstep g e = Some g' -> wf_g g -> wf_g g' /\ forall m, colls g' = fst (depth_step (colls g, m) e).
Proof.
  unfold wf_g, colls.
  destruct e; destruct g as [|stk|]; cbn [gstep on_stream depth_step fst gframes]; try discriminate.
  - intros H; inversion H; subst. intros _. split; [exists [], []; cbn; auto|reflexivity].
  - destruct stk; [|discriminate]. intros H; inversion H; subst. intros _. split; [exists [], []; cbn; auto|reflexivity].
  - destruct stk; [|discriminate]. intros H; inversion H; subst. intros _.
    split; [exists [], [FDoc]; cbn; auto|reflexivity].
  - destruct stk as [|f [|? ?]]; try discriminate; destruct f; try discriminate.
    intros H; inversion H; subst. intros _. split; [exists [], []; cbn; auto|reflexivity].
  - destruct (complete stk) as [stk'|] eqn:C; [|discriminate]. cbn [option_map]. intros H; inversion H; subst.
    intros W. destruct (complete_wf _ _ C W) as [A B]. cbn [gframes]. split; [exact A|intros; exact B].
  - destruct (complete stk) as [stk'|] eqn:C; [|discriminate]. cbn [option_map]. intros H; inversion H; subst.
    intros W. destruct (complete_wf _ _ C W) as [A B]. cbn [gframes]. split; [exact A|intros; exact B].
  - destruct (node_ok stk); [|discriminate]. intros H; inversion H; subst. intros W. cbn [gframes].
    split; [apply wf_cons_coll; [reflexivity|exact W]|reflexivity].
  - destruct stk as [|f r]; [discriminate|]. destruct f; try discriminate.
    destruct (complete r) as [r'|] eqn:C; [|discriminate]. cbn [option_map]. intros H; inversion H; subst.
    intros W. assert (W' : wf_frames r) by (eapply wf_tail; [|exact W]; reflexivity).
    destruct (complete_wf _ _ C W') as [A B]. cbn [gframes]. split; [exact A|]. intros _. rewrite B. reflexivity.
  - destruct (node_ok stk); [|discriminate]. intros H; inversion H; subst. intros W. cbn [gframes].
    split; [apply wf_cons_coll; [reflexivity|exact W]|reflexivity].
  - destruct stk as [|f r]; [discriminate|]. destruct f; try discriminate.
    destruct (complete r) as [r'|] eqn:C; [|discriminate]. cbn [option_map]. intros H; inversion H; subst.
    intros W. assert (W' : wf_frames r) by (eapply wf_tail; [|exact W]; reflexivity).
    destruct (complete_wf _ _ C W') as [A B]. cbn [gframes]. split; [exact A|]. intros _. rewrite B. reflexivity.
Qed.

Lemma grun_colls evs : forall g g' c m,
  grun g evs = Some g' -> wf_g g -> colls g = c -> wf_g g' /\ colls g' = fst (depth_run c m evs).
Proof.
  induction evs as [|e r IH]; intros g g' c m H W Hc.
  - cbn in H. inversion H; subst. auto.
  - cbn [grun] in H. destruct (gstep g e) as [g1|] eqn:E; [|discriminate].
    destruct (gstep_colls _ _ _ E W) as [W1 C1].
    rewrite depth_run_cons. subst c.
    eapply IH; [exact H|exact W1|]. rewrite (C1 m). reflexivity.
Qed.

(* states the pull parser can reach from its initial state, with the events delivered so far *)
Inductive reach (p0 : parser) : parser -> list event -> Prop :=
| reach_init : reach p0 p0 []
| reach_step p evs e sp p' :
    reach p0 p evs -> p_state p <> SEnd -> state_machine p = Parser.Ok ((e, sp), p') -> reach p0 p' (evs ++ [e]).

Lemma reach_inv toks keep p evs :
  reach (init_parser toks keep) p evs -> exists g, grun GInit evs = Some g /\ Inv p g.
Proof.
  induction 1 as [|p evs e sp p' HR [g [Hg HI]] HNE HS].
  - exists GInit. split; [reflexivity|apply init_inv].
  - pose proof (state_machine_post p g HI HNE) as HP. rewrite HS in HP. destruct HP as [g' [Hs HI']].
    exists g'. split; [|exact HI']. rewrite grun_app, Hg. cbn [grun]. rewrite Hs. reflexivity.
Qed.

(* For EVERY token list: in every reachable state, the heap stack of the pull parser holds at most one
   entry per collection currently open in the delivered events, plus one (the document); and the stack
   does grow with the nesting: it holds at least (open - 2) / 2 entries. *)
Theorem pull_stack_bounded_by_open_depth toks keep p evs :
  reach (init_parser toks keep) p evs ->
  length (p_states p) <= open_depth evs + 1 /\ open_depth evs <= 2 * length (p_states p) + 2.
Proof.
  intros HR. destruct (reach_inv _ _ _ _ HR) as [g [Hg HI]].
  pose proof (inv_stack_bounds _ _ HI) as [B1 B2].
  assert (W0 : wf_g GInit) by (exists [], []; cbn; auto).
  destruct (grun_colls evs GInit g 0 0 Hg W0 eq_refl) as [W C].
  unfold open_depth. rewrite <- C. unfold colls.
  pose proof (wf_len _ W) as L. unfold gdepth in *.
  assert (length (filter is_coll (gframes g)) <= length (gframes g)) by apply filter_len_le.
  lia.
Qed.

(* one step moves the number of open collections by at most one *)
Lemma depth_step_delta c m e : fst (depth_step (c, m) e) <= S c /\ c <= S (fst (depth_step (c, m) e)).
Proof. destruct e; cbn; lia. Qed.

(* ------------------------------------------------------------------------------------------------ *)
(* 5. the witness family through the parser model: block nesting of EVERY depth is accepted           *)
(* ------------------------------------------------------------------------------------------------ *)
Definition mkp (keep : bool) (toks : list token) (c : option token) (stk : list pstate) (st : pstate) : parser :=
  {| p_toks := toks; p_token := c; p_states := stk; p_state := st;
     p_anchors := []; p_anchor_id := 1%N; p_tags := []; p_keep_tags := keep |}.

Definition evsp (l : list event) : list (event * span) := map (fun e => (e, sp0)) l.

Lemma first_entry_step n keep rest stk :
  state_machine (mkp keep (tk TBlockEntry :: nhd n :: rest) (Some (tk TBlockSequenceStart)) stk SBlockSequenceFirstEntry)
  = parse_node (mkp keep rest (Some (nhd n)) (SBlockSequenceEntry :: stk) SBlockSequenceFirstEntry) true false.
Proof. destruct n; reflexivity. Qed.

Lemma seq_end_step keep rest c stk :
  state_machine (mkp keep (tk TBlockEnd :: rest) None (c :: stk) SBlockSequenceEntry)
  = Parser.Ok ((ESequenceEnd, sp0), mkp keep rest None stk c).
Proof. reflexivity. Qed.

Lemma node_run : forall n keep rest c stk st,
  exists first p1,
    parse_node (mkp keep (ntl n rest) (Some (nhd n)) (c :: stk) st) true false = Parser.Ok ((first, sp0), p1)
    /\ forall fuel se acc,
         parse_all (2 * n + fuel) p1 se ((first, sp0) :: acc)
         = parse_all fuel (mkp keep rest None stk c) se (rev (evsp (node_evs n)) ++ acc).
Proof.
  induction n as [|n IH]; intros keep rest c stk st.
  - exists leaf_ev, (mkp keep rest None stk c). split; [reflexivity|]. intros fuel se acc. reflexivity.
  - exists (ESequenceStart 0%N None),
           (mkp keep (ntl (S n) rest) (Some (tk TBlockSequenceStart)) (c :: stk) SBlockSequenceFirstEntry).
    split; [reflexivity|]. intros fuel se acc.
    replace (2 * S n + fuel) with (S (2 * n + S fuel)) by lia.
    rewrite parse_all_S. cbn [mkp p_state]. unfold step_result.
    cbn [ntl]. rewrite first_entry_step.
    destruct (IH keep (tk TBlockEnd :: rest) SBlockSequenceEntry (c :: stk) SBlockSequenceFirstEntry)
      as (first & p1 & Hp & Hrun).
    rewrite Hp, Hrun.
    rewrite parse_all_S. cbn [mkp p_state]. unfold step_result. rewrite seq_end_step.
    f_equal. cbn [node_evs]. unfold evsp. cbn [map]. rewrite map_app. cbn [map rev].
    rewrite rev_app_distr. cbn [rev app]. rewrite <- !app_assoc. reflexivity.
Qed.

(* the whole stream *)
Definition seq_result (d : nat) : list (event * span) := evsp (seq_events d).

Lemma stream_start_step keep rest :
  state_machine (init_parser (tk TStreamStart :: rest) keep)
  = Parser.Ok ((EStreamStart, sp0), mkp keep rest None [] SImplicitDocumentStart).
Proof. reflexivity. Qed.

Lemma doc_start_step d keep rest :
  state_machine (mkp keep (nhd d :: rest) None [] SImplicitDocumentStart)
  = Parser.Ok ((EDocumentStart false, sp0), mkp keep rest (Some (nhd d)) [SDocumentEnd] SBlockNode).
Proof. destruct d; reflexivity. Qed.

Lemma doc_end_step keep :
  state_machine (mkp keep [tk TStreamEnd] None [] SDocumentEnd)
  = Parser.Ok ((EDocumentEnd, sp0), mkp keep [] (Some (tk TStreamEnd)) [] SDocumentStart).
Proof. destruct keep; reflexivity. Qed.

Lemma stream_end_step keep :
  state_machine (mkp keep [] (Some (tk TStreamEnd)) [] SDocumentStart)
  = Parser.Ok ((EStreamEnd, sp0), mkp keep [] None [] SEnd).
Proof. reflexivity. Qed.

Lemma seq_tokens_run d keep se fuel :
  parse_all (2 * d + 6 + fuel) (init_parser (seq_tokens d) keep) se [] = (seq_result d, PDone).
Proof.
  unfold seq_tokens.
  replace (2 * d + 6 + fuel) with (S (S (S (2 * d + S (S (S fuel)))))) by lia.
  rewrite parse_all_S. cbn [init_parser p_state]. unfold step_result. rewrite stream_start_step.
  rewrite parse_all_S. cbn [mkp p_state]. unfold step_result. rewrite doc_start_step.
  rewrite parse_all_S. cbn [mkp p_state]. unfold step_result.
  change (state_machine (mkp keep (ntl d [tk TStreamEnd]) (Some (nhd d)) [SDocumentEnd] SBlockNode))
    with (parse_node (mkp keep (ntl d [tk TStreamEnd]) (Some (nhd d)) [SDocumentEnd] SBlockNode) true false).
  destruct (node_run d keep [tk TStreamEnd] SDocumentEnd [] SBlockNode) as (first & p1 & Hp & Hrun).
  rewrite Hp, Hrun.
  rewrite parse_all_S. cbn [mkp p_state]. unfold step_result. rewrite doc_end_step.
  rewrite parse_all_S. cbn [mkp p_state]. unfold step_result. rewrite stream_end_step.
  rewrite parse_all_S. cbn [mkp p_state].
  f_equal. unfold seq_result, seq_events, evsp. cbn [rev app map]. rewrite !map_app. cbn [map].
  rewrite rev_app_distr, rev_involutive. cbn [rev app]. rewrite <- !app_assoc. reflexivity.
Qed.

Lemma ntl_length n rest : length (ntl n rest) = 3 * n + length rest.
Proof.
  revert rest; induction n as [|n IH]; intros rest; [reflexivity|].
  cbn [ntl length]. rewrite IH. cbn [length]. lia.
Qed.

Lemma seq_tokens_length d : length (seq_tokens d) = 3 * d + 3.
Proof. unfold seq_tokens. cbn [length]. rewrite ntl_length. cbn [length]. lia. Qed.

(* the family is the flat stream  StreamStart (BlockSequenceStart BlockEntry)^d Scalar BlockEnd^d StreamEnd *)
Lemma repeat_snoc_cons {A} (x : A) n r : repeat x n ++ x :: r = x :: repeat x n ++ r.
Proof. induction n as [|n IH]; [reflexivity|]. cbn [repeat app]. rewrite IH. reflexivity. Qed.

Lemma nhd_ntl_flat n rest :
  nhd n :: ntl n rest
  = flat_map (fun _ => [tk TBlockSequenceStart; tk TBlockEntry]) (repeat tt n) ++ tk leaf_tok :: repeat (tk TBlockEnd) n ++ rest.
Proof.
  revert rest; induction n as [|n IH]; intros rest; [reflexivity|].
  cbn [nhd ntl]. rewrite IH. cbn [repeat flat_map app]. rewrite repeat_snoc_cons. reflexivity.
Qed.

Lemma seq_tokens_is_flat d : seq_tokens d = seq_tokens_flat d.
Proof. unfold seq_tokens, seq_tokens_flat. rewrite nhd_ntl_flat. reflexivity. Qed.

(* the parser model accepts it (driver entry point [parse_tokens]: fuel 4 * tokens + 40) *)
Lemma seq_tokens_accepted d keep se : parse_tokens (seq_tokens d) se keep = (seq_result d, PDone).
Proof.
  unfold parse_tokens. rewrite seq_tokens_length.
  replace (4 * (3 * d + 3) + 40) with (2 * d + 6 + (10 * d + 46)) by lia.
  apply (seq_tokens_run d keep se).
Qed.

Lemma evs_of_evsp l : evs_of (evsp l) = l.
Proof. unfold evs_of, evsp. rewrite map_map. cbn. apply map_id. Qed.

(* nesting depth of the family *)
Lemma node_evs_depth n : forall c m tail,
  depth_run c m (node_evs n ++ tail) = depth_run c (Nat.max m (c + n)) tail.
Proof.
  induction n as [|n IH]; intros c m tail.
  - cbn [node_evs app]. rewrite depth_run_cons. cbn [depth_step leaf_ev fst snd]. rewrite Nat.add_0_r. reflexivity.
  - cbn [node_evs app]. rewrite depth_run_cons. cbn [depth_step fst snd].
    rewrite <- app_assoc. rewrite IH. cbn [app]. rewrite depth_run_cons. cbn [depth_step fst snd Nat.pred].
    f_equal. lia.
Qed.

Lemma seq_events_depth d : max_nesting (seq_events d) = d /\ open_depth (seq_events d) = 0.
Proof.
  unfold max_nesting, open_depth, seq_events.
  rewrite !depth_run_cons. cbn [depth_step fst snd]. rewrite node_evs_depth.
  rewrite !depth_run_cons. cbn [depth_step fst snd]. rewrite depth_run_nil. cbn [fst snd]. split; lia.
Qed.

(* the recursive push loader on the family: d + 1 nested activations of load_node *)
Lemma pl_node_family n : forall fuel d tail,
  pl_node (2 * n + 1 + fuel) d (node_evs n ++ tail) = PlDone tail (d + n).
Proof.
  induction n as [|n IH]; intros fuel d tail.
  - cbn. f_equal. lia.
  - replace (2 * S n + 1 + fuel) with (S (S (2 * n + 1 + fuel))) by lia.
    cbn [node_evs app pl_node]. rewrite <- app_assoc. cbn [app].
    assert (Hne : forall k t, exists e r, node_evs k ++ t = e :: r /\ e <> ESequenceEnd).
    { intros k t. destruct k; cbn; eexists; eexists; split; try reflexivity; discriminate. }
    destruct (Hne n (ESequenceEnd :: tail)) as (e & r & He & Hn).
    cbn [pl_sequence]. rewrite He. destruct e; try congruence; rewrite <- He; rewrite IH;
      (replace (2 * n + 1 + fuel) with (S (2 * n + fuel)) by lia); cbn [pl_sequence]; f_equal; lia.
Qed.

Lemma pl_document_family d fuel :
  pl_document (2 * d + 1 + fuel) (EDocumentStart false :: node_evs d ++ [EDocumentEnd; EStreamEnd])
  = PlDone [EStreamEnd] (1 + d).
Proof. cbn [pl_document]. rewrite pl_node_family. reflexivity. Qed.

(* the loader model (heap stacks, no recursion) builds a tree of depth d from the family *)
Definition leaf_val : yaml := value_of leaf_text Plain None.

Lemma load_node_family n : forall ld tail,
  load_events (node_evs n ++ tail) ld
  = match insert_new_node ld (nest_seq n leaf_val) 0%N with
    | LOk ld' => load_events tail ld'
    | LPanic k => LPanic k
    end.
Proof.
  induction n as [|n IH]; intros ld tail.
  - cbn [node_evs app load_events]. unfold leaf_ev. cbn [on_event nest_seq]. reflexivity.
  - cbn [node_evs app load_events on_event]. rewrite <- app_assoc. rewrite IH.
    cbn [insert_new_node l_stack N.ltb N.compare l_anchors l_docs l_keys app load_events on_event nest_seq].
    destruct ld as [docs stack keys anchors]. cbn [l_docs l_stack l_keys l_anchors]. reflexivity.
Qed.

Lemma load_events_family d :
  load_events (seq_events d) l0
  = LOk {| l_docs := [nest_seq d leaf_val]; l_stack := []; l_keys := []; l_anchors := [] |}.
Proof.
  unfold seq_events. cbn [load_events on_event]. rewrite load_node_family. reflexivity.
Qed.

Lemma family_tree_depth d : ydepth (nest_seq d leaf_val) = d /\ forall k, ywalk k (nest_seq d leaf_val) = k + d.
Proof.
  assert (H : ydepth (nest_seq d leaf_val) = d).
  { rewrite ydepth_nest_seq. unfold leaf_val, value_of. destruct (parse_from_cow_and_metadata _ _ _); cbn; lia. }
  split; [exact H|]. intros k. rewrite walk_depth_is_tree_depth, H. reflexivity.
Qed.

(* ------------------------------------------------------------------------------------------------ *)
(* 6. flow nesting: the scanner's flow_level counter cannot pass FLOW_LEVEL_MAX                        *)
(*    (Gen/Consts.v: generated from the declared type of Scanner::flow_level, u8 -> 255)               *)
(* ------------------------------------------------------------------------------------------------ *)
Section Flow.
Context {I : Type}.
Local Open Scope N_scope.

(* increase_flow_level (scanner.rs ~1466, checked_add): below the limit the level grows by one and stays
   within the limit; at the limit the call fails with error site 45 ("recursion limit exceeded") *)
Lemma increase_flow_level_spec (s : SBase.sc I) :
  SBase.sc_flow_level s <= Consts.FLOW_LEVEL_MAX ->
  match SPrim.increase_flow_level s with
  | SBase.Ok (_, s') =>
      SBase.sc_flow_level s < Consts.FLOW_LEVEL_MAX /\
      SBase.sc_flow_level s' = SBase.sc_flow_level s + 1 /\
      SBase.sc_flow_level s' <= Consts.FLOW_LEVEL_MAX
  | SBase.Err site m => site = 45 /\ m = SBase.sc_mark s /\ SBase.sc_flow_level s = Consts.FLOW_LEVEL_MAX
  | _ => False
  end.
Proof.
  intros Hle. unfold SPrim.increase_flow_level, SBase.bind, SBase.get, SBase.put.
  destruct (SBase.sc_flow_level s =? Consts.FLOW_LEVEL_MAX) eqn:E.
  - apply N.eqb_eq in E. auto.
  - apply N.eqb_neq in E. cbn [SBase.sc_flow_level SBase.set_fl SBase.set_struct]. lia.
Qed.

Lemma increase_flow_level_at_limit (s : SBase.sc I) :
  SBase.sc_flow_level s = Consts.FLOW_LEVEL_MAX ->
  SPrim.increase_flow_level s = SBase.Err 45 (SBase.sc_mark s).
Proof.
  intros H. unfold SPrim.increase_flow_level, SBase.bind, SBase.get. rewrite H, N.eqb_refl. reflexivity.
Qed.

(* decrease_flow_level never raises the level *)
Lemma decrease_flow_level_spec (s : SBase.sc I) :
  match SPrim.decrease_flow_level s with
  | SBase.Ok (_, s') => SBase.sc_flow_level s' <= SBase.sc_flow_level s
  | _ => True
  end.
Proof.
  unfold SPrim.decrease_flow_level, SBase.bind, SBase.get, SBase.put, SBase.ret, SBase.panic.
  destruct (0 <? SBase.sc_flow_level s) eqn:E.
  - destruct (SBase.sc_sks s); [trivial|]. cbn [SBase.sc_flow_level SBase.set_sks SBase.set_fl SBase.set_struct]. lia.
  - lia.
Qed.
End Flow.

(* ------------------------------------------------------------------------------------------------ *)
(* 7. headline statements                                                                            *)
(* ------------------------------------------------------------------------------------------------ *)
(* "the parser model accepts no token stream nested deeper than B" *)
Definition block_nesting_bounded (B : nat) : Prop :=
  forall toks se keep,
    snd (parse_tokens toks se keep) = PDone -> max_nesting (evs_of (fst (parse_tokens toks se keep))) <= B.

Lemma block_family_accepted d keep se :
  length (seq_tokens_flat d) = 3 * d + 3
  /\ parse_tokens (seq_tokens_flat d) se keep = (evsp (seq_events d), PDone)
  /\ max_nesting (seq_events d) = d.
Proof.
  rewrite <- seq_tokens_is_flat. split; [apply seq_tokens_length|]. split; [apply seq_tokens_accepted|].
  apply seq_events_depth.
Qed.

Lemma block_nesting_unbounded : forall B, ~ block_nesting_bounded B.
Proof.
  intros B H. specialize (H (seq_tokens_flat (S B)) SEnded false).
  destruct (block_family_accepted (S B) false SEnded) as (_ & E & D).
  rewrite E in H. cbn [fst snd] in H. rewrite evs_of_evsp, D in H. specialize (H eq_refl). lia.
Qed.

(* consequences of an accepted sentence of depth d for the three recursive consumers *)
Lemma recursion_family d :
  exists evs y,
    evs = seq_events d
    /\ (forall keep se, parse_tokens (seq_tokens_flat d) se keep = (evsp evs, PDone))
    /\ (forall fuel, pl_document (2 * d + 1 + fuel) (tl evs) = PlDone [EStreamEnd] (1 + d))
    /\ load_events evs l0 = LOk {| l_docs := [y]; l_stack := []; l_keys := []; l_anchors := [] |}
    /\ ydepth y = d
    /\ (forall k, ywalk k y = k + d).
Proof.
  exists (seq_events d), (nest_seq d leaf_val).
  split; [reflexivity|]. split; [intros; apply block_family_accepted|].
  split; [intros fuel; unfold seq_events; cbn [tl]; apply pl_document_family|].
  split; [apply load_events_family|]. apply family_tree_depth.
Qed.

Lemma recursion_unbounded :
  forall B, exists toks evs fuel rest m y,
    parse_tokens toks SEnded false = (evsp evs, PDone)
    /\ pl_document fuel (tl evs) = PlDone rest m /\ B < m
    /\ load_events evs l0 = LOk {| l_docs := [y]; l_stack := []; l_keys := []; l_anchors := [] |}
    /\ B < ywalk 1 y.
Proof.
  intros B. destruct (recursion_family B) as (evs & y & E & HP & HL & HT & HD & HW).
  exists (seq_tokens_flat B), evs, (2 * B + 1 + 0), [EStreamEnd], (1 + B), y.
  split; [apply HP|]. split; [apply HL|]. split; [lia|]. split; [exact HT|]. rewrite HW. lia.
Qed.

(* executable reachability, for examples *)
Fixpoint run_steps (n : nat) (p : parser) (evs : list event) : option (parser * list event) :=
  match n with
  | O => Some (p, evs)
  | S k =>
      match p_state p with
      | SEnd => None
      | _ => match state_machine p with
             | Parser.Ok ((e, _), p') => run_steps k p' (evs ++ [e])
             | _ => None
             end
      end
  end.

Lemma run_steps_reach p0 n : forall p evs p' evs',
  reach p0 p evs -> run_steps n p evs = Some (p', evs') -> reach p0 p' evs'.
Proof.
  induction n as [|n IH]; intros p evs p' evs' HR H.
  - cbn in H. inversion H; subst. exact HR.
  - cbn [run_steps] in H.
    assert (HNE : p_state p <> SEnd -> reach p0 p' evs').
    { intros HNE. destruct (state_machine p) as [[[e sp] q]|?|?] eqn:E.
      - destruct (p_state p) eqn:ES; try (eapply IH; [eapply reach_step; [eassumption|congruence|eassumption]|exact H]). discriminate.
      - destruct (p_state p); discriminate.
      - destruct (p_state p); discriminate. }
    destruct (p_state p) eqn:ES; first [apply HNE; discriminate | discriminate].
Qed.

(* ------------------------------------------------------------------------------------------------ *)
(* 8. family A, "[ ? ] , [ ? ] , ... [ ? ] ]]]": since c5ad60c flow_sequence_entry_mapping_key no longer  *)
(*    consumes the "]" that ends the empty key, so the first "[ ? ]" is a complete document and whatever  *)
(*    follows it ("," or "]") is rejected: the former flow-limit bypass is an error VALUE at every depth  *)
(* ------------------------------------------------------------------------------------------------ *)
Definition null_ev : event := EScalar [126%N] Plain 0%N None.        (* empty_scalar: "~" *)
Ltac pstep L := rewrite parse_all_S; cbn [mkp p_state]; unfold step_result; rewrite L.

(* the events delivered before the error: one sequence holding one pair with an empty key and value *)
Definition qflow_prefix_events : list event :=
  [EStreamStart; EDocumentStart false; ESequenceStart 0%N None; EMappingStart 0%N None; null_ev; null_ev;
   EMappingEnd; ESequenceEnd; EDocumentEnd].

(* "[ ? ]" followed by a flow entry or a flow sequence end, followed by anything *)
Lemma qflow_head_rejected (x : tok) rest keep se fuel :
  x = TFlowEntry \/ x = TFlowSequenceEnd ->
  parse_all (10 + fuel) (init_parser (tk TStreamStart :: qflow_group ++ tk x :: rest) keep) se []
  = (evsp qflow_prefix_events, PParseErr 3 mk00).
Proof.
  intros [-> | ->]; destruct keep; reflexivity.
Qed.

Lemma qflow_tokens_shape d :
  1 <= d -> exists x rest, (x = TFlowEntry \/ x = TFlowSequenceEnd)
                           /\ qflow_tokens d = tk TStreamStart :: qflow_group ++ tk x :: rest.
Proof.
  intros H. destruct d as [|[|k]]; [lia| |].
  - exists TFlowSequenceEnd, [tk TStreamEnd]. split; [auto|reflexivity].
  - exists TFlowEntry. eexists. split; [auto|]. unfold qflow_tokens. cbn [Nat.pred qflow_groups app]. reflexivity.
Qed.

Lemma qflow_groups_length k : length (qflow_groups k) = 4 * k.
Proof. induction k as [|k IH]; [reflexivity|]. cbn [qflow_groups qflow_group app length]. rewrite IH. lia. Qed.

Lemma qflow_tokens_length d : 1 <= d -> length (qflow_tokens d) = 5 * d + 1.
Proof.
  intros H. destruct d as [|k]; [lia|]. unfold qflow_tokens. cbn [Nat.pred length].
  rewrite !app_length, qflow_groups_length, repeat_length. cbn [qflow_group length]. lia.
Qed.

(* the scanner's flow level along the stream never exceeds 1 (unchanged by the repair) *)
Lemma flow_fold_groups k : forall m,
  fold_left tok_flow_step (qflow_groups k) (0, m) = (0, match k with O => m | S _ => Nat.max m 1 end).
Proof.
  induction k as [|k IH]; intros m; [reflexivity|].
  cbn [qflow_groups qflow_group app fold_left]. 
  change (tok_flow_step (0, m) (tk TFlowSequenceStart)) with (1, Nat.max m 1).
  change (tok_flow_step (1, Nat.max m 1) (tk TKey)) with (1, Nat.max m 1).
  change (tok_flow_step (1, Nat.max m 1) (tk TFlowSequenceEnd)) with (0, Nat.max m 1).
  change (tok_flow_step (0, Nat.max m 1) (tk TFlowEntry)) with (0, Nat.max m 1).
  rewrite IH. f_equal. destruct k; lia.
Qed.

Lemma flow_fold_closers n : forall m, fold_left tok_flow_step (repeat (tk TFlowSequenceEnd) n) (0, m) = (0, m).
Proof.
  induction n as [|n IH]; intros m; [reflexivity|]. cbn [repeat fold_left].
  change (tok_flow_step (0, m) (tk TFlowSequenceEnd)) with (0, m). apply IH.
Qed.

Lemma qflow_tokens_flow_level d : 1 <= d -> tok_flow_max (qflow_tokens d) = 1.
Proof.
  intros H. destruct d as [|k]; [lia|]. unfold tok_flow_max, tok_flow_run, qflow_tokens. cbn [Nat.pred].
  cbn [fold_left]. change (tok_flow_step (0, 0) (tk TStreamStart)) with (0, 0).
  rewrite !fold_left_app, flow_fold_groups.
  cbn [qflow_group fold_left].
  set (m := match k with O => 0 | S _ => Nat.max 0 1 end).
  change (tok_flow_step (0, m) (tk TFlowSequenceStart)) with (1, Nat.max m 1).
  change (tok_flow_step (1, Nat.max m 1) (tk TKey)) with (1, Nat.max m 1).
  change (tok_flow_step (1, Nat.max m 1) (tk TFlowSequenceEnd)) with (0, Nat.max m 1).
  rewrite flow_fold_closers. cbn [fold_left].
  change (tok_flow_step (0, Nat.max m 1) (tk TStreamEnd)) with (0, Nat.max m 1).
  cbn [snd]. subst m. destruct k; lia.
Qed.

(* every member of the family is rejected with the same parse error (site 3: "did not find expected
   <document start>") after the same nine events, which nest 2 deep *)
Lemma qflow_rejected d keep se :
  1 <= d ->
  length (qflow_tokens d) = 5 * d + 1
  /\ tok_flow_max (qflow_tokens d) = 1
  /\ parse_tokens (qflow_tokens d) se keep = (evsp qflow_prefix_events, PParseErr 3 mk00)
  /\ max_nesting qflow_prefix_events = 2.
Proof.
  intros H. split; [apply qflow_tokens_length; exact H|]. split; [apply qflow_tokens_flow_level; exact H|].
  split; [|reflexivity].
  destruct (qflow_tokens_shape d H) as (x & rest & Hx & E).
  unfold parse_tokens. rewrite qflow_tokens_length by exact H.
  replace (4 * (5 * d + 1) + 40) with (10 + (20 * d + 34)) by lia.
  change {| p_toks := qflow_tokens d; p_token := None; p_states := []; p_state := SStreamStart;
            p_anchors := []; p_anchor_id := 1%N; p_tags := []; p_keep_tags := keep |}
    with (init_parser (qflow_tokens d) keep).
  rewrite E. apply qflow_head_rejected. exact Hx.
Qed.

(* ------------------------------------------------------------------------------------------------ *)
(* 9. family B, "[ : : ... : }}...}]": one synthetic (empty-span) FlowMappingStart per bare ':' — the   *)
(*    scanner's flow level never exceeds 1, the parser model ACCEPTS the stream and nests d + 1 deep      *)
(* ------------------------------------------------------------------------------------------------ *)
Fixpoint cnode_evs (k : nat) : list event :=
  match k with
  | O => [EMappingStart 0%N None; null_ev; null_ev; EMappingEnd]
  | S j => EMappingStart 0%N None :: null_ev :: cnode_evs j ++ [EMappingEnd]
  end.
Definition cflow_events (d : nat) : list event :=
  match d with
  | O => []
  | S k => EStreamStart :: EDocumentStart false :: ESequenceStart 0%N None :: cnode_evs k
           ++ [ESequenceEnd; EDocumentEnd; EStreamEnd]
  end.

(* tokens after the "FlowMappingStart Value" of a mapping with k further mappings nested in it; [rest] follows its
   closing FlowMappingEnd *)
Fixpoint crest (k : nat) (rest : list token) : list token :=
  match k with
  | O => tk TFlowMappingEnd :: rest
  | S j => tk TFlowMappingStart :: tk TValue :: crest j (tk TFlowMappingEnd :: rest)
  end.

Lemma c_first_key keep toks stk :
  state_machine (mkp keep (tk TValue :: toks) (Some (tk TFlowMappingStart)) stk SFlowMappingFirstKey)
  = Parser.Ok ((null_ev, sp0), mkp keep toks (Some (tk TValue)) stk SFlowMappingValue).
Proof. reflexivity. Qed.
Lemma c_value_end keep toks stk :
  state_machine (mkp keep (tk TFlowMappingEnd :: toks) (Some (tk TValue)) stk SFlowMappingValue)
  = Parser.Ok ((null_ev, sp0), mkp keep toks (Some (tk TFlowMappingEnd)) stk SFlowMappingKey).
Proof. reflexivity. Qed.
Lemma c_key_end_cached keep toks c stk :
  state_machine (mkp keep toks (Some (tk TFlowMappingEnd)) (c :: stk) SFlowMappingKey)
  = Parser.Ok ((EMappingEnd, sp0), mkp keep toks None stk c).
Proof. reflexivity. Qed.
Lemma c_key_end keep toks c stk :
  state_machine (mkp keep (tk TFlowMappingEnd :: toks) None (c :: stk) SFlowMappingKey)
  = Parser.Ok ((EMappingEnd, sp0), mkp keep toks None stk c).
Proof. reflexivity. Qed.
Lemma c_value_nested keep toks stk :
  state_machine (mkp keep (tk TFlowMappingStart :: toks) (Some (tk TValue)) stk SFlowMappingValue)
  = parse_node (mkp keep toks (Some (tk TFlowMappingStart)) (SFlowMappingKey :: stk) SFlowMappingValue) false false.
Proof. reflexivity. Qed.

Lemma cnode_run : forall k keep rest c stk st,
  exists p1,
    parse_node (mkp keep (tk TValue :: crest k rest) (Some (tk TFlowMappingStart)) (c :: stk) st) false false
      = Parser.Ok ((EMappingStart 0%N None, sp0), p1)
    /\ forall fuel se acc,
         parse_all (3 + 3 * k + fuel) p1 se ((EMappingStart 0%N None, sp0) :: acc)
         = parse_all fuel (mkp keep rest None stk c) se (rev (evsp (cnode_evs k)) ++ acc).
Proof.
  induction k as [|k IH]; intros keep rest c stk st.
  - exists (mkp keep (tk TValue :: crest 0 rest) (Some (tk TFlowMappingStart)) (c :: stk) SFlowMappingFirstKey).
    split; [reflexivity|]. intros fuel se acc.
    replace (3 + 3 * 0 + fuel) with (S (S (S fuel))) by lia.
    cbn [crest].
    pstep c_first_key. pstep c_value_end. pstep c_key_end_cached.
    reflexivity.
  - exists (mkp keep (tk TValue :: crest (S k) rest) (Some (tk TFlowMappingStart)) (c :: stk) SFlowMappingFirstKey).
    split; [reflexivity|]. intros fuel se acc.
    replace (3 + 3 * S k + fuel) with (S (S (3 + 3 * k + S fuel))) by lia.
    cbn [crest].
    pstep c_first_key.
    rewrite parse_all_S. cbn [mkp p_state]. unfold step_result. rewrite c_value_nested.
    destruct (IH keep (tk TFlowMappingEnd :: rest) SFlowMappingKey (c :: stk) SFlowMappingValue) as (p1 & Hp & Hrun).
    rewrite Hp, Hrun.
    pstep c_key_end.
    f_equal. cbn [cnode_evs]. unfold evsp.
    repeat first [rewrite map_app | rewrite rev_app_distr | progress cbn [map rev app] | rewrite <- app_assoc].
    reflexivity.
Qed.

(* the stream in nested form; d = S k mappings *)
Definition cflow_tokens_nested (k : nat) : list token :=
  tk TStreamStart :: tk TFlowSequenceStart :: tk TFlowMappingStart :: tk TValue :: crest k [tk TFlowSequenceEnd; tk TStreamEnd].

Lemma q_doc_start keep toks :
  state_machine (mkp keep (tk TFlowSequenceStart :: toks) None [] SImplicitDocumentStart)
  = Parser.Ok ((EDocumentStart false, sp0), mkp keep toks (Some (tk TFlowSequenceStart)) [SDocumentEnd] SBlockNode).
Proof. reflexivity. Qed.
Lemma c_seq_start keep toks stk :
  state_machine (mkp keep toks (Some (tk TFlowSequenceStart)) stk SBlockNode)
  = Parser.Ok ((ESequenceStart 0%N None, sp0), mkp keep toks (Some (tk TFlowSequenceStart)) stk SFlowSequenceFirstEntry).
Proof. reflexivity. Qed.
Lemma c_seq_first keep toks stk :
  state_machine (mkp keep (tk TFlowMappingStart :: toks) (Some (tk TFlowSequenceStart)) stk SFlowSequenceFirstEntry)
  = parse_node (mkp keep toks (Some (tk TFlowMappingStart)) (SFlowSequenceEntry :: stk) SFlowSequenceFirstEntry) false false.
Proof. reflexivity. Qed.
Lemma c_seq_end keep toks c stk :
  state_machine (mkp keep (tk TFlowSequenceEnd :: toks) None (c :: stk) SFlowSequenceEntry)
  = Parser.Ok ((ESequenceEnd, sp0), mkp keep toks None stk c).
Proof. reflexivity. Qed.
Lemma q_doc_end keep :
  state_machine (mkp keep [tk TStreamEnd] None [] SDocumentEnd)
  = Parser.Ok ((EDocumentEnd, sp0), mkp keep [] (Some (tk TStreamEnd)) [] SDocumentStart).
Proof. destruct keep; reflexivity. Qed.

Lemma cflow_tokens_run k keep se fuel :
  parse_all (3 * k + 11 + fuel) (init_parser (cflow_tokens_nested k) keep) se [] = (evsp (cflow_events (S k)), PDone).
Proof.
  unfold cflow_tokens_nested.
  replace (3 * k + 11 + fuel) with (S (S (S (S (3 + 3 * k + S (S (S (S fuel)))))))) by lia.
  rewrite parse_all_S. cbn [init_parser p_state]. unfold step_result. rewrite stream_start_step.
  pstep q_doc_start. pstep c_seq_start.
  rewrite parse_all_S. cbn [mkp p_state]. unfold step_result. rewrite c_seq_first.
  destruct (cnode_run k keep [tk TFlowSequenceEnd; tk TStreamEnd] SFlowSequenceEntry [SDocumentEnd] SFlowSequenceFirstEntry)
    as (p1 & Hp & Hrun).
  rewrite Hp, Hrun.
  pstep c_seq_end. pstep q_doc_end. pstep stream_end_step.
  rewrite parse_all_S. cbn [mkp p_state].
  f_equal. unfold cflow_events, evsp.
  repeat first [rewrite map_app | rewrite rev_app_distr | rewrite rev_involutive | progress cbn [map rev app] | rewrite <- app_assoc].
  reflexivity.
Qed.

(* flat form:  StreamStart [ (FlowMappingStart Value)^(k+1) FlowMappingEnd^(k+1) ] StreamEnd *)
Lemma crest_flat k : forall rest,
  tk TFlowMappingStart :: tk TValue :: crest k rest
  = flat_map (fun _ => cflow_pair) (repeat tt (S k)) ++ repeat (tk TFlowMappingEnd) (S k) ++ rest.
Proof.
  induction k as [|k IH]; intros rest; [reflexivity|].
  cbn [crest]. rewrite IH. cbn [repeat flat_map cflow_pair app]. do 4 f_equal.
  f_equal. f_equal. apply repeat_snoc_cons.
Qed.

Lemma cflow_tokens_nested_flat k : cflow_tokens_nested k = cflow_tokens (S k).
Proof.
  unfold cflow_tokens_nested, cflow_tokens. rewrite crest_flat. reflexivity.
Qed.

Lemma cflow_pairs_length d : length (flat_map (fun _ => cflow_pair) (repeat tt d)) = 2 * d.
Proof. induction d as [|d IH]; [reflexivity|]. cbn [repeat flat_map cflow_pair app length]. rewrite IH. lia. Qed.

Lemma cflow_tokens_length d : length (cflow_tokens d) = 3 * d + 4.
Proof.
  unfold cflow_tokens. cbn [length]. rewrite !app_length, cflow_pairs_length, repeat_length. cbn [length]. lia.
Qed.

Lemma cflow_tokens_accepted d keep se :
  1 <= d -> parse_tokens (cflow_tokens d) se keep = (evsp (cflow_events d), PDone).
Proof.
  intros H. destruct d as [|k]; [lia|]. unfold parse_tokens. rewrite cflow_tokens_length.
  rewrite <- cflow_tokens_nested_flat.
  replace (4 * (3 * S k + 4) + 40) with (3 * k + 11 + (9 * k + 57)) by lia.
  apply (cflow_tokens_run k keep se).
Qed.

(* the scanner's flow level along the stream: only the '[' counts *)
Lemma flow_fold_cpairs d : forall c m,
  fold_left tok_flow_step (flat_map (fun _ => cflow_pair) (repeat tt d)) (c, m) = (c, m).
Proof.
  induction d as [|d IH]; intros c m; [reflexivity|].
  cbn [repeat flat_map cflow_pair app fold_left].
  change (tok_flow_step (c, m) (tk TFlowMappingStart)) with (c, m).
  change (tok_flow_step (c, m) (tk TValue)) with (c, m). apply IH.
Qed.

Lemma flow_fold_mclosers n : forall c m,
  fold_left tok_flow_step (repeat (tk TFlowMappingEnd) n) (c, m) = (c - n, m).
Proof.
  induction n as [|n IH]; intros c m; [cbn; f_equal; lia|]. cbn [repeat fold_left].
  change (tok_flow_step (c, m) (tk TFlowMappingEnd)) with (Nat.pred c, m). rewrite IH. f_equal. lia.
Qed.

Lemma cflow_tokens_flow_level d : tok_flow_max (cflow_tokens d) = 1.
Proof.
  unfold tok_flow_max, tok_flow_run, cflow_tokens. cbn [fold_left].
  change (tok_flow_step (0, 0) (tk TStreamStart)) with (0, 0).
  change (tok_flow_step (0, 0) (tk TFlowSequenceStart)) with (1, 1).
  rewrite !fold_left_app, flow_fold_cpairs, flow_fold_mclosers. cbn [fold_left].
  change (tok_flow_step (1 - d, 1) (tk TFlowSequenceEnd)) with (Nat.pred (1 - d), 1).
  reflexivity.
Qed.

(* ... while the events nest d + 1 deep (the sequence and d mappings) *)
Lemma cnode_evs_depth k : forall c m tail,
  depth_run c m (cnode_evs k ++ tail) = depth_run c (Nat.max m (c + k + 1)) tail.
Proof.
  induction k as [|k IH]; intros c m tail.
  - cbn [cnode_evs app]. rewrite !depth_run_cons. cbn [depth_step null_ev fst snd Nat.pred]. f_equal. lia.
  - cbn [cnode_evs app]. rewrite !depth_run_cons. cbn [depth_step null_ev fst snd Nat.pred].
    rewrite <- app_assoc, IH. cbn [app]. rewrite depth_run_cons. cbn [depth_step fst snd Nat.pred].
    f_equal. lia.
Qed.

Lemma cflow_events_depth d : 1 <= d -> max_nesting (cflow_events d) = d + 1.
Proof.
  intros H. destruct d as [|k]; [lia|]. unfold max_nesting, cflow_events.
  rewrite !depth_run_cons. cbn [depth_step fst snd]. rewrite cnode_evs_depth.
  rewrite !depth_run_cons. cbn [depth_step fst snd]. rewrite depth_run_nil. cbn [snd]. lia.
Qed.

(* "an accepted token stream whose flow level stays within L nests at most L (+1) deep" is false for every L >= 1 *)
Definition flow_limit_bounds_nesting (L : nat) : Prop :=
  forall toks se keep,
    tok_flow_max toks <= L -> snd (parse_tokens toks se keep) = PDone ->
    max_nesting (evs_of (fst (parse_tokens toks se keep))) <= L + 1.

Lemma flow_limit_bypass d keep se :
  1 <= d ->
  length (cflow_tokens d) = 3 * d + 4
  /\ tok_flow_max (cflow_tokens d) = 1
  /\ parse_tokens (cflow_tokens d) se keep = (evsp (cflow_events d), PDone)
  /\ max_nesting (cflow_events d) = d + 1.
Proof.
  intros H. split; [apply cflow_tokens_length|]. split; [apply cflow_tokens_flow_level|].
  split; [apply cflow_tokens_accepted; exact H|]. apply cflow_events_depth; exact H.
Qed.

Lemma flow_limit_does_not_bound_nesting : forall L, 1 <= L -> ~ flow_limit_bounds_nesting L.
Proof.
  intros L HL HB. specialize (HB (cflow_tokens (S L)) SEnded false).
  destruct (flow_limit_bypass (S L) false SEnded) as (_ & F & E & D); [lia|].
  rewrite E in HB. cbn [fst snd] in HB. rewrite evs_of_evsp, D, F in HB. specialize (HB HL eq_refl). lia.
Qed.
