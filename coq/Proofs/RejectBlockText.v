(* C06, text level, DAMAGED BLOCK DOCUMENTS: rejection theorems whose well-formed part is a symbolic document of the block text
   sub-language (Spec/BlockText.v).  The scanner run over the well-formed part is taken from Proofs/ScanBlockProofs.v (C03:
   [key_at_tok], [dash_item], [seq_child], [seq_tail], [map_tail], ... and the normal form [mkb]); the failing step is one of the
   state-level rejection theorems of Proofs/RejectScan.v (sites 41, 101), applied to the state the run arrives in. *)
From Coq Require Import List NArith ZArith Bool Arith Lia.
Import ListNotations.
Require Import Parser SBase SPrim SDir SScalar SFetch Pipe Drivers TokenGrammar FlowText BlockText.
Require Import RejectProofs RejectScan ScanFlowProofs ScanBlockProofs.
Open Scope N_scope.

(* the state behind StreamStart *)
Definition S1 (txt : list N) : sc strin := mkb txt 1 (mkm 0 1 0) [] 0 true dummy_key (-1)%Z [] 1 false true.

Lemma at_S1 txt : at_tok (S1 txt) txt 0 [].
Proof. exists 1%nat, 0, 1, 0, dummy_key, 1, true. split; [reflexivity|left; reflexivity]. Qed.

(* the bridge: the iterator delivers [toks] behind StreamStart and then fails => the scan of the text ends in that error, and
   the pipeline rejects the text *)
Lemma scan_err_after txt toks s' e m :
  delivers (2 * length txt + 10) (S1 txt) toks s' ->
  next_token str_ops (2 * length txt + 10) s' = Err e m ->
  (length toks <= 8 * length txt + 40)%nat ->
  snd (scan_str txt) = SError e m /\ snd (run_str txt) <> PDone.
Proof.
  intros Hd He Hl.
  assert (E : snd (scan_str txt) = SError e m).
  { unfold scan_str. set (F := (2 * length txt + 10)%nat) in *.
    assert (Ef : exists f2, (4 * F + 20 = S (length toks + S f2))%nat) by (exists (4 * F + 18 - length toks)%nat; unfold F; lia).
    destruct Ef as (f2 & ->). rewrite scan_all_S, (ScanFlowProofs.first_token F txt) by (unfold F; lia). cbv beta iota.
    change (mkst txt 1 (mk1 0) [] 0 true [dummy_key] 0 1 false true []) with (S1 txt).
    rewrite Hd, scan_all_S, He. reflexivity. }
  split; [exact E|]. apply RejectScan.scan_error_rejected. left. exists e, m. exact E.
Qed.

Lemma fetch_err_next F (s : sc strin) cs l mk adj ska k ind inds tp lws e m :
  s = mkb cs l mk [] adj ska k ind inds tp false lws -> (0 < F)%nat ->
  fetch_next_token str_ops F s = Err e m -> next_token str_ops F s = Err e m.
Proof. intros -> HF H. apply next_token_fetch_err; try reflexivity; assumption. Qed.

(* ================================================================================================ *)
(* (2) a tab as the indentation of the line below "key:" / below "-"                                  *)
(* ================================================================================================ *)
(* ANY state behind "key:" or "-" at the end of its line (ScanBlockProofs.at_below: the indent raised by one column over the
   innermost open collection, whatever collections [cols] are open), the next line starting with a tab, blanks, content *)
Lemma tab_at_below F s ws c rest cols :
  at_below s (10 :: 9 :: ws ++ c :: rest) cols -> blank_run SkipYes ws -> is_content_start c -> (length ws + 3 <= F)%nat ->
  exists m, next_token str_ops F s = Err 41 m.
Proof.
  intros (l & i & ln & cc & adj & ska & kk & tp & top & rest0 & Ecols & Htop & Es & Hkk) HB HC HF.
  eexists. eapply fetch_err_next; [exact Es | lia |].
  rewrite (fetch_next_token_started _ s) by (rewrite Es; reflexivity).
  assert (EF : exists F', F = S F' /\ (S (length ws) < F')%nat) by (exists (F - 1)%nat; lia).
  destruct EF as (F' & -> & HF').
  unfold bind at 1.
  rewrite skip_to_next_token_newline by (rewrite Es; reflexivity).
  rewrite (tab_indentation_rejected F' (after_newline (looked s 1)) ws c rest).
  - reflexivity.
  - rewrite Es. reflexivity.
  - exact HB.
  - exact HC.
  - rewrite Es. discriminate.
  - rewrite Es. reflexivity.
  - rewrite Es. unfold after_newline, looked, mkb, mkm, nlm. cbn. change ((0 =? 0)%N) with true. cbn. lia.
  - exact HF'.
Qed.

(* EVERY text  key ":" NL TAB blanks content ...  (the key any word of the sub-language) *)
Theorem tab_below_key_rejected k ws c rest :
  key_ok k = true -> blank_run SkipYes ws -> is_content_start c ->
  (exists m, snd (scan_str (k ++ 58 :: 10 :: 9 :: ws ++ c :: rest)) = SError 41 m)
  /\ snd (run_str (k ++ 58 :: 10 :: 9 :: ws ++ c :: rest)) <> PDone.
Proof.
  intros Hk HB HC. destruct (key_ok_word k Hk) as (c0 & w & -> & Hw & Hlen).
  set (txt := (c0 :: w) ++ 58 :: 10 :: 9 :: ws ++ c :: rest). set (F := (2 * length txt + 10)%nat).
  assert (HlenT : (length w + length ws + 5 <= length txt)%nat).
  { unfold txt. cbn [length app]. rewrite app_length. cbn [length]. rewrite app_length. cbn [length]. lia. }
  destruct (key_at_tok F (S1 txt) c0 w 10 (9 :: ws ++ c :: rest) 0 [] [] true (at_S1 txt) Hw Hlen (or_intror eq_refl)
              (Forall_nil _) ltac:(split; cbn; lia) ltac:(unfold F; lia)) as (toks & s' & Hd & Hm & Hb).
  destruct (tab_at_below F s' ws c rest _ Hb HB HC ltac:(unfold F; lia)) as (m & Ef).
  assert (Hl : length toks = 4%nat).
  { pose proof (map_length snd toks) as HL. rewrite Hm in HL. unfold key_toks in HL. cbn in HL. symmetry. exact HL. }
  destruct (scan_err_after txt toks s' _ _ Hd Ef ltac:(lia)) as [E1 E2].
  split; [eexists; exact E1 | exact E2].
Qed.

(* EVERY text  "-" NL TAB blanks content ... *)
Theorem tab_below_dash_rejected ws c rest :
  blank_run SkipYes ws -> is_content_start c ->
  (exists m, snd (scan_str (45 :: 10 :: 9 :: ws ++ c :: rest)) = SError 41 m)
  /\ snd (run_str (45 :: 10 :: 9 :: ws ++ c :: rest)) <> PDone.
Proof.
  intros HB HC.
  set (txt := 45 :: 10 :: 9 :: ws ++ c :: rest). set (F := (2 * length txt + 10)%nat).
  assert (HlenT : (length ws + 4 <= length txt)%nat).
  { unfold txt. cbn [length app]. rewrite app_length. cbn [length]. lia. }
  destruct (dash_nl F (S1 txt) (9 :: ws ++ c :: rest) 0 [] [] true (or_introl (at_S1 txt))
              (Forall_nil _) ltac:(split; cbn; lia) ltac:(unfold F; lia)) as (toks & s' & Hd & Hm & Hb).
  destruct (tab_at_below F s' ws c rest _ Hb HB HC ltac:(unfold F; lia)) as (m & Ef).
  assert (Hl : length toks = 2%nat).
  { pose proof (map_length snd toks) as HL. rewrite Hm in HL. unfold dash_toks in HL. cbn in HL. symmetry. exact HL. }
  destruct (scan_err_after txt toks s' _ _ Hd Ef ltac:(lia)) as [E1 E2].
  split; [eexists; exact E1 | exact E2].
Qed.

(* ================================================================================================ *)
(* (2'), the well-formed part symbolic: EVERY document of the block text sub-language, then one more line "key:" at column 0 *)
(* whose nested line is indented by a tab                                                            *)
(* ================================================================================================ *)
Theorem tab_below_key_after_document_rejected n k ws c rest :
  bwf_root n = true -> (bdepth n <= 255)%nat ->
  key_ok k = true -> blank_run SkipYes ws -> is_content_start c ->
  (exists m, snd (scan_str (bdoc_text n ++ k ++ 58 :: 10 :: 9 :: ws ++ c :: rest)) = SError 41 m)
  /\ snd (run_str (bdoc_text n ++ k ++ 58 :: 10 :: 9 :: ws ++ c :: rest)) <> PDone.
Proof.
  intros Hroot Hdep Hk HB HC. destruct (key_ok_word k Hk) as (c0 & w & -> & Hw & Hlen).
  unfold bwf_root in Hroot. apply andb_prop in Hroot as [Hcoll Hwf].
  pose proof (coll_scan_all n true Hwf Hcoll) as HCS.
  unfold bdoc_text. set (tl := (c0 :: w) ++ 58 :: 10 :: 9 :: ws ++ c :: rest).
  set (txt := brender 0 n ++ tl). set (F := (2 * length txt + 10)%nat).
  assert (HlenT : (length (brender 0 n) + length w + length ws + 5 <= length txt)%nat).
  { unfold txt, tl. rewrite app_length. cbn [length app]. rewrite app_length. cbn [length]. rewrite app_length. cbn [length]. lia. }
  assert (Htl : line_first tl).
  { unfold tl. cbn [app line_first]. cbn [forallb] in Hw. apply andb_prop in Hw as [Hc0 _].
    destruct (first_char_facts c0 (or_intror Hc0)) as (Hnw & Hbr & _). split; [|exact Hbr].
    destruct (wch_facts c0 Hc0) as (Hb & _). destruct (blankz_facts c0 Hb) as (H32 & H9 & _).
    unfold is_blank. rewrite H32, H9. reflexivity. }
  destruct (HCS F 0%nat [] (S1 txt) 0%nat tl (or_introl (at_S1 txt)) ltac:(unfold top_lt; cbn; lia) ltac:(cbn [length]; lia) Htl ltac:(lia)
              ltac:(unfold fuel_ok; cbn [repeat app]; fold txt; unfold F; lia))
    as (toks & s' & ext' & Hd & He & Hat' & _).
  rewrite app_nil_r in Hat'. cbn [repeat app] in He.
  destruct (split_cols ext') as (ext & base & Eext & Hext & Hbase).
  rewrite Eext in Hat'.
  assert (Hj : exists opens, joins opens 0 base).
  { destruct base as [|b r].
    - exists true. split; cbn; lia.
    - exists false. exists r. cbn in Hbase. f_equal. cbn. lia. }
  destruct Hj as (opens & Hj).
  destruct (key_at_tok F s' c0 w 10 (9 :: ws ++ c :: rest) 0 ext base opens Hat' Hw Hlen (or_intror eq_refl)
              Hext Hj ltac:(unfold F; lia)) as (toks2 & s2 & Hd2 & Hm2 & Hb2).
  destruct (tab_at_below F s2 ws c rest _ Hb2 HB HC ltac:(unfold F; lia)) as (m & Ef).
  pose proof (toks_le_text n true 0%nat Hwf) as Hlen1.
  assert (Hl1 : (length toks + length ext' = length (tokens_of (blt n)))%nat).
  { rewrite He, app_length, map_length, repeat_length. reflexivity. }
  assert (Hl2 : (length toks2 <= length ext' + 4)%nat).
  { pose proof (map_length snd toks2) as HL. rewrite Hm2 in HL. rewrite app_length, repeat_length in HL. unfold key_toks in HL.
    rewrite app_length in HL. rewrite Eext, app_length. destruct opens; cbn [length] in HL; (eapply Nat.le_trans; [apply Nat.eq_le_incl; symmetry; exact HL | lia]). }
  destruct (scan_err_after txt (toks ++ toks2) s2 _ _ (delivers_trans _ _ _ _ _ _ Hd Hd2) Ef ltac:(rewrite app_length; lia)) as [E1 E2].
  split; [eexists; exact E1 | exact E2].
Qed.
