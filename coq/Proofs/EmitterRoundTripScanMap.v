(* C09 - the mapping at the end of the input *)
From Coq Require Import List NArith ZArith Bool Arith Lia.
Import ListNotations.
Require Import Parser SBase SPrim SDir SScalar SFetch Pipe Drivers TokenGrammar FlowText BlockText ScanFlowProofs ScanBlockProofs EmitterRoundTripDefs EmitterRoundTripScan.
Open Scope N_scope.
Open Scope mon_scope.

#[local] Arguments N.add : simpl never.
#[local] Arguments N.sub : simpl never.
#[local] Arguments N.mul : simpl never.
#[local] Arguments N.ltb : simpl nomatch.
#[local] Arguments N.leb : simpl nomatch.
#[local] Arguments Z.of_N : simpl never.
#[local] Arguments Z.ltb : simpl never.
#[local] Arguments Z.leb : simpl never.
#[local] Arguments Z.eqb : simpl never.
#[local] Arguments Z.add : simpl never.
#[local] Arguments bind {I A B} m f s /.
#[local] Arguments ret {I A} a s /.
#[local] Arguments get {I} s /.
#[local] Arguments put {I} s _ /.
#[local] Arguments modify {I} f s /.
#[local] Arguments gets {I A} f s /.
#[local] Arguments fail {I A} site m _ /.
#[local] Arguments upd {I} s i m t /.
#[local] Arguments set_in {I} i s /.
#[local] Arguments set_mark {I} m s /.
#[local] Arguments set_tokens {I} t s /.
#[local] Arguments set_flags {I} s ss se adj ska ta lws /.
#[local] Arguments set_ska {I} b s /.
#[local] Arguments set_lws {I} b s /.
#[local] Arguments set_adj {I} n s /.
#[local] Arguments set_ta {I} b s /.
#[local] Arguments set_ss {I} b s /.
#[local] Arguments set_se {I} b s /.
#[local] Arguments set_struct {I} s sks ind inds fl tp ifms /.
#[local] Arguments set_sks {I} l s /.
#[local] Arguments set_indent {I} z l s /.
#[local] Arguments set_fl {I} n s /.
#[local] Arguments set_tp {I} n s /.
#[local] Arguments set_ifms {I} l s /.
#[local] Arguments skip_to_next_token : simpl never.
#[local] Arguments stale_simple_keys : simpl never.
#[local] Arguments plain_chunk : simpl never.
#[local] Arguments plain_blanks : simpl never.
#[local] Arguments scan_plain_scalar : simpl never.
#[local] Arguments fetch_stream_start : simpl never.
#[local] Arguments fetch_stream_end : simpl never.
#[local] Arguments fetch_directive : simpl never.
#[local] Arguments fetch_document_indicator : simpl never.
#[local] Arguments fetch_flow_collection_start : simpl never.
#[local] Arguments fetch_flow_collection_end : simpl never.
#[local] Arguments fetch_flow_entry : simpl never.
#[local] Arguments fetch_block_entry : simpl never.
#[local] Arguments fetch_key : simpl never.
#[local] Arguments fetch_value : simpl never.
#[local] Arguments fetch_flow_value : simpl never.
#[local] Arguments fetch_anchor : simpl never.
#[local] Arguments fetch_tag : simpl never.
#[local] Arguments fetch_block_scalar : simpl never.
#[local] Arguments fetch_flow_scalar : simpl never.
#[local] Arguments fetch_plain_scalar : simpl never.
#[local] Arguments fetch_next_token : simpl never.
#[local] Arguments fetch_more_tokens : simpl never.
#[local] Arguments next_token : simpl never.
#[local] Arguments scan_all : simpl never.
#[local] Arguments fnt_rest : simpl never.
#[local] Arguments skip_ws_to_eol : simpl never.
#[local] Arguments insert_token : simpl never.
#[local] Arguments need_comp : simpl never.
#[local] Arguments unroll_indent : simpl never.
#[local] Arguments roll_indent : simpl never.
#[local] Arguments roll_one_col_indent : simpl never.
#[local] Arguments unroll_non_block_indents : simpl never.

(* C09 — the mapping that ends the input: the analogue of coll_map / map_tail / map_child (Proofs/ScanBlockProofs.v) for a
   mapping whose text lacks the final line feed (brl).  The pairs in front of the last one are complete lines and are scanned
   by the lemmas of ScanBlockProofs.v; the value of the last pair is the last element (LastOK). *)

Lemma tailL_cons {A} (f fl : nat -> A -> str) c y (l : list A) :
  l <> [] -> tailL f fl c (y :: l) = f c y ++ spaces c ++ tailL f fl c l.
Proof. destruct l as [|z r]; [congruence|reflexivity]. Qed.

Lemma key_line_first k z : key_ok k = true -> line_first (k ++ z).
Proof.
  intros Hk. destruct (key_ok_word _ Hk) as (c0 & w & E & Hw & _). rewrite E. cbn [app line_first].
  cbn [forallb] in Hw. apply andb_prop in Hw as [Hc0 _]. destruct (first_char_facts c0 (or_intror Hc0)) as ((H32 & H9 & _) & Hbr & _).
  split; [unfold is_blank; rewrite H32, H9; reflexivity | exact Hbr].
Qed.

Lemma tailL_line_first c ps p :
  Forall PairOK ps -> key_ok (fst p) = true -> line_first (tailL pair_text pair_textL c (ps ++ [p])).
Proof.
  intros Hok Hk. destruct ps as [|q r].
  - cbn [app tailL]. unfold pair_textL. apply key_line_first, Hk.
  - cbn [app]. rewrite tailL_cons by (destruct r; discriminate).
    inversion Hok as [|? ? [Hkq _] _]; subst. apply pair_line_first, Hkq.
Qed.

(* "key:" of the last pair *)
Lemma key_item_last F s p c ext base opens :
  at_tok s (pair_textL c p) c (ext ++ base) -> key_ok (fst p) = true ->
  Forall (fun e => (Z.of_nat c < Z.of_N e)%Z) ext -> joins opens c base -> (2 * length (fst p) + 3 <= F)%nat ->
  exists toks s', delivers F s toks s' /\ map snd toks = repeat TBlockEnd (length ext) ++ key_toks opens (fst p) /\
                  at_below s' (lead c (snd p) ++ brl (child_col c (snd p)) (snd p)) (joined opens c base).
Proof.
  intros Hat Hk Hext Hj HF. destruct p as [k v]. cbn [fst snd] in *. unfold pair_textL in Hat. cbn [fst snd] in Hat.
  destruct (key_ok_word k Hk) as (c0 & w & -> & Hw & Hlen).
  destruct (lead_first c v) as (y & r & El & Hy). rewrite El in Hat |- *.
  cbn [app] in Hat |- *.
  exact (key_at_tok F s c0 w y (r ++ brl (child_col c v) v) c ext base opens Hat Hw Hlen Hy Hext Hj ltac:(cbn [length] in HF; lia)).
Qed.

Lemma key_item_below_last F s p c top rest0 :
  at_below s (10 :: repeat 32 c ++ pair_textL c p) (top :: rest0) -> key_ok (fst p) = true ->
  top < N.of_nat c -> (length (top :: rest0) < 255)%nat -> (2 * length (fst p) + 3 <= F)%nat -> (c + 2 <= F)%nat ->
  exists toks s', delivers F s toks s' /\ map snd toks = key_toks true (fst p) /\
                  at_below s' (lead c (snd p) ++ brl (child_col c (snd p)) (snd p)) (N.of_nat c :: top :: rest0).
Proof.
  intros Hat Hk Hlt Hlen255 HF HF2. destruct p as [k v]. cbn [fst snd] in *. unfold pair_textL in Hat. cbn [fst snd] in Hat.
  destruct (key_ok_word k Hk) as (c0 & w & -> & Hw & Hlen).
  destruct (lead_first c v) as (y & r & El & Hy). rewrite El in Hat |- *.
  cbn [app] in Hat |- *.
  exact (key_at_below F s c0 w y (r ++ brl (child_col c v) v) c top rest0 Hat Hlt Hlen255 Hw Hlen Hy ltac:(cbn [length] in HF; lia) HF2).
Qed.

(* the last value behind its "key:" *)
Lemma map_child_last F s v c cols :
  at_below s (lead c v ++ brl (child_col c v) v) (N.of_nat c :: cols) ->
  LastOK false v -> (S (length cols) + bdepth v <= 255)%nat ->
  fuel_ok F (58 :: lead c v ++ brl (child_col c v) v) c ->
  scanned_l F s 0 (tokens_of (blt v)) (N.of_nat c :: cols) (Z.of_nat c).
Proof.
  intros Hat (Hwf & Hnb & HC) Hd Hfuel. unfold fuel_ok in Hfuel.
  destruct v as [w|[d|] items|[d|] pairs|items]; cbn [lead child_col app] in *.
  6:{ cbn [nobi] in Hnb. discriminate. }
  - cbn [bwf] in Hwf. destruct (word_first w Hwf) as (c0 & w' & -> & Hw).
    cbn [brl] in Hat, Hfuel.
    exists [], s, [], c0, w'. split; [apply delivers_nil|]. split; [exact Hw|]. split; [reflexivity|].
    split; [right; exact Hat|]. split; [constructor|]. lens Hfuel. lia.
  - replace (Z.of_nat c) with (fst (stk (N.of_nat c :: cols))) by (cbn; lia).
    apply (HC eq_refl F (c + 1 + d)%nat (N.of_nat c :: cols) s); [right; exact Hat | unfold top_lt; cbn; lia | cbn [length]; lia |].
    unfold fuel_ok. lens Hfuel. lensg. lia.
  - cbn [bwf place_ok andb] in Hwf. discriminate.
  - replace (Z.of_nat c) with (fst (stk (N.of_nat c :: cols))) by (cbn; lia).
    apply (HC eq_refl F (c + 1 + d)%nat (N.of_nat c :: cols) s); [right; exact Hat | unfold top_lt; cbn; lia | cbn [length]; lia |].
    unfold fuel_ok. lens Hfuel. lensg. lia.
  - cbn [bwf place_ok andb] in Hwf. discriminate.
Qed.

Lemma pair_textL_len c p :
  length (pair_textL c p) = (length (fst p) + S (length (lead c (snd p)) + length (brl (child_col c (snd p)) (snd p))))%nat.
Proof. unfold pair_textL. rewrite app_length. cbn [length]. rewrite app_length. reflexivity. Qed.

(* the pairs behind the first one, the last of them the last element *)
Lemma map_tail_last F c cols : forall ps p, Forall PairOK ps -> key_ok (fst p) = true -> LastOK false (snd p) ->
  (forall q, In q (ps ++ [p]) -> (S (length cols) + bdepth (snd q) <= 255)%nat) ->
  forall s ext, at_tok s (tailL pair_text pair_textL c (ps ++ [p])) c (ext ++ N.of_nat c :: cols) ->
  Forall (fun e => (Z.of_nat c < Z.of_N e)%Z) ext ->
  fuel_ok F (tailL pair_text pair_textL c (ps ++ [p])) c ->
  scanned_l F s (length ext) (flat_map pair_toks (ps ++ [p])) (N.of_nat c :: cols) (Z.of_nat c).
Proof.
  induction ps as [|q r IH]; intros p Hok Hk Hv Hdep s ext Hat Hext Hfuel.
  - cbn [app tailL flat_map] in *. rewrite app_nil_r. unfold pair_toks.
    assert (Hfk : (2 * length (fst p) + 3 <= F)%nat).
    { unfold fuel_ok in Hfuel. rewrite pair_textL_len in Hfuel. lia. }
    destruct (key_item_last F s p c ext (N.of_nat c :: cols) false Hat Hk Hext ltac:(exists cols; reflexivity) Hfk)
      as (t1 & s1 & Hd1 & Hm1 & Hab).
    cbn [joined] in Hab. unfold key_toks in Hm1. cbn [app] in Hm1.
    eapply scanned_head_l; [exact Hd1 | exact Hm1 |].
    apply map_child_last; [exact Hab | exact Hv | apply Hdep; left; reflexivity |].
    unfold fuel_ok in *. rewrite pair_textL_len in Hfuel. lensg. lia.
  - inversion Hok as [|? ? Hq Hr]; subst. destruct Hq as [Hkq Hvq].
    assert (Hne : r ++ [p] <> []) by (destruct r; discriminate).
    cbn [app] in Hat, Hfuel, Hdep |- *.
    rewrite (tailL_cons pair_text pair_textL c q (r ++ [p]) Hne) in Hat, Hfuel.
    cbn [flat_map]. unfold pair_toks at 1. rewrite <- app_assoc.
    assert (Hfk : (2 * length (fst q) + 3 <= F)%nat).
    { unfold fuel_ok in Hfuel. lens Hfuel. rewrite pair_text_len in Hfuel. lia. }
    destruct (key_item F s q c ext (N.of_nat c :: cols) false _ Hat Hkq Hext ltac:(exists cols; reflexivity) Hfk)
      as (t1 & s1 & Hd1 & Hm1 & Hab).
    cbn [joined] in Hab. unfold key_toks in Hm1. cbn [app] in Hm1.
    eapply scanned_seq_l; [exact Hd1 | exact Hm1 | | ].
    + apply (map_child F s1 (snd q) c cols c (tailL pair_text pair_textL c (r ++ [p])));
        [exact Hab | exact Hvq | apply Hdep; left; reflexivity | apply tailL_line_first; assumption | lia |].
      unfold fuel_ok in *. lens Hfuel. rewrite pair_text_len in Hfuel. lensg. lia.
    + intros s2 ext1 Hat2 Hf2. apply IH; [exact Hr | exact Hk | exact Hv | intros y Hy; apply Hdep; right; exact Hy | exact Hat2 | exact Hf2 |].
      unfold fuel_ok in *. lens Hfuel. lia.
Qed.

Lemma coll_map_last pl ps p : Forall PairOK ps -> key_ok (fst p) = true -> LastOK false (snd p) -> LastScan (BM pl (ps ++ [p])).
Proof.
  intros Hok Hk Hv F cc cols s Harr Htop Hdep Hfuel.
  rewrite brl_BM in Harr, Hfuel. rewrite tokens_BM.
  assert (Hlen : (length cols < 255)%nat) by (cbn [bdepth] in Hdep; lia).
  assert (Hdep' : forall y, In y (ps ++ [p]) -> (S (length cols) + bdepth (snd y) <= 255)%nat).
  { intros y Hy. pose proof (bdepth_pair pl (ps ++ [p]) y Hy). lia. }
  clear Hdep.
  destruct ps as [|q r].
  - cbn [app tailL flat_map] in *. rewrite app_nil_r.
    assert (Hfk : (2 * length (fst p) + 3 <= F)%nat).
    { unfold fuel_ok in Hfuel. rewrite pair_textL_len in Hfuel. lia. }
    assert (Hkey : exists t1 s1, delivers F s t1 s1 /\ map snd t1 = repeat TBlockEnd 0 ++ [TBlockMappingStart; TKey; TScalar Plain (fst p); TValue]
                                  /\ at_below s1 (lead cc (snd p) ++ brl (child_col cc (snd p)) (snd p)) (N.of_nat cc :: cols)).
    { destruct Harr as [Hat | Hbel].
      - destruct (key_item_last F s p cc [] cols true Hat Hk ltac:(constructor) (top_lt_joins cols cc Htop Hlen) Hfk) as (t1 & s1 & H1 & H2 & H3).
        exists t1, s1. repeat split; assumption.
      - destruct (at_below_cols _ _ _ Hbel) as (top & rest0 & ->).
        destruct (key_item_below_last F s p cc top rest0 Hbel Hk ltac:(unfold top_lt in Htop; cbn in Htop; lia) Hlen Hfk
                    ltac:(unfold fuel_ok in Hfuel; lia)) as (t1 & s1 & H1 & H2 & H3).
        exists t1, s1. repeat split; assumption. }
    destruct Hkey as (t1 & s1 & Hd1 & Hm1 & Hab).
    unfold pair_toks.
    change (TBlockMappingStart :: ([TKey; TScalar Plain (fst p); TValue] ++ tokens_of (blt (snd p))) ++ [TBlockEnd])
      with (TBlockMappingStart :: (TKey :: TScalar Plain (fst p) :: TValue :: tokens_of (blt (snd p))) ++ [TBlockEnd]).
    apply (scanned_close_l F s _ _ cc cols Htop).
    change (TBlockMappingStart :: TKey :: TScalar Plain (fst p) :: TValue :: tokens_of (blt (snd p)))
      with ([TBlockMappingStart; TKey; TScalar Plain (fst p); TValue] ++ tokens_of (blt (snd p))).
    eapply scanned_head_l; [exact Hd1 | exact Hm1 |].
    apply map_child_last; [exact Hab | exact Hv | apply Hdep'; left; reflexivity |].
    unfold fuel_ok in *. rewrite pair_textL_len in Hfuel. lensg. lia.
  - inversion Hok as [|? ? Hq Hr]; subst. destruct Hq as [Hkq Hvq].
    assert (Hne : r ++ [p] <> []) by (destruct r; discriminate).
    cbn [app] in Harr, Hfuel, Hdep' |- *.
    rewrite (tailL_cons pair_text pair_textL cc q (r ++ [p]) Hne) in Harr, Hfuel.
    set (rest := spaces cc ++ tailL pair_text pair_textL cc (r ++ [p])) in *.
    assert (Hfk : (2 * length (fst q) + 3 <= F)%nat).
    { unfold fuel_ok, rest in Hfuel. lens Hfuel. rewrite pair_text_len in Hfuel. lia. }
    assert (Hkey : exists t1 s1, delivers F s t1 s1 /\ map snd t1 = repeat TBlockEnd 0 ++ [TBlockMappingStart; TKey; TScalar Plain (fst q); TValue]
                                  /\ at_below s1 (lead cc (snd q) ++ brender (child_col cc (snd q)) (snd q) ++ rest) (N.of_nat cc :: cols)).
    { destruct Harr as [Hat | Hbel].
      - destruct (key_item F s q cc [] cols true rest Hat Hkq ltac:(constructor) (top_lt_joins cols cc Htop Hlen) Hfk) as (t1 & s1 & H1 & H2 & H3).
        exists t1, s1. repeat split; assumption.
      - destruct (at_below_cols _ _ _ Hbel) as (top & rest0 & ->).
        destruct (key_item_below F s q cc top rest0 rest Hbel Hkq ltac:(unfold top_lt in Htop; cbn in Htop; lia) Hlen Hfk
                    ltac:(unfold fuel_ok in Hfuel; lia)) as (t1 & s1 & H1 & H2 & H3).
        exists t1, s1. repeat split; assumption. }
    destruct Hkey as (t1 & s1 & Hd1 & Hm1 & Hab).
    cbn [flat_map]. unfold pair_toks at 1.
    change (TBlockMappingStart :: (([TKey; TScalar Plain (fst q); TValue] ++ tokens_of (blt (snd q))) ++ flat_map pair_toks (r ++ [p])) ++ [TBlockEnd])
      with (TBlockMappingStart :: (TKey :: TScalar Plain (fst q) :: TValue :: tokens_of (blt (snd q)) ++ flat_map pair_toks (r ++ [p])) ++ [TBlockEnd]).
    apply (scanned_close_l F s _ _ cc cols Htop).
    change (TBlockMappingStart :: TKey :: TScalar Plain (fst q) :: TValue :: tokens_of (blt (snd q)) ++ flat_map pair_toks (r ++ [p]))
      with ([TBlockMappingStart; TKey; TScalar Plain (fst q); TValue] ++ tokens_of (blt (snd q)) ++ flat_map pair_toks (r ++ [p])).
    unfold rest in Hab.
    eapply scanned_seq_l; [exact Hd1 | exact Hm1 | | ].
    + apply (map_child F s1 (snd q) cc cols cc (tailL pair_text pair_textL cc (r ++ [p])));
        [exact Hab | exact Hvq | apply Hdep'; left; reflexivity | apply tailL_line_first; assumption | lia |].
      unfold fuel_ok, rest in *. lens Hfuel. rewrite pair_text_len in Hfuel. lensg. lia.
    + intros s2 ext1 Hat2 Hf2. apply map_tail_last; [exact Hr | exact Hk | exact Hv | intros y Hy; apply Hdep'; right; exact Hy | exact Hat2 | exact Hf2 |].
      unfold fuel_ok, rest in *. lens Hfuel. lia.
Qed.

Print Assumptions map_child_last.
Print Assumptions map_tail_last.
Print Assumptions coll_map_last.
