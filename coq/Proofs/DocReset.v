(* C15: what survives a document boundary in the parser model. *)
From Coq Require Import List NArith Bool.
Import ListNotations.
Require Import Parser C02base.

Definition doc_reset (p p' : parser) : Prop :=
  p_anchors p' = [] /\ (p_keep_tags p = false -> p_tags p' = []) /\ p_states p' = p_states p
  /\ p_anchor_id p' = p_anchor_id p /\ p_keep_tags p' = p_keep_tags p.

Lemma peek_other_fields p t q : peek p = Ok (t, q) ->
  p_anchors q = p_anchors p /\ p_tags q = p_tags p /\ p_anchor_id q = p_anchor_id p /\ p_keep_tags q = p_keep_tags p.
Proof.
  unfold peek. destruct (p_token p); [intros H; inversion H; auto|].
  destruct (p_toks p); [discriminate|]. intros H; inversion H; subst; auto.
Qed.

(* Every successful DocumentEnd step forgets all anchors and (unless keep_tags) all tag handles, keeps the state stack,
   and leaves the parser in a document-start state: nothing of the finished document can reach the next one
   except the anchor id counter (ids stay unique across the stream). *)
Theorem document_end_resets p ev p' :
  document_end p = Ok (ev, p') ->
  doc_reset p p' /\ (p_state p' = SImplicitDocumentStart \/ p_state p' = SDocumentStart).
Proof.
  unfold document_end.
  destruct (peek p) as [[[sp tk] q]| |] eqn:E; try discriminate.
  destruct (peek_fields _ _ _ E) as [Hs Hk]. destruct (peek_other_fields _ _ _ E) as (Ha & Ht & Hi & Hkt).
  assert (G : forall (ee : bool) (sp0 : span) (q0 : parser),
     p_states q0 = p_states p -> p_anchor_id q0 = p_anchor_id p -> p_keep_tags q0 = p_keep_tags p ->
     (let p1 := if p_keep_tags q0 then q0 else set_tags q0 [] in
      let p2 := set_anchors p1 [] (p_anchor_id p1) in
      if ee then Ok ((EDocumentEnd, sp0), set_state p2 SImplicitDocumentStart)
      else match peek p2 with
           | Ok (t, p3) => match t with
                           | (sp2, TVersionDirective _ _) | (sp2, TTagDirective _ _) => Err (PErr 4 (sp_start sp2))
                           | _ => Ok ((EDocumentEnd, sp0), set_state p3 SDocumentStart)
                           end
           | Err e => Err e | Panic n => Panic n
           end) = Ok (ev, p') ->
     doc_reset p p' /\ (p_state p' = SImplicitDocumentStart \/ p_state p' = SDocumentStart)).
  { intros ee sp0 q0 Hq1 Hq2 Hq3. cbv zeta.
    destruct ee.
    - intros H; inversion H; subst. split; [|left; reflexivity].
      unfold doc_reset. destruct (p_keep_tags q0) eqn:K; cbn; rewrite <- ?Hq3, ?K; repeat split; auto; try congruence.
    - match goal with |- context [peek ?x] => destruct (peek x) as [[[sp2 tk2] p3]| |] eqn:E2; try discriminate end.
      destruct (peek_fields _ _ _ E2) as [Hs2 Hk2]. destruct (peek_other_fields _ _ _ E2) as (Ha2 & Ht2 & Hi2 & Hkt2).
      destruct tk2; try discriminate; intros H; inversion H; subst; (split; [|right; reflexivity]);
        unfold doc_reset; destruct (p_keep_tags q0) eqn:K; cbn in *; rewrite ?Ha2, ?Ht2, ?Hi2, ?Hkt2, ?Hk2;
        repeat split; auto; try congruence. }
  destruct tk; try (apply (G false sp q); congruence).
  apply (G true sp (skip q)); cbn; congruence.
Qed.
