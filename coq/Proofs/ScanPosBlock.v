(* Joint proof "every position the scanner reports is a true position" (see SCANPOS.md) - family: BLOCK SCALARS.
   Main result: [pos_scan_block_scalar].

   Over the string back-end [buf_is_empty] is [si_look = 0], a boolean this proof knows nothing about, so both the
   buffered loop and the raw fast path of [scan_block_scalar_content_line] are shown position-correct, and the
   "narrow" and the "wide" indentation skippers alike.  The only thing used about [buf_is_empty] is that it is a
   function of the state ([swp_buf_is_empty_val]): the test that ends the buffered loop and the test that selects the
   raw path see the same state, hence the content-line reader always stops in front of a break or NUL. *)
From Coq Require Import List NArith ZArith Bool Arith Lia.
Import ListNotations.
Require Import Parser SBase SPrim SDir SScalar SFetch Positions ScanPos ScanPosPrim.
Local Open Scope nat_scope.

Arguments Nat.ltb : simpl never.
Arguments Nat.leb : simpl never.
Arguments Nat.eqb : simpl never.
Arguments Nat.sub : simpl never.
Arguments N.ltb : simpl never.
Arguments N.eqb : simpl never.
Arguments N.leb : simpl never.
Arguments N.add : simpl never.
Arguments N.max : simpl never.

(* ---------------- character classes ---------------- *)
Lemma digit_not_breakz c : is_digit c = true -> is_breakz c = false.
Proof.
  intros H. destruct (is_breakz c) eqn:B; [|reflexivity]. exfalso. unfold is_breakz, is_break, is_z in B.
  repeat (apply orb_true_iff in B as [B|B]); apply N.eqb_eq in B; subst c; vm_compute in H; discriminate H.
Qed.
Lemma pm_not_breakz c : ((c =? 43) || (c =? 45))%N = true -> is_breakz c = false.
Proof. intros H. apply orb_true_iff in H as [H|H]; apply N.eqb_eq in H; subst c; reflexivity. Qed.
Lemma breakz_not_z c : is_breakz c = true -> is_z c = false -> is_break c = true.
Proof. unfold is_breakz. intros H Hz. rewrite Hz, orb_false_r in H. exact H. Qed.

(* ---------------- pure reads: the state is not touched (any error predicate) ---------------- *)
Definition bempty (s : sst) : bool := Nat.eqb (si_look (sc_in s)) 0.
Lemma swp_buf_is_empty_val E (Q : bool -> sst -> Prop) s : Q (bempty s) s -> swp E (buf_is_empty str_ops) Q s.
Proof. intros H. exact H. Qed.

Lemma swp_next_is E p (Q : bool -> sst -> Prop) s : Q (p (rnth s 0)) s -> swp E (next_is str_ops p) Q s.
Proof. intros H. unfold next_is. apply swp_bind. apply swp_peek. apply swp_ret. exact H. Qed.

Lemma swp_next_3_are E a b c (Q : bool -> sst -> Prop) s : (forall r, Q r s) -> swp E (next_3_are str_ops a b c) Q s.
Proof.
  intros H. unfold next_3_are. apply swp_bind. apply swp_assert_buflen. apply swp_bind. apply swp_peek.
  apply swp_bind. apply swp_peekn. apply swp_bind. apply swp_peekn. apply swp_ret. apply H.
Qed.
Lemma swp_next_is_document_indicator E (Q : bool -> sst -> Prop) s :
  (forall r, Q r s) -> swp E (next_is_document_indicator str_ops) Q s.
Proof.
  intros H. unfold next_is_document_indicator. apply swp_bind. apply swp_assert_buflen. apply swp_bind. apply swp_peekn.
  destruct (is_blank_or_breakz (rnth s 3)); [|apply swp_ret; apply H].
  apply swp_bind. apply swp_next_3_are. intros d. destruct d; [apply swp_ret; apply H|apply swp_next_3_are; exact H].
Qed.
Lemma swp_next_is_document_end E (Q : bool -> sst -> Prop) s :
  (forall r, Q r s) -> swp E (next_is_document_end str_ops) Q s.
Proof.
  intros H. unfold next_is_document_end. apply swp_bind. apply swp_assert_buflen.
  apply swp_bind. apply swp_next_3_are. intros d. destruct d; [|apply swp_ret; apply H].
  apply swp_bind. apply swp_peekn. apply swp_ret. apply H.
Qed.

Section PosBlock.
Variable orig : list chr.
Hypothesis no_nul : Forall (fun c => c <> 0%N) orig.
Notation pwp := (swp (true_mark orig)).
Notation MarkAt := (MarkAt orig).
Notation MarkOK := (MarkOK orig).
Notation upost := (upost orig).
Notation ppost := (ppost orig).

(* what every helper of this family establishes *)
Definition bpost (s : sst) {A} : A -> sst -> Prop := fun _ s' => MarkOK s' /\ pkeeps s s'.

Lemma pwp_unroll_nb pre (Q : unit -> sst -> Prop) s :
  MarkAt pre s -> (forall s', MarkAt pre s' -> rem s' = rem s -> pkeeps s s' -> Q tt s') ->
  pwp (@unroll_non_block_indents strin) Q s.
Proof using no_nul.
  intros HM HQ. unfold unroll_non_block_indents. apply swp_modify. destruct (unroll_nb _ _) as [ind l].
  apply HQ; [apply (markat_ext orig no_nul pre s _ HM); reflexivity|reflexivity|repeat split].
Qed.

(* ---------------- (1) scan_block_scalar_content_line ----------------
   Loop 1 (buffered): invariant [MarkOK]; every character consumed was peeked and is not a break nor NUL.
     It ends with [bempty] or in front of a break / NUL.
   Loop 2 (raw fast path), entered in state [s1] with [MarkAt pre1 s1]: invariant
       rem s1 = w ++ rem s2,  sc_mark s2 = sc_mark s1,  no character of w is a break,  n = |w|;
     [raw_read] answers None only in front of a break or at the end; the final [adv_mark n] moves the mark over w.
   Postcondition: the reader stopped in front of a break or NUL. *)
Lemma pos_content_line F acc s : MarkOK s ->
  pwp (scan_block_scalar_content_line str_ops F acc)
      (fun _ s' => MarkOK s' /\ pkeeps s s' /\ is_breakz (rnth s' 0) = true) s.
Proof using no_nul.
  intros HS. unfold scan_block_scalar_content_line. apply swp_bind.
  match goal with |- swp _ (?g F acc) _ _ =>
    assert (H1 : forall f acc1 s1, MarkOK s1 ->
              pwp (g f acc1) (fun _ s' => MarkOK s' /\ pkeeps s1 s' /\ (bempty s' = true \/ is_breakz (rnth s' 0) = true)) s1) end.
  { induction f as [|f IH]; intros acc1 s1 [pre1 M1]; [exact I|]. lazy beta iota.
    apply swp_bind. apply swp_buf_is_empty_val. destruct (bempty s1) eqn:Eb.
    - apply swp_ret. split; [exists pre1; exact M1|]. split; [pk|left; exact Eb].
    - apply swp_bind. apply swp_peek. destruct (is_breakz (rnth s1 0)) eqn:Ez.
      + apply swp_ret. split; [exists pre1; exact M1|]. split; [pk|right; exact Ez].
      + apply swp_bind. apply (pwp_skip_plain_z orig no_nul (skip_blank str_ops) pre1); [left; reflexivity|exact M1|exact Ez|].
        intros s2 M2 R2 K2. eapply swp_mono; [apply IH; eexists; exact M2|]. cbv beta.
        intros a s' (M' & K' & D'). split; [exact M'|]. split; [pk|exact D']. }
  eapply swp_mono; [apply H1; exact HS|]. cbv beta. intros acc1 s1 (M1 & K1 & D1). clear H1.
  apply swp_bind. apply swp_buf_is_empty_val. destruct (bempty s1) eqn:Eb.
  - destruct M1 as [pre1 M1].
    match goal with |- swp _ (?g F acc1 0%N) _ _ =>
      assert (H2 : forall f acc2 w s2, rem s1 = w ++ rem s2 -> sc_mark s2 = sc_mark s1 ->
                Forall (fun c => is_break c = false) w -> pkeeps s1 s2 ->
                pwp (g f acc2 (N.of_nat (length w)))
                    (fun _ s' => MarkOK s' /\ pkeeps s s' /\ is_breakz (rnth s' 0) = true) s2) end.
    { induction f as [|f IH]; intros acc2 w s2 Hr Hm HF Hk; [exact I|]. lazy beta iota.
      assert (Hend : is_breakz (rnth s2 0) = true ->
                pwp (bind (adv_mark (N.of_nat (length w))) (fun _ => ret acc2))
                    (fun _ s' => MarkOK s' /\ pkeeps s s' /\ is_breakz (rnth s' 0) = true) s2).
      { intros Hz. apply swp_bind.
        apply (pwp_adv_mark_over orig no_nul pre1 w _ s1 s2); [exact M1|exact Hr|exact Hm|exact HF|].
        intros s' M' R' K'. apply swp_ret. split; [eexists; exact M'|]. split; [pk|].
        rewrite (rnth_eq _ _ 0 R'). exact Hz. }
      apply swp_bind. apply swp_raw_read; [intros; exact I|].
      destruct (rem s2) as [|c r] eqn:R2.
      - lazy beta iota. apply Hend. unfold rnth. rewrite R2. reflexivity.
      - destruct (is_breakz c) eqn:Ec.
        + lazy beta iota. apply Hend. unfold rnth. rewrite R2. exact Ec.
        + intros s3 R3 I3. lazy beta iota. rewrite (of_nat_snoc w c). apply IH.
          * rewrite <- app_assoc. cbn [app]. rewrite R3. first [exact Hr|rewrite Hr, R2; reflexivity].
          * rewrite (inonly_mark s2 s3 I3). exact Hm.
          * apply Forall_app. split; [exact HF|]. constructor; [apply breakz_false_break; exact Ec|constructor].
          * apply (pkeeps_trans _ _ _ Hk). apply (inonly_pkeeps s2 s3 I3). }
    apply (H2 F acc1 [] s1); [reflexivity|reflexivity|constructor|apply pkeeps_refl].
  - apply swp_ret. split; [exact M1|]. split; [exact K1|]. destruct D1 as [D|D]; [congruence|exact D].
Qed.

(* ---------------- (2) skip_spaces_to: only characters that were peeked and are spaces ---------------- *)
Lemma pos_skip_spaces_to indent cb : forall fuel s, MarkOK s -> pwp (skip_spaces_to str_ops fuel indent cb) (upost s) s.
Proof using no_nul.
  induction fuel as [|fuel IH]; intros s [pre HM]; [exact I|].
  cbn [skip_spaces_to]. apply swp_bind. apply swp_mono with (Q := fun _ s' => s' = s).
  { destruct cb; [apply swp_buf_is_empty; intros; reflexivity|apply swp_ret; reflexivity]. }
  intros e s' ->. apply swp_bind. unfold col. apply swp_gets.
  match goal with |- swp _ (if ?b then _ else _) _ _ => destruct b end.
  { apply swp_ret. split; [exists pre; exact HM|pk]. }
  apply swp_bind. apply swp_peek. destruct (N.eqb_spec (rnth s 0) 32) as [E32|N32].
  - apply swp_bind. apply (pwp_skip_plain_z orig no_nul (skip_blank str_ops) pre); [left; reflexivity|exact HM|rewrite E32; reflexivity|].
    intros s2 M2 R2 K2. apply (upost_trans orig no_nul _ s s2); [pk|]. apply IH. eexists; exact M2.
  - apply swp_ret. split; [exists pre; exact HM|pk].
Qed.

(* ---------------- (3) skip_block_scalar_indent: spaces, then line breaks that were just tested ---------------- *)
Lemma pos_skip_bsi F indent : forall fuel breaks s,
  MarkOK s -> pwp (skip_block_scalar_indent str_ops F fuel indent breaks) (upost s) s.
Proof using no_nul.
  induction fuel as [|fuel IH]; intros breaks s [pre HM]; [exact I|].
  cbn [skip_block_scalar_indent]. change (bufmaxlen str_ops) with 128.
  apply swp_bind. destruct (Nat.ltb 128 2); [apply swp_panic|apply swp_ret].
  apply swp_bind. apply swp_mono with (Q := fun _ s1 => MarkOK s1 /\ pkeeps s s1).
  { destruct (N.ltb indent (N.of_nat (128 - 2))).
    - apply swp_bind. apply (pwp_look orig no_nul _ pre); [exact HM|]. intros s1 M1 R1 I1.
      apply (upost_trans orig no_nul _ s s1); [pk|]. apply pos_skip_spaces_to. exists pre; exact M1.
    - apply swp_bind.
      + match goal with |- swp _ (?g F) _ _ =>
          assert (HW : forall f s1, MarkOK s1 -> pwp (g f) (upost s1) s1) end.
        { induction f as [|f IHf]; intros s1 [pre1 M1]; [exact I|]. lazy beta iota. change (bufmaxlen str_ops) with 128.
          apply swp_bind. apply (pwp_look orig no_nul _ pre1); [exact M1|]. intros s2 M2 R2 I2.
          apply swp_bind. eapply swp_mono; [apply pos_skip_spaces_to; exists pre1; exact M2|]. intros _ s3 [M3 K3].
          apply swp_bind. unfold col. apply swp_gets. apply swp_bind. apply swp_buf_is_empty. intros e.
          apply swp_bind. apply swp_mono with (Q := fun _ s4 => s4 = s3).
          { destruct e; [apply swp_ret; reflexivity|apply swp_peek; reflexivity]. }
          intros c s4 ->.
          match goal with |- swp _ (if ?b then _ else _) _ _ => destruct b end.
          - apply swp_ret. split; [exact M3|pk].
          - apply (upost_trans orig no_nul _ s1 s3); [pk|]. apply IHf. exact M3. }
        eapply swp_mono; [apply HW; exists pre; exact HM|]. intros _ s1 [[pre1 M1] K1].
        apply (pwp_look orig no_nul _ pre1); [exact M1|]. intros s2 M2 R2 I2. split; [exists pre1; exact M2|pk]. }
  intros _ s1 [[pre1 M1] K1]. apply swp_bind. apply swp_next_is.
  destruct (is_break (rnth s1 0)) eqn:Eb.
  - apply swp_bind. apply (pwp_skip_break orig pre1); [exact M1|exact Eb|].
    intros s2 b rest Rb Ub Hb M2 R2 K2. apply (upost_trans orig no_nul _ s s2); [pk|]. apply IH. eexists; exact M2.
  - apply swp_ret. split; [exists pre1; exact M1|pk].
Qed.

(* ---------------- (4) skip_first_line_indent ---------------- *)
Lemma pos_sfli F : forall fuel maxi breaks s,
  MarkOK s -> pwp (skip_first_line_indent str_ops F fuel maxi breaks) (upost s) s.
Proof using no_nul.
  induction fuel as [|fuel IH]; intros maxi breaks s HS; [exact I|].
  cbn [skip_first_line_indent]. apply swp_bind.
  match goal with |- swp _ (?g F) _ _ =>
    assert (HSP : forall f s1, MarkOK s1 -> pwp (g f) (upost s1) s1) end.
  { induction f as [|f IHf]; intros s1 [pre1 M1]; [exact I|]. lazy beta iota.
    apply swp_bind. apply (pwp_look_ch orig no_nul pre1); [exact M1|]. intros s2 M2 R2 I2.
    destruct (N.eqb_spec (rnth s2 0) 32) as [E32|N32].
    - apply swp_bind. apply (pwp_skip_plain_z orig no_nul (skip_blank str_ops) pre1); [left; reflexivity|exact M2|rewrite E32; reflexivity|].
      intros s3 M3 R3 K3. apply (upost_trans orig no_nul _ s1 s3); [pk|]. apply IHf. eexists; exact M3.
    - apply swp_ret. split; [exists pre1; exact M2|pk]. }
  eapply swp_mono; [apply HSP; exact HS|]. intros _ s1 [[pre1 M1] K1]. clear HSP.
  apply swp_bind. unfold col. apply swp_gets. apply swp_bind. apply swp_next_is.
  destruct (is_break (rnth s1 0)) eqn:Eb.
  - apply swp_bind. apply (pwp_look orig no_nul _ pre1); [exact M1|]. intros s2 M2 R2 I2.
    apply swp_bind. apply (pwp_skip_break orig pre1); [exact M2|rewrite (rnth_eq _ _ 0 R2); exact Eb|].
    intros s3 b rest Rb Ub Hb M3 R3 K3. apply (upost_trans orig no_nul _ s s3); [pk|]. apply IH. eexists; exact M3.
  - apply swp_ret. split; [exists pre1; exact M1|pk].
Qed.

(* ---------------- (5) scan_block_scalar ---------------- *)
Theorem pos_scan_block_scalar : forall F literal s,
  MarkOK s -> is_breakz (rnth s 0) = false -> pwp (scan_block_scalar str_ops F literal) (ppost s) s.
Proof using no_nul.
  intros F literal s [pre HM] Hnb. unfold scan_block_scalar.
  apply swp_bind. unfold mark. apply swp_gets.
  assert (Tstart : true_mark orig (sc_mark s)) by (apply markok_true; exists pre; exact HM).
  (* the '|' or '>' *)
  apply swp_bind. apply (pwp_skip_plain_z orig no_nul (skip_non_blank str_ops) pre); [right; reflexivity|exact HM|exact Hnb|].
  intros s1 M1 R1 K1.
  apply swp_bind. apply (pwp_unroll_nb _ _ s1 M1). intros s2 M2 R2 K2.
  apply swp_bind. apply (pwp_look_ch orig no_nul _ _ s2 M2). intros s3 M3 R3 I3.
  (* the header: chomping and indentation indicators, in either order; each one consumed was peeked *)
  apply swp_bind. apply swp_mono with (Q := fun _ s4 => MarkOK s4 /\ pkeeps s s4).
  { destruct ((rnth s3 0 =? 43) || (rnth s3 0 =? 45))%N eqn:Epm.
    - apply swp_bind. eapply (pwp_skip_plain_z orig no_nul (skip_non_blank str_ops)); [right; reflexivity|exact M3|apply pm_not_breakz; exact Epm|].
      intros s4 M4 R4 K4.
      apply swp_bind. apply (pwp_look orig no_nul _ _ _ s4 M4). intros s5 M5 R5 I5.
      apply swp_bind. apply swp_peek. destruct (is_digit (rnth s5 0)) eqn:Ed.
      + destruct (rnth s5 0 =? 48)%N; [apply swp_fail; exact Tstart|].
        apply swp_bind. eapply (pwp_skip_plain_z orig no_nul (skip_non_blank str_ops)); [right; reflexivity|exact M5|apply digit_not_breakz; exact Ed|].
        intros s6 M6 R6 K6. apply swp_ret. split; [eexists; exact M6|pk].
      + apply swp_ret. split; [eexists; exact M5|pk].
    - destruct (is_digit (rnth s3 0)) eqn:Ed.
      + destruct (rnth s3 0 =? 48)%N; [apply swp_fail; exact Tstart|].
        apply swp_bind. eapply (pwp_skip_plain_z orig no_nul (skip_non_blank str_ops)); [right; reflexivity|exact M3|apply digit_not_breakz; exact Ed|].
        intros s4 M4 R4 K4.
        apply swp_bind. apply (pwp_look orig no_nul _ _ _ s4 M4). intros s5 M5 R5 I5.
        apply swp_bind. apply swp_peek. destruct ((rnth s5 0 =? 43) || (rnth s5 0 =? 45))%N eqn:Epm2.
        * apply swp_bind. eapply (pwp_skip_plain_z orig no_nul (skip_non_blank str_ops)); [right; reflexivity|exact M5|apply pm_not_breakz; exact Epm2|].
          intros s6 M6 R6 K6. apply swp_ret. split; [eexists; exact M6|pk].
        * apply swp_ret. split; [eexists; exact M5|pk].
      + apply swp_ret. split; [eexists; exact M3|pk]. }
  intros [chomp increment] s4 [M4 K4]. lazy beta iota.
  clear dependent s3. clear dependent s2. clear dependent s1.
  (* the rest of the header line *)
  apply swp_bind. eapply swp_mono; [apply (pos_skip_ws_to_eol orig no_nul); exact M4|]. intros tw s5 [[pre5 M5] K5].
  apply swp_bind. apply (pwp_look orig no_nul _ _ _ s5 M5). intros s6 M6 R6 I6.
  apply swp_bind. apply swp_peek.
  destruct (is_breakz (rnth s6 0)) eqn:Ebz; cbn [negb]; [|apply swp_fail; exact Tstart].
  apply swp_bind. apply swp_mono with (Q := fun _ s7 => MarkOK s7 /\ pkeeps s s7).
  { destruct (is_break (rnth s6 0)) eqn:Eb.
    - apply swp_bind. apply (pwp_look orig no_nul _ _ _ s6 M6). intros s7 M7 R7 I7.
      apply swp_bind. apply (pwp_skip_break orig pre5); [exact M7|rewrite (rnth_eq _ _ 0 R7); exact Eb|].
      intros s8 b rest Rb Ub Hb M8 R8 K8. apply swp_ret. split; [eexists; exact M8|pk].
    - apply swp_ret. split; [eexists; exact M6|pk]. }
  clear dependent s6. clear dependent s5. clear dependent s4.
  intros cbreak s1 [[pre1 M1] K1].
  apply swp_bind. apply (pwp_look_ch orig no_nul _ _ s1 M1). intros s2 M2 R2 I2.
  destruct (rnth s2 0 =? 9)%N; [apply swp_fail; exact Tstart|].
  apply swp_bind. apply swp_get.
  (* the indentation of the first content line *)
  match goal with |- swp _ (bind (if N.eqb ?i 0 then _ else _) _) _ _ => set (indent0 := i) end.
  apply swp_bind. apply swp_mono with (Q := fun _ s3 => MarkOK s3 /\ pkeeps s s3).
  { destruct (N.eqb indent0 0).
    - apply swp_bind. eapply swp_mono; [apply pos_sfli; eexists; exact M2|]. intros r s3 [M3 K3].
      apply swp_ret. split; [exact M3|pk].
    - apply swp_bind. eapply swp_mono; [apply pos_skip_bsi; eexists; exact M2|]. intros r s3 [M3 K3].
      apply swp_ret. split; [exact M3|pk]. }
  intros [indent tbreaks] s3 [M3 K3]. lazy beta iota.
  apply swp_bind. apply swp_next_is. apply swp_bind. apply swp_get.
  destruct (is_z (rnth s3 0)).
  { (* end of stream: the token spans start .. current mark *)
    apply swp_ret. split; [exact M3|]. split; [|exact K3].
    split; [exact Tstart|apply markok_true; exact M3]. }
  (* "wrongly indented" check *)
  apply swp_bind. apply swp_mono with (Q := fun _ s4 => MarkOK s4 /\ pkeeps s s4).
  { match goal with |- swp _ (if ?b then _ else _) _ _ => destruct b end; [|apply swp_ret; split; assumption].
    destruct M3 as [pre3 M3].
    apply swp_bind. apply (pwp_look orig no_nul _ _ _ s3 M3). intros s4 M4 R4 I4.
    apply swp_bind. apply swp_next_is_document_indicator. intros di. apply swp_ret. split; [eexists; exact M4|pk]. }
  intros wrong s4 [M4 K4]. destruct wrong; [apply swp_fail; apply markok_true; exact M3|].
  apply swp_bind. apply swp_get.
  assert (Tcstart : true_mark orig (sc_mark s4)) by (apply markok_true; exact M4).
  (* the main loop: one content line per round *)
  apply swp_bind.
  match goal with |- swp _ (?g F [] 0%N tbreaks false) _ _ =>
    assert (Hgo : forall f acc lb tb ldb s5, MarkOK s5 -> pwp (g f acc lb tb ldb) (upost s5) s5) end.
  { induction f as [|f IH]; intros acc lb tb ldb s5 [q5 M5]; [exact I|]. lazy beta iota.
    apply swp_bind. unfold col. apply swp_gets. apply swp_bind. apply swp_next_is.
    match goal with |- swp _ (if ?b then _ else _) _ _ => destruct b end; [apply swp_ret; split; [eexists; exact M5|pk]|].
    apply swp_bind. apply swp_mono with (Q := fun _ s6 => MarkOK s6 /\ pkeeps s5 s6).
    { destruct (N.eqb indent 0); [|apply swp_ret; split; [eexists; exact M5|pk]].
      apply swp_bind. apply (pwp_look orig no_nul _ _ _ s5 M5). intros s6 M6 R6 I6.
      apply swp_next_is_document_indicator. intros r. split; [eexists; exact M6|pk]. }
    intros de s6 [M6 K6]. destruct de; [apply swp_ret; split; assumption|].
    apply swp_bind. apply swp_next_is. cbv zeta.
    apply swp_bind. eapply swp_mono; [apply pos_content_line; exact M6|]. cbv beta.
    intros acc1 s7 ([q7 M7] & K7 & Z7).
    apply swp_bind. apply (pwp_look orig no_nul _ _ _ s7 M7). intros s8 M8 R8 I8.
    apply swp_bind. apply swp_next_is.
    destruct (is_z (rnth s8 0)) eqn:Ez; [apply swp_ret; split; [eexists; exact M8|pk]|].
    (* the reader stopped in front of a break or NUL, and it is not NUL: a break *)
    apply swp_bind. apply (pwp_skip_break orig q7); [exact M8|apply breakz_not_z; [rewrite (rnth_eq _ _ 0 R8); exact Z7|exact Ez]|].
    intros s9 b rest Rb Ub Hb M9 R9 K9.
    apply swp_bind. eapply swp_mono; [apply pos_skip_bsi; eexists; exact M9|]. intros tb1 s10 [M10 K10].
    apply (upost_trans orig no_nul _ s5 s10); [pk|]. apply IH. exact M10. }
  eapply swp_mono; [apply Hgo; exact M4|]. clear Hgo. intros [[acc lb] tb] s5 [M5 K5]. lazy beta iota.
  apply swp_bind. apply swp_next_is. apply swp_bind. unfold col. apply swp_gets.
  apply swp_bind. unfold mark. apply swp_gets. apply swp_ret.
  split; [exact M5|]. split; [|pk]. split; [exact Tcstart|apply markok_true; exact M5].
Qed.

End PosBlock.

Print Assumptions pos_scan_block_scalar.
