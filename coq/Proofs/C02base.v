From Coq Require Import List NArith Bool Lia.
Import ListNotations.
Require Import Parser Grammar.

Definition cont_ok (s : pstate) : bool :=
  match s with
  | SBlockMappingValue | SFlowMappingValue | SFlowMappingEmptyValue
  | SBlockMappingKey | SFlowMappingKey
  | SBlockSequenceEntry | SIndentlessSequenceEntry | SFlowSequenceEntry
  | SFlowSequenceEntryMappingValue | SFlowSequenceEntryMappingEnd _ => true
  | _ => false
  end.

Definition cont_frames (s : pstate) : list frame :=
  match s with
  | SDocumentEnd => [FDoc]
  | SBlockMappingValue | SFlowMappingValue | SFlowMappingEmptyValue => [FMapKey]
  | SBlockMappingKey | SFlowMappingKey => [FMapVal]
  | SBlockSequenceEntry | SIndentlessSequenceEntry | SFlowSequenceEntry => [FSeq]
  | SFlowSequenceEntryMappingValue => [FMapKey; FSeq]
  | SFlowSequenceEntryMappingEnd _ => [FMapVal; FSeq]
  | _ => []
  end.

Definition stack_frames (l : list pstate) : list frame := flat_map cont_frames l.

Inductive Rooted : list pstate -> Prop :=
| RootedDoc : Rooted [SDocumentEnd]
| RootedCons s r : cont_ok s = true -> Rooted r -> Rooted (s :: r).

Definition cur_frames (s : pstate) : option (list frame) :=
  match s with
  | SBlockSequenceFirstEntry | SBlockSequenceEntry | SIndentlessSequenceEntry
  | SFlowSequenceFirstEntry | SFlowSequenceEntry => Some [FSeq]
  | SBlockMappingFirstKey | SBlockMappingKey | SFlowMappingFirstKey | SFlowMappingKey => Some [FMapKey]
  | SBlockMappingValue | SFlowMappingValue | SFlowMappingEmptyValue => Some [FMapVal]
  | SFlowSequenceEntryMappingKey => Some [FMapKey; FSeq]
  | SFlowSequenceEntryMappingValue => Some [FMapVal; FSeq]
  | SFlowSequenceEntryMappingEnd _ => Some [FMapKey; FSeq]
  | SBlockNode | SDocumentContent => Some []
  | _ => None
  end.

Definition InvS (st : pstate) (stk : list pstate) (g : gstate) : Prop :=
  match st with
  | SStreamStart => stk = [] /\ g = GInit
  | SEnd => stk = [] /\ g = GEnd
  | SImplicitDocumentStart | SDocumentStart => stk = [] /\ g = GStream []
  | SDocumentEnd => stk = [] /\ g = GStream [FDocDone]
  | _ => Rooted stk /\ exists a, cur_frames st = Some a /\ g = GStream (a ++ stack_frames stk)
  end.

Definition Inv (p : parser) (g : gstate) : Prop := InvS (p_state p) (p_states p) g.

Lemma peek_fields p t p' : peek p = Ok (t, p') -> p_state p' = p_state p /\ p_states p' = p_states p.
Proof.
  unfold peek. destruct (p_token p); [intros H; inversion H; auto|].
  destruct (p_toks p); [discriminate|]. intros H; inversion H; subst; auto.
Qed.

Lemma peek_no_panic p n : peek p <> Panic n.
Proof. unfold peek. destruct (p_token p); [discriminate|]. destruct (p_toks p); discriminate. Qed.

Lemma pop_is_complete s r :
  Rooted (s :: r) ->
  exists F', complete (stack_frames (s :: r)) = Some F' /\ InvS s r (GStream F').
Proof.
  intros H. inversion H as [|s' r' Hc Hr]; subst.
  - simpl. eexists; split; [reflexivity|]. simpl. auto.
  - destruct s; try discriminate; simpl; (eexists; split; [reflexivity|]); simpl;
      (split; [exact Hr|]); eexists; (split; [reflexivity|]); reflexivity.
Qed.

Lemma node_ok_stack stk : Rooted stk -> node_ok (stack_frames stk) = true.
Proof.
  intros H; inversion H as [|s r Hc Hr]; subst; [reflexivity|].
  destruct s; try discriminate; reflexivity.
Qed.

Definition post (G : gstate) (r : res ((event * span) * parser)) : Prop :=
  match r with
  | Panic _ => False
  | Err _ => True
  | Ok ((e, _), p') => exists g', gstep G e = Some g' /\ Inv p' g'
  end.

Lemma resolve_tag_no_panic p m h s n : resolve_tag p m h s <> Panic n.
Proof.
  unfold resolve_tag. destruct (str_eqb h [bang; bang]); [discriminate|].
  destruct (_ && _); [discriminate|]. destruct (assoc h (p_tags p)); [discriminate|].
  destruct (is_named_handle h); discriminate.
Qed.

Lemma node_props_ok p t :
  match node_props p t with
  | Panic _ => False
  | Err _ => True
  | Ok (_, _, p') => p_state p' = p_state p /\ p_states p' = p_states p
  end.
Proof.
  unfold node_props. destruct t as [sp tk]. destruct tk; try (split; reflexivity).
  - (* anchor *)
    cbn [register_anchor].
    match goal with |- context [peek ?q] => destruct (peek q) as [[[sp2 tk2] q']|e|m] eqn:E end;
      [ apply peek_fields in E as [Hs Hk]; cbn in Hs, Hk | exact I | exact (peek_no_panic _ _ E) ].
    destruct tk2; try (split; congruence).
    destruct (resolve_tag _ _ _ _) eqn:R; [cbn; split; congruence | exact I | exact (resolve_tag_no_panic _ _ _ _ _ R)].
  - (* tag *)
    destruct (resolve_tag _ _ _ _) eqn:R; [| exact I | exact (resolve_tag_no_panic _ _ _ _ _ R)].
    match goal with |- context [peek ?q] => destruct (peek q) as [[[sp2 tk2] q']|e|m] eqn:E end;
      [ apply peek_fields in E as [Hs Hk]; cbn in Hs, Hk | exact I | exact (peek_no_panic _ _ E) ].
    destruct tk2; cbn; try (split; congruence).
Qed.

(* popping the continuation after an event that completes a node *)
Lemma pop_post G p e sp (k : parser -> parser) :
  Rooted (p_states p) ->
  (forall q, p_state (k q) = p_state q /\ p_states (k q) = p_states q) ->
  gstep G e = option_map GStream (complete (stack_frames (p_states p))) ->
  post G (do q <- pop_state p; Ok ((e, sp), k q)).
Proof.
  intros HR Hk He. unfold pop_state.
  destruct (p_states p) as [|s r] eqn:Es; [inversion HR|].
  destruct (pop_is_complete s r HR) as [F' [HF HI]].
  rewrite HF in He. cbn [post]. eexists; split; [exact He|].
  unfold Inv. destruct (Hk (set_state (set_states p r) s)) as [A B].
  rewrite A, B. exact HI.
Qed.

Lemma pop_state_spec p :
  Rooted (p_states p) ->
  exists s r F', p_states p = s :: r /\ pop_state p = Ok (set_state (set_states p r) s)
                 /\ complete (stack_frames (p_states p)) = Some F' /\ InvS s r (GStream F').
Proof.
  intros HR. unfold pop_state. destruct (p_states p) as [|s r] eqn:E; [inversion HR|].
  destruct (pop_is_complete s r HR) as [F' [HF HI]].
  exists s, r, F'. repeat split; auto.
Qed.

Definition tmeasure (p : parser) : nat :=
  length (p_toks p) + match p_token p with Some _ => 1 | None => 0 end.

Lemma peek_measure p t q : peek p = Ok (t, q) -> tmeasure q = tmeasure p /\ p_token q = Some t.
Proof.
  unfold peek, tmeasure. destruct (p_token p) eqn:E.
  - intros H; inversion H; subst. rewrite E. auto.
  - destruct (p_toks p); [discriminate|]. intros H; inversion H; subst. cbn. split; [lia|reflexivity].
Qed.

(* destruct the next [peek] in the goal, transporting the state/stack equalities *)
Ltac step_peek :=
  match goal with
  | |- context [peek ?q] =>
      let E := fresh "E" in let Hs := fresh "Hs" in let Hk := fresh "Hk" in
      let sp := fresh "sp" in let tk := fresh "tk" in let q' := fresh "q" in
      destruct (peek q) as [[[sp tk] q']|?|?] eqn:E;
      [ pose proof (peek_fields _ _ _ E) as [Hs Hk]; let Hm := fresh "Hpm" in let Ht := fresh "Ht" in pose proof (peek_measure _ _ _ E) as [Hm Ht]; cbn [p_state p_states skip set_tok set_state set_states push_state set_anchors set_tags] in Hs, Hk
      | exact I
      | exfalso; exact (peek_no_panic _ _ E) ]
  end.

Ltac fields := cbn [p_state p_states skip set_tok set_state set_states push_state set_anchors set_tags fst snd] in *.

(* finish a goal where a collection starts: state set to a First* state, stack untouched *)
Ltac solve_start HR :=
  cbn [post gstep on_stream]; rewrite (node_ok_stack _ HR);
  eexists; split; [reflexivity|]; unfold Inv; fields;
  repeat match goal with H : p_states _ = _ |- _ => rewrite H end;
  cbn [InvS cur_frames]; split; [exact HR | eexists; split; reflexivity].

(* finish a goal where a leaf event pops the continuation *)
Ltac solve_pop HR :=
  let s := fresh "s" in let r := fresh "r" in let F' := fresh "F'" in
  let Hst := fresh "Hst" in let Hpop := fresh "Hpop" in let HF := fresh "HF" in let HI := fresh "HI" in
  match goal with
  | |- context [pop_state ?q] =>
      let HRq := fresh "HRq" in
      assert (HRq : Rooted (p_states q)) by (fields; repeat match goal with H : p_states _ = _ |- _ => rewrite H end; exact HR);
      destruct (pop_state_spec q HRq) as (s & r & F' & Hst & Hpop & HF & HI);
      rewrite Hpop
  end.

