(* C16 — ANY number of %TAG lines at text level: "all %TAG directives of a document are in force together, a
   handle may be declared only once per document" for texts.

   For every list of %TAG lines (each "%TAG" blanks handle blanks prefix LF, of the specification's character
   classes) denoting the directives ds, and every tag text: the run of scanner + parser on

       <line 1> ... <line n> "--- " <tag> " x"

   reports the tag the specification's [expand] gives on the table [decls ds] — all lines in force together — or the
   error "duplicate handle" (site 21) at the beginning of the first line that declares a handle again
   ([text_directives_document]). *)
From Coq Require Import List NArith ZArith Bool Lia.
Import ListNotations.
Require Import Parser TagSpec SBase SPrim SDir SScalar SFetch Pipe Drivers TagRun TagUtf8 TagScanText TagProofs TagPipeline.
Open Scope N_scope.
Open Scope mon_scope.

(* ========================================================================================== *)
(* 1. The scanner on the directive lines                                                         *)
(* ========================================================================================== *)
(* a line with its handle and decoded prefix *)
Definition dline := (list N * list N * list N)%type.
Definition dl_text (x : dline) : list N := fst (fst x).
Definition dline_ok (x : dline) : Prop := tag_directive_text (dl_text x) (snd (fst x)) (snd x).

Definition line_end (m : marker) (line : list N) : marker := adv (N.of_nat (length line - 1)) m.
Fixpoint dir_tokens (m : marker) (ls : list dline) : list token :=
  match ls with
  | [] => []
  | x :: r => (mkspan m (line_end m (dl_text x)), TTagDirective (snd (fst x)) (snd x)) :: dir_tokens (nlm (line_end m (dl_text x))) r
  end.
Fixpoint lines_end (m : marker) (ls : list dline) : marker :=
  match ls with
  | [] => m
  | x :: r => lines_end (nlm (line_end m (dl_text x))) r
  end.
Definition lines_text (ls : list dline) : list N := concat (map dl_text ls).

Lemma tag_directive_text_length : forall line dh p, tag_directive_text line dh p -> (9 <= length line)%nat.
Proof.
  intros line dh p H. destruct (tag_directive_text_ok _ _ _ H) as [bl1 [bl2 [ptext [-> [[Hn1 _] HH [Hn2 _] [[Hnp _] _]]]]]].
  rewrite dir_line_length. destruct bl1; [contradiction|]. destruct bl2; [contradiction|]. destruct ptext; [contradiction|].
  inversion HH; cbn [length]; lia.
Qed.

Lemma scan_all_dir_lines : forall F ls, Forall dline_ok ls -> (length (lines_text ls) < F)%nat ->
  forall fuel rest lk i ln w ska tp acc, (length ls <= fuel)%nat ->
  let m := {| m_index := i; m_line := ln; m_col := 0 |} in
  exists lk' w' ska',
    scan_all str_ops F fuel (top (lines_text ls ++ rest) lk m w [] ska tp false) acc
    = scan_all str_ops F (fuel - length ls) (top rest lk' (lines_end m ls) w' [] ska' (tp + N.of_nat (length ls)) false)
        (rev (dir_tokens m ls) ++ acc).
Proof.
  intros F ls HO. induction HO as [|x ls Hx HO IH]; intros HF fuel rest lk i ln w ska tp acc Hfuel m.
  - exists lk, w, ska. cbn [lines_text map concat app length lines_end dir_tokens rev].
    rewrite Nat.sub_0_r, N.add_0_r. reflexivity.
  - unfold lines_text in *. cbn [map concat] in *. rewrite app_length in HF. cbn [length] in Hfuel.
    destruct fuel as [|fuel]; [lia|].
    unfold dline_ok in Hx. destruct x as [[line dh] p]. cbn [dl_text fst snd] in *.
    pose proof (tag_directive_text_length _ _ _ Hx) as HL9.
    destruct (tag_directive_text_ok _ _ _ Hx) as [bl1 [bl2 [ptext [EL [[Hn1 HB1] HH [Hn2 HB2] [HP HDp]]]]]].
    subst line. rewrite dir_line_length in *.
    rewrite <- app_assoc.
    replace (dir_line bl1 dh bl2 ptext ++ concat (map dl_text ls) ++ rest)
      with (s_tag_line ++ bl1 ++ dh ++ bl2 ++ ptext ++ 10 :: concat (map dl_text ls) ++ rest)
      by (unfold dir_line; rewrite <- !app_assoc; reflexivity).
    destruct (fetch_tag_directive F bl1 dh bl2 ptext p (concat (map dl_text ls) ++ rest) lk i ln w ska tp
                Hn1 HB1 HH Hn2 HB2 HDp HP ltac:(lia)) as [lk1 [_ E1]].
    cbv zeta in E1. fold m in E1.
    cbn [scan_all]. rewrite (next_token_top F _ _ _ _ _ _ _ _ _ _ _ _ ltac:(lia) E1 ltac:(discriminate)).
    set (n := N.of_nat (4 + length bl1 + length dh + length bl2 + length ptext)) in *.
    destruct (IH ltac:(lia) fuel rest lk1 (m_index (adv n m) + 1) (m_line (adv n m) + 1) true false (tp + 1)
                ((mkspan m (adv n m), TTagDirective dh p) :: acc) ltac:(lia)) as [lk' [w' [ska' E]]].
    cbv zeta in E.
    change {| m_index := m_index (adv n m) + 1; m_line := m_line (adv n m) + 1; m_col := 0 |} with (nlm (adv n m)) in E.
    exists lk', w', ska'. unfold token in *. rewrite E. cbn [length lines_end dir_tokens rev dl_text fst snd Nat.sub].
    unfold line_end. rewrite dir_line_length.
    replace (4 + length bl1 + length dh + length bl2 + length ptext + 1 - 1)%nat
      with (4 + length bl1 + length dh + length bl2 + length ptext)%nat by lia. fold n.
    rewrite <- app_assoc. cbn [app].
    replace (tp + 1 + N.of_nat (length ls)) with (tp + N.of_nat (S (length ls))) by lia. reflexivity.
Qed.

(* the end mark of the lines is a mark at column 0 *)
Lemma lines_end_col0 : forall ls i ln, exists i' ln',
  lines_end {| m_index := i; m_line := ln; m_col := 0 |} ls = {| m_index := i'; m_line := ln'; m_col := 0 |}.
Proof.
  induction ls as [|x ls IH]; intros i ln; [exists i, ln; reflexivity|].
  cbn [lines_end]. unfold nlm. apply IH.
Qed.

(* the whole token stream *)
Theorem scan_lines_doc : forall F fuel ls ttext h sfx,
  Forall dline_ok ls -> tag_scans F (33 :: ttext) h sfx ->
  (length (lines_text ls) < F)%nat -> (2 <= F)%nat -> (length ls + 6 <= fuel)%nat ->
  scan_all str_ops F fuel (init_sc {| si_chars := lines_text ls ++ doc_line (33 :: ttext); si_look := 0 |}) []
  = ((span_empty m1, TStreamStart) :: dir_tokens m1 ls ++ doc_tokens (lines_end m1 ls) (33 :: ttext) h sfx, SEnded).
Proof.
  intros F fuel ls ttext h sfx HO HS HF HF2 Hfuel. destruct fuel as [|fuel]; [lia|].
  cbn [scan_all]. rewrite next_token_init by lia.
  destruct (scan_all_dir_lines F ls HO HF fuel (doc_line (33 :: ttext)) 1 0 1 true true 1
              [(span_empty m1, TStreamStart)] ltac:(lia)) as [lk' [w' [ska' E]]].
  cbv zeta in E. fold m1 in E. unfold token in *. rewrite E.
  destruct (lines_end_col0 ls 0 1) as [i' [ln' Em]]. fold m1 in Em. rewrite Em.
  rewrite (scan_all_doc_line F (fuel - length ls) ttext h sfx lk' i' ln' w' ska' _ _ HS HF2 ltac:(lia)).
  rewrite rev_app_distr, rev_involutive. cbn [rev app]. reflexivity.
Qed.

(* ========================================================================================== *)
(* 2. The parser on the directive tokens                                                         *)
(* ========================================================================================== *)
Lemma pstep_to_explicit : forall keep t r,
  (match snd t with TTagDirective _ _ | TDocumentStart => True | _ => False end) ->
  state_machine (P keep (t :: r) None [] SImplicitDocumentStart [])
  = explicit_document_start (P keep r (Some t) [] SImplicitDocumentStart []).
Proof. intros keep [sp k] r H. destruct k; try contradiction; reflexivity. Qed.

(* explicit_document_start with every field of the resulting parser (TagProofs.explicit_document_start_spec
   keeps only what C16_document_start needs) *)
Lemma explicit_document_start_full : forall p T run sp rest,
  stream p = run ++ (sp, TDocumentStart) :: rest -> run_ok run -> agree (p_tags p) T ->
  match decls (dirs_of run) with
  | Declared d =>
      exists tags', agree tags' (merge T d) /\
        explicit_document_start p
        = Parser.Ok ((EDocumentStart true, sp),
                     {| p_toks := rest; p_token := None; p_states := SDocumentEnd :: p_states p;
                        p_state := SDocumentContent; p_anchors := p_anchors p; p_anchor_id := p_anchor_id p;
                        p_tags := tags'; p_keep_tags := p_keep_tags p |})
  | DuplicateHandle j => explicit_document_start p = Parser.Err (PErr 21 (mark_of run j))
  | DuplicateYaml j => explicit_document_start p = Parser.Err (PErr 2 (mark_of run j))
  end.
Proof.
  intros p T run sp rest HS HR HA.
  pose proof (process_directives_spec p T run _ HS HR ltac:(reflexivity) HA) as H.
  unfold directives_spec in H. unfold explicit_document_start.
  destruct (decls (dirs_of run)) as [d|j|j].
  - destruct H as [p' [Hr [HA' [Htk [Hts [Hst [Hsts [Han [Hid Hk]]]]]]]]]. rewrite Hr.
    destruct p' as [toks tk sts st an aid tg kp]. cbn in Htk, Hts, Hst, Hsts, Han, Hid, Hk, HA'. subst.
    exists tg. split; [exact HA'|]. reflexivity.
  - rewrite H. reflexivity.
  - rewrite H. reflexivity.
Qed.

Definition dl_dir (x : dline) : directive := DTag (snd (fst x)) (snd x).

Lemma dline_handle_nonempty : forall x, dline_ok x -> snd (fst x) <> [].
Proof.
  intros [[line dh] p] H. unfold dline_ok in H. cbn [dl_text fst snd] in *.
  destruct (tag_directive_text_ok _ _ _ H) as [bl1 [bl2 [ptext [_ [_ HH _ _]]]]]. inversion HH; discriminate.
Qed.

Lemma dir_tokens_run : forall ls m, Forall dline_ok ls ->
  run_ok (dir_tokens m ls) /\ dirs_of (dir_tokens m ls) = map dl_dir ls.
Proof.
  induction ls as [|x ls IH]; intros m HO; [split; [constructor|reflexivity]|].
  inversion HO as [|? ? Hx HO']; subst. destruct (IH (nlm (line_end m (dl_text x))) HO') as [H1 H2].
  pose proof (dline_handle_nonempty x Hx) as Hne.
  destruct x as [[line dh] p]. cbn [dir_tokens dl_text fst snd] in *. destruct dh as [|c dh]; [contradiction|].
  split.
  - constructor; [split; [reflexivity|exact Logic.I]|exact H1].
  - cbn [dirs_of snd dir_of_tok map dl_dir fst]. rewrite H2. reflexivity.
Qed.

(* where the j-th line starts *)
Lemma mark_of_dir_tokens : forall ls m j, (j < length ls)%nat ->
  mark_of (dir_tokens m ls) j = lines_end m (firstn j ls).
Proof.
  induction ls as [|x ls IH]; intros m j Hj; [cbn in Hj; lia|].
  destruct j as [|j]; [reflexivity|]. cbn [length] in Hj. cbn [dir_tokens firstn lines_end].
  rewrite <- IH by lia. reflexivity.
Qed.

Lemma decls_from_bound : forall ds i ys acc j,
  (decls_from i ds ys acc = DuplicateHandle j \/ decls_from i ds ys acc = DuplicateYaml j) -> (j < i + length ds)%nat.
Proof.
  induction ds as [|d ds IH]; intros i ys acc j H; cbn [decls_from length] in *.
  - destruct H; discriminate.
  - destruct d as [a b|h p|].
    + destruct ys.
      * destruct H as [H|H]; inversion H; subst; lia.
      * apply IH in H. lia.
    + destruct (lookup h acc).
      * destruct H as [H|H]; inversion H; subst; lia.
      * apply IH in H. lia.
    + apply IH in H. lia.
Qed.

(* ========================================================================================== *)
(* 3. Composition                                                                                *)
(* ========================================================================================== *)
Definition lines_outcome (ls : list dline) (h sfx : list N) : list (option (list N * list N)) * pend :=
  match decls (map dl_dir ls) with
  | Declared d => tag_outcome (expand d h sfx) (mk_tag (lines_end m1 ls))
  | DuplicateHandle j => ([], PParseErr 21 (lines_end m1 (firstn j ls)))
  | DuplicateYaml j => ([], PParseErr 2 (lines_end m1 (firstn j ls)))
  end.

Lemma lines_text_length : forall ls, Forall dline_ok ls -> (length ls <= length (lines_text ls))%nat.
Proof.
  intros ls HO. induction HO as [|x ls Hx HO IH]; [cbn; lia|].
  unfold lines_text in *. cbn [map concat length]. rewrite app_length.
  pose proof (tag_directive_text_length _ _ _ Hx). lia.
Qed.

Theorem tags_of_lines_doc : forall keep ls ttext h sfx,
  Forall dline_ok ls -> tag_spelling ttext h sfx ->
  tags_of_run keep (lines_text ls ++ doc_line ttext) = lines_outcome ls h sfx.
Proof.
  intros keep ls ttext h sfx HO HS.
  pose proof (lines_text_length ls HO) as HLl.
  set (F := (2 * length (lines_text ls ++ doc_line ttext) + 10)%nat).
  assert (HFl : (length (lines_text ls) + (6 + length ttext) + 10 <= F)%nat)
    by (unfold F; rewrite app_length, doc_line_length; lia).
  destruct (tag_spelling_scans ttext h sfx F HS ltac:(lia)) as [t' [-> [HSc HK]]].
  unfold tags_of_run, run_str_keep, scan_str. fold F.
  rewrite (scan_lines_doc F (4 * F + 20) ls t' h sfx HO HSc ltac:(lia) ltac:(lia) ltac:(lia)).
  unfold parse_tokens.
  match goal with |- context [parse_all ?f _ _ _] =>
    assert (Hlen0 : (8 <= f)%nat) by (cbn [length]; lia); generalize f Hlen0; clear Hlen0 end.
  intros fuel0 Hlen. destruct fuel0 as [|[|fuel]]; try lia.
  fold (P keep ((span_empty m1, TStreamStart) :: dir_tokens m1 ls ++ doc_tokens (lines_end m1 ls) (33 :: t') h sfx)
          None [] SStreamStart []).
  erewrite parse_all_step; [|discriminate|apply pstep_stream_start].
  destruct (dir_tokens_run ls m1 HO) as [HR HD].
  set (md := lines_end m1 ls) in *.
  assert (Hfirst : exists t r, dir_tokens m1 ls ++ doc_tokens md (33 :: t') h sfx = t :: r /\
            match snd t with TTagDirective _ _ | TDocumentStart => True | _ => False end).
  { destruct ls as [|x ls']; [eexists; eexists; split; [reflexivity|exact Logic.I]|].
    eexists; eexists; split; [reflexivity|exact Logic.I]. }
  destruct Hfirst as [t0 [r0 [E0 Ht0]]].
  pose proof (explicit_document_start_full (P keep r0 (Some t0) [] SImplicitDocumentStart []) [] (dir_tokens m1 ls)
                (spn md (adv 3 md))
                [(mkspan (mk_tag md) (mk_tag_end md (33 :: t')), TTag h sfx);
                 (mkspan (mk_scalar md (33 :: t')) (mk_scalar_end md (33 :: t')), TScalar Plain [120]);
                 (span_empty (mk_end md (33 :: t')), TStreamEnd)]
                ltac:(cbn [stream P p_token p_toks]; rewrite <- E0; reflexivity) HR agree_nil) as HX.
  rewrite HD in HX. unfold lines_outcome. fold md. rewrite E0.
  destruct (decls (map dl_dir ls)) as [d|j|j] eqn:ED.
  - destruct HX as [tags' [HA EX]].
    erewrite parse_all_step; [|discriminate|exact (eq_trans (pstep_to_explicit keep t0 r0 Ht0) EX)].
    cbn [P p_states p_anchors p_anchor_id p_keep_tags].
    fold (P keep [(mkspan (mk_tag md) (mk_tag_end md (33 :: t')), TTag h sfx);
                  (mkspan (mk_scalar md (33 :: t')) (mk_scalar_end md (33 :: t')), TScalar Plain [120]);
                  (span_empty (mk_end md (33 :: t')), TStreamEnd)] None [SDocumentEnd] SDocumentContent tags').
    rewrite (parse_from_content keep fuel _ _ _ h sfx [120] tags' (merge [] d) _ HA HK ltac:(lia)).
    unfold merge. rewrite app_nil_r.
    cbn [sp_start mkspan rev app node_tags tag_of_event].
    destruct (tag_outcome (expand d h sfx) (mk_tag md)); reflexivity.
  - erewrite parse_all_err; [|discriminate|exact (eq_trans (pstep_to_explicit keep t0 r0 Ht0) HX)].
    cbn [rev app fst snd node_tags tag_of_event].
    assert (Hj : (j < length ls)%nat).
    { pose proof (decls_from_bound (map dl_dir ls) 0 false [] j (or_introl ED)) as HB. rewrite map_length in HB. lia. }
    rewrite (mark_of_dir_tokens ls m1 j Hj). reflexivity.
  - erewrite parse_all_err; [|discriminate|exact (eq_trans (pstep_to_explicit keep t0 r0 Ht0) HX)].
    cbn [rev app fst snd node_tags tag_of_event].
    assert (Hj : (j < length ls)%nat).
    { pose proof (decls_from_bound (map dl_dir ls) 0 false [] j (or_intror ED)) as HB. rewrite map_length in HB. lia. }
    rewrite (mark_of_dir_tokens ls m1 j Hj). reflexivity.
Qed.

(* ========================================================================================== *)
(* 4. In the words of the specification, with the marks as numbers                               *)
(* ========================================================================================== *)
Lemma lines_end_arith : forall ls i ln, Forall dline_ok ls ->
  lines_end {| m_index := i; m_line := ln; m_col := 0 |} ls
  = {| m_index := i + N.of_nat (length (lines_text ls)); m_line := ln + N.of_nat (length ls); m_col := 0 |}.
Proof.
  induction ls as [|x ls IH]; intros i ln HO.
  - cbn [lines_end lines_text map concat length]. f_equal; lia.
  - inversion HO as [|? ? Hx HO']; subst. cbn [lines_end]. unfold nlm, line_end, adv. cbn [m_index m_line m_col].
    rewrite IH by exact HO'. unfold lines_text. cbn [map concat length]. rewrite app_length.
    pose proof (tag_directive_text_length _ _ _ Hx). f_equal; lia.
Qed.

(* where the j-th line starts, and where the tag of the document line starts *)
Definition line_start (lines : list (list N)) (j : nat) : marker :=
  {| m_index := N.of_nat (length (concat (firstn j lines))); m_line := 1 + N.of_nat j; m_col := 0 |}.
Definition tag_mark_lines (lines : list (list N)) : marker :=
  {| m_index := N.of_nat (length (concat lines)) + 4; m_line := 1 + N.of_nat (length lines); m_col := 4 |}.

Lemma lines_of_spec : forall lines ds, Forall2 directive_line_text lines ds ->
  exists ls, map dl_text ls = lines /\ map dl_dir ls = ds /\ Forall dline_ok ls.
Proof.
  intros lines ds H. induction H as [|line d lines ds Hd H IH]; [exists []; split; [reflexivity|]; split; [reflexivity|constructor]|].
  destruct IH as [ls [E1 [E2 HO]]]. inversion Hd as [line0 dh p HT]; subst.
  exists ((line, dh, p) :: ls). split; [reflexivity|]. split; [reflexivity|]. constructor; [exact HT|exact HO].
Qed.

Lemma in_firstn : forall {A} (l : list A) j x, In x (firstn j l) -> In x l.
Proof.
  induction l as [|a l IH]; intros j x H; destruct j; cbn [firstn] in H; try contradiction.
  destruct H as [->|H]; [left; reflexivity|right; eapply IH; exact H].
Qed.

Lemma firstn_all_le : forall {A} (l : list A) j, (j <= length l)%nat -> length (firstn j l) = j.
Proof. intros A l j H. rewrite firstn_length. lia. Qed.

(* THE theorem for any number of %TAG lines *)
Theorem text_directives_document : forall keep lines ds ttext h sfx,
  Forall2 directive_line_text lines ds -> tag_text ttext h sfx ->
  tags_of_run keep (concat lines ++ doc_line ttext)
  = match decls ds with
    | Declared d => tag_outcome (expand d h sfx) (tag_mark_lines lines)
    | DuplicateHandle j => ([], PParseErr 21 (line_start lines j))
    | DuplicateYaml j => ([], PParseErr 2 (line_start lines j))
    end.
Proof.
  intros keep lines ds ttext h sfx HL HT.
  destruct (lines_of_spec lines ds HL) as [ls [E1 [E2 HO]]]. subst lines ds.
  change (concat (map dl_text ls)) with (lines_text ls).
  rewrite (tags_of_lines_doc keep ls ttext h sfx HO (tag_text_spelling _ _ _ HT)). unfold lines_outcome.
  assert (HF : forall j, (j <= length ls)%nat -> lines_end m1 (firstn j ls) = line_start (map dl_text ls) j).
  { intros j Hj. unfold m1. rewrite lines_end_arith.
    - unfold line_start, lines_text. rewrite firstn_map, N.add_0_l, firstn_all_le by exact Hj. reflexivity.
    - apply Forall_forall. intros x Hx. rewrite Forall_forall in HO. apply HO. eapply in_firstn; exact Hx. }
  destruct (decls (map dl_dir ls)) as [d|j|j] eqn:ED.
  - f_equal. unfold mk_tag, m1. rewrite lines_end_arith by exact HO. unfold tag_mark_lines, adv. cbn [m_index m_line m_col].
    unfold lines_text. rewrite map_length. f_equal; lia.
  - assert (Hj : (j < length ls)%nat).
    { pose proof (decls_from_bound (map dl_dir ls) 0 false [] j (or_introl ED)) as HB. rewrite map_length in HB. lia. }
    rewrite HF by lia. reflexivity.
  - assert (Hj : (j < length ls)%nat).
    { pose proof (decls_from_bound (map dl_dir ls) 0 false [] j (or_intror ED)) as HB. rewrite map_length in HB. lia. }
    rewrite HF by lia. reflexivity.
Qed.

(* two corollaries in plain words *)
(* (1) ALL lines are in force together: whichever line declares the handle of the tag, its prefix is used *)
Theorem text_any_line_resolves : forall keep lines ds name p suffix t d,
  Forall2 directive_line_text lines ds -> decls ds = Declared d -> declared_prefix (named_handle name) ds = Some p ->
  tag_text (named_text name suffix) (named_handle name) t ->
  tags_of_run keep (concat lines ++ doc_line (named_text name suffix)) = ([Some (p, t)], PDone).
Proof.
  intros keep lines ds name p suffix t d HL HD HP HT.
  rewrite (text_directives_document keep lines ds _ _ t HL HT), HD.
  pose proof (decls_table ds d HD (named_handle name)) as HLk. rewrite HP in HLk.
  assert (HE : expand d (named_handle name) t = Some (p, t)).
  { unfold expand. unfold named_handle in *. cbn [kind_of].
    destruct (name ++ [33]) as [|b r] eqn:E; [destruct name; discriminate|].
    assert (HB : last (b :: r) 0 = 33) by (rewrite <- E; apply last_app1).
    unfold bang. cbn [N.eqb Pos.eqb andb]. rewrite HB. cbn [N.eqb Pos.eqb].
    destruct r; cbn [or_default]; rewrite HLk; reflexivity. }
  rewrite HE. reflexivity.
Qed.

(* (2) a handle declared twice is an error at the second declaration *)
Theorem text_duplicate_handle : forall keep lines ds ttext h sfx j,
  Forall2 directive_line_text lines ds -> decls ds = DuplicateHandle j -> tag_text ttext h sfx ->
  tags_of_run keep (concat lines ++ doc_line ttext) = ([], PParseErr 21 (line_start lines j)).
Proof.
  intros keep lines ds ttext h sfx j HL HD HT. rewrite (text_directives_document keep lines ds _ _ _ HL HT), HD. reflexivity.
Qed.
