(* C01, bounded work (see SCANFUEL.md): the token-level skeleton (fetch_*, fetch_next_token, fetch_more_tokens,
   next_token) over the string input never runs out of fuel, and the number of tokens it produces is linear in the
   number of characters it consumes.
   Potential [phi s] = tokens already handed out + tokens queued + indent records that still owe a BlockEnd.
   One call of fetch_next_token is (a) the stream-start step (phi + 1), or (b) consumes at least one character and
   raises phi by at most 5 (fetch_value: Key, FlowMappingStart, BlockMappingStart + the BlockEnd it owes, Value), or
   (c) is fetch_stream_end (phi + 1), after which no simple key is possible and the queue ends with StreamEnd
   ([Done]), so fetch_more_tokens never fetches again.
   The character-level scanners enter through their fuel contracts (ScanFuel.v) and their frame lemmas
   (ScanFuelFrame.v), both Section hypotheses here. *)
From Coq Require Import List NArith ZArith Bool Arith Lia.
Import ListNotations.
Require Import Parser SBase SPrim SDir SScalar SFetch ScanFuel ScanFuelFrameDef.
Local Open Scope nat_scope.

Arguments Nat.ltb : simpl never.
Arguments Nat.leb : simpl never.
Arguments Nat.eqb : simpl never.
Arguments Nat.sub : simpl never.
Arguments Nat.max : simpl never.

Ltac sproj :=
  cbn [sc_in sc_mark sc_tokens sc_stream_start sc_stream_end sc_adjacent sc_ska sc_sks sc_indent sc_indents
       sc_flow_level sc_tokens_parsed sc_token_available sc_lws sc_ifms
       set_in set_mark set_tokens set_flags set_ska set_lws set_adj set_ta set_ss set_se
       set_struct set_sks set_indent set_fl set_tp set_ifms upd].
Ltac sproj_in H :=
  cbn [sc_in sc_mark sc_tokens sc_stream_start sc_stream_end sc_adjacent sc_ska sc_sks sc_indent sc_indents
       sc_flow_level sc_tokens_parsed sc_token_available sc_lws sc_ifms
       set_in set_mark set_tokens set_flags set_ska set_lws set_adj set_ta set_ss set_se
       set_struct set_sks set_indent set_fl set_tp set_ifms upd] in H.

(* ---------------- the potential ---------------- *)
(* what no fetch step changes: the stream-start flag (but for fetch_stream_start) and the number of tokens handed out *)
Definition ssb (s : fst_) : bool * N := (sc_stream_start s, sc_tokens_parsed s).
Definition sst (s : fst_) : bool := sc_stream_start s.
Definition tpn (s : fst_) : nat := N.to_nat (sc_tokens_parsed s).
Lemma ssb_eq (s s' : fst_) : ssb s' = ssb s -> sst s' = sst s /\ tpn s' = tpn s.
Proof. unfold ssb, sst, tpn. intros E. injection E as E1 E2. rewrite E1, E2. split; reflexivity. Qed.
Definition phi (s : fst_) : nat := tpn s + length (sc_tokens s) + npend (sc_indents s).

(* a skeleton step: the input is not touched, the stream-start flag is kept, the potential grows by at most k *)
Definition skel (k : nat) (s s' : fst_) : Prop :=
  sc_in s' = sc_in s /\ ssb s' = ssb s /\ phi s' <= phi s + k.

Lemma skel_refl s : skel 0 s s.
Proof. unfold skel. repeat split; lia. Qed.
Lemma skel_trans k1 k2 a b c : skel k1 a b -> skel k2 b c -> skel (k1 + k2) a c.
Proof. unfold skel. intros (A1 & A2 & A3) (B1 & B2 & B3). repeat split; [congruence|congruence|lia]. Qed.
Lemma skel_weaken k k' s s' : skel k s s' -> k <= k' -> skel k' s s'.
Proof. unfold skel. intros (A1 & A2 & A3) H. repeat split; [assumption|assumption|lia]. Qed.
Lemma skel_rl k s s' : skel k s s' -> rl s' = rl s.
Proof. intros (A & _). unfold rl, frem. rewrite A. reflexivity. Qed.
Lemma skel_lk k s s' : skel k s s' -> lk s' = lk s.
Proof. intros (A & _). unfold lk. rewrite A. reflexivity. Qed.
Lemma skel_fnth k s s' : skel k s s' -> forall i, fnth s' i = fnth s i.
Proof. intros (A & _) i. unfold fnth, frem. rewrite A. reflexivity. Qed.

Lemma fkeeps_phi (s s' : fst_) : fkeeps s s' -> phi s' = phi s /\ ssb s' = ssb s.
Proof.
  intros (A1 & A2 & A3 & A4 & A5 & A6 & A7 & A8). unfold phi, tpn, ssb. rewrite A1, A2, A3, A8. split; reflexivity.
Qed.
Lemma setin_phi i (s s' : fst_) : s' = set_in i s -> phi s' = phi s /\ ssb s' = ssb s.
Proof. intros ->. split; reflexivity. Qed.

Lemma fwp_frames {A} (m : FM A) (Q : A -> fst_ -> Prop) s :
  frames m -> fwp m Q s -> fwp m (fun a s' => Q a s' /\ fkeeps s s') s.
Proof.
  unfold fwp, frames. intros H. destruct (m s) as [[a s']| | |] eqn:E; auto. intros HQ. split; [exact HQ|eapply H; exact E].
Qed.
(* a callee contract together with its frame lemma *)
Lemma use_le {A} (m : FM A) (Q : A -> fst_ -> Prop) s :
  frames m -> fwp m (le_post s) s ->
  (forall a s', rl s' <= rl s -> lk s <= lk s' -> ssb s' = ssb s -> phi s' = phi s -> Q a s') -> fwp m Q s.
Proof.
  intros HF HW HQ. eapply fwp_mono; [apply fwp_frames; [exact HF|exact HW]|].
  intros a s' [[R L] K]. destruct (fkeeps_phi _ _ K) as [P S]. apply HQ; assumption.
Qed.
Lemma use_lt {A} (m : FM A) (Q : A -> fst_ -> Prop) s :
  frames m -> fwp m (lt_post s) s ->
  (forall a s', rl s' < rl s -> lk s <= lk s' -> ssb s' = ssb s -> phi s' = phi s -> Q a s') -> fwp m Q s.
Proof.
  intros HF HW HQ. eapply fwp_mono; [apply fwp_frames; [exact HF|exact HW]|].
  intros a s' [[R L] K]. destruct (fkeeps_phi _ _ K) as [P S]. apply HQ; assumption.
Qed.

(* ---------------- pure list facts ---------------- *)
Lemma insert_at_length {A} (x : A) : forall n l l', insert_at n x l = Some l' -> length l' = S (length l).
Proof.
  induction n as [|n IH]; intros l l' E; cbn [insert_at] in E.
  - injection E as <-. reflexivity.
  - destruct l as [|y r]; [discriminate E|]. destruct (insert_at n x r) as [r'|] eqn:E'; [|discriminate E].
    injection E as <-. cbn [length]. rewrite (IH _ _ E'). reflexivity.
Qed.

(* ---------------- skeleton steps as a combinator language ---------------- *)
Definition kstep (k : nat) (m : FM unit) : Prop :=
  forall s (Q : unit -> fst_ -> Prop), (forall s', skel k s s' -> Q tt s') -> fwp m Q s.

Lemma krun k m (Q : unit -> fst_ -> Prop) s : kstep k m -> (forall s', skel k s s' -> Q tt s') -> fwp m Q s.
Proof. intros H. apply H. Qed.
Lemma ks_weaken k k' m : kstep k m -> k <= k' -> kstep k' m.
Proof. intros H Hk s Q HQ. apply H. intros s' K. apply HQ. eapply skel_weaken; eauto. Qed.
Lemma ks_ret : kstep 0 (ret tt).
Proof. intros s Q HQ. apply fwp_ret, HQ, skel_refl. Qed.
Lemma ks_fail site mk : kstep 0 (fail site mk).
Proof. intros s Q HQ. apply fwp_fail. Qed.
Lemma ks_panic site : kstep 0 (panic site).
Proof. intros s Q HQ. apply fwp_panic. Qed.
Lemma ks_if (b : bool) k1 k2 m1 m2 : kstep k1 m1 -> kstep k2 m2 -> kstep (Nat.max k1 k2) (if b then m1 else m2).
Proof. intros H1 H2. destruct b; [eapply ks_weaken; [exact H1|lia]|eapply ks_weaken; [exact H2|lia]]. Qed.
Lemma ks_bind k1 k2 m1 m2 : kstep k1 m1 -> kstep k2 m2 -> kstep (k1 + k2) (bind m1 (fun _ => m2)).
Proof.
  intros H1 H2 s Q HQ. apply fwp_bind. apply H1. intros s1 K1. apply H2. intros s2 K2. apply HQ.
  eapply skel_trans; eauto.
Qed.
Lemma ks_get k f : (forall s0, kstep k (f s0)) -> kstep k (bind get f).
Proof. intros H s Q HQ. apply fwp_bind, fwp_get. apply H. exact HQ. Qed.
Lemma ks_mark k f : (forall m, kstep k (f m)) -> kstep k (bind mark f).
Proof. intros H s Q HQ. apply fwp_bind. unfold mark. apply fwp_gets. apply H. exact HQ. Qed.
Lemma ks_modify f : (forall s, skel 0 s (f s)) -> kstep 0 (modify f).
Proof. intros H s Q HQ. apply fwp_modify. apply HQ, H. Qed.

Ltac skel_triv :=
  cbv beta; repeat match goal with |- context [if ?b then _ else _] => destruct b end;
  repeat match goal with |- context [match sc_ifms ?s with _ => _ end] => destruct (sc_ifms s) as [|[| | |] ?] end;
  repeat match goal with |- context [match sc_sks ?s with _ => _ end] => destruct (sc_sks s) as [|? ?] end;
  unfold skel, ssb, phi, tpn; sproj; repeat split; try reflexivity; lia.

Lemma phi_push t (s : fst_) : phi (set_tokens (sc_tokens s ++ [t]) s) = phi s + 1.
Proof. unfold phi, tpn. sproj. rewrite app_length. cbn [length]. lia. Qed.

Lemma ks_push_tok t : kstep 1 (push_tok t).
Proof.
  intros s Q HQ. unfold push_tok. apply fwp_modify. apply HQ. unfold skel. rewrite phi_push. repeat split; lia.
Qed.
Lemma ks_insert_token pos t : kstep 1 (insert_token pos t).
Proof.
  intros s Q HQ. unfold fwp, insert_token. destruct (insert_at (N.to_nat pos) t (sc_tokens s)) as [l|] eqn:E; [|exact I].
  apply HQ. unfold skel, ssb, phi, tpn. sproj. rewrite (insert_at_length _ _ _ _ E). repeat split; lia.
Qed.
Lemma ks_allow : kstep 0 (allow_simple_key (I:=strin)).
Proof. unfold allow_simple_key. apply ks_modify. intros s. skel_triv. Qed.
Lemma ks_disallow : kstep 0 (disallow_simple_key (I:=strin)).
Proof. unfold disallow_simple_key. apply ks_modify. intros s. skel_triv. Qed.

(* roll_indent: at most one record that owes a BlockEnd and one token *)
Lemma ks_roll_indent col number tk mk : kstep 2 (roll_indent (I:=strin) col number tk mk).
Proof.
  intros s Q HQ. unfold roll_indent. apply fwp_bind, fwp_get.
  destruct (0 <? sc_flow_level s)%N; [apply fwp_ret, HQ; eapply skel_weaken; [apply skel_refl|lia]|].
  match goal with |- fwp (let '(_, _) := ?p in _) _ _ =>
    assert (HP : npend (snd p) = npend (sc_indents s));
    [|destruct p as [ind inds]; cbn [snd] in HP] end.
  { destruct (sc_indent s <=? Z.of_N col)%Z; [|reflexivity].
    destruct (sc_indents s) as [|i r]; [reflexivity|].
    destruct (in_needs_block_end i) eqn:EN; cbn [negb snd npend]; [reflexivity|]. rewrite EN. reflexivity. }
  destruct (ind <? Z.of_N col)%Z.
  - destruct (BLOCK_NESTING_MAX <=? N.of_nat (length inds))%N; [exact I|]. apply fwp_bind, fwp_put.
    assert (HS : forall u, skel 1 (set_indent (Z.of_N col) ({| in_indent := ind; in_needs_block_end := true |} :: inds) s) u ->
                           skel 2 s u).
    { intros u (A1 & A2 & A3). unfold skel, ssb, phi, tpn in *. sproj_in A1. sproj_in A2. sproj_in A3.
      cbn [npend in_needs_block_end] in A3. repeat split; [exact A1|exact A2|lia]. }
    destruct number as [n|].
    + destruct (n <? sc_tokens_parsed s)%N; [apply fwp_panic|]. apply ks_insert_token. intros u K. apply HQ, HS, K.
    + apply ks_push_tok. intros u K. apply HQ, HS, K.
  - apply fwp_put. apply HQ. unfold skel, ssb, phi, tpn. sproj. repeat split; lia.
Qed.

(* unroll_indent: its fuel is the depth of the indent stack + 1; every popped record that owes a BlockEnd pays it *)
Definition udet (s s' : fst_) : Prop :=
  sc_in s' = sc_in s /\ ssb s' = ssb s /\ sc_sks s' = sc_sks s /\ sc_tokens_parsed s' = sc_tokens_parsed s
  /\ length (sc_tokens s') + npend (sc_indents s') = length (sc_tokens s) + npend (sc_indents s).
Lemma udet_skel s s' : udet s s' -> skel 0 s s'.
Proof. intros (A1 & A2 & A3 & A4 & A5). unfold skel, phi, tpn. rewrite A4. repeat split; [assumption|assumption|lia]. Qed.

Lemma fw_unroll_indent_go col : forall fuel s (Q : unit -> fst_ -> Prop),
  length (sc_indents s) < fuel -> (forall s', udet s s' -> Q tt s') -> fwp (unroll_indent_go fuel col) Q s.
Proof.
  induction fuel as [|fuel IH]; intros s Q Hf HQ; [lia|]. cbn [unroll_indent_go].
  apply fwp_bind, fwp_get.
  destruct (col <? sc_indent s)%Z; [|apply fwp_ret, HQ; unfold udet; repeat split; reflexivity].
  destruct (sc_indents s) as [|i r] eqn:EI; [apply fwp_panic|].
  apply fwp_bind, fwp_put. apply fwp_bind.
  cbn [length] in Hf.
  destruct (in_needs_block_end i) eqn:EN.
  - unfold push_tok. apply fwp_modify. apply IH; [sproj; lia|].
    intros s' (A1 & A2 & A3 & A4 & A5). apply HQ. unfold udet, ssb in *.
    sproj_in A1. sproj_in A2. sproj_in A3. sproj_in A4. sproj_in A5. rewrite app_length in A5. cbn [length] in A5.
    rewrite EI. cbn [npend]. rewrite EN. repeat split; [assumption|assumption|assumption|assumption|lia].
  - apply fwp_ret. apply IH; [sproj; lia|].
    intros s' (A1 & A2 & A3 & A4 & A5). apply HQ. unfold udet, ssb in *.
    sproj_in A1. sproj_in A2. sproj_in A3. sproj_in A4. sproj_in A5.
    rewrite EI. cbn [npend]. rewrite EN. repeat split; [assumption|assumption|assumption|assumption|lia].
Qed.
Lemma fw_unroll_indent col (Q : unit -> fst_ -> Prop) s :
  (forall s', udet s s' -> Q tt s') -> fwp (unroll_indent col) Q s.
Proof.
  intros HQ. unfold unroll_indent. apply fwp_bind, fwp_get.
  destruct (0 <? sc_flow_level s)%N; [apply fwp_ret, HQ; unfold udet; repeat split; reflexivity|].
  apply fw_unroll_indent_go; [lia|exact HQ].
Qed.
Lemma ks_unroll_indent col : kstep 0 (unroll_indent (I:=strin) col).
Proof. intros s Q HQ. apply fw_unroll_indent. intros s' U. apply HQ, udet_skel, U. Qed.

Lemma ks_roll_one : kstep 0 (roll_one_col_indent (I:=strin)).
Proof.
  intros s Q HQ. unfold roll_one_col_indent. apply fwp_bind, fwp_get.
  destruct (_ && _); [|apply fwp_ret, HQ, skel_refl].
  apply fwp_put, HQ. unfold skel, ssb, phi, tpn. sproj. cbn [npend in_needs_block_end]. repeat split; lia.
Qed.

(* simple keys *)
Lemma ks_save : kstep 0 (save_simple_key (I:=strin)).
Proof.
  intros s Q HQ. unfold save_simple_key. apply fwp_bind, fwp_get.
  destruct (sc_ska s); [|apply fwp_ret, HQ, skel_refl].
  apply fwp_bind. apply fwp_mono with (Q := fun (_ : bool) s' => s' = s).
  - destruct (_ && _); [|apply fwp_ret; reflexivity]. destruct (sc_indents s); [apply fwp_panic|apply fwp_ret; reflexivity].
  - intros rq s' ->. apply fwp_put, HQ. skel_triv.
Qed.
Lemma ks_remove : kstep 0 (remove_simple_key (I:=strin)).
Proof.
  intros s Q HQ. unfold remove_simple_key. apply fwp_bind, fwp_get.
  destruct (sc_sks s) as [|k r]; [apply fwp_panic|].
  destruct (_ && _); [apply fwp_fail|]. apply fwp_put, HQ. skel_triv.
Qed.
Lemma ks_stale : kstep 0 (stale_simple_keys (I:=strin)).
Proof.
  intros s Q HQ. unfold stale_simple_keys. apply fwp_bind, fwp_get.
  destruct (existsb _ _); [apply fwp_fail|]. apply fwp_put, HQ. unfold skel, ssb, phi, tpn; sproj; repeat split; lia.
Qed.
Lemma ks_eim mk : kstep 1 (end_implicit_mapping (I:=strin) mk).
Proof.
  intros s Q HQ. unfold end_implicit_mapping. apply fwp_bind, fwp_get.
  destruct (sc_ifms s) as [|[| | |] r]; try (apply fwp_ret, HQ; eapply skel_weaken; [apply skel_refl|lia]).
  - apply fwp_bind, fwp_put. apply ks_push_tok. intros s' (A1 & A2 & A3). apply HQ.
    unfold skel, ssb, phi, tpn in *. sproj_in A1. sproj_in A2. sproj_in A3. repeat split; [assumption|assumption|lia].
  - apply fwp_put, HQ. unfold skel, ssb, phi, tpn; sproj; repeat split; lia.
Qed.
Lemma ks_incr : kstep 0 (increase_flow_level (I:=strin)).
Proof.
  intros s Q HQ. unfold increase_flow_level. apply fwp_bind, fwp_get.
  destruct (sc_flow_level s =? FLOW_LEVEL_MAX)%N; [exact I|]. apply fwp_put, HQ. unfold skel, ssb, phi, tpn; sproj; repeat split; lia.
Qed.
Lemma ks_check_closer seq : kstep 0 (check_flow_closer (I:=strin) seq).
Proof.
  intros s Q HQ. unfold check_flow_closer. apply fwp_bind, fwp_get.
  destruct (sc_ifms s) as [|st r]; [apply fwp_ret, HQ, skel_refl|]. cbv zeta.
  destruct (Bool.eqb _ _); [apply fwp_ret, HQ, skel_refl|apply fwp_fail].
Qed.
Lemma ks_decr : kstep 0 (decrease_flow_level (I:=strin)).
Proof.
  intros s Q HQ. unfold decrease_flow_level. apply fwp_bind, fwp_get.
  destruct (0 <? sc_flow_level s)%N; [|apply fwp_ret, HQ, skel_refl].
  destruct (sc_sks s) as [|k r]; [apply fwp_panic|]. apply fwp_put, HQ. unfold skel, ssb, phi, tpn; sproj; repeat split; lia.
Qed.

Ltac ks_one :=
  cbv beta;
  lazymatch goal with
  | |- kstep _ (ret tt) => apply ks_ret
  | |- kstep _ (fail _ _) => apply ks_fail
  | |- kstep _ (panic _) => apply ks_panic
  | |- kstep _ (if _ then _ else _) => apply ks_if
  | |- kstep _ (bind get _) => apply ks_get; intros ?
  | |- kstep _ (bind mark _) => apply ks_mark; intros ?
  | |- kstep _ (bind _ _) => apply ks_bind
  | |- kstep _ (push_tok _) => apply ks_push_tok
  | |- kstep _ (insert_token _ _) => apply ks_insert_token
  | |- kstep _ allow_simple_key => apply ks_allow
  | |- kstep _ disallow_simple_key => apply ks_disallow
  | |- kstep _ roll_one_col_indent => apply ks_roll_one
  | |- kstep _ save_simple_key => apply ks_save
  | |- kstep _ remove_simple_key => apply ks_remove
  | |- kstep _ stale_simple_keys => apply ks_stale
  | |- kstep _ (end_implicit_mapping _) => apply ks_eim
  | |- kstep _ (check_flow_closer _) => apply ks_check_closer
  | |- kstep _ increase_flow_level => apply ks_incr
  | |- kstep _ decrease_flow_level => apply ks_decr
  | |- kstep _ (roll_indent _ _ _ _) => apply ks_roll_indent
  | |- kstep _ (unroll_indent _) => apply ks_unroll_indent
  | |- kstep _ (modify _) => apply ks_modify; intros ?; skel_triv
  end.
Ltac ks_auto := repeat ks_one.

(* one skeleton step of a sequence; leaves the facts about the new state in the context *)
Ltac sks :=
  apply fwp_bind; cbv beta;
  (eapply krun; [solve [ks_auto] | ]);
  let s' := fresh "s" in let K := fresh "K" in
  let R := fresh "R" in let L := fresh "L" in let N0 := fresh "E" in let S := fresh "S" in let P := fresh "P" in
  intros s' K; cbv beta;
  pose proof (skel_rl _ _ _ K) as R; pose proof (skel_lk _ _ _ K) as L; pose proof (skel_fnth _ _ _ K 0) as N0;
  destruct K as (_ & S & P).
Ltac wb := apply fwp_bind; cbv beta.
Ltac wget := apply fwp_bind, fwp_get; cbv beta.
Ltac wmark := apply fwp_bind; unfold mark at 1; apply fwp_gets; cbv beta.
Ltac wpeek := apply fwp_bind, fwp_peek; cbv beta.
Ltac wpeekn := apply fwp_bind, fwp_peekn; cbv beta.
Ltac dif := match goal with |- fwp (if ?b then _ else _) _ _ => destruct b end.
Ltac fok := unfold fuel_ok in *; lia.

(* ---------------- input steps ---------------- *)
Lemma fw_look n (Q : unit -> fst_ -> Prop) s :
  (forall s', rl s' = rl s -> lk s' = Nat.max (lk s) n -> (forall i, fnth s' i = fnth s i) -> ssb s' = ssb s -> phi s' = phi s -> Q tt s') ->
  fwp (look str_ops n) Q s.
Proof.
  intros HQ. apply fwp_look. intros s' A B C. destruct (setin_phi _ _ _ C) as [P S].
  apply HQ; [unfold rl; rewrite A; reflexivity|exact B|intros i; unfold fnth; rewrite A; reflexivity|exact S|exact P].
Qed.
Lemma fw_skip_non_blank (Q : unit -> fst_ -> Prop) s :
  (forall s', frem s' = tl (frem s) -> lk s' = lk s -> ssb s' = ssb s -> phi s' = phi s -> Q tt s') ->
  fwp (skip_non_blank str_ops) Q s.
Proof.
  intros HQ. unfold skip_non_blank. apply fwp_bind, fwp_in_skip. intros s1 A B C. destruct (setin_phi _ _ _ C) as [P S].
  apply fwp_bind. unfold adv_mark. apply fwp_modify. apply fwp_modify. apply HQ; assumption.
Qed.
Lemma fw_skip_n_non_blank n (Q : unit -> fst_ -> Prop) s :
  (forall s', frem s' = skipn n (frem s) -> lk s' = lk s -> ssb s' = ssb s -> phi s' = phi s -> Q tt s') ->
  fwp (skip_n_non_blank str_ops n) Q s.
Proof.
  intros HQ. unfold skip_n_non_blank. apply fwp_bind, fwp_in_skip_n. intros s1 A B C. destruct (setin_phi _ _ _ C) as [P S].
  apply fwp_bind. unfold adv_mark. apply fwp_modify. apply fwp_modify. apply HQ; assumption.
Qed.
(* consuming a character that is there *)
Lemma tl_rl_lt s s' : frem s' = tl (frem s) -> fnth s 0 <> 0%N -> rl s' < rl s.
Proof. intros A NZ. pose proof (fnth0_nonzero_rl s NZ). rewrite (rl_tl s s' A); lia. Qed.
Lemma skipn_rl_lt n s s' : frem s' = skipn (S n) (frem s) -> fnth s 0 <> 0%N -> rl s' < rl s.
Proof.
  intros A NZ. pose proof (fnth0_nonzero_rl s NZ) as H. unfold rl in *. rewrite A, skipn_length. lia.
Qed.
Lemma fw_look_ch (Q : chr -> fst_ -> Prop) s :
  (forall s', rl s' = rl s -> lk s' = Nat.max (lk s) 1 -> (forall i, fnth s' i = fnth s i) -> ssb s' = ssb s -> phi s' = phi s -> Q (fnth s' 0) s') ->
  fwp (look_ch str_ops) Q s.
Proof.
  intros HQ. unfold look_ch. apply fwp_bind. apply fw_look. intros s' A B C S P. apply fwp_peek. apply HQ; assumption.
Qed.

(* ---------------- fetch_* ---------------- *)
Section FuelFetch.
Hypothesis H_stnt : fuel_skip_to_next_token.
Hypothesis H_ws : fuel_skip_ws_to_eol.
Hypothesis H_yw : fuel_skip_yaml_whitespace.
Hypothesis H_dir : fuel_scan_directive.
Hypothesis H_tag : fuel_scan_tag.
Hypothesis H_anchor : fuel_scan_anchor.
Hypothesis H_flow : fuel_scan_flow_scalar.
Hypothesis H_plain : fuel_scan_plain_scalar.
Hypothesis H_block : fuel_scan_block_scalar.
Hypothesis Fr_stnt : forall F, frames (skip_to_next_token str_ops F).
Hypothesis Fr_ws : forall F stb, frames (skip_ws_to_eol str_ops F stb).
Hypothesis Fr_yw : forall F, frames (skip_yaml_whitespace str_ops F).
Hypothesis Fr_dir : forall F, frames (scan_directive str_ops F).
Hypothesis Fr_tag : forall F, frames (scan_tag str_ops F).
Hypothesis Fr_anchor : forall F alias, frames (scan_anchor str_ops F alias).
Hypothesis Fr_flow : forall F single, frames (scan_flow_scalar str_ops F single).
Hypothesis Fr_plain : forall F, frames (scan_plain_scalar str_ops F).
Hypothesis Fr_block : forall F literal, frames (scan_block_scalar str_ops F literal).

(* a fetch_* that consumes: at least one character is gone, the potential grew by at most 5 *)
Definition cpost (s : fst_) : unit -> fst_ -> Prop :=
  fun _ s' => rl s' < rl s /\ ssb s' = ssb s /\ phi s' <= phi s + 5.

Lemma fin_push t s0 s : rl s < rl s0 -> ssb s = ssb s0 -> phi s + 1 <= phi s0 + 5 -> fwp (push_tok t) (cpost s0) s.
Proof using.
  intros A B C. unfold push_tok. apply fwp_modify. unfold cpost. rewrite phi_push. repeat split; [exact A|exact B|lia].
Qed.
Ltac fin := cbv beta; apply fin_push; [lia|congruence|lia].
Ltac nz := congruence.

Lemma fw_fetch_directive F s :
  fuel_ok F s -> fnth s 0 <> 0%N -> 1 <= lk s -> fwp (fetch_directive str_ops F) (cpost s) s.
Proof using H_dir Fr_dir.
  intros FO NZ LK. unfold fetch_directive. sks. sks. sks.
  wb. eapply use_lt; [apply Fr_dir|apply H_dir; [fok|nz]|]. intros t s3 R3 L3 S3 P3. fin.
Qed.

Lemma fw_fetch_tag F s :
  fuel_ok F s -> fnth s 0 <> 0%N -> 1 <= lk s -> fwp (fetch_tag str_ops F) (cpost s) s.
Proof using H_tag Fr_tag.
  intros FO NZ LK. unfold fetch_tag. sks. sks.
  wb. eapply use_lt; [apply Fr_tag|apply H_tag; [fok|nz]|]. intros t s3 R3 L3 S3 P3. fin.
Qed.

Lemma fw_fetch_anchor F alias s :
  fuel_ok F s -> fnth s 0 <> 0%N -> 1 <= lk s -> fwp (fetch_anchor str_ops F alias) (cpost s) s.
Proof using H_anchor Fr_anchor.
  intros FO NZ LK. unfold fetch_anchor. sks. sks.
  wb. eapply use_lt; [apply Fr_anchor|apply H_anchor; [fok|nz]|]. intros t s3 R3 L3 S3 P3. fin.
Qed.

Lemma fw_fetch_block_scalar F literal s :
  fuel_ok F s -> fnth s 0 <> 0%N -> 1 <= lk s -> fwp (fetch_block_scalar str_ops F literal) (cpost s) s.
Proof using H_block Fr_block.
  intros FO NZ LK. unfold fetch_block_scalar. sks. sks.
  wb. eapply use_lt; [apply Fr_block|apply H_block; [fok|nz|lia]|]. intros t s3 R3 L3 S3 P3. fin.
Qed.

Lemma fw_fetch_plain_scalar F s :
  fuel_ok F s -> fnth s 0 <> 0%N -> 1 <= lk s -> fwp (fetch_plain_scalar str_ops F) (cpost s) s.
Proof using H_plain Fr_plain.
  intros FO NZ LK. unfold fetch_plain_scalar. sks. sks.
  wb. eapply use_lt; [apply Fr_plain|apply H_plain; [fok|lia]|]. intros t s3 R3 L3 S3 P3. fin.
Qed.

Lemma fw_fetch_flow_scalar F single s :
  fuel_ok F s -> fnth s 0 <> 0%N -> 1 <= lk s -> fwp (fetch_flow_scalar str_ops F single) (cpost s) s.
Proof using H_flow Fr_flow H_stnt Fr_stnt.
  intros FO NZ LK. unfold fetch_flow_scalar. sks. sks.
  wb. eapply use_lt; [apply Fr_flow|apply H_flow; [fok|nz]|]. intros t s3 R3 L3 S3 P3. cbv beta.
  wb. eapply use_le; [apply Fr_stnt|apply H_stnt; fok|]. intros u s4 R4 L4 S4 P4. cbv beta.
  sks. fin.
Qed.

Lemma fw_fetch_flow_collection_start F seq s :
  fuel_ok F s -> fnth s 0 <> 0%N -> 1 <= lk s -> fwp (fetch_flow_collection_start str_ops F seq) (cpost s) s.
Proof using H_ws Fr_ws.
  intros FO NZ LK. unfold fetch_flow_collection_start. sks. sks. sks. sks. wmark.
  wb. apply fw_skip_non_blank. intros s5 A5 L5 S5 P5. pose proof (tl_rl_lt _ _ A5 ltac:(nz)) as R5. cbv beta.
  sks.
  wb. eapply use_le; [apply Fr_ws|apply H_ws; fok|]. intros tw s7 R7 L7 S7 P7. cbv beta.
  wmark. fin.
Qed.

Lemma fw_fetch_flow_collection_end F seq s :
  fuel_ok F s -> fnth s 0 <> 0%N -> 1 <= lk s -> fwp (fetch_flow_collection_end str_ops F seq) (cpost s) s.
Proof using H_ws Fr_ws.
  intros FO NZ LK. unfold fetch_flow_collection_end. sks. sks. sks. sks. sks. sks. wmark.
  wb. apply fw_skip_non_blank. intros s6 A6 L6 S6 P6. pose proof (tl_rl_lt _ _ A6 ltac:(nz)) as R6. cbv beta.
  wb. eapply use_le; [apply Fr_ws|apply H_ws; fok|]. intros tw s7 R7 L7 S7 P7. cbv beta.
  sks. wmark. fin.
Qed.

Lemma fw_fetch_flow_entry F s :
  fuel_ok F s -> fnth s 0 <> 0%N -> 1 <= lk s -> fwp (fetch_flow_entry str_ops F) (cpost s) s.
Proof using H_ws Fr_ws.
  intros FO NZ LK. unfold fetch_flow_entry. sks. sks. wmark. sks.
  wb. apply fw_skip_non_blank. intros s4 A4 L4 S4 P4. pose proof (tl_rl_lt _ _ A4 ltac:(nz)) as R4. cbv beta.
  wb. eapply use_le; [apply Fr_ws|apply H_ws; fok|]. intros tw s5 R5 L5 S5 P5. cbv beta.
  wmark. fin.
Qed.

Lemma fw_fetch_document_indicator t s (Q : unit -> fst_ -> Prop) :
  fnth s 0 <> 0%N -> (forall s', rl s' < rl s -> lk s <= lk s' -> ssb s' = ssb s -> phi s' <= phi s + 1 -> Q tt s') ->
  fwp (fetch_document_indicator str_ops t) Q s.
Proof using.
  intros NZ HQ. unfold fetch_document_indicator. sks. sks. sks. wmark.
  wb. apply fw_skip_n_non_blank. intros s4 A4 L4 S4 P4. pose proof (skipn_rl_lt _ _ _ A4 ltac:(nz)) as R4. cbv beta.
  wmark. unfold push_tok. apply fwp_modify. apply HQ; [change (rl s4 < rl s); lia|change (lk s <= lk s4); lia|change (ssb s4 = ssb s); congruence|rewrite phi_push; lia].
Qed.

Lemma fw_fetch_block_entry F s :
  fuel_ok F s -> fnth s 0 <> 0%N -> 1 <= lk s -> fwp (fetch_block_entry str_ops F) (cpost s) s.
Proof using H_ws Fr_ws.
  intros FO NZ LK. unfold fetch_block_entry. wget.
  dif; [apply fwp_fail|]. dif; [apply fwp_fail|].
  wb. apply fwp_mono with (Q := fun _ s' => s' = s).
  { destruct (last (sc_tokens s) (span_empty mk0, TStreamEnd)) as [sp tk].
    destruct tk; try (apply fwp_ret; reflexivity); (dif; [apply fwp_fail|apply fwp_ret; reflexivity]). }
  intros _ s' ->. cbv beta zeta.
  wb. apply fw_skip_non_blank. intros s1 A1 L1 S1 P1. pose proof (tl_rl_lt _ _ A1 NZ) as R1. cbv beta.
  sks.
  wb. eapply use_le; [apply Fr_ws|apply H_ws; fok|]. intros tw s3 R3 L3 S3 P3. cbv beta.
  wb. apply fw_look. intros s4 R4 L4 E4 S4 P4. cbv beta.
  wpeek. wpeekn. dif; [wmark; apply fwp_fail|].
  wb. eapply use_le; [apply Fr_ws|apply H_ws; fok|]. intros tw5 s5 R5 L5 S5 P5. cbv beta.
  wb. apply fw_look. intros s6 R6 L6 E6 S6 P6. cbv beta.
  wpeek. sks. sks. sks. wmark. fin.
Qed.

Lemma fw_fetch_key F s :
  fuel_ok F s -> fnth s 0 <> 0%N -> 1 <= lk s -> fwp (fetch_key str_ops F) (cpost s) s.
Proof using H_yw Fr_yw.
  intros FO NZ LK. unfold fetch_key. wget. cbv zeta. sks. sks. sks.
  wb. apply fw_skip_non_blank. intros s4 A4 L4 S4 P4. pose proof (tl_rl_lt _ _ A4 ltac:(nz)) as R4. cbv beta.
  wb. eapply use_le; [apply Fr_yw|apply H_yw; fok|]. intros u s5 R5 L5 S5 P5. cbv beta.
  wpeek. dif; [wmark; apply fwp_fail|]. wmark. fin.
Qed.

Lemma fw_fetch_value F s :
  fuel_ok F s -> fnth s 0 <> 0%N -> 1 <= lk s -> fwp (fetch_value str_ops F) (cpost s) s.
Proof using H_ws Fr_ws.
  intros FO NZ LK. unfold fetch_value. wget.
  destruct (sc_sks s) as [|sk r0]; [wb; apply fwp_panic|]. wb. apply fwp_ret. cbv beta zeta.
  match goal with |- context [if ?a then modify _ else ret tt] => generalize a; intros ifm end.
  sks.
  wb. apply fw_skip_non_blank. intros s2 A2 L2 S2 P2. pose proof (tl_rl_lt _ _ A2 ltac:(nz)) as R2. cbv beta.
  wb. apply fwp_mono with (Q := fun _ s3 => rl s3 = rl s2 /\ ssb s3 = ssb s2 /\ phi s3 = phi s2).
  { dif; [|apply fwp_ret; repeat split; reflexivity].
    apply fw_look_ch. intros s3 R3 L3 E3 S3 P3. repeat split; assumption. }
  intros c s3 (R3 & S3 & P3). cbv beta.
  wb. apply fwp_mono with (Q := fun _ s' => rl s' <= rl s3 /\ ssb s' = ssb s3 /\ phi s' = phi s3).
  { dif; [|apply fwp_ret; repeat split; lia].
    wb. eapply use_le; [apply Fr_ws|apply H_ws; fok|]. intros tw s4 R4 L4 S4 P4. cbv beta.
    dif; [|apply fwp_ret; repeat split; [lia|assumption|assumption]].
    wpeek. dif; [wmark; apply fwp_fail|apply fwp_ret; repeat split; [lia|assumption|assumption]]. }
  intros _ s4 (R4 & S4 & P4). cbv beta.
  destruct (sk_possible sk).
  - wget. sks. sks. sks. sks. sks. sks. sks. fin.
  - sks. wget. sks. sks. sks. fin.
Qed.

Lemma fw_fetch_flow_value F s :
  fuel_ok F s -> fnth s 0 <> 0%N -> 1 <= lk s -> fwp (fetch_flow_value str_ops F) (cpost s) s.
Proof using H_ws Fr_ws.
  intros FO NZ LK. unfold fetch_flow_value. wpeekn. wget. dif; [apply fwp_fail|]. apply fw_fetch_value; assumption.
Qed.

(* ---------------- stream start / stream end ---------------- *)
Lemma fw_fetch_stream_start s (Q : unit -> fst_ -> Prop) :
  (forall s', sc_in s' = sc_in s -> sst s' = true -> tpn s' = tpn s -> phi s' = phi s + 1 -> Q tt s') -> fwp fetch_stream_start Q s.
Proof using.
  intros HQ. unfold fetch_stream_start. wget. apply fwp_put. apply HQ; [reflexivity|reflexivity|reflexivity|].
  unfold phi, tpn. sproj. rewrite app_length. cbn [length]. lia.
Qed.

(* after fetch_stream_end: no simple key is possible and the queue ends with StreamEnd *)
Definition clear_keys (l : list simple_key) : Prop := Forall (fun k => sk_possible k = false) l.
Definition Done (s : fst_) : Prop :=
  clear_keys (sc_sks s) /\ exists l sp, sc_tokens s = l ++ [(sp, TStreamEnd)].

Lemma fw_fetch_stream_end s (Q : unit -> fst_ -> Prop) :
  (forall s', sc_in s' = sc_in s -> ssb s' = ssb s -> phi s' <= phi s + 1 -> Done s' -> Q tt s') -> fwp fetch_stream_end Q s.
Proof using.
  intros HQ. unfold fetch_stream_end. apply fwp_bind, fwp_modify.
  match goal with |- fwp _ _ ?x => set (s1 := x) end.
  assert (K1 : skel 0 s s1) by (subst s1; destruct (m_col (sc_mark s) =? 0)%N; [apply skel_refl|unfold skel, ssb, phi, tpn; sproj; repeat split; try reflexivity; lia]).
  clearbody s1. wget.
  destruct (existsb _ _); [apply fwp_fail|].
  apply fwp_bind, fwp_put.
  match goal with |- fwp _ _ ?x => set (s2 := x) end.
  assert (K2 : skel 0 s1 s2) by (subst s2; unfold skel, ssb, phi, tpn; sproj; repeat split; try reflexivity; lia).
  assert (C2 : clear_keys (sc_sks s2)).
  { subst s2; sproj. apply Forall_forall. intros k Hk. apply in_map_iff in Hk. destruct Hk as [k0 [<- _]]. reflexivity. }
  clearbody s2. cbv beta.
  wb. apply fw_unroll_indent. intros s3 U3. pose proof (udet_skel _ _ U3) as K3.
  destruct U3 as (_ & _ & U3 & _). cbv beta.
  wb. unfold remove_simple_key. wget.
  destruct (sc_sks s3) as [|k r] eqn:EK; [apply fwp_panic|].
  destruct (_ && _); [apply fwp_fail|]. apply fwp_put.
  match goal with |- fwp _ _ ?x => set (s4 := x) end.
  assert (K4 : skel 0 s3 s4) by (subst s4; unfold skel, ssb, phi, tpn; sproj; repeat split; try reflexivity; lia).
  assert (C4 : clear_keys (sc_sks s4)).
  { subst s4; sproj. rewrite <- U3 in C2. inversion C2; subst. constructor; [reflexivity|assumption]. }
  clearbody s4. cbv beta.
  wb. unfold disallow_simple_key. apply fwp_modify. wmark. unfold push_tok. apply fwp_modify.
  destruct K1 as (A1 & B1 & P1), K2 as (A2 & B2 & P2), K3 as (A3 & B3 & P3), K4 as (A4 & B4 & P4).
  apply HQ.
  - sproj. congruence.
  - unfold ssb in *. sproj. congruence.
  - match goal with |- phi (set_tokens (sc_tokens ?x ++ [?t]) ?x) <= _ => rewrite (phi_push t x) end.
    match goal with |- phi (set_ska false s4) + 1 <= _ => change (phi s4 + 1 <= phi s + 1) end. lia.
  - split; sproj; [exact C4|]. eexists; eexists; reflexivity.
Qed.

(* ---------------- fetch_next_token ---------------- *)
Lemma fw_next_3_are a b c (Q : bool -> fst_ -> Prop) s : (forall r, Q r s) -> fwp (next_3_are str_ops a b c) Q s.
Proof using.
  intros HQ. unfold next_3_are. apply fwp_bind, fwp_assert_buflen. wpeek. wpeekn. wpeekn. apply fwp_ret. apply HQ.
Qed.
Lemma fw_next_is_document_start (Q : bool -> fst_ -> Prop) s : (forall r, Q r s) -> fwp (next_is_document_start str_ops) Q s.
Proof using.
  intros HQ. unfold next_is_document_start. apply fwp_bind, fwp_assert_buflen. apply fwp_bind, fw_next_3_are. intros d.
  destruct d; [wpeekn; apply fwp_ret, HQ|apply fwp_ret, HQ].
Qed.
Lemma fw_next_is_document_end (Q : bool -> fst_ -> Prop) s : (forall r, Q r s) -> fwp (next_is_document_end str_ops) Q s.
Proof using.
  intros HQ. unfold next_is_document_end. apply fwp_bind, fwp_assert_buflen. apply fwp_bind, fw_next_3_are. intros d.
  destruct d; [wpeekn; apply fwp_ret, HQ|apply fwp_ret, HQ].
Qed.

(* one call of fetch_next_token: (a) the stream-start step, (b) a step that consumes, (c) the stream-end step *)
Definition fnt_post (s : fst_) : unit -> fst_ -> Prop := fun _ s' =>
  rl s' <= rl s /\
  ( (sst s = false /\ sst s' = true /\ tpn s' = tpn s /\ phi s' <= phi s + 1)
    \/ (ssb s' = ssb s /\ rl s' < rl s /\ phi s' <= phi s + 5)
    \/ (Done s' /\ ssb s' = ssb s /\ phi s' <= phi s + 1) ).

Ltac disp :=
  first [ apply fwp_fail
        | apply fw_fetch_flow_collection_start; assumption
        | apply fw_fetch_flow_collection_end; assumption
        | apply fw_fetch_flow_entry; assumption
        | apply fw_fetch_block_entry; assumption
        | apply fw_fetch_key; assumption
        | apply fw_fetch_value; assumption
        | apply fw_fetch_flow_value; assumption
        | apply fw_fetch_anchor; assumption
        | apply fw_fetch_tag; assumption
        | apply fw_fetch_block_scalar; assumption
        | apply fw_fetch_flow_scalar; assumption
        | apply fw_fetch_plain_scalar; assumption ].

Lemma fw_fetch_next_token F s : fuel_ok F s -> fwp (fetch_next_token str_ops F) (fnt_post s) s.
Proof using H_stnt H_ws H_yw H_dir H_tag H_anchor H_flow H_plain H_block
            Fr_stnt Fr_ws Fr_yw Fr_dir Fr_tag Fr_anchor Fr_flow Fr_plain Fr_block.
  intros FO. unfold fetch_next_token.
  wb. apply fw_look. intros s1 R1 L1 E1 S1 P1. cbv beta.
  wget. destruct (sc_stream_start s1) eqn:ESS; cbn [negb].
  2:{ apply fw_fetch_stream_start. intros s2 A2 B2 T2 C2. split; [unfold rl, frem in *; rewrite A2; lia|].
      destruct (ssb_eq _ _ S1) as [S1' T1].
      left. repeat split; [unfold sst in *; congruence|exact B2|lia|lia]. }
  wb. eapply use_le; [apply Fr_stnt|apply H_stnt; fok|]. intros u s2 R2 L2 S2 P2. cbv beta.
  sks. wmark. sks.
  wb. apply fw_look. intros s5 R5 L5 E5 S5 P5. cbv beta.
  wb. unfold next_is at 1. wpeek. apply fwp_ret. cbv beta.
  destruct (is_z (fnth s5 0)) eqn:Z.
  { apply fw_fetch_stream_end. intros s6 A6 B6 C6 D6. split; [unfold rl, frem in *; rewrite A6; lia|].
    right; right. split; [exact D6|split; [congruence|lia]]. }
  assert (NZ : fnth s5 0 <> 0%N) by (unfold is_z in Z; apply N.eqb_neq in Z; exact Z).
  assert (FO5 : fuel_ok F s5) by fok.
  assert (LK5 : 1 <= lk s5) by lia.
  wget. wpeek.
  wb. apply fwp_mono with (Q := fun (_ : bool) s' => s' = s5).
  { repeat dif; try (apply fwp_ret; reflexivity). apply fw_next_is_document_start. reflexivity. }
  intros dstart s' ->. cbv beta.
  wb. apply fwp_mono with (Q := fun (_ : bool) s' => s' = s5).
  { repeat dif; try (apply fwp_ret; reflexivity). apply fw_next_is_document_end. reflexivity. }
  intros dend s' ->. cbv beta.
  apply fwp_mono with (Q := cpost s5).
  2:{ intros u6 s6 (A & B & C). split; [lia|]. right; left. repeat split; [congruence|lia|lia]. }
  dif; [apply fw_fetch_directive; assumption|].
  destruct dstart.
  { apply fw_fetch_document_indicator; [exact NZ|]. intros s6 A B C D. unfold cpost. repeat split; [lia|exact C|lia]. }
  destruct dend.
  { wb. apply fw_fetch_document_indicator; [exact NZ|]. intros s6 R6 L6 S6 P6. cbv beta.
    wb. eapply use_le; [apply Fr_ws|apply H_ws; fok|]. intros tw s7 R7 L7 S7 P7. cbv beta.
    wb. unfold next_is at 1. wpeek. apply fwp_ret. cbv beta.
    dif; [apply fwp_ret; unfold cpost; repeat split; [lia|congruence|lia]|wmark; apply fwp_fail]. }
  dif; [apply fwp_fail|].
  wpeek. wpeekn. cbv zeta.
  repeat match goal with
  | |- fwp (if ?b then _ else _) _ _ => destruct b; [solve [disp]|]
  end.
  disp.
Qed.

(* ---------------- fetch_more_tokens ---------------- *)
Lemma clear_keys_map f l :
  (forall k, sk_possible k = false -> sk_possible (f k) = false) -> clear_keys l -> clear_keys (map f l).
Proof using. intros Hf H. induction H as [|k l Hk Hl IH]; cbn [map]; constructor; auto. Qed.
Lemma clear_existsb (p : simple_key -> bool) l : clear_keys l -> existsb (fun k => sk_possible k && p k) l = false.
Proof using. intros H. induction H as [|k l Hk Hl IH]; cbn [existsb]; [reflexivity|]. rewrite Hk, IH. reflexivity. Qed.

(* the budget invariant: B bounds the potential plus 5 per remaining character, 1 for the stream-start token and 1
   for the stream-end token that are still to come *)
Definition pot (B : nat) (s : fst_) : Prop :=
  (Done s /\ phi s <= B) \/ phi s + 5 * rl s + (if sst s then 0 else 1) + 1 <= B.
Definition GI (F B : nat) (s : fst_) : Prop := fuel_ok F s /\ pot B s.

Lemma gi_step F B s s' : GI F B s -> ~ Done s -> fnt_post s tt s' -> GI F B s'.
Proof using.
  intros [FO PT] ND (R & C). split; [fok|]. destruct PT as [[D _]|PT]; [contradiction|].
  destruct C as [(A1 & A2 & A3 & A4)|[(A1 & A2 & A3)|(A1 & A2 & A3)]].
  - right. rewrite A1 in PT. rewrite A2. lia.
  - right. destruct (ssb_eq _ _ A1) as [E _]. rewrite E. lia.
  - left. split; [exact A1|lia].
Qed.

Lemma fw_fetch_more_tokens F B : forall fuel s,
  GI F B s -> (Done s \/ 2 * rl s + (if sst s then 0 else 1) + 2 <= fuel) -> 1 <= fuel ->
  fwp (fetch_more_tokens str_ops F fuel) (fun _ s' => GI F B s' /\ tpn s' = tpn s) s.
Proof using H_stnt H_ws H_yw H_dir H_tag H_anchor H_flow H_plain H_block
            Fr_stnt Fr_ws Fr_yw Fr_dir Fr_tag Fr_anchor Fr_flow Fr_plain Fr_block.
  induction fuel as [|fuel IH]; intros s G HM H1; [lia|]. cbn [fetch_more_tokens].
  wget.
  wb. apply fwp_mono with (Q := fun (need : bool) s1 => skel 0 s s1 /\ (Done s -> Done s1) /\ (Done s1 -> need = false)).
  { destruct (sc_tokens s) as [|t r] eqn:ET.
    - apply fwp_ret. split; [apply skel_refl|]. split; [auto|].
      intros [_ (l & sp & E)]. rewrite ET in E. destruct l; discriminate E.
    - wb. unfold stale_simple_keys. wget. cbv zeta. destruct (existsb _ _); [apply fwp_fail|]. apply fwp_put. cbv beta.
      wget. apply fwp_ret. split; [unfold skel, ssb, phi, tpn; sproj; repeat split; try reflexivity; lia|]. split.
      + intros [C D]. split; sproj; [|exact D].
        apply clear_keys_map; [|exact C]. intros k Hk. destruct (_ && _); [reflexivity|exact Hk].
      + intros [C _]. apply clear_existsb. exact C. }
  intros need s1 (K1 & HD & HN). cbv beta.
  pose proof (skel_rl _ _ _ K1) as R1. destruct K1 as (_ & S1 & P1). destruct (ssb_eq _ _ S1) as [S1' T1].
  assert (G1 : GI F B s1).
  { destruct G as [FO PT]. split; [fok|]. destruct PT as [[D PB]|PT].
    - left. split; [apply HD, D|lia].
    - right. rewrite S1'. lia. }
  destruct need.
  - assert (ND1 : ~ Done s1) by (intros D; specialize (HN D); discriminate HN).
    destruct HM as [D|HM]; [exfalso; apply ND1, HD, D|].
    wb. eapply fwp_mono; [apply fw_fetch_next_token; apply G1|]. intros u s2 C2. cbv beta.
    pose proof (gi_step _ _ _ _ G1 ND1 C2) as G2.
    destruct C2 as (R2 & C2).
    eapply fwp_mono.
    + apply IH; [exact G2| |].
      * destruct C2 as [(A1 & A2 & A3 & A4)|[(A1 & A2 & A3)|(A1 & A2 & A3)]].
        -- right. rewrite A2. rewrite <- S1', A1 in HM. lia.
        -- right. destruct (ssb_eq _ _ A1) as [E _]. rewrite E, S1'. lia.
        -- left. exact A1.
      * destruct (sst s); lia.
    + intros u3 s3 [G3 T3]. split; [exact G3|].
      destruct C2 as [(A1 & A2 & A3 & A4)|[(A1 & A2 & A3)|(A0 & A1 & A3)]]; [lia| |];
        destruct (ssb_eq _ _ A1) as [_ E]; lia.
  - apply fwp_modify. split; [|exact T1].
    destruct G1 as [FO1 PT1]. split; [exact FO1|]. exact PT1.
Qed.

(* ---------------- next_token ---------------- *)
Lemma N2Nat_succ (n : N) : N.to_nat (n + 1) = N.to_nat n + 1.
Proof using. rewrite N2Nat.inj_add. reflexivity. Qed.

Lemma fw_next_token F B s : GI F B s ->
  fwp (next_token str_ops F)
      (fun o s' => (sc_stream_end s' = true \/ GI F B s') /\ (o <> None -> tpn s' = tpn s + 1 /\ tpn s' <= B)) s.
Proof using H_stnt H_ws H_yw H_dir H_tag H_anchor H_flow H_plain H_block
            Fr_stnt Fr_ws Fr_yw Fr_dir Fr_tag Fr_anchor Fr_flow Fr_plain Fr_block.
  intros G. unfold next_token. wget.
  destruct (sc_stream_end s) eqn:SE; [apply fwp_ret; split; [left; exact SE|intros X; congruence]|].
  wb. apply fwp_mono with (Q := fun _ s1 => GI F B s1 /\ tpn s1 = tpn s).
  { destruct (sc_token_available s); [apply fwp_ret; split; [exact G|reflexivity]|].
    apply fw_fetch_more_tokens; [exact G| |]; destruct G as [FO _]; unfold fuel_ok in FO; [right; destruct (sst s); lia|lia]. }
  intros _ s1 [[FO1 PT1] T1]. cbv beta. wget.
  destruct (sc_tokens s1) as [|t r] eqn:ETK; [apply fwp_fail|].
  apply fwp_bind, fwp_put.
  match goal with |- fwp _ _ ?x => set (s2 := x) end.
  assert (R2 : rl s2 = rl s1) by reflexivity.
  assert (S2 : sst s2 = sst s1) by reflexivity.
  assert (T2 : tpn s2 = tpn s1 + 1) by (subst s2; unfold tpn; sproj; apply N2Nat_succ).
  assert (P2 : phi s2 = phi s1) by (subst s2; unfold phi, tpn; sproj; rewrite ETK, N2Nat_succ; cbn [length]; lia).
  assert (K2 : sc_sks s2 = sc_sks s1) by reflexivity.
  assert (TK2 : sc_tokens s2 = r) by reflexivity.
  assert (B2 : tpn s2 <= B).
  { assert (phi s1 <= B) by (destruct PT1 as [[_ X]|X]; lia). unfold phi in *. rewrite ETK in *. cbn [length] in *. lia. }
  clearbody s2. cbv beta.
  destruct t as [sp tk]. cbn [snd].
  assert (HSE : forall (Q : unit -> fst_ -> Prop), (forall s', sc_stream_end s' = true -> tpn s' = tpn s2 -> Q tt s') ->
                  fwp (modify (set_se true)) Q s2).
  { intros Q HQ. apply fwp_modify. apply HQ; reflexivity. }
  assert (HOT : tk <> TStreamEnd -> GI F B s2).
  { intros NE. split; [fok|]. destruct PT1 as [[[C (l & sp' & E)] PB]|PT].
    - left. split; [|lia]. split; [rewrite K2; exact C|]. rewrite TK2. rewrite ETK in E.
      destruct l as [|t0 l]; cbn [app] in E; injection E as E1 E2; [congruence|]. exists l, sp'. exact E2.
    - right. rewrite S2. lia. }
  wb.
  destruct tk; try (apply fwp_ret; apply fwp_ret; split; [right; apply HOT; discriminate|intros _; split; lia]).
  apply HSE. intros s3 E3 T3. apply fwp_ret. split; [left; exact E3|intros _; split; lia].
Qed.

End FuelFetch.
