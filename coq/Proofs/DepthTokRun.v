(* C11 — the token-nesting invariant of Proofs/DepthTok.v lifted to document_start (token-skipping loops), to
   state_machine, to every reachable state and to whole runs of the pull parser. *)
From Coq Require Import List NArith Bool Lia PeanoNat.
Import ListNotations.
Require Import Parser SFetch Pipe Drivers Grammar C02base C02rest C02tail C02run Depth DepthProofs DepthTok.
Local Open Scope nat_scope.

(* ---- the two token-skipping loops of document_start: directives and document-end markers are neutral ---- *)
Definition neutral_run (p q : parser) : Prop :=
  p_state q = p_state p /\ p_states q = p_states p
  /\ exists used, remaining p = used ++ remaining q /\ forall c, cnt c used = c.

Lemma neutral_here p q :
  p_state q = p_state p -> p_states q = p_states p -> remaining q = remaining p -> neutral_run p q.
Proof. intros A B C. repeat split; auto. exists []. rewrite C. split; reflexivity. Qed.

Lemma neutral_step p p1 q t :
  tok_open (snd t) = false -> tok_close (snd t) = false ->
  remaining p = t :: remaining p1 -> p_state p1 = p_state p -> p_states p1 = p_states p ->
  neutral_run p1 q -> neutral_run p q.
Proof.
  intros O C E A B (A1 & B1 & used & E1 & N). repeat split; try congruence.
  exists (t :: used). split; [rewrite E, E1; reflexivity|].
  intros c. cbn [cnt fold_left]. unfold tok_nest_next. rewrite O, C. apply N.
Qed.

Lemma kpost_after_neutral p q c r : neutral_run p q -> kpost q c r -> kpost p c r.
Proof.
  intros (_ & _ & used & E & N) H. eapply kpost_frame; [exact E|]. rewrite N. exact H.
Qed.

Lemma K_neutral p q c : neutral_run p q -> is_first (p_state p) = false -> K p c -> K q c.
Proof.
  intros (A & B & _) F (HS & HN & HT & _). unfold K, first_ok. rewrite A, B, F in *.
  repeat split; auto. discriminate.
Qed.

Lemma process_directives_neutral fuel : forall p vs tags,
  match process_directives fuel p vs tags with
  | Parser.Ok q => neutral_run p q
  | _ => True
  end.
Proof.
  induction fuel as [|fuel IH]; intros p vs tags; [exact I|].
  destruct p as [l ca stk st an aid tg kt]. cbn [process_directives]. unfold Parser.peek. cbn [p_token p_toks].
  assert (Hgo : forall sp tk l',
    (match ca with Some t => t :: l | None => l end) = (sp, tk) :: l' ->
    match
      (let p := set_tok {| p_toks := l; p_token := ca; p_states := stk; p_state := st; p_anchors := an;
                           p_anchor_id := aid; p_tags := tg; p_keep_tags := kt |} l' (Some (sp, tk)) in
       match tk with
       | TVersionDirective _ _ =>
           if vs then Parser.Err (PErr 2 (sp_start sp)) else process_directives fuel (skip p) true tags
       | TTagDirective h pre =>
           if negb (is_empty_str h) && has_key h tags then Parser.Err (PErr 21 (sp_start sp))
           else process_directives fuel (skip p) vs (assoc_set h pre tags)
       | _ => Parser.Ok (set_tags p (extend_tags (p_tags p) tags))
       end)
    with
    | Parser.Ok q => neutral_run {| p_toks := l; p_token := ca; p_states := stk; p_state := st; p_anchors := an;
                                    p_anchor_id := aid; p_tags := tg; p_keep_tags := kt |} q
    | _ => True
    end).
  { intros sp tk l' E. cbn zeta.
    assert (Hrec : forall vs' tags',
      match process_directives fuel (skip (set_tok {| p_toks := l; p_token := ca; p_states := stk; p_state := st;
                p_anchors := an; p_anchor_id := aid; p_tags := tg; p_keep_tags := kt |} l' (Some (sp, tk)))) vs' tags' with
      | Parser.Ok q => tok_open tk = false -> tok_close tk = false ->
                       neutral_run {| p_toks := l; p_token := ca; p_states := stk; p_state := st; p_anchors := an;
                                      p_anchor_id := aid; p_tags := tg; p_keep_tags := kt |} q
      | _ => True
      end).
    { intros vs' tags'. specialize (IH (skip (set_tok {| p_toks := l; p_token := ca; p_states := stk; p_state := st;
                p_anchors := an; p_anchor_id := aid; p_tags := tg; p_keep_tags := kt |} l' (Some (sp, tk)))) vs' tags').
      destruct (process_directives fuel _ vs' tags') as [q| |]; auto. intros O C.
      eapply (neutral_step _ _ q (sp, tk)); [exact O|exact C| | | |exact IH]; try reflexivity.
      unfold remaining. cbn [p_token p_toks skip set_tok]. exact E. }
    destruct tk;
      try (apply neutral_here; [reflexivity|reflexivity|unfold remaining; cbn [p_token p_toks set_tags set_tok]; symmetry; exact E]).
    - destruct vs; [exact I|]. specialize (Hrec true tags). destruct (process_directives fuel _ true tags); auto.
    - destruct (negb (is_empty_str h) && has_key h tags); [exact I|].
      specialize (Hrec vs (assoc_set h p tags)). destruct (process_directives fuel _ vs _); auto. }
  destruct ca as [[sp tk]|].
  - exact (Hgo sp tk l eq_refl).
  - destruct l as [|[sp tk] l']; [exact I|]. exact (Hgo sp tk l' eq_refl).
Qed.

Lemma skip_document_ends_neutral fuel : forall p,
  match skip_document_ends fuel p with
  | Parser.Ok q => neutral_run p q
  | _ => True
  end.
Proof.
  induction fuel as [|fuel IH]; intros p; [exact I|].
  destruct p as [l ca stk st an aid tg kt]. cbn [skip_document_ends]. unfold Parser.peek. cbn [p_token p_toks].
  assert (Hgo : forall sp tk l',
    (match ca with Some t => t :: l | None => l end) = (sp, tk) :: l' ->
    match
      (let p := set_tok {| p_toks := l; p_token := ca; p_states := stk; p_state := st; p_anchors := an;
                           p_anchor_id := aid; p_tags := tg; p_keep_tags := kt |} l' (Some (sp, tk)) in
       match tk with
       | TDocumentEnd => skip_document_ends fuel (skip p)
       | _ => Parser.Ok p
       end)
    with
    | Parser.Ok q => neutral_run {| p_toks := l; p_token := ca; p_states := stk; p_state := st; p_anchors := an;
                                    p_anchor_id := aid; p_tags := tg; p_keep_tags := kt |} q
    | _ => True
    end).
  { intros sp tk l' E. cbn zeta.
    destruct tk;
      try (apply neutral_here; [reflexivity|reflexivity|unfold remaining; cbn [p_token p_toks set_tok]; symmetry; exact E]).
    specialize (IH (skip (set_tok {| p_toks := l; p_token := ca; p_states := stk; p_state := st;
                p_anchors := an; p_anchor_id := aid; p_tags := tg; p_keep_tags := kt |} l' (Some (sp, TDocumentEnd))))).
    destruct (skip_document_ends fuel _) as [q| |]; auto.
    eapply (neutral_step _ _ q (sp, TDocumentEnd)); [reflexivity|reflexivity| | | |exact IH]; try reflexivity.
    unfold remaining. cbn [p_token p_toks skip set_tok]. exact E. }
  destruct ca as [[sp tk]|].
  - exact (Hgo sp tk l eq_refl).
  - destruct l as [|[sp tk] l']; [exact I|]. exact (Hgo sp tk l' eq_refl).
Qed.

(* run one of the loops inside a kpost goal: the result is an explicit record again, same state and stack *)
Ltac after_loop E HKq :=
  match goal with
  | HK : K ?p ?c |- kpost ?p ?c (match ?loop with _ => _ end) =>
      let q := fresh "q" in let HN := fresh "HNq" in
      destruct loop as [q| |] eqn:E; [|exact I|exact I];
      match type of E with
      | process_directives ?f ?p0 ?vs ?tags = _ => pose proof (process_directives_neutral f p0 vs tags) as HN
      | skip_document_ends ?f ?p0 = _ => pose proof (skip_document_ends_neutral f p0) as HN
      end;
      rewrite E in HN;
      apply (kpost_after_neutral _ q _ _ HN);
      pose proof (K_neutral _ _ _ HN eq_refl HK) as HKq;
      destruct HN as (HNs & HNk & _); clear E HK;
      let stk' := fresh "stk'" in let st' := fresh "st'" in
      let l' := fresh "l'" in let ca' := fresh "ca'" in let an' := fresh "an'" in let aid' := fresh "aid'" in
      let tg' := fresh "tg'" in let kt' := fresh "kt'" in
      destruct q as [l' ca' stk' st' an' aid' tg' kt']; cbn [p_state p_states] in HNs, HNk; subst st' stk'
  end.

Lemma kpost_peek_none t l stk st an aid tg kt c r :
  is_first st = false ->
  (K {| p_toks := l; p_token := Some t; p_states := stk; p_state := st; p_anchors := an; p_anchor_id := aid;
        p_tags := tg; p_keep_tags := kt |} c ->
   kpost {| p_toks := l; p_token := Some t; p_states := stk; p_state := st; p_anchors := an; p_anchor_id := aid;
            p_tags := tg; p_keep_tags := kt |} c r) ->
  K {| p_toks := t :: l; p_token := None; p_states := stk; p_state := st; p_anchors := an; p_anchor_id := aid;
       p_tags := tg; p_keep_tags := kt |} c ->
  kpost {| p_toks := t :: l; p_token := None; p_states := stk; p_state := st; p_anchors := an; p_anchor_id := aid;
           p_tags := tg; p_keep_tags := kt |} c r.
Proof.
  intros F H HK. eapply (kpost_frame _ _ _ []); [reflexivity|]. apply H.
  destruct HK as (A & B & C & _). unfold K, first_ok. cbn [p_state p_states p_token] in *. rewrite F in *.
  repeat split; auto. discriminate.
Qed.

Lemma explicit_document_start_k l ca stk st an aid tg kt c :
  st = SImplicitDocumentStart \/ st = SDocumentStart ->
  let p := {| p_toks := l; p_token := ca; p_states := stk; p_state := st; p_anchors := an; p_anchor_id := aid;
              p_tags := tg; p_keep_tags := kt |} in
  K p c -> kpost p c (explicit_document_start p).
Proof.
  intros Hst p HK. subst p. unfold explicit_document_start.
  destruct Hst as [-> | ->]; after_loop E HKq; kstart HKq; kx; kfin.
Qed.

Lemma document_start_k l ca stk st an aid tg kt c (implicit : bool) :
  st = SImplicitDocumentStart \/ st = SDocumentStart ->
  let p := {| p_toks := l; p_token := ca; p_states := stk; p_state := st; p_anchors := an; p_anchor_id := aid;
              p_tags := tg; p_keep_tags := kt |} in
  K p c -> kpost p c (document_start p implicit).
Proof.
  intros Hst p HK. subst p. unfold document_start.
  assert (Hex : forall l2 ca2 an2 aid2 tg2 kt2 (HK2 : K {| p_toks := l2; p_token := ca2; p_states := stk; p_state := st;
             p_anchors := an2; p_anchor_id := aid2; p_tags := tg2; p_keep_tags := kt2 |} c),
             kpost {| p_toks := l2; p_token := ca2; p_states := stk; p_state := st;
             p_anchors := an2; p_anchor_id := aid2; p_tags := tg2; p_keep_tags := kt2 |} c
               (explicit_document_start {| p_toks := l2; p_token := ca2; p_states := stk; p_state := st;
             p_anchors := an2; p_anchor_id := aid2; p_tags := tg2; p_keep_tags := kt2 |})).
  { intros. apply explicit_document_start_k; auto. }
  destruct Hst as [-> | ->]; after_loop E HKq.
  all: unfold Parser.peek; cbn [p_token p_toks].
  all: match goal with |- context [match ?x with _ => _ end] => is_var x; destruct x as [[sp tk]|] end.
  all: try (match goal with |- context [match ?x with _ => _ end] => is_var x; destruct x as [|[sp tk] ?] end;
            [exact I|]; unfold set_tok; cbn [p_toks p_token p_states p_state p_anchors p_anchor_id p_tags p_keep_tags];
            revert HKq; apply kpost_peek_none; [reflexivity|]; intros HKq).
  all: destruct tk; unfold set_tok; cbn [p_toks p_token p_states p_state p_anchors p_anchor_id p_tags p_keep_tags].
  all: try (apply Hex; exact HKq).
  all: try (destruct implicit; [|apply Hex; exact HKq]).
  all: try (after_loop E2 HKq2; kstart HKq2; kx; kfin).
  all: try (kstart HKq; kfin).
Qed.


(* ------------------------------------------------------------------------------------------------ *)
(* one step of the pull parser keeps the invariant, for EVERY token stream                            *)
(* ------------------------------------------------------------------------------------------------ *)
Theorem state_machine_k p c : K p c -> kpost p c (state_machine p).
Proof.
  intros HK. destruct p as [l ca stk st an aid tg kt]. unfold state_machine. cbn [p_state].
  destruct st.
  - apply stream_start_k; auto.
  - apply document_start_k; auto.
  - apply document_start_k; auto.
  - apply document_content_k; auto.
  - apply document_end_k; auto.
  - apply block_node_k; auto.
  - apply (block_sequence_entry_k _ _ _ _ _ _ _ _ _ true); auto.
  - apply (block_sequence_entry_k _ _ _ _ _ _ _ _ _ false); auto.
  - apply indentless_sequence_entry_k; auto.
  - apply (block_mapping_key_k _ _ _ _ _ _ _ _ _ true); auto.
  - apply (block_mapping_key_k _ _ _ _ _ _ _ _ _ false); auto.
  - apply block_mapping_value_k; auto.
  - apply (flow_sequence_entry_k _ _ _ _ _ _ _ _ _ true); auto.
  - apply (flow_sequence_entry_k _ _ _ _ _ _ _ _ _ false); auto.
  - apply fsem_key_k; auto.
  - apply fsem_value_k; auto.
  - apply fsem_end_k; auto.
  - apply (flow_mapping_key_k _ _ _ _ _ _ _ _ _ true); auto.
  - apply (flow_mapping_key_k _ _ _ _ _ _ _ _ _ false); auto.
  - apply flow_mapping_value_k; auto.
  - apply flow_mapping_empty_value_k; auto.
  - exact I.
Qed.

Lemma init_K toks keep : K (init_parser toks keep) 0.
Proof. unfold K, first_ok, init_parser. cbn. repeat split; auto. discriminate. Qed.

(* every reachable state: the tokens consumed so far are a prefix of the stream, and the invariant holds for their
   nesting counter *)
Lemma reach_K toks keep p evs :
  reach (init_parser toks keep) p evs ->
  exists consumed, toks = consumed ++ remaining p /\ K p (cnt 0 consumed).
Proof.
  induction 1 as [|p evs e sp p' HR (consumed & E & HK) HNE HS].
  - exists []. split; [reflexivity|apply init_K].
  - pose proof (state_machine_k p _ HK) as HP. rewrite HS in HP. cbn [kpost] in HP.
    destruct HP as (used & E2 & HK2). exists (consumed ++ used). split.
    + rewrite E, E2, app_assoc. reflexivity.
    + rewrite cnt_app. exact HK2.
Qed.

(* the C02 invariant ties the acceptor stack to the parser stack: collections open in the events = eframe total *)
Lemma colls_cont s : cont_ok s = true \/ s = SDocumentEnd -> length (filter is_coll (cont_frames s)) = eframe s.
Proof. intros [H| ->]; [destruct s; try discriminate H|]; reflexivity. Qed.

Lemma colls_stack stk : Rooted stk -> length (filter is_coll (stack_frames stk)) = sumf eframe stk.
Proof.
  induction 1 as [|s r Hc HR IH].
  - reflexivity.
  - unfold stack_frames in *. cbn [flat_map sumf fold_right]. rewrite filter_app, app_length, IH.
    rewrite (colls_cont s (or_introl Hc)). reflexivity.
Qed.

Lemma colls_cur st a : cur_frames st = Some a -> length (filter is_coll a) = eframe st.
Proof. destruct st; cbn; intros H; inversion H; reflexivity. Qed.

Lemma inv_colls p g : Inv p g -> colls g = eframe (p_state p) + sumf eframe (p_states p) \/ (colls g = 0).
Proof.
  unfold Inv, InvS, colls.
  destruct (p_state p) eqn:ES;
    try (intros [-> ->]; right; reflexivity);
    intros [HR [a [Ha ->]]]; left; cbn [gframes]; rewrite filter_app, app_length, (colls_stack _ HR);
    rewrite (colls_cur _ _ Ha); reflexivity.
Qed.

(* For EVERY token list and every state reachable from the initial one: the number of collections open in the
   events delivered so far is at most twice the nesting counter of the tokens consumed so far, plus the one
   collection-start token that may sit in the cache *)
Theorem open_depth_bounded_by_token_nesting toks keep p evs :
  reach (init_parser toks keep) p evs -> open_depth evs <= 2 * tok_nest_max toks.
Proof.
  intros HR.
  destruct (reach_inv _ _ _ _ HR) as [g [Hg HI]].
  destruct (reach_K _ _ _ _ HR) as (consumed & E & HK).
  assert (W0 : wf_g GInit) by (exists [], []; cbn; auto).
  destruct (grun_colls evs GInit g 0 0 Hg W0 eq_refl) as [_ C].
  unfold open_depth. rewrite <- C.
  destruct (inv_colls _ _ HI) as [EC | EC]; [|rewrite EC; lia].
  rewrite EC. destruct HK as (HS & HN & HT & HF).
  pose proof (shape_bound _ HS) as [B _]. cbn [sumf fold_right] in B. fold (sumf eframe (p_states p)) in B.
  fold (sumf tframe (p_states p)) in B.
  assert (HM : tframe (p_state p) + sumf tframe (p_states p) <= tok_nest_max toks).
  { destruct (is_first (p_state p)) eqn:F.
    - destruct (HF F) as ([sp tk] & Et & O). unfold remaining in E. rewrite Et in E.
      assert (E' : toks = (consumed ++ [(sp, tk)]) ++ p_toks p) by (rewrite <- app_assoc; exact E).
      pose proof (cnt_prefix_le_max (consumed ++ [(sp, tk)]) (p_toks p)) as L. rewrite <- E' in L.
      rewrite cnt_app in L. cbn [cnt fold_left snd] in L. unfold tok_nest_next in L. cbn [snd] in O. rewrite O in L. lia.
    - pose proof (cnt_prefix_le_max consumed (remaining p)) as L. rewrite <- E in L. lia. }
  lia.
Qed.

(* ------------------------------------------------------------------------------------------------ *)
(* whole runs: the nesting depth of the delivered events                                             *)
(* ------------------------------------------------------------------------------------------------ *)
Lemma depth_run_snoc c m evs e :
  depth_run c m (evs ++ [e]) = depth_step (depth_run c m evs) e.
Proof. unfold depth_run. rewrite fold_left_app. reflexivity. Qed.

Lemma max_nesting_snoc evs e : max_nesting (evs ++ [e]) <= Nat.max (max_nesting evs) (open_depth evs).
Proof.
  unfold max_nesting, open_depth. rewrite depth_run_snoc.
  destruct (depth_run 0 0 evs) as [c m]. destruct e; cbn [depth_step fst snd]; lia.
Qed.

Lemma reach_max_nesting p0 B :
  (forall p evs, reach p0 p evs -> open_depth evs <= B) ->
  forall p evs, reach p0 p evs -> max_nesting evs <= B.
Proof.
  intros HB p evs HR. induction HR as [|p evs e sp p' HR IH HNE HS]; [cbn; lia|].
  pose proof (max_nesting_snoc evs e). pose proof (HB _ _ HR). lia.
Qed.

Lemma parse_all_reach p0 se fuel : forall p acc,
  reach p0 p (evs_of (rev acc)) ->
  exists p', reach p0 p' (evs_of (fst (parse_all fuel p se acc))).
Proof.
  induction fuel as [|fuel IH]; intros p acc HR.
  - cbn [parse_all fst]. eauto.
  - rewrite parse_all_S.
    assert (Hstep : p_state p <> SEnd -> exists p', reach p0 p' (evs_of (fst (step_result fuel p se acc)))).
    { intros HNE. unfold step_result. destruct (state_machine p) as [[[e sp] q]|er|n] eqn:ES.
      - apply IH. cbn [rev]. unfold evs_of. rewrite map_app. cbn [map fst]. fold (evs_of (rev acc)).
        eapply reach_step; eauto.
      - destruct er; cbn [fst]; eauto.
      - cbn [fst]. eauto. }
    destruct (p_state p) eqn:E; try (apply Hstep; discriminate). cbn [fst]. eauto.
Qed.

(* For EVERY token stream, whatever the fuel, whether the run ends in success, in an error or out of fuel: the events
   the pull parser delivers nest at most twice as deep as the tokens *)
Theorem nesting_bounded_by_token_nesting toks keep se fuel :
  max_nesting (evs_of (fst (parse_all fuel (init_parser toks keep) se []))) <= 2 * tok_nest_max toks.
Proof.
  destruct (parse_all_reach (init_parser toks keep) se fuel (init_parser toks keep) []) as [p' HR]; [apply reach_init|].
  eapply reach_max_nesting; [|exact HR]. intros p evs H. eapply open_depth_bounded_by_token_nesting; exact H.
Qed.

Corollary parse_tokens_nesting_bounded toks se keep :
  max_nesting (evs_of (fst (parse_tokens toks se keep))) <= 2 * tok_nest_max toks.
Proof. apply (nesting_bounded_by_token_nesting toks keep se). Qed.

(* ------------------------------------------------------------------------------------------------ *)
(* token nesting <= the scanner's flow level along the stream + the collection starts it does not count *)
(* ------------------------------------------------------------------------------------------------ *)
Lemma other_openers_app a b : other_openers (a ++ b) = other_openers a + other_openers b.
Proof. unfold other_openers. rewrite filter_app, app_length. reflexivity. Qed.

Lemma nest_le_flow_plus_other toks : forall cn mn cf mf k,
  cn <= cf + k -> mn <= mf + k -> cf <= mf ->
  fst (tok_nest_run toks (cn, mn)) <= fst (tok_flow_run toks (cf, mf)) + (k + other_openers toks)
  /\ snd (tok_nest_run toks (cn, mn)) <= snd (tok_flow_run toks (cf, mf)) + (k + other_openers toks).
Proof.
  induction toks as [|t r IH]; intros cn mn cf mf k Hc Hm Hf.
  - cbn. unfold other_openers. cbn. lia.
  - unfold tok_nest_run, tok_flow_run in *. cbn [fold_left].
    change (other_openers (t :: r)) with (other_openers ([t] ++ r)). rewrite other_openers_app.
    unfold tok_nest_step at 2 4. unfold tok_flow_step at 2 4. cbn [fst snd].
    unfold other_openers at 1 3. cbn [filter]. unfold other_open, tok_nest_next.
    destruct t as [sp tk]. unfold real_flow_open, flow_close. cbn [fst snd].
    destruct tk; cbn [tok_open tok_close andb negb length];
      try (destruct (span_is_empty sp); cbn [negb andb length]);
      match goal with
      | |- context [fold_left tok_nest_step r (?a, ?b)] =>
          match goal with
          | |- context [fold_left tok_flow_step r (?c, ?d)] =>
              match goal with
              | |- context [?k0 + (?x + other_openers r)] =>
                  specialize (IH a b c d (k0 + x)); cbn [length] in IH;
                  destruct IH as [I1 I2]; [lia|lia|lia|]; split; lia
              end
          end
      end.
Qed.

Lemma tok_nest_le_flow_plus_other toks : tok_nest_max toks <= tok_flow_max toks + other_openers toks.
Proof.
  unfold tok_nest_max, tok_flow_max.
  destruct (nest_le_flow_plus_other toks 0 0 0 0 0 (le_n 0) (le_n 0) (le_n 0)) as [_ H]. exact H.
Qed.

(* the events nest at most twice as deep as: the scanner's flow level along the stream + the block collection starts
   + the synthetic FlowMappingStart tokens *)
Theorem nesting_bounded_by_flow_level_and_other_openers toks keep se fuel :
  max_nesting (evs_of (fst (parse_all fuel (init_parser toks keep) se [])))
  <= 2 * (tok_flow_max toks + other_openers toks).
Proof.
  pose proof (nesting_bounded_by_token_nesting toks keep se fuel). pose proof (tok_nest_le_flow_plus_other toks). lia.
Qed.
