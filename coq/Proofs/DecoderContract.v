(* C18 — the decoder models meet the contract H0-H3 of the termination theorem (Proofs/DecodeProofs.v:
   decoder_contract), in EVERY state and on every input, with K = DECODER_K = 4:

     u8_loop_post / u16_loop_post     the post-condition of one call of the UTF-8 / UTF-16 state machines
     decoder_contract_holds           decoder_contract (erase_step decoder_step) decoder_pending DECODER_K

   so C18_decode_loop_terminates applies to the loop over these decoders (not only to the toy decoder). *)
From Coq Require Import List NArith Bool Lia Arith.
Import ListNotations.
Require Import Consts Decode TagSpec EncodingSpec Decoders DecodeProofs TagUtf8 DecoderLoop DecoderUtf8 DecoderUtf16 DecoderMain.
Open Scope N_scope.
Arguments N.add : simpl never.
Arguments N.sub : simpl never.
Arguments N.mul : simpl never.
Arguments N.div : simpl never.
Arguments N.modulo : simpl never.
Arguments N.eqb : simpl never.
Arguments N.ltb : simpl never.
Arguments N.leb : simpl never.
Arguments N.max : simpl never.
Arguments N.to_nat : simpl never.
Arguments N.of_nat : simpl never.

(* what one call may do, relative to the bytes [rd] already counted as read in the call:
   [pb] / [pa] = pending bytes before / after, [lrem] = length of the input still unread *)
Definition xpost (pb pa lrem spare rd : N) (r : xresult) (cs : list N) : Prop :=
  text_len cs <= spare /\
  match r with
  | XInputEmpty => True
  | XOutputFull rd' =>
      rd <= rd' /\ rd' <= rd + lrem /\ pa + rd <= pb + rd' /\ (4 <= spare -> pa + rd < pb + rd')
  | XMalformed ml af rd' =>
      rd <= rd' /\ rd' <= rd + lrem /\ pa + rd < pb + rd' /\ ml + af + rd <= pb + rd' /\ ml + af <= 255
  end.

Ltac eqb_consts :=
  repeat match goal with
         | |- context [N.eqb (Npos ?p) 0] => change (N.eqb (Npos p) 0) with false
         | H : context [N.eqb (Npos ?p) 0] |- _ => change (N.eqb (Npos p) 0) with false in H
         | |- context [N.eqb 0 0] => change (N.eqb 0 0) with true
         | H : context [N.eqb 0 0] |- _ => change (N.eqb 0 0) with true in H
         end.

(* ================================================================================================ *)
(* UTF-8                                                                                             *)
(* ================================================================================================ *)
Lemma utf8_len_ascii : forall b, b < 128 -> utf8_len b = 1.
Proof. intros b H. unfold utf8_len. rewrite (proj2 (N.ltb_lt b 128) H). reflexivity. Qed.

Lemma u8_fast_facts : forall st rem spare,
    exists cs0 k rem1,
      (if u_needed st =? 0 then fast8 (length rem) rem spare else ([], 0, rem)) = (cs0, k, rem1) /\
      text_len cs0 = k /\ k <= spare /\ k <= nlen rem /\ nlen rem1 = nlen rem - k /\
      (length rem1 <= length rem)%nat /\ ((u_needed st =? 0) = false -> k = 0).
Proof.
  intros st rem spare. destruct (u_needed st =? 0).
  - destruct (fast8 (length rem) rem spare) as [[cs0 k] rem1] eqn:Hf.
    destruct (fast8_spec _ _ _ _ _ _ Hf) as (Hg & Hr & Ht & Hs & _).
    pose proof (good_prefix_le utf8_next utf8_next_size _ _ _ Hg) as Hk.
    exists cs0, k, rem1. split; [reflexivity|]. split; [exact Ht|]. split; [exact Hs|]. split; [exact Hk|].
    split; [rewrite Hr; apply nlen_skipn|]. split; [rewrite Hr, skipn_length; lia|discriminate].
  - exists [], 0, rem. split; [reflexivity|]. split; [reflexivity|]. split; [lia|]. split; [lia|].
    split; [lia|]. split; [lia|reflexivity].
Qed.

Lemma u8_loop_post : forall fuel st rem spare rd st' r cs,
    (length rem < fuel)%nat -> u8_loop fuel true st rem spare rd = (st', r, cs) ->
    xpost (u8_pending st) (u8_pending st') (nlen rem) spare rd r cs.
Proof.
  induction fuel as [|f IH]; intros st rem spare rd st' r cs Hfuel H; [lia|].
  cbn [u8_loop] in H.
  destruct (u8_fast_facts st rem spare) as (cs0 & k & rem1 & Ef & Ht & Hk & Hkn & Hl1 & Hl1' & Hk0).
  rewrite Ef in H. clear Ef.
  assert (Hlen8 : forall c, 1 <= utf8_len c <= 4) by apply utf8_len_range.
  destruct rem1 as [|b tl].
  - (* end of input *)
    cbn [andb] in H. destruct (u_needed st =? 0) eqn:En; cbn [negb] in H; inversion H; subst st' r cs; clear H.
    + unfold xpost. rewrite app_nil_r. split; [lia|exact I].
    + specialize (Hk0 eq_refl). subst k.
      pose proof (N.mod_le (u_seen st + 1) 256 ltac:(lia)). pose proof (N.mod_lt (u_seen st + 1) 256 ltac:(lia)).
      unfold xpost, u8_pending. cbn [u_seen u_needed]. rewrite En. eqb_consts. rewrite app_nil_r. cbn [text_len] in *.
      repeat split; lia.
  - rewrite nlen_cons in Hl1. cbn [length] in Hl1'.
    destruct (N.ltb_spec (spare - k) 4) as [Hfull|Hroom].
    { (* output full *)
      inversion H; subst st' r cs; clear H. unfold xpost. rewrite app_nil_r. repeat split; lia. }
    (* the recursive calls *)
    assert (Hrec : forall st2 sp2 s r0 c,
               u8_loop f true st2 tl sp2 (rd + k + 1) = (s, r0, c) ->
               xpost (u8_pending st2) (u8_pending s) (nlen tl) sp2 (rd + k + 1) r0 c).
    { intros st2 sp2 s r0 c E. apply (IH st2 tl sp2 (rd + k + 1) s r0 c); [lia|exact E]. }
    destruct (u_needed st =? 0) eqn:En.
    + (* neutral state: a first byte *)
      assert (Hp : u8_pending st = u_seen st) by (unfold u8_pending; rewrite En; lia).
      destruct (N.ltb_spec b 128) as [Hb|Hb].
      { destruct (u8_loop f true st tl (spare - k - 1) (rd + k + 1)) as [[s r0] c] eqn:E.
        apply Hrec in E. inversion H; subst st' r cs; clear H.
        pose proof (utf8_len_ascii b Hb). unfold xpost in *. rewrite text_len_app. cbn [text_len].
        destruct r0; repeat split; lia. }
      destruct (N.ltb_spec b 194).
      { inversion H; subst st' r cs; clear H. unfold xpost. rewrite app_nil_r. repeat split; lia. }
      destruct (N.ltb_spec b 224).
      { destruct (u8_loop f true _ tl (spare - k) (rd + k + 1)) as [[s r0] c] eqn:E.
        apply Hrec in E. inversion H; subst st' r cs; clear H.
        unfold u8_pending in E at 1. cbn [u_seen u_needed] in E. eqb_consts.
        unfold xpost in *. rewrite text_len_app. destruct r0; repeat split; lia. }
      destruct (N.ltb_spec b 240).
      { destruct (u8_loop f true _ tl (spare - k) (rd + k + 1)) as [[s r0] c] eqn:E.
        apply Hrec in E. inversion H; subst st' r cs; clear H.
        unfold u8_pending in E at 1. cbn [u_seen u_needed] in E. eqb_consts.
        unfold xpost in *. rewrite text_len_app. destruct r0; repeat split; lia. }
      destruct (N.ltb_spec b 245).
      { destruct (u8_loop f true _ tl (spare - k) (rd + k + 1)) as [[s r0] c] eqn:E.
        apply Hrec in E. inversion H; subst st' r cs; clear H.
        unfold u8_pending in E at 1. cbn [u_seen u_needed] in E. eqb_consts.
        unfold xpost in *. rewrite text_len_app. destruct r0; repeat split; lia. }
      inversion H; subst st' r cs; clear H. unfold xpost. rewrite app_nil_r. repeat split; lia.
    + (* inside a sequence *)
      specialize (Hk0 eq_refl). subst k.
      assert (Hp : u8_pending st = u_seen st + 1) by (unfold u8_pending; rewrite En; lia).
      destruct (negb ((u_lo st <=? b) && (b <=? u_hi st))).
      { inversion H; subst st' r cs; clear H.
        pose proof (N.mod_le (u_seen st + 1) 256 ltac:(lia)). pose proof (N.mod_lt (u_seen st + 1) 256 ltac:(lia)).
        rewrite Hp. unfold xpost, u8_pending. cbn [u_seen u_needed]. eqb_consts. rewrite app_nil_r. repeat split; lia. }
      destruct (negb (u_seen st + 1 =? u_needed st)).
      { destruct (u8_loop f true _ tl _ _) as [[s r0] c] eqn:E.
        apply Hrec in E. inversion H; subst st' r cs; clear H.
        unfold u8_pending in E at 1. cbn [u_seen u_needed] in E. rewrite En in E.
        unfold xpost in *. rewrite text_len_app. destruct r0; repeat split; lia. }
      destruct (u8_loop f true _ tl _ _) as [[s r0] c] eqn:E.
      apply Hrec in E. inversion H; subst st' r cs; clear H.
      unfold u8_pending in E at 1. cbn [u_seen u_needed] in E. eqb_consts.
      specialize (Hlen8 (u_cp st * 64 + b mod 64)).
      unfold xpost in *. rewrite text_len_app. cbn [text_len]. destruct r0; repeat split; lia.
Qed.

(* ================================================================================================ *)
(* UTF-16                                                                                            *)
(* ================================================================================================ *)
Lemma u16_fast_facts : forall be st rem spare,
    exists cs0 k err rem1,
      (if u16_neutral st && (4 <=? spare) then fast16 be false rem spare else ([], 0, false, rem)) = (cs0, k, err, rem1) /\
      text_len cs0 <= spare /\ k <= nlen rem /\ nlen rem1 = nlen rem - k /\ (length rem1 <= length rem)%nat /\
      (u16_neutral st = false -> k = 0 /\ cs0 = []) /\ (1 <= text_len cs0 -> 1 <= k) /\ (err = true -> 2 <= k).
Proof.
  intros be st rem spare. destruct (u16_neutral st && (4 <=? spare)) eqn:En.
  - destruct (fast16 be false rem spare) as [[[cs0 k] err] rem1] eqn:Hf.
    destruct (fast16_spec be (length rem) rem (Nat.le_refl _) false spare cs0 k err rem1 Hf) as (k0 & Hg & Ht & Hr & He).
    pose proof (good_prefix_le (utf16_next be) (utf16_next_size be) _ _ _ Hg) as Hk0.
    exists cs0, k, err, rem1. split; [reflexivity|]. split; [exact Ht|].
    assert (Hk : k <= nlen rem /\ k0 <= k /\ (err = true -> 2 <= k)).
    { destruct err; [destruct He as (-> & H2 & _); repeat split; lia|destruct He as (-> & _); repeat split; [lia|lia|discriminate]]. }
    destruct Hk as (Hk1 & Hk2 & Hk3).
    split; [exact Hk1|]. split; [rewrite Hr; apply nlen_skipn|]. split; [rewrite Hr, skipn_length; lia|].
    split; [intros Hn; rewrite Hn in En; discriminate|]. split; [|exact Hk3].
    intros Hpos. destruct cs0 as [|c cs1]; [cbn [text_len] in Hpos; lia|].
    pose proof (good_prefix_pos _ (utf16_next_size be) _ _ _ _ Hg). lia.
  - exists [], 0, false, rem. split; [reflexivity|]. cbn [text_len]. split; [lia|]. split; [lia|]. split; [lia|].
    split; [lia|]. split; [intros _; split; reflexivity|]. split; [lia|discriminate].
Qed.

Lemma u16_pending_lead : forall ls b pb, u16_pending (U16 ls (Some b) pb) = u16_pending (U16 ls None pb) + 1.
Proof. intros. unfold u16_pending. cbn [w_surrogate w_lead_byte w_pending_bmp]. lia. Qed.

Lemma u16_pending_none : forall ls, u16_pending (U16 ls None false) = if ls =? 0 then 0 else 2.
Proof.
  intros. unfold u16_pending. cbn [w_surrogate w_lead_byte w_pending_bmp negb]. rewrite andb_true_r.
  destruct (ls =? 0); reflexivity.
Qed.

Lemma u16_pending_bmp : forall u, u16_pending (U16 u None true) = 2.
Proof. intros. unfold u16_pending. cbn [w_surrogate w_lead_byte w_pending_bmp negb]. rewrite andb_false_r. reflexivity. Qed.

Lemma u16_neutral_pending : forall ls lb, u16_neutral (U16 ls lb false) = true -> u16_pending (U16 ls lb false) = 0.
Proof.
  intros ls [b|] H; unfold u16_neutral in H; cbn [w_surrogate w_lead_byte] in H.
  - rewrite andb_false_r in H. discriminate.
  - rewrite andb_true_r in H. rewrite u16_pending_none, H. reflexivity.
Qed.

Lemma u16_loop_post : forall be fuel st rem spare rd st' r cs,
    w_pending_bmp st = false ->
    (length rem < fuel)%nat -> u16_loop fuel be true st rem spare rd = (st', r, cs) ->
    xpost (u16_pending st) (u16_pending st') (nlen rem) spare rd r cs.
Proof.
  intros be. induction fuel as [|f IH]; intros st rem spare rd st' r cs Hpbf Hfuel H; [lia|].
  cbn [u16_loop] in H.
  destruct (u16_fast_facts be st rem spare) as (cs0 & k & err & rem1 & Ef & Ht & Hkn & Hl1 & Hl1' & Hk0 & Hpos & Herr).
  rewrite Ef in H. clear Ef.
  assert (Hlen8 : forall c, 1 <= utf8_len c <= 4) by apply utf8_len_range.
  destruct err.
  { (* the fast path met an unpaired surrogate: the state is neutral *)
    inversion H; subst st' r cs; clear H. specialize (Herr eq_refl).
    unfold xpost. repeat split; lia. }
  destruct st as [ls lb pb]. cbn [w_surrogate w_lead_byte w_pending_bmp] in H, Hpbf. subst pb.
  destruct rem1 as [|b tl].
  - (* end of input *)
    cbn [andb] in H. destruct (u16_neutral (U16 ls lb false)) eqn:En; cbn [negb] in H.
    + inversion H; subst st' r cs; clear H. unfold xpost. rewrite app_nil_r. split; [lia|exact I].
    + destruct (Hk0 eq_refl) as [-> ->]. cbn [text_len app] in *.
      destruct (N.ltb_spec (spare - 0) 3).
      { inversion H; subst st' r cs; clear H. unfold xpost. cbn [text_len]. repeat split; lia. }
      destruct (N.eqb_spec ls 0) as [Hls|Hls]; cbn [negb] in H.
      * destruct lb as [b|].
        -- inversion H; subst st' r cs; clear H. rewrite u16_pending_lead, !u16_pending_none.
           unfold xpost. cbn [text_len]. destruct (ls =? 0); repeat split; lia.
        -- unfold u16_neutral in En. cbn [w_surrogate w_lead_byte] in En. subst ls. discriminate.
      * destruct lb as [b|]; inversion H; subst st' r cs; clear H;
          rewrite ?u16_pending_lead, !u16_pending_none; rewrite (proj2 (N.eqb_neq ls 0) Hls); eqb_consts;
          unfold xpost; cbn [text_len]; repeat split; lia.
  - rewrite nlen_cons in Hl1. cbn [length] in Hl1'.
    destruct (N.ltb_spec (spare - text_len cs0) 4) as [Hfull|Hroom].
    { (* output full *)
      inversion H; subst st' r cs; clear H. unfold xpost. rewrite app_nil_r.
      destruct (u16_neutral (U16 ls lb false)) eqn:En.
      - repeat split; lia.
      - destruct (Hk0 eq_refl) as [-> ->]. cbn [text_len] in *. repeat split; lia. }
    assert (Hrec : forall st2 sp2 s r0 c,
               u16_loop f be true st2 tl sp2 (rd + k + 1) = (s, r0, c) -> w_pending_bmp st2 = false ->
               xpost (u16_pending st2) (u16_pending s) (nlen tl) sp2 (rd + k + 1) r0 c).
    { intros st2 sp2 s r0 c E Hb2. apply (IH st2 tl sp2 (rd + k + 1) s r0 c); [exact Hb2|lia|exact E]. }
    assert (Hpk : u16_neutral (U16 ls lb false) = true -> u16_pending (U16 ls lb false) = 0) by apply u16_neutral_pending.
    assert (Hk0' : 1 <= k -> u16_pending (U16 ls lb false) = 0).
    { intros Hk1. destruct (u16_neutral (U16 ls lb false)) eqn:En; [apply Hpk; reflexivity|]. destruct (Hk0 eq_refl); lia. }
    destruct lb as [lead|].
    + (* second byte of a code unit; the state is not neutral, the fast path did not run *)
      destruct (Hk0 (neutral_lead ls lead false)) as [-> ->]. cbn [text_len app] in *.
      rewrite u16_pending_lead, u16_pending_none.
      set (u := code_unit be lead b) in *.
      destruct (high_surrogate u) eqn:Hh.
      { pose proof (high_range _ Hh) as Hur.
        destruct (N.eqb_spec ls 0) as [Hls|Hls]; cbn [negb] in H.
        - destruct (u16_loop f be true _ tl _ _) as [[s r0] c] eqn:E.
          apply Hrec in E; [|reflexivity]. inversion H; subst st' r cs; clear H.
          rewrite u16_pending_none in E. rewrite (proj2 (N.eqb_neq u 0)) in E by lia.
          unfold xpost in *. destruct r0; repeat split; lia.
        - inversion H; subst st' r cs; clear H. rewrite u16_pending_none. rewrite (proj2 (N.eqb_neq u 0)) by lia.
          unfold xpost. cbn [text_len]. repeat split; lia. }
      destruct (low_surrogate u) eqn:Hl.
      { destruct (N.eqb_spec ls 0) as [Hls|Hls].
        - inversion H; subst st' r cs; clear H. rewrite u16_pending_none. rewrite (proj2 (N.eqb_eq ls 0) Hls).
          unfold xpost. cbn [text_len]. repeat split; lia.
        - destruct (u16_loop f be true _ tl _ _) as [[s r0] c] eqn:E.
          apply Hrec in E; [|reflexivity]. inversion H; subst st' r cs; clear H.
          rewrite u16_pending_none in E. eqb_consts.
          specialize (Hlen8 (surrogate_pair ls u)).
          unfold xpost in *. cbn [text_len]. destruct r0; repeat split; lia. }
      destruct (N.eqb_spec ls 0) as [Hls|Hls]; cbn [negb] in H.
      * destruct (u16_loop f be true _ tl _ _) as [[s r0] c] eqn:E.
        apply Hrec in E; [|reflexivity]. inversion H; subst st' r cs; clear H.
        rewrite u16_pending_none in E. rewrite (proj2 (N.eqb_eq ls 0) Hls) in E.
        specialize (Hlen8 u).
        unfold xpost in *. cbn [text_len]. destruct r0; repeat split; lia.
      * inversion H; subst st' r cs; clear H. rewrite u16_pending_bmp.
        unfold xpost. cbn [text_len]. repeat split; lia.
    + (* first byte of a code unit *)
      destruct (u16_loop f be true _ tl _ _) as [[s r0] c] eqn:E.
      apply Hrec in E; [|reflexivity]. inversion H; subst st' r cs; clear H.
      rewrite u16_pending_lead in E.
      unfold xpost in *. rewrite text_len_app.
      destruct (N.le_gt_cases 1 k) as [Hk1|Hk1].
      * rewrite (Hk0' Hk1) in *. destruct r0; repeat split; lia.
      * assert (text_len cs0 = 0) by lia. destruct r0; repeat split; lia.
Qed.

Lemma u16_raw_post : forall be st rem spare st' r cs,
    u16_raw be true st rem spare = (st', r, cs) ->
    xpost (u16_pending st) (u16_pending st') (nlen rem) spare 0 r cs.
Proof.
  intros be st rem spare st' r cs H. unfold u16_raw in H.
  destruct (w_pending_bmp st) eqn:Epb.
  - destruct (N.ltb_spec spare 3).
    + inversion H; subst st' r cs. unfold xpost. cbn [text_len]. repeat split; lia.
    + destruct (u16_loop _ be true _ rem _ 0) as [[s r0] c] eqn:E.
      apply u16_loop_post in E; [|reflexivity|lia]. inversion H; subst st' r cs; clear H.
      assert (Hc : utf8_len (w_surrogate st mod 65536) <= 3).
      { pose proof (N.mod_lt (w_surrogate st) 65536 ltac:(lia)). unfold utf8_len.
        destruct (_ <? 128); [lia|]. destruct (_ <? 2048); [lia|].
        rewrite (proj2 (N.ltb_lt _ 65536)) by assumption. lia. }
      pose proof (utf8_len_range (w_surrogate st mod 65536)).
      assert (Hp : u16_pending (U16 0 (w_lead_byte st) false) + 2 = u16_pending st).
      { unfold u16_pending. cbn [w_surrogate w_lead_byte w_pending_bmp negb]. rewrite Epb. eqb_consts.
        cbn [andb negb]. rewrite andb_false_r. lia. }
      unfold xpost in *. cbn [text_len]. destruct r0; repeat split; lia.
  - apply u16_loop_post in H; [exact H|exact Epb|lia].
Qed.

(* ================================================================================================ *)
(* The decoder                                                                                       *)
(* ================================================================================================ *)
Lemma variant_step_post : forall v rem spare v' r cs,
    variant_step v rem spare = (v', r, cs) ->
    xpost (variant_pending v) (variant_pending v') (nlen rem) spare 0 r cs.
Proof.
  intros [s|be s] rem spare v' r cs H; cbn [variant_step variant_pending] in *.
  - destruct (u8_raw true s rem spare) as [[s' r0] c] eqn:E. inversion H; subst v' r cs. cbn [variant_pending].
    unfold u8_raw in E. apply u8_loop_post in E; [exact E|lia].
  - destruct (u16_raw be true s rem spare) as [[s' r0] c] eqn:E. inversion H; subst v' r cs. cbn [variant_pending].
    apply u16_raw_post in E. exact E.
Qed.

Lemma decoder_step_post : forall d rem spare d' r cs,
    decoder_step d rem spare = (d', r, cs) ->
    xpost (decoder_pending d) (decoder_pending d') (nlen rem) spare 0 r cs.
Proof.
  intros [start v] rem spare d' r cs H. unfold decoder_step in H. cbn [dc_at_start dc_variant] in H.
  unfold decoder_pending. cbn [dc_variant].
  assert (Hplain : forall v0, variant_pending v0 <= variant_pending v ->
             (let '(v', r, cs) := variant_step v0 rem spare in (Decoder false v', r, cs)) = (d', r, cs) ->
             xpost (variant_pending v) (variant_pending (dc_variant d')) (nlen rem) spare 0 r cs).
  { intros v0 Hle E. destruct (variant_step v0 rem spare) as [[v' r0] c] eqn:Ev.
    inversion E; subst d' r cs. cbn [dc_variant]. apply variant_step_post in Ev.
    unfold xpost in *. destruct r0; repeat split; lia. }
  destruct start; [|apply (Hplain v); [lia|exact H]].
  destruct rem as [|b0 tl].
  { inversion H; subst d' r cs. unfold xpost. cbn [text_len]. split; [lia|exact I]. }
  destruct (for_bom (b0 :: tl)) as [[e k]|] eqn:Eb; [|apply (Hplain v); [lia|exact H]].
  pose proof (for_bom_le _ _ _ Eb) as Hk.
  set (v0 := if encoding_eqb (variant_encoding v) e then v else new_variant e) in *.
  assert (Hv0 : variant_pending v0 <= variant_pending v).
  { unfold v0. destruct (encoding_eqb (variant_encoding v) e); [lia|].
    assert (E0 : variant_pending (new_variant e) = 0) by (destruct e; reflexivity). lia. }
  destruct (variant_step v0 (skipn (N.to_nat k) (b0 :: tl)) spare) as [[v' r0] c] eqn:Ev.
  inversion H; subst d' r cs. cbn [dc_variant]. apply variant_step_post in Ev. rewrite nlen_skipn in Ev.
  unfold xpost in *. destruct r0; cbn [add_read]; repeat split; lia.
Qed.

Lemma decoder_contract_holds : decoder_contract (erase_step decoder_step) decoder_pending DECODER_K.
Proof.
  unfold DECODER_K.
  split; unfold erase_step; intros d rem spare d'.
  - intros r E. destruct (decoder_step d rem spare) as [[d2 r0] cs] eqn:Ed. inversion E; subst d' r.
    apply decoder_step_post in Ed. unfold xpost in Ed.
    destruct r0; cbn [erase_result step_read step_written]; lia.
  - intros rd w E. destruct (decoder_step d rem spare) as [[d2 r0] cs] eqn:Ed. inversion E as [[E1 E2]]; subst d'.
    apply decoder_step_post in Ed. unfold xpost in Ed.
    destruct r0; cbn [erase_result] in E2; inversion E2; subst. lia.
  - intros ml af rd w E. destruct (decoder_step d rem spare) as [[d2 r0] cs] eqn:Ed. inversion E as [[E1 E2]]; subst d'.
    apply decoder_step_post in Ed. unfold xpost in Ed.
    destruct r0; cbn [erase_result] in E2; inversion E2; subst. lia.
  - intros ml af rd w E. destruct (decoder_step d rem spare) as [[d2 r0] cs] eqn:Ed. inversion E as [[E1 E2]]; subst d'.
    apply decoder_step_post in Ed. unfold xpost in Ed.
    destruct r0; cbn [erase_result] in E2; inversion E2; subst. lia.
Qed.

(* hence the termination theorem applies to the loop over the decoder models *)
Lemma decoder_models_terminate : forall e t input fuel, (decode_fuel input <= fuel)%nat ->
    outcome_ok (nlen input) (decode_loop_impl (erase_step decoder_step) fuel (new_decoder e) t input) = true.
Proof.
  intros e t input fuel Hf.
  apply (decode_loop_impl_terminates decoder (erase_step decoder_step) decoder_pending (new_decoder e)
           decoder_contract_holds); [destruct e; reflexivity|exact Hf].
Qed.

(* ================================================================================================ *)
(* The loop with content and the loop with lengths                                                   *)
(* ================================================================================================ *)
(* For the three built-in traps the loop that carries the text is, length by length, the loop of
   Model/Decode.v over the erased decoder. *)
Definition erase_trap (t : xtrap) : option trap :=
  match t with
  | XIgnore => Some Ignore
  | XStrict => Some Strict
  | XReplace => Some Replace
  | XCall _ => None
  end.

Definition erase_outcome (o : xoutcome) : outcome :=
  match o with
  | XDone text cap => Done (text_len text) cap
  | XDecodeError idx ml => DecodeError idx ml
  | XCallbackError => CallbackError
  | XPanicked p => Panicked p
  | XOutOfFuel => OutOfFuel
  end.

Section Erase.
  Variable dstate : Type.
  Variable xstep : dstate -> list N -> N -> dstate * xresult * list N.
  Variables div min : N.

  Definition erase_config (c : xconfig dstate) : config dstate :=
    Config (x_total c) (x_dec c) (text_len (x_text c)) (x_cap c).

  Lemma xloop_go_erase : forall xt t input fuel c, erase_trap xt = Some t ->
      erase_outcome (xloop_go dstate xstep div min fuel xt input c)
      = loop_go dstate (erase_step xstep) div min fuel t input (erase_config c).
  Proof.
    intros xt t input. induction fuel as [|f IH]; intros c Ht; [reflexivity|].
    cbn [xloop_go loop_go]. unfold xloop_step, loop_step, erase_config, erase_step. cbn [c_total c_dec c_len c_cap].
    destruct (nlen input <? x_total c); [reflexivity|].
    destruct (xstep (x_dec c) (skipn (N.to_nat (x_total c)) input) (x_cap c - text_len (x_text c))) as [[d' r] cs].
    destruct r as [|rd|ml af rd]; cbn [erase_result].
    - destruct (_ <? text_len cs); [reflexivity|]. cbn [erase_outcome]. rewrite text_len_app. reflexivity.
    - destruct (_ <? text_len cs); [reflexivity|]. rewrite IH by exact Ht. unfold erase_config.
      cbn [x_total x_dec x_text x_cap]. rewrite text_len_app. reflexivity.
    - destruct (_ <? text_len cs); [reflexivity|].
      destruct xt; inversion Ht; subst t.
      + rewrite IH by reflexivity. unfold erase_config. cbn [x_total x_dec x_text x_cap]. rewrite text_len_app. reflexivity.
      + destruct (malformed_index false _ _ _ _); reflexivity.
      + rewrite IH by reflexivity. unfold erase_config. cbn [x_total x_dec x_text x_cap].
        rewrite !text_len_app. reflexivity.
  Qed.
End Erase.

Lemma xdecode_loop_erase : forall xt t e input fuel, erase_trap xt = Some t ->
    erase_outcome (xdecode_loop_impl decoder_step fuel (new_decoder e) xt input)
    = decode_loop_impl (erase_step decoder_step) fuel (new_decoder e) t input.
Proof.
  intros xt t e input fuel Ht. unfold xdecode_loop_impl, xdecode_loop, decode_loop_impl, decode_loop.
  rewrite (xloop_go_erase decoder decoder_step RESERVE_DIV RESERVE_MIN xt t input fuel _ Ht). reflexivity.
Qed.

(* ================================================================================================ *)
(* The one exit of Utf16Decoder the model does not render literally                                  *)
(* ================================================================================================ *)
(* With a neutral state, or room for an astral character, a call never reports OutputFull after having
   consumed ALL of its input: the end-of-input exit `(OutputFull, 0, 0)` of utf_16.rs is not taken. *)
Lemma u16_no_eof_full : forall be fuel st rem spare rd st' rd' cs,
    w_pending_bmp st = false -> (length rem < fuel)%nat ->
    u16_neutral st = true \/ 4 <= spare ->
    u16_loop fuel be true st rem spare rd = (st', XOutputFull rd', cs) -> rd' < rd + nlen rem.
Proof.
  intros be. induction fuel as [|f IH]; intros st rem spare rd st' rd' cs Hpbf Hfuel HP H; [lia|].
  cbn [u16_loop] in H.
  destruct (u16_fast_facts be st rem spare) as (cs0 & k & err & rem1 & Ef & Ht & Hkn & Hl1 & Hl1' & Hk0 & Hpos & Herr).
  rewrite Ef in H. clear Ef.
  destruct err; [discriminate|].
  destruct st as [ls lb pb]. cbn [w_surrogate w_lead_byte w_pending_bmp] in H, Hpbf. subst pb.
  assert (Hsp1 : u16_neutral (U16 ls lb false) = false -> 4 <= spare - text_len cs0).
  { intros En. destruct (Hk0 En) as [-> ->]. cbn [text_len]. destruct HP as [HP|HP]; [congruence|lia]. }
  destruct rem1 as [|b tl].
  - cbn [andb] in H. destruct (u16_neutral (U16 ls lb false)) eqn:En; cbn [negb] in H; [discriminate|].
    specialize (Hsp1 eq_refl). rewrite (proj2 (N.ltb_ge (spare - text_len cs0) 3)) in H by lia.
    destruct (negb (ls =? 0)); [destruct lb; discriminate|discriminate].
  - rewrite nlen_cons in Hl1. cbn [length] in Hl1'.
    destruct (N.ltb_spec (spare - text_len cs0) 4) as [Hfull|Hroom].
    { inversion H; subst. lia. }
    assert (Hrec : forall st2 sp2 s c,
               u16_loop f be true st2 tl sp2 (rd + k + 1) = (s, XOutputFull rd', c) -> w_pending_bmp st2 = false ->
               u16_neutral st2 = true \/ 4 <= sp2 -> rd' < rd + nlen rem).
    { intros st2 sp2 s c E Hb2 HP2. pose proof (IH st2 tl sp2 (rd + k + 1) s rd' c Hb2 ltac:(lia) HP2 E). lia. }
    destruct lb as [lead|].
    + set (u := code_unit be lead b) in *.
      destruct (high_surrogate u).
      { destruct (negb (ls =? 0)); [discriminate|].
        destruct (u16_loop f be true _ tl _ _) as [[s r0] c] eqn:E. inversion H; subst.
        eapply Hrec; [exact E|reflexivity|right; lia]. }
      destruct (low_surrogate u).
      { destruct (ls =? 0); [discriminate|].
        destruct (u16_loop f be true _ tl _ _) as [[s r0] c] eqn:E. inversion H; subst.
        eapply Hrec; [exact E|reflexivity|left; reflexivity]. }
      destruct (N.eqb_spec ls 0) as [Hls|Hls]; cbn [negb] in H; [|discriminate].
      destruct (u16_loop f be true _ tl _ _) as [[s r0] c] eqn:E. inversion H; subst.
      eapply Hrec; [exact E|reflexivity|left; reflexivity].
    + destruct (u16_loop f be true _ tl _ _) as [[s r0] c] eqn:E. inversion H; subst.
      eapply Hrec; [exact E|reflexivity|right; lia].
Qed.

(* Hence: whenever a call of the UTF-16 decoder model reports OutputFull with all of its input consumed (the
   only way to reach that exit, or the preamble's), it has read nothing and written nothing: the model's
   (read, written) there is the literal (0, 0) of utf_16.rs.  (pending_bmp is only ever set together with
   lead_byte = None: Malformed(2, 2) is returned right after a whole code unit.) *)
Lemma u16_eof_exit_literal : forall be st rem spare st' rd' cs,
    (w_pending_bmp st = true -> w_lead_byte st = None) ->
    u16_raw be true st rem spare = (st', XOutputFull rd', cs) -> rd' = nlen rem -> rem = [] /\ cs = [] /\ st' = st.
Proof.
  intros be st rem spare st' rd' cs Hinv H Hall. unfold u16_raw in H.
  destruct (w_pending_bmp st) eqn:Hpb.
  { destruct (spare <? 3).
    - inversion H as [[E1 E2 E3]]. rewrite <- E2 in Hall. symmetry in Hall. apply nlen_zero in Hall.
      split; [exact Hall|]. split; reflexivity.
    - rewrite (Hinv eq_refl) in H.
      destruct (u16_loop _ be true _ rem _ 0) as [[s r0] c] eqn:E. inversion H; subst s r0 cs. clear H.
      pose proof (u16_no_eof_full be _ (U16 0 None false) rem _ 0 st' rd' c eq_refl (Nat.lt_succ_diag_r _) (or_introl eq_refl) E). lia. }
  destruct (u16_neutral st) eqn:En.
  { pose proof (u16_no_eof_full be _ st rem spare 0 st' rd' cs Hpb (Nat.lt_succ_diag_r _) (or_introl En) H). lia. }
  destruct (N.le_gt_cases 4 spare) as [Hs|Hs].
  { pose proof (u16_no_eof_full be _ st rem spare 0 st' rd' cs Hpb (Nat.lt_succ_diag_r _) (or_intror Hs) H). lia. }
  cbn [u16_loop] in H. rewrite En in H. cbn [andb text_len] in H. rewrite N.sub_0_r, N.add_0_r in H.
  destruct rem as [|b tl].
  - cbn [andb negb] in H. destruct (spare <? 3).
    + inversion H; subst. repeat split; reflexivity.
    + destruct (negb (w_surrogate st =? 0)); [destruct (w_lead_byte st); discriminate|discriminate].
  - rewrite (proj2 (N.ltb_lt spare 4) Hs) in H. inversion H as [[E1 E2 E3]]. rewrite nlen_cons in Hall. lia.
Qed.
